(* Soundness of the linear-time chain checker (Check/ChainCheck.v): a table accepted by [chain_table_okb] - in ANY
   iteration order - meets C01's hypotheses (tbl_ok, exts_sym), also exts_sym_pal / exts_closed (hence is a valid
   graph of C09 when read one k-mer per node), all its keys are connected by mergeable links, and therefore
   compress_kmers (and compress_graph on the one-k-mer-per-node graph) returns exactly ONE node spelling all k-mers.
   Route: the checker establishes a half-link [hlink] at every junction; half-links are symmetric (k-mer algebra of
   knext_sym, without assuming exts_sym); every side of every entry is then either empty or half-linked to an entry of
   the table [side_ok], from which the hypotheses follow; consecutive entries are [kstep]-related (Proofs/UnitigOrder.v,
   invariant under permutation of the table); C02 same_node_iff + C01 partition give the single node. *)
From Coq Require Import NArith List Bool Arith Lia Permutation Relations FMapPositive.
From DBG Require Import Proofs.AbstractWalk.
From DBG Require Import Spec.Dna Spec.GraphIndex Spec.Unitig Spec.CompressSpec Packed.ExtsModel Algo.Compress
  Algo.GraphModel Algo.Recompress Check.RecompCheck Check.ChainCheck
  Proofs.ListFacts Proofs.DnaFacts Proofs.ExtsProofs Proofs.ExtsWalk Proofs.KmerAlgebra Proofs.CompressBasics
  Proofs.CompressRefine Proofs.CompressWalk Proofs.CompressProofs Proofs.UnitigProofs Proofs.UnitigOrder
  Proofs.CompressHypProofs Proofs.CompressGraphOk Proofs.RoutesSingleton.
Import ListNotations.
Local Open Scope nat_scope.

(* ---- distinctness by trie insertion ------------------------------------------------------------------------------- *)
Lemma distinct_pos_sound l : forall seen, distinct_pos seen l = true ->
  NoDup l /\ forall p, In p l -> PositiveMap.find p seen = None.
Proof.
  induction l as [|p r IH]; intros seen H; cbn [distinct_pos] in H.
  - split; [constructor | intros p []].
  - destruct (PositiveMap.find p seen) eqn:E; [discriminate|].
    destruct (IH _ H) as [Hnd Hf]. split.
    + constructor; [|exact Hnd]. intro Hin. specialize (Hf p Hin). rewrite PositiveMap.gss in Hf. discriminate.
    + intros q [<-|Hq]; [exact E|]. specialize (Hf q Hq).
      destruct (Pos.eq_dec q p) as [->|Hne]; [exact E|]. rewrite PositiveMap.gso in Hf by exact Hne. exact Hf.
Qed.
Lemma distinct_keysb_sound ks : distinct_keysb ks = true -> NoDup ks.
Proof.
  unfold distinct_keysb. intro H. apply distinct_pos_sound in H. destruct H as [H _].
  eapply NoDup_map_inv; eauto.
Qed.

Lemma NoDup_app_disj {A} (a b : list A) x : NoDup (a ++ b) -> In x a -> In x b -> False.
Proof.
  induction a as [|y a IH]; intros Hnd Ha Hb; [destruct Ha|]. cbn [app] in Hnd. inversion Hnd as [|? ? Hy Hnd']; subst.
  destruct Ha as [->|Ha]; [apply Hy; apply in_or_app; now right | eauto].
Qed.

Section Chain.
Variable D : Type.
Variable join : D -> D -> bool.
Variable K : nat.
Variable stranded : bool.
Hypothesis HK : 1 <= K.
Local Notation entry := (entry D).
Local Notation table := (table D).
Local Notation ekey := (e_key D).
Local Notation eexts := (e_exts D).

(* ---- one entry ---------------------------------------------------------------------------------------------------- *)
Definition entry_ok (e : entry) : Prop :=
  length (ekey e) = K /\ wf_dna (ekey e) /\ (stranded = false -> canon (ekey e) = ekey e) /\
  (eexts e < 256)%N /\ kpal stranded (ekey e) = false.

Lemma entry_okb_ok e : entry_okb D K stranded e = true -> entry_ok e.
Proof.
  unfold entry_okb. intro H.
  apply andb_prop in H as [H H5]. apply andb_prop in H as [H H4]. apply andb_prop in H as [H H3].
  apply andb_prop in H as [H1 H2].
  split; [now apply Nat.eqb_eq|]. split; [now apply wf_dnab_wf|]. split.
  - intro Hst. rewrite Hst in H3. cbn [orb] in H3. now apply dna_eqb_eq.
  - split; [now apply N.ltb_lt | now apply negb_true_iff].
Qed.

Lemma tbl_ok_of (T : table) : (forall e, In e T -> entry_ok e) -> NoDup (keys D T) -> tbl_ok D K stranded T.
Proof.
  intros Hall Hnd. constructor.
  - exact Hnd.
  - intros e He. apply (Hall e He).
  - intros e He. apply (Hall e He).
  - intros Hst e He. now apply (Hall e He).
  - intros e He. apply (Hall e He).
Qed.

(* ---- one junction ------------------------------------------------------------------------------------------------- *)
(* [ent] has exactly one extension on side d; it leads to the key of [yent], entered through side d'; [yent] has exactly
   one extension on side d' and it is the base [ent] loses (no join predicate here) *)
Definition hlink (ent yent : entry) (d d' : dir) : Prop :=
  e_num_ext_dir (eexts ent) (dirb d) = 1%N /\
  exists b fl, e_get_unique_extension (eexts ent) (dirb d) = Some b /\
    kcanon_flip stranded (extend (ekey ent) b d) = (ekey yent, fl) /\
    d' = cond_flip (dflip d) fl /\
    e_num_ext_dir (eexts yent) (dirb d') = 1%N /\
    e_has_ext (eexts yent) (dirb d') ((if fl then comp else (fun c => c)) (outer (ekey ent) (dflip d))) = true.

Lemma step_okb_spec ent yent d d' : step_okb D join stranded ent yent d = Some d' ->
  hlink ent yent d d' /\ join (e_data D ent) (e_data D yent) = true.
Proof.
  unfold step_okb. destruct (negb (e_num_ext_dir (eexts ent) (dirb d) =? 1)%N) eqn:Hn; [discriminate|].
  apply negb_false_iff, N.eqb_eq in Hn.
  destruct (e_get_unique_extension (eexts ent) (dirb d)) as [b|] eqn:Hu; [|discriminate].
  destruct (kcanon_flip stranded (extend (ekey ent) b d)) as [y fl] eqn:Hyf. cbn [fst snd].
  destruct (_ && _ && _ && _) eqn:Hc; [|discriminate]. intro H. injection H as <-.
  apply andb_prop in Hc as [Hc H4]. apply andb_prop in Hc as [Hc H3]. apply andb_prop in Hc as [H1 H2].
  apply dna_eqb_eq in H1. subst y. apply N.eqb_eq in H2.
  split; [|exact H4]. split; [exact Hn|]. exists b, fl. auto 10.
Qed.

Lemma entry_ne e : entry_ok e -> ekey e <> [].
Proof. intros (L & _) E. rewrite E in L. cbn in L. lia. Qed.
Lemma entry_outer4 e d : entry_ok e -> (outer (ekey e) d < 4)%N.
Proof.
  intro H. pose proof (entry_ne e H) as Hne. destruct H as (_ & W & _).
  destruct d; cbn [outer]; [apply wf_hd | apply wf_last]; auto.
Qed.

(* the half-link is symmetric: this is the algebra of knext_sym (Proofs/UnitigProofs.v), with the return extension
   checked instead of assumed *)
Lemma hlink_sym ent yent d d' : entry_ok ent -> entry_ok yent -> hlink ent yent d d' -> hlink yent ent d' d.
Proof.
  intros Hex Hey (Hnx & b & fl & Hu & Hyf & Hd' & Hny & Hhas).
  pose proof (entry_ne _ Hex) as Hxne. pose proof (entry_outer4 _ (dflip d) Hex) as Ho4.
  destruct Hex as (Lx & Wx & Cx & Ex & Px). destruct Hey as (Ly & Wy & Cy & Ey & Py).
  set (x := ekey ent) in *. set (y := ekey yent) in *.
  assert (Hrcne : rc x <> []) by (intro H; apply (proj1 (rc_nil_iff x)) in H; exact (Hxne H)).
  destruct (unique_ext_spec _ _ Ex Hnx) as [b0 [Hu0 [Hb [Hhb _]]]]. rewrite Hu in Hu0. injection Hu0 as <-.
  destruct (unique_ext_spec _ _ Ey Hny) as [c [Huy [Hc [_ Huniq]]]].
  assert (Hb'4 : ((if fl then comp else fun c0 => c0) (outer x (dflip d)) < 4)%N) by (destruct fl; [apply comp_lt4 | exact Ho4]).
  assert (Hcb : (if fl then comp else fun c0 => c0) (outer x (dflip d)) = c) by (apply Huniq; auto).
  assert (Hst : stranded = true \/ stranded = false) by (destruct stranded; auto).
  assert (Hback : kcanon_flip stranded (extend y c d') = (x, fl) /\ cond_flip (dflip d') fl = d /\
                  (if fl then comp else fun c0 => c0) (outer y (dflip d')) = b).
  { rewrite <- Hcb. destruct (kcanon_flip_cases _ _ _ _ Hyf) as [[-> Hy]|[Hs [-> Hy]]]; cbn [cond_flip] in Hd'; subst d'.
    - rewrite Hy, extend_back by auto. cbn [cond_flip]. rewrite dflip_dflip. split; [|split; [reflexivity|apply outer_extend]].
      unfold kcanon_flip. destruct Hst as [Hs|Hs]; rewrite Hs; [reflexivity|].
      apply canon_flip_canonical; [now apply Cx | now apply (kpal_false_ne stranded)].
    - cbn [cond_flip]. rewrite !dflip_dflip. split; [|split; [reflexivity|]].
      + rewrite Hy, rc_extend by auto. rewrite <- (outer_rc x d Hxne).
        rewrite <- (dflip_dflip d) at 2 3. rewrite extend_back by auto.
        unfold kcanon_flip. rewrite Hs.
        apply canon_flip_rc_canonical; auto; now apply (kpal_false_ne stranded).
      + rewrite Hy. rewrite outer_rc.
        * rewrite dflip_dflip, outer_extend. now apply comp_involutive.
        * intro E. apply (f_equal (@length _)) in E. rewrite extend_length in E by auto. cbn in E. lia. }
  destruct Hback as (Hb1 & Hb2 & Hb3).
  split; [exact Hny|]. exists c, fl. split; [exact Huy|]. split; [exact Hb1|]. split; [now symmetry|].
  split; [exact Hnx|]. fold y. rewrite Hb3. exact Hhb.
Qed.

(* ---- the walk ------------------------------------------------------------------------------------------------------ *)
Inductive walk : entry -> dir -> list entry -> Prop :=
| walk_nil ent d : e_num_ext_dir (eexts ent) (dirb d) = 0%N -> walk ent d []
| walk_cons ent d y d' rest : hlink ent y d d' -> join (e_data D ent) (e_data D y) = true ->
    walk y (dflip d') rest -> walk ent d (y :: rest).

Lemma chain_walk_sound rest : forall ent d, chain_walk D join stranded ent d rest = true -> walk ent d rest.
Proof.
  induction rest as [|y rest IH]; intros ent d H; cbn [chain_walk] in H.
  - constructor. now apply N.eqb_eq.
  - destruct (step_okb D join stranded ent y d) as [d'|] eqn:Hs; [|discriminate].
    destruct (step_okb_spec _ _ _ _ Hs) as [Hl Hj]. econstructor; eauto.
Qed.

(* every side of every entry is empty or half-linked to an entry of the table *)
Definition side_ok (T : table) (ent : entry) (d : dir) : Prop :=
  e_num_ext_dir (eexts ent) (dirb d) = 0%N \/ exists yent d', In yent T /\ hlink ent yent d d'.

Lemma side_ok_incl T T' ent d : (forall e, In e T -> In e T') -> side_ok T ent d -> side_ok T' ent d.
Proof. intros Hi [H|(y & d' & Hy & Hl)]; [now left | right; exists y, d'; auto]. Qed.

Lemma walk_sides (T : table) ent d rest : walk ent d rest ->
  (forall e, In e (ent :: rest) -> In e T /\ entry_ok e) -> side_ok T ent (dflip d) ->
  forall e, In e (ent :: rest) -> forall s, side_ok T e s.
Proof.
  induction 1 as [ent d H0 | ent d y d' rest Hl Hj Hw IH]; intros Hall Hback e He s.
  - destruct He as [<-|[]]. destruct (dir_cases s d) as [->| ->]; [now left | exact Hback].
  - destruct He as [<-|He].
    + destruct (dir_cases s d) as [->| ->]; [|exact Hback]. right. exists y, d'. split; [|exact Hl].
      apply Hall. right. now left.
    + apply IH; auto.
      * intros e' He'. apply Hall. now right.
      * rewrite dflip_dflip. right. exists ent, d. split; [apply Hall; now left|].
        apply hlink_sym; auto; apply Hall; [now left | right; now left].
Qed.

(* consecutive entries are kstep-related or equal: all keys of the walk are connected to its first key *)
Lemma walk_conn (T : table) ent d rest : walk ent d rest ->
  (forall e, In e (ent :: rest) -> In e T /\ entry_ok e) ->
  forall y, In y rest -> kconn D join stranded T (ekey ent) (ekey y).
Proof.
  induction 1 as [ent d H0 | ent d y d' rest Hl Hj Hw IH]; intros Hall z Hz; [destruct Hz|].
  assert (Hxy : kconn D join stranded T (ekey ent) (ekey y)).
  { destruct (list_eq_dec N.eq_dec (ekey ent) (ekey y)) as [E|Hne]; [rewrite E; apply rst_refl|].
    apply rst_step. exists ent, y, d, d'.
    destruct (Hall ent (or_introl eq_refl)) as [Hi1 Hok1]. destruct (Hall y (or_intror (or_introl eq_refl))) as [Hi2 Hok2].
    split; [exact Hi1|]. split; [exact Hi2|]. split; [reflexivity|]. split; [reflexivity|]. split; [exact Hne|].
    destruct Hl as (Hnx & b & fl & Hu & Hyf & Hd' & Hny & Hhas).
    destruct Hok1 as (_ & _ & _ & _ & Px). destruct Hok2 as (_ & _ & _ & _ & Py).
    split; [exact Px|]. split; [exact Hnx|]. exists b, fl. auto 10. }
  destruct Hz as [<-|Hz]; [exact Hxy|].
  eapply rst_trans; [exact Hxy|]. apply IH; auto. intros e' He'. apply Hall. now right.
Qed.

(* ---- a table all of whose sides are ok ------------------------------------------------------------------------------ *)
Section Table.
Variable T : table.
Hypothesis Hok : tbl_ok D K stranded T.
Hypothesis Hall : forall e, In e T -> entry_ok e.
Hypothesis Hsides : forall e, In e T -> forall s, side_ok T e s.

Lemma in_get_entry e : In e T -> get_entry D T (ekey e) = Some e.
Proof. intro H. apply In_nth_error in H. destruct H as [i Hi]. eapply get_entry_key; eauto. Qed.

Lemma ext_target ent d b : In ent T -> (b < 4)%N -> e_has_ext (eexts ent) (dirb d) b = true ->
  exists yent fl, In yent T /\ kcanon_flip stranded (extend (ekey ent) b d) = (ekey yent, fl) /\
    e_has_ext (eexts yent) (dirb (cond_flip (dflip d) fl))
              ((if fl then comp else (fun c => c)) (outer (ekey ent) (dflip d))) = true.
Proof.
  intros Hin Hb Hh. destruct (Hall _ Hin) as (_ & _ & _ & Ex & _).
  destruct (Hsides _ Hin d) as [H0|(yent & d' & Hy & Hnx & b0 & fl & Hu & Hyf & Hd' & Hny & Hhas)].
  - exfalso. exact (has_ext_num _ _ _ Ex Hb Hh H0).
  - destruct (unique_ext_spec _ _ Ex Hnx) as [b1 [Hu1 [_ [_ Huniq]]]]. rewrite Hu in Hu1. injection Hu1 as <-.
    rewrite (Huniq b Hb Hh). exists yent, fl. subst d'. auto.
Qed.

Lemma sides_exts_sym : exts_sym D stranded T.
Proof.
  intros ent d b yent Hin Hb Hh. cbv zeta. destruct (ext_target ent d b Hin Hb Hh) as (y & fl & Hy & Hyf & Hback).
  rewrite Hyf. cbn [fst snd]. rewrite (in_get_entry _ Hy). intro E. injection E as <-. now right.
Qed.
Lemma sides_exts_closed : exts_closed D stranded T.
Proof.
  intros ent d b Hin Hb Hh. destruct (ext_target ent d b Hin Hb Hh) as (y & fl & Hy & Hyf & _).
  rewrite Hyf. cbn [fst]. apply In_nth_error in Hy. destruct Hy as [i Hi].
  rewrite (get_id_key D K stranded T Hok _ _ Hi). discriminate.
Qed.
Lemma sides_exts_sym_pal : exts_sym_pal D stranded T.
Proof.
  intros ent d b yent Hin Hb Hh. cbv zeta. destruct (ext_target ent d b Hin Hb Hh) as (y & fl & Hy & Hyf & _).
  rewrite Hyf. cbn [fst snd]. intros _ Hp. destruct (Hall _ Hy) as (_ & _ & _ & _ & Py). congruence.
Qed.
Lemma sides_rvalid : rvalid D K stranded T.
Proof.
  apply singleton_rvalid; auto using sides_exts_sym, sides_exts_sym_pal, sides_exts_closed.
Qed.
End Table.

(* ---- what the checker establishes ------------------------------------------------------------------------------------ *)
(* the facts, for the table in chain order *)
Record chain_facts (T : table) : Prop := {
  cf_ne : T <> [];
  cf_ok : tbl_ok D K stranded T;
  cf_all : forall e, In e T -> entry_ok e;
  cf_sides : forall e, In e T -> forall s, side_ok T e s;
  cf_conn : forall kx ky, In kx (keys D T) -> In ky (keys D T) -> kconn D join stranded T kx ky }.

Lemma chain_facts_of_walk e0 d rest :
  (forall e, In e (e0 :: rest) -> entry_ok e) -> NoDup (keys D (e0 :: rest)) ->
  e_num_ext_dir (eexts e0) (dirb (dflip d)) = 0%N -> walk e0 d rest -> chain_facts (e0 :: rest).
Proof.
  intros Hall Hnd H0 Hw.
  assert (Hall' : forall e, In e (e0 :: rest) -> In e (e0 :: rest) /\ entry_ok e) by (intros e He; split; auto).
  assert (Hc : forall y, In y (e0 :: rest) -> kconn D join stranded (e0 :: rest) (ekey e0) (ekey y)).
  { intros y [<-|Hy]; [apply rst_refl|]. eapply walk_conn; eauto. }
  constructor; auto.
  - discriminate.
  - now apply tbl_ok_of.
  - eapply walk_sides; eauto. now left.
  - intros kx ky Hx Hy. unfold keys in Hx, Hy. apply in_map_iff in Hx as [ex [<- Hx]]. apply in_map_iff in Hy as [ey [<- Hy]].
    eapply rst_trans; [apply rst_sym; apply Hc; exact Hx | apply Hc; exact Hy].
Qed.

End Chain.

Theorem chain_table_okb_facts D join K stranded (T : table D) :
  chain_table_okb D join K stranded T = true -> 1 <= K /\ chain_facts D join K stranded T.
Proof.
  unfold chain_table_okb. destruct T as [|e0 rest]; [discriminate|]. intro H.
  apply andb_prop in H as [H H4]. apply andb_prop in H as [H H3]. apply andb_prop in H as [H1 H2].
  apply Nat.leb_le in H1. split; [exact H1|].
  assert (Hall : forall e, In e (e0 :: rest) -> entry_ok D K stranded e).
  { intros e He. rewrite forallb_forall in H2. apply entry_okb_ok. auto. }
  apply distinct_keysb_sound in H3.
  apply orb_prop in H4. destruct H4 as [H4|H4]; apply andb_prop in H4 as [H0 Hw]; apply N.eqb_eq in H0;
    apply chain_walk_sound in Hw.
  - exact (chain_facts_of_walk D join K stranded H1 e0 DRight rest Hall H3 H0 Hw).
  - exact (chain_facts_of_walk D join K stranded H1 e0 DLeft rest Hall H3 H0 Hw).
Qed.

(* the facts are invariant under permutation of the table (the hash iterates in its own order) *)
Lemma chain_facts_perm D join K stranded (HK : 1 <= K) (T T' : table D) :
  Permutation T T' -> chain_facts D join K stranded T -> chain_facts D join K stranded T'.
Proof.
  intros Hp [H1 H2 H3 H4 H5].
  assert (Hin : forall e, In e T' -> In e T) by (intros e He; eapply Permutation_in; [symmetry|]; eauto).
  assert (Hin' : forall e, In e T -> In e T') by (intros e He; eapply Permutation_in; eauto).
  assert (Hk : forall k, In k (keys D T') -> In k (keys D T)).
  { intros k Hk. unfold keys in *. eapply Permutation_in; [apply Permutation_map; symmetry; exact Hp | exact Hk]. }
  constructor.
  - intro E. subst T'. apply Permutation_sym, Permutation_nil in Hp. congruence.
  - eapply tbl_ok_perm; eauto.
  - auto.
  - intros e He s. eapply side_ok_incl; [exact Hin'|]. auto.
  - intros kx ky Hx Hy. eapply kconn_perm; eauto.
Qed.

(* ---- the main theorem ------------------------------------------------------------------------------------------------- *)
Section Main.
Variable D : Type.
Variable reduce : D -> D -> D.
Variable join : D -> D -> bool.
Variable K : nat.
Variable stranded : bool.
Hypothesis HK : 1 <= K.
Hypothesis join_sym : forall a b, join a b = join b a.
Variable T : table D.
Hypothesis HF : chain_facts D join K stranded T.

Let Hok := cf_ok _ _ _ _ _ HF.
Let Hsym : exts_sym D stranded T := sides_exts_sym D K stranded T Hok (cf_all _ _ _ _ _ HF) (cf_sides _ _ _ _ _ HF).

Lemma facts_all_mconn i j : i < length T -> j < length T -> mconn D join stranded T i j.
Proof.
  intros Hi Hj. apply (kconn_mconn D join K stranded HK T Hok); auto.
  assert (Hk : forall i, i < length T -> In (kkey D T i) (keys D T)).
  { intros i0 Hi0. destruct (nth_error T i0) as [e|] eqn:E; [|apply nth_error_None in E; lia].
    rewrite (kkey_nth D T _ _ E). unfold keys. apply in_map. eapply nth_error_In; eauto. }
  apply (cf_conn _ _ _ _ _ HF); auto.
Qed.

Theorem facts_single_node nodes : compress_kmers D reduce join stranded T = Some nodes ->
  exists n, nodes = [n] /\ length (CompressSpec.n_seq D n) = length T + K - 1 /\
            Permutation (node_keys D K stranded n) (keys D T).
Proof.
  intro Hc.
  destruct (same_node_iff D reduce join K stranded HK T Hok Hsym join_sym) as [nodes1 [Hc1 Hiff]].
  destruct (compress_c01 D reduce join K stranded HK T Hok Hsym) as [nodes2 [Hc2 [Hpart _]]].
  destruct (compress_refines D reduce join K stranded HK T Hok Hsym) as [nodes3 [Hc3 Hrel]].
  rewrite Hc in Hc1, Hc2, Hc3. injection Hc1 as <-. injection Hc2 as <-. injection Hc3 as <-.
  (* every node spells at least one k-mer *)
  assert (Hlen : forall n, In n nodes -> K <= length (CompressSpec.n_seq D n)).
  { intros n Hn. destruct (Forall2_in_l _ _ _ Hrel n Hn) as [[[lp i] rp] [Hin Hr]].
    destruct (node_facts D reduce join K stranded HK T Hok Hsym _ _ _ _ Hr Hin) as (_ & _ & L & _). lia. }
  assert (Hkl : forall n, In n nodes -> length (node_keys D K stranded n) = length (CompressSpec.n_seq D n) + 1 - K).
  { intros n Hn. unfold node_keys, node_windows. rewrite map_length. apply kmers_length. auto. }
  assert (Hkey : forall n, In n nodes -> exists k, In k (node_keys D K stranded n)).
  { intros n Hn. specialize (Hkl n Hn). specialize (Hlen n Hn).
    destruct (node_keys D K stranded n) as [|k l]; [cbn in Hkl; lia | exists k; now left]. }
  unfold partition_ok in Hpart.
  assert (Hnd : NoDup (concat (map (node_keys D K stranded) nodes))).
  { eapply Permutation_NoDup; [symmetry; exact Hpart | apply (ok_nodup _ _ _ _ Hok)]. }
  assert (Hidx : forall k, In k (keys D T) -> exists i, i < length T /\ kkey D T i = k).
  { intros k Hk. unfold keys in Hk. apply in_map_iff in Hk. destruct Hk as [e [<- He]].
    apply In_nth_error in He. destruct He as [i Hi]. exists i. split; [eapply valid_nth; eauto | eapply kkey_nth; eauto]. }
  assert (Hsame : forall kx ky, In kx (keys D T) -> In ky (keys D T) -> same_node D K stranded nodes kx ky).
  { intros kx ky Hx Hy. destruct (Hidx kx Hx) as [i [Hi <-]]. destruct (Hidx ky Hy) as [j [Hj <-]].
    apply Hiff; auto. now apply facts_all_mconn. }
  destruct nodes as [|n [|m rest]].
  - (* no node: the table is empty *)
    exfalso. cbn in Hpart. apply Permutation_nil in Hpart. apply (cf_ne _ _ _ _ _ HF).
    unfold keys in Hpart. now apply map_eq_nil in Hpart.
  - exists n. split; [reflexivity|]. cbn [map concat] in Hpart. rewrite app_nil_r in Hpart.
    split; [|exact Hpart].
    pose proof (Permutation_length Hpart) as L. rewrite (Hkl n (or_introl eq_refl)) in L.
    unfold keys in L. rewrite map_length in L. specialize (Hlen n (or_introl eq_refl)). lia.
  - (* two nodes: a key of the first and a key of the second would share a node *)
    exfalso.
    destruct (Hkey n (or_introl eq_refl)) as [kn Hkn]. destruct (Hkey m (or_intror (or_introl eq_refl))) as [km Hkm].
    cbn [map concat] in Hnd, Hpart.
    assert (Hx : In kn (keys D T)) by (eapply Permutation_in; [exact Hpart | apply in_or_app; now left]).
    assert (Hy : In km (keys D T)).
    { eapply Permutation_in; [exact Hpart | apply in_or_app; right; apply in_or_app; now left]. }
    destruct (Hsame kn km Hx Hy) as (p & Hp & Hp1 & Hp2).
    destruct Hp as [<-|[<-|Hp]].
    + eapply (NoDup_app_disj _ _ km Hnd); [exact Hp2 | apply in_or_app; now left].
    + eapply (NoDup_app_disj _ _ kn Hnd); [exact Hkn | apply in_or_app; now left].
    + eapply (NoDup_app_disj _ _ kn Hnd); [exact Hkn | apply in_or_app; right].
      apply in_concat. exists (node_keys D K stranded p). split; [now apply in_map | exact Hp1].
Qed.

Lemma facts_total : exists nodes, compress_kmers D reduce join stranded T = Some nodes.
Proof. destruct (compress_refines D reduce join K stranded HK T Hok Hsym) as [nodes [Hc _]]. eauto. Qed.

Lemma facts_rvalid : rvalid D K stranded T.
Proof. apply sides_rvalid; auto; [apply (cf_all _ _ _ _ _ HF) | apply (cf_sides _ _ _ _ _ HF)]. Qed.

Lemma facts_graph_eq : compress_graph D reduce join K stranded T None = compress_kmers D reduce join stranded T.
Proof. apply singleton_route_exact; auto. apply facts_rvalid. Qed.
End Main.

(* ==== statements exported to Properties/C02Chain.v ===================================================================== *)
Theorem chain_hypotheses D join K stranded (T T' : table D) :
  chain_table_okb D join K stranded T = true -> Permutation T T' ->
  1 <= K /\ tbl_ok D K stranded T' /\ exts_sym D stranded T' /\ exts_sym_pal D stranded T' /\
  exts_closed D stranded T' /\ rvalid D K stranded T'.
Proof.
  intros H Hp. destruct (chain_table_okb_facts _ _ _ _ _ H) as [HK HF].
  pose proof (chain_facts_perm D join K stranded HK T T' Hp HF) as HF'.
  pose proof (cf_ok _ _ _ _ _ HF') as Hok.
  split; [exact HK|]. split; [exact Hok|].
  split; [apply (sides_exts_sym D K stranded T' Hok); apply HF'|].
  split; [apply (sides_exts_sym_pal D K stranded T'); apply HF'|].
  split; [apply (sides_exts_closed D K stranded T' Hok); apply HF'|].
  eapply facts_rvalid; eauto.
Qed.

Theorem chain_all_connected D join K stranded (T T' : table D) :
  chain_table_okb D join K stranded T = true -> Permutation T T' ->
  forall i j, i < length T' -> j < length T' -> mconn D join stranded T' i j.
Proof.
  intros H Hp. destruct (chain_table_okb_facts _ _ _ _ _ H) as [HK HF].
  pose proof (chain_facts_perm D join K stranded HK T T' Hp HF) as HF'.
  intros i j. eapply facts_all_mconn; eauto.
Qed.

Theorem chain_single_node D reduce join K stranded (T T' : table D) :
  chain_table_okb D join K stranded T = true -> (forall a b, join a b = join b a) -> Permutation T T' ->
  forall nodes, compress_kmers D reduce join stranded T' = Some nodes ->
  exists n, nodes = [n] /\ length (CompressSpec.n_seq D n) = length T + K - 1 /\
            Permutation (node_keys D K stranded n) (keys D T).
Proof.
  intros H Hj Hp nodes Hc. destruct (chain_table_okb_facts _ _ _ _ _ H) as [HK HF].
  pose proof (chain_facts_perm D join K stranded HK T T' Hp HF) as HF'.
  destruct (facts_single_node D reduce join K stranded HK Hj T' HF' nodes Hc) as (n & E & L & P).
  exists n. split; [exact E|]. rewrite (Permutation_length Hp). split; [exact L|].
  eapply Permutation_trans; [exact P|]. unfold keys. apply Permutation_map. now symmetry.
Qed.

Theorem chain_total D reduce join K stranded (T T' : table D) :
  chain_table_okb D join K stranded T = true -> (forall a b, join a b = join b a) -> Permutation T T' ->
  exists n, compress_kmers D reduce join stranded T' = Some [n] /\ length (CompressSpec.n_seq D n) = length T + K - 1 /\
            Permutation (node_keys D K stranded n) (keys D T).
Proof.
  intros H Hj Hp. destruct (chain_table_okb_facts _ _ _ _ _ H) as [HK HF].
  pose proof (chain_facts_perm D join K stranded HK T T' Hp HF) as HF'.
  destruct (facts_total D reduce join K stranded HK T' HF') as [nodes Hc].
  destruct (chain_single_node D reduce join K stranded T T' H Hj Hp nodes Hc) as (n & -> & R). eauto.
Qed.

(* the implementation-side check: what C02 demands of the output of compress_kmers on such a table *)
Theorem chain_chk_single_node D reduce join K stranded (T T' : table D) :
  chain_table_okb D join K stranded T = true -> (forall a b, join a b = join b a) -> Permutation T T' ->
  forall nodes, compress_kmers D reduce join stranded T' = Some nodes ->
  chk_single_node D K nodes (length T) = true.
Proof.
  intros H Hj Hp nodes Hc. destruct (chain_single_node D reduce join K stranded T T' H Hj Hp nodes Hc) as (n & -> & L & _).
  unfold chk_single_node. now apply Nat.eqb_eq.
Qed.

(* C09: compress_graph on the one-k-mer-per-node graph of the chain *)
Theorem chain_graph_single_node D reduce join K stranded (T T' : table D) :
  chain_table_okb D join K stranded T = true -> (forall a b, join a b = join b a) -> Permutation T T' ->
  compress_graph D reduce join K stranded T' None = compress_kmers D reduce join stranded T' /\
  exists n, compress_graph D reduce join K stranded T' None = Some [n] /\ length (CompressSpec.n_seq D n) = length T + K - 1 /\
            Permutation (node_keys D K stranded n) (keys D T).
Proof.
  intros H Hj Hp. destruct (chain_table_okb_facts _ _ _ _ _ H) as [HK HF].
  pose proof (chain_facts_perm D join K stranded HK T T' Hp HF) as HF'.
  pose proof (facts_graph_eq D reduce join K stranded HK Hj T' HF') as E. split; [exact E|]. rewrite E.
  apply chain_total; auto.
Qed.

(* ... and its contrapositive: an implementation output that is not one node of that length is not what the model
   returns, for any iteration order *)
Corollary chain_chk_refutes D reduce join K stranded (T T' : table D) :
  chain_table_okb D join K stranded T = true -> (forall a b, join a b = join b a) -> Permutation T T' ->
  forall impl_nodes, chk_single_node D K impl_nodes (length T) = false ->
  compress_kmers D reduce join stranded T' <> Some impl_nodes.
Proof.
  intros H Hj Hp nodes Hf Hc. rewrite (chain_chk_single_node D reduce join K stranded T T' H Hj Hp nodes Hc) in Hf.
  discriminate.
Qed.
