(* routes (3): the three routes of the direct pipeline model return the SAME graph, node for node.
     route 0  compress_kmers T
     route 1  compress_graph (T read as the one-k-mer-per-node graph) None        = route 0  (Proofs/RoutesSingleton.v)
     route 2  compress_graph (compress_kmers T) None                              = route 0  (Proofs/RoutesIdem.v)
   T = the filtered (pruned when thr > 1) table in the hash's iteration order; it meets C01's hypotheses and every recorded
   extension leads to a present k-mer (Proofs/E2eDirect.v).  Hence every theorem about route 0 (it is THE assembly of the
   reads, it never panics, C06 strand symmetry) holds for every route. *)
From Coq Require Import NArith List Bool Arith Lia Permutation.
From DBG Require Import Spec.Dna Spec.GraphIndex Spec.Unitig Spec.CompressSpec Packed.ExtsModel Algo.Compress
  Algo.KmerHist Algo.Filter Algo.GraphModel Algo.Recompress Algo.Pipeline Check.RecompCheck Check.GraphCheck Check.PipelineCheck
  Proofs.ListFacts Proofs.DnaFacts Proofs.FilterProofs Proofs.CompressGraphOk Proofs.PipelineCheckProofs Proofs.UnitigUnique
  Proofs.GraphRcProofs Proofs.PipelineProofs
  Proofs.E2eDefs Proofs.E2eSym Proofs.E2eGraph Proofs.E2eTable Proofs.E2eDirect Proofs.E2eCorollaries
  Proofs.RoutesSingleton Proofs.RoutesIdem.
Import ListNotations.
Local Open Scope nat_scope.

Section Routes.
Variable K : nat.
Variable st : bool.
Variables thr mode : N.
Variable lreads : list lread.
Variable order : list dna.
Hypothesis HK : 4 <= K.
Hypothesis Hwf : Forall (fun r => wf_dna (fst r)) lreads.
Hypothesis Hnd : NoDup order.
Local Notation variant := (if (1 <? thr)%N then 1%N else 0%N).

Lemma HK1_ : 1 <= K. Proof. lia. Qed.

(* the table handed to the compressors, read as a graph, is valid in C09's sense *)
Theorem direct_table_rvalid T : table_of K st thr variant (whole_reads lreads) order = Some T -> rvalid pay K st T.
Proof.
  intro ET. destruct (direct_table_hyps K st thr lreads order T HK Hwf Hnd ET) as (Hok & Hsym & Hpal & Hcl).
  exact (singleton_rvalid pay K st HK1_ T Hok Hsym Hpal Hcl).
Qed.

Theorem direct_route1_eq : direct K st thr mode 1 lreads order = direct K st thr mode 0 lreads order.
Proof.
  unfold direct. destruct (table_of K st thr variant (whole_reads lreads) order) as [T|] eqn:ET; [|reflexivity].
  cbn [N.eqb Pos.eqb].
  destruct (direct_table_hyps K st thr lreads order T HK Hwf Hnd ET) as (Hok & Hsym & Hpal & Hcl).
  exact (singleton_route_exact pay pay_reduce (pay_join mode) K st HK1_ (join_sym mode) T Hok Hsym (direct_table_rvalid T ET)).
Qed.

(* route 2, and every other route number the model accepts (it treats every value but 0 and 1 alike) *)
Theorem direct_route2_eq route : route <> 0%N -> route <> 1%N ->
  direct K st thr mode route lreads order = direct K st thr mode 0 lreads order.
Proof.
  intros H0 H1. unfold direct. destruct (table_of K st thr variant (whole_reads lreads) order) as [T|] eqn:ET; [|reflexivity].
  apply N.eqb_neq in H0, H1. rewrite H0, H1. cbn [N.eqb].
  destruct (compress_kmers pay pay_reduce (pay_join mode) st T) as [g|] eqn:Hc; [|reflexivity].
  pose proof (table_of_spec K st thr lreads order T HK Hwf Hnd ET) as HT.
  pose proof (spec_tbl_ok K st thr lreads T Hwf HT) as Hok.
  pose proof (spec_links_ok K st thr lreads T HK1_ Hwf HT) as HL.
  exact (compress_kmers_fixed K st mode HK1_ T (spec_links K st thr (map fst lreads)) rank (kmer_colour K st lreads)
           Hok HL (ts_data _ _ _ _ _ HT) g Hc).
Qed.

Theorem direct_routes_eq route route' :
  direct K st thr mode route lreads order = direct K st thr mode route' lreads order.
Proof.
  assert (E : forall r, direct K st thr mode r lreads order = direct K st thr mode 0 lreads order).
  { intro r. destruct (N.eq_dec r 0) as [->|H0]; [reflexivity|]. destruct (N.eq_dec r 1) as [->|H1]; [exact direct_route1_eq|].
    now apply direct_route2_eq. }
  now rewrite (E route), (E route').
Qed.

(* ---- corollaries: every route produces THE assembly ---- *)
Theorem direct_route_assembly route g : direct K st thr mode route lreads order = Some g -> assembly_of K st thr mode lreads g.
Proof. rewrite (direct_routes_eq route 0). now apply direct_assembly. Qed.

Theorem direct_routes_same_assembly route route' g g' :
  direct K st thr mode route lreads order = Some g -> direct K st thr mode route' lreads order = Some g' ->
  g = g' /\ same_assembly K st mode g g'.
Proof.
  intros H H'. rewrite (direct_routes_eq route route') in H. split; [congruence|].
  apply (assembly_unique K st thr mode lreads); eapply direct_route_assembly; eauto.
Qed.
End Routes.

Theorem direct_route_total K st thr mode route (lreads : list lread) order :
  4 <= K -> Forall (fun r => wf_dna (fst r)) lreads -> Permutation order (retained K st thr (map fst lreads)) ->
  exists g, direct K st thr mode route lreads order = Some g.
Proof.
  intros HK Hwf P.
  assert (Hnd : NoDup order) by (eapply Permutation_NoDup; [symmetry; exact P | apply retained_nodup]).
  rewrite (direct_routes_eq K st thr mode lreads order HK Hwf Hnd route 0). now apply direct_total.
Qed.
Theorem direct_route_correct K st thr mode route (lreads : list lread) order :
  4 <= K -> Forall (fun r => wf_dna (fst r)) lreads -> Permutation order (retained K st thr (map fst lreads)) ->
  exists g, direct K st thr mode route lreads order = Some g /\ assembly_of K st thr mode lreads g.
Proof.
  intros HK Hwf P.
  assert (Hnd : NoDup order) by (eapply Permutation_NoDup; [symmetry; exact P | apply retained_nodup]).
  rewrite (direct_routes_eq K st thr mode lreads order HK Hwf Hnd route 0). now apply direct_correct.
Qed.

(* two different hash iteration orders: the graphs may differ as lists but are the same assembly, whatever the routes *)
Theorem direct_routes_orders_same_assembly K st thr mode route route' (lreads : list lread) order order' g g' :
  4 <= K -> Forall (fun r => wf_dna (fst r)) lreads -> NoDup order -> NoDup order' ->
  direct K st thr mode route lreads order = Some g -> direct K st thr mode route' lreads order' = Some g' ->
  same_assembly K st mode g g'.
Proof.
  intros HK Hwf Hnd Hnd' H H'. apply (assembly_unique K st thr mode lreads).
  - exact (direct_route_assembly K st thr mode lreads order HK Hwf Hnd route g H).
  - exact (direct_route_assembly K st thr mode lreads order' HK Hwf Hnd' route' g' H').
Qed.

(* C06, graph half: route r on the reads and route r' on the reads with any subset reverse-complemented *)
Theorem graph_rc_invariant_routes K thr mode route route' fs (lreads : list lread) order order' g g' :
  4 <= K -> Forall (fun r => wf_dna (fst r)) lreads -> NoDup order -> NoDup order' ->
  direct K false thr mode route lreads order = Some g ->
  direct K false thr mode route' (flip_lreads fs lreads) order' = Some g' ->
  same_assembly K false mode g g'.
Proof.
  intros HK Hwf Hnd Hnd' H H'. apply (graph_rc_invariant_partial K thr mode fs lreads); auto.
  - exact (direct_route_assembly K false thr mode lreads order HK Hwf Hnd route g H).
  - exact (direct_route_assembly K false thr mode (flip_lreads fs lreads) order' HK (flip_wf fs lreads Hwf) Hnd' route' g' H').
Qed.
Theorem graph_rc_invariant_routes_total K thr mode route route' fs (lreads : list lread) order order' :
  4 <= K -> Forall (fun r => wf_dna (fst r)) lreads ->
  Permutation order (retained K false thr (map fst lreads)) -> Permutation order' (retained K false thr (map fst lreads)) ->
  exists g g', direct K false thr mode route lreads order = Some g /\
               direct K false thr mode route' (flip_lreads fs lreads) order' = Some g' /\
               same_assembly K false mode g g'.
Proof.
  intros HK Hwf P P'.
  destruct (direct_route_total K false thr mode route lreads order HK Hwf P) as [g Hg].
  assert (P2 : Permutation order' (retained K false thr (map fst (flip_lreads fs lreads)))) by (now rewrite retained_flip).
  destruct (direct_route_total K false thr mode route' (flip_lreads fs lreads) order' HK (flip_wf fs lreads Hwf) P2) as [g' Hg'].
  exists g, g'. split; [exact Hg|]. split; [exact Hg'|].
  apply (graph_rc_invariant_routes K thr mode route route' fs lreads order order'); auto.
  - eapply Permutation_NoDup; [symmetry; exact P | apply retained_nodup].
  - eapply Permutation_NoDup; [symmetry; exact P' | apply retained_nodup].
Qed.

(* C03 / C06 (stranded) for every route: k-mers = retained k-mers, links = links of the reads between retained k-mers *)
Theorem edges_are_observed_routes K st thr mode route (lreads : list lread) order g :
  4 <= K -> Forall (fun r => wf_dna (fst r)) lreads -> NoDup order ->
  direct K st thr mode route lreads order = Some g ->
  Permutation (graph_kmers K st g) (retained K st thr (map fst lreads)) /\
  forall w, In w (graph_links K st g) <-> In w (spec_links K st thr (map fst lreads)).
Proof.
  intros HK Hwf Hnd Hd. rewrite (direct_routes_eq K st thr mode lreads order HK Hwf Hnd route 0) in Hd.
  now apply (edges_are_observed_direct K st thr mode lreads order g).
Qed.
Theorem stranded_exact_routes K thr mode route (lreads : list lread) order g :
  4 <= K -> Forall (fun r => wf_dna (fst r)) lreads -> NoDup order ->
  direct K true thr mode route lreads order = Some g ->
  NoDup (graph_kmers K true g) /\
  (forall x, In x (graph_kmers K true g) <->
             In x (flat_map (kmers K) (map fst lreads)) /\
             (thr <= N.of_nat (length (filter (dna_eqb x) (flat_map (kmers K) (map fst lreads)))))%N) /\
  (forall w, In w (graph_links K true g) <->
             In w (flat_map (kmers (S K)) (map fst lreads)) /\ In (firstn K w) (graph_kmers K true g) /\ In (skipn 1 w) (graph_kmers K true g)).
Proof.
  intros HK Hwf Hnd Hd. rewrite (direct_routes_eq K true thr mode lreads order HK Hwf Hnd route 0) in Hd.
  now apply (stranded_exact_direct K thr mode lreads order g).
Qed.

Print Assumptions direct_routes_eq.
Print Assumptions direct_route_correct.
Print Assumptions graph_rc_invariant_routes_total.
