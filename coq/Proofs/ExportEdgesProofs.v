(* C20: two of the three hypotheses of "exactly once" hold for every graph of well-formed sequences of at least
   K bases: an end reports a neighbouring end once (tab_distinct), a palindromic single-k-mer node is not its own
   neighbour (tab_pal_no_self).  What remains as hypothesis is the symmetry of the reported links. *)
From Coq Require Import NArith List Bool Arith Lia.
From DBG Require Import Spec.Dna Spec.GraphIndex Spec.ExportSpec Packed.ExtsModel Algo.Compress Algo.GraphModel Algo.Json Algo.Export
  Proofs.ListFacts Proofs.DnaFacts Proofs.ExportGfaProofs Proofs.ExportProofs.
Import ListNotations.
Local Open Scope nat_scope.

Lemma index_where_nth {A} (p : A -> bool) l : forall i, index_where p l = Some i -> exists x, nth_error l i = Some x /\ p x = true.
Proof.
  induction l as [|y l IH]; intros i H; [discriminate|]. cbn [index_where] in H.
  destruct (p y) eqn:P.
  - inversion H; subst. exists y. auto.
  - destruct (index_where p l) as [j|]; [|discriminate]. inversion H; subst. apply (IH j eq_refl).
Qed.

Lemma end_index_nth ends kmer i : end_index ends kmer = Some i -> nth_error ends i = Some kmer.
Proof.
  intros H. apply index_where_nth in H as (x & Hx & E). apply dna_eqb_eq in E. now subst.
Qed.

Lemma map_flat_map {A B C} (f : B -> C) (g : A -> list B) l : map f (flat_map g l) = flat_map (fun x => map f (g x)) l.
Proof. induction l as [|x l IH]; [reflexivity|]. cbn [flat_map]. now rewrite map_app, IH. Qed.

Definition opp (d : dir) : dir := match d with DLeft => DRight | DRight => DLeft end.

Section E.
Variable D : Type.
Variable K : nat.
Variable stranded : bool.
Notation graph := (graph D).
Notation edges := (edges D K stranded).
Notation pal_node := (pal_node D K stranded).

Definition graph_wf (g : graph) : Prop := Forall (fun n => wf_dna (n_seq D n) /\ K <= length (n_seq D n)) g.

Lemma ends_of_nth (g : graph) side i x :
  nth_error (ends_of K (g_seqs D g) side) i = Some x ->
  exists n, nth_error g i = Some n /\ x = term_kmer K (n_seq D n) side.
Proof.
  unfold ends_of, g_seqs. rewrite map_map, nth_error_map. destruct (nth_error g i) as [n|]; [|discriminate].
  cbn [option_map]. intros H. inversion H. eauto.
Qed.

(* what a reported link says about the sequences *)
Lemma find_link_cases (g : graph) X d i side flip :
  find_link D K stranded g X d = Some (i, side, flip) ->
  exists n, nth_error g i = Some n /\
    ((flip = false /\ side = opp d /\ term_kmer K (n_seq D n) side = X) \/
     (flip = true /\ stranded = false /\ side = d /\ term_kmer K (n_seq D n) side = rc X)).
Proof.
  unfold find_link, find_link_spec, find_link_ends. intros H. destruct d.
  - destruct (end_index (ends_of K (g_seqs D g) DRight) X) as [j|] eqn:E1.
    + inversion H; subst. apply end_index_nth, ends_of_nth in E1 as (n & Hn & ->). exists n. split; auto.
    + destruct stranded; [discriminate|].
      destruct (end_index (ends_of K (g_seqs D g) DLeft) (rc X)) as [j|] eqn:E2; [|discriminate].
      inversion H; subst. apply end_index_nth, ends_of_nth in E2 as (n & Hn & E). exists n. split; auto.
  - destruct (end_index (ends_of K (g_seqs D g) DLeft) X) as [j|] eqn:E1.
    + inversion H; subst. apply end_index_nth, ends_of_nth in E1 as (n & Hn & ->). exists n. split; auto.
    + destruct stranded; [discriminate|].
      destruct (end_index (ends_of K (g_seqs D g) DRight) (rc X)) as [j|] eqn:E2; [|discriminate].
      inversion H; subst. apply end_index_nth, ends_of_nth in E2 as (n & Hn & E). exists n. split; auto.
Qed.

Definition piece (g : graph) (n : gnode D) (a : dir) (b : N) : list link :=
  if e_has_ext (n_exts D n) (dirb a) b
  then match find_link D K stranded g (extend (term_kmer K (n_seq D n) a) b a) a with Some x => [x] | None => [] end
  else [].

Lemma edges_pieces (g : graph) u a n : nth_error g u = Some n -> edges g u a = flat_map (piece g n a) [0; 1; 2; 3]%N.
Proof. intros H. unfold Export.edges, find_edges. rewrite H. reflexivity. Qed.

Lemma in_piece g n a b l : In l (piece g n a b) ->
  find_link D K stranded g (extend (term_kmer K (n_seq D n) a) b a) a = Some l.
Proof.
  unfold piece. destruct (e_has_ext _ _ _); [|contradiction].
  destruct (find_link _ _ _ _ _ _) as [x|]; [|contradiction]. intros [->|[]]. reflexivity.
Qed.

Lemma piece_short g n a b : piece g n a b = [] \/ exists x, piece g n a b = [x].
Proof.
  unfold piece. destruct (e_has_ext _ _ _); [|now left]. destruct (find_link _ _ _ _ _ _) as [x|]; [right; eauto|now left].
Qed.

(* well-formedness of the extended k-mers *)
Lemma wf_sub i n (l : dna) : wf_dna l -> wf_dna (sub i n l).
Proof.
  unfold wf_dna, sub. rewrite !Forall_forall. intros H x Hx. apply H. eapply in_skipn, in_firstn, Hx.
Qed.
Lemma wf_term s d : wf_dna s -> wf_dna (term_kmer K s d).
Proof. destruct d; apply wf_sub. Qed.
Lemma in_removelast_in {A} (x : A) l : In x (removelast l) -> In x l.
Proof.
  induction l as [|y l IH]; [auto|]. cbn [removelast]. destruct l as [|z l]; [contradiction|].
  intros [->|H]; [now left|right; auto].
Qed.
Lemma wf_extend t b d : wf_dna t -> (b < 4)%N -> wf_dna (extend t b d).
Proof.
  unfold wf_dna. rewrite !Forall_forall. intros H Hb x Hx. destruct d; cbn [extend extend_left extend_right] in Hx.
  - destruct Hx as [<-|Hx]; [exact Hb|]. apply H. now apply in_removelast_in.
  - apply in_app_iff in Hx as [Hx|[<-|[]]]; [|exact Hb]. apply H. destruct t; [contradiction|now right].
Qed.
Lemma extend_inj t b1 b2 d : extend t b1 d = extend t b2 d -> b1 = b2.
Proof.
  destruct d; cbn [extend extend_left extend_right]; intros H.
  - now inversion H.
  - now apply app_inj_tail in H as [_ H].
Qed.
Lemma in_bases b : In b [0; 1; 2; 3]%N -> (b < 4)%N.
Proof. cbn [In]. intros [<-|[<-|[<-|[<-|[]]]]]; lia. Qed.

Lemma term_whole s d : length s = K -> term_kmer K s d = s.
Proof.
  intros H. destruct d; unfold term_kmer, first_kmer, last_kmer, kmer_at, sub.
  - cbn [skipn]. rewrite <- H. apply firstn_all.
  - rewrite H, Nat.sub_diag. cbn [skipn]. rewrite <- H. apply firstn_all.
Qed.

Lemma pal_node_cases (g : graph) i : pal_node g i = true ->
  exists n, nth_error g i = Some n /\ stranded = false /\ length (n_seq D n) = K /\ n_seq D n = rc (n_seq D n).
Proof.
  unfold Export.pal_node. destruct (nth_error g i) as [n|]; [|discriminate]. intros H.
  apply andb_true_iff in H as [H H3]. apply andb_true_iff in H as [H1 H2].
  exists n. split; [reflexivity|]. split; [now destruct stranded|]. split; [now apply Nat.eqb_eq|now apply palindrome_iff].
Qed.

(* two extended k-mers that resolve to the same end (up to the identification) are the same k-mer *)
Lemma link_key_inj (g : graph) X1 X2 a l1 l2 :
  wf_dna X1 -> wf_dna X2 ->
  find_link D K stranded g X1 a = Some l1 -> find_link D K stranded g X2 a = Some l2 ->
  end_key (pal_node g) (target l1) = end_key (pal_node g) (target l2) -> X1 = X2.
Proof.
  intros W1 W2 H1 H2 Ek. destruct l1 as [[i1 s1] f1], l2 as [[i2 s2] f2].
  apply find_link_cases in H1 as (n1 & N1 & C1). apply find_link_cases in H2 as (n2 & N2 & C2).
  unfold end_key, target in Ek. cbn [fst snd] in Ek. inversion Ek as [[Ei Es]]. subst i2.
  rewrite N1 in N2. inversion N2; subst n2. clear N2.
  destruct C1 as [(-> & -> & T1)|(-> & St & -> & T1)], C2 as [(-> & -> & T2)|(-> & St2 & -> & T2)].
  - congruence.
  - (* one straight, one flipped: the sides differ, so the node is a palindromic single k-mer *)
    destruct (pal_node g i1) eqn:P; [|destruct a; discriminate].
    apply pal_node_cases in P as (n & Hn & _ & Hl & Hp). rewrite N1 in Hn. inversion Hn; subst n.
    rewrite term_whole in T1, T2 by exact Hl.
    rewrite <- T1. rewrite <- (rc_involutive X2 W2), <- T2. exact Hp.
  - destruct (pal_node g i1) eqn:P; [|destruct a; discriminate].
    apply pal_node_cases in P as (n & Hn & _ & Hl & Hp). rewrite N1 in Hn. inversion Hn; subst n.
    rewrite term_whole in T1, T2 by exact Hl.
    rewrite <- T2. rewrite <- (rc_involutive X1 W1), <- T1. symmetry. exact Hp.
  - rewrite <- (rc_involutive X1 W1), <- (rc_involutive X2 W2). congruence.
Qed.

Theorem edges_distinct (g : graph) : graph_wf g -> tab_distinct (pal_node g) (etab_of D K stranded g).
Proof.
  intros Hw u a. rewrite tab_edges_etab.
  destruct (nth_error g u) as [n|] eqn:Hn.
  2:{ rewrite edges_out_of_range by (now apply nth_error_None). constructor. }
  rewrite (edges_pieces g u a n Hn), !map_flat_map.
  assert (Wn : wf_dna (n_seq D n)).
  { unfold graph_wf in Hw. rewrite Forall_forall in Hw. apply (Hw n). eapply nth_error_In, Hn. }
  apply NoDup_flat_map.
  - repeat constructor; cbn [In]; intuition discriminate.
  - intros b _. destruct (piece_short g n a b) as [->|[x ->]]; repeat constructor; auto.
  - intros b1 b2 k Hb1 Hb2 H1 H2.
    apply in_map_iff in H1 as (e1 & <- & H1). apply in_map_iff in H1 as (l1 & <- & H1).
    apply in_map_iff in H2 as (e2 & Ek & H2). apply in_map_iff in H2 as (l2 & <- & H2).
    apply in_piece in H1. apply in_piece in H2.
    apply (extend_inj (term_kmer K (n_seq D n) a) b1 b2 a).
    eapply (link_key_inj g _ _ a l1 l2); eauto using wf_extend, wf_term, in_bases.
Qed.

(* a k-mer that is its own successor is a homopolymer, which is not a palindrome *)
Lemma shift_right_aux (r : dna) : forall x b, r ++ [b] = x :: r -> Forall (eq b) (x :: r).
Proof.
  induction r as [|y r IH]; intros x b H.
  - inversion H. repeat constructor.
  - cbn [app] in H. injection H as E1 E2. subst y. pose proof (IH x b E2) as F.
    constructor; [|exact F]. now inversion F.
Qed.
Lemma shift_right_const (l : dna) b : tl l ++ [b] = l -> Forall (eq b) l.
Proof. destruct l as [|x r]; [constructor|]. cbn [tl]. apply shift_right_aux. Qed.
Lemma shift_left_const (l : dna) : forall b, b :: removelast l = l -> Forall (eq b) l.
Proof.
  induction l as [|x r IH]; intros b H; [constructor|].
  injection H as E1 E2. subst x. constructor; [reflexivity|].
  destruct r as [|y r']; [constructor|].
  change (removelast (b :: y :: r')) with (b :: removelast (y :: r')) in E2.
  exact (IH b E2).
Qed.
Lemma const_not_palindrome (P : dna) b : wf_dna P -> 0 < length P -> Forall (eq b) P -> P = rc P -> False.
Proof.
  intros W L F Hp.
  assert (Hn : forall i, i < length P -> nth i P 0%N = b).
  { intros i Hi. rewrite Forall_forall in F. symmetry. apply F. now apply nth_In. }
  pose proof (rc_nth P 0 L) as R. rewrite <- Hp in R. rewrite !Hn in R by lia.
  assert (Hb : (b < 4)%N).
  { unfold wf_dna in W. rewrite Forall_forall in W. rewrite <- (Hn 0 L). apply W. now apply nth_In. }
  unfold comp in R. lia.
Qed.

Theorem edges_pal_no_self (g : graph) : 1 <= K -> graph_wf g -> tab_pal_no_self (pal_node g) (etab_of D K stranded g).
Proof.
  intros HK Hw u a b P Hin. rewrite tab_edges_etab in Hin.
  apply pal_node_cases in P as (n & Hn & _ & Hl & Hp).
  assert (Wn : wf_dna (n_seq D n)).
  { unfold graph_wf in Hw. rewrite Forall_forall in Hw. apply (Hw n). eapply nth_error_In, Hn. }
  rewrite (edges_pieces g u a n Hn) in Hin.
  apply in_map_iff in Hin as ([[i s] f] & E & Hin). unfold target in E. cbn [fst] in E. inversion E; subst i s.
  apply in_flat_map in Hin as (x & Hx & Hin). apply in_piece in Hin.
  rewrite term_whole in Hin by exact Hl.
  assert (Wx : wf_dna (extend (n_seq D n) x a)) by (apply wf_extend; auto using in_bases).
  apply find_link_cases in Hin as (n' & Hn' & C). rewrite Hn in Hn'. inversion Hn'; subst n'.
  assert (Ex : extend (n_seq D n) x a = n_seq D n).
  { destruct C as [(_ & _ & T)|(_ & _ & _ & T)]; rewrite term_whole in T by exact Hl.
    - now symmetry.
    - rewrite <- (rc_involutive _ Wx), <- T. now symmetry. }
  apply (const_not_palindrome (n_seq D n) x Wn); [lia| |exact Hp].
  destruct a; cbn [extend extend_left extend_right] in Ex; [now apply shift_left_const|now apply shift_right_const].
Qed.

(* the main theorem with symmetry as the only hypothesis on the edge lists *)
Theorem gfa_links_complete_once_sym (g : graph) : 1 <= K -> graph_wf g ->
  tab_symmetric (pal_node g) (etab_of D K stranded g) ->
  forall u a es v b flip, find_edges D K stranded g u a = Some es -> In (v, b, flip) es ->
  once_or_twice (pal_node g) (gfa_links (write_gfa D K stranded g)) (u, a) (v, b).
Proof.
  intros HK Hw Hs. apply gfa_links_complete_once.
  split; [exact Hs|]. split; [now apply edges_distinct|now apply edges_pal_no_self].
Qed.
End E.
