(* find_bad_nodes returns, in strictly ascending order and without repetition, exactly the ids of the nodes that pass
   test_tip - a well-formed censor list for compress_graph (every id in range). *)
From Coq Require Import NArith List Bool Arith Lia Sorted.
From DBG Require Import Spec.Dna Packed.ExtsModel Algo.Compress Algo.GraphModel Algo.CleanGraph.
Import ListNotations.
Local Open Scope nat_scope.

Section CleanProofs.
Variable D : Type.
Variable tip_pred : gnode D -> bool.
Local Notation find_bad_nodes := (find_bad_nodes D tip_pred).
Local Notation test_tip := (test_tip D tip_pred).

Lemma filter_combine_seq (P : gnode D -> bool) : forall (l : list (gnode D)) c i,
  In i (map fst (filter (fun p => P (snd p)) (combine (seq c (length l)) l))) <->
  exists n, nth_error l (i - c) = Some n /\ c <= i /\ P n = true.
Proof.
  induction l as [|x l IH]; intros c i; cbn [length seq combine filter map].
  - split; [intros []|]. intros [n [H _]]. destruct (i - c); discriminate.
  - cbn [snd]. destruct (P x) eqn:Px; cbn [map fst In]; rewrite IH; split.
    + intros [<-|[n [H1 [H2 H3]]]].
      * exists x. rewrite Nat.sub_diag. auto.
      * exists n. replace (i - c) with (S (i - S c)) by lia. cbn. split; [exact H1|]. split; [lia|exact H3].
    + intros [n [H1 [H2 H3]]]. destruct (Nat.eq_dec i c) as [->|Ne]; [now left|right].
      exists n. replace (i - c) with (S (i - S c)) in H1 by lia. cbn in H1. split; [exact H1|]. split; [lia|exact H3].
    + intros [n [H1 [H2 H3]]]. exists n. replace (i - c) with (S (i - S c)) by lia. cbn. split; [exact H1|]. split; [lia|exact H3].
    + intros [n [H1 [H2 H3]]]. destruct (Nat.eq_dec i c) as [->|Ne].
      * rewrite Nat.sub_diag in H1. cbn in H1. inversion H1; subst. congruence.
      * exists n. replace (i - c) with (S (i - S c)) in H1 by lia. cbn in H1. split; [exact H1|]. split; [lia|exact H3].
Qed.

Theorem find_bad_nodes_spec (g : graph D) i :
  In i (find_bad_nodes g) <-> exists n, nth_error g i = Some n /\ test_tip n = true.
Proof.
  unfold CleanGraph.find_bad_nodes. rewrite (filter_combine_seq test_tip g 0 i). rewrite Nat.sub_0_r.
  split; [intros [n [H1 [_ H3]]]; eauto | intros [n [H1 H3]]; exists n; repeat split; auto; lia].
Qed.

Lemma sorted_filter_seq (P : gnode D -> bool) : forall (l : list (gnode D)) c,
  StronglySorted lt (map fst (filter (fun p => P (snd p)) (combine (seq c (length l)) l))).
Proof.
  induction l as [|x l IH]; intro c; cbn [length seq combine filter map]; [constructor|].
  cbn [snd]. destruct (P x); cbn [map fst]; [|apply IH].
  constructor; [apply IH|]. apply Forall_forall. intros j Hj.
  apply (filter_combine_seq P l (S c) j) in Hj as [_ [_ [H _]]]. lia.
Qed.

Theorem find_bad_nodes_sorted (g : graph D) : StronglySorted lt (find_bad_nodes g).
Proof. apply sorted_filter_seq. Qed.

Theorem find_bad_nodes_nodup_in_range (g : graph D) :
  NoDup (find_bad_nodes g) /\ forall i, In i (find_bad_nodes g) -> i < length g.
Proof.
  split.
  - pose proof (find_bad_nodes_sorted g) as S. induction S as [|a l S IH F]; constructor; [|exact IH].
    intro Hin. rewrite Forall_forall in F. specialize (F a Hin). lia.
  - intros i Hi. apply find_bad_nodes_spec in Hi as [n [H _]]. apply nth_error_Some. congruence.
Qed.
End CleanProofs.
