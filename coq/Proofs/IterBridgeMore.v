(* Further container instances of the observation bridge (Proofs/IterBridgeObs.v): reads given as slices of a DnaString
   (forward or reverse-complemented windows) and as fixed-size strings (Lmer). *)
From Coq Require Import NArith List Bool Arith Lia.
From DBG Require Import Spec.Dna Packed.KmerModel Packed.ExtsModel Packed.Blocks Packed.DnaStringModel Packed.SliceModel
  Packed.LmerModel Algo.Iter Algo.Filter Proofs.KmerDefaults Proofs.LmerProofs Proofs.IterProofs Proofs.DnaStringProofs
  Proofs.IterBridge Proofs.IterBridgeObs.
Import ListNotations.
Open Scope N_scope.

Theorem slice_packed_observations {D : Type} c (Hc : In c shipped) stranded (reads : list ((DnaStringModel.dstr * slc) * N * D)) :
  Forall (fun r => d_inv (fst (fst (fst r))) /\
                   (s_start (snd (fst (fst r))) + s_length (snd (fst (fst r))) <= d_len (fst (fst (fst r))))%nat /\
                   snd (fst r) < 256) reads ->
  packed_observations c
    (fun ds e => iter_kmer_exts c (s_length (snd ds)) (sl_get (fst ds) (snd ds)) (sl_get_kmer c (fst ds) (snd ds)) e)
    stranded reads
  = Some (Filter.observations (kK c) stranded
            (map (fun r => (sl_view (d_abs (fst (fst (fst r)))) (snd (fst (fst r))), snd (fst r), snd r)) reads)).
Proof.
  intro H.
  apply (packed_observations_generic c Hc _ (fun ds => sl_view (d_abs (fst ds)) (snd ds))).
  eapply Forall_impl; [|exact H]. intros r (Hi & Hs & He).
  apply (sl_iter_is_filter_kmer_exts c Hc _ _ _ Hi Hs He).
Qed.

Theorem lmer_packed_observations {D : Type} c (Hc : In c shipped) stranded (reads : list ((list N * nat) * N * D)) :
  Forall (fun r => l_inv (fst (fst (fst r))) /\ l_len (fst (fst (fst r))) = Some (snd (fst (fst r))) /\ snd (fst r) < 256) reads ->
  packed_observations c
    (fun xl e => iter_kmer_exts c (snd xl) (l_get (fst xl)) (l_get_kmer c (fst xl)) e)
    stranded reads
  = Some (Filter.observations (kK c) stranded
            (map (fun r => (l_abs (fst (fst (fst r))), snd (fst r), snd r)) reads)).
Proof.
  intro H.
  apply (packed_observations_generic c Hc _ (fun xl => l_abs (fst xl))).
  eapply Forall_impl; [|exact H]. intros r (Hi & Hl & He).
  apply (l_iter_is_filter_kmer_exts c Hc _ _ _ Hi Hl He).
Qed.
