(* C09: re-compressing a graph that has no mergeable pair of distinct nodes (no censoring) returns the same node
   sequences and payloads in the same order (node-level idempotence of the model). *)
From Coq Require Import NArith List Bool Arith Lia Permutation.
From DBG Require Import Spec.Dna Spec.GraphIndex Packed.ExtsModel Algo.Compress Algo.GraphModel
  Algo.Recompress Check.RecompCheck Proofs.AbstractWalk Proofs.RecompCheckProofs Proofs.RecompSweeps Proofs.RecompressProofs.
Import ListNotations.
Open Scope N_scope.

Section Stuck.
Variable V : Type.
Variable eq_dec : forall x y : V, {x = y} + {x <> y}.
Variable next : V -> side -> option (V * side).
Hypothesis self_only : forall v s w t, next v s = Some (w, t) -> w = v.

Lemma extend_stuck fuel avail v s : ~ In v avail -> AbstractWalk.extend V eq_dec next fuel avail v s = ([], avail).
Proof.
  intro Hv. destruct fuel as [|f]; cbn; [reflexivity|].
  destruct (next v s) as [[w t]|] eqn:E; [|reflexivity].
  apply self_only in E. subst w. destruct (mem V eq_dec v avail) eqn:Em; [|reflexivity].
  apply mem_In in Em. tauto.
Qed.

Lemma build_single avail v : build V eq_dec next avail v = ([], [], remove eq_dec v avail).
Proof.
  unfold build. rewrite extend_stuck by apply remove_In. rewrite extend_stuck by apply remove_In. reflexivity.
Qed.

Lemma compress_singletons order : NoDup order -> forall avail,
  compress V eq_dec next order avail = map (fun v => [v]) (filter (fun v => mem V eq_dec v avail) order).
Proof.
  induction 1 as [|v o Hv Hnd IH]; intro avail; cbn [compress filter map]; [reflexivity|].
  destruct (mem V eq_dec v avail) eqn:Em.
  - rewrite build_single. cbn [map]. unfold node_verts. cbn. f_equal. rewrite IH. f_equal.
    apply filter_ext_in. intros x Hx. unfold mem.
    destruct (in_dec eq_dec x (remove eq_dec v avail)) as [H1|H1], (in_dec eq_dec x avail) as [H2|H2]; auto.
    + apply in_remove in H1. tauto.
    + exfalso. apply H1. apply in_in_remove; auto. intro E. subst. tauto.
  - apply IH.
Qed.
End Stuck.

Section Idem.
Variable D : Type.
Variable reduce : D -> D -> D.
Variable join : D -> D -> bool.
Variable K : nat.
Variable stranded : bool.
Hypothesis join_sym : forall a b, join a b = join b a.
Local Notation graph := (graph D).

Lemma filter_all {A} (f : A -> bool) l : (forall x, In x l -> f x = true) -> filter f l = l.
Proof.
  induction l as [|a l IH]; intro H; cbn; auto. rewrite (H a (or_introl eq_refl)). f_equal. apply IH.
  intros x Hx. apply H. now right.
Qed.
Lemma Forall2_length_ {A B} (P : A -> B -> Prop) l l' : Forall2 P l l' -> length l = length l'.
Proof. induction 1; cbn; auto. Qed.
Lemma filter_all_seq n : filter (fun v => mem nat Nat.eq_dec v (seq 0 n)) (seq 0 n) = seq 0 n.
Proof. apply filter_all. intros x Hx. apply mem_In. exact Hx. Qed.

Theorem recompress_idempotent_nodes (g : graph) out paths :
  rvalid D K stranded g ->
  (forall g1, restrict D K stranded g (seq 0 (length g)) = Some g1 ->
     forall x d y t, rnext D join K stranded g1 x d = Some (y, t) -> y = x) ->
  compress_graph_paths D reduce join K stranded g None = Some (out, paths) ->
  paths = map (fun i => [(i, DLeft)]) (seq 0 (length g)) /\
  g_seqs D out = g_seqs D g /\ map (n_data D) out = map (n_data D) g.
Proof.
  intros V Hself H.
  destruct (recompress_refines_walk_ D reduce join K stranded join_sym g None V) as (g1 & out' & r & Hg1 & W & Hc & Hok & Hp).
  rewrite Hc in H. injection H as <- <-.
  change (survivors D g None) with (seq 0 (length g)) in *.
  specialize (Hself g1 Hg1).
  assert (Hs : forall v s w t, wnext D join K stranded g1 (seq 0 (length g)) v s = Some (w, t) -> w = v).
  { intros v s w t Hn. apply wnext_inv in Hn. destruct Hn as [_ Hn]. eapply Hself; eauto. }
  unfold walk_nodes in Hok.
  rewrite (compress_singletons nat Nat.eq_dec _ Hs (seq 0 (length g)) (seq_NoDup _ _)), filter_all_seq in Hok.
  (* every element of r is (node, [(i, DLeft)]) with the sequence and payload of input node i *)
  assert (Hlen1 : length g1 = length g).
  { unfold restrict in Hg1. destruct (fix_exts_spec D K stranded g (Some (seq 0 (length g)))) as (g' & Hg' & Hl & _). congruence. }
  assert (Hr : forall i x, nth_error r i = Some x ->
             snd x = [(i, DLeft)] /\ exists n, nth_error g i = Some n /\ n_seq D (fst x) = n_seq D n /\ n_data D (fst x) = n_data D n).
  { intros i x Hx. destruct (Forall2_nth_elim _ _ _ _ _ Hok Hx) as (N & HN & HfN & lp & seed & rp & Hp0 & Hb & _).
    rewrite nth_error_map in HN. destruct (nth_error (seq 0 (length g)) i) as [j|] eqn:Ej; [|discriminate].
    cbn in HN. injection HN as <-.
    assert (j = i).
    { assert (Hi : (i < length (seq 0 (length g)))%nat) by (apply nth_error_Some; congruence).
      rewrite seq_length in Hi. rewrite (nth_error_nth' _ 0%nat) in Ej by (now rewrite seq_length).
      rewrite seq_nth in Ej by auto. now injection Ej as <-. }
    subst j. rewrite Hp0, assemble_verts in HfN. unfold node_verts in HfN.
    assert (lp = [] /\ rp = [] /\ seed = i).
    { destruct lp as [|a lp].
      - cbn in HfN. injection HfN as -> Hrp. destruct rp; [auto | discriminate].
      - exfalso. cbn in HfN. apply (f_equal (@length nat)) in HfN. rewrite !app_length in HfN. cbn in HfN.
        rewrite rev_length in HfN. lia. }
    destruct H as (-> & -> & ->). split; [rewrite Hp0; reflexivity|].
    destruct Hb as (Hsq & (sd0 & ds & Hd1 & Hd2 & Hd3) & _).
    unfold assemble in Hsq. cbn in Hsq.
    destruct (nth_error g1 i) as [n1|] eqn:En1; [|discriminate].
    destruct (restrict_nth D K stranded g g1 _ i n1 Hg1 En1) as (n & Hn & Hs1 & Hd & _).
    exists n. split; auto. cbn in Hsq. rewrite app_nil_r in Hsq. injection Hsq as Hsq.
    cbn in Hd1, Hd2. injection Hd1 as <-. injection Hd2 as <-. cbn in Hd3. split; congruence. }
  destruct Hp as (Hlen & Hseq & Hsp).
  assert (Hlr : length r = length g).
  { apply Forall2_length_ in Hok. now rewrite Hok, map_length, seq_length. }
  split; [|split].
  - apply nth_error_ext_. intro i. rewrite !nth_error_map.
    destruct (nth_error r i) as [x|] eqn:Ex.
    + destruct (Hr i x Ex) as [Hsx _]. cbn. rewrite Hsx.
      assert (Hi : (i < length g)%nat) by (rewrite <- Hlr; apply nth_error_Some; congruence).
      rewrite (nth_error_nth' _ 0%nat) by (now rewrite seq_length). rewrite seq_nth by auto. reflexivity.
    + apply nth_error_None in Ex. rewrite Hlr in Ex.
      destruct (nth_error (seq 0 (length g)) i) eqn:E; [|reflexivity].
      assert (i < length (seq 0 (length g)))%nat by (apply nth_error_Some; congruence). rewrite seq_length in H. lia.
  - rewrite Hseq. unfold g_seqs. rewrite map_map. apply nth_error_ext_. intro i. rewrite !nth_error_map.
    destruct (nth_error r i) as [x|] eqn:Ex.
    + destruct (Hr i x Ex) as [_ (n & Hn & Hs1 & _)]. rewrite Hn. cbn. now rewrite Hs1.
    + apply nth_error_None in Ex. rewrite Hlr in Ex. apply nth_error_None in Ex. now rewrite Ex.
  - apply nth_error_ext_. intro i. rewrite !nth_error_map.
    destruct (nth_error (map fst r) i) as [n0|] eqn:E0.
    + destruct (Hsp i n0 E0) as (e & He & _). rewrite He. rewrite nth_error_map in E0.
      destruct (nth_error r i) as [x|] eqn:Ex; [|discriminate]. cbn in E0. injection E0 as <-.
      destruct (Hr i x Ex) as [_ (n & Hn & _ & Hd)]. rewrite Hn. cbn. now rewrite Hd.
    + apply nth_error_None in E0. rewrite map_length, Hlr in E0.
      assert (E1 : nth_error out' i = None) by (apply nth_error_None; rewrite Hlen, map_length, Hlr; exact E0).
      apply nth_error_None in E0. now rewrite E1, E0.
Qed.
End Idem.

(* ---- full idempotence of the model: a valid graph without a mergeable pair of distinct nodes is a fixed point ---- *)
Section IdemFull.
Variable D : Type.
Variable reduce : D -> D -> D.
Variable join : D -> D -> bool.
Variable K : nat.
Variable stranded : bool.
Hypothesis join_sym : forall a b, join a b = join b a.
Local Notation graph := (graph D).

(* pruning a graph all of whose extensions are kept anyway returns it unchanged *)
Lemma pruned_id (g out : graph) valid :
  (forall i n, nth_error g i = Some n -> n_exts D n < 256) ->
  (forall i n d b, nth_error g i = Some n -> In b bases4 -> e_has_ext (n_exts D n) (dirb d) b = true ->
     keeps D K stranded g valid i d b = true) ->
  pruned_of D K stranded g valid out -> out = g.
Proof.
  intros Hlt Hk (Hlen & _ & Hsp). apply nth_error_ext_. intro i.
  destruct (nth_error g i) as [n|] eqn:En.
  - destruct (Hsp i n En) as (e & He & Hlte & Hb). rewrite He. f_equal.
    assert (e = n_exts D n).
    { apply exts_ext_eq; auto; [eapply Hlt; eauto|]. intros d b Hb'.
      assert (Hd : forall d0, e_has_ext e (dirb d0) b = e_has_ext (n_exts D n) (dirb d0) b).
      { intro d0. rewrite (Hb d0 b Hb').
        destruct (e_has_ext (n_exts D n) (dirb d0) b) eqn:Eh; [exact (Hk i n d0 b En Hb' Eh)|].
        unfold keeps, ext_link. now rewrite En, Eh. }
      destruct d; [exact (Hd DRight) | exact (Hd DLeft)]. }
    subst e. destruct n as [[? ?] ?]. reflexivity.
  - apply nth_error_None. rewrite Hlen. now apply nth_error_None.
Qed.
Lemma fix_exts_id (g g' : graph) valid :
  (forall i n, nth_error g i = Some n -> n_exts D n < 256) ->
  (forall i n d b, nth_error g i = Some n -> In b bases4 -> e_has_ext (n_exts D n) (dirb d) b = true ->
     keeps D K stranded g valid i d b = true) ->
  fix_exts D K stranded g valid = Some g' -> g' = g.
Proof.
  intros Hlt Hk Hf. destruct (fix_exts_spec D K stranded g valid) as (g0 & H0 & Hlen & Hseq & Hsp).
  assert (g0 = g') by congruence. subst g0. eapply pruned_id; eauto. unfold pruned_of. auto.
Qed.

Lemma rvalid_keeps_all (g : graph) valid :
  rvalid D K stranded g -> (forall t, (t < length g)%nat -> chk_valid valid t = true) ->
  forall i n d b, nth_error g i = Some n -> In b bases4 -> e_has_ext (n_exts D n) (dirb d) b = true ->
     keeps D K stranded g valid i d b = true.
Proof.
  intros (_ & _ & _ & _ & Hres & _) Hv i n d b Hn Hb Hh. unfold keeps.
  pose proof (Hres i d b n Hn Hb Hh) as Hr.
  destruct (ext_link D K stranded g i d b) as [[[t s] f]|] eqn:E; [|congruence].
  apply Hv. unfold ext_link in E. rewrite Hn, Hh in E.
  destruct (find_link_end D K stranded g _ d t s f E) as (m & Hm & _). apply nth_error_Some. congruence.
Qed.

Theorem recompress_idempotent_full (g : graph) :
  rvalid D K stranded g ->
  (forall x d y t, rnext D join K stranded g x d = Some (y, t) -> y = x) ->
  compress_graph D reduce join K stranded g None = Some g.
Proof.
  intros V Hself.
  assert (Hlt : forall i n, nth_error g i = Some n -> n_exts D n < 256).
  { intros i n Hn. destruct V as (Hok & _). eapply node_ok_nth in Hok; eauto. apply Hok. }
  destruct (recompress_refines_walk_ D reduce join K stranded join_sym g None V) as (g1 & out & r & Hg1 & W & Hc & Hok & Hp).
  change (survivors D g None) with (seq 0 (length g)) in *.
  assert (g1 = g).
  { eapply fix_exts_id; [exact Hlt | | exact Hg1]. apply rvalid_keeps_all; auto.
    intros t Ht. cbn. apply mem_nat_In. apply in_seq. lia. }
  subst g1.
  destruct (recompress_idempotent_nodes D reduce join K stranded join_sym g out (map snd r) V) as (Hpaths & _ & _).
  { intros g1 Hg1'. assert (g1 = g) by congruence. subst g1. exact Hself. }
  { exact Hc. }
  (* every element of r is the input node itself *)
  assert (Hr : map fst r = g).
  { assert (Hlr : length r = length g).
    { apply (f_equal (@length _)) in Hpaths. now rewrite !map_length, seq_length in Hpaths. }
    apply nth_error_ext_. intro i. rewrite nth_error_map.
    destruct (nth_error r i) as [x|] eqn:Ex.
    2:{ apply nth_error_None in Ex. rewrite Hlr in Ex. apply nth_error_None in Ex. now rewrite Ex. }
    assert (Hi : (i < length g)%nat) by (rewrite <- Hlr; apply nth_error_Some; congruence).
    assert (Hsx : snd x = [(i, DLeft)]).
    { apply (f_equal (fun l => nth_error l i)) in Hpaths. rewrite !nth_error_map, Ex in Hpaths.
      rewrite (nth_error_nth' _ 0%nat) in Hpaths by (now rewrite seq_length). rewrite seq_nth in Hpaths by auto.
      cbn in Hpaths. now injection Hpaths. }
    destruct (Forall2_nth_elim _ _ _ _ _ Hok Ex) as (N & _ & _ & lp & seed & rp & Hp0 & Hb & _).
    rewrite Hsx in Hp0.
    assert (lp = [] /\ rp = [] /\ seed = i).
    { apply (f_equal (map fst)) in Hp0. rewrite assemble_verts in Hp0. unfold node_verts in Hp0. cbn in Hp0.
      destruct lp as [|a lp].
      - cbn in Hp0. injection Hp0 as -> Hrp. destruct rp; [auto | discriminate].
      - exfalso. cbn in Hp0. apply (f_equal (@length nat)) in Hp0. rewrite !app_length in Hp0. cbn in Hp0.
        rewrite rev_length in Hp0. lia. }
    destruct H as (-> & -> & ->).
    destruct Hb as (Hsq & (sd0 & ds & Hd1 & Hd2 & Hd3) & Hex).
    unfold assemble in Hsq. cbn in Hsq, Hex, Hd1, Hd2.
    destruct (nth_error g i) as [n|] eqn:En; [|discriminate].
    cbn in Hsq. rewrite app_nil_r in Hsq. injection Hsq as Hsq.
    injection Hd1 as <-. injection Hd2 as <-. cbn in Hd3.
    unfold texts in Hex. cbn [fst snd ds dirb] in Hex. rewrite En in Hex.
    rewrite single_dirs_id in Hex by (eapply Hlt; eauto).
    cbn. f_equal. destruct x as [[[sq e] dt] p]. destruct n as [[sq' e'] dt']. cbn in *. congruence. }
  unfold compress_graph. rewrite Hc. cbn. f_equal. rewrite Hr in Hp.
  eapply pruned_id; [exact Hlt | | exact Hp]. apply rvalid_keeps_all; auto.
Qed.
End IdemFull.
