(* Soundness of the boolean checker of C07 (Check/ScanCheck.v) w.r.t. the Prop statement [scan_ok]. *)
From Coq Require Import NArith List Bool Arith Lia.
From DBG Require Import Spec.Dna Spec.ScanSpec Check.ScanCheck Proofs.ListFacts.
Import ListNotations.
Open Scope nat_scope.

Lemma dna_eq_true a b : dna_eq a b = true -> a = b.
Proof. unfold dna_eq. destruct (list_eq_dec N.eq_dec a b); [auto|discriminate]. Qed.

Section CheckSound.
  Variable score : dna -> N.
  Variable sq : dna.
  Variable k p : nat.
  Let m := length sq.
  Let f (j : nat) : N := score (sub j p sq).
  Let sc := map f (seq 0 (m + 1 - p)).
  Hypothesis Hp : 1 <= p.
  Hypothesis Hpk : p <= k.

  Lemma sc_length : length sc = m + 1 - p.
  Proof. unfold sc. now rewrite map_length, seq_length. Qed.

  Lemma sc_nth j : j + p <= m -> nth j sc 0%N = f j.
  Proof.
    intro H. unfold sc. rewrite (nth_indep _ 0%N (f 0)) by (rewrite map_length, seq_length; lia).
    rewrite map_nth. f_equal. rewrite seq_nth by lia. reflexivity.
  Qed.

  Lemma check_iv_sound x : check_iv sq k p sc x = true ->
    len_ok k p x /\ minimizer_ok sq k p x /\ minimal_ok score sq p x /\
    s_mpos x + p <= m /\ s_min x = sub (s_mpos x) p sq.
  Proof.
    unfold check_iv. rewrite !andb_true_iff, !Nat.leb_le. fold m.
    intros [[[[[[H1 H2] H3] H4] H5] H6] H7]. apply dna_eq_true in H3.
    split; [unfold len_ok; lia|]. split; [|split; [|split; [lia|exact H3]]].
    - split; [exact H3|]. unfold kmer_in. intros i Hi. lia.
    - unfold minimal_ok, pmer_in. intros j Hj. rewrite H3. change (f (s_mpos x) <= f j)%N.
      rewrite <- !sc_nth by lia. rewrite forallb_forall in H7.
      assert (Hin : In (nth j sc 0%N) (sub (s_start x) (s_len x - p + 1) sc)).
      { replace j with (s_start x + (j - s_start x)) by lia. rewrite <- (nth_sub _ (s_len x - p + 1)) by lia.
        apply nth_In. rewrite sub_length by (rewrite sc_length; lia). lia. }
      apply H7 in Hin. apply N.leb_le in Hin. exact Hin.
  Qed.

  Lemma check_chain_sound l : forallb (check_iv sq k p sc) l = true -> check_chain sq k p sc l = true ->
    chain_ok score sq k p l.
  Proof.
    induction l as [|x r IH]; intros F C; [discriminate|].
    cbn [forallb] in F. apply andb_true_iff in F as [Fx Fr]. destruct r as [|y r'].
    - cbn in C. apply Nat.eqb_eq in C. exact C.
    - cbn [check_chain] in C. rewrite !andb_true_iff in C. destruct C as [[[C1 C2] C3] C4].
      apply Nat.ltb_lt in C1. apply Nat.eqb_eq in C2. cbn [chain_ok]. split; [exact C1|]. split; [exact C2|].
      split; [|exact (IH Fr C4)].
      destruct (check_iv_sound x Fx) as [_ [_ [_ [Hq Hmin]]]].
      unfold check_end in C3. unfold end_ok. apply orb_true_iff in C3 as [C3|C3].
      + left. apply Nat.ltb_lt in C3. exact C3.
      + right. apply andb_true_iff in C3 as [C5 C6]. apply Nat.leb_le in C5. apply N.ltb_lt in C6. fold m in C5.
        rewrite !sc_nth in C6 by lia. rewrite Hmin. exact C6.
  Qed.
End CheckSound.

(* if the checker accepts the reported intervals - given the true score of every p-mer position - then they
   satisfy clauses (a)-(f) *)
Theorem check_scan_sound (score : dna -> N) sq k p scs l :
  scs = map (fun j => score (sub j p sq)) (seq 0 (length sq + 1 - p)) ->
  check_scan sq k p scs l = true -> scan_ok score sq k p l.
Proof.
  intros -> H. unfold check_scan in H. rewrite !andb_true_iff in H.
  destruct H as [[[[[[H1 H2] H3] H4] H5] H6] H7]. apply Nat.leb_le in H1, H2.
  unfold scan_ok. split; [|split].
  - destruct l as [|x r]; [discriminate|]. exists x, r. split; [reflexivity|]. now apply Nat.eqb_eq.
  - rewrite forallb_forall in H6. apply Forall_forall. intros x Hx.
    destruct (check_iv_sound score sq k p H1 H2 x (H6 x Hx)) as [A [B [C _]]]. auto.
  - apply check_chain_sound; assumption.
Qed.

(* ---------------------------------------------------------------- C08: soundness of check_msp *)
Lemma dna_eq_refl a : dna_eq a a = true.
Proof. unfold dna_eq. destruct (list_eq_dec N.eq_dec a a); [reflexivity|congruence]. Qed.

Section CheckMspSound.
  Variable k : nat.
  Variable rcmode : bool.
  Hypothesis Hk : 1 <= k.

  Lemma check_pieces_sound read out : forall start obs,
    check_pieces k rcmode read start out = Some obs ->
    pieces_ok k read start out /\
    forall i b, occ_in k start out i b -> In (kkey rcmode (kmer_at k read i), b) obs.
  Proof.
    induction out as [|[[bucket exts] pc] r IH]; intros start obs H; [discriminate|].
    cbn [check_pieces] in H.
    destruct ((k <=? length pc) && dna_eq pc (sub start (length pc) read) &&
              (exts =? flank_exts read start (length pc))%N) eqn:G; [|discriminate].
    rewrite !andb_true_iff in G. destruct G as [[G1 G2] G3].
    apply Nat.leb_le in G1. apply dna_eq_true in G2. apply N.eqb_eq in G3.
    set (here := map (fun i => (if rcmode then canon (sub i k read) else sub i k read, bucket))
                     (seq start (length pc + 1 - k))) in H.
    assert (Hhere : forall i, start <= i -> i + k <= start + length pc ->
                              In (kkey rcmode (kmer_at k read i), bucket) here).
    { intros i H1 H2. unfold here. apply in_map_iff. exists i. split; [reflexivity|]. apply in_seq. lia. }
    destruct r as [|y r'].
    - destruct (start + length pc =? length read) eqn:E; [|discriminate]. apply Nat.eqb_eq in E.
      injection H as <-. split.
      + cbn [pieces_ok]. auto.
      + intros i b [[H1 [H2 ->]]|[]]. now apply Hhere.
    - destruct (check_pieces k rcmode read (start + length pc - (k - 1)) (y :: r')) as [o|] eqn:E; [|discriminate].
      injection H as <-. destruct (IH _ _ E) as [P O]. split.
      + change (pieces_ok k read start ((bucket, exts, pc) :: y :: r')) with
          (k <= length pc /\ pc = sub start (length pc) read /\ exts = flank_exts read start (length pc) /\
           pieces_ok k read (start + length pc - (k - 1)) (y :: r')). auto.
      + intros i b Hocc. apply in_or_app.
        change (occ_in k start ((bucket, exts, pc) :: y :: r') i b) with
          ((start <= i /\ i + k <= start + length pc /\ b = bucket) \/
           occ_in k (start + length pc - (k - 1)) (y :: r') i b) in Hocc.
        destruct Hocc as [[H1 [H2 ->]]|Hocc]; [left; now apply Hhere|right; now apply O].
  Qed.

  Lemma check_read_sound ro obs : check_read k rcmode ro = Some obs ->
    read_ok k ro /\
    forall i b, k <= length (fst ro) -> occ_in k 0 (snd ro) i b -> In (kkey rcmode (kmer_at k (fst ro) i), b) obs.
  Proof.
    destruct ro as [read out]. unfold check_read, read_ok. cbn [fst snd].
    destruct (length read <? k) eqn:E.
    - apply Nat.ltb_lt in E. destruct out; [|discriminate]. intros _. split; [reflexivity|]. intros i b Hl. lia.
    - intro H. destruct (check_pieces_sound read out 0 obs H) as [P O]. split; [exact P|]. intros i b _. apply O.
  Qed.

  Lemma all_obs_sound l : forall obs, all_obs k rcmode l = Some obs ->
    Forall (read_ok k) l /\ forall x b, occ k rcmode l x b -> In (x, b) obs.
  Proof.
    induction l as [|ro r IH]; intros obs H.
    - split; [constructor|]. intros x b [read [out [i [[] _]]]].
    - cbn [all_obs] in H. destruct (check_read k rcmode ro) as [a|] eqn:E1; [|discriminate].
      destruct (all_obs k rcmode r) as [b0|] eqn:E2; [|discriminate]. injection H as <-.
      destruct (check_read_sound ro a E1) as [R O]. destruct (IH b0 eq_refl) as [F O'].
      split; [constructor; assumption|]. intros x b [read [out [i [I [L [Hocc ->]]]]]]. apply in_or_app.
      destruct I as [->|I].
      + left. apply (O i b L Hocc).
      + right. apply O'. exists read, out, i. auto.
  Qed.

  Lemma check_tiling_sound l : check_tiling k rcmode l = true -> 1 <= k /\ Forall (read_ok k) l.
  Proof.
    unfold check_tiling. intro H. apply andb_prop in H as [H1 H2]. apply Nat.leb_le in H1. split; [exact H1|].
    destruct (all_obs k rcmode l) as [obs|] eqn:E; [|discriminate]. exact (proj1 (all_obs_sound l obs E)).
  Qed.

  Lemma functional_sound obs : functional obs = true ->
    forall x b c, In (x, b) obs -> In (x, c) obs -> b = c.
  Proof.
    induction obs as [|[y d] r IH]; intros H x b c Hb Hc; [destruct Hb|].
    cbn [functional] in H. apply andb_true_iff in H as [H1 H2]. rewrite forallb_forall in H1.
    assert (Hd : forall e, In (y, e) r -> d = e).
    { intros e He. specialize (H1 _ He). cbn [fst snd] in H1. rewrite dna_eq_refl in H1. cbn in H1.
      now apply N.eqb_eq in H1. }
    destruct Hb as [Hb|Hb]; destruct Hc as [Hc|Hc].
    - congruence.
    - injection Hb as <- <-. now apply Hd.
    - injection Hc as <- <-. symmetry. now apply Hd.
    - exact (IH H2 x b c Hb Hc).
  Qed.

  Lemma check_msp_sound_k l : check_msp k rcmode l = true -> msp_out_ok k rcmode l.
  Proof.
    unfold check_msp. intro H. apply andb_true_iff in H as [_ H].
    destruct (all_obs k rcmode l) as [obs|] eqn:E; [|discriminate].
    destruct (all_obs_sound l obs E) as [F O]. split; [exact F|].
    intros x b c Hb Hc. apply (functional_sound obs H x b c); now apply O.
  Qed.
End CheckMspSound.

Theorem check_msp_sound k rcmode l : check_msp k rcmode l = true -> msp_out_ok k rcmode l.
Proof.
  intro H. apply check_msp_sound_k; [|exact H]. unfold check_msp in H. apply andb_true_iff in H as [H _].
  now apply Nat.leb_le.
Qed.

(* ---- simple_scan: acceptance by [check_simple] gives, for every interval, a witness position for which the interval
   passes [check_iv] (hence clauses (c), (d), (e) by the lemmas above) and whose canonical p-mer has the reported bucket *)
Lemma check_simple_sound seq k p sc l : check_simple seq k p sc l = true ->
  Forall (fun x => exists q, check_iv seq k p sc (mkS (sub q p seq) q (snd (fst x)) (snd x)) = true /\
                             bucket16 (sub q p seq) = fst (fst x)) l /\
  check_simple_chain seq k l = true.
Proof.
  unfold check_simple. intro H. repeat (apply andb_prop in H; destruct H as [H ?]).
  split; [|assumption].
  match goal with Hf : forallb _ l = true |- _ => rewrite forallb_forall in Hf; rename Hf into F end.
  apply Forall_forall. intros [[b st] ln] Hx. specialize (F _ Hx). cbn [check_simple_iv] in F.
  apply existsb_exists in F as [q [_ Hq]]. apply andb_prop in Hq as [Hq1 Hq2]. exists q. cbn [fst snd]. split; [exact Hq1|].
  now apply N.eqb_eq in Hq2.
Qed.
