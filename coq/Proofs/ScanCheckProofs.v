(* Soundness of the boolean checker of C07 (Check/ScanCheck.v) w.r.t. the Prop statement [scan_ok]. *)
From Coq Require Import NArith List Bool Arith Lia.
From DBG Require Import Spec.Dna Spec.ScanSpec Check.ScanCheck Proofs.ListFacts.
Import ListNotations.
Open Scope nat_scope.

Lemma dna_eq_true a b : dna_eq a b = true -> a = b.
Proof. unfold dna_eq. destruct (list_eq_dec N.eq_dec a b); [auto|discriminate]. Qed.

Section CheckSound.
  Variable score : dna -> N.
  Variable sq : dna.
  Variable k p : nat.
  Let m := length sq.
  Let f (j : nat) : N := score (sub j p sq).
  Let sc := map f (seq 0 (m + 1 - p)).
  Hypothesis Hp : 1 <= p.
  Hypothesis Hpk : p <= k.

  Lemma sc_length : length sc = m + 1 - p.
  Proof. unfold sc. now rewrite map_length, seq_length. Qed.

  Lemma sc_nth j : j + p <= m -> nth j sc 0%N = f j.
  Proof.
    intro H. unfold sc. rewrite (nth_indep _ 0%N (f 0)) by (rewrite map_length, seq_length; lia).
    rewrite map_nth. f_equal. rewrite seq_nth by lia. reflexivity.
  Qed.

  Lemma check_iv_sound x : check_iv sq k p sc x = true ->
    len_ok k p x /\ minimizer_ok sq k p x /\ minimal_ok score sq p x /\
    s_mpos x + p <= m /\ s_min x = sub (s_mpos x) p sq.
  Proof.
    unfold check_iv. rewrite !andb_true_iff, !Nat.leb_le. fold m.
    intros [[[[[[H1 H2] H3] H4] H5] H6] H7]. apply dna_eq_true in H3.
    split; [unfold len_ok; lia|]. split; [|split; [|split; [lia|exact H3]]].
    - split; [exact H3|]. unfold kmer_in. intros i Hi. lia.
    - unfold minimal_ok, pmer_in. intros j Hj. rewrite H3. change (f (s_mpos x) <= f j)%N.
      rewrite <- !sc_nth by lia. rewrite forallb_forall in H7.
      assert (Hin : In (nth j sc 0%N) (sub (s_start x) (s_len x - p + 1) sc)).
      { replace j with (s_start x + (j - s_start x)) by lia. rewrite <- (nth_sub _ (s_len x - p + 1)) by lia.
        apply nth_In. rewrite sub_length by (rewrite sc_length; lia). lia. }
      apply H7 in Hin. apply N.leb_le in Hin. exact Hin.
  Qed.

  Lemma check_chain_sound l : forallb (check_iv sq k p sc) l = true -> check_chain sq k p sc l = true ->
    chain_ok score sq k p l.
  Proof.
    induction l as [|x r IH]; intros F C; [discriminate|].
    cbn [forallb] in F. apply andb_true_iff in F as [Fx Fr]. destruct r as [|y r'].
    - cbn in C. apply Nat.eqb_eq in C. exact C.
    - cbn [check_chain] in C. rewrite !andb_true_iff in C. destruct C as [[[C1 C2] C3] C4].
      apply Nat.ltb_lt in C1. apply Nat.eqb_eq in C2. cbn [chain_ok]. split; [exact C1|]. split; [exact C2|].
      split; [|exact (IH Fr C4)].
      destruct (check_iv_sound x Fx) as [_ [_ [_ [Hq Hmin]]]].
      unfold check_end in C3. unfold end_ok. apply orb_true_iff in C3 as [C3|C3].
      + left. apply Nat.ltb_lt in C3. exact C3.
      + right. apply andb_true_iff in C3 as [C5 C6]. apply Nat.leb_le in C5. apply N.ltb_lt in C6. fold m in C5.
        rewrite !sc_nth in C6 by lia. rewrite Hmin. exact C6.
  Qed.
End CheckSound.

(* if the checker accepts the reported intervals - given the true score of every p-mer position - then they
   satisfy clauses (a)-(f) *)
Theorem check_scan_sound (score : dna -> N) sq k p scs l :
  scs = map (fun j => score (sub j p sq)) (seq 0 (length sq + 1 - p)) ->
  check_scan sq k p scs l = true -> scan_ok score sq k p l.
Proof.
  intros -> H. unfold check_scan in H. rewrite !andb_true_iff in H.
  destruct H as [[[[[[H1 H2] H3] H4] H5] H6] H7]. apply Nat.leb_le in H1, H2.
  unfold scan_ok. split; [|split].
  - destruct l as [|x r]; [discriminate|]. exists x, r. split; [reflexivity|]. now apply Nat.eqb_eq.
  - rewrite forallb_forall in H6. apply Forall_forall. intros x Hx.
    destruct (check_iv_sound score sq k p H1 H2 x (H6 x Hx)) as [A [B [C _]]]. auto.
  - apply check_chain_sound; assumption.
Qed.
