(* C09 with a censor list, the singleton route: a k-mer table T (one entry per canonical k-mer, extension bits = membership
   in a link set S', extensions towards absent k-mers allowed) read as a one-k-mer-per-node graph and re-compressed with
   the censor list c is THE SAME ASSEMBLY as compress_kmers of the table from which the censored entries were deleted
   and the extensions pruned (remove_censored_exts).
   Proof: the table is [lgraph_ok S'] as a graph ([table_lgraph_ok]); the filtered, pruned table is [links_ok] w.r.t. the
   links SL between surviving k-mers ([pruned_links_ok]), so compress_kmers returns the unitig graph of (surviving k-mers,
   SL) (E2eGraph.compress_assembly_abs); Proofs/RecompCensor.v says the same of compress_graph T (Some c); uniqueness of
   the unitig graph (UnitigUnique.unitig_unique, C04_unitig_unique). *)
From Coq Require Import NArith List Bool Arith Lia Permutation.
From DBG Require Import Spec.Dna Spec.GraphIndex Spec.Unitig Spec.CompressSpec Packed.ExtsModel Algo.Compress
  Algo.KmerHist Algo.GraphModel Algo.Recompress Spec.EdgeSpec Check.GraphCheck Check.PipelineCheck Check.RecompCheck Check.RecompLooseCheck
  Proofs.ListFacts Proofs.DnaFacts Proofs.KmerAlgebra Proofs.ExtsProofs Proofs.ExtsWalk
  Proofs.CompressBasics Proofs.CompressProofs Proofs.CompressGraphOk Proofs.FilterProofs Proofs.GraphQueryProofs
  Proofs.ValidGraphProofs Proofs.PipelineCheckProofs Proofs.UnitigUnique Proofs.PruneProofs Proofs.RecompressProofs
  Proofs.E2eDefs Proofs.E2eSym Proofs.E2eGraph Proofs.E2eTable Proofs.LooseGraph Proofs.LooseValid Proofs.RecompUnitig
  Proofs.RecompCensorMain Proofs.RecompCensor.
Import ListNotations.
Local Open Scope nat_scope.

Local Notation gk := PipelineCheck.graph_kmers.

Section TableGraph.
Variable K : nat.
Variable st : bool.
Hypothesis HK : 1 <= K.

(* per-entry well-formedness of a table (tbl_ok without NoDup) *)
Definition entries_ok (T : table pay) : Prop :=
  forall e, In e T -> length (e_key pay e) = K /\ wf_dna (e_key pay e) /\ (st = false -> canon (e_key pay e) = e_key pay e) /\
                      (e_exts pay e < 256)%N.
Lemma tbl_entries_ok T : tbl_ok pay K st T -> entries_ok T.
Proof. intros [A B C D E] e He. repeat split; auto. Qed.

Lemma cn_key T e : entries_ok T -> In e T -> cn st (e_key pay e) = e_key pay e.
Proof. intros H He. destruct (H e He) as (_ & _ & C & _). unfold cn. destruct st; [reflexivity | now apply C]. Qed.
Lemma node_kmers_entry T (e : node_t) : entries_ok T -> In e T -> PipelineCheck.node_kmers K st e = [e_key pay e].
Proof.
  intros H He. destruct (H e He) as (L & _). unfold PipelineCheck.node_kmers. change (nd_seq e) with (e_key pay e).
  rewrite (kmers_exact K _ HK L). cbn [map]. now rewrite (cn_key T e H He).
Qed.
Lemma gk_table T : entries_ok T -> gk K st T = keys pay T.
Proof.
  unfold PipelineCheck.graph_kmers, keys. induction T as [|e T IH]; intro H; [reflexivity|]. cbn [flat_map map].
  rewrite (node_kmers_entry (e :: T) e H (or_introl eq_refl)). cbn [app]. f_equal. apply IH. intros e' He'. apply H. now right.
Qed.

(* a table is [lgraph_ok] as a one-k-mer-per-node graph *)
Theorem table_lgraph_ok (kj : dna -> dna -> bool) (T : table pay) (S' : list dna) :
  entries_ok T -> links_loose pay st T S' -> lgraph_ok K st kj S' T.
Proof.
  intros Hok [Hnp Hpal].
  assert (Hk : forall n : node_t, In n T -> kmers K (nd_seq n) = [nd_seq n]).
  { intros n Hn. destruct (Hok n Hn) as (L & _). exact (kmers_exact K _ HK L). }
  constructor.
  - apply Forall_forall. intros n Hn. destruct (Hok n Hn) as (L & W & _). split; [exact W|]. change (nd_seq n) with (e_key pay n). lia.
  - intros n Hn. now destruct (Hok n Hn) as (_ & _ & _ & ?).
  - intros n p Hn Hp. unfold inner_pairs in Hp. cbv zeta in Hp. rewrite (Hk n Hn) in Hp. destruct Hp.
  - intros n Hn s c0 Hc. destruct (Hok n Hn) as (L & _).
    rewrite (GraphQueryProofs.term_kmer_single K (nd_seq n) s L). split; intro P.
    + exact (Hnp n s c0 Hn Hc P).
    + exact (Hpal n s c0 Hn Hc P).
  - intros n Hn w _ _. now destruct (Hok n Hn) as (L & _).
Qed.

Lemma table_payload mode (idf colf : dna -> N) (T : table pay) : entries_ok T ->
  (forall ent, In ent T -> e_data pay ent = (colf (e_key pay ent), [idf (e_key pay ent)])) ->
  PipelineCheck.payload_ok K st mode idf colf T.
Proof.
  intros Hok Hd n Hn. rewrite (node_kmers_entry T n Hok Hn). unfold nd_ids, nd_colour.
  change (snd n) with (e_data pay n). rewrite (Hd n Hn). cbn [fst snd map]. split; [apply Permutation_refl|]. split.
  - intros _ k [<-|[]]. reflexivity.
  - intros _. exists (e_key pay n). split; [now left | reflexivity].
Qed.

(* ---- the filtered and pruned table ---- *)
Variable T : table pay.
Variable c : list nat.
Variables S' SL : list dna.
Hypothesis Hok : tbl_ok pay K st T.
Hypothesis HL : links_loose pay st T S'.
Hypothesis HS : forall w, In w SL <-> In w S' /\ both_in K st (fun k => In k (gk K st (surv_nodes T c))) w.
Hypothesis HSwf : forall w, In w SL -> exists v, wf_dna v /\ length v = S K /\ w = cn st v.

Local Notation Ts := (surv_nodes T c).
Local Notation Tc := (remove_censored_exts pay st (surv_nodes T c)).

Lemma Ts_sub e : In e Ts -> In e T.
Proof. intro H. apply surv_nodes_spec in H as (i & Hi & _). exact (nth_error_In _ _ Hi). Qed.
Lemma Ts_entries_ok : entries_ok Ts.
Proof. intros e He. exact (tbl_entries_ok T Hok e (Ts_sub e He)). Qed.
Lemma T_nodup : NoDup (gk K st T).
Proof. rewrite (gk_table T (tbl_entries_ok T Hok)). exact (ok_nodup _ _ _ _ Hok). Qed.
Lemma Ts_keys : gk K st Ts = keys pay Ts.
Proof. exact (gk_table Ts Ts_entries_ok). Qed.
Lemma Ts_nodup : NoDup (keys pay Ts).
Proof. rewrite <- Ts_keys. apply surv_nodes_nodup. exact T_nodup. Qed.

(* entries of the pruned table *)
Lemma Tc_in ent : In ent Tc -> exists e, In e Ts /\ e_key pay ent = e_key pay e /\ e_data pay ent = e_data pay e /\
  (e_exts pay ent < 256)%N /\
  forall d b, (b < 4)%N -> (e_has_ext (e_exts pay ent) (dirb d) b = true <->
     e_has_ext (e_exts pay e) (dirb d) b = true /\ In (cn st (extend (e_key pay e) b d)) (keys pay Ts)).
Proof.
  intro H. unfold remove_censored_exts in H. apply in_map_iff in H as [e [<- He]]. exists e. split; [exact He|].
  cbn [e_key e_data e_exts fst snd]. split; [reflexivity|]. split; [reflexivity|].
  destruct (prune_exts_exact st (key_in (map (fun e0 : dna * N * pay => fst (fst e0)) Ts)) (fst (fst e)) (snd (fst e))) as [L B].
  split; [exact L|]. intros d b Hb. rewrite (B d b Hb), andb_true_iff, key_in_iff. reflexivity.
Qed.
Lemma Tc_keys : keys pay Tc = keys pay Ts.
Proof. apply prune_keys. Qed.

Lemma Tc_tbl_ok : tbl_ok pay K st Tc.
Proof.
  constructor.
  - rewrite Tc_keys. exact Ts_nodup.
  - intros ent He. destruct (Tc_in ent He) as (e & He' & -> & _). now destruct (Ts_entries_ok e He') as (? & _).
  - intros ent He. destruct (Tc_in ent He) as (e & He' & -> & _). now destruct (Ts_entries_ok e He') as (_ & ? & _).
  - intros Hs ent He. destruct (Tc_in ent He) as (e & He' & -> & _). destruct (Ts_entries_ok e He') as (_ & _ & C & _). now apply C.
  - intros ent He. now destruct (Tc_in ent He) as (e & _ & _ & _ & ? & _).
Qed.

Lemma key_surv e : In e Ts -> In (cn st (e_key pay e)) (gk K st Ts).
Proof. intro He. rewrite Ts_keys, (cn_key Ts e Ts_entries_ok He). unfold keys. now apply in_map. Qed.

Lemma SL_iff e d b : In e Ts -> (b < 4)%N ->
  (In (cn st (lk (e_key pay e) d b)) SL <->
   In (cn st (lk (e_key pay e) d b)) S' /\ In (cn st (extend (e_key pay e) b d)) (keys pay Ts)).
Proof.
  intros He Hb. destruct (Ts_entries_ok e He) as (L & W & _).
  rewrite HS, (both_in_lk K st _ HK (e_key pay e) d b W L Hb), <- Ts_keys. pose proof (key_surv e He). tauto.
Qed.

Theorem pruned_links_ok : links_ok pay st Tc SL.
Proof.
  pose proof (ll_np _ _ _ _ HL) as Hnp. pose proof (ll_pal _ _ _ _ HL) as Hpal. constructor.
  - intros ent d b He Hb P. destruct (Tc_in ent He) as (e & He' & Ek & _ & _ & Hbits). rewrite Ek in *.
    rewrite (Hbits d b Hb), (SL_iff e d b He' Hb), (Hnp e d b (Ts_sub e He') Hb P). reflexivity.
  - intros ent d b He Hb P. destruct (Tc_in ent He) as (e & He' & Ek & _ & _ & Hbits). rewrite Ek in *.
    destruct (Ts_entries_ok e He') as (L & W & _).
    assert (NX : e_key pay e <> []) by (intro E; rewrite E in L; cbn in L; lia).
    pose proof P as P0. apply kpal_iff in P0 as [Hs P'].
    assert (Ez : cn st (extend (e_key pay e) (comp b) (dflip d)) = cn st (extend (e_key pay e) b d)).
    { rewrite P' at 1. rewrite <- KmerAlgebra.rc_extend by exact NX. apply cn_rc_; auto. now apply KmerAlgebra.extend_wf. }
    rewrite (Hbits d b Hb), (Hbits (dflip d) (comp b) (comp_lt4 b)), Ez, (SL_iff e d b He' Hb).
    rewrite <- (Hpal e d b (Ts_sub e He') Hb P). tauto.
  - intros ent d b He Hb Hh. destruct (Tc_in ent He) as (e & He' & Ek & _ & _ & Hbits). rewrite Ek.
    destruct (proj1 (Hbits d b Hb) Hh) as [_ Hh']. rewrite Tc_keys. exact Hh'.
  - intros w Hw. destruct (HSwf w Hw) as (v & Wv & Lv & ->). pose proof (proj1 (HS _) Hw) as [_ Hb].
    apply (both_in_cn K st _ v Wv Lv) in Hb as [Hb1 _]. rewrite Ts_keys in Hb1.
    assert (Lx0 : length (firstn K v) = K) by (rewrite firstn_length; lia).
    assert (Wx0 : wf_dna (firstn K v)) by (now apply RecompressProofs.wf_firstn).
    set (x0 := firstn K v) in *. set (c0 := last v 0%N).
    assert (Ev : v = lk x0 DRight c0).
    { cbn [lk]. unfold x0, c0. rewrite <- (firstn_skipn K v) at 1. f_equal.
      assert (Ls : length (skipn K v) = 1) by (rewrite skipn_length; lia).
      destruct (skipn K v) as [|z [|? ?]] eqn:E; try discriminate. f_equal.
      rewrite <- (firstn_skipn K v), E. now rewrite last_last. }
    assert (Hc : (c0 < 4)%N).
    { unfold c0. apply wf_last; [exact Wv|]. intro E. rewrite E in Lv. discriminate. }
    unfold keys in Hb1. apply in_map_iff in Hb1 as [e [Ee He]].
    destruct (Ts_entries_ok e He) as (L & W & _).
    assert (Hent : exists ent, In ent Tc /\ e_key pay ent = e_key pay e).
    { exists (fst (fst e), prune_exts st (key_in (map (fun e0 : dna * N * pay => fst (fst e0)) Ts)) (fst (fst e)) (snd (fst e)), snd e).
      split; [|reflexivity]. unfold remove_censored_exts. apply in_map_iff. exists e. split; [reflexivity | exact He]. }
    destruct Hent as (ent & Hent & Ek).
    assert (Ee' : cn st (e_key pay e) = cn st x0) by (rewrite (cn_key Ts e Ts_entries_ok He); exact Ee).
    clear Ee. apply cn_eq_cases in Ee'; auto. destruct Ee' as [Ee|[Hs Ee]].
    + exists ent, DRight, c0. split; [exact Hent|]. split; [exact Hc|]. now rewrite Ek, Ee, <- Ev.
    + exists ent, DLeft, (comp c0). split; [exact Hent|]. split; [apply comp_lt4|].
      rewrite Ek, Ee. replace (lk (rc x0) DLeft (comp c0)) with (rc v) by (rewrite Ev, rc_lk; reflexivity).
      symmetry. now apply cn_rc_.
Qed.
End TableGraph.

(* ---- closed form ---- *)
Theorem censor_eq_filter K st mode (idf colf : dna -> N) (T : table pay) (S' SL : list dna) (c : list nat) (out g2 : list node_t) :
  1 <= K -> tbl_ok pay K st T -> links_loose pay st T S' ->
  (forall ent, In ent T -> e_data pay ent = (colf (e_key pay ent), [idf (e_key pay ent)])) ->
  (forall w, In w SL <-> In w S' /\ both_in K st (fun k => In k (gk K st (surv_nodes T c))) w) ->
  (forall w, In w SL -> exists v, wf_dna v /\ length v = S K /\ w = cn st v) ->
  compress_graph pay pay_reduce (pay_join mode) K st T (Some c) = Some out ->
  compress_kmers pay pay_reduce (pay_join mode) st (remove_censored_exts pay st (surv_nodes T c)) = Some g2 ->
  same_assembly K st mode out g2.
Proof.
  intros HK Hok HL Hd HS Hwf Hc Hk.
  pose proof (tbl_entries_ok K st T Hok) as He.
  assert (Hd' : forall ent, In ent (remove_censored_exts pay st (surv_nodes T c)) ->
            e_data pay ent = (colf (e_key pay ent), [idf (e_key pay ent)])).
  { intros ent Hent. destruct (Tc_in st T c ent Hent) as (e & He' & -> & -> & _). apply Hd. exact (Ts_sub T c e He'). }
  destruct (compress_assembly_abs K st mode _ SL idf colf g2 HK (Tc_tbl_ok K st HK T c Hok)
              (pruned_links_ok K st HK T c S' SL Hok HL HS Hwf) Hd' Hk) as (Pk & Lk & U2 & P2).
  rewrite (Tc_keys st T c), <- (Ts_keys K st HK T c Hok) in Pk.
  apply (censor_same_assembly K st mode idf colf S' SL T c out g2 HK
           (table_lgraph_ok K st HK (kjoin_f mode colf) T S' He HL) (T_nodup K st HK T Hok) HS Hwf
           (table_payload K st HK mode idf colf T He Hd) Hc U2); auto.
  - eapply Permutation_NoDup; [symmetry; exact Pk|]. apply surv_nodes_nodup. exact (T_nodup K st HK T Hok).
  - intro x. split; intro H; [eapply Permutation_in; [exact Pk | exact H] | eapply Permutation_in; [symmetry; exact Pk | exact H]].
Qed.

(* conversely, a one-k-mer-per-node graph that is lgraph_ok w.r.t. S' is a table whose extension bits are the membership in S' *)
Theorem lgraph_table_links_loose K st (kj : dna -> dna -> bool) (T : table pay) (S' : list dna) :
  entries_ok K st T -> lgraph_ok K st kj S' T -> links_loose pay st T S'.
Proof.
  intros Hok HG. constructor.
  - intros ent d b He Hb P. destruct (Hok ent He) as (L & _).
    destruct (lg_ends _ _ _ _ _ HG ent He d b Hb) as [H1 _].
    rewrite (GraphQueryProofs.term_kmer_single K (nd_seq ent) d L) in H1. exact (H1 P).
  - intros ent d b He Hb P. destruct (Hok ent He) as (L & _).
    destruct (lg_ends _ _ _ _ _ HG ent He d b Hb) as [_ H2].
    rewrite (GraphQueryProofs.term_kmer_single K (nd_seq ent) d L) in H2. exact (H2 P).
Qed.

Theorem table_lgraph_ok_tbl K st : 1 <= K -> forall (kj : dna -> dna -> bool) (T : table pay) (S' : list dna),
  tbl_ok pay K st T -> links_loose pay st T S' -> lgraph_ok K st kj S' T.
Proof. intros HK kj T S' H. apply (table_lgraph_ok K st HK kj T S'). now apply tbl_entries_ok. Qed.
Print Assumptions censor_eq_filter.
Print Assumptions lgraph_table_links_loose.
