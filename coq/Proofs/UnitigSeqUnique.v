(* C02 decomposition_unique at SEQUENCE level: compressing a permutation T' of the table T gives, for every node n of
   compress_kmers T, a node n' of compress_kmers T' with the same key set whose sequence is n's, or its reverse
   complement (unstranded only), or - when n is an isolated cycle (its last k-mer is linked to its first) - whose
   k-mer list is a rotation of that of n or of rc n.
   Proof: the k-mers of a node, each with the side through which the walk entered it, form a chain of the static step
   relation knext read on KEYS (a deterministic, injective, reversal-symmetric partial function that does not depend on
   the order of the table); two such chains over the same key set are related as ChainUnique.ochain_unique says; the
   same key set comes from C02_decomposition_unique_partial (order_independent). *)
From Coq Require Import NArith List Bool Arith Lia Permutation.
From DBG Require Import Proofs.AbstractWalk.
From DBG Require Import Spec.Dna Spec.GraphIndex Spec.Unitig Spec.CompressSpec Packed.ExtsModel Algo.Compress
  Proofs.ListFacts Proofs.DnaFacts Proofs.KmerAlgebra Proofs.CompressBasics Proofs.CompressRefine Proofs.CompressWalk
  Proofs.CompressProofs Proofs.UnitigProofs Proofs.UnitigOrder Proofs.ChainUnique.
Import ListNotations.
Local Open Scope nat_scope.

(* a sequence is determined by its k-mers *)
Lemma kmers_inj K (s s' : dna) : 1 <= K -> K <= length s -> K <= length s' -> kmers K s = kmers K s' -> s = s'.
Proof.
  intros HK L L' E.
  assert (El : length s = length s').
  { apply (f_equal (@length _)) in E. rewrite !kmers_length in E by assumption. lia. }
  apply (nth_ext _ _ 0%N 0%N); [exact El|]. intros p Hp.
  assert (Hk : forall i, i + K <= length s -> kmer_at K s i = kmer_at K s' i).
  { intros i Hi. apply (f_equal (fun l => nth i l [])) in E. unfold kmers in E.
    rewrite (nth_indep _ [] (kmer_at K s 0)) in E by (rewrite map_length, seq_length; lia).
    rewrite (nth_indep (map (kmer_at K s') _) [] (kmer_at K s' 0)) in E by (rewrite map_length, seq_length; lia).
    rewrite !map_nth, !seq_nth in E by lia. exact E. }
  destruct (le_lt_dec (p + K) (length s)) as [H|H].
  - specialize (Hk p H). apply (f_equal (fun l => nth 0 l 0%N)) in Hk. unfold kmer_at in Hk.
    rewrite !nth_sub in Hk by lia. now rewrite !Nat.add_0_r in Hk.
  - specialize (Hk (length s - K) ltac:(lia)). apply (f_equal (fun l => nth (p - (length s - K)) l 0%N)) in Hk.
    unfold kmer_at in Hk. rewrite !nth_sub in Hk by lia. replace (length s - K + (p - (length s - K))) with p in Hk by lia.
    exact Hk.
Qed.
Lemma kmers_rc_ K (s : dna) : kmers K (rc s) = rev (map rc (kmers K s)).
Proof.
  unfold kmers. rewrite rc_length. set (m := length s + 1 - K). rewrite map_map.
  apply (nth_ext _ _ [] []).
  - now rewrite rev_length, !map_length.
  - intros i Hi. rewrite map_length, seq_length in Hi.
    rewrite (nth_indep _ [] (kmer_at K (rc s) 0)) by (rewrite map_length, seq_length; exact Hi).
    rewrite map_nth, seq_nth by exact Hi. cbn [plus].
    rewrite rev_nth by (rewrite map_length, seq_length; exact Hi). rewrite map_length, seq_length.
    rewrite (nth_indep _ [] ((fun x => rc (kmer_at K s x)) 0)) by (rewrite map_length, seq_length; lia).
    rewrite (map_nth (fun x => rc (kmer_at K s x))). rewrite seq_nth by lia. cbn [plus].
    rewrite kmer_at_rc by (unfold m in Hi; lia). f_equal. f_equal. unfold m in *. lia.
Qed.

(* occurrences: (key, side through which the k-mer is entered); L = read as the key, R = read as its reverse complement *)
Definition occ := (dna * side)%type.
Definition rvK (o : occ) : occ := (fst o, flip (snd o)).
Definition winK (o : occ) : dna := match snd o with L => fst o | R => rc (fst o) end.
Definition fl (x : nat * side) : nat * side := (fst x, flip (snd x)).
Definition opath (lp : list (nat * side)) (i : nat) (rp : list (nat * side)) : list (nat * side) :=
  rev (map fl lp) ++ (i, L) :: rp.

Section SU.
Variable D : Type.
Variable reduce : D -> D -> D.
Variable join : D -> D -> bool.
Variable K : nat.
Variable stranded : bool.
Hypothesis HK : 1 <= K.
Hypothesis join_sym : forall a b, join a b = join b a.

Section One.
Variable T : table D.
Hypothesis Hok : tbl_ok D K stranded T.
Hypothesis Hsym : exts_sym D stranded T.
Local Notation kkey := (kkey D T).
Local Notation anext := (anext D join stranded T).
Local Notation knext := (knext D join stranded T).
Local Notation cstruct := (compress_struct D join stranded T).
Local Notation U := (seq 0 (length T)).

Definition nxtI (x : nat * side) : option (nat * side) := anext (fst x) (flip (snd x)).
Definition keyed (x : nat * side) : occ := (kkey (fst x), snd x).
Definition nxtK (o : occ) : option occ :=
  match get_id D T (fst o) with
  | Some i => match anext i (flip (snd o)) with Some (j, t) => Some (kkey j, t) | None => None end
  | None => None
  end.
Definition kpath lp i rp : list occ := map keyed (opath lp i rp).

Lemma anext_valid_src v s w t : anext v s = Some (w, t) -> v < length T /\ w < length T.
Proof.
  intro H. pose proof (anext_knext D join stranded T _ _ _ _ H) as Hk.
  destruct (knext_inv D join K stranded T Hok _ _ _ _ Hk) as (ent & yent & _ & _ & Hi & Hj & _).
  split; apply nth_error_Some; congruence.
Qed.
Lemma get_id_kkey i : i < length T -> get_id D T (kkey i) = Some i.
Proof.
  intro Hi. unfold CompressRefine.kkey. destruct (nth_error T i) as [e|] eqn:E; [|apply nth_error_None in E; lia].
  now apply (get_id_key D K stranded T Hok).
Qed.
Lemma get_id_kkey_inv k i : get_id D T k = Some i -> i < length T /\ kkey i = k.
Proof.
  intro H. destruct (get_id_Some D T _ _ H) as [e [He Hk]]. split; [apply nth_error_Some; congruence|].
  unfold CompressRefine.kkey. now rewrite He.
Qed.

(* the step on keys: injective and symmetric under reversal *)
Lemma nxtK_inv o c : nxtK o = Some c ->
  exists i j, i < length T /\ j < length T /\ kkey i = fst o /\ kkey j = fst c /\ anext i (flip (snd o)) = Some (j, snd c).
Proof.
  unfold nxtK. destruct (get_id D T (fst o)) as [i|] eqn:Ei; [|discriminate].
  destruct (anext i (flip (snd o))) as [[j t]|] eqn:Ea; [|discriminate]. intro H. injection H as <-.
  destruct (get_id_kkey_inv _ _ Ei) as [Hi Hk]. destruct (anext_valid_src _ _ _ _ Ea) as [_ Hj].
  exists i, j. cbn [fst snd]. auto.
Qed.
Lemma nxtK_intro i s j t : anext i (flip s) = Some (j, t) -> nxtK (kkey i, s) = Some (kkey j, t).
Proof.
  intro H. destruct (anext_valid_src _ _ _ _ H) as [Hi _]. unfold nxtK. cbn [fst snd]. now rewrite (get_id_kkey i Hi), H.
Qed.
Lemma nxtK_rv a b : nxtK a = Some b -> nxtK (rvK b) = Some (rvK a).
Proof.
  intro H. destruct (nxtK_inv _ _ H) as (i & j & Hi & Hj & Ki & Kj & Ha).
  apply (anext_sym D join K stranded HK T Hok Hsym join_sym) in Ha.
  destruct a as [ka sa], b as [kb sb]. cbn [fst snd rvK] in *. subst ka kb.
  apply nxtK_intro. now rewrite flip_flip.
Qed.
Lemma nxtK_inj a b c : nxtK a = Some c -> nxtK b = Some c -> a = b.
Proof.
  intros Ha Hb. apply nxtK_rv in Ha, Hb. rewrite Ha in Hb. injection Hb as Hk Hs.
  destruct a as [ka sa], b as [kb sb]. cbn [fst snd] in *. subst kb. f_equal. destruct sa, sb; cbn in Hs; congruence.
Qed.

(* a node's walk is a chain of nxtI, hence its keyed path a chain of nxtK *)
Lemma nxtI_rv a b : nxtI a = Some b -> nxtI (fl b) = Some (fl a).
Proof.
  unfold nxtI, fl. destruct a as [v s], b as [w t]. cbn [fst snd]. intro H. rewrite flip_flip.
  now apply (anext_sym D join K stranded HK T Hok Hsym join_sym) in H.
Qed.
Lemma chain_right v s p : chain nat anext v s p -> ochain _ nxtI ((v, flip s) :: p).
Proof.
  induction 1 as [v s | v s w t p Hn Hc IH].
  - cbn. auto.
  - split; [unfold nxtI; cbn [fst snd]; now rewrite flip_flip|]. now rewrite flip_flip in IH.
Qed.
Lemma opath_chain lp i rp : chain nat anext i L lp -> chain nat anext i R rp -> ochain _ nxtI (opath lp i rp).
Proof.
  intros HL HR. unfold opath. apply ochain_glue.
  - pose proof (ochain_rev _ nxtI fl nxtI_rv _ (chain_right _ _ _ HL)) as H. cbn [map rev flip fl fst snd] in H. exact H.
  - exact (chain_right _ _ _ HR).
Qed.
Lemma opath_verts lp i rp : map fst (opath lp i rp) = node_verts nat lp i rp.
Proof.
  unfold opath, node_verts, verts. rewrite map_app, map_rev, map_map. cbn [map fst fl]. reflexivity.
Qed.
Lemma kpath_chain lp i rp : chain nat anext i L lp -> chain nat anext i R rp -> ochain _ nxtK (kpath lp i rp).
Proof.
  intros HL HR. unfold kpath. apply (ochain_map nxtI nxtK keyed); [|now apply opath_chain].
  intros [v s] [w t] _ H. unfold nxtI in H. cbn [fst snd] in H. unfold keyed. cbn [fst snd]. now apply nxtK_intro.
Qed.
Lemma kpath_keys lp i rp : map fst (kpath lp i rp) = map kkey (node_verts nat lp i rp).
Proof. unfold kpath. rewrite map_map. cbn [keyed fst]. rewrite <- opath_verts, map_map. reflexivity. Qed.

(* windows of a node = the oriented keys of its keyed path *)
Lemma kpath_wins lp i rp : node_wins D T lp i rp = map winK (kpath lp i rp).
Proof.
  unfold node_wins, kpath, opath. rewrite map_app. cbn [map]. rewrite map_app. cbn [map]. rewrite !map_rev, !map_map.
  f_equal; [f_equal|f_equal].
  - apply map_ext. intros [w t]. unfold CompressRefine.owin, winK, keyed, fl, orient. cbn [fst snd]. destruct t; reflexivity.
  - apply map_ext. intros [w t]. unfold CompressRefine.owin, winK, keyed, orient. cbn [fst snd]. destruct t; reflexivity.
Qed.

(* in stranded mode no k-mer is ever read on the other strand *)
Lemma kpath_stranded lp i rp o : stranded = true -> chain nat anext i L lp -> chain nat anext i R rp ->
  In o (kpath lp i rp) -> snd o = L.
Proof.
  intros St HL HR Ho.
  assert (HoL : ocond stranded DLeft (ds L) (kkey i)) by (left; reflexivity).
  assert (HoR : ocond stranded DRight (ds R) (kkey i)) by (left; reflexivity).
  destruct (chain_windows D join K stranded HK T Hok Hsym DLeft i L lp HL HoL) as (_ & _ & FL).
  destruct (chain_windows D join K stranded HK T Hok Hsym DRight i R rp HR HoR) as (_ & _ & FR).
  rewrite Forall_forall in FL, FR.
  unfold kpath, opath in Ho. apply in_map_iff in Ho as ([v s] & <- & Hx). cbn [keyed snd].
  apply in_app_or in Hx as [Hx|[Hx|Hx]].
  - apply in_rev, in_map_iff in Hx as ([w t] & E & Hwt). unfold fl in E. cbn [fst snd] in E. injection E as <- <-.
    destruct (FL _ Hwt) as [H|[H _]]; [|congruence]. cbn [fst snd] in H. destruct t; cbn in H; [discriminate | reflexivity].
  - now injection Hx as <- <-.
  - destruct (FR _ Hx) as [H|[H _]]; [|congruence]. cbn [fst snd] in H. destruct s; cbn in H; [reflexivity | discriminate].
Qed.
End One.

(* ---- the key-level step does not depend on the order of the table ------------------------------------------------ *)
Lemma nxtK_perm_some T T' o c : tbl_ok D K stranded T -> Permutation T T' -> nxtK T o = Some c -> nxtK T' o = Some c.
Proof.
  intros Hok Hp H. pose proof (tbl_ok_perm D K stranded T T' Hp Hok) as Hok'.
  destruct (nxtK_inv T Hok _ _ H) as (i & j & Hi & Hj & Ki & Kj & Ha).
  apply (anext_knext D join stranded T) in Ha.
  destruct (link_of_knext D join K stranded T Hok _ _ _ _ Ha) as (ent & yent & Ei & Ej & Hl).
  assert (Hin' : In ent T') by (eapply Permutation_in; [exact Hp | eapply nth_error_In; eauto]).
  assert (Hyin' : In yent T') by (eapply Permutation_in; [exact Hp | eapply nth_error_In; eauto]).
  destruct (In_nth_error _ _ Hin') as [i' Ei']. destruct (In_nth_error _ _ Hyin') as [j' Ej'].
  pose proof (knext_of_link D join K stranded T' Hok' i' j' ent yent _ _ Ei' Ej' Hl) as Hk'.
  assert (Ka : kkey D T' i' = fst o) by (rewrite <- Ki; unfold CompressRefine.kkey; now rewrite Ei, Ei').
  assert (Kb : kkey D T' j' = fst c) by (rewrite <- Kj; unfold CompressRefine.kkey; now rewrite Ej, Ej').
  destruct o as [ko so], c as [kc sc]. cbn [fst snd] in *. subst ko kc.
  rewrite <- Ka, <- Kb. apply (nxtK_intro T' Hok'). unfold CompressRefine.anext. rewrite Hk'. now rewrite sd_ds.
Qed.
Lemma nxtK_perm T T' o : tbl_ok D K stranded T -> Permutation T T' -> nxtK T' o = nxtK T o.
Proof.
  intros Hok Hp. pose proof (tbl_ok_perm D K stranded T T' Hp Hok) as Hok'.
  destruct (nxtK T o) as [c|] eqn:E.
  - now apply (nxtK_perm_some T T').
  - destruct (nxtK T' o) as [c|] eqn:E'; [|reflexivity].
    apply (nxtK_perm_some T' T o c Hok' (Permutation_sym Hp)) in E'. congruence.
Qed.

(* ---- list facts ----------------------------------------------------------------------------------------------------- *)
Lemma NoDup_app_inv_ {A} (a b : list A) : NoDup (a ++ b) -> NoDup a /\ NoDup b /\ forall y, In y a -> ~ In y b.
Proof.
  induction a as [|x a IH]; cbn; intro H; [repeat split; auto; constructor|]. inversion H; subst.
  destruct (IH H3) as (Ha & Hb & Hd). split; [|split; auto].
  - constructor; auto. intro Hx. apply H2. apply in_or_app. now left.
  - intros y [<-|Hy]; [intro Hy; apply H2; apply in_or_app; now right | now apply Hd].
Qed.
Lemma concat_in_unique {A} (ll : list (list A)) a b x : NoDup (concat ll) -> In a ll -> In b ll -> In x a -> In x b -> a = b.
Proof.
  induction ll as [|c ll IH]; intros Hnd Ha Hb Hxa Hxb; [destruct Ha|]. cbn [concat] in Hnd.
  apply NoDup_app_inv_ in Hnd as (_ & Hl & Hdis).
  destruct Ha as [->|Ha], Hb as [->|Hb]; auto.
  - exfalso. apply (Hdis x Hxa). apply in_concat. eauto.
  - exfalso. apply (Hdis x Hxb). apply in_concat. eauto.
Qed.
Lemma concat_elem_nodup {A} (ll : list (list A)) a : NoDup (concat ll) -> In a ll -> NoDup a.
Proof.
  induction ll as [|c ll IH]; intros Hnd Ha; [destruct Ha|]. cbn [concat] in Hnd.
  apply NoDup_app_inv_ in Hnd as (Hc & Hl & _). destruct Ha as [->|Ha]; auto.
Qed.
Lemma in_rot {A} r (l : list A) x : In x (rot r l) -> In x l.
Proof. unfold rot. intro H. apply in_app_or in H as [H|H]; [eapply in_skipn | eapply in_firstn]; eauto. Qed.
Lemma map_rot {A B} (f : A -> B) r l : map f (rot r l) = rot r (map f l).
Proof. unfold rot. now rewrite map_app, skipn_map, firstn_map. Qed.
Lemma last_map_ {A B} (f : A -> B) l d : last (map f l) (f d) = f (last l d).
Proof. induction l as [|a l IH]; [reflexivity|]. cbn [map]. destruct l as [|b l]; [reflexivity|]. exact IH. Qed.
Lemma last_nonempty_indep {A} (l : list A) d d' : l <> [] -> last l d = last l d'.
Proof. intro H. destruct (exists_last H) as (q & z & ->). now rewrite !last_last. Qed.

Lemma winK_rv o : wf_dna (fst o) -> winK (rvK o) = rc (winK o).
Proof.
  destruct o as [k s]. unfold winK, rvK. cbn [fst snd]. intro W. destruct s; cbn [flip]; [reflexivity|].
  now rewrite ListFacts.rc_involutive.
Qed.

(* a node whose last k-mer is linked to its first: an isolated cycle *)
Definition cycle_node (T : table D) (n : node D) : Prop :=
  exists i j d d', knext D join stranded T i d = Some (j, d') /\
    kkey D T i = last (node_keys D K stranded n) [] /\ kkey D T j = hd [] (node_keys D K stranded n).

Theorem decomposition_unique T T' : tbl_ok D K stranded T -> exts_sym D stranded T -> Permutation T T' ->
  exists nodes nodes', compress_kmers D reduce join stranded T = Some nodes /\
    compress_kmers D reduce join stranded T' = Some nodes' /\
    forall n, In n nodes -> exists n', In n' nodes' /\
      (forall k, In k (node_keys D K stranded n) <-> In k (node_keys D K stranded n')) /\
      (CompressSpec.n_seq D n' = CompressSpec.n_seq D n \/
       (stranded = false /\ CompressSpec.n_seq D n' = rc (CompressSpec.n_seq D n)) \/
       (cycle_node T n /\ exists r,
          node_windows D K n' = rot r (node_windows D K n) \/
          (stranded = false /\ node_windows D K n' = rot r (kmers K (rc (CompressSpec.n_seq D n)))))).
Proof.
  intros Hok Hsym Hp.
  pose proof (tbl_ok_perm D K stranded T T' Hp Hok) as Hok'.
  pose proof (exts_sym_perm D K stranded T T' Hp Hok Hsym) as Hsym'.
  destruct (order_independent D reduce join K stranded HK join_sym T T' Hok Hsym Hp) as (nodes & nodes' & Hc & Hc' & Hsame).
  exists nodes, nodes'. split; [exact Hc|]. split; [exact Hc'|].
  destruct (compress_refines D reduce join K stranded HK T Hok Hsym) as (nodes0 & Hc0 & Hrel).
  assert (nodes0 = nodes) by congruence. subst nodes0.
  destruct (compress_refines D reduce join K stranded HK T' Hok' Hsym') as (nodes0 & Hc0' & Hrel').
  assert (nodes0 = nodes') by congruence. subst nodes0.
  destruct (compress_c01 D reduce join K stranded HK T Hok Hsym) as (nodes0 & Hc1 & Hpart & _).
  assert (nodes0 = nodes) by congruence. subst nodes0.
  destruct (compress_c01 D reduce join K stranded HK T' Hok' Hsym') as (nodes0 & Hc1' & Hpart' & _).
  assert (nodes0 = nodes') by congruence. subst nodes0.
  unfold partition_ok in Hpart, Hpart'.
  assert (HndT : NoDup (keys D T)) by apply (ok_nodup _ _ _ _ Hok).
  assert (HndT' : NoDup (keys D T')) by apply (ok_nodup _ _ _ _ Hok').
  assert (Hnd : NoDup (concat (map (node_keys D K stranded) nodes))) by (eapply Permutation_NoDup; [apply Permutation_sym; exact Hpart | exact HndT]).
  assert (Hnd' : NoDup (concat (map (node_keys D K stranded) nodes'))) by (eapply Permutation_NoDup; [apply Permutation_sym; exact Hpart' | exact HndT']).
  assert (HkeysTT' : forall k, In k (keys D T) <-> In k (keys D T')).
  { intro k. unfold Unitig.keys. split; apply Permutation_in; [|apply Permutation_sym]; now apply Permutation_map. }
  assert (Hin_keys : forall m, In m nodes -> forall k, In k (node_keys D K stranded m) -> In k (keys D T)).
  { intros m Hm k Hk. eapply Permutation_in; [exact Hpart|]. apply in_concat. exists (node_keys D K stranded m). split; [now apply in_map | exact Hk]. }
  assert (Hin_keys' : forall m, In m nodes' -> forall k, In k (node_keys D K stranded m) -> In k (keys D T')).
  { intros m Hm k Hk. eapply Permutation_in; [exact Hpart'|]. apply in_concat. exists (node_keys D K stranded m). split; [now apply in_map | exact Hk]. }
  intros n Hn.
  (* structure of n *)
  destruct (Forall2_in_l _ _ _ Hrel n Hn) as ([[lp i] rp] & Hin & Hr).
  destruct (node_facts D reduce join K stranded HK T Hok Hsym n lp i rp Hr Hin) as (F1 & F2 & F3 & _).
  destruct (struct_chains D join stranded T _ _ (seq_NoDup _ _) _ _ _ Hin) as (HcL & HcR & _).
  set (PK := kpath T lp i rp).
  assert (EW : node_windows D K n = map winK PK) by (rewrite F1; apply kpath_wins).
  assert (EK : node_keys D K stranded n = map fst PK) by (rewrite F2; symmetry; apply kpath_keys).
  assert (HPKne : PK <> []).
  { unfold PK, kpath, opath. destruct (rev (map fl lp)); discriminate. }
  (* the partner node *)
  set (k0 := fst (hd ([], L) PK)).
  assert (Hk0 : In k0 (node_keys D K stranded n)).
  { rewrite EK. unfold k0. destruct PK as [|o PK0]; [congruence|]. now left. }
  assert (Hk0T' : In k0 (keys D T')) by (apply HkeysTT'; now apply (Hin_keys n Hn)).
  assert (Hn' : exists n', In n' nodes' /\ In k0 (node_keys D K stranded n')).
  { eapply Permutation_in in Hk0T'; [|apply Permutation_sym; exact Hpart']. apply in_concat in Hk0T' as (l & Hl & Hkl).
    apply in_map_iff in Hl as (n' & <- & Hn'). eauto. }
  destruct Hn' as (n' & Hn' & Hk0').
  exists n'. split; [exact Hn'|].
  assert (Hsets : forall k, In k (node_keys D K stranded n) <-> In k (node_keys D K stranded n')).
  { intro k. split; intro Hk.
    - assert (Hs : same_node D K stranded nodes k0 k) by (exists n; auto).
      apply Hsame in Hs; [|now apply (Hin_keys n Hn) | now apply (Hin_keys n Hn)].
      destruct Hs as (n2 & Hn2 & H1 & H2).
      assert (E : node_keys D K stranded n2 = node_keys D K stranded n').
      { apply (concat_in_unique (map (node_keys D K stranded) nodes') _ _ k0 Hnd'); auto using in_map. }
      now rewrite <- E.
    - assert (Hs : same_node D K stranded nodes' k0 k) by (exists n'; auto).
      apply Hsame in Hs; [|apply HkeysTT'; now apply (Hin_keys' n' Hn') | apply HkeysTT'; now apply (Hin_keys' n' Hn')].
      destruct Hs as (n2 & Hn2 & H1 & H2).
      assert (E : node_keys D K stranded n2 = node_keys D K stranded n).
      { apply (concat_in_unique (map (node_keys D K stranded) nodes) _ _ k0 Hnd); auto using in_map. }
      now rewrite <- E. }
  split; [exact Hsets|].
  (* structure of n' *)
  destruct (Forall2_in_l _ _ _ Hrel' n' Hn') as ([[lp' i'] rp'] & Hin' & Hr').
  destruct (node_facts D reduce join K stranded HK T' Hok' Hsym' n' lp' i' rp' Hr' Hin') as (F1' & F2' & F3' & _).
  destruct (struct_chains D join stranded T' _ _ (seq_NoDup _ _) _ _ _ Hin') as (HcL' & HcR' & _).
  set (PK' := kpath T' lp' i' rp').
  assert (EW' : node_windows D K n' = map winK PK') by (rewrite F1'; apply kpath_wins).
  assert (EK' : node_keys D K stranded n' = map fst PK') by (rewrite F2'; symmetry; apply kpath_keys).
  (* the two chains *)
  assert (C1 : ochain _ (nxtK T) PK) by (now apply kpath_chain).
  assert (C2 : ochain _ (nxtK T) PK').
  { apply (ochain_ext (nxtK T')); [intro a; now apply nxtK_perm | now apply kpath_chain]. }
  assert (N1 : NoDup (map fst PK)) by (rewrite <- EK; apply (concat_elem_nodup _ _ Hnd); now apply in_map).
  assert (N2 : NoDup (map fst PK')) by (rewrite <- EK'; apply (concat_elem_nodup _ _ Hnd'); now apply in_map).
  assert (Hvs : forall v, In v (map fst PK) <-> In v (map fst PK')) by (intro v; rewrite <- EK, <- EK'; apply Hsets).
  assert (Hwf : forall o, In o PK -> wf_dna (fst o)).
  { intros o Ho. apply (in_map fst) in Ho. rewrite <- EK in Ho. apply (Hin_keys n Hn) in Ho.
    unfold Unitig.keys in Ho. apply in_map_iff in Ho as (e & <- & He). now apply (ok_wf _ _ _ _ Hok). }
  assert (Hrevwin : map winK (rev (map rvK PK)) = kmers K (rc (CompressSpec.n_seq D n))).
  { rewrite kmers_rc_. change (kmers K (CompressSpec.n_seq D n)) with (node_windows D K n). rewrite EW.
    rewrite map_rev. f_equal. rewrite !map_map. apply map_ext_in. intros o Ho. apply winK_rv. now apply Hwf. }
  assert (Hlen : K <= length (CompressSpec.n_seq D n)) by (rewrite F3; lia).
  assert (Hlen' : K <= length (CompressSpec.n_seq D n')) by (rewrite F3'; lia).
  assert (HPK'ne : PK' <> []).
  { unfold PK', kpath, opath. destruct (rev (map fl lp')); discriminate. }
  (* in stranded mode a reversed path cannot be a path *)
  assert (Hunstr : forall X, (forall o, In o PK' -> In o X) -> (forall o, In o X -> In o (rev (map rvK PK))) -> stranded = false).
  { intros X H1 H2. assert (St : stranded = true \/ stranded = false) by (destruct stranded; auto).
    destruct St as [St|St]; [exfalso | exact St].
    destruct PK' as [|o PK0'] eqn:E; [congruence|].
    assert (Ho : In o (kpath T' lp' i' rp')) by (fold PK'; rewrite E; now left).
    pose proof (kpath_stranded T' Hok' Hsym' lp' i' rp' o St HcL' HcR' Ho) as So.
    assert (Ho2 : In o (rev (map rvK PK))) by (apply H2, H1; now left).
    apply in_rev, in_map_iff in Ho2 as (o2 & <- & Ho2).
    pose proof (kpath_stranded T Hok Hsym lp i rp o2 St HcL HcR Ho2) as So2.
    unfold rvK in So. cbn [snd] in So. rewrite So2 in So. discriminate. }
  destruct (ochain_unique occ dna (nxtK T) rvK fst
              (fun a => ltac:(destruct a as [k s]; unfold rvK; cbn; now rewrite flip_flip))
              (fun a => ltac:(destruct a as [k s]; unfold rvK; cbn; destruct s; intro E; discriminate))
              (fun a => eq_refl)
              (fun a b => ltac:(destruct a as [k s], b as [k' s']; unfold rvK; cbn; intros <-; destruct s, s'; auto))
              (nxtK_inj T Hok Hsym) (nxtK_rv T Hok Hsym) PK PK' ([], L) HPKne C1 C2 N1 N2 Hvs)
    as [E|[E|(Hcyc & r & E)]].
  - left. apply (kmers_inj K); auto. change (node_windows D K n' = node_windows D K n). now rewrite EW, EW', E.
  - right. left. split; [apply (Hunstr PK'); [auto | intros o Ho; now rewrite <- E]|].
    apply (kmers_inj K); auto; [now rewrite rc_length|]. change (node_windows D K n' = kmers K (rc (CompressSpec.n_seq D n))).
    now rewrite EW', E, Hrevwin.
  - right. right. split.
    + destruct (nxtK_inv T Hok _ _ Hcyc) as (a & b & Ha & Hb & Ka & Kb & Hab).
      apply (anext_knext D join stranded T) in Hab. exists a, b. eexists. eexists. split; [exact Hab|]. rewrite EK. split.
      * rewrite Ka. rewrite (last_nonempty_indep (map fst PK) [] (fst ([], L))) by (destruct PK; [congruence | discriminate]).
        symmetry. apply last_map_.
      * rewrite Kb. destruct PK; [congruence | reflexivity].
    + exists r. destruct E as [E|E].
      * left. now rewrite EW', EW, E, map_rot.
      * right. split; [apply (Hunstr PK'); [auto | intros o Ho; rewrite E in Ho; now apply in_rot in Ho]|].
        now rewrite EW', E, map_rot, Hrevwin.
Qed.
End SU.
