(* C10: every bit kernel of IntKmer / VarIntKmer equals the list operation, for the 19 shipped types, every
   in-range control argument (enumerated, vm_compute) and EVERY storage / payload value (symbolic). *)
From Coq Require Import NArith List Bool Arith Lia.
From DBG Require Import Bits.SymBV Spec.Dna Packed.KmerModel Proofs.KmerLanes Proofs.KmerSweeps.
Import ListNotations.
Open Scope N_scope.


Lemma bounded_k K b1 s v : wf K s -> v < 2 ^ N.of_nat b1 -> bounded (env2 s v) (bnd_k K b1).
Proof. intros Hs Hv [|n]; cbn; assumption. Qed.

Lemma shipped_2K c : In c shipped -> (2 * kK c <= kW c)%nat /\ (0 < kK c)%nat.
Proof.
  intro H. assert (E : forallb (fun c => Nat.leb (2 * kK c) (kW c) && Nat.ltb 0 (kK c)) shipped = true) by (vm_compute; reflexivity).
  rewrite forallb_forall in E. specialize (E c H). apply andb_prop in E as [E1 E2].
  apply Nat.leb_le in E1. apply Nat.ltb_lt in E2. auto.
Qed.

Lemma stoS_decode c s v : In c shipped -> wf (kK c) s ->
  map (pv (rho_of (env2 s v))) (stoS c) = decode (kK c) s.
Proof. intros Hc Hs. unfold stoS. rewrite decode_var. cbn [env2]. now rewrite wf_mod. Qed.

(* common shape of a lane-level check: the kernel exists, no shift overflows, the result lanes are the
   specified symbolic lanes and the bits above 2K are syntactically zero *)

Lemma lane_check_lift c b1 oe spec s v :
  lane_check c b1 oe spec = true -> wf (kK c) s -> v < 2 ^ N.of_nat b1 ->
  exists r, run oe s v = Some r /\ wf (kK c) r /\ decode (kK c) r = map (pv (rho_of (env2 s v))) spec.
Proof.
  intros H Hs Hv. unfold lane_check in H. destruct oe as [e|]; [|discriminate].
  apply andb_prop in H as [H Hw]. apply andb_prop in H as [Hsh Hl].
  unfold run. cbn [obind]. rewrite Hsh. eexists; split; [reflexivity|].
  pose proof (evalS_sound (env2 s v) (bnd_k (kK c) b1) e (bounded_k _ _ _ _ Hs Hv)) as HR.
  split.
  - eapply wf_R; eauto.
  - rewrite (decode_R _ _ _ _ HR). now rewrite (lanes_eqb_eq _ _ Hl).
Qed.

Ltac sweep2 H c pos Hc Hpos :=
  rewrite forallb_forall in H; specialize (H c Hc); rewrite forallb_forall in H;
  specialize (H pos Hpos).

(* ---------------------------------------------------------------- set_mut *)

Theorem set_mut_spec c s pos v : In c shipped -> wf (kK c) s -> (pos < kK c)%nat -> v < 4 ->
  exists r, set_mut c s pos v = Some r /\ wf (kK c) r /\ decode (kK c) r = upd pos (decode (kK c) s) v.
Proof.
  intros Hc Hs Hp Hv. pose proof sweep_set_mut as H. sweep2 H c pos Hc (proj2 (in_seq _ _ _) (conj (Nat.le_0_l _) Hp)).
  destruct (lane_check_lift _ _ _ _ s v H Hs Hv) as [r [Hr [Hw Hd]]].
  exists r. split; [exact Hr|]. split; [exact Hw|].
  rewrite Hd, upd_map, stoS_decode by assumption. f_equal. f_equal. apply pv_var2. exact Hv.
Qed.

(* ---------------------------------------------------------------- extend_left / extend_right *)

Theorem extend_left_spec c s v : In c shipped -> wf (kK c) s -> v < 4 ->
  exists r, kextend_left c s v = Some r /\ wf (kK c) r /\ decode (kK c) r = extend_left (decode (kK c) s) v.
Proof.
  intros Hc Hs Hv. pose proof sweep_extend as H. rewrite forallb_forall in H. specialize (H c Hc).
  apply andb_prop in H as [H _].
  destruct (lane_check_lift _ _ _ _ s v H Hs Hv) as [r [Hr [Hw Hd]]].
  exists r. split; [exact Hr|]. split; [exact Hw|].
  rewrite Hd. cbn [map]. rewrite removelast_map, stoS_decode by assumption. unfold extend_left. f_equal.
  apply pv_var2. exact Hv.
Qed.

Theorem extend_right_spec c s v : In c shipped -> wf (kK c) s -> v < 4 ->
  exists r, kextend_right c s v = Some r /\ wf (kK c) r /\ decode (kK c) r = extend_right (decode (kK c) s) v.
Proof.
  intros Hc Hs Hv. pose proof sweep_extend as H. rewrite forallb_forall in H. specialize (H c Hc).
  apply andb_prop in H as [_ H].
  destruct (lane_check_lift _ _ _ _ s v H Hs Hv) as [r [Hr [Hw Hd]]].
  exists r. split; [exact Hr|]. split; [exact Hw|].
  rewrite Hd, map_app, tl_map, stoS_decode by assumption. unfold extend_right. cbn [map]. do 2 f_equal.
  apply pv_var2. exact Hv.
Qed.

(* ---------------------------------------------------------------- rc *)
Lemma pv_compS rho p : pv rho (compS p) = comp (pv rho p).
Proof. unfold pv, compS, comp. cbn [fst snd]. rewrite !mknot_ok. destruct (beval rho (fst p)), (beval rho (snd p)); reflexivity. Qed.


Theorem rc_spec c s : In c shipped -> wf (kK c) s ->
  exists r, krc c s = Some r /\ wf (kK c) r /\ decode (kK c) r = rc (decode (kK c) s).
Proof.
  intros Hc Hs. pose proof sweep_rc as H. rewrite forallb_forall in H. specialize (H c Hc).
  destruct (lane_check_lift _ _ _ _ s 0 H Hs ltac:(cbn; lia)) as [r [Hr [Hw Hd]]].
  exists r. split; [exact Hr|]. split; [exact Hw|].
  rewrite Hd, map_map. unfold rc. rewrite <- (stoS_decode c s 0) by assumption.
  rewrite <- map_rev, map_map. apply map_ext. intro p. apply pv_compS.
Qed.

(* ---------------------------------------------------------------- set_slice_mut *)

(* the n bases packed at the top of a 64-bit payload *)
Definition payload_bases (n : nat) (value : N) : dna := firstn n (decode 32 value).

Theorem set_slice_mut_spec c s pos n value : In c shipped -> wf (kK c) s ->
  (1 <= n)%nat -> (n <= 32)%nat -> (pos + n <= kK c)%nat -> value < 2 ^ 64 ->
  exists r, set_slice_mut c s pos n value = Some r /\ wf (kK c) r /\
            decode (kK c) r = splice pos (payload_bases n value) (decode (kK c) s).
Proof.
  intros Hc Hs Hn1 Hn32 Hpn Hv. pose proof sweep_set_slice as H.
  assert (Hp : In pos (seq 0 (kK c))) by (apply in_seq; lia).
  sweep2 H c pos Hc Hp. rewrite forallb_forall in H.
  assert (Hr : In n (runs c pos)) by (unfold runs; apply in_seq; lia). specialize (H n Hr).
  destruct (lane_check_lift _ _ _ _ s value H Hs Hv) as [r [Hrr [Hw Hd]]].
  exists r. split; [exact Hrr|]. split; [exact Hw|].
  rewrite Hd, splice_map, <- firstn_map, stoS_decode by assumption. unfold payload_bases, valS.
  rewrite decode_var. cbn [env2]. rewrite N.mod_small by exact Hv. reflexivity.
Qed.

(* ---------------------------------------------------------------- get *)

Theorem get_spec c s pos : In c shipped -> wf (kK c) s -> (pos < kK c)%nat ->
  get c s pos = Some (nth pos (decode (kK c) s) 0).
Proof.
  intros Hc Hs Hp. pose proof sweep_get as H. sweep2 H c pos Hc (proj2 (in_seq _ _ _) (conj (Nat.le_0_l _) Hp)).
  unfold chk_get in H. unfold get, run. destruct (k_get c pos (sV c)) as [e|]; [|discriminate].
  apply andb_prop in H as [Hsh He]. cbn [obind]. rewrite Hsh. f_equal.
  assert (Hb : bounded (env2 s 0) (bnd_k (kK c) 0)) by (apply bounded_k; [assumption | cbn; lia]).
  pose proof (evalS_sound _ _ e Hb) as HR.
  set (p := nth pos (stoS c) (BF, BF)) in *.
  assert (HR' : R (rho_of (env2 s 0)) [fst p; snd p] (evalN (env2 s 0) e)).
  { intro i. rewrite HR. now rewrite (sbv_eqb_bit _ _ i He). }
  rewrite (R_val _ _ _ HR'). cbn [sbv_val fold_right]. rewrite N.mul_0_r, N.add_0_r.
  change (N.b2n (beval (rho_of (env2 s 0)) (fst p)) + 2 * N.b2n (beval (rho_of (env2 s 0)) (snd p)))
    with (pv (rho_of (env2 s 0)) p).
  rewrite <- (stoS_decode c s 0) by assumption. subst p.
  symmetry. apply (nth_map_lt (pv (rho_of (env2 s 0))) (stoS c) 0 (BF, BF)). unfold stoS. now rewrite lanesS_length.
Qed.

(* ---------------------------------------------------------------- counting ops *)
Lemma sbv_pop_cons rho x s : sbv_pop rho (x :: s) = N.b2n (beval rho x) + sbv_pop rho s.
Proof. reflexivity. Qed.
Lemma count_if_cons g x l : count_if g (x :: l) = N.b2n (g x) + count_if g l.
Proof. reflexivity. Qed.
Lemma sbv_pop_interleave rho l : sbv_pop rho (interleave l) = sbv_pop rho l.
Proof. induction l as [|x l IH]; [reflexivity|]. cbn [interleave]. rewrite !sbv_pop_cons, IH. cbn [beval N.b2n]. lia. Qed.
Lemma sbv_pop_app rho a b : sbv_pop rho (a ++ b) = sbv_pop rho a + sbv_pop rho b.
Proof. induction a as [|x a IH]; [reflexivity|]. cbn [app]. rewrite !sbv_pop_cons, IH. lia. Qed.
Lemma sbv_pop_rev rho a : sbv_pop rho (rev a) = sbv_pop rho a.
Proof. induction a as [|x a IH]; [reflexivity|]. cbn [rev]. rewrite sbv_pop_app, IH, !sbv_pop_cons. cbn. lia. Qed.

Lemma gcS_ok rho p : beval rho (gcS p) = is_gc (pv rho p).
Proof. unfold gcS, pv, is_gc. rewrite mkxor_ok. destruct (beval rho (fst p)), (beval rho (snd p)); reflexivity. Qed.
Lemma atS_ok rho p : beval rho (atS p) = is_at (pv rho p).
Proof. unfold atS, pv, is_at. rewrite mknot_ok, mkxor_ok. destruct (beval rho (fst p)), (beval rho (snd p)); reflexivity. Qed.


Lemma count_if_pop rho f g l : (forall p, beval rho (f p) = g (pv rho p)) ->
  sbv_pop rho (map f l) = count_if g (map (pv rho) l).
Proof.
  intro Hf. induction l as [|p l IH]; [reflexivity|]. cbn [map]. now rewrite sbv_pop_cons, count_if_cons, IH, Hf.
Qed.

Lemma count_check_lift c oe f g s : In c shipped -> wf (kK c) s ->
  count_check c oe f = true -> (forall rho p, beval rho (f p) = g (pv rho p)) ->
  (do w <- run oe s 0; Some (popcount w)) = Some (count_if g (decode (kK c) s)).
Proof.
  intros Hc Hs H Hf. unfold count_check in H. destruct oe as [e|]; [|discriminate].
  apply andb_prop in H as [Hsh He]. unfold run. cbn [obind]. rewrite Hsh. cbn [obind]. f_equal.
  assert (Hb : bounded (env2 s 0) (bnd_k (kK c) 0)) by (apply bounded_k; [assumption | cbn; lia]).
  pose proof (evalS_sound _ _ e Hb) as HR.
  assert (HR' : R (rho_of (env2 s 0)) (interleave (map f (rev (stoS c)))) (evalN (env2 s 0) e)).
  { intro i. rewrite HR. now rewrite (sbv_eqb_bit _ _ i He). }
  rewrite (popcount_R _ _ _ HR'), sbv_pop_interleave, map_rev, sbv_pop_rev.
  rewrite (count_if_pop _ f g) by apply Hf. now rewrite stoS_decode.
Qed.

Theorem gc_count_spec c s : In c shipped -> wf (kK c) s -> kgc_count c s = Some (gc_count (decode (kK c) s)).
Proof.
  intros Hc Hs. pose proof sweep_counts as H. rewrite forallb_forall in H. specialize (H c Hc).
  apply andb_prop in H as [H _]. unfold kgc_count. eapply count_check_lift; eauto. intros; apply gcS_ok.
Qed.
Theorem at_count_spec c s : In c shipped -> wf (kK c) s -> kat_count c s = Some (at_count (decode (kK c) s)).
Proof.
  intros Hc Hs. pose proof sweep_counts as H. rewrite forallb_forall in H. specialize (H c Hc).
  apply andb_prop in H as [_ H]. unfold kat_count. eapply count_check_lift; eauto. intros; apply atS_ok.
Qed.

(* hamming distance: second operand is variable 1, also a wf storage word *)

Lemma diffS_ok rho p q : N.b2n (beval rho (diffS p q)) = (if pv rho p =? pv rho q then 0 else 1).
Proof.
  unfold diffS, pv. rewrite mkor_ok, !mkxor_ok.
  destruct (beval rho (fst p)), (beval rho (snd p)), (beval rho (fst q)), (beval rho (snd q)); reflexivity.
Qed.
Lemma pop_map2_diff rho a : forall b, length a = length b ->
  sbv_pop rho (map2 diffS a b) = count_diff (map (pv rho) a) (map (pv rho) b).
Proof.
  induction a as [|p a IH]; destruct b as [|q b]; intro Hl; try discriminate; [reflexivity|].
  cbn [map2 map count_diff]. rewrite sbv_pop_cons, IH by (injection Hl; auto).
  now rewrite diffS_ok.
Qed.
Lemma count_diff_rev a : forall b, length a = length b -> count_diff (rev a) (rev b) = count_diff a b.
Proof.
  assert (Happ : forall a1 b1 a2 b2, length a1 = length b1 ->
            count_diff (a1 ++ a2) (b1 ++ b2) = count_diff a1 b1 + count_diff a2 b2).
  { induction a1 as [|x a1 IH]; destruct b1 as [|y b1]; intros a2 b2 Hl; try discriminate; [reflexivity|].
    cbn [app count_diff]. rewrite IH by (injection Hl; auto). lia. }
  induction a as [|x a IH]; destruct b as [|y b]; intro Hl; try discriminate; [reflexivity|].
  cbn [rev]. rewrite Happ by (rewrite !rev_length; injection Hl; auto).
  rewrite IH by (injection Hl; auto). cbn [count_diff]. lia.
Qed.

Theorem hamming_spec c s o : In c shipped -> wf (kK c) s -> wf (kK c) o ->
  hamming_dist c s o = Some (count_diff (decode (kK c) s) (decode (kK c) o)).
Proof.
  intros Hc Hs Ho. pose proof sweep_hamming as H. rewrite forallb_forall in H. specialize (H c Hc).
  unfold chk_hamming in H. apply andb_prop in H as [Hsh He].
  unfold hamming_dist, run. cbn [obind]. rewrite Hsh. cbn [obind]. f_equal.
  assert (Hb : bounded (env2 s o) (bnd_k (kK c) (2 * kK c))) by (apply bounded_k; assumption).
  set (e := k_hamming_word c (sV c) (Var 1 (kW c))) in *.
  pose proof (evalS_sound _ _ e Hb) as HR.
  assert (HR' : R (rho_of (env2 s o)) (interleave (map2 diffS (rev (stoS c)) (rev (stoS1 c)))) (evalN (env2 s o) e)).
  { intro i. rewrite HR. now rewrite (sbv_eqb_bit _ _ i He). }
  rewrite (popcount_R _ _ _ HR'), sbv_pop_interleave.
  rewrite pop_map2_diff by (rewrite !rev_length; unfold stoS, stoS1; now rewrite !lanesS_length).
  rewrite !map_rev, count_diff_rev by (rewrite !map_length; unfold stoS, stoS1; now rewrite !lanesS_length).
  rewrite stoS_decode by assumption. unfold stoS1. rewrite decode_var. cbn [env2]. now rewrite wf_mod.
Qed.

(* ---------------------------------------------------------------- rank conversion *)
Theorem to_u64_spec c s : In c shipped -> wf (kK c) s -> (kK c <= 32)%nat -> to_u64 s = Some (rank (decode (kK c) s)).
Proof.
  intros Hc Hs Hk. unfold to_u64. rewrite rank_decode_wf by assumption.
  assert (s < 2 ^ 64).
  { eapply N.lt_le_trans; [exact Hs|]. apply N.pow_le_mono_r; lia. }
  destruct (N.ltb_spec s (2 ^ 64)); [reflexivity | lia].
Qed.
(* K > 32: to_u64 succeeds exactly when the value fits 64 bits (the documented panic otherwise) *)
Theorem to_u64_large s : to_u64 s = if s <? 2 ^ 64 then Some s else None.
Proof. reflexivity. Qed.

Theorem from_u64_spec c v : In c shipped -> v < 2 ^ 64 -> v < 4 ^ N.of_nat (kK c) ->
  from_u64 c v = Some v /\ wf (kK c) v /\ rank (decode (kK c) v) = v.
Proof.
  intros Hc Hv Hk. destruct (shipped_2K c Hc) as [H2K _]. rewrite pow4 in Hk.
  assert (Hw : wf (kK c) v) by exact Hk.
  split; [|split; [exact Hw | now apply rank_decode_wf]].
  unfold from_u64. 
  assert (v < 2 ^ N.of_nat (Nat.min (kW c) 64)).
  { destruct (Nat.le_ge_cases (kW c) 64) as [Hle|Hge].
    - rewrite Nat.min_l by exact Hle. eapply N.lt_le_trans; [exact Hk|]. apply N.pow_le_mono_r; lia.
    - rewrite Nat.min_r by exact Hge. exact Hv. }
  destruct (N.ltb_spec v (2 ^ N.of_nat (Nat.min (kW c) 64))); [reflexivity | lia].
Qed.
