(* C17 sweeps: the per-word kernels of Lmer::set_slice_mut and Lmer::rc (src/vmer.rs) for every in-word offset,
   run length and "is this the word holding the length byte" flag, with the storage word and the payload
   symbolic.  Lifted to all values in Proofs/LmerProofs.v. *)
From Coq Require Import NArith List Bool Arith Lia.
From DBG Require Import Bits.SymBV Spec.Dna Packed.KmerModel Packed.Blocks Packed.LmerModel Proofs.KmerLanes Proofs.KmerSweeps.
Import ListNotations.
Open Scope N_scope.

(* first word: lanes block_pos .. block_pos + min(n, 32 - block_pos) - 1 take the first lanes of the payload, every
   other lane (in particular the four lanes of the length byte when the word is the last one) is kept *)
Definition chk_l_word0 (bp n : nat) (is_last : bool) : bool :=
  lane_check c64 64 (k_l_word0 bp n is_last (Var 0 64) (Var 1 64))
    (splice bp (firstn (Nat.min n (32 - bp)) valS) (stoS c64)).
(* on the last word the run must stay off the length byte: block_pos + n <= 28 *)
Definition runs0 (bp : nat) (is_last : bool) : list nat := if is_last then seq 1 (28 - bp) else seq 1 32.
Lemma sweep_l_word0 :
  forallb (fun bp => forallb (fun is_last => forallb (fun n => chk_l_word0 bp n is_last) (runs0 bp is_last)) [false; true])
          (seq 0 32) = true.
Proof. vm_compute. reflexivity. Qed.

(* second word (the run crosses a word boundary): lanes 0 .. nb1-1 take payload lanes nb0 .. nb0+nb1-1 *)
Definition chk_l_word1 (nb0 nb1 : nat) : bool :=
  lane_check c64 64 (k_l_word1 nb0 nb1 (Var 0 64) (Var 1 64)) (splice 0 (firstn nb1 (skipn nb0 valS)) (stoS c64)).
Lemma sweep_l_word1 : forallb (fun nb0 => forallb (chk_l_word1 nb0) (seq 1 (32 - nb0))) (seq 1 31) = true.
Proof. vm_compute. reflexivity. Qed.

(* rc of one word holding n bases: the n complemented bases in reverse order at the top, zeros below *)
Definition chk_l_rcword (n : nat) (is_last : bool) : bool :=
  lane_check c64 0 (k_l_rcword n is_last (Var 0 64)) (map compS (rev (firstn n (stoS c64))) ++ repeat (BF, BF) (32 - n)).
Lemma sweep_l_rcword : forallb (fun n => chk_l_rcword n false && (Nat.ltb 28 n || chk_l_rcword n true)) (seq 1 32) = true.
Proof. vm_compute. reflexivity. Qed.
