(* C13: k-mer extraction from every container equals the k-mer of the base list. *)
From Coq Require Import NArith ZArith List Bool Arith Lia ZifyNat ZifyBool.
From DBG Require Import Bits.SymBV Spec.Dna Packed.KmerModel Packed.ExtsModel Packed.Blocks Packed.DnaStringModel Packed.SliceModel
  Packed.LmerModel Algo.Iter
  Proofs.ListFacts Proofs.DnaFacts Proofs.KmerLanes Proofs.KmerSweeps Proofs.KmerOps Proofs.KmerDefaults Proofs.ExtsProofs
  Proofs.BlockProofs Proofs.DnaStringProofs Proofs.LmerProofs.
Import ListNotations.
Open Scope N_scope.

Ltac Zify.zify_post_hook ::= Z.div_mod_to_equations.

(* ---------------------------------------------------------------- list plumbing *)
Lemma sub_app {A} i a b (l : list A) : sub i a l ++ sub (i + a) b l = sub i (a + b) l.
Proof. unfold sub. rewrite <- skipn_skipn. apply firstn_firstn_skipn. Qed.
Lemma sub_0 {A} i (l : list A) : sub i 0 l = [].
Proof. reflexivity. Qed.

(* ---------------------------------------------------------------- the block walk *)
Section Walk.
Variable c : kcfg.
Hypothesis Hc : In c shipped.
Let K := kK c.
Variable sto : list N.
Hypothesis Hsto : Forall (fun w => w < two64) sto.
Let L := lanes_of sto.

Lemma walk_blocks_spec pos : (pos + K <= 32 * length sto)%nat ->
  forall fuel kmer block kmer_pos block_pos,
  wf K kmer -> (kmer_pos <= K)%nat -> (block_pos < 32)%nat ->
  ((kmer_pos < K)%nat -> (32 * block + block_pos = pos + kmer_pos)%nat) ->
  (K - kmer_pos + block_pos <= 32 * fuel)%nat ->
  firstn kmer_pos (decode K kmer) = sub pos kmer_pos L ->
  exists r, walk_blocks c fuel sto kmer block kmer_pos block_pos = Some r /\ wf K r /\ decode K r = sub pos K L.
Proof.
  intros Hpos. induction fuel as [|fuel IH]; intros kmer block kmer_pos bp Hwf Hkp Hbp Haddr Hfuel Hpre.
  - (* no fuel: the k-mer must be complete *)
    assert (kmer_pos = K) by lia. subst kmer_pos. cbn [walk_blocks]. fold K. rewrite Nat.ltb_irrefl. cbn [negb].
    exists kmer. split; [reflexivity|]. split; [exact Hwf|]. rewrite <- Hpre. symmetry. apply firstn_all2. rewrite decode_length. lia.
  - cbn [walk_blocks]. fold K. destruct (Nat.ltb_spec kmer_pos K) as [Hlt|Hge]; cbn [negb].
    + specialize (Haddr Hlt). set (nb := Nat.min (K - kmer_pos) (32 - bp)).
      assert (Hnb : (1 <= nb <= 32)%nat /\ (kmer_pos + nb <= K)%nat /\ (bp + nb <= 32)%nat) by (subst nb; lia).
      destruct Hnb as [Hnb1 [Hnb2 Hnb3]].
      assert (Hb : (block < length sto)%nat) by lia.
      rewrite (nth_opt_some _ _ 0 Hb). cbn [obind].
      assert (Hw : nth block sto 0 < two64) by (rewrite Forall_forall in Hsto; apply Hsto; now apply nth_In).
      destruct (window_spec (nth block sto 0) bp Hw Hbp) as [val [Ev [Wv Dv]]]. rewrite Ev. cbn [obind].
      destruct (set_slice_mut_spec c kmer kmer_pos nb val Hc Hwf) as [kmer' [Es [Ws Ds]]]; try (fold K; lia); [exact Wv|].
      rewrite Es. cbn [obind]. fold K in Ds, Ws.
      assert (Hrun : payload_bases nb val = sub (pos + kmer_pos) nb L).
      { unfold payload_bases. rewrite Dv. rewrite firstn_app.
        rewrite skipn_length, decode_length. replace (nb - (32 - bp))%nat with 0%nat by lia. cbn [firstn]. rewrite app_nil_r.
        rewrite <- Haddr. subst L. rewrite sub_lanes_of by lia. reflexivity. }
      assert (Hrl : length (payload_bases nb val) = nb).
      { rewrite Hrun. apply sub_length. subst L. rewrite lanes_of_length. lia. }
      apply IH; try lia; [exact Ws|].
      rewrite Ds. unfold splice. rewrite app_assoc, firstn_app.
      assert (Hfl : length (firstn kmer_pos (decode K kmer) ++ payload_bases nb val) = (kmer_pos + nb)%nat).
      { rewrite app_length, firstn_length, decode_length, Hrl. lia. }
      rewrite Hfl, Nat.sub_diag. cbn [firstn]. rewrite app_nil_r. rewrite firstn_all2 by lia.
      rewrite Hpre, Hrun. apply sub_app.
    + assert (kmer_pos = K) by lia. subst kmer_pos.
      exists kmer. split; [reflexivity|]. split; [exact Hwf|]. rewrite <- Hpre. symmetry. apply firstn_all2. rewrite decode_length. lia.
Qed.

Theorem blocks_get_kmer_spec len pos : (pos + K <= len)%nat -> (len <= 32 * length sto)%nat ->
  exists r, blocks_get_kmer c sto len pos = Some r /\ wf K r /\ decode K r = kmer_at K L pos.
Proof.
  intros Hp Hlen. unfold blocks_get_kmer, subn. destruct (Nat.leb_spec pos len) as [_|?]; [|lia]. cbn [obind].
  fold K. destruct (Nat.leb_spec K (len - pos)) as [_|?]; [|lia]. cbn [negb].
  apply walk_blocks_spec; try lia.
  - apply wf_0.
  - reflexivity.
Qed.
(* the documented panic: fewer than K bases from pos on (None = panic in a debug build, DESIGN 3.1; with pos > len a
   release build wraps len - pos and is not stopped by the assert - outside the claimed domain) *)
Theorem blocks_get_kmer_short len pos : (len < pos + K)%nat -> blocks_get_kmer c sto len pos = None.
Proof.
  intro H. unfold blocks_get_kmer, subn. destruct (Nat.leb_spec pos len) as [Hle|?]; [|reflexivity]. cbn [obind].
  fold K. destruct (Nat.leb_spec K (len - pos)) as [?|_]; [lia | reflexivity].
Qed.
End Walk.

(* ---------------------------------------------------------------- the containers *)
Section Containers.
Variable c : kcfg.
Hypothesis Hc : In c shipped.
Let K := kK c.

Theorem d_get_kmer_spec s pos : d_inv s -> (pos + K <= d_len s)%nat ->
  exists r, d_get_kmer c s pos = Some r /\ wf K r /\ decode K r = kmer_at K (d_abs s) pos.
Proof.
  intros Hinv Hp. pose proof Hinv as [Hlen [Hw _]]. pose proof (d_blocks_bounds (d_len s)) as [Hb _].
  unfold d_get_kmer. destruct (blocks_get_kmer_spec c Hc (d_sto s) Hw (d_len s) pos) as [r [E [W D]]]; try (fold K; lia).
  exists r. split; [exact E|]. split; [exact W|]. fold K in D. rewrite D. unfold d_abs, kmer_at. symmetry. now apply sub_firstn.
Qed.
Theorem d_get_kmer_short s pos : (d_len s < pos + K)%nat -> d_get_kmer c s pos = None.
Proof. intro H. unfold d_get_kmer. now apply blocks_get_kmer_short. Qed.

(* Lmer: the length byte is never read, because pos + K <= len <= max_len *)
Theorem l_get_kmer_spec x len pos : l_inv x -> l_len x = Some len -> (pos + K <= len)%nat ->
  exists r, l_get_kmer c x pos = Some r /\ wf K r /\ decode K r = kmer_at K (l_abs x) pos.
Proof.
  intros Hinv E Hp. pose proof Hinv as [Hs [Hw [len' [E' [Hmax _]]]]]. rewrite E in E'. injection E' as <-.
  rewrite l_max_len_eq in Hmax. unfold l_size in *.
  unfold l_get_kmer. rewrite E. cbn [obind].
  destruct (blocks_get_kmer_spec c Hc x Hw len pos) as [r [Eg [W D]]]; try (fold K; lia).
  exists r. split; [exact Eg|]. split; [exact W|]. fold K in D. rewrite D, (l_abs_len x len E). unfold kmer_at. symmetry. now apply sub_firstn.
Qed.
Theorem l_get_kmer_short x len pos : l_len x = Some len -> (len < pos + K)%nat -> l_get_kmer c x pos = None.
Proof. intros E H. unfold l_get_kmer. rewrite E. cbn [obind]. now apply blocks_get_kmer_short. Qed.

(* slices, forward and reverse-complemented: the contents of a slice are [sl_view (d_abs d) s] *)
Theorem sl_get_kmer_spec d s pos : d_inv d -> (s_start s + s_length s <= d_len d)%nat -> (pos + K <= s_length s)%nat ->
  exists r, sl_get_kmer c d s pos = Some r /\ wf K r /\ decode K r = kmer_at K (sl_view (d_abs d) s) pos.
Proof.
  intros Hinv Hs Hp. pose proof (d_abs_length d Hinv) as HA. unfold sl_get_kmer. fold K.
  destruct (Nat.leb_spec (pos + K) (s_length s)) as [_|?]; [|lia]. cbn [negb]. unfold sl_view.
  destruct (s_rc s).
  - unfold subn. destruct (Nat.leb_spec K (s_start s + s_length s)) as [_|?]; [|lia]. cbn [obind].
    destruct (Nat.leb_spec pos (s_start s + s_length s - K)) as [_|?]; [|lia]. cbn [obind].
    destruct (d_get_kmer_spec d (s_start s + s_length s - K - pos) Hinv) as [k [E [W D]]]; [lia|].
    rewrite E. cbn [obind]. destruct (KmerOps.rc_spec c k Hc W) as [r [Er [Wr Dr]]].
    exists r. split; [exact Er|]. split; [exact Wr|]. fold K in Dr. rewrite Dr, D.
    assert (Hsl : length (sub (s_start s) (s_length s) (d_abs d)) = s_length s) by (apply sub_length; lia).
    rewrite kmer_at_rc by lia. f_equal. rewrite Hsl. unfold kmer_at. rewrite sub_sub by lia. f_equal. lia.
  - destruct (d_get_kmer_spec d (s_start s + pos) Hinv) as [r [E [W D]]]; [lia|].
    exists r. split; [exact E|]. split; [exact W|]. rewrite D. unfold kmer_at. now rewrite sub_sub by lia.
Qed.

(* DnaBytes / DnaSlice *)
Theorem bytes_get_kmer_spec (l : dna) pos : wf_dna l -> (pos + K <= length l)%nat ->
  exists r, bytes_get_kmer c l pos = Some r /\ wf K r /\ decode K r = kmer_at K l pos.
Proof.
  intros Hl Hp. unfold bytes_get_kmer. fold K. destruct (Nat.leb_spec (pos + K) (length l)) as [_|?]; [|lia]. cbn [negb].
  assert (Hlen : length (firstn K (skipn pos l)) = K) by (rewrite firstn_length, skipn_length; lia).
  assert (Hw : wf_dna (firstn K (skipn pos l))).
  { unfold wf_dna in *. rewrite Forall_forall in *. intros b Hb. apply Hl. eapply in_skipn. eapply in_firstn. exact Hb. }
  destruct (from_bytes_spec c Hc (firstn K (skipn pos l))) as [r [E [W D]]]; fold K; [lia | now apply wf_dna_firstn |].
  exists r. split; [exact E|]. split; [exact W|]. fold K in D. rewrite D. unfold kmer_at, sub. apply firstn_all2. lia.
Qed.
Theorem bytes_get_kmer_short (l : dna) pos : (length l < pos + K)%nat -> bytes_get_kmer c l pos = None.
Proof. intro H. unfold bytes_get_kmer. fold K. destruct (Nat.leb_spec (pos + K) (length l)); [lia | reflexivity]. Qed.
End Containers.

(* ---------------------------------------------------------------- first/last k-mer, KmerIter: generic in the container *)
(* A container is given by its length, [get] and [get_kmer]; the hypotheses say that they read the base list [l].
   Every container above instantiates them (see the corollaries after the section). *)
Section ContainerSpec.
Variable c : kcfg.
Hypothesis Hc : In c shipped.
Let K := kK c.
Variable l : dna.
Hypothesis Hl : wf_dna l.
Variable cget : nat -> option N.
Variable cget_kmer : nat -> option N.
Hypothesis Hget : forall i, (i < length l)%nat -> cget i = Some (nth i l 0).
Hypothesis Hgk : forall i, (i + K <= length l)%nat ->
  exists r, cget_kmer i = Some r /\ wf K r /\ decode K r = kmer_at K l i.
Let len := length l.

Lemma Kpos : (0 < K)%nat.
Proof. apply (shipped_2K c Hc). Qed.
Lemma nth_lt4 i : (i < length l)%nat -> nth i l 0 < 4.
Proof. intro H. unfold wf_dna in Hl. rewrite Forall_forall in Hl. apply Hl. now apply nth_In. Qed.

Theorem first_kmer_spec : (K <= len)%nat ->
  exists r, first_kmer cget_kmer = Some r /\ wf K r /\ decode K r = kmer_at K l 0.
Proof. intro H. unfold first_kmer. apply Hgk. exact H. Qed.
Theorem last_kmer_spec : (K <= len)%nat ->
  exists r, last_kmer c len cget_kmer = Some r /\ wf K r /\ decode K r = kmer_at K l (len - K).
Proof.
  clear Hget Hl. clear cget. intro H. unfold last_kmer, subn. fold K. destruct (Nat.leb_spec K len) as [_|?]; [|lia]. cbn [obind].
  apply Hgk. change (length l) with len. lia.
Qed.
(* the guard is needed: len - K underflows *)
Theorem last_kmer_short : (len < K)%nat -> last_kmer c len cget_kmer = None.
Proof. clear Hget Hgk Hl. clear cget. intro H. unfold last_kmer, subn. fold K. destruct (Nat.leb_spec K len); [lia | reflexivity]. Qed.

Lemma kmer_iter_loop_spec : forall fuel kmer pos, wf K kmer -> (K <= pos)%nat -> (pos <= len)%nat ->
  decode K kmer = kmer_at K l (pos - K) -> (len - pos < fuel)%nat ->
  exists ks, kmer_iter_loop c len cget fuel kmer pos = Some ks /\ Forall (wf K) ks /\
             map (decode K) ks = map (kmer_at K l) (seq (pos - K) (len + 1 - pos)).
Proof.
  pose proof Kpos as HK. pose proof (eq_refl : len = length l) as Hlen.
  induction fuel as [|fuel IH]; intros kmer pos Hwf HKp Hpl Hd Hf; [lia|].
  cbn [kmer_iter_loop]. destruct (Nat.leb_spec pos len) as [_|?]; [|lia].
  destruct (Nat.ltb_spec pos len) as [Hlt|Hge].
  - rewrite Hget by lia. cbn [obind].
    destruct (extend_right_spec c kmer (nth pos l 0) Hc Hwf (nth_lt4 pos Hlt)) as [kmer' [E [W D]]].
    rewrite E. cbn [obind]. fold K in D.
    assert (D' : decode K kmer' = kmer_at K l (S pos - K)).
    { rewrite D, Hd. replace (nth pos l 0) with (nth (pos - K + K) l 0) by (f_equal; lia).
      replace (S pos - K)%nat with (S (pos - K)) by lia. apply kmer_at_shift; [exact HK | lia]. }
    destruct (IH kmer' (S pos) W ltac:(lia) ltac:(lia) D' ltac:(lia)) as [ks [Ek [Wk Dk]]].
    rewrite Ek. cbn [obind]. exists (kmer :: ks). split; [reflexivity|]. split; [constructor; assumption|].
    cbn [map]. rewrite Hd, Dk. replace (len + 1 - pos)%nat with (S (len + 1 - S pos)) by lia. cbn [seq map].
    replace (S pos - K)%nat with (S (pos - K)) by lia. reflexivity.
  - assert (pos = len) by lia. subst pos. cbn [obind].
    assert (Er : kmer_iter_loop c len cget fuel kmer (S len) = Some []).
    { destruct fuel; cbn [kmer_iter_loop]; [reflexivity|]. destruct (Nat.leb_spec (S len) len); [lia | reflexivity]. }
    rewrite Er. cbn [obind]. exists [kmer]. split; [reflexivity|]. split; [constructor; [exact Hwf | constructor]|].
    cbn [map]. rewrite Hd. replace (len + 1 - len)%nat with 1%nat by lia. reflexivity.
Qed.

(* the iterator yields exactly the max(0, n-K+1) k-mers of the sequence, in order *)
Theorem iter_kmers_spec :
  exists ks, iter_kmers c len cget cget_kmer = Some ks /\ Forall (wf K) ks /\ map (decode K) ks = kmers K l.
Proof.
  unfold iter_kmers. fold K. destruct (Nat.leb_spec K len) as [Hle|Hgt].
  - destruct (first_kmer_spec Hle) as [k0 [E [W D]]]. rewrite E. cbn [obind].
    destruct (kmer_iter_loop_spec (S len) k0 K W ltac:(lia) Hle) as [ks [Ek [Wk Dk]]]; [now rewrite Nat.sub_diag | lia |].
    exists ks. split; [exact Ek|]. split; [exact Wk|]. rewrite Dk, Nat.sub_diag. reflexivity.
  - cbn [obind kmer_iter_loop]. destruct (Nat.leb_spec K len) as [?|_]; [lia|].
    exists []. split; [reflexivity|]. split; [constructor|]. unfold kmers. fold len.
    replace (len + 1 - K)%nat with 0%nat by lia. reflexivity.
Qed.
Corollary iter_kmers_count ks : iter_kmers c len cget cget_kmer = Some ks -> length ks = (len + 1 - K)%nat.
Proof.
  intro E. destruct iter_kmers_spec as [ks' [E' [_ D]]]. rewrite E in E'. injection E' as <-.
  rewrite <- (map_length (decode K)), D. unfold kmers. now rewrite map_length, seq_length.
Qed.
(* ---- KmerExtsIter: each k-mer with its true flanking bases; the caller's extensions only at the two ends *)
Variable exts : N.
Hypothesis Hexts : exts < 256.

(* what item i must be: the k-mer at i, the set of left extensions, the set of right extensions *)
Definition kmer_exts_item (i : nat) : dna * list N * list N :=
  (kmer_at K l i,
   if Nat.eqb i 0 then exts_left exts else [nth (i - 1) l 0],
   if Nat.eqb i (len - K) then exts_right exts else [nth (i + K) l 0]).
Definition item_view (it : N * N) : dna * list N * list N :=
  (decode K (fst it), exts_left (snd it), exts_right (snd it)).
Definition item_wf (it : N * N) : Prop := wf K (fst it) /\ snd it < 256.

Lemma mk_left_spec b : b < 4 -> exists e, e_mk_left b = Some e /\ e < 256 /\ exts_left e = [b].
Proof.
  intro Hb.
  assert (E : forallb (fun b => match e_mk_left b with Some e => (e <? 256) && nlist_eqb (exts_left e) [b] | None => false end) bases4 = true)
    by (vm_compute; reflexivity).
  rewrite forallb_forall in E. specialize (E b (in_bases4 b Hb)). destruct (e_mk_left b) as [e|]; [|discriminate].
  apply andb_prop in E as [E1 E2]. exists e. split; [reflexivity|]. split; [now apply N.ltb_lt | now apply nlist_eqb_eq].
Qed.
Lemma mk_right_spec b : b < 4 -> exists e, e_mk_right b = Some e /\ e < 256 /\ exts_right e = [b].
Proof.
  intro Hb.
  assert (E : forallb (fun b => match e_mk_right b with Some e => (e <? 256) && nlist_eqb (exts_right e) [b] | None => false end) bases4 = true)
    by (vm_compute; reflexivity).
  rewrite forallb_forall in E. specialize (E b (in_bases4 b Hb)). destruct (e_mk_right b) as [e|]; [|discriminate].
  apply andb_prop in E as [E1 E2]. exists e. split; [reflexivity|]. split; [now apply N.ltb_lt | now apply nlist_eqb_eq].
Qed.

Lemma cur_left_spec pos : (K <= pos)%nat -> (pos <= len)%nat ->
  exists el, (if Nat.eqb pos K then Some exts else do i <- subn pos (K + 1); do b <- cget i; e_mk_left b) = Some el /\
             el < 256 /\ exts_left el = (if Nat.eqb (pos - K) 0 then exts_left exts else [nth (pos - K - 1) l 0]).
Proof.
  pose proof (eq_refl : len = length l) as Hlen.
  intros H1 H2. destruct (Nat.eqb_spec pos K) as [->|Hne].
  - exists exts. rewrite Nat.sub_diag. cbn [Nat.eqb]. auto.
  - destruct (Nat.eqb_spec (pos - K) 0) as [?|_]; [lia|].
    unfold subn. destruct (Nat.leb_spec (K + 1) pos) as [_|?]; [|lia]. cbn [obind].
    rewrite Hget by lia. cbn [obind].
    destruct (mk_left_spec (nth (pos - (K + 1)) l 0)) as [e [E [W D]]]; [apply nth_lt4; lia|].
    exists e. split; [exact E|]. split; [exact W|]. rewrite D. do 2 f_equal. lia.
Qed.

Lemma kmer_exts_loop_spec : forall fuel kmer pos, wf K kmer -> (K <= pos)%nat -> (pos <= len)%nat ->
  decode K kmer = kmer_at K l (pos - K) -> (len - pos < fuel)%nat ->
  exists items, kmer_exts_loop c len cget fuel exts kmer pos = Some items /\ Forall item_wf items /\
                map item_view items = map kmer_exts_item (seq (pos - K) (len + 1 - pos)).
Proof.
  pose proof Kpos as HK. pose proof (eq_refl : len = length l) as Hlen.
  induction fuel as [|fuel IH]; intros kmer pos Hwf HKp Hpl Hd Hf; [lia|].
  cbn [kmer_exts_loop]. destruct (Nat.leb_spec pos len) as [_|?]; [|lia]. fold K.
  destruct (cur_left_spec pos HKp Hpl) as [el [El [Wl Dl]]].
  destruct (Nat.ltb_spec pos len) as [Hlt|Hge].
  - rewrite Hget by lia. cbn [obind]. rewrite El. cbn [obind].
    destruct (mk_right_spec (nth pos l 0) (nth_lt4 pos Hlt)) as [er [Er [Wr Dr]]]. rewrite Er. cbn [obind].
    destruct (extend_right_spec c kmer (nth pos l 0) Hc Hwf (nth_lt4 pos Hlt)) as [kmer' [E [W D]]].
    rewrite E. cbn [obind]. fold K in D.
    assert (D' : decode K kmer' = kmer_at K l (S pos - K)).
    { rewrite D, Hd. replace (nth pos l 0) with (nth (pos - K + K) l 0) by (f_equal; lia).
      replace (S pos - K)%nat with (S (pos - K)) by lia. apply kmer_at_shift; [exact HK | lia]. }
    destruct (IH kmer' (S pos) W ltac:(lia) ltac:(lia) D' ltac:(lia)) as [items [Ek [Wk Dk]]].
    rewrite Ek. cbn [obind]. eexists. split; [reflexivity|].
    destruct (ExtsProofs.merge_spec el er Wl Wr) as [M1 [M2 M3]].
    split; [constructor; [split; [exact Hwf | exact M3] | exact Wk]|].
    cbn [map]. rewrite Dk. replace (len + 1 - pos)%nat with (S (len + 1 - S pos)) by lia. cbn [seq map].
    replace (S pos - K)%nat with (S (pos - K)) by lia. f_equal.
    unfold item_view, kmer_exts_item. cbn [fst snd]. rewrite Hd, M1, M2, Dl, Dr.
    destruct (Nat.eqb_spec (pos - K) (len - K)) as [?|_]; [lia|]. do 3 f_equal. lia.
  - assert (pos = len) by lia. subst pos. cbn [obind]. rewrite El. cbn [obind].
    destruct (extend_right_spec c kmer 0 Hc Hwf ltac:(lia)) as [kmer' [E [W D]]]. rewrite E. cbn [obind].
    assert (Er : kmer_exts_loop c len cget fuel exts kmer' (S len) = Some []).
    { destruct fuel; cbn [kmer_exts_loop]; [reflexivity|]. destruct (Nat.leb_spec (S len) len); [lia | reflexivity]. }
    rewrite Er. cbn [obind]. eexists. split; [reflexivity|].
    destruct (ExtsProofs.merge_spec el exts Wl Hexts) as [M1 [M2 M3]].
    split; [constructor; [split; [exact Hwf | exact M3] | constructor]|].
    cbn [map]. replace (len + 1 - len)%nat with 1%nat by lia. cbn [seq map]. f_equal.
    unfold item_view, kmer_exts_item. cbn [fst snd]. rewrite Hd, M1, M2, Dl. now rewrite Nat.eqb_refl.
Qed.

(* max(0, n-K+1) items; item i = (k-mer at i, left = caller's at i = 0 else {l[i-1]}, right = caller's at the last
   item else {l[i+K]}) *)
Theorem iter_kmer_exts_spec :
  exists items, iter_kmer_exts c len cget cget_kmer exts = Some items /\ Forall item_wf items /\
                map item_view items = map kmer_exts_item (seq 0 (len + 1 - K)).
Proof.
  unfold iter_kmer_exts. fold K. destruct (Nat.leb_spec K len) as [Hle|Hgt].
  - destruct (first_kmer_spec Hle) as [k0 [E [W D]]]. rewrite E. cbn [obind].
    destruct (kmer_exts_loop_spec (S len) k0 K W ltac:(lia) Hle) as [ks [Ek [Wk Dk]]]; [now rewrite Nat.sub_diag | lia |].
    exists ks. split; [exact Ek|]. split; [exact Wk|]. rewrite Dk, Nat.sub_diag. reflexivity.
  - cbn [obind kmer_exts_loop]. destruct (Nat.leb_spec K len) as [?|_]; [lia|].
    exists []. split; [reflexivity|]. split; [constructor|].
    replace (len + 1 - K)%nat with 0%nat by lia. reflexivity.
Qed.
End ContainerSpec.


(* ---------------------------------------------------------------- the generic theorems, instantiated per container *)
Lemma complement_comp b : b < 4 -> complement b = comp b.
Proof. intro H. destruct b as [|[[p|p|]|[p|p|]|]]; try lia; reflexivity. Qed.

Theorem sl_get_spec d s i : d_inv d -> (s_start s + s_length s <= d_len d)%nat -> (i < s_length s)%nat ->
  sl_get d s i = Some (nth i (sl_view (d_abs d) s) 0).
Proof.
  intros Hinv Hs Hi. pose proof (d_abs_length d Hinv) as HA. unfold sl_get, sl_view.
  assert (Hsl : length (sub (s_start s) (s_length s) (d_abs d)) = s_length s) by (apply sub_length; lia).
  destruct (s_rc s).
  - unfold subn. destruct (Nat.leb_spec 1 (s_start s + s_length s)) as [_|?]; [|lia]. cbn [obind].
    destruct (Nat.leb_spec i (s_start s + s_length s - 1)) as [_|?]; [|lia]. cbn [obind].
    rewrite d_get_spec by (auto; lia). cbn [obind]. f_equal.
    rewrite complement_comp.
    + rewrite rc_nth by lia. rewrite Hsl, nth_sub by lia. do 2 f_equal. lia.
    + pose proof (d_abs_wf d) as Hw. unfold wf_dna in Hw. rewrite Forall_forall in Hw. apply Hw. apply nth_In. lia.
  - rewrite d_get_spec by (auto; lia). f_equal. rewrite nth_sub by lia. f_equal. lia.
Qed.
Lemma sl_view_length d s : d_inv d -> (s_start s + s_length s <= d_len d)%nat -> length (sl_view (d_abs d) s) = s_length s.
Proof.
  intros Hinv Hs. pose proof (d_abs_length d Hinv) as HA. unfold sl_view.
  destruct (s_rc s); rewrite ?rc_length; apply sub_length; lia.
Qed.
Lemma sl_view_wf d s : wf_dna (sl_view (d_abs d) s).
Proof.
  unfold sl_view. destruct (s_rc s); [apply rc_wf|].
  pose proof (d_abs_wf d) as Hw. unfold wf_dna, sub in *. rewrite Forall_forall in *. intros b Hb. apply Hw.
  eapply in_skipn. eapply in_firstn. exact Hb.
Qed.

Section Instances.
Variable c : kcfg.
Hypothesis Hc : In c shipped.
Let K := kK c.

(* DnaString *)
Theorem d_iter_kmers_spec s : d_inv s ->
  exists ks, iter_kmers c (d_len s) (d_get s) (d_get_kmer c s) = Some ks /\ Forall (wf K) ks /\
             map (decode K) ks = kmers K (d_abs s).
Proof.
  intro Hinv. rewrite <- (d_abs_length s Hinv). apply (iter_kmers_spec c Hc (d_abs s) (d_abs_wf s)).
  - intros i Hi. apply d_get_spec; [exact Hinv | now rewrite <- (d_abs_length s Hinv)].
  - intros i Hi. apply d_get_kmer_spec; [exact Hc | exact Hinv | now rewrite <- (d_abs_length s Hinv)].
Qed.
Theorem d_iter_kmer_exts_spec s exts : d_inv s -> exts < 256 ->
  exists items, iter_kmer_exts c (d_len s) (d_get s) (d_get_kmer c s) exts = Some items /\ Forall (item_wf c) items /\
                map (item_view c) items = map (kmer_exts_item c (d_abs s) exts) (seq 0 (d_len s + 1 - K)).
Proof.
  intros Hinv He. rewrite <- (d_abs_length s Hinv). apply (iter_kmer_exts_spec c Hc (d_abs s) (d_abs_wf s)); [| |exact He].
  - intros i Hi. apply d_get_spec; [exact Hinv | now rewrite <- (d_abs_length s Hinv)].
  - intros i Hi. apply d_get_kmer_spec; [exact Hc | exact Hinv | now rewrite <- (d_abs_length s Hinv)].
Qed.
Theorem d_first_last_kmer_spec s : d_inv s -> (K <= d_len s)%nat ->
  (exists r, first_kmer (d_get_kmer c s) = Some r /\ wf K r /\ decode K r = kmer_at K (d_abs s) 0) /\
  (exists r, last_kmer c (d_len s) (d_get_kmer c s) = Some r /\ wf K r /\ decode K r = kmer_at K (d_abs s) (d_len s - K)).
Proof.
  intros Hinv HK. pose proof (d_abs_length s Hinv) as HA.
  assert (G : forall i, (i + K <= length (d_abs s))%nat ->
            exists r, d_get_kmer c s i = Some r /\ wf K r /\ decode K r = kmer_at K (d_abs s) i).
  { intros i Hi. apply d_get_kmer_spec; [exact Hc | exact Hinv | now rewrite <- HA]. }
  rewrite <- HA. split; [apply (first_kmer_spec c (d_abs s)) | apply (last_kmer_spec c (d_abs s))]; auto; fold K; lia.
Qed.

(* Lmer, every capacity *)
Theorem l_iter_kmers_spec x len : l_inv x -> l_len x = Some len ->
  exists ks, iter_kmers c len (l_get x) (l_get_kmer c x) = Some ks /\ Forall (wf K) ks /\
             map (decode K) ks = kmers K (l_abs x).
Proof.
  intros Hinv E. pose proof (l_abs_length x len Hinv E) as HA. rewrite <- HA.
  apply (iter_kmers_spec c Hc (l_abs x) (l_abs_wf x)).
  - intros i Hi. apply (l_get_spec x len); [exact Hinv | exact E | now rewrite <- HA].
  - intros i Hi. apply (l_get_kmer_spec c Hc x len); [exact Hinv | exact E | now rewrite <- HA].
Qed.
Theorem l_iter_kmer_exts_spec x len exts : l_inv x -> l_len x = Some len -> exts < 256 ->
  exists items, iter_kmer_exts c len (l_get x) (l_get_kmer c x) exts = Some items /\ Forall (item_wf c) items /\
                map (item_view c) items = map (kmer_exts_item c (l_abs x) exts) (seq 0 (len + 1 - K)).
Proof.
  intros Hinv E He. pose proof (l_abs_length x len Hinv E) as HA. rewrite <- HA.
  apply (iter_kmer_exts_spec c Hc (l_abs x) (l_abs_wf x)); [| |exact He].
  - intros i Hi. apply (l_get_spec x len); [exact Hinv | exact E | now rewrite <- HA].
  - intros i Hi. apply (l_get_kmer_spec c Hc x len); [exact Hinv | exact E | now rewrite <- HA].
Qed.

(* slices, forward and reverse-complemented *)
Theorem sl_iter_kmers_spec d s : d_inv d -> (s_start s + s_length s <= d_len d)%nat ->
  exists ks, iter_kmers c (s_length s) (sl_get d s) (sl_get_kmer c d s) = Some ks /\ Forall (wf K) ks /\
             map (decode K) ks = kmers K (sl_view (d_abs d) s).
Proof.
  intros Hinv Hs. pose proof (sl_view_length d s Hinv Hs) as HA. rewrite <- HA.
  apply (iter_kmers_spec c Hc (sl_view (d_abs d) s) (sl_view_wf d s)).
  - intros i Hi. apply sl_get_spec; [exact Hinv | exact Hs | now rewrite <- HA].
  - intros i Hi. apply sl_get_kmer_spec; [exact Hc | exact Hinv | exact Hs | now rewrite <- HA].
Qed.
Theorem sl_iter_kmer_exts_spec d s exts : d_inv d -> (s_start s + s_length s <= d_len d)%nat -> exts < 256 ->
  exists items, iter_kmer_exts c (s_length s) (sl_get d s) (sl_get_kmer c d s) exts = Some items /\ Forall (item_wf c) items /\
                map (item_view c) items = map (kmer_exts_item c (sl_view (d_abs d) s) exts) (seq 0 (s_length s + 1 - K)).
Proof.
  intros Hinv Hs He. pose proof (sl_view_length d s Hinv Hs) as HA. rewrite <- HA.
  apply (iter_kmer_exts_spec c Hc (sl_view (d_abs d) s) (sl_view_wf d s)); [| |exact He].
  - intros i Hi. apply sl_get_spec; [exact Hinv | exact Hs | now rewrite <- HA].
  - intros i Hi. apply sl_get_kmer_spec; [exact Hc | exact Hinv | exact Hs | now rewrite <- HA].
Qed.

(* DnaBytes / DnaSlice: get = the byte itself *)
Theorem bytes_iter_kmers_spec (l : dna) : wf_dna l ->
  exists ks, iter_kmers c (length l) (nth_opt l) (bytes_get_kmer c l) = Some ks /\ Forall (wf K) ks /\
             map (decode K) ks = kmers K l.
Proof.
  intro Hl. apply (iter_kmers_spec c Hc l Hl).
  - intros i Hi. now apply nth_opt_some.
  - intros i Hi. now apply bytes_get_kmer_spec.
Qed.
Theorem bytes_iter_kmer_exts_spec (l : dna) exts : wf_dna l -> exts < 256 ->
  exists items, iter_kmer_exts c (length l) (nth_opt l) (bytes_get_kmer c l) exts = Some items /\ Forall (item_wf c) items /\
                map (item_view c) items = map (kmer_exts_item c l exts) (seq 0 (length l + 1 - K)).
Proof.
  intros Hl He. apply (iter_kmer_exts_spec c Hc l Hl); [| |exact He].
  - intros i Hi. now apply nth_opt_some.
  - intros i Hi. now apply bytes_get_kmer_spec.
Qed.
End Instances.

(* the same expected items, written as the correspondence run's list-level specification writes them
   (Interop/DispatchSeq.spec_kmer_exts tests "last item" as i + K = n) *)
Lemma kmer_exts_item_form c (l : dna) exts :
  map (kmer_exts_item c l exts) (seq 0 (length l + 1 - kK c)) =
  map (fun i => (kmer_at (kK c) l i,
                 if Nat.eqb i 0 then exts_left exts else [nth (i - 1) l 0],
                 if Nat.eqb (i + kK c) (length l) then exts_right exts else [nth (i + kK c) l 0]))
      (seq 0 (length l + 1 - kK c)).
Proof.
  apply map_ext_in. intros i Hi. apply in_seq in Hi. unfold kmer_exts_item. do 2 f_equal.
  destruct (Nat.eqb_spec i (length l - kK c)), (Nat.eqb_spec (i + kK c) (length l)); try reflexivity; lia.
Qed.
