(* e2e, observation level: which extension bits the observations of the whole reads carry.
   An observation of the canonical key k carries the bit (d, b) iff the (K+1)-mer [lk k d b] is a window of a read and
   the observation is not flipped (k is not a palindrome), or - unstranded - its reverse complement is a window of a
   read and the observation is flipped (min_rc_flip flips also on equality: every observation of a palindrome). *)
From Coq Require Import NArith List Bool Arith Lia Permutation.
From DBG Require Import Spec.Dna Spec.GraphIndex Spec.Unitig Spec.CompressSpec Packed.ExtsModel Packed.ExtsMini Algo.Compress
  Algo.KmerHist Algo.Filter Algo.Pipeline Check.GraphCheck Check.PipelineCheck
  Proofs.ListFacts Proofs.DnaFacts Proofs.KmerAlgebra Proofs.ExtsProofs Proofs.ExtsWalk Proofs.FilterProofs Proofs.FilterRc
  Proofs.ShardProofs Proofs.CompressWalk Proofs.CompressGraphOk Proofs.UnitigUnique Proofs.E2eDefs Proofs.E2eSym Proofs.E2eGraph.
Import ListNotations.
Local Open Scope nat_scope.

(* ---- the extension byte of one item of KmerExtsIter ---- *)
Definition oleft (o : option N) : N := match o with Some c => ex_mk_left c | None => 0%N end.
Definition oright (o : option N) : N := match o with Some c => ex_mk_right c | None => 0%N end.
Definition obases : list (option N) := [None; Some 0%N; Some 1%N; Some 2%N; Some 3%N].
Lemma in_obases (o : option N) : match o with Some c => (c < 4)%N | None => True end -> In o obases.
Proof. destruct o as [c|]; [|cbn; auto]. intro H. apply in_bases4 in H. unfold bases4 in H. cbn in *. intuition (subst; auto). Qed.
Lemma merge_has ol or (d : bool) b : In ol obases -> In or obases -> In b bases4 ->
  (ex_merge (oleft ol) (oright or) < 256)%N /\
  e_has_ext (ex_merge (oleft ol) (oright or)) d b = match (if d then or else ol) with Some c => (b =? c)%N | None => false end.
Proof.
  intros Hl Hr Hb.
  assert (E : forallb (fun ol => forallb (fun or => forallb (fun d : bool => forallb (fun b =>
     (ex_merge (oleft ol) (oright or) <? 256)%N &&
     Bool.eqb (e_has_ext (ex_merge (oleft ol) (oright or)) d b)
              (match (if d then or else ol) with Some c => (b =? c)%N | None => false end)) bases4) bools) obases) obases = true)
    by (vm_compute; reflexivity).
  rewrite forallb_forall in E. specialize (E ol Hl). rewrite forallb_forall in E. specialize (E or Hr).
  rewrite forallb_forall in E. specialize (E d (in_bools d)). rewrite forallb_forall in E. specialize (E b Hb).
  apply andb_true_iff in E as [E1 E2]. split; [now apply N.ltb_lt | now apply eqb_prop].
Qed.

Definition item_l (sq : dna) (i : nat) : option N := if Nat.eqb i 0 then None else Some (nth (i - 1) sq 0%N).
Definition item_r (K : nat) (sq : dna) (i : nat) : option N := if Nat.ltb (i + K) (length sq) then Some (nth (i + K) sq 0%N) else None.
Lemma item_exts K sq i : snd (item K sq i) = ex_merge (oleft (item_l sq i)) (oright (item_r K sq i)).
Proof. unfold item, item_l, item_r. cbn [snd]. destruct (Nat.eqb i 0), (Nat.ltb (i + K) (length sq)); reflexivity. Qed.

Lemma item_lt K sq i : wf_dna sq -> (snd (item K sq i) < 256)%N.
Proof.
  intro W. rewrite item_exts. apply (merge_has _ _ true 0%N); [| |cbn; auto]; apply in_obases.
  - unfold item_l. destruct (Nat.eqb i 0); [exact I | apply wf_nth_; exact W].
  - unfold item_r. destruct (Nat.ltb (i + K) (length sq)); [apply wf_nth_; exact W | exact I].
Qed.
Lemma item_has K sq i d b : wf_dna sq -> (b < 4)%N ->
  (e_has_ext (snd (item K sq i)) (dirb d) b = true <->
   match d with DRight => i + K < length sq /\ nth (i + K) sq 0%N = b | DLeft => 0 < i /\ nth (i - 1) sq 0%N = b end).
Proof.
  intros W Hb. rewrite item_exts.
  assert (Hl : In (item_l sq i) obases).
  { apply in_obases. unfold item_l. destruct (Nat.eqb i 0); [exact I | apply wf_nth_; exact W]. }
  assert (Hr : In (item_r K sq i) obases).
  { apply in_obases. unfold item_r. destruct (Nat.ltb (i + K) (length sq)); [apply wf_nth_; exact W | exact I]. }
  rewrite (proj2 (merge_has _ _ (dirb d) b Hl Hr (in_bases4 b Hb))). destruct d; cbn [dirb].
  - unfold item_l. destruct (Nat.eqb_spec i 0) as [E|E].
    + split; [discriminate | lia].
    + rewrite N.eqb_eq. split; [intros ->; split; [lia|reflexivity] | intros [_ H]; now symmetry].
  - unfold item_r. destruct (Nat.ltb_spec (i + K) (length sq)) as [E|E].
    + rewrite N.eqb_eq. split; [intros ->; split; [lia|reflexivity] | intros [_ H]; now symmetry].
    + split; [discriminate | lia].
Qed.

Lemma in_kmers_at_ K0 (s : dna) p : p + K0 <= length s -> In (kmer_at K0 s p) (kmers K0 s).
Proof. intro H. unfold kmers. apply in_map_iff. exists p. split; [reflexivity|]. apply in_seq. lia. Qed.
(* in terms of (K+1)-windows *)
Lemma item_window K sq i d b : 1 <= K -> wf_dna sq -> (b < 4)%N -> i + K <= length sq ->
  e_has_ext (snd (item K sq i)) (dirb d) b = true -> In (lk (kmer_at K sq i) d b) (kmers (S K) sq).
Proof.
  intros HK W Hb Hi Hh. apply (item_has K sq i d b W Hb) in Hh. destruct d; cbn [lk].
  - destruct Hh as [H0 <-]. destruct i as [|q]; [lia|]. replace (S q - 1) with q by lia.
    rewrite <- kmer_at_S_cons by lia. apply in_kmers_at_. lia.
  - destruct Hh as [H0 <-]. rewrite <- kmer_at_S_snoc by lia. apply in_kmers_at_. lia.
Qed.
Lemma window_item K sq k d b : 1 <= K -> wf_dna sq -> length k = K -> In (lk k d b) (kmers (S K) sq) ->
  exists i, i + K <= length sq /\ kmer_at K sq i = k /\ (b < 4)%N /\ e_has_ext (snd (item K sq i)) (dirb d) b = true.
Proof.
  intros HK W Lk Hv. apply kmers_in in Hv as [q [Hq Ev]]. destruct d; cbn [lk] in Ev.
  - rewrite kmer_at_S_cons in Ev by exact Hq. injection Ev as -> ->. exists (S q). split; [lia|]. split; [reflexivity|].
    split; [apply wf_nth_; exact W|]. apply (item_has K sq (S q) DLeft _ W (wf_nth_ _ _ W)). split; [lia|]. f_equal. lia.
  - rewrite kmer_at_S_snoc in Ev by exact Hq. apply app_inj_length in Ev as [-> Eb].
    2:{ rewrite Lk. unfold kmer_at. symmetry. apply sub_length. lia. }
    injection Eb as ->. exists q. split; [lia|]. split; [reflexivity|].
    split; [apply wf_nth_; exact W|]. apply (item_has K sq q DRight _ W (wf_nth_ _ _ W)). split; [lia|reflexivity].
Qed.

(* ---- the observations of the whole reads ---- *)
Section Obs.
Variable K : nat.
Variable st : bool.
Variable lreads : list lread.
Hypothesis HK : 1 <= K.
Hypothesis Hwf : Forall (fun r => wf_dna (fst r)) lreads.

Definition obs_all : list (@obs N) := observations K st (whole_reads lreads).
Definition wins : list dna := flat_map (kmers (S K)) (map fst lreads).

Lemma read_wf r : In r lreads -> wf_dna (fst r).
Proof. intro H. rewrite Forall_forall in Hwf. now apply Hwf. Qed.

Lemma in_obs_all o : In o obs_all <->
  exists r i, In r lreads /\ i + K <= length (fst r) /\ o = (canon_obs st (item K (fst r) i), snd r).
Proof.
  unfold obs_all, observations, whole_reads. rewrite in_flat_map. split.
  - intros [r3 [Hr Ho]]. apply in_map_iff in Hr as [r [<- Hr]]. cbn [fst snd] in Ho. rewrite kmer_exts_items in Ho.
    apply in_map_iff in Ho as [it [<- Hit]]. apply in_map_iff in Hit as [i [<- Hi]]. apply in_seq in Hi.
    exists r, i. split; [exact Hr|]. split; [lia | reflexivity].
  - intros (r & i & Hr & Hi & ->). exists (fst r, 0%N, snd r). split; [apply in_map_iff; now exists r|].
    cbn [fst snd]. rewrite kmer_exts_items. apply in_map_iff. exists (item K (fst r) i). split; [reflexivity|].
    apply in_map. apply in_seq. lia.
Qed.

Lemma in_wins v : In v wins <-> exists r, In r lreads /\ In v (kmers (S K) (fst r)).
Proof.
  unfold wins. rewrite in_flat_map. split.
  - intros [sq [Hs Hv]]. apply in_map_iff in Hs as [r [<- Hr]]. eauto.
  - intros [r [Hr Hv]]. exists (fst r). split; [now apply in_map | exact Hv].
Qed.

Lemma obs_exts_lt o : In o obs_all -> (Filter.oexts o < 256)%N.
Proof.
  intro Ho. apply in_obs_all in Ho as (r & i & Hr & Hi & ->). unfold Filter.oexts, canon_obs. cbn [fst snd].
  pose proof (item_lt K (fst r) i (read_wf r Hr)) as L. destruct st; [exact L|]. cbn [fst snd].
  destruct (snd (canon_flip (fst (item K (fst r) i)))); [now apply ex_rc_lt | exact L].
Qed.

(* which observations of the canonical k-mer k carry the extension (d, b) *)
Theorem obs_has k d b : wf_dna k -> (st = false -> canon k = k) -> (b < 4)%N ->
  ((exists o, In o obs_all /\ key o = k /\ e_has_ext (Filter.oexts o) (dirb d) b = true) <->
   (kpal st k = false /\ In (lk k d b) wins) \/ (st = false /\ In (rc (lk k d b)) wins)).
Proof.
  intros Wk Hcan Hb. split.
  - intros (o & Ho & Ek & Hh). apply in_obs_all in Ho as (r & i & Hr & Hi & ->).
    pose proof (read_wf r Hr) as W. unfold key, Filter.oexts, canon_obs in Ek, Hh. cbn [fst snd] in Ek, Hh.
    destruct (kmer_at_ok K _ i W Hi) as [Lw Ww].
    assert (Hst : st = true \/ st = false) by (clear; destruct st; auto). destruct Hst as [Hs|Hs]; rewrite Hs in *.
    + left. split; [reflexivity|]. apply in_wins. exists r. split; [exact Hr|]. rewrite <- Ek. cbn [item fst].
      now apply item_window.
    + cbn [fst snd] in Ek, Hh. change (fst (item K (fst r) i)) with (kmer_at K (fst r) i) in *.
      unfold canon_flip in Ek, Hh. destruct (dna_ltb (kmer_at K (fst r) i) (rc (kmer_at K (fst r) i))) eqn:Elt; cbn [fst snd] in Ek, Hh.
      * left. split.
        -- unfold kpal. cbn [negb andb]. unfold is_palindrome. rewrite <- Ek.
           destruct (dna_eqb (kmer_at K (fst r) i) (rc (kmer_at K (fst r) i))) eqn:E; [|reflexivity].
           apply dna_eqb_eq in E. rewrite <- E, dna_ltb_irrefl in Elt. discriminate.
        -- apply in_wins. exists r. split; [exact Hr|]. rewrite <- Ek. now apply item_window.
      * right. split; [reflexivity|]. apply in_wins. exists r. split; [exact Hr|].
        change (ex_rc (snd (item K (fst r) i))) with (e_rc (snd (item K (fst r) i))) in Hh.
        rewrite has_ext_rc' in Hh by (auto using item_lt).
        rewrite rc_lk, <- Ek, ListFacts.rc_involutive by exact Ww. apply item_window; auto using comp_lt4.
  - intros [[P Hv]|[Hs Hv]].
    + apply in_wins in Hv as [r [Hr Hv]]. pose proof (read_wf r Hr) as W.
      assert (Lkk : length k = K).
      { apply kmers_in in Hv as [q [Hq Ev]]. apply (f_equal (@length N)) in Ev. rewrite lk_length in Ev.
        unfold kmer_at in Ev. rewrite sub_length in Ev by exact Hq. lia. }
      destruct (window_item K (fst r) k d b HK W Lkk Hv) as (i & Hi & Ei & _ & Hh).
      exists (canon_obs st (item K (fst r) i), snd r). split; [apply in_obs_all; exists r, i; auto|].
      unfold key, Filter.oexts, canon_obs. cbn [fst snd]. change (fst (item K (fst r) i)) with (kmer_at K (fst r) i). rewrite Ei.
      assert (Hst : st = true \/ st = false) by (clear; destruct st; auto). destruct Hst as [Hs|Hs]; rewrite Hs in *; [auto|].
      assert (Hne : k <> rc k).
      { intro E. unfold kpal in P. cbn [negb andb] in P. apply palindrome_iff in E. congruence. }
      rewrite (canon_flip_canonical k (Hcan eq_refl) Hne). cbn [fst snd]. auto.
    + apply in_wins in Hv as [r [Hr Hv]]. pose proof (read_wf r Hr) as W. rewrite rc_lk in Hv.
      assert (Lkk : length (rc k) = K).
      { apply kmers_in in Hv as [q [Hq Ev]]. apply (f_equal (@length N)) in Ev. rewrite lk_length in Ev.
        unfold kmer_at in Ev. rewrite sub_length in Ev by exact Hq. lia. }
      destruct (window_item K (fst r) (rc k) (dflip d) (comp b) HK W Lkk Hv) as (i & Hi & Ei & _ & Hh).
      exists (canon_obs st (item K (fst r) i), snd r). split; [apply in_obs_all; exists r, i; auto|].
      unfold key, Filter.oexts, canon_obs. rewrite Hs. cbn [fst snd]. change (fst (item K (fst r) i)) with (kmer_at K (fst r) i). rewrite Ei.
      assert (Ecf : canon_flip (rc k) = (k, true)).
      { destruct (list_eq_dec N.eq_dec k (rc k)) as [E|E].
        - rewrite <- E. unfold canon_flip. rewrite <- E, dna_ltb_irrefl. reflexivity.
        - apply canon_flip_rc_canonical; auto. }
      rewrite Ecf. cbn [fst snd]. split; [reflexivity|].
      change (ex_rc (snd (item K (fst r) i))) with (e_rc (snd (item K (fst r) i))).
      rewrite has_ext_rc' by (auto using item_lt). exact Hh.
Qed.
End Obs.
