(* the boolean hypotheses checkers decide the Props *)
From Coq Require Import NArith List Bool Arith Lia.
From DBG Require Import Spec.Dna Spec.GraphIndex Spec.Unitig Spec.CompressSpec Packed.ExtsModel Algo.Compress
  Check.CompressHyp Proofs.DnaFacts Proofs.ExtsProofs.
Import ListNotations.
Local Open Scope nat_scope.

Lemma nodupb_NoDup l : nodupb l = true -> NoDup l.
Proof.
  induction l as [|x r IH]; intro H; [constructor|]. cbn [nodupb] in H. apply andb_prop in H as [H1 H2].
  constructor; [|auto]. intro Hin. apply negb_true_iff in H1.
  assert (existsb (dna_eqb x) r = true) by (apply existsb_exists; exists x; split; [auto | now apply dna_eqb_eq]).
  congruence.
Qed.
Lemma wf_dnab_wf l : wf_dnab l = true -> wf_dna l.
Proof. unfold wf_dnab, wf_dna. rewrite forallb_forall, Forall_forall. intros H x Hx. apply N.ltb_lt. auto. Qed.

Section Hyp.
Variable D : Type.
Variable K : nat.
Variable stranded : bool.

Lemma tbl_okb_sound T : tbl_okb D K stranded T = true -> tbl_ok D K stranded T.
Proof.
  unfold tbl_okb. intro H. apply andb_prop in H as [H1 H2]. rewrite forallb_forall in H2.
  assert (H2' : forall e, In e T -> length (e_key D e) = K /\ wf_dna (e_key D e) /\
             (stranded = false -> canon (e_key D e) = e_key D e) /\ (e_exts D e < 256)%N).
  { intros e He. specialize (H2 e He). apply andb_prop in H2 as [H2 H6]. apply andb_prop in H2 as [H2 H5].
    apply andb_prop in H2 as [H3 H4]. split; [now apply Nat.eqb_eq|]. split; [now apply wf_dnab_wf|].
    split; [|now apply N.ltb_lt]. intros Hs. rewrite Hs in H5. cbn in H5. now apply dna_eqb_eq. }
  constructor; [now apply nodupb_NoDup | | | |]; try (intros e He; now apply H2').
  intros Hs e He. destruct (H2' e He) as (_ & _ & Hc & _). auto.
Qed.

Lemma exts_symb_sound T : exts_symb D stranded T = true -> exts_sym D stranded T.
Proof.
  unfold exts_symb, exts_sym. rewrite forallb_forall. intros H ent d b yent Hin Hb Hh. cbv zeta. intro Hg.
  specialize (H ent Hin). rewrite forallb_forall in H.
  assert (Hd : In d [DLeft; DRight]) by (destruct d; cbn; auto). specialize (H d Hd).
  rewrite forallb_forall in H. specialize (H b (in_bases4 b Hb)). rewrite Hh in H. cbn [implb] in H.
  cbv zeta in H. rewrite Hg in H. apply orb_prop in H. exact H.
Qed.

Lemma exts_closedb_sound T : exts_closedb D stranded T = true -> exts_closed D stranded T.
Proof.
  unfold exts_closedb, exts_closed. rewrite forallb_forall. intros H ent d b Hin Hb Hh.
  specialize (H ent Hin). rewrite forallb_forall in H.
  assert (Hd : In d [DLeft; DRight]) by (destruct d; cbn; auto). specialize (H d Hd).
  rewrite forallb_forall in H. specialize (H b (in_bases4 b Hb)). rewrite Hh in H. cbn [implb] in H.
  destruct (get_id D T _); [discriminate | discriminate H].
Qed.
End Hyp.
