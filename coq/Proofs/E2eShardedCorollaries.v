(* e2e: corollaries of sharded_assembly - C04 (sharded = direct, THE property), C06 (strand symmetry of the sharded
   pipeline), C03 (the link set of the sharded pipeline's graph = the observed adjacencies between retained k-mers). *)
From Coq Require Import NArith List Bool Arith Lia Permutation.
From DBG Require Import Spec.Dna Spec.GraphIndex Packed.ExtsModel Algo.KmerHist Algo.GraphModel Algo.Recompress Algo.Pipeline Spec.EdgeSpec
  Check.GraphCheck Check.EdgeCheck Check.PipelineCheck Check.RecompCheck
  Proofs.ListFacts Proofs.DnaFacts Proofs.FilterProofs Proofs.MspProofs Proofs.ShardProofs Proofs.PipelineCheckProofs Proofs.UnitigUnique
  Proofs.GraphRcProofs Proofs.PipelineProofs Proofs.RecompressProofs Proofs.E2eDirect Proofs.E2eCorollaries Proofs.E2eEdges
  Proofs.ShardTable Proofs.E2eSharded.
Import ListNotations.
Local Open Scope nat_scope.

Local Notation gk := PipelineCheck.graph_kmers.

(* ---- C04: sharded = direct ---- *)
Theorem sharded_eq_direct max_len K P perm st thr mode variant (lreads : list lread) orders order bs gs g_s g_d :
  params_ok max_len K P -> perm_ok P perm -> 4 <= K -> Forall lread_ok lreads -> Forall (@NoDup dna) orders -> NoDup order ->
  variant <> 1%N ->
  sharded max_len K P perm st thr mode variant lreads orders = Some (bs, gs, g_s) ->
  direct K st thr mode 0 lreads order = Some g_d ->
  same_assembly K st mode g_s g_d.
Proof.
  intros Hpar Hperm HK Hok Hord Hnd Hvar Hs Hd. apply (assembly_unique K st thr mode lreads).
  - exact (sharded_assembly max_len K P perm st thr mode variant lreads orders bs gs g_s Hpar Hperm HK Hok Hord Hvar Hs).
  - exact (direct_assembly K st thr mode lreads order g_d HK (lreads_wf lreads Hok) Hnd Hd).
Qed.

(* both pipelines run to completion on every read set within the guards, for all iteration orders of the hash tables *)
Theorem sharded_eq_direct_total max_len K P perm st thr mode variant (lreads : list lread) :
  params_ok max_len K P -> perm_ok P perm -> 4 <= K -> Forall lread_ok lreads -> variant <> 1%N ->
  exists ps, pieces_of max_len K P perm (negb st) lreads = Some ps /\
    forall orders order,
      Forall2 (fun b o => Permutation o (filter (fun k => (SH P perm (negb st) k =? b)%N) (retained K st thr (map fst lreads))))
              (buckets_of ps) orders ->
      Permutation order (retained K st thr (map fst lreads)) ->
      exists gs g_s g_d, sharded max_len K P perm st thr mode variant lreads orders = Some (buckets_of ps, gs, g_s) /\
                         direct K st thr mode 0 lreads order = Some g_d /\ same_assembly K st mode g_s g_d.
Proof.
  intros Hpar Hperm HK Hok Hvar.
  destruct (sharded_total max_len K P perm st thr mode variant lreads Hpar Hperm HK Hok Hvar) as (ps & Eps & Ht).
  exists ps. split; [exact Eps|]. intros orders order Ho Hp. destruct (Ht orders Ho) as (gs & g_s & Hs & As).
  destruct (direct_correct K st thr mode lreads order HK (lreads_wf lreads Hok) Hp) as (g_d & Hd & Ad).
  exists gs, g_s, g_d. split; [exact Hs|]. split; [exact Hd|]. exact (assembly_unique K st thr mode lreads g_s g_d As Ad).
Qed.

(* ---- C06: reverse-complementing any subset of the reads ---- *)
Lemma flip_lread_ok fs (lreads : list lread) : Forall lread_ok lreads -> Forall lread_ok (flip_lreads fs lreads).
Proof.
  revert fs. induction lreads as [|r t IH]; intros fs H; [constructor|]. inversion H as [|? ? [Hw Hl] Ht]; subst.
  cbn [flip_lreads]. constructor; [|now apply IH]. unfold lread_ok. cbn [fst]. destruct (hd false fs); [|split; assumption].
  split; [apply rc_wf | now rewrite rc_length].
Qed.
Theorem graph_rc_invariant_sharded max_len K P perm thr mode variant fs (lreads : list lread) orders orders' bs gs g bs' gs' g' :
  params_ok max_len K P -> perm_ok P perm -> 4 <= K -> Forall lread_ok lreads ->
  Forall (@NoDup dna) orders -> Forall (@NoDup dna) orders' -> variant <> 1%N ->
  sharded max_len K P perm false thr mode variant lreads orders = Some (bs, gs, g) ->
  sharded max_len K P perm false thr mode variant (flip_lreads fs lreads) orders' = Some (bs', gs', g') ->
  same_assembly K false mode g g'.
Proof.
  intros Hpar Hperm HK Hok Ho Ho' Hvar H H'. apply (graph_rc_invariant_partial K thr mode fs lreads); [exact (lreads_wf lreads Hok)| |].
  - exact (sharded_assembly max_len K P perm false thr mode variant lreads orders bs gs g Hpar Hperm HK Hok Ho Hvar H).
  - exact (sharded_assembly max_len K P perm false thr mode variant _ orders' bs' gs' g' Hpar Hperm HK (flip_lread_ok fs lreads Hok) Ho' Hvar H').
Qed.
(* ... also across the two pipelines: sharded on the reads, direct on the flipped reads *)
Theorem graph_rc_invariant_sharded_direct max_len K P perm thr mode variant fs (lreads : list lread) orders order' bs gs g g' :
  params_ok max_len K P -> perm_ok P perm -> 4 <= K -> Forall lread_ok lreads ->
  Forall (@NoDup dna) orders -> NoDup order' -> variant <> 1%N ->
  sharded max_len K P perm false thr mode variant lreads orders = Some (bs, gs, g) ->
  direct K false thr mode 0 (flip_lreads fs lreads) order' = Some g' ->
  same_assembly K false mode g g'.
Proof.
  intros Hpar Hperm HK Hok Ho Ho' Hvar H H'. apply (graph_rc_invariant_partial K thr mode fs lreads); [exact (lreads_wf lreads Hok)| |].
  - exact (sharded_assembly max_len K P perm false thr mode variant lreads orders bs gs g Hpar Hperm HK Hok Ho Hvar H).
  - apply (direct_assembly K false thr mode (flip_lreads fs lreads) order'); auto. apply flip_wf. exact (lreads_wf lreads Hok).
Qed.
(* stranded: exactly the forward k-mers meeting the threshold and the forward links between them *)
Theorem stranded_exact_sharded max_len K P perm thr mode variant (lreads : list lread) orders bs gs g :
  params_ok max_len K P -> perm_ok P perm -> 4 <= K -> Forall lread_ok lreads -> Forall (@NoDup dna) orders -> variant <> 1%N ->
  sharded max_len K P perm true thr mode variant lreads orders = Some (bs, gs, g) ->
  NoDup (gk K true g) /\
  (forall x, In x (gk K true g) <->
             In x (flat_map (kmers K) (map fst lreads)) /\
             (thr <= N.of_nat (length (filter (dna_eqb x) (flat_map (kmers K) (map fst lreads)))))%N) /\
  (forall w, In w (graph_links K true g) <->
             In w (flat_map (kmers (S K)) (map fst lreads)) /\ In (firstn K w) (gk K true g) /\ In (skipn 1 w) (gk K true g)).
Proof.
  intros Hpar Hperm HK Hok Ho Hvar H. apply stranded_exact_graph.
  now destruct (sharded_assembly max_len K P perm true thr mode variant lreads orders bs gs g Hpar Hperm HK Hok Ho Hvar H).
Qed.

(* ---- C03: the adjacencies the sharded pipeline's graph denotes are the observed ones ---- *)
Theorem edges_are_observed_sharded max_len K P perm st thr mode variant (lreads : list lread) orders bs gs g :
  params_ok max_len K P -> perm_ok P perm -> 4 <= K -> Forall lread_ok lreads -> Forall (@NoDup dna) orders -> variant <> 1%N ->
  sharded max_len K P perm st thr mode variant lreads orders = Some (bs, gs, g) ->
  Permutation (gk K st g) (retained K st thr (map fst lreads)) /\
  (forall w, In w (graph_links K st g) <-> In w (spec_links K st thr (map fst lreads))) /\
  (forall w, In w (graph_links K st g) <-> In w (observed_adjs K st (N.to_nat thr) (map fst lreads))).
Proof.
  intros Hpar Hperm HK Hok Ho Hvar H.
  destruct (sharded_assembly max_len K P perm st thr mode variant lreads orders bs gs g Hpar Hperm HK Hok Ho Hvar H) as [[H1 H2] _].
  split; [exact H1|]. split; [exact H2|]. intro w. rewrite observed_adjs_spec_links. apply H2.
Qed.
(* ... in the terms of Spec/EdgeSpec.v: the (K+1)-mers inside node sequences together with one per edge reported by find_edges *)
Theorem edges_are_observed_sharded_full max_len K P perm st thr mode variant (lreads : list lread) orders bs gs g :
  params_ok max_len K P -> perm_ok P perm -> 4 <= K -> Forall lread_ok lreads -> Forall (@NoDup dna) orders -> variant <> 1%N ->
  sharded max_len K P perm st thr mode variant lreads orders = Some (bs, gs, g) ->
  edges_are_observed K st (N.to_nat thr) (map fst lreads) (g_seqs pay g) (E_list (model_el K st g)).
Proof.
  intros Hpar Hperm HK Hok Ho Hvar H w.
  pose proof (sharded_assembly max_len K P perm st thr mode variant lreads orders bs gs g Hpar Hperm HK Hok Ho Hvar H) as [[_ H2] [(HK1 & Hwfn & _) _]].
  assert (Hg : wf_graph pay K g).
  { split; [exact HK1|]. intros n Hn. rewrite Forall_forall in Hwfn. destruct (Hwfn n Hn) as [W L]. auto. }
  assert (Hres : exts_resolvable pay K st g).
  { unfold sharded in H. destruct (pieces_of max_len K P perm (negb st) lreads) as [ps|]; [|discriminate].
    destruct (omap2 _ (buckets_of ps) orders) as [gs'|]; [|discriminate].
    destruct (compress_graph pay pay_reduce (pay_join mode) K st (combine_graphs gs') None) as [g'|] eqn:Eg; [|discriminate].
    injection H as _ _ <-. unfold compress_graph in Eg.
    destruct (compress_graph_paths pay pay_reduce (pay_join mode) K st (combine_graphs gs') None) as [[o paths]|] eqn:Ec; [|discriminate].
    cbn in Eg. injection Eg as ->.
    pose proof (no_dangling_exts_ pay pay_reduce (pay_join mode) K st _ None g' paths Ec) as Hno.
    intros u s b Hu Hb Hh. unfold EdgeSpec.node_exts, EdgeSpec.node_seq in *.
    destruct (nth_error g' u) as [n|] eqn:En; [|apply nth_error_None in En; lia].
    exact (Hno u n s b En Hb Hh). }
  rewrite (adjs_links K st g Hg Hres w), observed_adjs_spec_links. apply H2.
Qed.
Print Assumptions sharded_eq_direct.
Print Assumptions sharded_eq_direct_total.
Print Assumptions graph_rc_invariant_sharded.
Print Assumptions edges_are_observed_sharded_full.
