(* C09, outputs of compress_graph (work package outmax), part 3: the result graph has no mergeable pair.

   [out_ext_link]: an extension of result node i on side d is an extension of the end node v of its path on its outward
   side; in the restricted input graph it resolves to a surviving node y through side ty, (y, ty) is an exterior end of
   the path of some result node j, and - the result graph having distinct ends - the result graph resolves the extension
   to that very node j, through the corresponding side (unless the k-mer reached is a palindrome).
   [out_no_pair]: for a congruent spec a mergeable pair (i, j) of result nodes is a mergeable link v -> y of the restricted
   input graph (counts, palindrome conditions and - by congruence, [out_data_join] - the join test transfer), so by
   maximality y lies in the path of i: j = i. *)
From Coq Require Import NArith List Bool Arith Lia Permutation.
From DBG Require Import Proofs.AbstractWalk.
From DBG Require Import Spec.Dna Spec.GraphIndex Packed.ExtsModel Algo.Compress Algo.GraphModel Algo.Recompress
  Spec.EdgeSpec Check.RecompCheck Proofs.ListFacts Proofs.DnaFacts Proofs.KmerAlgebra
  Proofs.ExtsProofs Proofs.RecompSweeps Proofs.ComposeSweeps
  Proofs.RecompressProofs Proofs.RecompIdem Proofs.GraphQueryProofs Proofs.WalkProofs Proofs.RecompKmers Proofs.RecompExts
  Proofs.RecompOut Proofs.RecompOutEnds.
Import ListNotations.
Local Open Scope nat_scope.

Lemma is_palindrome_osq s k : wf_dna k -> is_palindrome (osq s k) = is_palindrome k.
Proof. intro H. destruct s; cbn [osq]; [reflexivity | now apply is_palindrome_rc]. Qed.

Lemma palindrome_eq k : is_palindrome k = true -> rc k = k.
Proof. unfold is_palindrome. intro H. apply dna_eqb_eq in H. congruence. Qed.
Lemma palindrome_of_eq k : k = rc k -> is_palindrome k = true.
Proof. unfold is_palindrome. intro H. rewrite <- H. apply dna_eqb_refl. Qed.

Section Max.
Variable D : Type.
Variable reduce : D -> D -> D.
Variable join : D -> D -> bool.
Variable K : nat.
Variable stranded : bool.
Hypothesis join_sym : forall a b, join a b = join b a.
Local Notation graph := (graph D).
Local Notation gnode := (gnode D).
Local Notation Linked := (Linked D join K stranded).
Local Notation rnext := (rnext D join K stranded).
Local Notation pal_single := (RecompCheck.pal_single D K stranded).
Local Notation ext_link := (ext_link D K stranded).
Local Notation find_link := (GraphModel.find_link D K stranded).

(* ---- payloads along a node path --------------------------------------------------------------------------------- *)
Definition joinable (g : graph) (u w : nat) : Prop :=
  forall nu nw, nth_error g u = Some nu -> nth_error g w = Some nw -> join (n_data D nu) (n_data D nw) = true.

Lemma Linked_pairs (C3 : forall a b c, join a b = true -> join a c = join b c) (g : graph) p :
  Linked g p -> ForallOrdPairs (fun a b => joinable g (fst a) (fst b)) p.
Proof.
  induction p as [|a p IH]; intro L; [constructor|].
  destruct p as [|b p]; [constructor; constructor|].
  apply (Linked_cons2 D join K stranded) in L as [Hs L]. specialize (IH L).
  constructor; [|exact IH].
  apply step_ok_inv in Hs as [Hs _]. destruct b as [y t]. cbn [fst snd] in *.
  destruct (rnext_inv D join K stranded g _ _ _ _ Hs) as (n & _ & _ & m & Hn & _ & _ & _ & _ & Hm & _ & Hj & _).
  assert (Hab : joinable g (fst a) y).
  { intros nu nw Hu Hw. congruence. }
  constructor; [exact Hab|].
  inversion IH as [|? ? Hb _]; subst. rewrite Forall_forall in Hb |- *. intros z Hz nu nw Hu Hw.
  assert (nu = n) by congruence. subst nu.
  rewrite (C3 _ _ (n_data D nw) Hj). apply (Hb z Hz m nw Hm Hw).
Qed.

Lemma joinable_in (C : congruent D reduce join) (g : graph) p u su w sw :
  Linked g p -> In (u, su) p -> In (w, sw) p -> u <> w -> joinable g u w.
Proof.
  intros L Hu Hw Hne. destruct C as (C1 & _ & C3). pose proof (Linked_pairs C3 g p L) as HP.
  destruct (ForallOrdPairs_In HP _ _ Hu Hw) as [E|[H|H]]; cbn [fst] in *.
  - congruence.
  - exact H.
  - intros nu nw Hnu Hnw. rewrite C1. now apply H.
Qed.

Lemma datas_in (g : graph) ids : forall l d, datas D g ids = Some l -> In d l ->
  exists i n, In i ids /\ nth_error g i = Some n /\ d = n_data D n.
Proof.
  induction ids as [|i ids IH]; intros l d H Hd; cbn [datas] in H.
  - injection H as <-. destruct Hd.
  - destruct (nth_error g i) as [n|] eqn:En; [|discriminate]. destruct (datas D g ids) as [t|]; [|discriminate].
    injection H as <-. destruct Hd as [<-|Hd].
    + exists i, n. split; [now left | auto].
    + destruct (IH t d eq_refl Hd) as (j & m & Hj & Hm & E). exists j, m. split; [now right | auto].
Qed.

Section Ctx.
Variable g1 : graph.
Variable S : list nat.
Variable r : list (gnode * list (nat * dir)).
Hypothesis W : winv D K stranded g1 S.
Hypothesis Hnd : NoDup (concat (map (map fst) (map snd r))).
Hypothesis Hcov : forall y, In y S -> exists p, In p (map snd r) /\ In y (map fst p).
Hypothesis Hr : forall x, In x r -> exists lp seed rp, snd x = assemble lp seed rp /\ built D reduce K g1 (fst x) lp seed rp /\
                  Linked g1 (snd x) /\ NoDup (map fst (snd x)) /\ (forall y, In y (map fst (snd x)) -> In y S).
Hypothesis HndL : NoDup (ends_of K (g_seqs D g1) DLeft).
Hypothesis HndR : NoDup (ends_of K (g_seqs D g1) DRight).
Hypothesis Hcross : cross_ok D K stranded g1 S.

(* the payload of a result node answers the join test like the payload of any node of its path *)
Lemma out_data_join (C : congruent D reduce join) x v nv c :
  In x r -> In v (map fst (snd x)) -> nth_error g1 v = Some nv ->
  join (n_data D (fst x)) c = join (n_data D nv) c.
Proof.
  intros Hx Hv Hnv. destruct (Hr x Hx) as (lp & seed & rp & Hp & (_ & (sd0 & ds & H1 & H2 & H3) & _) & HL & HN & _).
  rewrite H3. destruct (nth_error g1 seed) as [sn|] eqn:Hsn; [|discriminate]. cbn in H1. injection H1 as <-.
  rewrite Hp, assemble_verts in HN. unfold node_verts in HN.
  assert (Hseedin : In (seed, DLeft) (snd x)).
  { rewrite Hp. unfold assemble. apply in_or_app. right. now left. }
  assert (Hother : forall i, In i (verts nat lp ++ verts nat rp) -> i <> seed /\ In i (map fst (snd x))).
  { intros i Hi. split.
    - intro E. subst i. apply NoDup_remove_2 in HN. apply HN. apply in_app_or in Hi as [Hi|Hi]; apply in_or_app.
      + left. now apply -> in_rev. + now right.
    - rewrite Hp, assemble_verts. apply in_node. apply in_app_or in Hi as [Hi|Hi]; auto. }
  assert (Hds : forall d, In d ds -> join (n_data D sn) d = true).
  { intros d Hd. destruct (datas_in g1 _ ds d H2 Hd) as (i & n & Hi & Hn & ->).
    destruct (Hother i Hi) as [Hne Hin]. apply in_map_iff in Hin as ([i' si] & Ei & Hin). cbn in Ei. subst i'.
    apply (joinable_in C g1 (snd x) seed DLeft i si HL Hseedin Hin (not_eq_sym Hne) sn n Hsn Hn). }
  destruct (Nat.eq_dec v seed) as [->|Hne].
  - assert (nv = sn) by congruence. subst nv. now apply fold_join.
  - apply fold_join_member; auto.
    apply in_map_iff in Hv as ([v' sv] & Ev & Hv). cbn in Ev. subst v'.
    apply (joinable_in C g1 (snd x) seed DLeft v sv HL Hseedin Hv (not_eq_sym Hne) sn nv Hsn Hnv).
Qed.

(* the extension bits of a result node on side d are those of the end node of its path on its outward side *)
Lemma out_bits x d v s nv : In x r -> endelt (snd x) d = Some (v, s) -> nth_error g1 v = Some nv ->
  (forall b, In b bases4 ->
     e_has_ext (n_exts D (fst x)) (dirb d) b = e_has_ext (n_exts D nv) (dirb (eside s d)) (ob s b)) /\
  e_num_ext_dir (n_exts D (fst x)) (dirb d) = e_num_ext_dir (n_exts D nv) (dirb (eside s d)).
Proof.
  intros Hx Ed Hnv. destruct (r_walk D reduce join K stranded g1 S r W Hr x Hx) as (_ & _ & _ & Hpe & _).
  assert (Hb : forall b, In b bases4 ->
     e_has_ext (n_exts D (fst x)) (dirb d) b = e_has_ext (n_exts D nv) (dirb (eside s d)) (ob s b)).
  { intros b Hb. exact (path_exts_bit D K g1 (snd x) _ d v s nv b (wi_ok _ _ _ _ _ W) Hpe Ed Hnv Hb). }
  split; [exact Hb|]. apply (num_ext_transfer _ _ _ _ s); [|exact (proj2 (proj2 (node_ok_nth D K g1 v nv (wi_ok _ _ _ _ _ W) Hnv))) | exact Hb].
  apply (out_node_ok D reduce join K stranded g1 S r W Hr x Hx).
Qed.

(* ---- what an extension of a result node resolves to, in the result graph ------------------------------------------ *)
Lemma out_ext_link i x d b j t f :
  nth_error r i = Some x -> In b bases4 -> ext_link (map fst r) i d b = Some (j, t, f) ->
  exists v s nv y ty fy ny x' sg sy,
    endelt (snd x) d = Some (v, s) /\ nth_error g1 v = Some nv /\ In v S /\
    e_has_ext (n_exts D nv) (dirb (eside s d)) (ob s b) = true /\
    find_link g1 (extend (term_kmer K (n_seq D nv) (eside s d)) (ob s b) (eside s d)) (eside s d) = Some (y, ty, fy) /\
    nth_error g1 y = Some ny /\ In y S /\
    nth_error r j = Some x' /\ endelt (snd x') sg = Some (y, sy) /\ ty = eside sy sg /\
    extend (term_kmer K (n_seq D (fst x)) d) b d =
      osq s (extend (term_kmer K (n_seq D nv) (eside s d)) (ob s b) (eside s d)) /\
    wf_dna (extend (term_kmer K (n_seq D nv) (eside s d)) (ob s b) (eside s d)) /\
    (t = sg \/ (stranded = false /\ pal_single (fst x') = true /\
                is_palindrome (extend (term_kmer K (n_seq D (fst x)) d) b d) = true)).
Proof.
  intros Hi Hb Hlk. assert (Hx : In x r) by (eapply nth_error_In; eauto).
  unfold RecompCheck.ext_link in Hlk. rewrite nth_error_map, Hi in Hlk. cbn [option_map] in Hlk.
  destruct (e_has_ext (n_exts D (fst x)) (dirb d) b) eqn:Hh0; [|discriminate].
  destruct (r_walk D reduce join K stranded g1 S r W Hr x Hx) as (Wf & Vw & Hsq & Hpe & seed & Hseed). pose proof (proj1 Wf) as HK.
  destruct (Hr x Hx) as (_ & _ & _ & _ & _ & HL & Hn & HS).
  set (p := snd x) in *.
  destruct (endelt p d) as [[v s]|] eqn:Ed; [|unfold endelt in Ed; destruct p; [destruct Hseed | discriminate]].
  destruct (endelt_ext_side p d v s Ed) as [Hext Hvin].
  assert (HvS : In v S) by (apply HS; apply (in_map fst) in Hvin; exact Hvin).
  destruct (S_nth D K stranded g1 S W v HvS) as [nv Hnv].
  pose proof Hh0 as Hh.
  rewrite (path_exts_bit D K g1 p _ d v s nv b (wi_ok _ _ _ _ _ W) Hpe Ed Hnv Hb) in Hh.
  set (e' := eside s d) in *. set (b0 := ob s b) in *.
  assert (Hb4 : (b < 4)%N) by now apply in_bases4_lt.
  assert (Hb0 : In b0 bases4) by (apply ob_in; exact Hb).
  destruct (wi_res _ _ _ _ _ W v e' b0 nv Hnv Hb0 Hh) as (y & ty & fy & Hlink & HyS).
  destruct (Hcov y HyS) as (p' & Hp' & Hyp'). apply in_map_iff in Hyp' as [[y0 sy0] [Ey Hyp']]. cbn in Ey. subst y0.
  assert (HLall : forall q, In q (map snd r) -> Linked g1 q).
  { intros q Hq. apply in_map_iff in Hq as [x0 [<- Hx0]]. destruct (Hr x0 Hx0) as (_ & _ & _ & _ & _ & HL' & _). exact HL'. }
  assert (Hpin : In p (map snd r)) by (now apply in_map).
  pose proof (target_exterior D join K stranded g1 S (map snd r) p v e' b0 y ty fy W Hnd HLall Hpin Hext
                (in_map fst _ _ Hvin) HvS Hb0 Hlink p' sy0 Hp' Hyp') as Hext'.
  destruct (ext_side_endelt p' y ty Hext') as (sg & sy & Esg & Et).
  apply in_map_iff in Hp' as [x' [Epx' Hx']].
  destruct (r_walk D reduce join K stranded g1 S r W Hr x' Hx') as (_ & Vw' & Hsq' & _ & seed' & Hseed'). rewrite <- Epx' in *.
  destruct (Hr x' Hx') as (_ & _ & _ & _ & _ & HL' & _ & _).
  destruct (endelt_ext_side (snd x') sg y sy Esg) as [_ Hyin'].
  pose proof (end_kmer D K stranded g1 p _ d v s Wf Vw Hsq Ed) as Kp. fold e' in Kp.
  pose proof (end_kmer D K stranded g1 (snd x') _ sg y sy Wf Vw' Hsq' Esg) as Kp'. rewrite <- Et in Kp'.
  unfold EdgeSpec.node_seq in Kp. rewrite Hnv in Kp.
  set (x0 := term_kmer K (n_seq D nv) e') in *.
  assert (Hnok : node_ok D K nv) by (apply (node_ok_nth D K g1 v nv (wi_ok _ _ _ _ _ W) Hnv)).
  destruct Hnok as (Wnv & Lnv & _).
  destruct (term_kmer_ok K (n_seq D nv) e' Wnv (proj2 Lnv)) as [Lx0 Wx0]. fold x0 in Lx0, Wx0.
  assert (Hx0ne : x0 <> []) by (intro E; rewrite E in Lx0; cbn in Lx0; lia).
  set (kk' := extend x0 b0 e') in *.
  assert (Wkk' : wf_dna kk') by (apply extend_wf; auto; now apply in_bases4_lt).
  unfold RecompCheck.ext_link in Hlink. rewrite Hnv, Hh in Hlink. fold x0 kk' in Hlink.
  pose proof Hlink as Hlink0.
  apply find_link_some in Hlink.
  assert (Us : s = DRight -> stranded = false) by (intro E; rewrite E in Hvin; exact (unstranded_of_flip D join K stranded g1 p v seed HL Hseed Hvin)).
  assert (Usy : sy = DRight -> stranded = false) by (intro E; rewrite E in Hyin'; exact (unstranded_of_flip D join K stranded g1 (snd x') y seed' HL' Hseed' Hyin')).
  assert (Hgoal : (sg = dflip d /\ term_kmer K (n_seq D (fst x')) sg = osq s kk') \/
                  (stranded = false /\ sg = d /\ term_kmer K (n_seq D (fst x')) sg = rc (osq s kk'))).
  { destruct Hlink as [(Hf & Ht & _ & Hterm)|(Hf & Hst & Ht & (_ & Hterm) & _)]; rewrite Hterm in Kp'; rewrite Ht in Et;
      unfold e' in Et; destruct s, sy, d, sg; cbn in Et; try discriminate Et; cbn [osq dflip] in *;
      rewrite ?(ListFacts.rc_involutive _ Wkk') in *;
      first [ left; split; [reflexivity | exact Kp']
            | right; split; [auto|]; split; [reflexivity | exact Kp'] ]. }
  (* the query in the result graph *)
  assert (Eq : extend (term_kmer K (n_seq D (fst x)) d) b d = osq s kk').
  { rewrite Kp, (osq_extend s x0 b d Hx0ne Hb4). reflexivity. }
  rewrite Eq in Hlk |- *.
  assert (Wq : wf_dna (osq s kk')) by (destruct s; cbn [osq]; [exact Wkk' | apply rc_wf]).
  destruct (In_nth_error _ _ Hx') as [j' Hj'].
  destruct (S_nth D K stranded g1 S W y HyS) as [ny Hny].
  (* uniqueness of the ends of the result graph *)
  pose proof (out_ends_ok D reduce join K stranded g1 S r W Hnd Hr HndL HndR Hcross) as (EL & ER & EX).
  assert (EN : forall dd, NoDup (ends_of K (g_seqs D (map fst r)) dd)) by (intros []; assumption).
  assert (Hend : forall jj dd k xx, nth_error r jj = Some xx -> term_kmer K (n_seq D (fst xx)) dd = k ->
                   end_is D K (map fst r) jj dd k).
  { intros jj dd k xx Hjj E. split; [rewrite map_length; apply nth_error_Some; congruence|].
    unfold EdgeSpec.node_seq. rewrite nth_error_map, Hjj. exact E. }
  assert (Hend' : forall jj dd k, end_is D K (map fst r) jj dd k ->
                   exists xx, nth_error r jj = Some xx /\ term_kmer K (n_seq D (fst xx)) dd = k).
  { intros jj dd k [Hlt E]. rewrite map_length in Hlt. unfold EdgeSpec.node_seq in E. rewrite nth_error_map in E.
    destruct (nth_error r jj) as [xx|] eqn:Ejj; [|apply nth_error_None in Ejj; lia]. exists xx. auto. }
  assert (Hres : j = j' /\ (t = sg \/ (stranded = false /\ pal_single (fst x') = true /\ is_palindrome (osq s kk') = true))).
  { apply find_link_some in Hlk.
    destruct Hlk as [(Hf & Ht & He)|(Hf & Hst & Ht & He & Hno)]; destruct Hgoal as [[Hsg Hk]|(Hst' & Hsg & Hk)].
    - (* direct hit, and j' has the same facing end *)
      destruct (Hend' _ _ _ He) as (xx & Hxx & Exx). subst t.
      assert (j = j').
      { apply (out_end_inj D reduce join K stranded g1 S r W Hnd Hr HndL HndR Hcross j j' xx x' (dflip d) Hxx Hj').
        rewrite Exx. rewrite <- Hsg. now rewrite Hk. }
      split; [assumption | left; congruence].
    - (* direct hit on j, and j' has the reverse complement on the query side: cross pair *)
      destruct (Hend' _ _ _ He) as (xx & Hxx & Exx). subst t sg.
      assert (Ec : term_kmer K (n_seq D (fst xx)) (dflip d) = rc (term_kmer K (n_seq D (fst x')) d)).
      { rewrite Exx, Hk. now rewrite (ListFacts.rc_involutive _ Wq). }
      destruct (out_end_cross D reduce join K stranded g1 S r W Hnd Hr HndL HndR Hcross j' j x' xx d Hst' Hj' Hxx Ec) as [Ej Hl].
      subst j. rewrite Hj' in Hxx. injection Hxx as <-.
      assert (Pq : is_palindrome (osq s kk') = true).
      { apply palindrome_of_eq. rewrite <- Hk, <- Exx.
        now rewrite (GraphQueryProofs.term_kmer_single K _ (dflip d) Hl), (GraphQueryProofs.term_kmer_single K _ d Hl). }
      split; [reflexivity|]. right. split; [exact Hst'|]. split; [|exact Pq].
      unfold RecompCheck.pal_single. rewrite Hst', Hl, Nat.eqb_refl. cbn [negb andb].
      rewrite <- (RecompressProofs.term_kmer_single K _ (dflip d) Hl), Exx. exact Pq.
    - exfalso. apply (Hno j'). rewrite <- Hsg. apply (Hend _ _ _ x' Hj'). exact Hk.
    - destruct (Hend' _ _ _ He) as (xx & Hxx & Exx). subst t sg.
      assert (j = j').
      { apply (out_end_inj D reduce join K stranded g1 S r W Hnd Hr HndL HndR Hcross j j' xx x' d Hxx Hj'). now rewrite Exx, Hk. }
      split; [assumption | left; reflexivity]. }
  destruct Hres as [Ej Ht]. subst j'.
  exists v, s, nv, y, ty, fy, ny, x', sg, sy. repeat split; auto.
Qed.
(* ---- no mergeable pair of distinct result nodes ---------------------------------------------------------------------- *)
Hypothesis Hmax : forall x, In x r -> forall v d w t,
  In v (map fst (snd x)) -> rnext g1 v d = Some (w, t) -> In w (map fst (snd x)).

Theorem out_no_pair (C : congruent D reduce join) : forall i d j t, rnext (map fst r) i d = Some (j, t) -> j = i.
Proof.
  intros i d j t H.
  destruct (rnext_inv D join K stranded _ _ _ _ _ H) as (n & b & f & m & Hn & Hnum & Hp & Hu & Hfl & Hm & Hpal & Hj & Hnum').
  rewrite nth_error_map in Hn. destruct (nth_error r i) as [x|] eqn:Hi; [|discriminate]. cbn in Hn. injection Hn as <-.
  assert (Hx : In x r) by (eapply nth_error_In; eauto).
  pose proof (out_node_ok D reduce join K stranded g1 S r W Hr x Hx) as (_ & _ & Hlt).
  destruct (unique_ext_spec _ _ Hlt Hnum) as (b0 & Hb0 & Hu0 & Hh & _).
  assert (b0 = b) by congruence. subst b0.
  assert (Hlk : ext_link (map fst r) i d b = Some (j, t, f)).
  { unfold RecompCheck.ext_link. rewrite nth_error_map, Hi. cbn [option_map]. now rewrite Hh. }
  destruct (out_ext_link i x d b j t f Hi Hb0 Hlk)
    as (v & s & nv & y & ty & fy & ny & x' & sg & sy & Ed & Hnv & HvS & Hhv & Hfl1 & Hny & HyS & Hj' & Esg & Ety & Eq & Wkk & Ht).
  assert (Hx' : In x' r) by (eapply nth_error_In; eauto).
  rewrite nth_error_map, Hj' in Hm. cbn in Hm. injection Hm as <-.
  assert (Et : t = sg).
  { destruct Ht as [Ht|(St & _ & Pq)]; [exact Ht|]. rewrite St, Pq in Hpal. discriminate. }
  subst t.
  destruct (out_bits x d v s nv Hx Ed Hnv) as [_ Nv]. rewrite Hnum in Nv. symmetry in Nv.
  destruct (out_bits x' sg y sy ny Hx' Esg Hny) as [_ Ny]. rewrite Hnum', <- Ety in Ny. symmetry in Ny.
  pose proof (node_ok_nth D K g1 v nv (wi_ok _ _ _ _ _ W) Hnv) as (_ & _ & Hltv).
  destruct (unique_ext_spec _ _ Hltv Nv) as (b1 & Hb1 & Hu1 & _ & Honly).
  assert (ob s b = b1) by (apply Honly; [now apply ob_in | exact Hhv]). subst b1.
  assert (Pv : pal_single nv = false).
  { rewrite <- (out_pal_single D reduce join K stranded g1 S r W Hr x d v s nv Hx Ed Hnv). exact Hp. }
  assert (Hpal1 : negb stranded && is_palindrome (extend (term_kmer K (n_seq D nv) (eside s d)) (ob s b) (eside s d)) = false).
  { rewrite Eq, is_palindrome_osq in Hpal by exact Wkk. exact Hpal. }
  destruct (endelt_ext_side _ _ _ _ Ed) as [_ Hvin]. destruct (endelt_ext_side _ _ _ _ Esg) as [_ Hyin].
  apply (in_map fst) in Hvin, Hyin. cbn [fst] in Hvin, Hyin.
  assert (Hjoin : join (n_data D nv) (n_data D ny) = true).
  { rewrite (out_data_join C x v nv _ Hx Hvin Hnv) in Hj. rewrite (proj1 C) in Hj.
    rewrite (out_data_join C x' y ny _ Hx' Hyin Hny) in Hj. now rewrite (proj1 C). }
  assert (R1 : rnext g1 v (eside s d) = Some (y, ty)).
  { eapply (rnext_intro D join K stranded); eauto. }
  pose proof (Hmax x Hx v (eside s d) y ty Hvin R1) as Hyx.
  exact (same_path D r Hnd j i x' x y Hj' Hi Hyin Hyx).
Qed.
End Ctx.
(* ---- the context of a run of compress_graph on a valid graph ------------------------------------------------------- *)
Definition run_ctx (g1 : graph) (S : list nat) (r : list (gnode * list (nat * dir))) : Prop :=
  winv D K stranded g1 S /\
    NoDup (concat (map (map fst) (map snd r))) /\
    (forall y, In y S -> exists p, In p (map snd r) /\ In y (map fst p)) /\
    (forall x, In x r -> exists lp seed rp, snd x = assemble lp seed rp /\ built D reduce K g1 (fst x) lp seed rp /\
    Linked g1 (snd x) /\ NoDup (map fst (snd x)) /\ (forall y, In y (map fst (snd x)) -> In y S)) /\
    NoDup (ends_of K (g_seqs D g1) DLeft) /\ NoDup (ends_of K (g_seqs D g1) DRight) /\
    (forall x, In x r -> forall v d w t, In v (map fst (snd x)) -> rnext g1 v d = Some (w, t) -> In w (map fst (snd x))).

Lemma recompress_ctx (g : graph) censor out paths :
  rvalid D K stranded g -> compress_graph_paths D reduce join K stranded g censor = Some (out, paths) ->
  exists g1 r, restrict D K stranded g (survivors D g censor) = Some g1 /\ g_seqs D g1 = g_seqs D g /\
    out = map fst r /\ paths = map snd r /\ run_ctx g1 (survivors D g censor) r.
Proof.
  intros V H.
  destruct (recompress_refines_walk_ D reduce join K stranded join_sym g censor V) as (g1 & out' & r & Hg1 & W & Hc & Hok & Hp).
  rewrite Hc in H. injection H as <- <-.
  destruct (recompress_partition D reduce join K stranded join_sym g censor out' (map snd r) V Hc) as (_ & Hnd & Hin).
  set (S := survivors D g censor) in *.
  assert (Hcov : forall y, In y S -> exists p, In p (map snd r) /\ In y (map fst p)).
  { intros y Hy. apply (survivors_spec D) in Hy. apply Hin in Hy. apply in_concat in Hy as (l & Hl & Hyl).
    apply in_map_iff in Hl as (p & <- & Hp'). eauto. }
  pose proof (fun x => result_ok_elem D reduce join K stranded g1 S r _ x Hok) as Hr.
  assert (Hseq : g_seqs D g1 = g_seqs D g).
  { unfold restrict in Hg1. destruct (fix_exts_spec D K stranded g (Some S)) as (g' & Hg' & _ & Hs & _). congruence. }
  exists g1, r. split; [exact Hg1|]. split; [exact Hseq|]. split; [|split; [reflexivity|]].
  - eapply (pruned_id D K stranded); [| |exact Hp].
    + intros i n Hn. rewrite nth_error_map in Hn. destruct (nth_error r i) as [x|] eqn:Ex; [|discriminate]. injection Hn as <-.
      destruct (Hr x (nth_error_In _ _ Ex)) as (lp & seed & rp & _ & (_ & _ & He) & _). rewrite He. apply from_single_dirs_lt.
    + intros i n d b Hn Hb Hh. apply (assembled_resolves D reduce join K stranded g1 S r W Hnd Hcov Hr i n d b Hn Hb Hh).
  - pose proof V as (_ & NL & NR & _).
    split; [exact W|]. split; [exact Hnd|]. split; [exact Hcov|]. split; [exact Hr|].
    split; [now rewrite Hseq|]. split; [now rewrite Hseq|].
    destruct (recompress_maximal_ D reduce join K stranded join_sym g censor out' (map snd r) V Hc) as (g1' & Hg1' & Hmax).
    assert (g1' = g1) by (subst S; congruence). subst g1'.
    intros x Hx. apply Hmax. now apply in_map.
Qed.

(* no two distinct nodes of the result of compress_graph are mergeable (valid input, congruent spec, no cross pair of
   ends among the survivors) *)
Theorem recompress_out_no_pair_strict (C : congruent D reduce join) (g : graph) censor out paths :
  rvalid D K stranded g -> cross_ok D K stranded g (survivors D g censor) ->
  compress_graph_paths D reduce join K stranded g censor = Some (out, paths) ->
  forall i d j t, rnext out i d = Some (j, t) -> j = i.
Proof.
  intros V X H. destruct (recompress_ctx g censor out paths V H) as (g1 & r & Hg1 & Hseq & -> & -> & W & Hnd & Hcov & Hr & NL & NR & Hmax).
  apply (out_no_pair g1 (survivors D g censor) r W Hnd Hcov Hr NL NR); auto.
  apply (cross_ok_seqs D K stranded g g1); auto.
Qed.


End Max.
