(* C03: the extension-pruning operations are exact.  remove_censored_exts / remove_censored_exts_sharded
   (filter.rs) on every table, get_valid_exts / fix_exts (graph.rs) on every graph and every valid set.
   The only sweep is over the 2^8 on/off patterns of the eight rebuilt extension bits. *)
From Coq Require Import NArith ZArith List Bool Arith Lia.
From DBG Require Import Spec.Dna Spec.GraphIndex Packed.ExtsModel Algo.Compress Algo.GraphModel Spec.EdgeSpec
  Proofs.ListFacts Proofs.DnaFacts Proofs.GraphQueryProofs.
Import ListNotations.
Local Open Scope N_scope.

(* an extension byte rebuilt bit by bit, in the order the code sets the bits *)
Definition setbits (l : list (bool * N)) : N :=
  fold_left (fun e (cp : bool * N) => if fst cp then N.lor e (N.shiftl 1 (snd cp)) else e) l 0.
Definition bits_are (r : N) (c0 c1 c2 c3 c4 c5 c6 c7 : bool) : Prop :=
  r < 256 /\
  e_has_ext r false 0 = c0 /\ e_has_ext r false 1 = c1 /\ e_has_ext r false 2 = c2 /\ e_has_ext r false 3 = c3 /\
  e_has_ext r true 0 = c4 /\ e_has_ext r true 1 = c5 /\ e_has_ext r true 2 = c6 /\ e_has_ext r true 3 = c7.
(* remove_censored_exts*: all left bits, then all right bits *)
Lemma setbits_dir_major c0 c1 c2 c3 c4 c5 c6 c7 :
  bits_are (setbits [(c0, 0); (c1, 1); (c2, 2); (c3, 3); (c4, 4); (c5, 5); (c6, 6); (c7, 7)]) c0 c1 c2 c3 c4 c5 c6 c7.
Proof. destruct c0, c1, c2, c3, c4, c5, c6, c7; vm_compute; repeat split; reflexivity. Qed.
(* get_valid_exts: left and right bit of base 0, then of base 1, ... *)
Lemma setbits_base_major c0 c1 c2 c3 c4 c5 c6 c7 :
  bits_are (setbits [(c0, 0); (c4, 4); (c1, 1); (c5, 5); (c2, 2); (c6, 6); (c3, 3); (c7, 7)]) c0 c1 c2 c3 c4 c5 c6 c7.
Proof. destruct c0, c1, c2, c3, c4, c5, c6, c7; vm_compute; repeat split; reflexivity. Qed.
Lemma bits_are_has_ext r (c : dir -> N -> bool) :
  bits_are r (c DLeft 0) (c DLeft 1) (c DLeft 2) (c DLeft 3) (c DRight 0) (c DRight 1) (c DRight 2) (c DRight 3) ->
  r < 256 /\ forall d b, b < 4 -> e_has_ext r (dirb d) b = c d b.
Proof.
  intros [H [H0 [H1 [H2 [H3 [H4 [H5 [H6 H7]]]]]]]]. split; [exact H|]. intros d b Hb.
  destruct d; cbn [dirb]; destruct b as [|[[p|p|]|[p|p|]|]]; try lia; assumption.
Qed.

Lemma key_in_iff keys x : key_in keys x = true <-> In x keys.
Proof.
  unfold key_in. rewrite existsb_exists. split.
  - intros [y [Hy E]]. apply dna_eqb_eq in E. now subst.
  - intro H. exists x. split; [exact H|now apply dna_eqb_eq].
Qed.

Section Prune.
Variable D : Type.
Variable stranded : bool.

Lemma prune_exts_exact (keep : dna -> bool) kmer exts :
  prune_exts stranded keep kmer exts < 256 /\
  forall d b, b < 4 -> e_has_ext (prune_exts stranded keep kmer exts) (dirb d) b
                      = e_has_ext exts (dirb d) b && keep (canon_s stranded (extend kmer b d)).
Proof.
  apply (bits_are_has_ext _ (fun d b => e_has_ext exts (dirb d) b && keep (canon_s stranded (extend kmer b d)))).
  apply setbits_dir_major.
Qed.

(* remove_censored_exts: keys, payloads and order unchanged; an extension bit survives iff it was set and its
   target k-mer (canonical when unstranded) is a key of the table; the byte has no other bits *)
Theorem remove_censored_exact (valid : list (dna * N * D)) :
  let keys := map (fun e => fst (fst e)) valid in
  length (remove_censored_exts D stranded valid) = length valid /\
  forall i k e dt, nth_error valid i = Some (k, e, dt) ->
    exists e', nth_error (remove_censored_exts D stranded valid) i = Some (k, e', dt) /\ e' < 256 /\
      forall d b, b < 4 ->
        (e_has_ext e' (dirb d) b = true <-> e_has_ext e (dirb d) b = true /\ In (canon_s stranded (extend k b d)) keys).
Proof.
  intro keys. unfold remove_censored_exts. fold keys. split; [apply map_length|].
  intros i k e dt H. eexists. split; [rewrite nth_error_map, H; reflexivity|]. cbn [fst snd].
  destruct (prune_exts_exact (key_in keys) k e) as [L B]. split; [exact L|].
  intros d b Hb. rewrite (B d b Hb), andb_true_iff, key_in_iff. reflexivity.
Qed.

(* the sharded variant: a bit is dropped iff its target is censored in this shard (in all_kmers, not a key) *)
Theorem remove_censored_sharded_exact (valid : list (dna * N * D)) (all_kmers : list dna) :
  let keys := map (fun e => fst (fst e)) valid in
  length (remove_censored_exts_sharded D stranded valid all_kmers) = length valid /\
  forall i k e dt, nth_error valid i = Some (k, e, dt) ->
    exists e', nth_error (remove_censored_exts_sharded D stranded valid all_kmers) i = Some (k, e', dt) /\ e' < 256 /\
      forall d b, b < 4 ->
        (e_has_ext e' (dirb d) b = true <->
         e_has_ext e (dirb d) b = true /\
         ~ (In (canon_s stranded (extend k b d)) all_kmers /\ ~ In (canon_s stranded (extend k b d)) keys)).
Proof.
  intro keys. unfold remove_censored_exts_sharded. fold keys. split; [apply map_length|].
  intros i k e dt H. eexists. split; [rewrite nth_error_map, H; reflexivity|]. cbn [fst snd].
  destruct (prune_exts_exact (fun x => key_in keys x || negb (key_in all_kmers x)) k e) as [L B]. split; [exact L|].
  intros d b Hb. rewrite (B d b Hb), andb_true_iff, orb_true_iff, negb_true_iff.
  rewrite <- !key_in_iff. destruct (key_in keys _), (key_in all_kmers _); intuition congruence.
Qed.
End Prune.

(* ------------------------------------------------------------------ get_valid_exts / fix_exts *)
Section Fix.
Variable D : Type.
Variable K : nat.
Variable stranded : bool.
Local Notation graph := (graph D).

(* the extension of node sequence s on side d by base b resolves to a node (of the valid set, when given) *)
Definition resolves (g : graph) (valid : option (list nat)) (s : dna) (d : dir) (b : N) : bool :=
  match find_link D K stranded g (extend (term_kmer K s d) b d) d with
  | Some (t, _, _) => match valid with Some v => mem_nat t v | None => true end
  | None => false
  end.

Theorem get_valid_exts_exact (g : graph) valid id n : nth_error g id = Some n ->
  exists e, get_valid_exts D K stranded g valid id = Some e /\ e < 256 /\
    forall d b, b < 4 -> e_has_ext e (dirb d) b = e_has_ext (n_exts D n) (dirb d) b && resolves g valid (n_seq D n) d b.
Proof.
  intro H. unfold get_valid_exts. rewrite H.
  set (c := fun d b => e_has_ext (n_exts D n) (dirb d) b && resolves g valid (n_seq D n) d b).
  match goal with |- context [fold_left ?f _ _] => set (step := f) end.
  assert (S : forall e b, step e b =
            let e1 := if c DLeft b then N.lor e (N.shiftl 1 b) else e in
            if c DRight b then N.lor e1 (N.shiftl 1 (b + 4)) else e1).
  { intros e b. unfold step, c, resolves. cbn [term_kmer extend dirb].
    repeat match goal with
           | |- context [e_has_ext (n_exts D n) ?d ?b] => destruct (e_has_ext (n_exts D n) d b); cbn [andb]
           | |- context [GraphModel.find_link D K stranded g ?x ?d] =>
               destruct (GraphModel.find_link D K stranded g x d) as [[[? ?] ?]|]
           | |- context [match valid with Some v => mem_nat ?t v | None => true end] =>
               destruct (match valid with Some v => mem_nat t v | None => true end)
           end; reflexivity. }
  eexists. split; [reflexivity|]. apply (bits_are_has_ext _ c).
  cbn [fold_left]. rewrite !S. cbn zeta. apply setbits_base_major.
Qed.

Lemma omap__all {A B} (f : A -> option B) (h : A -> B) : forall l, (forall x, In x l -> f x = Some (h x)) ->
  omap_ f l = Some (map h l).
Proof.
  induction l as [|x l IH]; intro H; [reflexivity|]. cbn [omap_ map]. rewrite (H x (or_introl eq_refl)).
  rewrite IH by (intros y Hy; apply H; now right). reflexivity.
Qed.
Lemma nth_error_combine_seq {A B} (h : nat -> B) : forall (g : list A) s id,
  nth_error (combine g (map h (seq s (length g)))) id = option_map (fun n => (n, h (s + id)%nat)) (nth_error g id).
Proof.
  induction g as [|n g IH]; intros s id; [now destruct id|]. cbn [length seq map combine].
  destruct id as [|id]; cbn [nth_error option_map]; [now rewrite Nat.add_0_r|].
  rewrite IH. now replace (S s + id)%nat with (s + S id)%nat by lia.
Qed.

(* fix_exts never fails; sequences, payloads and order are unchanged; an extension bit of a node survives iff
   it was set and resolves to a node (of the valid set, when one is given); the byte has no other bits *)
Theorem fix_exts_exact (g : graph) valid :
  exists g', fix_exts D K stranded g valid = Some g' /\ length g' = length g /\
    forall id n, nth_error g id = Some n ->
      exists e, nth_error g' id = Some (n_seq D n, e, n_data D n) /\ e < 256 /\
        forall d b, b < 4 ->
          (e_has_ext e (dirb d) b = true <->
           e_has_ext (n_exts D n) (dirb d) b = true /\ resolves g valid (n_seq D n) d b = true).
Proof.
  set (h := fun id => match get_valid_exts D K stranded g valid id with Some e => e | None => 0 end).
  assert (E : omap_ (get_valid_exts D K stranded g valid) (seq 0 (length g)) = Some (map h (seq 0 (length g)))).
  { apply omap__all. intros id Hid. apply in_seq in Hid.
    destruct (nth_error g id) as [n|] eqn:En; [|apply nth_error_None in En; lia].
    destruct (get_valid_exts_exact g valid id n En) as [e [Ee _]]. unfold h. now rewrite Ee. }
  unfold fix_exts. rewrite E. eexists. split; [reflexivity|]. split.
  - rewrite map_length, combine_length, map_length, seq_length. lia.
  - intros id n En. destruct (get_valid_exts_exact g valid id n En) as [e [Ee [L B]]].
    exists e. split; [|split; [exact L|]].
    + rewrite nth_error_map, nth_error_combine_seq, En. cbn [option_map fst snd plus]. unfold h. now rewrite Ee.
    + intros d b Hb. rewrite (B d b Hb), andb_true_iff. reflexivity.
Qed.
End Fix.
