(* C19, strengthening: the MPHF depends on the SET of keys entering a level only, not on their order.  Hence the
   final structure is the serial one even if the parallel filter_map().collect() returned the redo keys in an
   arbitrary order: rayon's order-preservation contract is not needed for finish() = finish_serial(). *)
From Coq Require Import NArith List Bool Arith Lia Relations Permutation.
From DBG Require Import Spec.Dna Spec.GraphIndex Algo.BBHash Proofs.BBHashProofs.
Import ListNotations.
Local Open Scope nat_scope.

Lemma cnt_perm s l l' : Permutation l l' -> cnt s l = cnt s l'.
Proof.
  induction 1; auto; rewrite ?cnt_cons; lia.
Qed.
Lemma filter_perm {A} (f : A -> bool) l l' : Permutation l l' -> Permutation (filter f l) (filter f l').
Proof.
  induction 1; cbn; auto.
  - destruct (f x); auto.
  - destruct (f x), (f y); auto. apply perm_swap.
  - eapply perm_trans; eauto.
Qed.

Section Order.
  Variable h : nat -> nat -> key -> nat.
  Variable sz : nat -> nat.
  Hypothesis h_lt : forall iter n k, h iter (sz n) k < sz n.

  Lemma level_perm iter keys keys' : Permutation keys keys' ->
    lv_a h sz iter keys = lv_a h sz iter keys' /\ Permutation (lv_redo h sz iter keys) (lv_redo h sz iter keys').
  Proof.
    intros P. unfold lv_a, lv_redo, lv_f. rewrite <- (Permutation_length P).
    set (f := h iter (sz (length keys))).
    assert (C : forall s, cnt s (map f keys) = cnt s (map f keys')) by (intros; apply cnt_perm, Permutation_map; auto).
    split.
    - apply map_ext. intros s. rewrite C. reflexivity.
    - rewrite (filter_ext _ (fun k => 2 <=? cnt (f k) (map f keys'))) by (intros; rewrite C; reflexivity).
      apply filter_perm; auto.
  Qed.

  Lemma loop_perm : forall fuel iter keys keys', Permutation keys keys' ->
    mphf_loop h sz fuel iter keys = mphf_loop h sz fuel iter keys'.
  Proof.
    induction fuel as [|fuel IH]; intros iter keys keys' P.
    - destruct keys, keys'; auto; [apply Permutation_nil in P|apply Permutation_sym, Permutation_nil in P]; discriminate.
    - destruct keys as [|k r], keys' as [|k' r']; auto;
        try (apply Permutation_nil in P; discriminate); try (apply Permutation_sym, Permutation_nil in P; discriminate).
      cbn [mphf_loop]. rewrite !(level_serial_spec h sz h_lt), !level_spec_shape.
      destruct (level_perm iter _ _ P) as (Ea & Pr). rewrite Ea, (IH _ _ _ Pr). reflexivity.
  Qed.

  (* Mphf::new_parallel where every level may hand the redo keys to the next level in ANY order *)
  Inductive level_par_u (iter : nat) (keys : list key) : bv -> list key -> Prop :=
  | lpu_intro : forall a redo redo', level_par h sz iter keys a redo -> Permutation redo redo' ->
      level_par_u iter keys a redo'.
  Inductive loop_par_u : nat -> nat -> list key -> option (list bv) -> Prop :=
  | lpu_done : forall fuel iter, loop_par_u fuel iter [] (Some [])
  | lpu_out : forall iter k r, loop_par_u 0 iter (k :: r) None
  | lpu_step : forall fuel iter k r a redo res,
      level_par_u iter (k :: r) a redo -> loop_par_u fuel (S iter) redo res ->
      loop_par_u (S fuel) iter (k :: r) (option_map (cons a) res).
  Inductive mphf_par_u (keys : list key) : option (list bv) -> Prop :=
  | mpu_intro : forall a redo res,
      level_par_u 0 keys a redo -> loop_par_u (MAX_ITERS - 1) 1 redo res ->
      mphf_par_u keys (option_map (cons a) res).

  Lemma loop_par_u_eq fuel iter redo res : loop_par_u fuel iter redo res -> res = mphf_loop h sz fuel iter redo.
  Proof.
    induction 1 as [fuel iter|iter k r|fuel iter k r a redo res L _ IH]; cbn [mphf_loop]; auto.
    - destruct fuel; reflexivity.
    - destruct L as [a redo0 redo L P]. rewrite <- (level_par_eq_serial h sz h_lt _ _ _ _ L).
      rewrite IH, (loop_perm _ _ _ _ P). reflexivity.
  Qed.

  Theorem mphf_par_u_eq keys r : mphf_par_u keys r -> r = mphf_new h sz keys.
  Proof.
    intros [a redo res L Lp]. unfold mphf_new. destruct L as [a redo0 redo L P].
    rewrite <- (level_par_eq_serial h sz h_lt _ _ _ _ L).
    rewrite (loop_par_u_eq _ _ _ _ Lp), (loop_perm _ _ _ _ P). reflexivity.
  Qed.

  (* and the serial MPHF itself does not depend on the order in which the keys are given *)
  Theorem mphf_new_perm keys keys' : Permutation keys keys' -> mphf_new h sz keys = mphf_new h sz keys'.
  Proof.
    intros P. unfold mphf_new. rewrite !(level_serial_spec h sz h_lt), !level_spec_shape.
    destruct (level_perm 0 _ _ P) as (Ea & Pr). rewrite Ea, (loop_perm _ _ _ _ Pr). reflexivity.
  Qed.
End Order.
