(* C20 history: the two defects of the exports as they were BEFORE the fix commits, on models of the old
   writers (Algo/Export.v: r_lines_old, links_loop_old), by evaluation on the witnesses of DESIGN section 8;
   and the same witnesses through the repaired writers. *)
From Coq Require Import NArith List Bool Arith String.
From DBG Require Import Spec.Dna Spec.GraphIndex Spec.ExportSpec Algo.GraphModel Algo.Json Algo.Export.
Import ListNotations.
Local Open Scope nat_scope.
Local Open Scope string_scope.

Definition A : N := 0%N. Definition C : N := 1%N. Definition G : N := 2%N. Definition T : N := 3%N.

(* F5: K = 5, unstranded, read CTTACTCAACTAGTTGAGTAAG = w rc(w) folded at ACTAG|T: one node CTTACTCAACTAG whose only
   extension is T on the right (Exts.val = 1 << 7); find_edges(0, Right) = [(0, Right, true)] *)
Definition f5_graph : graph unit := [([C;T;T;A;C;T;C;A;A;C;T;A;G], 128%N, tt)].

Example f5_edges : find_edges unit 5 false f5_graph 0 DRight = Some [(0, DRight, true)].
Proof. vm_compute. reflexivity. Qed.

(* the old writer wrote no L line for it: the adjacency {(0,R),(0,R)} is denoted by no line *)
Theorem gfa_right_hairpin_refuted :
  exists (g : graph unit) u a v b flip es,
    find_edges unit 5 false g u a = Some es /\ In (v, b, flip) es /\
    tab_ok (pal_node unit 5 false g) (etab_of unit 5 false g) /\
    count_denoting (pal_node unit 5 false g) (write_gfa_links_old unit 5 false g) (u, a) (v, b) = 0.
Proof.
  exists f5_graph, 0, DRight, 0, DRight, true, [(0, DRight, true)].
  split; [vm_compute; reflexivity|]. split; [now left|]. split; [|vm_compute; reflexivity].
  assert (Et : forall u a, tab_edges (etab_of unit 5 false f5_graph) u a =
                           match u, a with 0, DRight => [(0, DRight)] | _, _ => [] end).
  { intros [|[|u]] []; vm_compute; try reflexivity; destruct u; reflexivity. }
  assert (Ep : forall u, pal_node unit 5 false f5_graph u = false).
  { intros [|[|u]]; vm_compute; reflexivity. }
  split; [|split].
  - intros u a v b H. rewrite Et in H. destruct u as [|u]; [|destruct a; contradiction]. destruct a; [contradiction|].
    destruct H as [H|[]]. inversion H; subst. exists DRight, DRight. rewrite Et. cbn. auto.
  - intros u a. rewrite Et. destruct u as [|u]; [|destruct a; constructor]. destruct a; repeat constructor. intros [].
  - intros u a b H. now rewrite Ep in H.
Qed.

(* the repaired writer writes it once *)
Example f5_repaired :
  gfa_links (write_gfa unit 5 false f5_graph) = [(0, true, 0, false, 4)] /\
  count_denoting (pal_node unit 5 false f5_graph) (gfa_links (write_gfa unit 5 false f5_graph)) (0, DRight) (0, DRight) = 1.
Proof. vm_compute. split; reflexivity. Qed.

(* F4: K = 5, unstranded, reads TTCGC and GAGCTGAACCAACGTTGGTTCAGCTC (= w rc(w)): node 0 = GAGCTGAACCAACGT with a
   right-side hairpin, node 1 = TTCGC without links.  The last node has no right-going link, an earlier one has. *)
Definition f4_graph : graph unit :=
  [([G;A;G;C;T;G;A;A;C;C;A;A;C;G;T], 128%N, tt); ([T;T;C;G;C], 0%N, tt)].
Definition fmt_unit (_ : unit) : jtree := JNull.

Example f4_old_tokens_tail :
  skipn 53 (to_json_rest_old unit 5 false fmt_unit print f4_graph []) =
  [STR (bs "D"); COLON; STR (bs "R"); RB; COMMA; RK; RB].
Proof. vm_compute. reflexivity. Qed.

Theorem json_dangling_comma_refuted :
  exists (g : graph unit), parse_json (to_json_rest_old unit 5 false fmt_unit print g []) = None.
Proof. exists f4_graph. vm_compute. reflexivity. Qed.

Example f4_repaired :
  parse_json (to_json_rest unit 5 false fmt_unit print f4_graph []) = Some (json_tree unit 5 false fmt_unit f4_graph []).
Proof. vm_compute. reflexivity. Qed.
