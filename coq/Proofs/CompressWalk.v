(* C01 (c), (d): what one static step [knext] means for the oriented windows (DESIGN A.2), and the spelling of a
   sequence grown base by base at either end. *)
From Coq Require Import NArith List Bool Arith Lia Permutation.
From DBG Require Import Proofs.AbstractWalk.
From DBG Require Import Spec.Dna Spec.GraphIndex Spec.Unitig Spec.CompressSpec Packed.ExtsModel Algo.Compress
  Proofs.ListFacts Proofs.DnaFacts Proofs.ExtsProofs Proofs.ExtsWalk Proofs.KmerAlgebra Proofs.CompressBasics
  Proofs.CompressRefine.
Import ListNotations.
Local Open Scope nat_scope.

(* ---- pure list part: spelling ---- *)
Fixpoint linked {A} (R : A -> A -> Prop) (l : list A) : Prop :=
  match l with
  | a :: (b :: _) as r => R a b /\ linked R r
  | _ => True
  end.
Lemma linked_nth {A} (R : A -> A -> Prop) d l : linked R l -> forall i, S i < length l -> R (nth i l d) (nth (S i) l d).
Proof.
  induction l as [|a l IH]; intros H i Hi; [cbn in Hi; lia|]. destruct l as [|b l]; [cbn in Hi; lia|].
  destruct H as [H1 H2]. destruct i as [|i]; [exact H1|]. apply (IH H2 i). cbn in *. lia.
Qed.
Lemma linked_glue {A} (R : A -> A -> Prop) l a r : linked R (l ++ [a]) -> linked R (a :: r) -> linked R (l ++ a :: r).
Proof.
  induction l as [|x l IH]; intros H1 H2; [exact H2|]. destruct l as [|y l].
  - cbn in H1 |- *. destruct H1 as [H1 _]. split; auto.
  - cbn [app] in *. destruct H1 as [H1 H1']. split; [exact H1|]. apply IH; auto.
Qed.
Lemma linked_snoc {A} (R : A -> A -> Prop) l a b : linked R (l ++ [a]) -> R a b -> linked R ((l ++ [a]) ++ [b]).
Proof.
  intros H1 H2. rewrite <- app_assoc. cbn [app]. apply linked_glue; [exact H1|]. cbn. auto.
Qed.

(* successive windows, each the previous one extended by one base on side D0 *)
Fixpoint wchain (D0 : dir) (w0 : dna) (ws : list dna) : Prop :=
  match ws with
  | [] => True
  | w1 :: r => (exists c, w1 = extend w0 c D0) /\ wchain D0 w1 r
  end.

Lemma removelast_firstn_ {A} n (l : list A) : n < length l -> removelast (firstn (S n) l) = firstn n l.
Proof. apply removelast_firstn. Qed.

Lemma spell_left K : 1 <= K -> forall ws w0 s, wchain DLeft w0 ws -> K <= length s -> firstn K s = w0 ->
  kmers K (rev (map (hd 0%N) ws) ++ s) = rev ws ++ kmers K s /\
  length (rev (map (hd 0%N) ws) ++ s) = length ws + length s.
Proof.
  intro HK. induction ws as [|w1 r IH]; intros w0 s Hc Hl Hf; [split; reflexivity|].
  destruct Hc as [[c Hc] Hr]. cbn [extend] in Hc. unfold extend_left in Hc.
  cbn [map rev]. rewrite <- app_assoc. cbn [app].
  assert (Hw1 : firstn K (hd 0%N w1 :: s) = w1).
  { rewrite Hc. cbn [hd]. destruct K as [|k]; [lia|]. cbn [firstn]. f_equal.
    rewrite <- Hf. symmetry. apply removelast_firstn. lia. }
  destruct (IH w1 (hd 0%N w1 :: s) Hr) as [IH1 IH2]; [cbn; lia | exact Hw1 |].
  rewrite IH1, IH2. split; [|cbn [length]; lia].
  rewrite kmers_cons by auto. rewrite Hw1. rewrite <- app_assoc. reflexivity.
Qed.

Lemma spell_right K : 1 <= K -> forall ws w0 s, wchain DRight w0 ws -> K <= length s -> skipn (length s - K) s = w0 ->
  kmers K (s ++ map (fun w => last w 0%N) ws) = kmers K s ++ ws /\
  length (s ++ map (fun w => last w 0%N) ws) = length s + length ws.
Proof.
  intro HK. induction ws as [|w1 r IH]; intros w0 s Hc Hl Hf; [cbn; rewrite !app_nil_r; split; [reflexivity | lia]|].
  destruct Hc as [[c Hc] Hr]. cbn [extend] in Hc. unfold extend_right in Hc.
  cbn [map]. replace (s ++ last w1 0%N :: map (fun w => last w 0%N) r) with ((s ++ [last w1 0%N]) ++ map (fun w => last w 0%N) r)
    by (rewrite <- app_assoc; reflexivity).
  assert (Hlast : last w1 0%N = c) by (rewrite Hc; apply last_last).
  assert (Hw1 : skipn (length s + 1 - K) (s ++ [c]) = w1).
  { rewrite Hc, <- Hf. rewrite skipn_app. replace (length s + 1 - K - length s) with 0 by lia. cbn [skipn]. f_equal.
    replace (length s + 1 - K) with (S (length s - K)) by lia.
    clear. generalize (length s - K). intro n. revert s. induction n as [|n IH]; intro s; [destruct s; reflexivity|].
    destruct s as [|a s]; [reflexivity|]. cbn [skipn]. rewrite <- IH. destruct s; reflexivity. }
  destruct (IH w1 (s ++ [last w1 0%N]) Hr) as [IH1 IH2].
  - rewrite app_length. cbn. lia.
  - rewrite Hlast, app_length. cbn [length]. replace (length s + 1 - K) with (length s + 1 - K) by lia. exact Hw1.
  - rewrite IH1, IH2. rewrite Hlast. split; [|rewrite app_length; cbn [length]; lia].
    rewrite kmers_snoc by auto. rewrite Hw1, <- app_assoc. reflexivity.
Qed.

Lemma canon_flip_cases raw y fl : canon_flip raw = (y, fl) -> (fl = false /\ y = raw) \/ (fl = true /\ y = rc raw).
Proof. unfold canon_flip. destruct (dna_ltb raw (rc raw)); intro H; injection H as <- <-; auto. Qed.

Lemma kcanon_flip_cases stranded raw y fl : kcanon_flip stranded raw = (y, fl) ->
  (fl = false /\ y = raw) \/ (stranded = false /\ fl = true /\ y = rc raw).
Proof.
  unfold kcanon_flip. destruct stranded; [intro H; injection H as <- <-; auto|].
  intro H. apply canon_flip_cases in H. tauto.
Qed.
Lemma kpal_false_ne stranded x : stranded = false -> kpal stranded x = false -> x <> rc x.
Proof. unfold kpal. intros -> H Hx. cbn in H. apply palindrome_iff in Hx. congruence. Qed.

Section Walk.
Variable D : Type.
Variable reduce : D -> D -> D.
Variable join : D -> D -> bool.
Variable K : nat.
Variable stranded : bool.
Hypothesis HK : 1 <= K.
Variable T : table D.
Hypothesis Hok : tbl_ok D K stranded T.
Hypothesis Hsym : exts_sym D stranded T.
Local Notation knext := (knext D join stranded T).
Local Notation kkey := (kkey D T).
Local Notation anext := (anext D join stranded T).
Local Notation owin := (owin D T).
Local Notation ck := (canon_k stranded).


(* everything a static step says *)
Lemma knext_inv i d j d' : knext i d = Some (j, d') ->
  exists ent yent b fl,
    nth_error T i = Some ent /\ nth_error T j = Some yent /\
    kpal stranded (e_key D ent) = false /\ e_num_ext_dir (e_exts D ent) (dirb d) = 1%N /\
    e_get_unique_extension (e_exts D ent) (dirb d) = Some b /\ (b < 4)%N /\
    e_has_ext (e_exts D ent) (dirb d) b = true /\
    kcanon_flip stranded (extend (e_key D ent) b d) = (e_key D yent, fl) /\
    d' = cond_flip (dflip d) fl /\
    join (e_data D ent) (e_data D yent) = true /\
    e_num_ext_dir (e_exts D yent) (dirb d') = 1%N /\ kpal stranded (e_key D yent) = false.
Proof.
  unfold CompressSpec.knext. destruct (nth_error T i) as [ent|] eqn:Hi; [|discriminate].
  destruct (negb (e_num_ext_dir (e_exts D ent) (dirb d) =? 1)%N) eqn:Hnum; [discriminate|].
  destruct (kpal stranded (e_key D ent)) eqn:Hpal; [discriminate|]. cbn [orb].
  apply negb_false_iff, N.eqb_eq in Hnum.
  assert (Hin : In ent T) by (eapply nth_error_In; eauto).
  destruct (unique_ext_spec _ _ (ok_exts _ _ _ _ Hok _ Hin) Hnum) as [b [Hu [Hb [Hhas _]]]]. rewrite Hu.
  destruct (kcanon_flip stranded (extend (e_key D ent) b d)) as [y fl] eqn:Hyf. cbn [fst snd].
  destruct (get_id D T y) as [j0|] eqn:Hid; [|discriminate].
  destruct (get_id_Some D T _ _ Hid) as [yent [Hj Hky]]. rewrite Hj.
  destruct (join (e_data D ent) (e_data D yent)) eqn:Hjoin; [|discriminate].
  destruct (e_num_ext_dir (e_exts D yent) (dirb (cond_flip (dflip d) fl)) =? 1)%N eqn:Hn2; [|discriminate].
  destruct (kpal stranded y) eqn:Hp2; [discriminate|]. cbn. intro H. injection H as <- <-.
  apply N.eqb_eq in Hn2. subst y. exists ent, yent, b, fl. repeat split; auto.
Qed.

(* orientation of a key walked in direction d, seen in the frame of a walk in direction D0, is legitimate *)
Definition ocond (D0 d : dir) (x : dna) : Prop := dir_eqb d D0 = true \/ (stranded = false /\ x <> rc x).

Lemma ck_orient D0 d ent : In ent T -> ocond D0 d (e_key D ent) -> ck (orient D0 d (e_key D ent)) = e_key D ent.
Proof.
  intros Hin Hc. unfold orient, canon_k. destruct Hc as [-> | [Hs Hne]].
  - destruct stranded eqn:Hs; [reflexivity|]. now apply (ok_canon _ _ _ _ Hok).
  - rewrite Hs. destruct (dir_eqb d D0); [now apply (ok_canon _ _ _ _ Hok)|].
    rewrite canon_rc by now apply (ok_wf _ _ _ _ Hok). now apply (ok_canon _ _ _ _ Hok).
Qed.

Lemma oexts_orient D0 d i ent : nth_error T i = Some ent -> ocond D0 d (e_key D ent) ->
  oexts D stranded T (orient D0 d (e_key D ent)) =
  Some (if dir_eqb d D0 then e_exts D ent else e_rc (e_exts D ent)).
Proof.
  intros Hi Hc. assert (Hin : In ent T) by (eapply nth_error_In; eauto).
  unfold oexts. rewrite (ck_orient D0 d ent Hin Hc), (get_entry_key D K stranded T Hok _ _ Hi).
  unfold orient. destruct (dir_eqb d D0) eqn:Hd.
  - now rewrite (proj2 (dna_eqb_eq _ _) eq_refl).
  - destruct Hc as [Hc|[_ Hne]]; [congruence|].
    destruct (dna_eqb (rc (e_key D ent)) (e_key D ent)) eqn:E; [|reflexivity].
    apply dna_eqb_eq in E. symmetry in E. contradiction.
Qed.

Definition stepD (D0 : dir) (w0 w1 : dna) : Prop :=
  match D0 with DRight => step_ok D stranded T w0 w1 | DLeft => step_ok D stranded T w1 w0 end.


(* one step in the frame of a walk in direction D0 (the four cases of DESIGN A.2) *)
Lemma knext_window D0 i d j d' : knext i d = Some (j, d') -> ocond D0 d (kkey i) ->
  let w0 := orient D0 d (kkey i) in
  let w1 := orient D0 (dflip d') (kkey j) in
  (exists c, w1 = extend w0 c D0) /\ stepD D0 w0 w1 /\ ocond D0 (dflip d') (kkey j).
Proof.
  intros Hn Hc.
  destruct (knext_inv _ _ _ _ Hn) as (ent & yent & b & fl & Hi & Hj & Hpx & Hnx & Hu & Hb & Hhas & Hyf & Hd' & Hjoin & Hny & Hpy).
  assert (Hkx : kkey i = e_key D ent) by (unfold CompressRefine.kkey; now rewrite Hi).
  assert (Hky : kkey j = e_key D yent) by (unfold CompressRefine.kkey; now rewrite Hj).
  rewrite Hkx, Hky in *. cbv zeta.
  assert (Hin : In ent T) by (eapply nth_error_In; eauto).
  assert (Hyin : In yent T) by (eapply nth_error_In; eauto).
  set (x := e_key D ent) in *. set (y := e_key D yent) in *.
  assert (Hxne : x <> []) by (apply (key_in_ne D K stranded HK T Hok); auto).
  assert (Hxwf : wf_dna x) by (apply (ok_wf _ _ _ _ Hok); auto).
  assert (Hywf : wf_dna y) by (apply (ok_wf _ _ _ _ Hok); auto).
  assert (Hyne : y <> []) by (apply (key_in_ne D K stranded HK T Hok); auto).
  assert (Hrawwf : wf_dna (extend x b d)) by (apply extend_wf; auto).
  (* the symmetric extension at y *)
  pose proof (Hsym ent d b yent Hin Hb Hhas) as Hs. cbv zeta in Hs. fold x in Hs. rewrite Hyf in Hs. cbn [fst snd] in Hs.
  specialize (Hs (get_entry_key D K stranded T Hok _ _ Hj)). destruct Hs as [Hs|Hs]; [fold y in Hs; congruence|].
  rewrite <- Hd' in Hs.
  pose proof (ok_exts _ _ _ _ Hok _ Hin) as Hex. pose proof (ok_exts _ _ _ _ Hok _ Hyin) as Hey.
  (* orientation condition of the target *)
  assert (Hoc : ocond D0 (dflip d') y).
  { assert (Hst : stranded = true \/ stranded = false) by (destruct stranded; auto). destruct Hst as [Hst|Hst].
    - left. unfold kcanon_flip in Hyf. rewrite Hst in Hyf. injection Hyf as _ <-. cbn [cond_flip] in Hd'.
      rewrite Hd', dflip_dflip. destruct Hc as [Hc|[Hc _]]; [exact Hc | congruence].
    - right. split; [exact Hst|]. apply (kpal_false_ne stranded); auto. }
  assert (Hox : oexts D stranded T (orient D0 d x) = Some (if dir_eqb d D0 then e_exts D ent else e_rc (e_exts D ent)))
    by (eapply oexts_orient; eauto).
  assert (Hoy : oexts D stranded T (orient D0 (dflip d') y) = Some (if dir_eqb (dflip d') D0 then e_exts D yent else e_rc (e_exts D yent)))
    by (eapply oexts_orient; eauto).
  (* the window equation *)
  assert (Hwin : orient D0 (dflip d') y = extend (orient D0 d x) (if dir_eqb d D0 then b else comp b) D0).
  { unfold orient. destruct (kcanon_flip_cases _ _ _ _ Hyf) as [[-> Hy]|[Hst [-> Hy]]]; cbn [cond_flip] in Hd'; subst d'.
    - rewrite dflip_dflip. destruct (dir_cases d D0) as [-> | ->].
      + rewrite dir_eqb_refl. exact Hy.
      + rewrite dir_eqb_flip. rewrite Hy, rc_extend, dflip_dflip by auto. reflexivity.
    - rewrite dflip_dflip. destruct (dir_cases d D0) as [-> | ->].
      + rewrite dir_eqb_flip, dir_eqb_refl. rewrite Hy. now apply ListFacts.rc_involutive.
      + rewrite dflip_dflip, dir_eqb_refl, dir_eqb_flip. rewrite Hy, rc_extend, dflip_dflip by auto. reflexivity. }
  split; [eexists; exact Hwin|]. split; [|exact Hoc].
  (* the two recorded extensions *)
  assert (HA : e_has_ext (if dir_eqb d D0 then e_exts D ent else e_rc (e_exts D ent)) (dirb D0)
                 (outer (orient D0 (dflip d') y) D0) = true).
  { rewrite Hwin, outer_extend. destruct (dir_cases d D0) as [-> | ->].
    - now rewrite dir_eqb_refl.
    - rewrite dir_eqb_flip. rewrite <- (negb_involutive (dirb D0)), <- dirb_dflip. rewrite has_ext_rc; auto. }
  assert (HB : e_has_ext (if dir_eqb (dflip d') D0 then e_exts D yent else e_rc (e_exts D yent)) (dirb (dflip D0))
                 (outer (orient D0 d x) (dflip D0)) = true).
  { unfold orient. destruct (kcanon_flip_cases _ _ _ _ Hyf) as [[-> Hy]|[Hst [-> Hy]]]; cbn [cond_flip] in Hd'; subst d'.
    - rewrite dflip_dflip in *. destruct (dir_cases d D0) as [-> | ->].
      + rewrite dir_eqb_refl. exact Hs.
      + rewrite dir_eqb_flip. rewrite dflip_dflip in *. rewrite outer_rc by auto. rewrite dflip_dflip.
        rewrite <- (negb_involutive (dirb (dflip D0))), <- dirb_dflip, dflip_dflip. rewrite has_ext_rc; auto.
        apply outer_lt4 with (K := K) (stranded := stranded) (T := T); auto.
    - rewrite !dflip_dflip in *. destruct (dir_cases d D0) as [-> | ->].
      + rewrite dir_eqb_flip, dir_eqb_refl.
        rewrite <- (comp_involutive (outer x (dflip D0))) by (apply outer_lt4 with (K := K) (stranded := stranded) (T := T); auto).
        rewrite dirb_dflip. rewrite has_ext_rc; auto. apply comp_lt4.
      + rewrite dflip_dflip in *. rewrite dir_eqb_refl, dir_eqb_flip. rewrite outer_rc by auto. rewrite dflip_dflip. exact Hs. }
  unfold stepD, step_ok. destruct D0; cbn [dirb dflip outer] in HA, HB.
  - exists (if dir_eqb (dflip d') DLeft then e_exts D yent else e_rc (e_exts D yent)),
           (if dir_eqb d DLeft then e_exts D ent else e_rc (e_exts D ent)). auto.
  - exists (if dir_eqb d DRight then e_exts D ent else e_rc (e_exts D ent)),
           (if dir_eqb (dflip d') DRight then e_exts D yent else e_rc (e_exts D yent)). auto.
Qed.

Fixpoint wsteps (D0 : dir) (w0 : dna) (ws : list dna) : Prop :=
  match ws with [] => True | w1 :: r => stepD D0 w0 w1 /\ wsteps D0 w1 r end.

Lemma anext_knext i s j t : anext i s = Some (j, t) -> knext i (ds s) = Some (j, ds t).
Proof.
  unfold CompressRefine.anext. destruct (knext i (ds s)) as [[j0 d']|]; [|discriminate].
  intro H. injection H as <- <-. now rewrite ds_sd.
Qed.

Lemma chain_windows D0 i s p : chain nat anext i s p -> ocond D0 (ds s) (kkey i) ->
  wchain D0 (orient D0 (ds s) (kkey i)) (map (owin D0) p) /\
  wsteps D0 (orient D0 (ds s) (kkey i)) (map (owin D0) p) /\
  Forall (fun wt => ocond D0 (dflip (ds (snd wt))) (kkey (fst wt))) p.
Proof.
  induction 1 as [v s | v s w t p Hn Hc IH]; intro Ho; [cbn; auto|].
  apply anext_knext in Hn. destruct (knext_window D0 _ _ _ _ Hn Ho) as [Hw [Hs Ho']].
  rewrite ds_flip in IH. destruct (IH Ho') as [I1 [I2 I3]].
  cbn [map wchain wsteps]. unfold CompressRefine.owin at 1 3. cbn [fst snd]. repeat split; auto.
Qed.

Lemma chain_valid i s p : chain nat anext i s p -> valid_path D T p.
Proof.
  induction 1 as [v s | v s w t p Hn Hc IH]; intros wt Hin; [destruct Hin|].
  destruct Hin as [<-|Hin]; [|now apply IH]. cbn [fst]. eapply anext_valid; eauto.
Qed.

Lemma wsteps_linked_R w0 ws : wsteps DRight w0 ws -> linked (step_ok D stranded T) (w0 :: ws).
Proof. revert w0. induction ws as [|w1 r IH]; intros w0 H; [exact I|]. destruct H as [H1 H2]. split; auto. Qed.
Lemma wsteps_linked_L ws : forall w0, wsteps DLeft w0 ws -> linked (step_ok D stranded T) (rev ws ++ [w0]).
Proof.
  induction ws as [|w1 r IH]; intros w0 H; [exact I|]. destruct H as [H1 H2]. cbn [rev].
  apply linked_snoc; auto.
Qed.

Definition node_wins (lp : list (nat * side)) (i : nat) (rp : list (nat * side)) : list dna :=
  rev (map (owin DLeft) lp) ++ kkey i :: map (owin DRight) rp.

Lemma orient_same D0 x : orient D0 D0 x = x. Proof. unfold orient. now rewrite dir_eqb_refl. Qed.

(* C01 (c), (d) for one node *)
Lemma node_spelling lp i rp ent : nth_error T i = Some ent ->
  chain nat anext i L lp -> chain nat anext i R rp ->
  kmers K (node_seq D T lp i rp) = node_wins lp i rp /\
  length (node_seq D T lp i rp) = length lp + K + length rp /\
  linked (step_ok D stranded T) (node_wins lp i rp) /\
  map ck (node_wins lp i rp) = map kkey (node_verts nat lp i rp).
Proof.
  intros Hi HcL HcR.
  assert (Hk : kkey i = e_key D ent) by (unfold CompressRefine.kkey; now rewrite Hi).
  assert (Hin : In ent T) by (eapply nth_error_In; eauto).
  assert (Hlen : length (kkey i) = K) by (rewrite Hk; now apply (ok_len _ _ _ _ Hok)).
  assert (HoL : ocond DLeft (ds L) (kkey i)) by (left; reflexivity).
  assert (HoR : ocond DRight (ds R) (kkey i)) by (left; reflexivity).
  destruct (chain_windows DLeft i L lp HcL HoL) as [WL [SL OL]].
  destruct (chain_windows DRight i R rp HcR HoR) as [WR [SR OR]].
  cbn [ds] in *. rewrite orient_same in *.
  unfold node_seq, node_wins.
  set (wl := map (owin DLeft) lp) in *. set (wr := map (owin DRight) rp) in *.
  replace (map (fun wt => hd 0%N (owin DLeft wt)) lp) with (map (hd 0%N) wl) by (unfold wl; now rewrite map_map).
  replace (map (fun wt => last (owin DRight wt) 0%N) rp) with (map (fun w => last w 0%N) wr) by (unfold wr; now rewrite map_map).
  destruct (spell_right K HK wr (kkey i) (kkey i) WR) as [R1 R2]; [lia | rewrite Hlen, Nat.sub_diag; reflexivity|].
  destruct (spell_left K HK wl (kkey i) (kkey i ++ map (fun w => last w 0%N) wr) WL) as [L1 L2];
    [rewrite R2; lia | apply firstn_app_exact; now rewrite Hlen |].
  split; [|split; [|split]].
  - rewrite L1, R1, (kmers_exact K (kkey i) HK Hlen). reflexivity.
  - rewrite L2, R2. unfold wl, wr. rewrite !map_length. lia.
  - apply linked_glue; [now apply wsteps_linked_L | now apply wsteps_linked_R].
  - unfold node_verts, verts. rewrite !map_app, !map_rev. cbn [map]. f_equal; [f_equal|f_equal].
    + unfold wl. rewrite !map_map. apply map_ext_in. intros [w t] Hwt.
      destruct (chain_valid _ _ _ HcL _ Hwt) as [e He]. cbn [fst] in He.
      rewrite Forall_forall in OL. specialize (OL _ Hwt). unfold CompressRefine.owin. cbn [fst snd] in *.
      assert (Hkw : kkey w = e_key D e) by (unfold CompressRefine.kkey; now rewrite He).
      rewrite Hkw in *. apply ck_orient; eauto using nth_error_In.
    + rewrite Hk. rewrite <- (orient_same DLeft (e_key D ent)) at 1. apply ck_orient; auto. now left.
    + unfold wr. rewrite !map_map. apply map_ext_in. intros [w t] Hwt.
      destruct (chain_valid _ _ _ HcR _ Hwt) as [e He]. cbn [fst] in He.
      rewrite Forall_forall in OR. specialize (OR _ Hwt). unfold CompressRefine.owin. cbn [fst snd] in *.
      assert (Hkw : kkey w = e_key D e) by (unfold CompressRefine.kkey; now rewrite He).
      rewrite Hkw in *. apply ck_orient; eauto using nth_error_In.
Qed.
(* ---- terminal extensions (C03 terminal_exts; clause of chk_c01) ---- *)
Lemma last_cons_default {A} (l : list A) : forall a d, last (a :: l) d = last l a.
Proof.
  induction l as [|b l IH]; intros a d; [reflexivity|].
  change (last (a :: b :: l) d) with (last (b :: l) d). now rewrite (IH b d), (IH b a).
Qed.

Lemma last_out_window D0 p : forall i s,
  last (map (owin D0) p) (orient D0 (ds s) (kkey i)) =
  orient D0 (ds (snd (last_out nat i s p))) (kkey (fst (last_out nat i s p))).
Proof.
  induction p as [|[w t] p IH]; intros i s; [reflexivity|].
  cbn [map last_out]. rewrite last_cons_default. unfold CompressRefine.owin at 2. cbn [fst snd].
  rewrite <- ds_flip. apply IH.
Qed.

Lemma last_out_ok D0 i s p ent : chain nat anext i s p -> nth_error T i = Some ent -> ocond D0 (ds s) (kkey i) ->
  (exists e, nth_error T (fst (last_out nat i s p)) = Some e) /\
  ocond D0 (ds (snd (last_out nat i s p))) (kkey (fst (last_out nat i s p))).
Proof.
  intros Hc. revert ent. induction Hc as [v s | v s w t p Hn Hc IH]; intros ent Hi Ho; [cbn; eauto|].
  cbn [last_out]. pose proof (anext_knext _ _ _ _ Hn) as Hk.
  destruct (knext_window D0 _ _ _ _ Hk Ho) as (_ & _ & Ho').
  destruct (anext_valid D join stranded T _ _ _ _ Hn) as [e He].
  apply (IH e He). now rewrite ds_flip.
Qed.

Lemma end_exts_spec D0 i p ent : chain nat anext i (sd D0) p -> nth_error T i = Some ent ->
  exists e, oexts D stranded T (last (map (owin D0) p) (kkey i)) = Some e /\
            end_exts D T D0 i p = e_single_dir e (dirb D0).
Proof.
  intros Hc Hi.
  assert (Ho : ocond D0 (ds (sd D0)) (kkey i)) by (left; rewrite ds_sd; apply dir_eqb_refl).
  destruct (last_out_ok D0 i (sd D0) p ent Hc Hi Ho) as [[e He] Ho'].
  pose proof (last_out_window D0 p i (sd D0)) as Hw. rewrite ds_sd, orient_same in Hw. rewrite Hw.
  set (lo := last_out nat i (sd D0) p) in *.
  assert (Hk : kkey (fst lo) = e_key D e) by (unfold CompressRefine.kkey; now rewrite He).
  rewrite Hk in *. rewrite (oexts_orient D0 _ _ e He Ho'). eexists. split; [reflexivity|].
  unfold end_exts. fold lo. unfold term_exts, kexts. rewrite He.
  assert (Hex : (e_exts D e < 256)%N) by (apply (ok_exts _ _ _ _ Hok); eapply nth_error_In; eauto).
  destruct (dir_cases (ds (snd lo)) D0) as [E|E]; rewrite E.
  - now rewrite dir_eqb_refl.
  - rewrite dir_eqb_flip. rewrite single_dir_rc by exact Hex. now rewrite dirb_dflip.
Qed.

Lemma hd_rev_app {A} (l : list A) x r d : hd d (rev l ++ x :: r) = last l x.
Proof.
  induction l as [|a l IH] using rev_ind; [reflexivity|]. rewrite rev_app_distr. cbn [rev app hd].
  now rewrite last_last.
Qed.
Lemma last_app_cons {A} (l : list A) x r : forall d, last (l ++ x :: r) d = last r x.
Proof.
  induction l as [|a l IH]; intro d; cbn [app]; [apply last_cons_default|].
  rewrite last_cons_default. apply IH.
Qed.
Lemma first_kmer_hd K0 s : (1 <= K0)%nat -> (K0 <= length s)%nat -> first_kmer K0 s = hd [] (kmers K0 s).
Proof.
  intros H1 H2. unfold first_kmer, kmers. replace (length s + 1 - K0)%nat with (S (length s - K0)) by lia. reflexivity.
Qed.
Lemma last_kmer_last K0 s : (1 <= K0)%nat -> (K0 <= length s)%nat -> last_kmer K0 s = last (kmers K0 s) [].
Proof.
  intros H1 H2. unfold last_kmer, kmers. replace (length s + 1 - K0)%nat with (S (length s - K0)) by lia.
  rewrite seq_S, map_app. cbn [map Nat.add]. now rewrite last_last.
Qed.

Lemma node_terminal lp i rp ent : nth_error T i = Some ent ->
  chain nat anext i L lp -> chain nat anext i R rp ->
  exists el er,
    oexts D stranded T (first_kmer K (node_seq D T lp i rp)) = Some el /\
    oexts D stranded T (last_kmer K (node_seq D T lp i rp)) = Some er /\
    node_exts D T lp i rp = e_from_single_dirs (e_single_dir el false) (e_single_dir er true).
Proof.
  intros Hi HcL HcR.
  destruct (node_spelling lp i rp ent Hi HcL HcR) as (S1 & S2 & _ & _).
  destruct (end_exts_spec DLeft i lp ent HcL Hi) as [el [Hel Hl]].
  destruct (end_exts_spec DRight i rp ent HcR Hi) as [er [Her Hr]].
  exists el, er. rewrite first_kmer_hd, last_kmer_last by lia. rewrite S1. unfold node_wins.
  rewrite hd_rev_app, last_app_cons. repeat split; auto.
  unfold node_exts. now rewrite Hl, Hr.
Qed.
End Walk.
