(* C16: convert_bases = (table map, all-valid flag) for every 32-byte vector.
   The exhaustive lane-pair sweep (AsciiConvertSweep.v) is lifted through per-intrinsic "byte i of the
   result" lemmas. *)
From Coq Require Import NArith List Bool Arith Lia.
From DBG Require Import Gen.SourceConsts Spec.Dna Packed.Avx2Model Packed.AsciiModel Proofs.AsciiConvertSweep.
Import ListNotations.
Open Scope N_scope.

(* ------------------------------------------------------------------ list facts *)
Lemma nth_map_seq0 {A} (f : nat -> A) n i d : (i < n)%nat -> nth i (map f (seq 0 n)) d = f i.
Proof.
  intro H. rewrite (nth_indep _ d (f 0%nat)) by (rewrite map_length, seq_length; exact H).
  rewrite map_nth, seq_nth by exact H. reflexivity.
Qed.
Lemma nth_map_in {A B} (f : A -> B) l d d' i : (i < length l)%nat -> nth i (map f l) d = f (nth i l d').
Proof. revert i; induction l; simpl; intros [|i] H; try lia; auto. apply IHl. lia. Qed.
Lemma forallb_map_ {A B} (f : B -> bool) (g : A -> B) l : forallb f (map g l) = forallb (fun x => f (g x)) l.
Proof. induction l; simpl; congruence. Qed.
Lemma forallb_ext_ {A} (f g : A -> bool) l : (forall x, f x = g x) -> forallb f l = forallb g l.
Proof. intro H. induction l; simpl; congruence. Qed.
Lemma map2_length {A} (f : A -> A -> A) a b : length (map2 f a b) = Nat.min (length a) (length b).
Proof. unfold map2. now rewrite map_length, combine_length. Qed.
Lemma nth_map2 {A} (f : A -> A -> A) a b i d : (i < length a)%nat -> (i < length b)%nat ->
  nth i (map2 f a b) d = f (nth i a d) (nth i b d).
Proof.
  unfold map2. revert b i. induction a as [|x a IH]; intros [|y b] [|i] Ha Hb; simpl in *; try lia; auto.
  apply IH; lia.
Qed.
Lemma lt256_in c : c < 256 -> In c bytes256.
Proof. intro H. unfold bytes256. apply in_map_iff. exists (N.to_nat c). split; [apply N2Nat.id | apply in_seq; lia]. Qed.
Lemma even_half i : Nat.even i = true -> (2 * (i / 2) = i)%nat.
Proof. intro H. apply Nat.even_spec in H as [m ->]. replace (2 * m)%nat with (m * 2)%nat by lia. rewrite Nat.div_mul by lia. lia. Qed.
Lemma odd_half i : Nat.even i = false -> (2 * (i / 2) + 1 = i)%nat.
Proof.
  intro H. assert (Ho : Nat.odd i = true) by (unfold Nat.odd; now rewrite H).
  apply Nat.odd_spec in Ho as [m ->]. replace (2 * m + 1)%nat with (1 + m * 2)%nat by lia.
  rewrite Nat.div_add by lia. cbn. lia. Qed.

(* ------------------------------------------------------------------ byte i of each intrinsic *)
Lemma shuffle_length a b : length (shuffle_epi8 a b) = 32%nat.
Proof. unfold shuffle_epi8, shuffle_epi8_gen. now rewrite map_length, seq_length. Qed.
Lemma shuffle_nth a b i : (i < 32)%nat -> nth i (shuffle_epi8 a b) 0 = shuf1 a (i / 16) (nth i b 0).
Proof. intro H. unfold shuffle_epi8, shuffle_epi8_gen. now rewrite nth_map_seq0. Qed.
Lemma of_words16_length f : length (of_words16 f) = 32%nat.
Proof. unfold of_words16. now rewrite map_length, seq_length. Qed.
Lemma srli_nth a k i : (i < 32)%nat ->
  nth i (srli_epi16 a k) 0 =
  let sr := if Nat.ltb 15 k then 0 else N.shiftr (word16 a (i / 2)) (N.of_nat k) in
  if Nat.even i then lo8 sr else hi8 sr.
Proof. intro H. unfold srli_epi16, of_words16. now rewrite nth_map_seq0. Qed.
Lemma lo_mask_length : length lo_mask = 32%nat. Proof. reflexivity. Qed.
Lemma setzero_length : length setzero_si256 = 32%nat. Proof. reflexivity. Qed.

(* ------------------------------------------------------------------ byte i of convert_bases_vec *)
Definition conv_mask (input : vec) : vec :=
  let hi := and_si256 (srli_epi16 input avx_srli_hi) lo_mask in
  cmpeq_epi8 (and_si256 (shuffle_epi8 lo_lut input) (shuffle_epi8 hi_lut hi)) setzero_si256.

Lemma convert_vec_unfold input :
  convert_bases_vec input =
  (andnot_si256 (conv_mask input) (shuffle_epi8 lut input),
   negb (testc_si256 setzero_si256 (conv_mask input) =? 0)).
Proof. reflexivity. Qed.

Lemma conv_mask_length v : length (conv_mask v) = 32%nat.
Proof.
  unfold conv_mask, cmpeq_epi8, and_si256. rewrite !map2_length, !shuffle_length, setzero_length. reflexivity. Qed.

Lemma conv_mask_nth v i : (i < 32)%nat ->
  nth i (conv_mask v) 0 = snd (conv_byte i (nth i v 0) (word16 v (i / 2))).
Proof.
  intro H. unfold conv_mask, cmpeq_epi8, and_si256.
  rewrite nth_map2; [| rewrite map2_length, !shuffle_length; exact H | rewrite setzero_length; exact H].
  rewrite nth_map2; [| rewrite shuffle_length; exact H | rewrite shuffle_length; exact H].
  rewrite !shuffle_nth by exact H.
  rewrite nth_map2; [| unfold srli_epi16; rewrite of_words16_length; exact H | rewrite lo_mask_length; exact H].
  rewrite srli_nth by exact H. reflexivity.
Qed.

Lemma conv_res_nth v i : (i < 32)%nat ->
  nth i (fst (convert_bases_vec v)) 0 = fst (conv_byte i (nth i v 0) (word16 v (i / 2))).
Proof.
  intro H. rewrite convert_vec_unfold. cbn [fst]. unfold andnot_si256.
  rewrite nth_map2; [| rewrite conv_mask_length; exact H | rewrite shuffle_length; exact H].
  rewrite conv_mask_nth, shuffle_nth by exact H. reflexivity.
Qed.

(* ------------------------------------------------------------------ the lane-pair theorem *)
(* all 65 536 values (lo, hi) of a 16-bit lane, at every position of the vector *)
Theorem convert_lane_pair i lo hi : (i < 32)%nat -> lo < 256 -> hi < 256 ->
  conv_byte i (if Nat.even i then lo else hi) (lane_word lo hi) = conv_expected (if Nat.even i then lo else hi).
Proof.
  intros Hi Hlo Hhi.
  pose proof positions_sweep as P. rewrite forallb_forall in P. specialize (P i (proj2 (in_seq _ _ _) (conj (Nat.le_0_l _) Hi))).
  apply andb_prop in P as [P P3]. apply andb_prop in P as [P1 P2].
  apply N.eqb_eq in P1, P2. apply Nat.ltb_lt in P3.
  unfold conv_byte. rewrite P1, P2.
  pose proof convert_lane_pair_sweep as S. rewrite forallb_forall in S.
  assert (Hl : In (i / 16)%nat [0; 1]%nat) by (destruct (i / 16)%nat as [|[|?]]; [left | right; left | lia]; reflexivity).
  specialize (S _ Hl). rewrite forallb_forall in S.
  assert (Hp : In (Nat.even i) [true; false]) by (destruct (Nat.even i); [left | right; left]; reflexivity).
  specialize (S _ Hp). rewrite forallb_forall in S. specialize (S lo (lt256_in _ Hlo)).
  rewrite forallb_forall in S. specialize (S hi (lt256_in _ Hhi)).
  unfold lane_pair_ok, pair_eqb in S. apply andb_prop in S as [S1 S2]. apply N.eqb_eq in S1, S2.
  apply injective_projections; assumption.
Qed.

Lemma conv_byte_vec v i : (i < 32)%nat -> length v = 32%nat -> Forall (fun b => b < 256) v ->
  conv_byte i (nth i v 0) (word16 v (i / 2)) = conv_expected (nth i v 0).
Proof.
  intros Hi Hl Hv.
  assert (Hb : forall j, nth j v 0 < 256).
  { intro j. destruct (Nat.ltb j (length v)) eqn:E.
    - apply Nat.ltb_lt in E. rewrite Forall_forall in Hv. apply Hv. now apply nth_In.
    - apply Nat.ltb_ge in E. rewrite nth_overflow by exact E. reflexivity. }
  pose proof (convert_lane_pair i (nth (2 * (i / 2)) v 0) (nth (2 * (i / 2) + 1) v 0) Hi (Hb _) (Hb _)) as C.
  unfold lane_word in C. fold (word16 v (i / 2)) in C.
  destruct (Nat.even i) eqn:E.
  - rewrite (even_half i E) in C. exact C.
  - rewrite (odd_half i E) in C. exact C.
Qed.

(* ------------------------------------------------------------------ the vector theorem *)
Lemma forallb_combine_repeat {A B} (P : A * B -> bool) (a : A) l : forall n, length l = n ->
  forallb P (combine (repeat a n) l) = forallb (fun y => P (a, y)) l.
Proof. induction l as [|y l IH]; intros [|n] H; simpl in *; try discriminate; auto. rewrite (IH n) by lia. reflexivity. Qed.

Theorem convert_bases_spec v : length v = 32%nat -> Forall (fun b => b < 256) v ->
  convert_bases v = Some (map ascii_base v, forallb ascii_valid v).
Proof.
  intros Hl Hv. unfold convert_bases, loadu_si256. rewrite Hl. cbn [Nat.eqb].
  assert (Hm : conv_mask v = map (fun c => if ascii_valid c then 0 else 255) v).
  { apply (nth_ext _ _ 0 0); [now rewrite conv_mask_length, map_length |].
    intros i Hi. rewrite conv_mask_length in Hi. rewrite conv_mask_nth, conv_byte_vec by assumption.
    cbn [snd conv_expected]. symmetry.
    apply (nth_map_in (fun c => if ascii_valid c then 0 else 255) v 0 0 i). lia. }
  f_equal. apply injective_projections.
  - cbn [fst]. apply (nth_ext _ _ 0 0).
    + rewrite convert_vec_unfold. cbn [fst]. unfold andnot_si256.
      now rewrite map2_length, conv_mask_length, shuffle_length, map_length.
    + intros i Hi. assert (Hi' : (i < 32)%nat).
      { rewrite convert_vec_unfold in Hi. cbn [fst] in Hi. unfold andnot_si256 in Hi.
        rewrite map2_length, conv_mask_length, shuffle_length in Hi. exact Hi. }
      rewrite conv_res_nth, conv_byte_vec by assumption. cbn [fst conv_expected].
      symmetry. apply (nth_map_in ascii_base v 0 0 i). lia.
  - rewrite convert_vec_unfold. cbn [snd]. rewrite Hm. unfold testc_si256, setzero_si256.
    rewrite (forallb_combine_repeat _ 0 _ 32%nat) by now rewrite map_length.
    rewrite forallb_map_. cbn [fst snd].
    rewrite (forallb_ext_ _ ascii_valid); [now destruct (forallb ascii_valid v) |].
    intro c. now destruct (ascii_valid c).
Qed.

(* the byte tables *)
Lemma tables_ok c : c < 256 ->
  base_to_bits c = ascii_base c /\
  dna_only_base_to_bits c = (if ascii_valid c then Some (ascii_base c) else None) /\
  nth (N.to_nat c) tbl_hashn_arms 4 = (if ascii_valid c then ascii_base c else 4).
Proof.
  intro H. pose proof tables_sweep as T. rewrite forallb_forall in T. specialize (T c (lt256_in _ H)).
  apply andb_prop in T as [T T4]. apply andb_prop in T as [T T3]. apply andb_prop in T as [T1 T2].
  apply N.eqb_eq in T1. split; [exact T1|]. split.
  - destruct (dna_only_base_to_bits c) as [b|]; destruct (ascii_valid c); try discriminate; try reflexivity.
    cbn in T2. apply N.eqb_eq in T2. now subst.
  - destruct (ascii_valid c); now apply N.eqb_eq in T4.
Qed.
