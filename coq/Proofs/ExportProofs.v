(* C20: the GFA theorems for the graph model (write_gfa / to_gfa_with_tags on top of find_edges), obtained from
   the edge-table theorems of ExportGfaProofs.v. *)
From Coq Require Import NArith List Bool Arith Lia.
From DBG Require Import Spec.Dna Spec.GraphIndex Spec.ExportSpec Algo.GraphModel Algo.Json Algo.Export Proofs.ExportGfaProofs.
Import ListNotations.
Local Open Scope nat_scope.

Section G.
Variable D : Type.
Variable K : nat.
Variable stranded : bool.
Notation graph := (graph D).
Notation gnode := (gnode D).
Notation edges := (edges D K stranded).
Notation etab_of := (etab_of D K stranded).
Notation node_links := (node_links D K stranded).
Notation write_gfa := (write_gfa D K stranded).
Notation to_gfa_with_tags := (to_gfa_with_tags D K stranded).
Notation pal_node := (pal_node D K stranded).

Lemma edges_out_of_range (g : graph) i d : List.length g <= i -> edges g i d = [].
Proof.
  intros H. unfold Export.edges, find_edges. now rewrite (proj2 (nth_error_None g i) H).
Qed.

Lemma edges_find (g : graph) i d : i < List.length g -> find_edges D K stranded g i d = Some (edges g i d).
Proof.
  intros H. unfold Export.edges, find_edges. destruct (nth_error g i) eqn:E; [reflexivity|].
  apply nth_error_None in E. lia.
Qed.

Lemma find_edges_edges (g : graph) i d es : find_edges D K stranded g i d = Some es -> edges g i d = es.
Proof. unfold Export.edges. now intros ->. Qed.

Lemma etab_length (g : graph) : List.length (etab_of g) = List.length g.
Proof. unfold Export.etab_of. now rewrite map_length, seq_length. Qed.

Lemma tab_edges_etab (g : graph) i d : tab_edges (etab_of g) i d = map (target) (edges g i d).
Proof.
  unfold tab_edges, Export.etab_of.
  destruct (Nat.lt_ge_cases i (List.length g)) as [H|H].
  - rewrite nth_error_map. rewrite (nth_error_nth' _ 0) by (now rewrite seq_length). rewrite seq_nth by exact H.
    cbn [option_map plus]. now destruct d.
  - rewrite (proj2 (nth_error_None _ i)) by (now rewrite map_length, seq_length).
    now rewrite edges_out_of_range.
Qed.

Lemma indexed_fst {A} (l : list A) : map fst (indexed l) = seq 0 (List.length l).
Proof.
  unfold indexed. generalize 0. induction l as [|x l IH]; intros k; [reflexivity|].
  cbn [List.length seq combine map fst]. now rewrite IH.
Qed.

Lemma gfa_links_app a b : gfa_links (a ++ b) = gfa_links a ++ gfa_links b.
Proof. apply flat_map_app. Qed.
Lemma gfa_links_GL l : gfa_links (map GL l) = l.
Proof. induction l as [|x l IH]; [reflexivity|]. cbn [map]. unfold gfa_links in *. cbn [flat_map app]. now rewrite IH. Qed.
Lemma gfa_segments_GL l : gfa_segments (map GL l) = [].
Proof. induction l as [|x l IH]; [reflexivity|]. exact IH. Qed.

Lemma gfa_links_nodes (g : graph) tagf (l : list (nat * gnode)) :
  gfa_links (flat_map (node_to_gfa D K stranded g tagf) l) = flat_map (node_links g) (map fst l).
Proof.
  induction l as [|p l IH]; [reflexivity|]. cbn [flat_map map]. rewrite gfa_links_app, IH. f_equal.
  unfold node_to_gfa. change (gfa_links (?x :: ?r)) with (gfa_links [x] ++ gfa_links r).
  cbn [gfa_links flat_map app]. apply gfa_links_GL.
Qed.

Lemma links_of_etab (g : graph) : links_of_tab K (etab_of g) = flat_map (node_links g) (seq 0 (List.length g)).
Proof.
  unfold links_of_tab. rewrite etab_length. apply flat_map_ext. intros i.
  unfold Export.node_links. now rewrite !tab_edges_etab.
Qed.

Theorem write_gfa_links (g : graph) : gfa_links (write_gfa g) = links_of_tab K (etab_of g).
Proof.
  unfold Export.write_gfa. change (gfa_links (GH :: ?r)) with (gfa_links r).
  now rewrite gfa_links_nodes, indexed_fst, links_of_etab.
Qed.

Theorem tags_gfa_links (g : graph) f : gfa_links (to_gfa_with_tags g f) = gfa_links (write_gfa g).
Proof.
  unfold Export.to_gfa_with_tags, Export.write_gfa. change (gfa_links (GH :: ?r)) with (gfa_links r).
  now rewrite !gfa_links_nodes.
Qed.

(* one S record per node, in order, carrying the node's sequence (and the caller's tags) *)
Lemma gfa_segments_nodes (g : graph) tagf (l : list (nat * gnode)) :
  gfa_segments (flat_map (node_to_gfa D K stranded g tagf) l) =
  map (fun p => (fst p, n_seq D (snd p), match tagf with Some f => Some (f (fst p) (snd p)) | None => None end)) l.
Proof.
  induction l as [|p l IH]; [reflexivity|]. cbn [flat_map map]. unfold gfa_segments in *. rewrite flat_map_app, IH.
  unfold node_to_gfa at 1. cbn [flat_map app]. fold (gfa_segments (map GL (node_links g (fst p)))).
  now rewrite gfa_segments_GL.
Qed.

Theorem gfa_nodes (g : graph) :
  gfa_segments (write_gfa g) = map (fun p => (fst p, n_seq D (snd p), None)) (indexed g) /\
  (forall f, gfa_segments (to_gfa_with_tags g f) = map (fun p => (fst p, n_seq D (snd p), Some (f (fst p) (snd p)))) (indexed g)) /\
  (exists r, write_gfa g = GH :: r /\ ~ In GH r).
Proof.
  split; [|split].
  - unfold Export.write_gfa. change (gfa_segments (GH :: ?r)) with (gfa_segments r). apply gfa_segments_nodes.
  - intros f. unfold Export.to_gfa_with_tags. change (gfa_segments (GH :: ?r)) with (gfa_segments r).
    apply (gfa_segments_nodes g (Some f)).
  - eexists. split; [reflexivity|]. intros H. apply in_flat_map in H as (p & _ & H).
    unfold node_to_gfa in H. destruct H as [H|H]; [discriminate|]. apply in_map_iff in H as (? & ? & _). discriminate.
Qed.

(* every L line is a link the graph reports, with the +/- convention and a K-1 overlap *)
Theorem gfa_links_sound (g : graph) u o1 v o2 ov :
  In (u, o1, v, o2, ov) (gfa_links (write_gfa g)) ->
  ov = K - 1 /\ exists es flip, find_edges D K stranded g u (out_side o1) = Some es /\ In (v, in_side o2, flip) es.
Proof.
  rewrite write_gfa_links. intros H. apply in_links in H as (-> & H & _). split; [reflexivity|].
  pose proof (tab_edges_in_range _ _ _ _ H) as Hr. rewrite etab_length in Hr.
  rewrite tab_edges_etab in H. apply in_map_iff in H as ([[t d] f] & E & Hin). cbn in E. inversion E; subst.
  exists (edges g u (out_side o1)), f. split; [now apply edges_find|exact Hin].
Qed.

(* the hypothesis of completeness, as a predicate on the edge lists the graph reports *)
Definition graph_edges_ok (g : graph) : Prop := tab_ok (pal_node g) (etab_of g).

Theorem gfa_links_complete_once (g : graph) : graph_edges_ok g ->
  forall u a es v b flip, find_edges D K stranded g u a = Some es -> In (v, b, flip) es ->
  once_or_twice (pal_node g) (gfa_links (write_gfa g)) (u, a) (v, b).
Proof.
  intros (Hs & Hd & Hp) u a es v b flip Hf Hin. rewrite write_gfa_links.
  apply (complete_once_links K (pal_node g) (etab_of g) Hs Hd Hp).
  rewrite tab_edges_etab. apply find_edges_edges in Hf. subst es.
  change (v, b) with (target (v, b, flip)). now apply in_map.
Qed.
End G.
