(* C01, payload clause: the seed of every node is the node's FIRST k-mer in table order.
   compress_kmers visits the slots 0, 1, ... in order and seeds a node at the first slot still available; every k-mer of
   that node was available at that moment, and every smaller slot had been used.  Hence, with C01_node_facts (payload =
   fold_left reduce over the path entries starting from the SEED's payload), the first operand of the fold is the payload
   of the node's k-mer with the smallest slot - what [chk_payload_order] checks on implementation outputs. *)
From Coq Require Import List Arith Lia.
From DBG Require Import Proofs.AbstractWalk Proofs.CompressProofs.
Import ListNotations.

Section SeedMin.
Variable next : nat -> side -> option (nat * side).
Local Notation build := (AbstractWalk.build nat Nat.eq_dec next).

(* AbstractWalk.compress keeping (left path, seed, right path) apart *)
Fixpoint compress_s (order avail : list nat) : list (list (nat * side) * nat * list (nat * side)) :=
  match order with
  | [] => []
  | v :: o =>
      if mem nat Nat.eq_dec v avail then
        let '(lp, rp, a') := build avail v in (lp, v, rp) :: compress_s o a'
      else compress_s o avail
  end.

Lemma seed_min_s : forall m c avail, NoDup avail -> (forall x, In x avail -> c <= x) ->
  forall lp i rp, In (lp, i, rp) (compress_s (seq c m) avail) ->
  forall x, In x (node_verts nat lp i rp) -> i <= x.
Proof.
  induction m as [|m IH]; intros c avail ND Hge lp i rp HN; cbn [seq compress_s] in HN; [destruct HN|].
  destruct (mem nat Nat.eq_dec c avail) eqn:Hm.
  - apply mem_In in Hm. destruct (build avail c) as [[lp0 rp0] a'] eqn:Hb.
    destruct (build_split nat Nat.eq_dec next _ _ _ _ _ ND Hm Hb) as (HndN & Hnda & Hsp & Hdj).
    destruct HN as [E|HN].
    + inversion E; subst lp0 i rp0. intros x Hx. apply Hge. apply Hsp. now left.
    + apply (IH (S c) a' Hnda); [|exact HN]. intros x Hx.
      assert (Hxa : In x avail) by (apply Hsp; now right). specialize (Hge x Hxa).
      assert (x <> c); [|lia]. intros ->. apply (Hdj c); [apply in_node; auto|exact Hx].
  - apply (IH (S c) avail ND); [|exact HN]. intros x Hx. specialize (Hge x Hx).
    assert (x <> c); [|lia]. intros ->. assert (mem nat Nat.eq_dec c avail = true) by (apply mem_In; exact Hx). congruence.
Qed.
End SeedMin.
