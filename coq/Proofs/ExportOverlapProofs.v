(* C20: the K-1 overlap of a written link, read on the node sequences.  A line  L u o1 v o2 (K-1)M  says that the last
   K-1 bases of u (reverse-complemented when o1 = -) are the first K-1 bases of v (reverse-complemented when
   o2 = -): this holds for every line written for a graph of well-formed sequences of at least K bases, by the
   end-index contract of find_link. *)
From Coq Require Import NArith List Bool Arith Lia.
From DBG Require Import Spec.Dna Spec.GraphIndex Spec.ExportSpec Packed.ExtsModel Algo.Compress Algo.GraphModel Algo.Json Algo.Export
  Proofs.ListFacts Proofs.DnaFacts Proofs.ExportGfaProofs Proofs.ExportProofs Proofs.ExportEdgesProofs.
Import ListNotations.
Local Open Scope nat_scope.

Definition orient (s : dna) (o : bool) : dna := if o then s else rc s.
Definition lastn {A} (k : nat) (s : list A) : list A := skipn (length s - k) s.

Lemma firstn_rc k s : k <= length s -> firstn k (rc s) = rc (lastn k s).
Proof. intros H. unfold rc, lastn. now rewrite firstn_map, firstn_rev. Qed.
Lemma lastn_rc k s : k <= length s -> lastn k (rc s) = rc (firstn k s).
Proof.
  intros H. unfold rc, lastn. rewrite map_length, rev_length, skipn_map, skipn_rev.
  replace (length s - (length s - k)) with k by lia. reflexivity.
Qed.

Section O.
Variable K : nat.
Hypothesis HK : 1 <= K.

Lemma first_kmer_length s : K <= length s -> length (first_kmer K s) = K.
Proof. intros H. unfold first_kmer, kmer_at. apply sub_length. lia. Qed.
Lemma last_kmer_length s : K <= length s -> length (last_kmer K s) = K.
Proof. intros H. unfold last_kmer, kmer_at. apply sub_length. lia. Qed.
Lemma term_kmer_length s d : K <= length s -> length (term_kmer K s d) = K.
Proof. destruct d; [apply first_kmer_length|apply last_kmer_length]. Qed.

Lemma firstn_first_kmer s : firstn (K - 1) (first_kmer K s) = firstn (K - 1) s.
Proof. unfold first_kmer, kmer_at, sub. cbn [skipn]. rewrite firstn_firstn. f_equal. lia. Qed.
Lemma last_kmer_skipn s : K <= length s -> last_kmer K s = skipn (length s - K) s.
Proof.
  intros H. unfold last_kmer, kmer_at, sub. apply firstn_all2. rewrite skipn_length. lia.
Qed.
Lemma lastn_last_kmer s : K <= length s -> lastn (K - 1) (last_kmer K s) = lastn (K - 1) s.
Proof.
  intros H. unfold lastn. rewrite (last_kmer_length s H). rewrite (last_kmer_skipn s H), Proofs.ListFacts.skipn_skipn.
  f_equal. lia.
Qed.
(* the K-1 bases shared by a k-mer and its extension *)
Lemma firstn_extend_right t b : length t = K -> firstn (K - 1) (extend_right t b) = lastn (K - 1) t.
Proof.
  intros H. unfold extend_right, lastn. rewrite H. replace (K - (K - 1)) with 1 by lia.
  destruct t as [|x t]; [cbn in H; lia|]. cbn [tl skipn]. apply firstn_app_exact. cbn [length] in H. lia.
Qed.
Lemma lastn_extend_left t b : length t = K -> lastn (K - 1) (extend_left t b) = firstn (K - 1) t.
Proof.
  intros H. unfold extend_left, lastn. cbn [length].
  assert (Hr : length (removelast t) = K - 1).
  { rewrite removelast_firstn_len, firstn_length. lia. }
  rewrite Hr. replace (S (K - 1) - (K - 1)) with 1 by lia. cbn [skipn].
  rewrite removelast_firstn_len. f_equal. lia.
Qed.

Variable D : Type.
Variable stranded : bool.
Notation graph := (graph D).

Theorem link_overlap (g : graph) n a b v side flip :
  wf_dna (n_seq D n) -> K <= length (n_seq D n) -> (b < 4)%N -> graph_wf D K g ->
  find_link D K stranded g (extend (term_kmer K (n_seq D n) a) b a) a = Some (v, side, flip) ->
  exists nv, nth_error g v = Some nv /\
    lastn (K - 1) (orient (n_seq D n) (is_right a)) = firstn (K - 1) (orient (n_seq D nv) (to_dir side)).
Proof.
  intros Wn Ln Hb Hw Hf.
  assert (WX : wf_dna (extend (term_kmer K (n_seq D n) a) b a)) by (apply wf_extend; auto using wf_term).
  apply find_link_cases in Hf as (nv & Hv & C). exists nv. split; [exact Hv|].
  assert (Hnv : wf_dna (n_seq D nv) /\ K <= length (n_seq D nv)).
  { unfold graph_wf in Hw. rewrite Forall_forall in Hw. apply Hw. eapply nth_error_In, Hv. }
  destruct Hnv as [Wv Lv].
  destruct a; cbn [is_right orient extend term_kmer opp] in *.
  - (* leaving through the left end: u is read reverse-complemented *)
    rewrite lastn_rc by lia.
    destruct C as [(-> & -> & T)|(-> & _ & -> & T)]; cbn [to_dir orient term_kmer] in *.
    + (* enters v's right end: v reverse-complemented *)
      rewrite firstn_rc by lia. f_equal.
      rewrite <- (lastn_last_kmer _ Lv), T, lastn_extend_left by (now apply first_kmer_length).
      now rewrite firstn_first_kmer.
    + (* enters v's left end *)
      rewrite <- (firstn_first_kmer (n_seq D nv)), T, firstn_rc by (cbn [extend_left length]; rewrite removelast_firstn_len, firstn_length, first_kmer_length by exact Ln; lia).
      f_equal. rewrite lastn_extend_left by (now apply first_kmer_length). now rewrite firstn_first_kmer.
  - (* leaving through the right end *)
    destruct C as [(-> & -> & T)|(-> & _ & -> & T)]; cbn [to_dir orient term_kmer] in *.
    + rewrite <- (firstn_first_kmer (n_seq D nv)), T, firstn_extend_right by (now apply last_kmer_length).
      now rewrite lastn_last_kmer.
    + rewrite firstn_rc by lia. rewrite <- (lastn_last_kmer _ Lv), T.
      assert (LX : length (extend_right (last_kmer K (n_seq D n)) b) = K).
      { unfold extend_right. rewrite app_length. cbn [length].
        pose proof (last_kmer_length _ Ln) as E. destruct (last_kmer K (n_seq D n)); cbn [tl length] in *; lia. }
      rewrite lastn_rc by (rewrite LX; lia). rewrite (rc_involutive (firstn _ _)).
      * rewrite firstn_extend_right by (now apply last_kmer_length). now rewrite lastn_last_kmer.
      * unfold wf_dna in *. rewrite Forall_forall in *. intros x Hx. apply WX. cbn [extend]. eapply in_firstn, Hx.
Qed.

Theorem gfa_link_overlap (g : graph) u o1 v o2 ov : graph_wf D K g ->
  In (u, o1, v, o2, ov) (gfa_links (write_gfa D K stranded g)) ->
  ov = K - 1 /\ exists nu nv, nth_error g u = Some nu /\ nth_error g v = Some nv /\
    lastn (K - 1) (orient (n_seq D nu) o1) = firstn (K - 1) (orient (n_seq D nv) o2).
Proof.
  intros Hw H. rewrite write_gfa_links in H. apply in_links in H as (-> & H & _). split; [reflexivity|].
  rewrite tab_edges_etab in H.
  destruct (nth_error g u) as [nu|] eqn:Hu.
  2:{ rewrite edges_out_of_range in H by (now apply nth_error_None). contradiction. }
  rewrite (edges_pieces D K stranded g u _ nu Hu) in H.
  apply in_map_iff in H as ([[i s] f] & E & H). unfold target in E. cbn [fst] in E. inversion E; subst i s.
  apply in_flat_map in H as (b & Hb & H). apply in_piece in H.
  assert (Hn : wf_dna (n_seq D nu) /\ K <= length (n_seq D nu)).
  { unfold graph_wf in Hw. rewrite Forall_forall in Hw. apply Hw. eapply nth_error_In, Hu. }
  destruct Hn as [Wn Ln].
  destruct (link_overlap g nu (out_side o1) b v (in_side o2) f Wn Ln (in_bases b Hb) Hw H) as (nv & Hv & O).
  exists nu, nv. rewrite is_right_out_side, to_dir_in_side in O. auto.
Qed.
End O.
