(* C16: both paths of from_acgt_bytes produce the big-endian packing of [map ascii_base bytes]
   ([ds_of_dna]), for every byte string; the str constructor agrees on ASCII text. *)
From Coq Require Import NArith List Bool Arith Lia.
From DBG Require Import Gen.SourceConsts Spec.Dna Spec.Ascii Packed.KmerModel Packed.Avx2Model Packed.AsciiModel
  Proofs.ListFacts Proofs.KmerLanes Proofs.AsciiConvertSweep Proofs.AsciiConvert Proofs.AsciiPack.
Import ListNotations.
Open Scope N_scope.

(* ------------------------------------------------------------------ small facts *)
Lemma Forall_firstn_ {A} (P : A -> Prop) n l : Forall P l -> Forall P (firstn n l).
Proof. intro H. revert n; induction H; intros [|n]; simpl; auto. Qed.
Lemma Forall_skipn_ {A} (P : A -> Prop) n l : Forall P l -> Forall P (skipn n l).
Proof. intro H. revert n; induction H; intros [|n]; simpl; auto. Qed.

Lemma ascii_base_lt4 c : ascii_base c < 4.
Proof.
  destruct c as [|p]; [cbn; lia|].
  do 7 (try (destruct p as [p|p|]; try (cbn; lia))).
Qed.
Lemma ascii_bases_wf l : wf_dna (map ascii_base l).
Proof. unfold wf_dna. apply Forall_forall. intros b Hb. apply in_map_iff in Hb as [c [<- _]]. apply ascii_base_lt4. Qed.
Lemma map_b2b_bytes l : Forall (fun b => b < 256) l -> map base_to_bits l = map ascii_base l.
Proof. intro H. apply map_ext_in. intros c Hc. rewrite Forall_forall in H. exact (proj1 (tables_ok c (H c Hc))). Qed.

Lemma testbit_high c n i : c < 2 ^ n -> n <= i -> N.testbit c i = false.
Proof.
  intros Hc Hi. destruct (N.eq_dec c 0) as [->|Hnz]; [apply N.bits_0|].
  apply N.bits_above_log2. apply N.lt_le_trans with n; [apply N.log2_lt_pow2; lia | exact Hi].
Qed.
Lemma land_shifted a c n : c < 2 ^ n -> N.land (a * 2 ^ n) c = 0.
Proof.
  intro Hc. apply N.bits_inj_0. intro i. rewrite N.land_spec. destruct (N.ltb i n) eqn:E.
  - apply N.ltb_lt in E. now rewrite N.mul_pow2_bits_low.
  - apply N.ltb_ge in E. rewrite (testbit_high c n i Hc E). apply andb_false_r.
Qed.
Lemma lor_disjoint a c n : c < 2 ^ n -> N.lor (a * 2 ^ n) c = a * 2 ^ n + c.
Proof. intro Hc. rewrite <- N.lxor_lor, <- N.add_nocarry_lxor; auto using land_shifted. Qed.

(* ------------------------------------------------------------------ chunks *)
Lemma chunks_fuel_S {A} f n (l : list A) : l <> [] ->
  chunks_fuel (S f) n l = firstn n l :: chunks_fuel f n (skipn n l).
Proof. destruct l; [congruence | reflexivity]. Qed.
Lemma chunks_fuel_nil {A} f n : @chunks_fuel A f n [] = [].
Proof. destruct f; reflexivity. Qed.
Lemma chunks_small {A} f n (l : list A) : l <> [] -> (length l <= n)%nat -> chunks_fuel (S f) n l = [l].
Proof. intros H Hn. rewrite chunks_fuel_S by exact H. now rewrite firstn_all2, skipn_all2, chunks_fuel_nil. Qed.

(* ------------------------------------------------------------------ one group of extend *)
Lemma pack_be_snoc p b : (length p < 32)%nat -> b < 4 ->
  N.lor (pack_be p) (N.shiftl b (N.of_nat (62 - 2 * length p))) = pack_be (p ++ [b]).
Proof.
  intros Hk Hb. unfold pack_be. rewrite app_length. cbn [length].
  set (k := length p) in *. set (m := N.of_nat (62 - 2 * k)).
  assert (E1 : 4 ^ N.of_nat (32 - k) = 4 * 2 ^ m).
  { replace (32 - k)%nat with (S (31 - k)) by lia. rewrite Nat2N.inj_succ, N.pow_succ_r'. f_equal.
    rewrite pow4. unfold m. f_equal. lia. }
  assert (E2 : 4 ^ N.of_nat (32 - (k + 1)) = 2 ^ m).
  { rewrite pow4. unfold m. f_equal. lia. }
  rewrite E1, E2, rank_app. cbn [length]. change (rank [b]) with (4 * 0 + b). change (4 ^ N.of_nat 1) with 4.
  rewrite N.mul_assoc, !N.shiftl_mul_pow2, <- !N.shiftl_mul_pow2, <- N.shiftl_lor. f_equal.
  change 4 with (2 ^ 2) at 1. rewrite lor_disjoint by exact Hb. change (2 ^ 2) with 4. lia.
Qed.

Definition group_step (acc : option N) (p : nat * N) : option N :=
  do val <- acc;
  if snd p <? N.of_nat ascii_assert_lt
  then Some (N.lor val (N.shiftl (snd p) (N.of_nat (ascii_offset0 - ascii_offset_step * fst p))))
  else None.
Lemma pack_group_gen g : forall p, (length p + length g <= 32)%nat -> wf_dna g ->
  fold_left group_step (combine (seq (length p) (length g)) g) (Some (pack_be p)) = Some (pack_be (p ++ g)).
Proof.
  induction g as [|b g IH]; intros p Hl Hw.
  - now rewrite app_nil_r.
  - inversion Hw as [|? ? Hb Hw']; subst. cbn [length seq combine fold_left] in *.
    unfold group_step at 2. cbn [obind fst snd].
    change (N.of_nat ascii_assert_lt) with 4. apply N.ltb_lt in Hb as Hb'. rewrite Hb'.
    change ascii_offset0 with 62%nat. change ascii_offset_step with 2%nat.
    rewrite pack_be_snoc by (lia || exact Hb).
    replace (S (length p)) with (length (p ++ [b])) by (rewrite app_length; cbn; lia).
    rewrite IH; [now rewrite <- app_assoc | rewrite app_length; cbn [length]; lia | exact Hw'].
Qed.
Lemma pack_group_spec g : (length g <= 32)%nat -> wf_dna g -> pack_group g = Some (pack_be g).
Proof. intros Hl Hw. exact (pack_group_gen g [] Hl Hw). Qed.

(* ------------------------------------------------------------------ extend on a block boundary *)
Definition groups_step (acc : option dstr) (g : list N) : option dstr :=
  do d <- acc; do val <- pack_group g; Some (mkds (ds_storage d ++ [val]) (ds_len d + length g)).
Lemma groups_fuel f : forall l d, (length l <= f)%nat -> wf_dna l ->
  fold_left groups_step (chunks_fuel f 32 l) (Some d) =
  Some (mkds (ds_storage d ++ map pack_be (chunks_fuel f 32 l)) (ds_len d + length l)).
Proof.
  induction f as [|f IH]; intros l d Hl Hw.
  - destruct l; [| cbn in Hl; lia]. cbn. rewrite app_nil_r, Nat.add_0_r. now destruct d.
  - destruct l as [|x l']; [cbn; rewrite app_nil_r, Nat.add_0_r; now destruct d|].
    set (L := x :: l') in *. assert (HL : L <> []) by discriminate.
    rewrite chunks_fuel_S by exact HL. cbn [fold_left map]. unfold groups_step at 2. cbn [obind].
    rewrite pack_group_spec; [| rewrite firstn_length; lia | now apply Forall_firstn_]. cbn [obind].
    rewrite IH; [| rewrite skipn_length; lia | now apply Forall_skipn_]. cbn [ds_storage ds_len].
    f_equal. f_equal; [now rewrite <- app_assoc |].
    rewrite <- Nat.add_assoc. f_equal. rewrite <- (firstn_skipn 32 L) at 3. now rewrite app_length.
Qed.

Lemma extend_from_zero d l : ds_len d = 0%nat -> wf_dna l ->
  ds_extend d l = Some (mkds (ds_storage d ++ map pack_be (chunks 32 l)) (length l)).
Proof.
  intros H0 Hw. unfold ds_extend.
  assert (E : extend_fill d l = Some (d, l)) by (destruct l; cbn; [reflexivity | now rewrite H0]).
  rewrite E. cbn [obind fst snd]. unfold extend_groups. change ascii_group with 32%nat. unfold chunks.
  change (fold_left _ ?c ?a) with (fold_left groups_step c a).
  rewrite groups_fuel by (lia || exact Hw). now rewrite H0.
Qed.

Theorem from_acgt_scalar_spec bytes : Forall (fun b => b < 256) bytes ->
  from_acgt_bytes_scalar bytes = Some (ds_of_dna (map ascii_base bytes)).
Proof.
  intro Hb. unfold from_acgt_bytes_scalar. rewrite map_b2b_bytes by exact Hb.
  rewrite extend_from_zero by (reflexivity || apply ascii_bases_wf). reflexivity.
Qed.

(* ------------------------------------------------------------------ the AVX2 branch *)
Definition avx_step (acc : option dstr) (chunk : list N) : option dstr :=
  do d <- acc;
  if Nat.eqb (length chunk) ascii_chunk_full then
    do cv <- convert_bases chunk;
    Some (mkds (ds_storage d ++ [pack_32_bases (fst cv)]) (ds_len d))
  else ds_extend d (map base_to_bits chunk).

Lemma avx_fuel f : forall l d, (length l <= f)%nat -> Forall (fun b => b < 256) l -> ds_len d = 0%nat ->
  exists n, fold_left avx_step (chunks_fuel f 32 l) (Some d) =
            Some (mkds (ds_storage d ++ map pack_be (chunks_fuel f 32 (map ascii_base l))) n).
Proof.
  induction f as [|f IH]; intros l d Hl Hb H0.
  - destruct l; [| cbn in Hl; lia]. exists (ds_len d). cbn. rewrite app_nil_r. now destruct d.
  - destruct l as [|x l']; [exists (ds_len d); cbn; rewrite app_nil_r; now destruct d|].
    set (L := x :: l') in *. assert (HL : L <> []) by discriminate.
    assert (HM : map ascii_base L <> []) by discriminate.
    rewrite !chunks_fuel_S by assumption. cbn [fold_left map]. unfold avx_step at 2. cbn [obind].
    destruct (Nat.leb 32 (length L)) eqn:E.
    + (* a full chunk: the vector kernels *)
      apply Nat.leb_le in E.
      assert (Hc : length (firstn 32 L) = 32%nat) by (apply firstn_length_le; exact E).
      rewrite Hc. change (Nat.eqb 32 ascii_chunk_full) with true. cbv iota.
      rewrite convert_bases_spec by (exact Hc || now apply Forall_firstn_). cbn [obind fst].
      rewrite pack_spec by (rewrite ?map_length; exact Hc || apply ascii_bases_wf).
      destruct (IH (skipn 32 L) (mkds (ds_storage d ++ [pack_be (map ascii_base (firstn 32 L))]) (ds_len d)))
        as [n Hn]; [rewrite skipn_length; lia | now apply Forall_skipn_ | exact H0 |].
      exists n. rewrite Hn. cbn [ds_storage]. now rewrite <- app_assoc, firstn_map, skipn_map.
    + (* the tail: extend on an empty-length string *)
      apply Nat.leb_gt in E.
      rewrite (firstn_all2 (n := 32) L), (skipn_all2 (n := 32) L) by lia.
      rewrite (firstn_all2 (n := 32) (map ascii_base L)), (skipn_all2 (n := 32) (map ascii_base L)) by (rewrite map_length; lia).
      rewrite !chunks_fuel_nil. cbn [fold_left map].
      replace (Nat.eqb (length L) ascii_chunk_full) with false
        by (symmetry; apply Nat.eqb_neq; change ascii_chunk_full with 32%nat; lia).
      rewrite map_b2b_bytes by exact Hb. rewrite extend_from_zero by (exact H0 || apply ascii_bases_wf).
      unfold chunks. rewrite map_length. replace (length L) with (S (length l')) by reflexivity.
      rewrite chunks_small by (exact HM || rewrite map_length; lia). eauto.
Qed.

Theorem from_acgt_avx2_spec bytes : Forall (fun b => b < 256) bytes ->
  from_acgt_bytes_avx2 bytes = Some (ds_of_dna (map ascii_base bytes)).
Proof.
  intro Hb. unfold from_acgt_bytes_avx2. change ascii_chunk with 32%nat. unfold chunks.
  change (fold_left _ ?c ?a) with (fold_left avx_step c a).
  destruct (avx_fuel (length bytes) bytes ds_new (le_n _) Hb eq_refl) as [n Hn].
  rewrite Hn. cbn [obind ds_storage ds_new app]. unfold ds_of_dna, chunks. now rewrite !map_length.
Qed.

(* the two paths agree on every byte string, and both are the packing of the table map *)
Theorem from_acgt_paths_agree bytes : Forall (fun b => b < 256) bytes ->
  from_acgt_bytes_avx2 bytes = from_acgt_bytes_scalar bytes /\
  forall avx2, from_acgt_bytes avx2 bytes = Some (ds_of_dna (map ascii_base bytes)).
Proof.
  intro Hb. split.
  - now rewrite from_acgt_avx2_spec, from_acgt_scalar_spec.
  - intros [|]; cbn [from_acgt_bytes]; [now apply from_acgt_avx2_spec | now apply from_acgt_scalar_spec].
Qed.

(* ------------------------------------------------------------------ the str constructor on ASCII text *)
Theorem agree_with_str text : Forall (fun c => c < 128) text ->
  forall avx2, from_dna_string text = from_acgt_bytes avx2 text.
Proof.
  intros Ha avx2.
  assert (Hb : Forall (fun b => b < 256) text) by (eapply Forall_impl; [| exact Ha]; cbn; intros; lia).
  rewrite (proj2 (from_acgt_paths_agree text Hb)). rewrite <- from_acgt_scalar_spec by exact Hb.
  unfold from_dna_string, from_acgt_bytes_scalar. f_equal. apply map_ext_in. intros c Hc.
  unfold char_as_u8. rewrite N.mod_small; [reflexivity |]. rewrite Forall_forall in Hb. now apply Hb.
Qed.

(* ------------------------------------------------------------------ the str constructor on ARBITRARY text (C14) *)
(* one base per char, whatever the text: the table value of the char's low byte (`c as u8`); at an ASCII char that is
   the table value of the char itself *)
Theorem from_str_any text :
  from_dna_string text = Some (ds_of_dna (map (fun c => ascii_base (char_as_u8 c)) text)).
Proof.
  assert (Hb : Forall (fun b => b < 256) (map char_as_u8 text)).
  { apply Forall_forall. intros b Hb. apply in_map_iff in Hb as [c [<- _]]. unfold char_as_u8. apply N.mod_lt. discriminate. }
  pose proof (from_acgt_scalar_spec _ Hb) as H. unfold from_acgt_bytes_scalar in H. rewrite !map_map in H.
  exact H.
Qed.
Corollary from_str_any_len text d : from_dna_string text = Some d -> ds_len d = length text.
Proof. rewrite from_str_any. intro H. inversion H. unfold ds_of_dna. cbn. now rewrite map_length. Qed.
