(* C10/C11/C12: the trait-default k-mer code of lib.rs (loops over the packed operations). *)
From Coq Require Import NArith List Bool Arith Lia.
From DBG Require Import Bits.SymBV Gen.SourceConsts Spec.Dna Packed.KmerModel Proofs.ListFacts Proofs.KmerLanes Proofs.KmerSweeps Proofs.KmerOps.
Import ListNotations.
Open Scope N_scope.

Lemma wf_0 K : wf K 0.
Proof. unfold wf. pose proof (N.pow_nonzero 2 (N.of_nat (2 * K))). lia. Qed.
Lemma wf_dna_firstn n l : wf_dna l -> wf_dna (firstn n l).
Proof. unfold wf_dna. rewrite !Forall_forall. intros H b Hb. apply H. eapply in_firstn; eauto. Qed.

Section Defaults.
Variable c : kcfg.
Hypothesis Hc : In c shipped.
Let K := kK c.

Lemma set_all_spec : forall l s i, wf K s -> wf_dna l -> (i + length l <= K)%nat ->
  exists r, set_all c s i l = Some r /\ wf K r /\ decode K r = splice i l (decode K s).
Proof.
  induction l as [|b l IH]; intros s i Hs Hl Hi.
  - exists s. split; [reflexivity|]. split; [exact Hs|]. rewrite splice_nil; [reflexivity|].
    rewrite decode_length. cbn in Hi. lia.
  - inversion Hl; subst. cbn [length] in Hi.
    destruct (set_mut_spec c s i b Hc Hs ltac:(fold K; lia) H1) as [s' [E1 [W1 D1]]].
    destruct (IH s' (S i) W1 H2 ltac:(lia)) as [r [E2 [W2 D2]]].
    exists r. cbn [set_all obind]. rewrite E1. cbn [obind]. split; [exact E2|]. split; [exact W2|].
    rewrite D2. fold K in D1. rewrite D1. apply splice_step. rewrite decode_length. lia.
Qed.

Theorem from_bytes_spec bytes : (K <= length bytes)%nat -> wf_dna (firstn K bytes) ->
  exists r, from_bytes c bytes = Some r /\ wf K r /\ decode K r = firstn K bytes.
Proof.
  intros Hlen Hw. unfold from_bytes. fold K. destruct (Nat.ltb_spec (length bytes) K) as [Hlt|_]; [lia|].
  destruct (set_all_spec (firstn K bytes) kempty 0 (wf_0 K) Hw) as [r [E [W D]]].
  { rewrite firstn_length. lia. }
  exists r. split; [exact E|]. split; [exact W|]. rewrite D. apply splice_all.
  rewrite decode_length, firstn_length. lia.
Qed.
(* too few bytes: the documented panic *)
Theorem from_bytes_short bytes : (length bytes < K)%nat -> from_bytes c bytes = None.
Proof. intro H. unfold from_bytes. fold K. destruct (Nat.ltb_spec (length bytes) K); [reflexivity | lia]. Qed.

Lemma b2b_lt4 ch : b2b ch < 4.
Proof.
  unfold b2b. destruct (Nat.ltb_spec (N.to_nat ch) 256) as [H|H].
  - assert (E : forallb (fun b => b <? 4) tbl_base_to_bits = true) by (vm_compute; reflexivity).
    rewrite forallb_forall in E. apply N.ltb_lt. apply E. apply nth_In.
    replace (length tbl_base_to_bits) with 256%nat by (vm_compute; reflexivity). exact H.
  - rewrite nth_overflow; [lia|]. replace (length tbl_base_to_bits) with 256%nat by (vm_compute; reflexivity). exact H.
Qed.

Theorem from_ascii_spec bytes : (K <= length bytes)%nat ->
  exists r, from_ascii c bytes = Some r /\ wf K r /\ decode K r = map b2b (firstn K bytes).
Proof.
  intros Hlen. unfold from_ascii. fold K. destruct (Nat.ltb_spec (length bytes) K) as [Hlt|_]; [lia|].
  assert (Hw : wf_dna (map b2b (firstn K bytes))).
  { apply Forall_forall. intros b Hb. apply in_map_iff in Hb as [x [<- _]]. apply b2b_lt4. }
  destruct (set_all_spec _ kempty 0 (wf_0 K) Hw) as [r [E [W D]]].
  { rewrite map_length, firstn_length. lia. }
  exists r. split; [exact E|]. split; [exact W|]. rewrite D. apply splice_all.
  rewrite decode_length, map_length, firstn_length. lia.
Qed.

Lemma get_all_spec s : wf K s -> forall poss, Forall (fun p => (p < K)%nat) poss ->
  get_all c s poss = Some (map (fun p => nth p (decode K s) 0) poss).
Proof.
  intros Hs. induction poss as [|p ps IH]; intro H; [reflexivity|]. inversion H; subst.
  cbn [get_all map]. rewrite (get_spec c s p Hc Hs H2). cbn [obind]. rewrite (IH H3). reflexivity.
Qed.

Theorem to_bases_spec s : wf K s -> to_bases c s = Some (decode K s).
Proof.
  intro Hs. unfold to_bases. fold K. rewrite (get_all_spec s Hs).
  - f_equal. rewrite <- (decode_length K s) at 1. apply map_nth_seq.
  - apply Forall_forall. intros p Hp. apply in_seq in Hp. lia.
Qed.

Lemma bits_to_base_char b : b < 4 -> bits_to_base b = base_char b.
Proof.
  intro H. assert (E : forallb (fun b => bits_to_base b =? base_char b) [0; 1; 2; 3] = true) by (vm_compute; reflexivity).
  rewrite forallb_forall in E. apply N.eqb_eq. apply E.
  destruct b as [|[[p|p|]|[p|p|]|]]; cbn; auto; lia.
Qed.

Theorem to_string_spec s : wf K s -> to_string c s = Some (text (decode K s)).
Proof.
  intro Hs. unfold to_string. rewrite (to_bases_spec s Hs). cbn [obind]. f_equal. unfold text.
  apply map_ext_in. intros b Hb. apply bits_to_base_char.
  pose proof (decode_lt4 K s) as Hd. unfold wf_dna in Hd. rewrite Forall_forall in Hd. auto.
Qed.

(* sliding extraction *)
Lemma ext_all_spec (l : dna) : wf_dna l -> forall rest s i, wf K s -> decode K s = kmer_at K l i ->
  rest = skipn (i + K) l -> (i + K <= length l)%nat ->
  exists rs, ext_all c s rest = Some rs /\ Forall (wf K) rs /\
             map (decode K) rs = map (kmer_at K l) (seq (S i) (length rest)).
Proof.
  intros Hl. destruct (shipped_2K c Hc) as [_ HK]. fold K in HK.
  induction rest as [|b rest IH]; intros s i Hs Hd Hr Hi.
  - exists []. split; [reflexivity|]. split; [constructor | reflexivity].
  - assert (Hlen : (i + K < length l)%nat).
    { assert (length (b :: rest) = length l - (i + K))%nat by (rewrite Hr, skipn_length; reflexivity).
      cbn [length] in H. lia. }
    assert (Hb : b = nth (i + K) l 0).
    { rewrite (skipn_S_nth (i + K) l 0 Hlen) in Hr. now injection Hr. }
    assert (Hb4 : b < 4).
    { unfold wf_dna in Hl. rewrite Forall_forall in Hl. apply Hl. rewrite Hb. apply nth_In. exact Hlen. }
    destruct (extend_right_spec c s b Hc Hs Hb4) as [s' [E1 [W1 D1]]]. fold K in D1.
    assert (D1' : decode K s' = kmer_at K l (S i)).
    { rewrite D1, Hd, Hb. now apply kmer_at_shift. }
    destruct (IH s' (S i) W1 D1') as [rs [E2 [W2 D2]]].
    { rewrite (skipn_S_nth (i + K) l 0 Hlen) in Hr. injection Hr as _ Hr. exact Hr. }
    { lia. }
    exists (s' :: rs). cbn [ext_all obind]. rewrite E1. cbn [obind]. rewrite E2. cbn [obind].
    split; [reflexivity|]. split; [constructor; assumption|].
    cbn [map length seq]. now rewrite D1', D2.
Qed.

Theorem kmers_from_bytes_spec (l : dna) : wf_dna l ->
  exists rs, kmers_from_bytes c l = Some rs /\ Forall (wf K) rs /\ map (decode K) rs = kmers K l.
Proof.
  intro Hl. unfold kmers_from_bytes. fold K. destruct (Nat.ltb_spec (length l) K) as [Hlt|Hge].
  - exists []. split; [reflexivity|]. split; [constructor|]. unfold kmers.
    replace (length l + 1 - K)%nat with 0%nat by lia. reflexivity.
  - pose proof (wf_dna_firstn K l Hl) as Hw.
    destruct (set_all_spec (firstn K l) kempty 0 (wf_0 K) Hw) as [k0 [E0 [W0 D0]]].
    { rewrite firstn_length. lia. }
    rewrite E0. cbn [obind].
    assert (D0' : decode K k0 = kmer_at K l 0).
    { rewrite D0. rewrite splice_all by (rewrite decode_length, firstn_length; lia). reflexivity. }
    destruct (ext_all_spec l Hl (skipn K l) k0 0%nat W0 D0' eq_refl ltac:(lia)) as [rs [E [W D]]].
    rewrite E. cbn [obind]. exists (k0 :: rs). split; [reflexivity|]. split; [constructor; assumption|].
    cbn [map]. rewrite D0', D. unfold kmers. rewrite skipn_length.
    replace (length l + 1 - K)%nat with (S (length l - K)) by lia. reflexivity.
Qed.

Theorem kmers_from_ascii_spec (l : list N) :
  exists rs, kmers_from_ascii c l = Some rs /\ Forall (wf K) rs /\ map (decode K) rs = kmers K (map b2b l).
Proof.
  unfold kmers_from_ascii. apply kmers_from_bytes_spec.
  apply Forall_forall. intros b Hb. apply in_map_iff in Hb as [x [<- _]]. apply b2b_lt4.
Qed.

(* canonical form, flip flag, palindromes *)
Lemma ltb_lex s r : wf K s -> wf K r -> (s <? r) = dna_ltb (decode K s) (decode K r).
Proof. intros Hs Hr. unfold N.ltb, dna_ltb. now rewrite (compare_lex K s r Hs Hr). Qed.
Lemma eqb_lex s r : wf K s -> wf K r -> (s =? r) = dna_eqb (decode K s) (decode K r).
Proof.
  intros Hs Hr. unfold dna_eqb. rewrite <- (compare_lex K s r Hs Hr).
  destruct (N.compare_spec s r) as [->|H|H]; [apply N.eqb_refl | apply N.eqb_neq; lia | apply N.eqb_neq; lia].
Qed.

Theorem min_rc_flip_spec s : wf K s ->
  exists m f, min_rc_flip c s = Some (m, f) /\ wf K m /\ (decode K m, f) = canon_flip (decode K s).
Proof.
  intro Hs. destruct (rc_spec c s Hc Hs) as [r [E [W D]]]. fold K in D. unfold min_rc_flip. rewrite E. cbn [obind].
  unfold canon_flip. rewrite <- D, <- (ltb_lex s r Hs W). destruct (s <? r).
  - exists s, false. auto.
  - exists r, true. auto.
Qed.
Theorem min_rc_spec s : wf K s ->
  exists m, min_rc c s = Some m /\ wf K m /\ decode K m = canon (decode K s).
Proof.
  intro Hs. destruct (rc_spec c s Hc Hs) as [r [E [W D]]]. fold K in D. unfold min_rc. rewrite E. cbn [obind].
  unfold canon. rewrite <- D, <- (ltb_lex s r Hs W). destruct (s <? r).
  - exists s. auto.
  - exists r. auto.
Qed.
End Defaults.

(* a sequence of odd length never equals its reverse complement *)
Lemma odd_not_palindrome (l : dna) : Nat.even (length l) = false -> l <> rc l.
Proof.
  intros Hodd Heq.
  assert (Hn : exists m, length l = (2 * m + 1)%nat).
  { destruct (Nat.Even_or_Odd (length l)) as [He|[m Hm]].
    - apply Nat.even_spec in He. congruence.
    - exists m. exact Hm. }
  destruct Hn as [m Hm].
  assert (Hmid : nth m l 0 = nth m (rc l) 0) by (rewrite <- Heq; reflexivity).
  rewrite rc_nth in Hmid by lia. replace (length l - 1 - m)%nat with m in Hmid by lia.
  unfold comp in Hmid. lia.
Qed.

Theorem is_palindrome_spec c s : In c shipped -> wf (kK c) s ->
  kis_palindrome c s = Some (is_palindrome (decode (kK c) s)).
Proof.
  intros Hc Hs. destruct (rc_spec c s Hc Hs) as [r [E [W D]]]. unfold kis_palindrome. rewrite E. cbn [obind].
  f_equal. unfold is_palindrome. rewrite <- D, <- (eqb_lex c s r Hs W).
  destruct (Nat.even (kK c)) eqn:Hev; [reflexivity|]. cbn [andb]. symmetry. apply N.eqb_neq. intro Heq. subst r.
  apply (odd_not_palindrome (decode (kK c) s)); [now rewrite decode_length | now rewrite <- D].
Qed.
