(* C14: DnaString refines a plain list of bases. *)
From Coq Require Import NArith ZArith List Bool Arith Lia ZifyNat ZifyBool.
From DBG Require Import Spec.Dna Packed.KmerModel Packed.Blocks Packed.DnaStringModel Proofs.ListFacts Proofs.DnaFacts Proofs.KmerLanes
  Proofs.BlockProofs.
Import ListNotations.
Open Scope N_scope.

Lemma d_addr_eq i : d_addr i = ((i / 32)%nat, (2 * (i mod 32))%nat).
Proof.
  unfold d_addr. f_equal.
  - change 64%nat with (32 * 2)%nat. apply Nat.div_mul_cancel_r; lia.
  - change 64%nat with (32 * 2)%nat. rewrite Nat.mul_mod_distr_r by lia. lia.
Qed.
Lemma d_blocks_eq n : d_blocks n = (n / 32 + (if Nat.eqb (n mod 32) 0 then 0 else 1))%nat.
Proof.
  unfold d_blocks. change 64%nat with (32 * 2)%nat.
  rewrite Nat.div_mul_cancel_r, Nat.mul_mod_distr_r by lia. f_equal.
  destruct (Nat.eqb_spec (n mod 32) 0) as [E|E].
  - rewrite E. reflexivity.
  - destruct (Nat.ltb_spec 0 (n mod 32 * 2)); [reflexivity | lia].
Qed.
Lemma d_blocks_bounds n : (n <= 32 * d_blocks n)%nat /\ (32 * d_blocks n < n + 32)%nat.
Proof.
  rewrite d_blocks_eq. pose proof (Nat.div_mod n 32 ltac:(lia)) as H. pose proof (Nat.mod_upper_bound n 32 ltac:(lia)).
  destruct (Nat.eqb_spec (n mod 32) 0); lia.
Qed.

Section Inv.
Variable s : dstr.
Hypothesis Hinv : d_inv s.
Let Hlen := proj1 Hinv.
Let Hw := proj1 (proj2 Hinv).
Let Hpad := proj2 (proj2 Hinv).

Lemma d_abs_length : length (d_abs s) = d_len s.
Proof. unfold d_abs. rewrite firstn_length, lanes_of_length, Hlen. pose proof (d_blocks_bounds (d_len s)). lia. Qed.

Lemma block_in_range i : (i < d_len s)%nat -> (i / 32 < length (d_sto s))%nat.
Proof.
  intro Hi. rewrite Hlen. pose proof (d_blocks_bounds (d_len s)) as [H1 _].
  apply Nat.div_lt_upper_bound; lia.
Qed.
Lemma block_lt64 b : (b < length (d_sto s))%nat -> nth b (d_sto s) 0 < two64.
Proof. intro Hb. rewrite Forall_forall in Hw. apply Hw. now apply nth_In. Qed.

Lemma d_get_spec i : (i < d_len s)%nat -> d_get s i = Some (nth i (d_abs s) 0).
Proof.
  intro Hi. unfold d_get. rewrite d_addr_eq. pose proof (block_in_range i Hi) as Hb.
  rewrite (nth_opt_some _ _ 0 Hb). cbn [obind].
  rewrite ds_get_spec by (try apply block_lt64; try apply Nat.mod_upper_bound; auto; lia).
  f_equal. unfold d_abs. rewrite nth_firstn_lt by exact Hi.
  rewrite <- nth_lanes_of by (try apply Nat.mod_upper_bound; auto; lia). f_equal.
  pose proof (Nat.div_mod i 32 ltac:(lia)). lia.
Qed.

Lemma d_to_bytes_spec : d_to_bytes s = Some (d_abs s).
Proof.
  unfold d_to_bytes.
  assert (G : forall l, Forall (fun i => (i < d_len s)%nat) l -> omapN (d_get s) l = Some (map (fun i => nth i (d_abs s) 0) l)).
  { induction l as [|i l IH]; intro H; [reflexivity|]. inversion H; subst. cbn [omapN map].
    rewrite d_get_spec by assumption. cbn [obind]. rewrite IH by assumption. reflexivity. }
  rewrite G.
  - f_equal. rewrite <- d_abs_length. apply map_nth_seq.
  - apply Forall_forall. intros i Hi. apply in_seq in Hi. lia.
Qed.

Lemma d_abs_wf : wf_dna (d_abs s).
Proof.
  unfold d_abs, wf_dna. apply Forall_forall. intros b Hb. apply in_firstn in Hb.
  unfold lanes_of in Hb. apply in_concat in Hb as [l [Hl Hb]]. apply in_map_iff in Hl as [w [<- _]].
  pose proof (decode_lt4 32 w) as H. unfold wf_dna in H. rewrite Forall_forall in H. auto.
Qed.
End Inv.

Ltac Zify.zify_post_hook ::= Z.div_mod_to_equations.

Lemma decode_zero32 : decode 32 0 = repeat 0 32.
Proof. vm_compute. reflexivity. Qed.
Lemma d_inv_new : d_inv d_new.
Proof. unfold d_inv, d_new. cbn. repeat split; constructor. Qed.

Lemma lanes_index i : (i = 32 * (i / 32) + i mod 32)%nat.
Proof. lia. Qed.

Theorem d_set_mut_spec s i v : d_inv s -> (i < d_len s)%nat -> v < 256 ->
  exists s', d_set_mut s i v = Some s' /\ d_inv s' /\ d_abs s' = upd i (d_abs s) (v mod 4).
Proof.
  intros Hinv Hi Hv. destruct Hinv as [Hlen [Hw Hpad]].
  assert (Hinv : d_inv s) by (repeat split; assumption).
  pose proof (block_in_range s Hinv i Hi) as Hb.
  unfold d_set_mut, d_set_by_addr. rewrite d_addr_eq. rewrite (nth_opt_some _ _ 0 Hb). cbn [obind].
  destruct (ds_set_spec (nth (i / 32) (d_sto s) 0) (i mod 32) v) as [w' [E [W D]]];
    [apply (block_lt64 s Hinv); exact Hb | lia | exact Hv |].
  rewrite E. cbn [obind]. rewrite set_nth_some by exact Hb. cbn [obind].
  eexists; split; [reflexivity|].
  assert (HL : lanes_of (upd (i / 32) (d_sto s) w') = upd i (lanes_of (d_sto s)) (v mod 4)).
  { rewrite (lanes_of_upd_lane _ _ (i mod 32) w' (v mod 4)); [| exact Hb | lia | exact D]. f_equal. lia. }
  assert (HiL : (i < length (lanes_of (d_sto s)))%nat).
  { rewrite lanes_of_length, Hlen. pose proof (d_blocks_bounds (d_len s)). lia. }
  split.
  - unfold d_inv. cbn [d_sto d_len]. rewrite upd_length by exact Hb. split; [exact Hlen|]. split.
    + apply Forall_upd; assumption.
    + rewrite HL, skipn_upd by assumption. exact Hpad.
  - unfold d_abs. cbn [d_sto d_len]. rewrite HL. apply firstn_upd; assumption.
Qed.

Theorem d_push_spec s v : d_inv s -> v < 256 ->
  exists s', d_push s v = Some s' /\ d_inv s' /\ d_abs s' = d_abs s ++ [v mod 4].
Proof.
  intros Hinv Hv. destruct Hinv as [Hlen [Hw Hpad]].
  assert (Hinv : d_inv s) by (repeat split; assumption).
  pose proof (d_blocks_eq (d_len s)) as Hbl. pose proof (d_blocks_eq (S (d_len s))) as Hbl'.
  unfold d_push, d_set_by_addr. rewrite d_addr_eq.
  destruct (Nat.eqb_spec (d_len s mod 32) 0) as [Hz|Hnz].
  - (* a new block is appended *)
    assert (Hbk : length (d_sto s) = (d_len s / 32)%nat) by lia.
    replace (Nat.eqb (2 * (d_len s mod 32)) 0) with true by (symmetry; apply Nat.eqb_eq; lia).
    replace (Nat.leb (length (d_sto s)) (d_len s / 32)) with true by (symmetry; apply Nat.leb_le; lia).
    cbn [andb].
    assert (Hb1 : (d_len s / 32 < length (d_sto s ++ [0%N]))%nat) by (rewrite app_length; cbn [length]; lia).
    rewrite (nth_opt_some _ _ 0 Hb1). cbn [obind].
    replace (nth (d_len s / 32) (d_sto s ++ [0]) 0) with 0 by (rewrite <- Hbk, app_nth2, Nat.sub_diag by lia; reflexivity).
    destruct (ds_set_spec 0 0 v) as [w' [E [W D]]]; [unfold two64; lia | lia | exact Hv |].
    rewrite Hz. rewrite E. cbn [obind].
    rewrite set_nth_some by exact Hb1. cbn [obind]. eexists; split; [reflexivity|].
    rewrite <- Hbk. rewrite upd_app_last.
    assert (HLl : length (lanes_of (d_sto s)) = d_len s) by (rewrite lanes_of_length; lia).
    assert (Hd0 : decode 32 w' = (v mod 4) :: repeat 0 31).
    { rewrite D. rewrite decode_zero32. reflexivity. }
    split.
    + unfold d_inv. cbn [d_sto d_len]. rewrite app_length. cbn [length]. split; [|split].
      * rewrite Hbl'. destruct (Nat.eqb_spec (S (d_len s) mod 32) 0); lia.
      * apply Forall_app. split; [exact Hw | constructor; [exact W | constructor]].
      * rewrite lanes_of_app. rewrite skipn_app, HLl. rewrite skipn_all2 by lia. cbn [app].
        replace (S (d_len s) - d_len s)%nat with 1%nat by lia. unfold lanes_of. cbn [map concat]. rewrite app_nil_r, Hd0.
        cbn [skipn]. f_equal. lia.
    + unfold d_abs. cbn [d_sto d_len]. rewrite lanes_of_app. rewrite firstn_app, HLl.
      rewrite (firstn_all2 (n := S (d_len s))) by lia. rewrite (firstn_all2 (n := d_len s)) by lia. f_equal.
      replace (S (d_len s) - d_len s)%nat with 1%nat by lia. unfold lanes_of. cbn [map concat]. rewrite app_nil_r, Hd0. reflexivity.
  - (* the last block has room *)
    replace (Nat.eqb (2 * (d_len s mod 32)) 0) with false by (symmetry; apply Nat.eqb_neq; lia).
    cbn [andb].
    assert (Hbk : length (d_sto s) = S (d_len s / 32)) by (destruct (Nat.eqb_spec (d_len s mod 32) 0); lia).
    assert (Hb : (d_len s / 32 < length (d_sto s))%nat) by lia.
    rewrite (nth_opt_some _ _ 0 Hb). cbn [obind].
    destruct (ds_set_spec (nth (d_len s / 32) (d_sto s) 0) (d_len s mod 32) v) as [w' [E [W D]]];
      [apply (block_lt64 s Hinv); exact Hb | lia | exact Hv |].
    rewrite E. cbn [obind]. rewrite set_nth_some by exact Hb. cbn [obind]. eexists; split; [reflexivity|].
    assert (HL : lanes_of (upd (d_len s / 32) (d_sto s) w') = upd (d_len s) (lanes_of (d_sto s)) (v mod 4)).
    { rewrite (lanes_of_upd_lane _ _ (d_len s mod 32) w' (v mod 4)); [| exact Hb | lia | exact D]. f_equal. lia. }
    assert (HiL : (d_len s < length (lanes_of (d_sto s)))%nat) by (rewrite lanes_of_length; lia).
    split.
    + unfold d_inv. cbn [d_sto d_len]. rewrite upd_length by exact Hb. split; [|split].
      * rewrite Hbl'. destruct (Nat.eqb_spec (S (d_len s) mod 32) 0); lia.
      * apply Forall_upd; assumption.
      * rewrite HL, skipn_upd by lia.
        replace (S (d_len s)) with (d_len s + 1)%nat by lia. rewrite <- skipn_skipn, Hpad.
        replace (32 * length (d_sto s) - d_len s)%nat with (S (32 * length (d_sto s) - (d_len s + 1))) by lia. reflexivity.
    + unfold d_abs. cbn [d_sto d_len]. rewrite HL. apply firstn_S_upd. exact HiL.
Qed.

(* ---------------------------------------------------------------- push_all, packing, extend *)
Lemma mod4_id b : b < 4 -> b mod 4 = b.
Proof. intro H. now apply N.mod_small. Qed.
Lemma map_mod4_id l : wf_dna l -> map (fun b => b mod 4) l = l.
Proof.
  intro H. rewrite <- (map_id l) at 2. apply map_ext_in. intros b Hb. apply mod4_id.
  unfold wf_dna in H. rewrite Forall_forall in H. auto.
Qed.

Theorem d_push_all_spec l : forall s, d_inv s -> Forall (fun b => b < 256) l ->
  exists s', d_push_all s l = Some s' /\ d_inv s' /\ d_abs s' = d_abs s ++ map (fun b => b mod 4) l.
Proof.
  induction l as [|b l IH]; intros s Hinv Hl.
  - exists s. cbn [d_push_all map]. rewrite app_nil_r. auto.
  - inversion Hl; subst. destruct (d_push_spec s b Hinv H1) as [s1 [E1 [I1 A1]]].
    destruct (IH s1 I1 H2) as [s2 [E2 [I2 A2]]]. exists s2. cbn [d_push_all]. rewrite E1. cbn [obind].
    split; [exact E2|]. split; [exact I2|]. rewrite A2, A1, <- app_assoc. reflexivity.
Qed.

Lemma d_pack_spec l : forall p val, wf_dna l -> (length p + length l <= 32)%nat -> val < two64 ->
  decode 32 val = p ++ repeat 0 (32 - length p) ->
  exists w, d_pack l (62 - 2 * length p) val = Some w /\ w < two64 /\
            decode 32 w = p ++ l ++ repeat 0 (32 - length p - length l).
Proof.
  induction l as [|b l IH]; intros p val Hl Hlen Hv Hd.
  - exists val. cbn [d_pack app length]. rewrite Nat.sub_0_r. auto.
  - inversion Hl; subst. cbn [length] in Hlen. cbn [d_pack].
    destruct (N.ltb_spec b 4) as [_|?]; [|lia].
    assert (Hm : (length p < 32)%nat) by lia.
    assert (Hz : nth (length p) (decode 32 val) 0 = 0).
    { rewrite Hd, app_nth2, Nat.sub_diag by lia. destruct (32 - length p)%nat eqn:E; [lia|]. reflexivity. }
    destruct (pack_step_spec val (length p) b Hv Hm H1 Hz) as [W D].
    destruct (IH (p ++ [b]) (N.lor val (N.shiftl b (N.of_nat (62 - 2 * length p))))) as [w [E [Ww Dw]]]; auto.
    + rewrite app_length. cbn [length]. lia.
    + rewrite D, Hd. unfold upd. rewrite firstn_app_exact by reflexivity.
      rewrite skipn_app. rewrite skipn_all2 by lia. cbn [app].
      replace (S (length p) - length p)%nat with 1%nat by lia.
      rewrite app_length. cbn [length]. rewrite <- app_assoc. cbn [app]. f_equal. f_equal.
      destruct (32 - length p)%nat eqn:E; [lia|]. cbn [repeat skipn]. f_equal. lia.
    + exists w. rewrite app_length in E. cbn [length] in E.
      replace (62 - 2 * length p - 2)%nat with (62 - 2 * (length p + 1))%nat by lia.
      split; [exact E|]. split; [exact Ww|]. rewrite Dw, app_length. cbn [length].
      rewrite <- app_assoc. cbn [app]. f_equal. f_equal. f_equal. f_equal. lia.
Qed.

Lemma d_inv_len0 s : d_inv s -> (d_len s mod 32 = 0)%nat -> length (lanes_of (d_sto s)) = d_len s.
Proof.
  intros [Hlen _] Hz. rewrite lanes_of_length, Hlen, d_blocks_eq. destruct (Nat.eqb_spec (d_len s mod 32) 0); lia.
Qed.

Theorem d_extend_blocks_spec fuel : forall s l, d_inv s -> (d_len s mod 32 = 0)%nat -> wf_dna l -> (length l < fuel)%nat ->
  exists s', d_extend_blocks fuel s l = Some s' /\ d_inv s' /\ d_abs s' = d_abs s ++ l.
Proof.
  induction fuel as [|fuel IH]; intros s l Hinv Hz Hl Hf; [lia|].
  destruct l as [|b l'].
  - exists s. cbn [d_extend_blocks]. rewrite app_nil_r. auto.
  - set (l := b :: l') in *. cbn [d_extend_blocks]. fold l.
    change (match l with [] => Some s | _ :: _ => _ end) with
      (do val <- d_pack (firstn 32 l) 62 0;
       d_extend_blocks fuel {| d_sto := d_sto s ++ [val]; d_len := (d_len s + length (firstn 32 l))%nat |} (skipn 32 l)).
    assert (Hg : wf_dna (firstn 32 l)).
    { unfold wf_dna in *. rewrite Forall_forall in *. intros x Hx. apply Hl. eapply in_firstn; eauto. }
    assert (Hgl : (length (firstn 32 l) <= 32)%nat) by (rewrite firstn_length; lia).
    destruct (d_pack_spec (firstn 32 l) [] 0 Hg) as [w [E [W D]]]; [cbn [length]; lia | unfold two64; lia | apply decode_zero32 |].
    change (62 - 2 * length (@nil N))%nat with 62%nat in E. change (length (@nil N)) with 0%nat in D.
    rewrite Nat.sub_0_r in D. cbn [app] in D. rewrite E. cbn [obind].
    pose proof (d_inv_len0 s Hinv Hz) as HL. destruct Hinv as [Hlen [Hw Hpad]].
    set (g := firstn 32 l) in *.
    assert (Hgpos : (0 < length g)%nat) by (subst g l; cbn [firstn length]; lia).
    set (s1 := {| d_sto := d_sto s ++ [w]; d_len := (d_len s + length g)%nat |}).
    assert (I1 : d_inv s1).
    { unfold d_inv, s1. cbn [d_sto d_len]. rewrite app_length. cbn [length]. split; [|split].
      - rewrite Hlen, !d_blocks_eq. destruct (Nat.eqb_spec (d_len s mod 32) 0); [|lia].
        destruct (Nat.eqb_spec ((d_len s + length g) mod 32) 0); lia.
      - apply Forall_app. split; [exact Hw | constructor; [exact W | constructor]].
      - rewrite lanes_of_app, skipn_app, HL. rewrite skipn_all2 by lia. cbn [app].
        replace (d_len s + length g - d_len s)%nat with (length g) by lia.
        unfold lanes_of. cbn [map concat]. rewrite app_nil_r, D. rewrite skipn_app_exact by reflexivity. f_equal.
        pose proof (lanes_of_length (d_sto s)). lia. }
    assert (A1 : d_abs s1 = d_abs s ++ g).
    { unfold d_abs, s1. cbn [d_sto d_len]. rewrite lanes_of_app, firstn_app, HL.
      rewrite (firstn_all2 (n := (d_len s + length g)%nat)) by lia. rewrite (firstn_all2 (n := d_len s)) by lia. f_equal.
      replace (d_len s + length g - d_len s)%nat with (length g) by lia.
      unfold lanes_of. cbn [map concat]. rewrite app_nil_r, D. apply firstn_app_exact. reflexivity. }
    destruct (skipn 32 l) as [|c r] eqn:Er.
    + (* that was the last group *)
      exists s1. destruct fuel; cbn [d_extend_blocks]; (split; [reflexivity|]); (split; [exact I1|]);
        rewrite A1; f_equal; subst g; rewrite <- (firstn_skipn 32 l) at 2; rewrite Er; now rewrite app_nil_r.
    + assert (Hfull : length g = 32%nat).
      { subst g. rewrite firstn_length. assert (length (skipn 32 l) <> 0)%nat by (rewrite Er; cbn; lia).
        rewrite skipn_length in H. lia. }
      destruct (IH s1 (c :: r) I1) as [s2 [E2 [I2 A2]]].
      * unfold s1. cbn [d_len]. lia.
      * rewrite <- Er. unfold wf_dna in *. rewrite Forall_forall in *. intros x Hx. apply Hl. eapply in_skipn; eauto.
      * assert (Hsk : length (skipn 32 l) = S (length r)) by (rewrite Er; reflexivity).
        rewrite skipn_length in Hsk. cbn [length]. lia.
      * exists s2. split; [exact E2|]. split; [exact I2|]. rewrite A2, A1, <- app_assoc. f_equal.
        subst g. rewrite <- Er. apply firstn_skipn.
Qed.

Lemma d_extend_fill_spec l : forall s, d_inv s -> Forall (fun b => b < 256) l ->
  exists s' pre rest, d_extend_fill s l = Some (s', rest) /\ l = pre ++ rest /\ d_inv s' /\
    d_abs s' = d_abs s ++ map (fun b => b mod 4) pre /\ (rest = [] \/ (d_len s' mod 32 = 0)%nat).
Proof.
  induction l as [|b l IH]; intros s Hinv Hl.
  - exists s, [], []. cbn [d_extend_fill]. destruct (Nat.eqb (d_len s mod 32) 0); cbn [map app]; rewrite app_nil_r;
      (split; [reflexivity|]); (split; [reflexivity|]); (split; [exact Hinv|]); (split; [reflexivity | now left]).
  - cbn [d_extend_fill]. destruct (Nat.eqb_spec (d_len s mod 32) 0) as [Hz|Hnz].
    + exists s, [], (b :: l). cbn [map app]. rewrite app_nil_r.
      split; [reflexivity|]. split; [reflexivity|]. split; [exact Hinv|]. split; [reflexivity | now right].
    + inversion Hl; subst. destruct (d_push_spec s b Hinv H1) as [s1 [E1 [I1 A1]]]. rewrite E1. cbn [obind].
      destruct (IH s1 I1 H2) as [s2 [pre [rest [E2 [Hsplit [I2 [A2 Hr]]]]]]].
      exists s2, (b :: pre), rest. split; [exact E2|]. split; [cbn [app]; now f_equal|]. split; [exact I2|].
      split; [|exact Hr]. rewrite A2, A1, <- app_assoc. reflexivity.
Qed.

(* extend: succeeds on bases < 4 and appends them *)
Theorem d_extend_spec s l : d_inv s -> wf_dna l ->
  exists s', d_extend s l = Some s' /\ d_inv s' /\ d_abs s' = d_abs s ++ l.
Proof.
  intros Hinv Hl.
  assert (Hl256 : Forall (fun b => b < 256) l).
  { unfold wf_dna in Hl. rewrite Forall_forall in *. intros b Hb. specialize (Hl b Hb). lia. }
  destruct (d_extend_fill_spec l s Hinv Hl256) as [s1 [pre [rest [E1 [Hsplit [I1 [A1 Hr]]]]]]].
  unfold d_extend. rewrite E1. cbn [obind fst snd].
  assert (Hpre : wf_dna pre /\ wf_dna rest).
  { subst l. unfold wf_dna in *. apply Forall_app in Hl. exact Hl. }
  destruct Hpre as [Hp Hrest]. rewrite (map_mod4_id pre Hp) in A1.
  destruct Hr as [->|Hz].
  - exists s1. cbn [d_extend_blocks]. rewrite app_nil_r in Hsplit. subst pre. auto.
  - destruct (d_extend_blocks_spec (S (length l)) s1 rest I1 Hz Hrest) as [s2 [E2 [I2 A2]]].
    + subst l. rewrite app_length. lia.
    + exists s2. split; [exact E2|]. split; [exact I2|]. rewrite A2, A1, <- app_assoc. now subst l.
Qed.

Theorem d_from_bytes_spec l : wf_dna l -> exists s, d_from_bytes l = Some s /\ d_inv s /\ d_abs s = l.
Proof. intro Hl. destruct (d_extend_spec d_new l d_inv_new Hl) as [s [E [I A]]]. exists s. auto. Qed.

Lemma d_inv_blank n : d_inv (d_blank n) /\ d_abs (d_blank n) = repeat 0 n.
Proof.
  assert (HL : forall m, lanes_of (repeat 0 m) = repeat 0 (32 * m)).
  { induction m as [|m IH]; [reflexivity|]. cbn [repeat]. rewrite lanes_of_cons, IH, decode_zero32.
    rewrite <- repeat_app. f_equal. lia. }
  pose proof (d_blocks_bounds n) as [B1 B2].
  split.
  - unfold d_inv, d_blank. cbn [d_sto d_len]. rewrite repeat_length. split; [reflexivity|]. split.
    + apply Forall_forall. intros w Hw. apply repeat_spec in Hw. subst. unfold two64. lia.
    + rewrite HL. replace (32 * d_blocks n)%nat with (n + (32 * d_blocks n - n))%nat at 1 by lia.
      rewrite repeat_app. apply skipn_app_exact. now rewrite repeat_length.
  - unfold d_abs, d_blank. cbn [d_sto d_len]. rewrite HL.
    replace (32 * d_blocks n)%nat with (n + (32 * d_blocks n - n))%nat by lia.
    rewrite repeat_app. apply firstn_app_exact. now rewrite repeat_length.
Qed.

Theorem d_reverse_spec s : d_inv s -> exists s', d_reverse s = Some s' /\ d_inv s' /\ d_abs s' = rev (d_abs s).
Proof.
  intro Hinv. unfold d_reverse. rewrite (d_to_bytes_spec s Hinv). cbn [obind].
  pose proof (d_abs_wf s) as Hwf.
  destruct (d_push_all_spec (rev (d_abs s)) d_new d_inv_new) as [s' [E [I A]]].
  { apply Forall_forall. intros b Hb. apply in_rev in Hb. unfold wf_dna in Hwf. rewrite Forall_forall in Hwf.
    specialize (Hwf b Hb). lia. }
  exists s'. split; [exact E|]. split; [exact I|]. rewrite A. cbn [d_abs d_new d_len firstn app].
  apply map_mod4_id. unfold wf_dna in *. rewrite Forall_forall in *. intros b Hb. apply Hwf. now apply in_rev.
Qed.

Theorem d_rc_spec s : d_inv s -> exists s', d_rc s = Some s' /\ d_inv s' /\ d_abs s' = rc (d_abs s).
Proof.
  intro Hinv. unfold d_rc. rewrite (d_to_bytes_spec s Hinv). cbn [obind].
  destruct (d_extend_spec d_new (map (fun b => 3 - b) (rev (d_abs s))) d_inv_new) as [s' [E [I A]]].
  { apply Forall_forall. intros b Hb. apply in_map_iff in Hb as [x [<- _]]. lia. }
  exists s'. split; [exact E|]. split; [exact I|]. rewrite A. reflexivity.
Qed.

(* ---------------------------------------------------------------- push_bytes, histories *)
From DBG Require Import Algo.SeqHist.

Lemma land3_lt x : N.land x 3 < 4.
Proof. change 3 with (N.ones 2). rewrite N.land_ones. apply N.mod_lt. discriminate. Qed.

Theorem d_push_bytes_spec s bytes n : d_inv s -> (n <= length bytes * 8 / 2)%nat ->
  exists s', d_push_bytes s bytes n = Some s' /\ d_inv s' /\ d_abs s' = d_abs s ++ unpack_bytes bytes n.
Proof.
  intros Hinv Hn. unfold d_push_bytes. destruct (Nat.leb_spec n (length bytes * 8 / 2)) as [_|?]; [|lia]. cbn [negb].
  fold (unpack_bytes bytes n).
  assert (Hu : wf_dna (unpack_bytes bytes n)).
  { apply Forall_forall. intros b Hb. apply in_map_iff in Hb as [i [<- _]]. apply land3_lt. }
  destruct (d_push_all_spec (unpack_bytes bytes n) s Hinv) as [s' [E [I A]]].
  { unfold wf_dna in Hu. rewrite Forall_forall in *. intros b Hb. specialize (Hu b Hb). lia. }
  exists s'. split; [exact E|]. split; [exact I|]. rewrite A. f_equal. now apply map_mod4_id.
Qed.

(* guards of a history step: values are u8; bulk extend / from_bytes need bases < 4 (the code asserts) *)
Definition dop_ok (len : nat) (o : dop) : bool :=
  match o with
  | DPush b => b <? 256
  | DExtend l | DFromBytes l => wf_dnab l
  | DPushBytes l n => Nat.leb n (length l * 8 / 2)
  | DSet i b => Nat.ltb i len && (b <? 256)
  | DClear | DBlank _ | DReverse | DRc => true
  end.
Fixpoint dops_ok (len : nat) (ops : list dop) : bool :=
  match ops with
  | [] => true
  | o :: r => dop_ok len o && dops_ok (length (sdstep (repeat 0 len) o)) r
  end.

Lemma wf_dnab_ok' l : wf_dnab l = true -> wf_dna l.
Proof. unfold wf_dnab, wf_dna. rewrite forallb_forall, Forall_forall. intros H b Hb. apply N.ltb_lt. auto. Qed.

Theorem dstep_refines s o : d_inv s -> dop_ok (d_len s) o = true ->
  exists s', dstep s o = Some s' /\ d_inv s' /\ d_abs s' = sdstep (d_abs s) o.
Proof.
  intros Hinv Hok. destruct o as [b|l|l n|i b| |n|l| | ]; cbn [dop_ok dstep sdstep] in *.
  - apply N.ltb_lt in Hok. apply (d_push_spec s b Hinv Hok).
  - apply (d_extend_spec s l Hinv (wf_dnab_ok' l Hok)).
  - apply Nat.leb_le in Hok. apply (d_push_bytes_spec s l n Hinv Hok).
  - apply andb_prop in Hok as [H1 H2]. rewrite H1. apply Nat.ltb_lt in H1. apply N.ltb_lt in H2.
    apply (d_set_mut_spec s i b Hinv H1 H2).
  - exists d_new. split; [reflexivity|]. split; [apply d_inv_new | reflexivity].
  - exists (d_blank n). split; [reflexivity|]. apply d_inv_blank.
  - apply (d_from_bytes_spec l (wf_dnab_ok' l Hok)).
  - apply (d_reverse_spec s Hinv).
  - apply (d_rc_spec s Hinv).
Qed.

(* the guard only depends on the current length, which the list side tracks *)
Lemma sdstep_length l l' o : length l = length l' -> length (sdstep l o) = length (sdstep l' o).
Proof.
  intro H. destruct o; cbn [sdstep]; rewrite ?app_length, ?rev_length, ?rc_length, ?repeat_length; auto.
  unfold upd. rewrite !app_length, !firstn_length. cbn [length]. rewrite !skipn_length. lia.
Qed.

Theorem dsteps_refines ops : forall s, d_inv s -> dops_ok (d_len s) ops = true ->
  exists s', dsteps s ops = Some s' /\ d_inv s' /\ d_abs s' = fold_left sdstep ops (d_abs s).
Proof.
  induction ops as [|o ops IH]; intros s Hinv Hok.
  - exists s. auto.
  - cbn [dops_ok] in Hok. apply andb_prop in Hok as [Ho Hr].
    destruct (dstep_refines s o Hinv Ho) as [s1 [E1 [I1 A1]]].
    assert (Hlen1 : d_len s1 = length (sdstep (repeat 0 (d_len s)) o)).
    { rewrite <- (d_abs_length s1 I1), A1. apply sdstep_length. rewrite repeat_length. apply (d_abs_length s Hinv). }
    rewrite <- Hlen1 in Hr. destruct (IH s1 I1 Hr) as [s2 [E2 [I2 A2]]].
    exists s2. cbn [dsteps fold_left]. rewrite E1. split; [exact E2|]. split; [exact I2|]. now rewrite A2, A1.
Qed.

(* every in-range history from the empty string: the invariant holds and the contents are the list result *)
Theorem d_history ops : dops_ok 0 ops = true ->
  exists s, dsteps d_new ops = Some s /\ d_inv s /\ d_abs s = fold_left sdstep ops [].
Proof. intro H. apply (dsteps_refines ops d_new d_inv_new H). Qed.

(* ---------------------------------------------------------------- equality and hash input *)
Lemma nlist_cmp_eq a : forall b, nlist_cmp a b = Eq <-> a = b.
Proof.
  induction a as [|x a IH]; destruct b as [|y b]; cbn; split; intro H; try discriminate; auto.
  - destruct (N.compare_spec x y); try discriminate. subst. f_equal. now apply IH.
  - injection H as -> ->. rewrite N.compare_refl. now apply IH.
Qed.

Lemma lanes_of_inj a : forall b, Forall (fun w => w < two64) a -> Forall (fun w => w < two64) b ->
  lanes_of a = lanes_of b -> a = b.
Proof.
  induction a as [|x a IH]; destruct b as [|y b]; intros Ha Hb H; auto.
  - apply (f_equal (@length N)) in H. rewrite !lanes_of_length in H. cbn in H. lia.
  - apply (f_equal (@length N)) in H. rewrite !lanes_of_length in H. cbn in H. lia.
  - apply Forall_cons_iff in Ha as [Hx Ha]. apply Forall_cons_iff in Hb as [Hy Hb]. rewrite !lanes_of_cons in H.
    assert (E : decode 32 x = decode 32 y /\ lanes_of a = lanes_of b).
    { apply app_inj_length; [now rewrite !decode_length | exact H]. }
    destruct E as [E1 E2]. f_equal; [apply (decode_inj 32); try apply wf64; assumption | apply IH; assumption].
Qed.

Theorem d_eq_iff a b : d_inv a -> d_inv b -> (d_eq a b = true <-> d_abs a = d_abs b).
Proof.
  intros Ia Ib. unfold d_eq, d_cmp. split.
  - destruct (nlist_cmp (d_sto a) (d_sto b)) eqn:E; try discriminate.
    apply nlist_cmp_eq in E. destruct (Nat.compare_spec (d_len a) (d_len b)); try discriminate.
    intros _. unfold d_abs. congruence.
  - intro H. assert (Hl : d_len a = d_len b) by (rewrite <- (d_abs_length a Ia), <- (d_abs_length b Ib); now rewrite H).
    assert (Hs : d_sto a = d_sto b).
    { destruct Ia as [La [Wa Pa]]. destruct Ib as [Lb [Wb Pb]]. apply lanes_of_inj; try assumption.
      rewrite <- (firstn_skipn (d_len a) (lanes_of (d_sto a))), <- (firstn_skipn (d_len b) (lanes_of (d_sto b))).
      unfold d_abs in H. rewrite H, Pa, Pb, La, Lb, Hl. reflexivity. }
    rewrite Hs, Hl. rewrite (proj2 (nlist_cmp_eq _ _) eq_refl). now rewrite Nat.compare_refl.
Qed.

Theorem d_hash_feed_inj a b : d_inv a -> d_inv b -> (d_hash_feed a = d_hash_feed b <-> d_abs a = d_abs b).
Proof.
  intros Ia Ib. rewrite <- (d_eq_iff a b Ia Ib). unfold d_hash_feed, d_eq, d_cmp. split.
  - intro H. injection H as Hn H. apply app_inj_tail in H as [Hs Hl].
    rewrite Hs. rewrite (proj2 (nlist_cmp_eq _ _) eq_refl). apply Nat2N.inj in Hl. rewrite Hl. now rewrite Nat.compare_refl.
  - destruct (nlist_cmp (d_sto a) (d_sto b)) eqn:E; try discriminate.
    apply nlist_cmp_eq in E. destruct (Nat.compare_spec (d_len a) (d_len b)); try discriminate. intros _. congruence.
Qed.

(* ---------------------------------------------------------------- ordering *)
Lemma dna_compare_app p : forall q r s, length p = length q ->
  dna_compare (p ++ r) (q ++ s) = match dna_compare p q with Eq => dna_compare r s | c => c end.
Proof.
  induction p as [|x p IH]; destruct q as [|y q]; intros r s Hl; try discriminate; [reflexivity|].
  cbn [app dna_compare]. destruct (x ?= y); auto.
Qed.
Lemma nlist_cmp_lanes a : forall b, Forall (fun w => w < two64) a -> Forall (fun w => w < two64) b ->
  nlist_cmp a b = dna_compare (lanes_of a) (lanes_of b).
Proof.
  induction a as [|x a IH]; destruct b as [|y b]; intros Ha Hb; try reflexivity.
  apply Forall_cons_iff in Ha as [Hx Ha]. apply Forall_cons_iff in Hb as [Hy Hb].
    rewrite !lanes_of_cons. rewrite dna_compare_app by now rewrite !decode_length.
    cbn [nlist_cmp]. rewrite (compare_lex 32 x y) by (apply wf64; assumption).
    rewrite IH by assumption. reflexivity.
Qed.
Lemma zeros_not_gt k : forall X, (k <= length X)%nat -> dna_compare (repeat 0 k) X <> Gt.
Proof.
  induction k as [|k IH]; intros X Hk.
  - destruct X; cbn; discriminate.
  - destruct X as [|y X]; [cbn in Hk; lia|]. cbn [repeat dna_compare].
    destruct (N.compare_spec 0 y); try discriminate; try lia. apply IH. cbn in Hk. lia.
Qed.
Lemma zeros_not_lt k : forall X, (k <= length X)%nat -> dna_compare X (repeat 0 k) <> Lt.
Proof.
  intros X Hk H. rewrite dna_compare_antisym in H. apply (zeros_not_gt k X Hk).
  destruct (dna_compare (repeat 0 k) X); cbn in H; try discriminate; reflexivity.
Qed.

Lemma pad_compare A : forall B m n,
  ((length A <= length B)%nat -> (length A + m <= length B + n)%nat) ->
  ((length B <= length A)%nat -> (length B + n <= length A + m)%nat) ->
  match dna_compare (A ++ repeat 0 m) (B ++ repeat 0 n) with Eq => Nat.compare (length A) (length B) | c => c end
  = dna_compare A B.
Proof.
  induction A as [|x A IH]; intros B m n H1 H2.
  - destruct B as [|y B].
    + cbn [app length] in *. assert (m = n) by lia. subst. rewrite dna_compare_refl. reflexivity.
    + cbn [length] in *. change ([] ++ repeat 0 m) with (repeat 0 m). change (dna_compare [] (y :: B)) with Lt.
      destruct (dna_compare (repeat 0 m) ((y :: B) ++ repeat 0 n)) eqn:E; try reflexivity.
      exfalso. apply (zeros_not_gt m ((y :: B) ++ repeat 0 n)); [|exact E].
      rewrite app_length, repeat_length. cbn [length]. lia.
  - destruct B as [|y B].
    + cbn [length] in *. change ([] ++ repeat 0 n) with (repeat 0 n). change (dna_compare (x :: A) []) with Gt.
      destruct (dna_compare ((x :: A) ++ repeat 0 m) (repeat 0 n)) eqn:E; try reflexivity.
      exfalso. apply (zeros_not_lt n ((x :: A) ++ repeat 0 m)); [|exact E].
      rewrite app_length, repeat_length. cbn [length]. lia.
    + cbn [app dna_compare length] in *. destruct (x ?= y); try reflexivity.
      apply IH; intro; [apply le_S_n, H1 | apply le_S_n, H2]; cbn; lia.
Qed.

Theorem d_cmp_lex a b : d_inv a -> d_inv b -> d_cmp a b = dna_compare (d_abs a) (d_abs b).
Proof.
  intros Ia Ib. pose proof (d_abs_length a Ia) as La. pose proof (d_abs_length b Ib) as Lb.
  destruct Ia as [Na [Wa Pa]]. destruct Ib as [Nb [Wb Pb]].
  unfold d_cmp. rewrite (nlist_cmp_lanes _ _ Wa Wb).
  assert (Ea : lanes_of (d_sto a) = d_abs a ++ repeat 0 (32 * length (d_sto a) - d_len a)).
  { rewrite <- Pa. symmetry. apply firstn_skipn. }
  assert (Eb : lanes_of (d_sto b) = d_abs b ++ repeat 0 (32 * length (d_sto b) - d_len b)).
  { rewrite <- Pb. symmetry. apply firstn_skipn. }
  rewrite Ea, Eb.
  replace (Nat.compare (d_len a) (d_len b)) with (Nat.compare (length (d_abs a)) (length (d_abs b))) by congruence.
  pose proof (d_blocks_bounds (d_len a)). pose proof (d_blocks_bounds (d_len b)).
  apply pad_compare; rewrite La, Lb, Na, Nb; intro; rewrite !d_blocks_eq in *;
    destruct (Nat.eqb_spec (d_len a mod 32) 0), (Nat.eqb_spec (d_len b mod 32) 0); lia.
Qed.
