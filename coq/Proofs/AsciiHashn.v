(* C16: the hashed-N constructor.  The hasher is a Section variable: H name pos stands for
   DefaultHasher fed with the read name (as a [u8] slice) and then the position (usize), finish(). *)
From Coq Require Import NArith List Bool Arith Lia.
From DBG Require Import Gen.SourceConsts Spec.Dna Spec.Ascii Packed.KmerModel Packed.Avx2Model Packed.AsciiModel
  Proofs.ListFacts Proofs.AsciiConvert Proofs.AsciiPaths Proofs.AsciiPush.
Import ListNotations.
Open Scope N_scope.

Section HashnSpec.
Variable H : list N -> nat -> N.

(* the bases the constructor stores: position k.. paired with the bytes *)
Definition hashn_bases (name : list N) (k : nat) (bytes : list N) : list N :=
  map (fun p => hashn_base H name (fst p) (snd p)) (combine (seq k (length bytes)) bytes).

Lemma hashn_bases_cons name k c bs :
  hashn_bases name k (c :: bs) = hashn_base H name k c :: hashn_bases name (S k) bs.
Proof. reflexivity. Qed.

(* ACGT (either case) is left alone; anything else becomes hash mod 4 - a function of (name, pos) only *)
Lemma hashn_base_ok name pos c : c < 256 ->
  hashn_base H name pos c = if ascii_valid c then ascii_base c else H name pos mod 4.
Proof.
  intro Hc. unfold hashn_base. destruct (tables_ok c Hc) as (_ & _ & ->).
  destruct (ascii_valid c).
  - now rewrite (proj2 (N.ltb_lt _ _) (ascii_base_lt4 c)).
  - change (4 <? 4) with false. cbv iota. change hashn_modulus with 4.
    apply N.mod_small. apply N.lt_trans with 4; [apply N.mod_lt; lia | reflexivity].
Qed.
Lemma hashn_base_lt4 name pos c : c < 256 -> hashn_base H name pos c < 4.
Proof.
  intro Hc. rewrite hashn_base_ok by exact Hc. destruct (ascii_valid c); [apply ascii_base_lt4 | apply N.mod_lt; lia].
Qed.

Lemma hashn_bases_wf name bytes : Forall (fun b => b < 256) bytes -> forall k, wf_dna (hashn_bases name k bytes).
Proof.
  intro Hb. induction Hb as [|c bs Hc Hbs IH]; intro k; [constructor|].
  rewrite hashn_bases_cons. constructor; [now apply hashn_base_lt4 | apply IH].
Qed.
Lemma hashn_bases_length name bytes : forall k, length (hashn_bases name k bytes) = length bytes.
Proof. intro k. unfold hashn_bases. now rewrite map_length, combine_length, seq_length, Nat.min_id. Qed.

Lemma fold_push_map {A} (g : A -> N) ps : forall init,
  fold_left (fun acc p => do d <- acc; ds_push d (g p)) ps init =
  fold_left (fun a b => do d <- a; ds_push d b) (map g ps) init.
Proof. induction ps as [|p ps IH]; intro init; [reflexivity | apply IH]. Qed.

Theorem hashn_spec bytes name : Forall (fun b => b < 256) bytes ->
  from_acgt_bytes_hashn H bytes name = Some (ds_of_dna (hashn_bases name 0 bytes)) /\
  length (hashn_bases name 0 bytes) = length bytes /\
  forall pos c, nth_error bytes pos = Some c ->
    nth pos (hashn_bases name 0 bytes) 0 = (if ascii_valid c then ascii_base c else H name pos mod 4) /\
    nth pos (hashn_bases name 0 bytes) 0 < 4.
Proof.
  intro Hb. split; [| split].
  - unfold from_acgt_bytes_hashn.
    rewrite (fold_push_map (fun p => hashn_base H name (fst p) (snd p))).
    change ds_new with (ds_of_dna []). rewrite push_all; [reflexivity | constructor | now apply hashn_bases_wf].
  - apply hashn_bases_length.
  - intros pos c Hp.
    assert (Hlt : (pos < length bytes)%nat) by (apply nth_error_Some; congruence).
    assert (Hc : c < 256) by (rewrite Forall_forall in Hb; apply Hb; eapply nth_error_In; eauto).
    assert (E : nth pos (hashn_bases name 0 bytes) 0 = hashn_base H name pos c).
    { unfold hashn_bases.
      rewrite (nth_map_in (fun p => hashn_base H name (fst p) (snd p)) _ 0 (0%nat, 0) pos)
        by (rewrite combine_length, seq_length; lia).
      rewrite combine_nth by now rewrite seq_length. cbn [fst snd]. rewrite seq_nth by exact Hlt.
      now rewrite (nth_error_nth _ _ 0 Hp). }
    rewrite E. split; [now apply hashn_base_ok | now apply hashn_base_lt4].
Qed.

(* determinism and locality: two byte strings under one read name get the same substitution wherever both
   have a non-ACGT byte at the same position *)
Corollary hashn_local_spec name b1 b2 pos c1 c2 :
  Forall (fun b => b < 256) b1 -> Forall (fun b => b < 256) b2 ->
  nth_error b1 pos = Some c1 -> nth_error b2 pos = Some c2 -> ascii_valid c1 = false -> ascii_valid c2 = false ->
  nth pos (hashn_bases name 0 b1) 0 = nth pos (hashn_bases name 0 b2) 0.
Proof.
  intros H1 H2 E1 E2 V1 V2.
  destruct (hashn_spec b1 name H1) as (_ & _ & S1). destruct (hashn_spec b2 name H2) as (_ & _ & S2).
  rewrite (proj1 (S1 _ _ E1)), (proj1 (S2 _ _ E2)), V1, V2. reflexivity.
Qed.

(* the contract checkers run by the correspondence check accept exactly this behaviour *)
Lemma hashn_ok_bases name bytes : Forall (fun b => b < 256) bytes -> forall k,
  hashn_ok bytes (hashn_bases name k bytes) = true.
Proof.
  intro Hb. induction Hb as [|c bs Hc Hbs IH]; intro k; [reflexivity|].
  rewrite hashn_bases_cons. cbn [hashn_ok]. rewrite IH, andb_true_r.
  rewrite (proj2 (N.ltb_lt _ _) (hashn_base_lt4 name k c Hc)). cbn [andb].
  rewrite hashn_base_ok by exact Hc. destruct (ascii_valid c); [apply N.eqb_refl | reflexivity].
Qed.
Lemma hashn_local_bases name b1 : Forall (fun b => b < 256) b1 -> forall b2 k, Forall (fun b => b < 256) b2 ->
  hashn_local b1 (hashn_bases name k b1) b2 (hashn_bases name k b2) = true.
Proof.
  intro H1. induction H1 as [|c1 bs1 Hc1 Hbs1 IH]; intros b2 k H2; [reflexivity|].
  destruct H2 as [|c2 bs2 Hc2 Hbs2]; [reflexivity|].
  rewrite !hashn_bases_cons. cbn [hashn_local]. rewrite IH by exact Hbs2. rewrite andb_true_r.
  rewrite !hashn_base_ok by assumption.
  destruct (ascii_valid c1), (ascii_valid c2); cbn [negb andb]; try reflexivity. apply N.eqb_refl.
Qed.
End HashnSpec.
