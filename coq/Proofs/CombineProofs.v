(* C04 link lemmas on the graph side: pruning per shard never removes an extension that the global pruning keeps
   (sharded_prune_sound); BaseGraph::combine is concatenation and, shards having disjoint k-mers, the combined graph
   has pairwise distinct k-mers, in particular distinct node ends (combine_spec). *)
From Coq Require Import NArith List Bool Arith Lia Permutation.
From DBG Require Import Spec.Dna Spec.GraphIndex Packed.ExtsModel Algo.KmerHist Algo.Compress Algo.GraphModel
  Check.GraphCheck Check.PipelineCheck Proofs.ListFacts Proofs.DnaFacts Proofs.PipelineCheckProofs Proofs.UnitigUnique.
Import ListNotations.
Open Scope N_scope.

(* ---- bits of a byte built by a fold of conditional "set bit" steps ---- *)
Lemma testbit_fold_set {A} (c : A -> bool) (pos : A -> N) l : forall e0 i,
  N.testbit (fold_left (fun e x => if c x then N.lor e (N.shiftl 1 (pos x)) else e) l e0) i =
  N.testbit e0 i || existsb (fun x => c x && (pos x =? i)) l.
Proof.
  induction l as [|x r IH]; intros e0 i; cbn [fold_left existsb]; [now rewrite orb_false_r|].
  rewrite IH. destruct (c x); cbn [andb]; [|reflexivity].
  rewrite N.lor_spec, N.shiftl_1_l, N.pow2_bits_eqb, <- orb_assoc. reflexivity.
Qed.
Lemma map_filter_comm' {A B} (f : A -> B) (p : B -> bool) l : map f (filter (fun x => p (f x)) l) = filter p (map f l).
Proof. induction l as [|x r IH]; [reflexivity|]. cbn [filter map]. destruct (p (f x)); cbn [map]; now rewrite IH. Qed.
Lemma fold_left_ext {A B} (f g : A -> B -> A) l : (forall a b, f a b = g a b) -> forall a, fold_left f l a = fold_left g l a.
Proof. intros H. induction l as [|x r IH]; intros a; [reflexivity|]. cbn. now rewrite H, IH. Qed.

Section Prune.
Variable stranded : bool.
Definition dirs8 : list (dir * N) :=
  [(DLeft, 0); (DLeft, 1); (DLeft, 2); (DLeft, 3); (DRight, 0); (DRight, 1); (DRight, 2); (DRight, 3)].
Definition bitpos (db : dir * N) : N := snd db + (if dirb (fst db) then 4 else 0).

(* bit i of the pruned byte is set iff it is the bit of an extension the k-mer has and whose target is kept *)
Lemma prune_exts_bit keep kmer exts i :
  N.testbit (prune_exts stranded keep kmer exts) i =
  existsb (fun db => (e_has_ext exts (dirb (fst db)) (snd db) && keep (canon_s stranded (extend kmer (snd db) (fst db))))
                     && (bitpos db =? i)) dirs8.
Proof.
  unfold prune_exts. fold dirs8.
  rewrite (fold_left_ext _ (fun e db => if e_has_ext exts (dirb (fst db)) (snd db) && keep (canon_s stranded (extend kmer (snd db) (fst db)))
                                        then N.lor e (N.shiftl 1 (bitpos db)) else e)).
  - rewrite testbit_fold_set. reflexivity.
  - intros a [d b]. reflexivity.
Qed.
Lemma prune_exts_mono keep1 keep2 kmer exts i : (forall x, keep1 x = true -> keep2 x = true) ->
  N.testbit (prune_exts stranded keep1 kmer exts) i = true -> N.testbit (prune_exts stranded keep2 kmer exts) i = true.
Proof.
  intros H. rewrite !prune_exts_bit, !existsb_exists. intros [db [Hdb Hc]]. exists db. split; [exact Hdb|].
  apply andb_true_iff in Hc as [Hc Hp]. apply andb_true_iff in Hc as [Hh Hk]. now rewrite Hh, (H _ Hk), Hp.
Qed.

Lemma key_in_filter (p : dna -> bool) keys x : key_in (filter p keys) x = key_in keys x && p x.
Proof.
  unfold key_in. induction keys as [|y r IH]; [reflexivity|]. cbn [filter existsb].
  destruct (p y) eqn:Ep; cbn [existsb]; rewrite IH; destruct (dna_eqb x y) eqn:E; cbn [orb]; try reflexivity.
  - apply dna_eqb_eq in E. subst. now rewrite Ep.
  - apply dna_eqb_eq in E. subst. rewrite Ep. now rewrite andb_false_r.
Qed.

(* Per-shard pruning (remove_censored_exts_sharded on the shard's valid keys and the shard's all_kmers, both being the
   part of the global lists with [inshard]) keeps every extension that the global pruning (remove_censored_exts on all
   valid keys) keeps: a target that is valid globally is either valid in this shard or not a k-mer of this shard. *)
Theorem sharded_prune_sound (inshard : dna -> bool) keys allk kmer exts i :
  N.testbit (prune_exts stranded (key_in keys) kmer exts) i = true ->
  N.testbit (prune_exts stranded (fun x => key_in (filter inshard keys) x || negb (key_in (filter inshard allk) x)) kmer exts) i = true.
Proof.
  apply prune_exts_mono. intros x Hx. rewrite !key_in_filter, Hx. cbn [andb].
  destruct (inshard x); [reflexivity|]. now rewrite andb_false_r.
Qed.
(* ... and it only ever removes extensions: what it keeps the k-mer had *)
Theorem prune_exts_sub keep kmer exts i : N.testbit (prune_exts stranded keep kmer exts) i = true ->
  exists d b, In (d, b) dirs8 /\ bitpos (d, b) = i /\ e_has_ext exts (dirb d) b = true /\
              keep (canon_s stranded (extend kmer b d)) = true.
Proof.
  rewrite prune_exts_bit, existsb_exists. intros [[d b] [Hdb Hc]].
  apply andb_true_iff in Hc as [Hc Hp]. apply andb_true_iff in Hc as [Hh Hk]. apply N.eqb_eq in Hp.
  exists d, b. auto.
Qed.

(* the same on the table functions of GraphModel.v: entry by entry *)
Corollary remove_censored_sharded_sound D (inshard : dna -> bool) (T : list (dna * N * D)) (allk : list dna) ent i :
  let Tb := filter (fun e => inshard (fst (fst e))) T in
  In ent Tb ->
  N.testbit (prune_exts stranded (key_in (map (fun e => fst (fst e)) T)) (fst (fst ent)) (snd (fst ent))) i = true ->
  exists ent', In ent' (remove_censored_exts_sharded D stranded Tb (filter inshard allk)) /\
    fst (fst ent') = fst (fst ent) /\ snd ent' = snd ent /\ N.testbit (snd (fst ent')) i = true.
Proof.
  intros Tb Hent Hbit.
  exists (fst (fst ent), prune_exts stranded (fun x => key_in (map (fun e => fst (fst e)) Tb) x ||
                                            negb (key_in (filter inshard allk) x)) (fst (fst ent)) (snd (fst ent)), snd ent).
  split; [|cbn [fst snd]; split; [reflexivity|split; [reflexivity|]]].
  - unfold remove_censored_exts_sharded. apply in_map_iff. exists ent. split; [reflexivity|exact Hent].
  - unfold Tb. rewrite (map_filter_comm' (fun e : dna * N * D => fst (fst e)) inshard).
    now apply sharded_prune_sound.
Qed.
End Prune.

(* ---- BaseGraph::combine ---- *)
Lemma NoDup_app_intro {A} (a b : list A) : NoDup a -> NoDup b -> (forall x, In x a -> ~ In x b) -> NoDup (a ++ b).
Proof.
  induction a as [|y a IH]; cbn; intros Ha Hb Hd; [exact Hb|].
  inversion Ha as [|? ? Hn Ha']; subst. constructor.
  - intros Hi. apply in_app_or in Hi as [Hi|Hi]; [now apply Hn|]. apply (Hd y); [now left|exact Hi].
  - apply IH; auto; intros x Hx; apply Hd; now right.
Qed.
Lemma NoDup_map_of_flat_map {A B} (f : A -> list B) (h : A -> B) l :
  NoDup (flat_map f l) -> (forall a, In a l -> In (h a) (f a)) -> NoDup (map h l).
Proof.
  induction l as [|a r IH]; cbn [flat_map map]; intros Hnd Hh; [constructor|].
  apply NoDup_app_inv in Hnd as [_ [Hr Hdis]]. constructor.
  - intros Hi. apply in_map_iff in Hi as [a' [Ea Ha']]. apply (Hdis (h a)); [apply Hh; now left|].
    apply in_flat_map. exists a'. split; [exact Ha'|]. rewrite <- Ea. apply Hh. now right.
  - apply IH; [exact Hr|]. intros a' Ha'. apply Hh. now right.
Qed.

Section Combine.
Variable K : nat.
Variable stranded : bool.
Local Notation gk := (graph_kmers K stranded).

Lemma combine_concat (gs : list (list node_t)) : combine_graphs gs = concat gs.
Proof. reflexivity. Qed.
Lemma graph_kmers_app g1 g2 : gk (g1 ++ g2) = gk g1 ++ gk g2.
Proof. unfold graph_kmers. apply flat_map_app. Qed.

(* shard graphs whose k-mers are duplicate-free and carry pairwise different shard ids combine into a graph with
   duplicate-free k-mers: node i of shard j is node (offset_j + i), nothing is identified *)
Theorem combine_spec (sh : dna -> N) (bs : list N) (gs : list (list node_t)) :
  NoDup bs ->
  Forall2 (fun b g => NoDup (gk g) /\ forall x, In x (gk g) -> sh x = b) bs gs ->
  NoDup (gk (combine_graphs gs)) /\
  (forall x, In x (gk (combine_graphs gs)) <-> exists g, In g gs /\ In x (gk g)) /\
  length (combine_graphs gs) = fold_right (fun g n => (length g + n)%nat) 0%nat gs.
Proof.
  intros Hbs H. rewrite combine_concat. split; [|split].
  - induction H as [|b g bs' gs' [Hg Hsh] Hrest IH]; [constructor|].
    inversion Hbs as [|? ? Hn Hbs']; subst. cbn [concat]. rewrite graph_kmers_app.
    apply NoDup_app_intro; [exact Hg|now apply IH|].
    intros x Hx Hx'. apply Hn. rewrite <- (Hsh x Hx).
    clear -Hrest Hx'. induction Hrest as [|b' g' bs'' gs'' [_ Hsh'] Hr IH]; [destruct Hx'|].
    cbn [concat] in Hx'. rewrite graph_kmers_app in Hx'. apply in_app_or in Hx' as [Hx'|Hx'].
    + left. symmetry. now apply Hsh'.
    + right. now apply IH.
  - intros x. unfold graph_kmers. rewrite in_flat_map. split.
    + intros [n [Hn Hx]]. apply in_concat in Hn as [g [Hg Hn]]. exists g. split; [exact Hg|].
      apply in_flat_map. now exists n.
    + intros [g [Hg Hx]]. apply in_flat_map in Hx as [n [Hn Hx]]. exists n. split; [|exact Hx].
      apply in_concat. now exists g.
  - clear. induction gs as [|g r IH]; [reflexivity|]. cbn [concat fold_right]. rewrite app_length. f_equal. exact IH.
Qed.

(* in particular the node ends the index (finish) is built from are pairwise distinct, even up to strand *)
Corollary distinct_ends g : (1 <= K)%nat -> Forall (node_wf K) g -> NoDup (gk g) ->
  NoDup (map (fun n => cn stranded (first_kmer K (nd_seq n))) g) /\
  NoDup (map (fun n => cn stranded (last_kmer K (nd_seq n))) g).
Proof.
  intros HK Hw Hnd. rewrite Forall_forall in Hw. split.
  - apply (NoDup_map_of_flat_map (node_kmers K stranded)); [exact Hnd|].
    intros n Hn. destruct (Hw _ Hn) as [_ Hl]. unfold node_kmers. apply in_map.
    unfold first_kmer, kmers. apply in_map_iff. exists 0%nat. split; [reflexivity|]. apply in_seq. lia.
  - apply (NoDup_map_of_flat_map (node_kmers K stranded)); [exact Hnd|].
    intros n Hn. destruct (Hw _ Hn) as [_ Hl]. unfold node_kmers. apply in_map.
    unfold last_kmer, kmers. apply in_map_iff. exists (length (nd_seq n) - K)%nat. split; [reflexivity|]. apply in_seq. lia.
Qed.
End Combine.
