(* C09, outputs of compress_graph (work package outmax), part 5: the theorems for LOOSELY valid inputs (dangling extension
   bits allowed), the hypothesis [cross_ok] derived from "every (canonical) k-mer occurs once among the surviving nodes",
   and the crate's own is_compressed test (Algo/IsCompressed.v) - the debug assertion at the end of compress_graph. *)
From Coq Require Import NArith List Bool Arith Lia Permutation.
From DBG Require Import Proofs.AbstractWalk.
From DBG Require Import Spec.Dna Spec.GraphIndex Packed.ExtsModel Algo.Compress Algo.GraphModel Algo.Recompress
  Algo.IsCompressed
  Spec.EdgeSpec Check.RecompCheck Check.RecompLooseCheck Proofs.ListFacts Proofs.DnaFacts Proofs.KmerAlgebra
  Proofs.ExtsProofs Proofs.RecompSweeps Proofs.ComposeSweeps
  Proofs.RecompressProofs Proofs.RecompIdem Proofs.GraphQueryProofs Proofs.WalkProofs Proofs.RecompKmers Proofs.RecompExts
  Proofs.RecompLoose Proofs.RecompLooseMain
  Proofs.RecompOut Proofs.RecompOutEnds Proofs.RecompOutMax Proofs.RecompOutValid.
Import ListNotations.
Local Open Scope nat_scope.

(* ---- list facts ------------------------------------------------------------------------------------------------------ *)
Lemma NoDup_concat_map_in {A B} (f : A -> list B) (l : list A) a b k :
  NoDup (concat (map f l)) -> In a l -> In b l -> In k (f a) -> In k (f b) -> a = b.
Proof.
  induction l as [|x l IH]; intros Hnd Ha Hb Hka Hkb; [destruct Ha|].
  cbn [map concat] in Hnd. apply NoDup_app_inv in Hnd as (_ & N2 & N3).
  assert (Hin : forall c, In c l -> In k (f c) -> In k (concat (map f l))).
  { intros c Hc Hk. apply in_concat. exists (f c). split; [now apply in_map | exact Hk]. }
  destruct Ha as [->|Ha], Hb as [->|Hb]; auto.
  - exfalso. apply (N3 k Hka). now apply (Hin b).
  - exfalso. apply (N3 k Hkb). now apply (Hin a).
Qed.
Lemma NoDup_concat_map_elem {A B} (f : A -> list B) (l : list A) a :
  NoDup (concat (map f l)) -> In a l -> NoDup (f a).
Proof.
  induction l as [|x l IH]; intros Hnd Ha; [destruct Ha|].
  cbn [map concat] in Hnd. apply NoDup_app_inv in Hnd as (N1 & N2 & _). destruct Ha as [->|Ha]; auto.
Qed.
Lemma NoDup_hd_last {A} (l : list A) d : NoDup l -> 2 <= length l -> hd d l <> last l d.
Proof.
  destruct l as [|a [|b l]]; cbn [length]; try lia. intros Hnd _ E. cbn [hd] in E.
  inversion Hnd as [|? ? Hn _]; subst. apply Hn. rewrite E. change (last (a :: b :: l) d) with (last (b :: l) d).
  apply last_in. discriminate.
Qed.
Lemma hd_map {A B} (f : A -> B) l d : hd (f d) (map f l) = f (hd d l).
Proof. destruct l; reflexivity. Qed.
Lemma last_map {A B} (f : A -> B) l d : last (map f l) (f d) = f (last l d).
Proof. induction l as [|a l IH]; [reflexivity|]. destruct l; [reflexivity|]. cbn [map] in *. exact IH. Qed.
Lemma fold_left_none {A B} (f : option A -> B -> option A) l :
  (forall b, In b l -> f None b = None) -> fold_left f l None = None.
Proof. induction l as [|b l IH]; intro H; [reflexivity|]. cbn [fold_left]. rewrite (H b (or_introl eq_refl)). apply IH. intros; apply H; now right. Qed.

Section Main.
Variable D : Type.
Variable reduce : D -> D -> D.
Variable join : D -> D -> bool.
Variable K : nat.
Variable stranded : bool.
Local Notation graph := (graph D).
Local Notation gnode := (gnode D).
Local Notation rnext := (rnext D join K stranded).
Local Notation pal_single := (RecompCheck.pal_single D K stranded).
Local Notation ext_link := (ext_link D K stranded).
Local Notation find_link := (GraphModel.find_link D K stranded).
Local Notation rvalid := (rvalid D K stranded).
Local Notation rvalid_loose := (rvalid_loose D K stranded).
Local Notation survivors := (survivors D).
Local Notation compress_graph_paths := (compress_graph_paths D reduce join K stranded).
Local Notation cross_ok := (cross_ok D K stranded).

(* ---- cross_ok from "every canonical k-mer once" ------------------------------------------------------------------- *)
Lemma term_in_kmers (s : dna) d : 1 <= K -> K <= length s -> In (term_kmer K s d) (kmers K s).
Proof.
  intros HK HL. pose proof (kmers_ne K s HK HL) as Hne. destruct d; cbn [term_kmer].
  - rewrite first_kmer_hd_ by assumption. destruct (kmers K s); [congruence | now left].
  - rewrite last_kmer_last_ by assumption. now apply last_in.
Qed.

Theorem nodup_kmers_cross_ok (g : graph) (S : list nat) :
  Forall (node_ok D K) g -> NoDup (surv_kmers D K stranded g S) -> cross_ok g S.
Proof.
  intros Hok Hnd St u w s nu nw Hu Hw Hnu Hnw E.
  set (f := fun i => match nth_error g i with Some n => node_kmers D K stranded n | None => [] end).
  change (NoDup (concat (map f S))) in Hnd.
  pose proof (node_ok_nth D K g u nu Hok Hnu) as (Wu & Lu & _).
  pose proof (node_ok_nth D K g w nw Hok Hnw) as (Ww & Lw & _).
  destruct (term_kmer_ok K (n_seq D nu) s Wu (proj2 Lu)) as [_ Wtu].
  assert (Ec : ck9 stranded (term_kmer K (n_seq D nw) (dflip s)) = ck9 stranded (term_kmer K (n_seq D nu) s)).
  { rewrite E. unfold ck9. rewrite St. now apply canon_rc. }
  assert (Hku : In (ck9 stranded (term_kmer K (n_seq D nu) s)) (f u)).
  { unfold f. rewrite Hnu. unfold node_kmers. apply in_map. apply term_in_kmers; lia. }
  assert (Hkw : In (ck9 stranded (term_kmer K (n_seq D nu) s)) (f w)).
  { unfold f. rewrite Hnw, <- Ec. unfold node_kmers. apply in_map. apply term_in_kmers; lia. }
  assert (Euw : w = u) by exact (NoDup_concat_map_in f S w u _ Hnd Hw Hu Hkw Hku).
  split; [exact Euw|]. subst w. assert (nw = nu) by congruence. subst nw.
  destruct (Nat.eq_dec (length (n_seq D nu)) K) as [El|Nl]; [exact El | exfalso].
  pose proof (NoDup_concat_map_elem f S u Hnd Hu) as Hndu. unfold f in Hndu. rewrite Hnu in Hndu. unfold node_kmers in Hndu.
  assert (Hlen : 2 <= length (map (ck9 stranded) (kmers K (n_seq D nu)))).
  { rewrite map_length. unfold kmers. rewrite map_length, seq_length. lia. }
  apply (NoDup_hd_last _ (ck9 stranded []) Hndu Hlen).
  rewrite hd_map, last_map, <- first_kmer_hd_, <- last_kmer_last_ by lia.
  destruct s; cbn [term_kmer dflip] in Ec; congruence.
Qed.

(* ---- the theorems under rvalid_loose -------------------------------------------------------------------------------- *)
Section Loose.
Hypothesis C : congruent D reduce join.
Let join_sym := congruent_sym D reduce join C.

(* no two distinct nodes of the result are mergeable *)
Theorem recompress_output_no_pair (g : graph) censor out paths :
  rvalid_loose g -> cross_ok g (survivors g censor) ->
  compress_graph_paths g censor = Some (out, paths) ->
  forall x d y t, rnext out x d = Some (y, t) -> y = x.
Proof.
  intros V X H.
  destruct (loose_bridge D reduce join K stranded g V) as (g' & Hp & V' & Hlen & Hseq & HS & HR & HC & HK).
  rewrite <- HC in H. rewrite <- HS in X. apply (cross_ok_seqs D K stranded g g') in X; [|exact Hseq].
  exact (recompress_out_no_pair_strict D reduce join K stranded join_sym C g' censor out paths V' X H).
Qed.

(* the result is a valid graph, with C03's distinct-ends condition *)
Theorem recompress_out_rvalid (g : graph) censor out paths :
  rvalid_loose g -> cross_ok g (survivors g censor) ->
  compress_graph_paths g censor = Some (out, paths) ->
  rvalid out /\ ends_ok D K stranded out.
Proof.
  intros V X H.
  destruct (loose_bridge D reduce join K stranded g V) as (g' & Hp & V' & Hlen & Hseq & HS & HR & HC & HK).
  rewrite <- HC in H. rewrite <- HS in X. apply (cross_ok_seqs D K stranded g g') in X; [|exact Hseq].
  exact (recompress_out_rvalid_strict D reduce join K stranded join_sym g' censor out paths V' X H).
Qed.

(* the result is a fixed point of compress_graph *)
Theorem recompress_twice (g : graph) censor out paths :
  rvalid_loose g -> cross_ok g (survivors g censor) ->
  compress_graph_paths g censor = Some (out, paths) ->
  compress_graph D reduce join K stranded out None = Some out.
Proof.
  intros V X H. apply (recompress_idempotent_full D reduce join K stranded join_sym).
  - exact (proj1 (recompress_out_rvalid g censor out paths V X H)).
  - exact (recompress_output_no_pair g censor out paths V X H).
Qed.
End Loose.

(* ---- is_compressed ---------------------------------------------------------------------------------------------------- *)
(* on a valid graph a single edge reported by find_edges is the sole extension on that side *)
Lemma find_edges_single (g : graph) i d n l :
  rvalid g -> nth_error g i = Some n -> find_edges D K stranded g i d = Some [l] ->
  e_num_ext_dir (n_exts D n) (dirb d) = 1%N /\
  exists b, e_get_unique_extension (n_exts D n) (dirb d) = Some b /\
            find_link g (extend (term_kmer K (n_seq D n) d) b d) d = Some l.
Proof.
  intros (Hok & _ & _ & _ & Hres & _) Hn He.
  pose proof (node_ok_nth D K g i n Hok Hn) as (_ & _ & Hlt).
  unfold find_edges in He. rewrite Hn in He. injection He as He.
  assert (Hr : forall b, In b bases4 -> e_has_ext (n_exts D n) (dirb d) b = true ->
                 exists l', find_link g (extend (term_kmer K (n_seq D n) d) b d) d = Some l').
  { intros b Hb Hh. specialize (Hres i d b n Hn Hb Hh). unfold RecompCheck.ext_link in Hres. rewrite Hn, Hh in Hres.
    destruct (find_link g _ d) as [l'|]; [eauto | congruence]. }
  assert (Hnum : e_num_ext_dir (n_exts D n) (dirb d) = 1%N).
  { rewrite (num_ext_count _ _ Hlt). unfold bases4. cbn [filter flat_map] in *.
    pose proof (Hr 0%N ltac:(cbn; auto)) as R0. pose proof (Hr 1%N ltac:(cbn; auto)) as R1.
    pose proof (Hr 2%N ltac:(cbn; auto)) as R2. pose proof (Hr 3%N ltac:(cbn; auto)) as R3.
    destruct (e_has_ext (n_exts D n) (dirb d) 0); [destruct (R0 eq_refl) as [l0 E0]; rewrite E0 in He|];
    (destruct (e_has_ext (n_exts D n) (dirb d) 1); [destruct (R1 eq_refl) as [l1 E1]; rewrite E1 in He|]);
    (destruct (e_has_ext (n_exts D n) (dirb d) 2); [destruct (R2 eq_refl) as [l2 E2]; rewrite E2 in He|]);
    (destruct (e_has_ext (n_exts D n) (dirb d) 3); [destruct (R3 eq_refl) as [l3 E3]; rewrite E3 in He|]);
    cbn [app] in He; try discriminate He; reflexivity. }
  split; [exact Hnum|].
  destruct (unique_ext_spec _ _ Hlt Hnum) as (b & Hb & Hu & Hh & Honly).
  exists b. split; [exact Hu|].
  destruct (Hr b Hb Hh) as [l' El']. rewrite El'. f_equal.
  assert (Hin : In l' [l]).
  { assert (He2 : flat_map (fun b => if e_has_ext (n_exts D n) (dirb d) b
                             then match find_link g (extend (term_kmer K (n_seq D n) d) b d) d with Some x => [x] | None => [] end
                             else []) bases4 = [l]) by exact He.
    rewrite <- He2. apply (proj2 (in_flat_map _ _ _)). exists b. split; [exact Hb|]. rewrite Hh, El'. now left. }
  destruct Hin as [<-|[]]. reflexivity.
Qed.

(* a pair reported by the crate's is_compressed test is a mergeable pair of distinct nodes in the sense of [rnext]
   (the converse does not hold: the palindrome exemptions of is_compressed do not depend on strandedness) *)
Theorem is_compressed_at_rnext (g : graph) i d nx :
  rvalid g -> is_compressed_at D join K stranded g i d = Some nx ->
  exists t, rnext g i d = Some (nx, t) /\ nx <> i.
Proof.
  intros V H. pose proof V as (Hok & _ & _ & Hpal & _ & _).
  unfold is_compressed_at in H.
  destruct (nth_error g i) as [n|] eqn:Hn; [|discriminate].
  destruct (find_edges D K stranded g i d) as [[|[[next_id return_dir] f] [|? ?]]|] eqn:He; try discriminate.
  destruct (nth_error g next_id) as [next|] eqn:Hm; [|discriminate].
  destruct (find_edges D K stranded g next_id return_dir) as [[|l' [|? ?]]|] eqn:He'; try discriminate.
  destruct (pal_single_node D K n) eqn:Pn; [discriminate|].
  destruct (pal_single_node D K next) eqn:Pm; [discriminate|].
  destruct (Nat.eqb i next_id) eqn:Ei; [discriminate|].
  destruct (join (n_data D n) (n_data D next)) eqn:Ej; [|discriminate].
  injection H as <-. apply Nat.eqb_neq in Ei.
  destruct (find_edges_single g i d n _ V Hn He) as (Hnum & b & Hu & Hfl).
  destruct (find_edges_single g next_id return_dir next _ V Hm He') as (Hnum' & _).
  exists return_dir. split; [|congruence].
  eapply (rnext_intro D join K stranded); eauto.
  - unfold RecompCheck.pal_single. unfold pal_single_node in Pn. rewrite <- andb_assoc, Pn. apply andb_false_r.
  - apply andb_negb_false. intro St.
    destruct (is_palindrome (extend (term_kmer K (n_seq D n) d) b d)) eqn:Pk; [exfalso | reflexivity].
    destruct (find_link_end D K stranded g _ _ _ _ _ Hfl) as (m' & Hm' & Hterm & _). assert (m' = next) by congruence. subst m'.
    pose proof (node_ok_nth D K g i n Hok Hn) as (Wn & Ln & Hlt).
    destruct (unique_ext_spec _ _ Hlt Hnum) as (b0 & Hb0 & Hu0 & _). assert (b0 = b) by congruence. subst b0.
    assert (Wk : wf_dna (extend (term_kmer K (n_seq D n) d) b d)).
    { apply extend_wf; [apply (term_kmer_ok K _ d Wn (proj2 Ln)) | now apply in_bases4_lt]. }
    assert (Pt : is_palindrome (term_kmer K (n_seq D next) return_dir) = true).
    { rewrite Hterm. destruct f; [now rewrite is_palindrome_rc | exact Pk]. }
    pose proof (Hpal St next return_dir (nth_error_In _ _ Hm) Pt) as Hl.
    unfold pal_single_node in Pm. rewrite Hl, Nat.eqb_refl in Pm. cbn [andb] in Pm.
    rewrite <- (RecompressProofs.term_kmer_single K _ return_dir Hl), Pt in Pm. discriminate.
Qed.

Theorem is_compressed_none_of_no_pair (g : graph) :
  rvalid g -> (forall x d y t, rnext g x d = Some (y, t) -> y = x) ->
  is_compressed D join K stranded g = None.
Proof.
  intros V Hno. unfold is_compressed. apply fold_left_none. intros i _.
  destruct (is_compressed_at D join K stranded g i DLeft) as [nx|] eqn:EL.
  { exfalso. destruct (is_compressed_at_rnext g i DLeft nx V EL) as (t & R & Hne). apply Hne. eapply Hno; eauto. }
  destruct (is_compressed_at D join K stranded g i DRight) as [nx|] eqn:ER; [|reflexivity].
  exfalso. destruct (is_compressed_at_rnext g i DRight nx V ER) as (t & R & Hne). apply Hne. eapply Hno; eauto.
Qed.

(* the debug assertion at the end of compress_graph cannot fire for a congruent spec *)
Theorem is_compressed_none (C : congruent D reduce join) (g : graph) censor out paths :
  rvalid_loose g -> cross_ok g (survivors g censor) ->
  compress_graph_paths g censor = Some (out, paths) ->
  is_compressed D join K stranded out = None.
Proof.
  intros V X H. apply is_compressed_none_of_no_pair.
  - exact (proj1 (recompress_out_rvalid C g censor out paths V X H)).
  - exact (recompress_output_no_pair C g censor out paths V X H).
Qed.
(* ---- where [cross_ok] comes from, and the corollaries in one statement --------------------------------------------- *)
Lemma ends_ok_cross_ok (g : graph) (S : list nat) : ends_ok D K stranded g -> cross_ok g S.
Proof.
  intros (_ & _ & X) St u w s nu nw _ _ Hnu Hnw E.
  assert (Hu : u < length g) by (apply nth_error_Some; congruence).
  assert (Hw : w < length g) by (apply nth_error_Some; congruence).
  specialize (X St u w s Hu Hw). unfold EdgeSpec.node_seq in X. rewrite Hnu, Hnw in X. exact (X E).
Qed.

(* every (canonical) k-mer once among the surviving nodes: everything holds, and the result carries every k-mer once again *)
Theorem recompress_outputs_kmers (C : congruent D reduce join) (g : graph) censor out paths :
  rvalid_loose g -> NoDup (surv_kmers D K stranded g (survivors g censor)) ->
  compress_graph_paths g censor = Some (out, paths) ->
  RecompCheck.out_maximal D join K stranded out /\ rvalid out /\ ends_ok D K stranded out /\
  is_compressed D join K stranded out = None /\
  compress_graph D reduce join K stranded out None = Some out /\
  RecompCheck.kmers_exact D K stranded g censor out.
Proof.
  intros V Hk H. assert (X : cross_ok g (survivors g censor)) by (apply nodup_kmers_cross_ok; [apply V | exact Hk]).
  split; [exact (recompress_output_no_pair C g censor out paths V X H)|].
  split; [exact (proj1 (recompress_out_rvalid C g censor out paths V X H))|].
  split; [exact (proj2 (recompress_out_rvalid C g censor out paths V X H))|].
  split; [exact (is_compressed_none C g censor out paths V X H)|].
  split; [exact (recompress_twice C g censor out paths V X H)|].
  exact (proj2 (recompress_kmers_exact_loose D reduce join K stranded (congruent_sym D reduce join C) g censor out paths V H) Hk).
Qed.

(* stranded graphs: no extra hypothesis *)
Theorem recompress_outputs_stranded (C : congruent D reduce join) (g : graph) censor out paths :
  stranded = true -> rvalid_loose g -> compress_graph_paths g censor = Some (out, paths) ->
  RecompCheck.out_maximal D join K stranded out /\ rvalid out /\ ends_ok D K stranded out /\
  is_compressed D join K stranded out = None /\
  compress_graph D reduce join K stranded out None = Some out.
Proof.
  intros St V H. assert (X : cross_ok g (survivors g censor)) by now apply cross_ok_stranded.
  split; [exact (recompress_output_no_pair C g censor out paths V X H)|].
  split; [exact (proj1 (recompress_out_rvalid C g censor out paths V X H))|].
  split; [exact (proj2 (recompress_out_rvalid C g censor out paths V X H))|].
  split; [exact (is_compressed_none C g censor out paths V X H)|].
  exact (recompress_twice C g censor out paths V X H).
Qed.
End Main.
