(* Block-level sweeps: the 64-bit kernels of Blocks.v for every in-block offset, values symbolic.
   A block is handled as the configuration c64 = (W=64, K=32), so the lifting lemmas of KmerOps apply. *)
From Coq Require Import NArith List Bool Arith Lia.
From DBG Require Import Bits.SymBV Spec.Dna Packed.KmerModel Packed.Blocks Packed.LmerModel Proofs.KmerLanes Proofs.KmerSweeps.
Import ListNotations.
Open Scope N_scope.

Definition chk_bget (oe : option wexp) (pos : nat) : bool :=
  match oe with
  | Some e => shifts_ok e && (let p := nth pos (stoS c64) (BF, BF) in sbv_eqb (evalS (bnd_k 32 0) e) [fst p; snd p])
  | None => false
  end.
Lemma sweep_block_get : forallb (fun pos => chk_bget (k_block_get pos (Var 0 64)) pos && chk_bget (k_ds_get (2 * pos) (Var 0 64)) pos) (seq 0 32) = true.
Proof. vm_compute. reflexivity. Qed.
(* block_set needs v < 4 (the value is not masked); set_by_addr masks the value itself (any u8) *)
Lemma sweep_block_set : forallb (fun pos =>
    lane_check c64 2 (k_block_set pos (Var 0 64) (Var 1 8)) (upd pos (stoS c64) baseS) &&
    lane_check c64 8 (k_ds_set (2 * pos) (Var 0 64) (Var 1 8)) (upd pos (stoS c64) baseS)) (seq 0 32) = true.
Proof. vm_compute. reflexivity. Qed.
(* window: (w << 2*bp) has the lanes of w from bp on, then zeros *)
Lemma sweep_window : forallb (fun bp =>
    lane_check c64 0 (Some (k_window bp (Var 0 64))) (skipn bp (stoS c64) ++ repeat (BF, BF) bp)) (seq 0 32) = true.
Proof. vm_compute. reflexivity. Qed.

(* one step of DnaString::extend's packing loop: val |= (b as u64) << offset, offset = 62 - 2m *)
Definition k_pack_step (off : nat) : wexp := Or (Var 0 64) (Shl 64 off (Var 1 8)).
Definition orlane (p q : bx * bx) : bx * bx := (mkor (fst p) (fst q), mkor (snd p) (snd q)).
Definition pack_spec (m : nat) : list (bx * bx) :=
  firstn m (stoS c64) ++ orlane (nth m (stoS c64) (BF, BF)) baseS :: skipn (S m) (stoS c64).
Lemma sweep_pack_step : forallb (fun m => lane_check c64 2 (Some (k_pack_step (62 - 2 * m))) (pack_spec m)) (seq 0 32) = true.
Proof. vm_compute. reflexivity. Qed.
