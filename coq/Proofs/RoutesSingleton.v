(* routes (1): the one-node-per-k-mer graph of a table.
   [nojoin_fixed]      compress_kmers with a join predicate that always refuses returns the table itself (one node per
                       k-mer, in table order, same extension byte, same payload);
   [singleton_rvalid]  hence (C03 valid_graph of compress_kmers outputs + C09X valid_graph_rvalid) a table meeting C01's
                       hypotheses whose extensions all lead to present k-mers IS a valid graph in C09's sense;
   [singleton_route_exact]  on such a table compress_graph (no censoring) and compress_kmers return the SAME list of
                       nodes - same sequences, extension bytes, payloads, order: both are the same run of
                       AbstractWalk.compress (Proofs/SingletonRoute.v) and both builders spell / fold / read the end
                       extensions of a node path in the same way. *)
From Coq Require Import NArith List Bool Arith Lia Permutation.
From DBG Require Import Proofs.AbstractWalk.
From DBG Require Import Spec.Dna Spec.GraphIndex Spec.Unitig Spec.CompressSpec Packed.ExtsModel Algo.Compress Algo.KmerHist
  Algo.GraphModel Algo.Recompress Spec.EdgeSpec Check.RecompCheck Check.RecompLooseCheck
  Proofs.ListFacts Proofs.DnaFacts Proofs.KmerAlgebra
  Proofs.CompressBasics Proofs.CompressRefine Proofs.CompressWalk Proofs.CompressProofs Proofs.CompressGraphOk
  Proofs.CompressValid Proofs.RecompSweeps Proofs.RecompCheckProofs Proofs.RecompressProofs Proofs.RecompIdem
  Proofs.RecompKmers Proofs.RecompExts Proofs.RecompLooseGraphOk Proofs.SingletonRoute.
Import ListNotations.
Local Open Scope nat_scope.

(* ---------------------------------------------------------------- never joining: one node per k-mer *)
Section NoJoin.
Variable D : Type.
Variable reduce : D -> D -> D.
Variable K : nat.
Variable stranded : bool.
Hypothesis HK : 1 <= K.
Variable T : table D.
Hypothesis Hok : tbl_ok D K stranded T.
Hypothesis Hsym : CompressSpec.exts_sym D stranded T.
Definition nojoin : D -> D -> bool := fun _ _ => false.
Local Notation U := (seq 0 (length T)).

Lemma knext_nojoin i d : knext D nojoin stranded T i d = None.
Proof.
  unfold knext. destruct (nth_error T i) as [ent|]; [|reflexivity].
  destruct (_ || _); [reflexivity|]. destruct (e_get_unique_extension _ _); [|reflexivity].
  destruct (get_id D T _) as [j|]; [|reflexivity]. destruct (nth_error T j); reflexivity.
Qed.
Lemma anext_nojoin i s : anext D nojoin stranded T i s = None.
Proof. unfold anext. now rewrite knext_nojoin. Qed.
Lemma aextend_nojoin fuel avail i s :
  AbstractWalk.extend nat Nat.eq_dec (anext D nojoin stranded T) fuel avail i s = ([], avail).
Proof. destruct fuel; cbn [AbstractWalk.extend]; [reflexivity|]. now rewrite anext_nojoin. Qed.
Lemma abuild_nojoin avail v :
  build nat Nat.eq_dec (anext D nojoin stranded T) avail v = ([], [], remove Nat.eq_dec v avail).
Proof. unfold build. now rewrite !aextend_nojoin. Qed.

Lemma struct_nojoin order : forall avail, NoDup order -> incl order avail ->
  compress_struct D nojoin stranded T order avail = map (fun v => ([], v, [])) order.
Proof.
  induction order as [|v o IH]; intros avail Hnd Hin; [reflexivity|]. cbn [compress_struct map].
  assert (Hm : mem nat Nat.eq_dec v avail = true) by (apply mem_In; apply Hin; now left). rewrite Hm, abuild_nojoin.
  inversion Hnd as [|? ? Hv Hnd']; subst. f_equal. apply IH; [exact Hnd'|].
  intros x Hx. apply in_in_remove; [intro E; subst x; contradiction | apply Hin; now right].
Qed.

Theorem nojoin_fixed : compress_kmers D reduce nojoin stranded T = Some T.
Proof.
  destruct (compress_refines D reduce nojoin K stranded HK T Hok Hsym) as [nodes [Hc Hrel]]. rewrite Hc. f_equal.
  rewrite struct_nojoin in Hrel by (apply seq_NoDup || apply incl_refl).
  pose proof (Forall2_length_ _ _ _ Hrel) as Hlen. rewrite map_length, seq_length in Hlen.
  apply nth_error_ext_. intro i. destruct (nth_error nodes i) as [n|] eqn:En.
  - destruct (Forall2_nth_elim _ _ _ _ _ Hrel En) as (x & Hx & Hr).
    assert (Hi : i < length T) by (rewrite <- Hlen; apply nth_error_Some; congruence).
    rewrite nth_error_map, (nth_error_nth' _ 0) in Hx by (now rewrite seq_length).
    rewrite seq_nth in Hx by exact Hi. cbn in Hx. injection Hx as <-.
    destruct Hr as (ent & He & ->). symmetry. etransitivity; [exact He|]. f_equal.
    assert (Hin : In ent T) by (eapply nth_error_In; eauto).
    unfold node_seq, node_exts, end_exts, node_data, pdata. cbn [map rev app flat_map fold_left last_out CompressRefine.sd fst snd CompressRefine.ds dir_eqb].
    unfold term_exts, kexts, kkey. cbn [fst snd CompressRefine.ds CompressRefine.sd dir_eqb dirb]. rewrite He, app_nil_r.
    rewrite single_dirs_id by (now apply (ok_exts _ _ _ _ Hok)). now destruct ent as [[k e] d].
  - symmetry. apply nth_error_None. apply nth_error_None in En. unfold node, entry, table in *. lia.
Qed.
End NoJoin.

(* ---------------------------------------------------------------- the table read as a graph is valid *)
Section SingletonValid.
Variable D : Type.
Variable K : nat.
Variable stranded : bool.
Hypothesis HK : 1 <= K.
Variable T : table D.
Hypothesis Hok : tbl_ok D K stranded T.
Hypothesis Hsym : CompressSpec.exts_sym D stranded T.
Hypothesis Hpal : exts_sym_pal D stranded T.
Hypothesis Hcl : exts_closed D stranded T.

Theorem singleton_valid_graph : valid_graph D K stranded T.
Proof.
  apply (nodes_valid_graph D (fun a _ => a) (nojoin D) K stranded HK (fun _ _ => eq_refl) T Hok Hsym Hpal Hcl T).
  now apply (nojoin_fixed D (fun a _ => a) K stranded HK T Hok Hsym).
Qed.

Theorem singleton_rvalid : rvalid D K stranded T.
Proof.
  apply valid_graph_rvalid; [exact singleton_valid_graph | |].
  - intros n Hn. now apply (ok_exts _ _ _ _ Hok).
  - intros _ n d Hn _. now apply (ok_len _ _ _ _ Hok).
Qed.
End SingletonValid.

(* ---------------------------------------------------------------- pure list facts: a sequence is spelled by its windows *)
Lemma seq_shift_add n : forall a b, map (fun i => i + b) (seq a n) = seq (a + b) n.
Proof. induction n as [|n IH]; intros a b; [reflexivity|]. cbn [seq map]. f_equal. apply (IH (S a) b). Qed.
Lemma skipn_nths {A} (d : A) (s : list A) : forall k, skipn k s = map (fun j => nth j s d) (seq k (length s - k)).
Proof.
  induction s as [|x s IH]; intro k; [now rewrite skipn_nil|]. destruct k as [|k].
  - cbn [skipn length Nat.sub seq map nth]. f_equal. rewrite <- seq_shift, map_map. specialize (IH 0).
    rewrite Nat.sub_0_r in IH. cbn [skipn] in IH. exact IH.
  - cbn [skipn length Nat.sub]. rewrite IH, <- seq_shift, map_map. reflexivity.
Qed.
Lemma spell_by_windows K (s : dna) : 1 <= K -> K <= length s ->
  s = hd [] (kmers K s) ++ map (fun w => last w 0%N) (tl (kmers K s)).
Proof.
  intros HK HL. unfold kmers. replace (length s + 1 - K) with (S (length s - K)) by lia.
  cbn [seq map hd tl]. rewrite <- seq_shift, !map_map.
  rewrite <- (firstn_skipn K s) at 1. f_equal.
  rewrite (skipn_nths 0%N s K). pose proof (seq_shift_add (length s - K) 0 K) as E. cbn [Nat.add] in E.
  rewrite <- E, map_map. apply map_ext_in.
  intros i Hi. apply in_seq in Hi. unfold kmer_at. rewrite <- nth_last, sub_length by lia.
  rewrite nth_sub by lia. f_equal. lia.
Qed.

(* ---------------------------------------------------------------- the two builders agree on a table read as a graph *)
Section Exact.
Variable D : Type.
Variable reduce : D -> D -> D.
Variable join : D -> D -> bool.
Variable K : nat.
Variable stranded : bool.
Hypothesis HK : 1 <= K.
Hypothesis join_sym : forall a b, join a b = join b a.
Variable T : table D.
Hypothesis Hok : tbl_ok D K stranded T.
Hypothesis Hsym : CompressSpec.exts_sym D stranded T.
Hypothesis Hval : rvalid D K stranded T.
Local Notation U := (seq 0 (length T)).
Local Notation kkey := (kkey D T).
Local Notation anext := (anext D join stranded T).
Local Notation wnext := (wnext D join K stranded T U).

Lemma ds_eq s : RecompressProofs.ds s = CompressRefine.ds s. Proof. destruct s; reflexivity. Qed.

(* the oriented sequence of a path element *)
Definition ow (x : nat * dir) : dna := orient DLeft (snd x) (kkey (fst x)).
Lemma ow_oriented x e : nth_error T (fst x) = Some e -> oriented D e (snd x) = ow x.
Proof.
  intro H. unfold ow, CompressRefine.kkey, orient. rewrite H. destruct (snd x); reflexivity.
Qed.
Lemma ow_len x : (exists e, nth_error T (fst x) = Some e) -> length (ow x) = K.
Proof.
  intros [e He]. unfold ow, CompressRefine.kkey, orient. rewrite He.
  assert (L : length (e_key D e) = K) by (apply (ok_len _ _ _ _ Hok); eapply nth_error_In; eauto).
  destruct (dir_eqb (snd x) DLeft); [exact L | now rewrite rc_length].
Qed.
Lemma skipn_last_ (w : dna) : length w = K -> skipn (K - 1) w = [last w 0%N].
Proof.
  intro L. rewrite (skipn_nths 0%N w (K - 1)). rewrite L. replace (K - (K - 1)) with 1 by lia. cbn [seq map].
  f_equal. rewrite <- nth_last. f_equal. lia.
Qed.
Lemma seq_path_single p : forall first, (forall x, In x p -> exists e, nth_error T (fst x) = Some e) ->
  sequence_of_path_from D K T first p =
  Some (match p with [] => [] | x :: r => (if first then ow x else [last (ow x) 0%N]) ++ map (fun y => last (ow y) 0%N) r end).
Proof.
  induction p as [|[i d] p IH]; intros first Hv; [reflexivity|]. cbn [sequence_of_path_from].
  destruct (Hv (i, d) (or_introl eq_refl)) as [e He]. cbn [fst] in He.
  unfold gnode, entry in *. rewrite He. rewrite (IH false) by (intros x Hx; apply Hv; now right).
  pose proof (ow_oriented (i, d) e He) as Eo. cbn [fst snd] in Eo. rewrite Eo. f_equal.
  assert (Hh : skipn (if first then 0 else K - 1) (ow (i, d)) = if first then ow (i, d) else [last (ow (i, d)) 0%N]).
  { destruct first; [reflexivity|]. apply skipn_last_. apply ow_len. cbn [fst]. eauto. }
  rewrite Hh. f_equal. destruct p as [|y r]; reflexivity.
Qed.

Lemma ow_assemble lp i rp : map ow (assemble lp i rp) = node_wins D T lp i rp.
Proof.
  unfold assemble, node_wins, cp. rewrite map_app, map_rev. cbn [map]. rewrite !map_map.
  assert (E1 : forall wt : nat * side, ow (flipc (fst wt, ds (snd wt))) = owin D T DLeft wt).
  { intros [w t]. unfold ow, flipc, owin. cbn [fst snd]. rewrite ds_eq. reflexivity. }
  assert (E2 : forall wt : nat * side, ow (fst wt, ds (snd wt)) = owin D T DRight wt).
  { intros [w t]. unfold ow, owin, orient. cbn [fst snd]. rewrite ds_eq. destruct (CompressRefine.ds t); reflexivity. }
  rewrite (map_ext _ _ E1), (map_ext _ _ E2). reflexivity.
Qed.

Lemma assemble_valid lp i rp e : nth_error T i = Some e -> valid_path D T lp -> valid_path D T rp ->
  forall x, In x (assemble lp i rp) -> exists e', nth_error T (fst x) = Some e'.
Proof.
  intros Hi HL HR x Hx. unfold assemble in Hx. apply in_app_or in Hx as [Hx|[<-|Hx]].
  - apply in_rev in Hx. unfold cp in Hx. rewrite map_map in Hx. apply in_map_iff in Hx as [wt [<- Hwt]]. cbn [fst flipc]. now apply HL.
  - cbn [fst]. eauto.
  - unfold cp in Hx. apply in_map_iff in Hx as [wt [<- Hwt]]. cbn [fst]. now apply HR.
Qed.

(* (a) the spelled sequence *)
Lemma spelled_node_seq lp i rp e : nth_error T i = Some e ->
  AbstractWalk.chain nat anext i L lp -> AbstractWalk.chain nat anext i R rp ->
  sequence_of_path D K T (assemble lp i rp) = Some (node_seq D T lp i rp).
Proof.
  intros Hi HcL HcR.
  pose proof (chain_valid D join stranded T i L lp HcL) as VL.
  pose proof (chain_valid D join stranded T i R rp HcR) as VR.
  unfold sequence_of_path. rewrite (seq_path_single _ true (assemble_valid lp i rp e Hi VL VR)). f_equal.
  destruct (node_spelling D join K stranded HK T Hok Hsym lp i rp e Hi HcL HcR) as (S1 & S2 & _ & _).
  rewrite (spell_by_windows K (node_seq D T lp i rp) HK) by lia. rewrite S1, <- ow_assemble.
  destruct (assemble lp i rp) as [|x r]; [reflexivity|]. cbn [map hd tl]. now rewrite map_map.
Qed.

(* (b) the payload fold *)
Lemma datas_flat ids : forall l, datas D T ids = Some l ->
  l = flat_map (fun i => match nth_error T i with Some e => [e_data D e] | None => [] end) ids.
Proof.
  induction ids as [|i r IH]; intros l H; cbn [datas flat_map] in *.
  { now injection H as <-. }
  change (@nth_error (gnode D) T i) with (@nth_error (entry D) T i) in H.
  destruct (@nth_error (entry D) T i) as [n|]; [|discriminate]. destruct (datas D T r) as [t|]; [|discriminate].
  injection H as <-. cbn [app]. f_equal. now apply IH.
Qed.
Lemma pdata_verts p : pdata D T p = flat_map (fun i => match nth_error T i with Some e => [e_data D e] | None => [] end) (verts nat p).
Proof. unfold pdata, verts. induction p as [|x p IH]; [reflexivity|]. cbn [flat_map map]. now rewrite IH. Qed.

(* (c) the terminal extensions *)
Lemma rb_last_dir_cp D0 i p :
  match rb_last_dir (cp p) with
  | None => CompressRefine.ds (snd (last_out nat i (CompressRefine.sd D0) p)) = D0
  | Some d => CompressRefine.ds (snd (last_out nat i (CompressRefine.sd D0) p)) = dflip d end.
Proof.
  revert i D0. induction p as [|[w t] p IH] using rev_ind; intros i D0.
  - cbn. apply CompressRefine.ds_sd.
  - unfold rb_last_dir, cp. rewrite map_app, rev_app_distr. cbn [map rev app fst snd].
    clear IH. revert i D0. induction p as [|[w' t'] p IH]; intros i D0; cbn [app last_out snd].
    + rewrite (ds_eq t). apply CompressRefine.ds_flip.
    + specialize (IH w' (CompressRefine.ds (flip t'))). now rewrite CompressRefine.sd_ds in IH.
Qed.
Lemma texts_term vd : texts D T vd = term_exts D T vd.
Proof.
  unfold texts, term_exts, kexts. rewrite ds_eq.
  change (@nth_error (gnode D) T (fst vd)) with (@nth_error (entry D) T (fst vd)).
  destruct (@nth_error (entry D) T (fst vd)); [reflexivity|]. destruct (CompressRefine.ds (snd vd)); reflexivity.
Qed.

Lemma built_node n lp i rp e : nth_error T i = Some e ->
  AbstractWalk.chain nat anext i L lp -> AbstractWalk.chain nat anext i R rp ->
  built D reduce K T n lp i rp ->
  n = (node_seq D T lp i rp, node_exts D T lp i rp, node_data D reduce T lp (e_data D e) rp).
Proof.
  intros Hi HcL HcR (Hs & (sd0 & dl & H0 & Hd & Hdat) & He).
  rewrite (spelled_node_seq lp i rp e Hi HcL HcR) in Hs. injection Hs as Hs.
  destruct n as [[sq ex] dt]. cbn [GraphModel.n_seq GraphModel.n_exts GraphModel.n_data fst snd] in *. subst sq. f_equal; [f_equal|].
  - rewrite He. unfold node_exts, end_exts. rewrite !texts_term. f_equal.
    + pose proof (rb_last_dir_cp DLeft i lp) as H. cbn [CompressRefine.sd] in H |- *.
      destruct (rb_last_dir (cp lp)) as [[|]|]; rewrite H; reflexivity.
    + pose proof (rb_last_dir_cp DRight i rp) as H. cbn [CompressRefine.sd] in H |- *.
      destruct (rb_last_dir (cp rp)) as [[|]|]; rewrite H; reflexivity.
  - rewrite Hdat. unfold gnode, entry in *. rewrite Hi in H0. cbn in H0. injection H0 as <-.
    unfold node_data. f_equal. rewrite (datas_flat _ _ Hd), pdata_verts. unfold verts. now rewrite map_app.
Qed.

(* ---- the outer loops ---- *)
Lemma restrict_all_ : restrict D K stranded T U = Some T.
Proof. exact (restrict_all D K stranded T Hok Hval). Qed.
Lemma winv_all : winv D K stranded T U.
Proof.
  apply (restrict_winv D K stranded T T U Hval); [|exact restrict_all_]. intros x Hx. apply in_seq in Hx. exact (proj2 Hx).
Qed.

Lemma loops_agree ids : forall avail, NoDup avail -> (forall x, In x avail -> In x U) ->
  exists r, rb_loop D reduce join K stranded T ids avail = Some r /\
            compress_loop D reduce join stranded T ids avail = Some (map fst r).
Proof.
  induction ids as [|i ids IH]; intros avail Hnd Hsub; cbn [rb_loop compress_loop]; [exists []; auto|].
  destruct (mem_nat i avail) eqn:Ei; [|now apply IH].
  apply mem_nat_In in Ei.
  assert (HiT : i < length T) by (apply Hsub in Ei; apply in_seq in Ei; lia).
  destruct (nth_error T i) as [e|] eqn:He; [|apply nth_error_None in He; lia].
  destruct (build nat Nat.eq_dec wnext avail i) as [[lp rp] a'] eqn:Eb.
  assert (Eb' : build nat Nat.eq_dec anext avail i = (lp, rp, a')).
  { rewrite <- Eb. symmetry. apply SingletonRoute.build_ext. exact (wnext_anext D join K stranded HK T Hok). }
  destruct (rb_build_spec D reduce join K stranded T U avail i lp rp a' winv_all Hsub Ei Eb) as (n & Hn & Hb).
  rewrite Hn.
  pose proof (build_node_refines D reduce join K stranded HK T Hok Hsym avail i e He) as Hk. rewrite Eb' in Hk. rewrite Hk.
  destruct (build_chains nat Nat.eq_dec anext avail i lp rp a' Hnd Eb') as (HcL & HcR & Hnd' & Hin').
  destruct (IH a' Hnd') as (r & Hr & Hc); [intros x Hx; apply Hsub; now apply Hin'|].
  rewrite Hr, Hc. eexists. split; [reflexivity|]. cbn [map fst]. f_equal. f_equal.
  rewrite (built_node n lp i rp e He HcL HcR Hb). reflexivity.
Qed.

Theorem singleton_route_exact :
  compress_graph D reduce join K stranded T None = compress_kmers D reduce join stranded T.
Proof.
  unfold compress_graph, compress_graph_paths, compress_kmers. cbn [initial_avail].
  change (@length (gnode D) T) with (@length (entry D) T).
  pose proof restrict_all_ as Hr. unfold restrict in Hr. rewrite Hr.
  destruct (loops_agree U U (seq_NoDup _ _) (fun x H => H)) as (r & Hrb & Hc). rewrite Hrb, Hc.
  rewrite (final_fix_exts_identity D reduce join K stranded join_sym T None T r Hval Hr Hrb). reflexivity.
Qed.
End Exact.

Print Assumptions nojoin_fixed.
Print Assumptions singleton_rvalid.
Print Assumptions singleton_route_exact.
