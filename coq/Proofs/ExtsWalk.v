(* Facts about extension bytes used by the walk proofs (C01/C02), exhaustively over the 256 values, lifted from
   vm_compute by forallb_forall (the domain is genuinely finite). *)
From Coq Require Import NArith List Bool Arith Lia.
From DBG Require Import Spec.Dna Packed.ExtsModel Proofs.ExtsProofs.
Import ListNotations.
Open Scope N_scope.

Definition bools : list bool := [false; true].
Lemma in_bools b : In b bools. Proof. destruct b; cbn; auto. Qed.

Ltac sweep3 E e He dir b Hb :=
  rewrite forallb_forall in E; specialize (E e (in_all_exts e He));
  rewrite forallb_forall in E; specialize (E dir (in_bools dir));
  rewrite forallb_forall in E; specialize (E b (in_bases4 b Hb)).
Ltac sweep2 E e He dir :=
  rewrite forallb_forall in E; specialize (E e (in_all_exts e He));
  rewrite forallb_forall in E; specialize (E dir (in_bools dir)).

Lemma unique_ext_spec e dir : e < 256 -> e_num_ext_dir e dir = 1 ->
  exists b, e_get_unique_extension e dir = Some b /\ b < 4 /\ e_has_ext e dir b = true /\
            forall c, c < 4 -> e_has_ext e dir c = true -> c = b.
Proof.
  intros He Hn.
  assert (E : forallb (fun e => forallb (fun dir =>
     if e_num_ext_dir e dir =? 1 then
       match e_get_unique_extension e dir with
       | Some b => (b <? 4) && e_has_ext e dir b && forallb (fun c => implb (e_has_ext e dir c) (c =? b)) bases4
       | None => false end
     else true) bools) all_exts = true) by (vm_compute; reflexivity).
  sweep2 E e He dir. rewrite Hn in E. cbn [N.eqb Pos.eqb] in E.
  destruct (e_get_unique_extension e dir) as [b|]; [|discriminate]. exists b.
  apply andb_prop in E as [E E3]. apply andb_prop in E as [E1 E2]. split; [reflexivity|].
  split; [now apply N.ltb_lt|]. split; [exact E2|]. intros c Hc Hh.
  rewrite forallb_forall in E3. specialize (E3 c (in_bases4 c Hc)). rewrite Hh in E3. now apply N.eqb_eq.
Qed.

Lemma has_ext_num e dir b : e < 256 -> b < 4 -> e_has_ext e dir b = true -> e_num_ext_dir e dir <> 0.
Proof.
  intros He Hb Hh.
  assert (E : forallb (fun e => forallb (fun dir => forallb (fun b =>
     implb (e_has_ext e dir b) (negb (e_num_ext_dir e dir =? 0))) bases4) bools) all_exts = true) by (vm_compute; reflexivity).
  sweep3 E e He dir b Hb. rewrite Hh in E. cbn in E. apply negb_true_iff in E. now apply N.eqb_neq.
Qed.

Lemma has_ext_rc e dir b : e < 256 -> b < 4 -> e_has_ext (e_rc e) (negb dir) (comp b) = e_has_ext e dir b.
Proof.
  intros He Hb.
  assert (E : forallb (fun e => forallb (fun dir => forallb (fun b =>
     Bool.eqb (e_has_ext (e_rc e) (negb dir) (comp b)) (e_has_ext e dir b)) bases4) bools) all_exts = true) by (vm_compute; reflexivity).
  sweep3 E e He dir b Hb. now apply eqb_prop.
Qed.

Lemma rc_lt256 e : e < 256 -> e_rc e < 256.
Proof. intro He. now apply rc_spec. Qed.

(* the extensions at one end, read on the other strand *)
Lemma single_dir_rc e dir : e < 256 -> e_single_dir (e_rc e) dir = e_complement (e_single_dir e (negb dir)).
Proof.
  intro He.
  assert (E : forallb (fun e => forallb (fun dir =>
     e_single_dir (e_rc e) dir =? e_complement (e_single_dir e (negb dir))) bools) all_exts = true) by (vm_compute; reflexivity).
  sweep2 E e He dir. now apply N.eqb_eq.
Qed.

(* bit b+4r of a byte is extension b on side r *)
Lemma has_ext_testbit e dir b : e < 256 -> b < 4 ->
  e_has_ext e dir b = N.testbit e (b + (if dir then 4 else 0)).
Proof.
  intros He Hb.
  assert (E : forallb (fun e => forallb (fun dir => forallb (fun b =>
     Bool.eqb (e_has_ext e dir b) (N.testbit e (b + (if dir then 4 else 0)))) bases4) bools) all_exts = true) by (vm_compute; reflexivity).
  sweep3 E e He dir b Hb. now apply eqb_prop.
Qed.
