(* C16: pack_32_bases packs 32 two-bit values big-endian, for every vector of values < 4.
   Reflection (Bits/SymBV.v): the kernel is re-run on 32 *symbolic* bytes.  The data movement intrinsics
   are the polymorphic definitions of the model themselves; the two arithmetic ones (slli_epi16,
   movemask_epi8) get a symbolic twin whose [evalN] is the model definition (lemmas *_commute). *)
From Coq Require Import NArith List Bool Arith Lia.
From DBG Require Import Bits.SymBV Gen.SourceConsts Spec.Dna Packed.KmerModel Packed.Avx2Model Packed.AsciiModel
  Proofs.ListFacts Proofs.KmerLanes.
Import ListNotations.
Open Scope N_scope.

(* ------------------------------------------------------------------ data movement commutes with any map *)
Section MoveMap.
Context {B C : Type} (f : B -> C) (zb : B) (zc : C) (Hz : f zb = zc).
Lemma nth_map_zero k a : nth k (map f a) zc = f (nth k a zb).
Proof. rewrite <- Hz. apply map_nth. Qed.
Lemma shuffle_map a ctrl : map f (shuffle_epi8_gen zb a ctrl) = shuffle_epi8_gen zc (map f a) ctrl.
Proof.
  unfold shuffle_epi8_gen. rewrite map_map. apply map_ext. intro i. cbv zeta.
  destruct (N.testbit (nth i ctrl 0) 7); [exact Hz | now rewrite nth_map_zero].
Qed.
Lemma permute_map a imm : map f (permute4x64_epi64_gen zb a imm) = permute4x64_epi64_gen zc (map f a) imm.
Proof. unfold permute4x64_epi64_gen. rewrite map_map. apply map_ext. intro i. cbv zeta. now rewrite nth_map_zero. Qed.
Lemma unpack_map off a b : map f (unpack_epi8_gen zb off a b) = unpack_epi8_gen zc off (map f a) (map f b).
Proof.
  unfold unpack_epi8_gen. rewrite map_map. apply map_ext. intro i. cbv zeta.
  destruct (Nat.even i); now rewrite nth_map_zero.
Qed.
End MoveMap.

(* ------------------------------------------------------------------ symbolic twins *)
Definition svec := list wexp.
Definition zeroS : wexp := Const 0.
Definition word16_s (a : svec) (j : nat) : wexp := Or (nth (2 * j) a zeroS) (Shl 16 8 (nth (2 * j + 1) a zeroS)).
Definition of_words16_s (f : nat -> wexp) : svec :=
  map (fun i => if Nat.even i then Trunc 8 (f (i / 2)%nat) else Shr 8 (f (i / 2)%nat)) (seq 0 32).
Definition slli_epi16_s (a : svec) (k : nat) : svec :=
  of_words16_s (fun j => if Nat.ltb 15 k then Const 0 else Shl 16 k (word16_s a j)).
Definition movemask_epi8_s (a : svec) : wexp :=
  fold_right (fun p acc => Or (Shl 32 (fst p) (Shr 7 (snd p))) acc) (Const 0) (combine (seq 0 32) a).
Definition pack_32_bases_s (bases : svec) : wexp :=
  let reversed := shuffle_epi8_gen zeroS bases reverse_mask in
  let permuted := permute4x64_epi64_gen zeroS reversed avx_permute_imm in
  let first_bits := slli_epi16_s permuted avx_slli_first in
  let second_bits := slli_epi16_s permuted avx_slli_second in
  let lo_half := unpack_epi8_gen zeroS 0 first_bits second_bits in
  let hi_half := unpack_epi8_gen zeroS 8 first_bits second_bits in
  Or (Shl 64 avx_hi_shift (movemask_epi8_s hi_half)) (movemask_epi8_s lo_half).

Section Commute.
Variable env : nat -> N.
Let ev := evalN env.
Lemma ev_zero : ev zeroS = 0. Proof. reflexivity. Qed.

Lemma word16_commute a j : ev (word16_s a j) = word16 (map ev a) j.
Proof. unfold word16_s, word16. cbn [ev evalN]. fold ev. now rewrite !(nth_map_zero ev zeroS 0 ev_zero). Qed.

Lemma slli_commute a k : map ev (slli_epi16_s a k) = slli_epi16 (map ev a) k.
Proof.
  unfold slli_epi16_s, slli_epi16, of_words16_s, of_words16. rewrite map_map. apply map_ext. intro i.
  destruct (Nat.even i), (Nat.ltb 15 k); cbn [ev evalN]; fold ev; rewrite ?word16_commute; reflexivity.
Qed.

Lemma movemask_commute_gen a : forall idx,
  ev (fold_right (fun p acc => Or (Shl 32 (fst p) (Shr 7 (snd p))) acc) (Const 0) (combine idx a)) =
  fold_right (fun p acc => N.lor (N.shiftl (N.shiftr (snd p) 7) (N.of_nat (fst p)) mod 2 ^ 32) acc) 0
             (combine idx (map ev a)).
Proof.
  induction a as [|x a IH]; intros [|i idx]; try reflexivity.
  cbn [combine map fold_right fst snd]. cbn [ev evalN]. fold ev. rewrite <- IH. reflexivity.
Qed.
Lemma movemask_commute a : ev (movemask_epi8_s a) = movemask_epi8 (map ev a).
Proof. apply movemask_commute_gen. Qed.

Lemma ev_final k hs ls h l : ev hs = h -> ev ls = l ->
  ev (Or (Shl 64 k hs) ls) = N.lor (N.shiftl h (N.of_nat k) mod 2 ^ 64) l.
Proof. intros <- <-. reflexivity. Qed.

Lemma permuted_commute a :
  map ev (permute4x64_epi64_gen zeroS (shuffle_epi8_gen zeroS a reverse_mask) avx_permute_imm) =
  permute4x64_epi64 (shuffle_epi8 (map ev a) reverse_mask) avx_permute_imm.
Proof.
  unfold permute4x64_epi64, shuffle_epi8.
  rewrite (permute_map ev zeroS 0 ev_zero), (shuffle_map ev zeroS 0 ev_zero). reflexivity.
Qed.

Lemma half_commute off p k1 k2 :
  ev (movemask_epi8_s (unpack_epi8_gen zeroS off (slli_epi16_s p k1) (slli_epi16_s p k2))) =
  movemask_epi8 (unpack_epi8_gen 0 off (slli_epi16 (map ev p) k1) (slli_epi16 (map ev p) k2)).
Proof. rewrite movemask_commute, (unpack_map ev zeroS 0 ev_zero), !slli_commute. reflexivity. Qed.

Lemma pack_commute a : ev (pack_32_bases_s a) = pack_32_bases (map ev a).
Proof.
  unfold pack_32_bases_s, pack_32_bases. cbv zeta. rewrite <- permuted_commute.
  apply ev_final; unfold unpacklo_epi8, unpackhi_epi8; apply half_commute.
Qed.
End Commute.

(* ------------------------------------------------------------------ the symbolic run *)
Definition pack_vars : svec := map (fun i => Var i 8) (seq 0 32).
Definition pack_bnd : nat -> nat := fun _ => 2%nat.
Definition pack_sym : sbv := evalS pack_bnd (pack_32_bases_s pack_vars).

(* lane j (from the top) of the result is byte j of the input, bits 0 and 1; nothing above bit 63 *)
Lemma pack_sym_lanes :
  lanes_eqb (lanesS 32 pack_sym) (map (fun i => (BV i 0, BV i 1)) (seq 0 32)) && wfS 32 pack_sym = true.
Proof. vm_compute. reflexivity. Qed.

Theorem pack_spec v : length v = 32%nat -> wf_dna v -> pack_32_bases v = pack_be v.
Proof.
  intros Hl Hv. set (env := fun i => nth i v 0).
  assert (Hb : forall i, env i < 4).
  { intro i. unfold env. destruct (Nat.ltb i (length v)) eqn:E.
    - apply Nat.ltb_lt in E. unfold wf_dna in Hv. rewrite Forall_forall in Hv. apply Hv. now apply nth_In.
    - apply Nat.ltb_ge in E. rewrite nth_overflow by exact E. reflexivity. }
  assert (Hvars : map (evalN env) pack_vars = v).
  { unfold pack_vars. rewrite map_map. transitivity (map (fun p => nth p v 0) (seq 0 (length v))); [| apply map_nth_seq].
    rewrite Hl. apply map_ext. intro i.
    cbn [evalN]. apply N.mod_small. specialize (Hb i). unfold env in *. change (2 ^ N.of_nat 8) with 256. lia. }
  rewrite <- Hvars at 1. rewrite <- pack_commute.
  set (n := evalN env (pack_32_bases_s pack_vars)).
  assert (HR : R (rho_of env) pack_sym n).
  { apply evalS_sound. intro i. exact (Hb i). }
  pose proof pack_sym_lanes as L. apply andb_prop in L as [L W]. apply lanes_eqb_eq in L.
  assert (Hd : decode 32 n = v).
  { rewrite (decode_R _ _ _ 32 HR), L, map_map.
    transitivity (map (fun p => nth p v 0) (seq 0 (length v))); [| apply map_nth_seq].
    rewrite Hl. apply map_ext. intro i. apply pv_var2. apply Hb. }
  pose proof (wf_R _ _ _ 32%nat HR W) as Hw.
  unfold pack_be. rewrite Hl. cbn [Nat.sub N.of_nat N.pow]. rewrite N.mul_1_r.
  rewrite <- Hd. symmetry. now apply rank_decode_wf.
Qed.
