(* Bridge between the two executable models of the packed DnaString of src/dna_string.rs:
     Packed/DnaStringModel.v (C14; k-mer extraction on it: Algo/Iter.v, C13) and
     Packed/AsciiModel.v     (C16, ASCII ingestion).
   The canonical packing [ds_of_dna l] of C16 satisfies the invariant of C14 and abstracts to [l]; the invariant
   of C14 determines the record (words and length) from the list; the boolean invariant of C16 is the Prop
   invariant of C14; and "ASCII -> DnaString -> k-mers" equals "ASCII -> k-mers". *)
From Coq Require Import NArith List Bool Arith Lia.
From DBG Require Import Gen.SourceConsts Spec.Dna Spec.Ascii Packed.KmerModel Packed.Avx2Model Packed.AsciiModel
  Packed.Blocks Packed.DnaStringModel Algo.SeqHist Algo.Iter
  Proofs.ListFacts Proofs.KmerLanes Proofs.KmerDefaults Proofs.KmerHistProofs Proofs.BlockProofs Proofs.DnaStringProofs
  Proofs.IterProofs Proofs.AsciiPaths Proofs.AsciiRender Proofs.AsciiPush Proofs.AsciiInv.
Import ListNotations.
Open Scope N_scope.

(* ---------------------------------------------------------------- the conversion *)
Definition to_d (x : AsciiModel.dstr) : DnaStringModel.dstr := {| d_sto := ds_storage x; d_len := ds_len x |}.
Definition of_d (s : DnaStringModel.dstr) : AsciiModel.dstr := mkds (d_sto s) (d_len s).

Lemma to_d_of_d s : to_d (of_d s) = s.
Proof. destruct s; reflexivity. Qed.
Lemma of_d_to_d x : of_d (to_d x) = x.
Proof. destruct x; reflexivity. Qed.
Lemma to_d_inj x y : to_d x = to_d y -> x = y.
Proof. intro H. rewrite <- (of_d_to_d x), <- (of_d_to_d y). now rewrite H. Qed.

(* ---------------------------------------------------------------- one block *)
Lemma rank_zeros n : rank (repeat 0 n) = 0.
Proof.
  induction n as [|n IH]; [reflexivity|]. cbn [repeat]. rewrite rank_cons, IH. lia.
Qed.

Lemma wf_dna_zeros n : wf_dna (repeat 0 n).
Proof. apply Forall_forall. intros b Hb. apply repeat_spec in Hb. subst. lia. Qed.

Lemma pack_be_rank g : pack_be g = rank (g ++ repeat 0 (32 - length g)).
Proof. unfold pack_be. rewrite rank_app, rank_zeros, repeat_length. lia. Qed.

(* the 32 lanes of a canonical block: the group, then zeros *)
Lemma decode_pack_be g : (length g <= 32)%nat -> wf_dna g -> decode 32 (pack_be g) = g ++ repeat 0 (32 - length g).
Proof.
  intros Hl Hw. rewrite pack_be_rank. apply decode_rank.
  - rewrite app_length, repeat_length. lia.
  - apply Forall_app. split; [exact Hw | apply wf_dna_zeros].
Qed.

(* ---------------------------------------------------------------- all blocks *)
Lemma lanes_chunks n : forall l, (length l <= n)%nat -> wf_dna l ->
  lanes_of (map pack_be (chunks 32 l)) = l ++ repeat 0 (32 * length (chunks 32 l) - length l).
Proof.
  induction n as [|n IH]; intros l Hn Hw.
  - destruct l; [reflexivity | cbn in Hn; lia].
  - destruct l as [|x l']; [reflexivity|]. set (L := x :: l') in *.
    assert (HL : L <> []) by discriminate.
    assert (Hpos : (1 <= length L)%nat) by (unfold L; cbn [length]; lia).
    destruct (Nat.ltb (length L) 32) eqn:E.
    + apply Nat.ltb_lt in E. rewrite chunks_one by (exact HL || lia). cbn [map length].
      rewrite lanes_of_cons. change (lanes_of []) with (@nil N). rewrite app_nil_r.
      rewrite decode_pack_be by (lia || exact Hw). f_equal; f_equal; lia.
    + apply Nat.ltb_ge in E. rewrite chunks_cons by exact HL. cbn [map length]. rewrite lanes_of_cons.
      assert (Hf : length (firstn 32 L) = 32%nat) by (rewrite firstn_length; lia).
      rewrite decode_pack_be by (rewrite ?Hf; try lia; now apply Forall_firstn_).
      rewrite Hf, Nat.sub_diag. cbn [repeat]. rewrite app_nil_r.
      rewrite IH by (try (now apply Forall_skipn_); rewrite skipn_length; lia).
      rewrite app_assoc, firstn_skipn. f_equal. f_equal. rewrite skipn_length.
      destruct (chunks_shape (length (skipn 32 L)) (skipn 32 L) (le_n _)) as [A _]. rewrite skipn_length in A.
      assert (Hge : (length L - 32 <= 32 * length (chunks 32 (skipn 32 L)))%nat).
      { rewrite A. pose proof (Nat.div_mod (length L - 32 + 31) 32 ltac:(lia)).
        pose proof (Nat.mod_upper_bound (length L - 32 + 31) 32 ltac:(lia)). lia. }
      lia.
Qed.

Lemma blocks_ceil n : d_blocks n = ((n + 31) / 32)%nat.
Proof.
  rewrite d_blocks_eq.
  pose proof (Nat.div_mod n 32 ltac:(lia)) as D. pose proof (Nat.mod_upper_bound n 32 ltac:(lia)) as M.
  destruct (Nat.eqb_spec (n mod 32) 0) as [E|E].
  - rewrite E in D. replace (n + 31)%nat with (31 + (n / 32) * 32)%nat by lia.
    rewrite Nat.div_add by lia. rewrite (Nat.div_small 31 32) by lia. lia.
  - replace (n + 31)%nat with ((n mod 32 - 1) + (n / 32 + 1) * 32)%nat by lia.
    rewrite Nat.div_add by lia. rewrite (Nat.div_small (n mod 32 - 1) 32) by lia. lia.
Qed.

Lemma chunks_blocks (l : list N) : length (chunks 32 l) = d_blocks (length l).
Proof. destruct (chunks_shape (length l) l (le_n _)) as [A _]. now rewrite A, blocks_ceil. Qed.

Lemma chunks_words_lt l : wf_dna l -> Forall (fun w => w < two64) (map pack_be (chunks 32 l)).
Proof.
  intro Hw. apply Forall_forall. intros x Hx. apply in_map_iff in Hx as [g [<- Hg]].
  destruct (chunks_elems _ _ _ Hg) as [C D]. apply pack_be_lt; [exact C|].
  unfold wf_dna in *. rewrite Forall_forall in *. auto.
Qed.

(* ---------------------------------------------------------------- GOAL 1 *)
Theorem bridge_of_dna l : wf_dna l -> d_inv (to_d (ds_of_dna l)) /\ d_abs (to_d (ds_of_dna l)) = l.
Proof.
  intro Hw. pose proof (lanes_chunks (length l) l (le_n _) Hw) as HL.
  unfold d_inv, d_abs, to_d, ds_of_dna. cbn [d_sto d_len ds_storage ds_len]. rewrite map_length. repeat split.
  - apply chunks_blocks.
  - now apply chunks_words_lt.
  - rewrite HL. now apply skipn_app_exact.
  - rewrite HL. now apply firstn_app_exact.
Qed.

(* ---------------------------------------------------------------- GOAL 2: the representation is unique *)
Theorem d_repr_unique a b : d_inv a -> d_inv b -> d_abs a = d_abs b -> a = b.
Proof.
  intros Ia Ib H.
  assert (Hl : d_len a = d_len b) by (rewrite <- (d_abs_length a Ia), <- (d_abs_length b Ib); now rewrite H).
  assert (Hs : d_sto a = d_sto b).
  { destruct Ia as [La [Wa Pa]]. destruct Ib as [Lb [Wb Pb]]. apply lanes_of_inj; try assumption.
    rewrite <- (firstn_skipn (d_len a) (lanes_of (d_sto a))), <- (firstn_skipn (d_len b) (lanes_of (d_sto b))).
    unfold d_abs in H. rewrite H, Pa, Pb, La, Lb, Hl. reflexivity. }
  destruct a, b. cbn in *. congruence.
Qed.

(* every value satisfying the invariant IS the canonical packing of its contents *)
Corollary d_inv_canonical s : d_inv s -> s = to_d (ds_of_dna (d_abs s)).
Proof.
  intro Hs. destruct (bridge_of_dna (d_abs s) (d_abs_wf s)) as [I A].
  apply d_repr_unique; [exact Hs | exact I | now rewrite A].
Qed.

Corollary bridge_from_bytes l : wf_dna l -> d_from_bytes l = Some (to_d (ds_of_dna l)).
Proof.
  intro Hw. destruct (d_from_bytes_spec l Hw) as [s [E [I A]]]. rewrite E. f_equal.
  rewrite (d_inv_canonical s I). now rewrite A.
Qed.

Corollary bridge_history ops : dops_ok 0 ops = true ->
  dsteps d_new ops = Some (to_d (ds_of_dna (fold_left sdstep ops []))).
Proof.
  intro H. destruct (d_history ops H) as [s [E [I A]]]. rewrite E. f_equal.
  rewrite (d_inv_canonical s I). now rewrite A.
Qed.

(* ---------------------------------------------------------------- GOAL 3: the two invariants *)
Lemma land_ones_bits w n : N.land w (2 ^ n - 1) = 0 -> forall i, i < n -> N.testbit w i = false.
Proof.
  intros H i Hi. replace (2 ^ n - 1) with (N.ones n) in H by (rewrite N.ones_equiv; lia).
  rewrite N.land_ones in H. rewrite <- (N.mod_pow2_bits_low w n i Hi), H. apply N.bits_0.
Qed.
Lemma bits_land_ones w n : (forall i, i < n -> N.testbit w i = false) -> N.land w (2 ^ n - 1) = 0.
Proof.
  intro H. replace (2 ^ n - 1) with (N.ones n) by (rewrite N.ones_equiv; lia).
  apply N.bits_inj. intro i. rewrite N.land_spec, N.bits_0.
  destruct (N.ltb_spec i n) as [Hi|Hi].
  - now rewrite H.
  - rewrite N.ones_spec_high by exact Hi. apply andb_false_r.
Qed.

Lemma lane_zero_bits w i : lane w i = 0 <->
  N.testbit w (N.of_nat (2 * i)) = false /\ N.testbit w (N.of_nat (2 * i + 1)) = false.
Proof.
  unfold lane. destruct (N.testbit w (N.of_nat (2 * i))), (N.testbit w (N.of_nat (2 * i + 1))); cbn; split;
    intro H; try discriminate; try (destruct H; discriminate); auto.
Qed.

Lemma nth_decode K w j d : (j < K)%nat -> nth j (decode K w) d = lane w (K - 1 - j).
Proof.
  intro H. unfold decode. rewrite (nth_indep _ d (lane w (K - 1 - K))) by (now rewrite map_length, seq_length).
  rewrite (map_nth (fun p => lane w (K - 1 - p)) (seq 0 K) K j). now rewrite seq_nth.
Qed.

(* the lanes k.. of a block are zero iff its low 64 - 2k bits are *)
Lemma tail_lanes_zero w k : (k <= 32)%nat ->
  (skipn k (decode 32 w) = repeat 0 (32 - k) <-> N.land w (2 ^ N.of_nat (64 - 2 * k) - 1) = 0).
Proof.
  intro Hk. split.
  - intro H. apply bits_land_ones. intros i Hi.
    assert (Hj : (N.to_nat i / 2 < 32 - k)%nat).
    { apply Nat.div_lt_upper_bound; lia. }
    assert (Hz : lane w (N.to_nat i / 2) = 0).
    { pose proof (f_equal (fun l => nth (32 - k - 1 - N.to_nat i / 2) l 0) H) as Hn. cbn beta in Hn.
      rewrite nth_skipn_', nth_repeat in Hn.
      rewrite nth_decode in Hn by lia. rewrite <- Hn. f_equal. lia. }
    apply lane_zero_bits in Hz as [Z0 Z1].
    pose proof (Nat.div_mod (N.to_nat i) 2 ltac:(lia)) as D.
    pose proof (Nat.mod_upper_bound (N.to_nat i) 2 ltac:(lia)) as M.
    destruct (Nat.eq_dec (N.to_nat i mod 2) 0) as [E|E].
    + replace i with (N.of_nat (2 * (N.to_nat i / 2))) by lia. exact Z0.
    + replace i with (N.of_nat (2 * (N.to_nat i / 2) + 1)) by lia. exact Z1.
  - intro H. pose proof (land_ones_bits _ _ H) as B.
    apply (nth_ext _ _ 0 0).
    + rewrite skipn_length, decode_length, repeat_length. reflexivity.
    + intros j Hj. rewrite skipn_length, decode_length in Hj.
      rewrite nth_skipn_', nth_repeat. rewrite nth_decode by lia.
      apply lane_zero_bits. split; apply B; lia.
Qed.

(* the padding clause of d_inv, in terms of the last block *)
Lemma pad_last sto len : length sto = d_blocks len ->
  (skipn len (lanes_of sto) = repeat 0 (32 * length sto - len) <->
   (if Nat.eqb (len mod 32) 0 then True
    else skipn (len mod 32) (decode 32 (last sto 0)) = repeat 0 (32 - len mod 32))).
Proof.
  intro Hlen. rewrite d_blocks_eq in Hlen.
  pose proof (Nat.div_mod len 32 ltac:(lia)) as D. pose proof (Nat.mod_upper_bound len 32 ltac:(lia)) as M.
  destruct (Nat.eqb_spec (len mod 32) 0) as [E|E].
  - split; [trivial|]. intros _. rewrite skipn_all2 by (rewrite lanes_of_length; lia).
    replace (32 * length sto - len)%nat with 0%nat by lia. reflexivity.
  - assert (Hne : sto <> []) by (intro Hn; subst sto; cbn in Hlen; lia).
    destruct (exists_last Hne) as [ini [w Es]]. subst sto. rewrite last_last.
    rewrite app_length in Hlen. cbn [length] in Hlen. rewrite app_length. cbn [length].
    rewrite lanes_of_app, lanes_of_cons. change (lanes_of []) with (@nil N). rewrite app_nil_r.
    rewrite skipn_app, lanes_of_length.
    rewrite (skipn_all2 (lanes_of ini)) by (rewrite lanes_of_length; lia). cbn [app].
    replace (len - 32 * length ini)%nat with (len mod 32)%nat by lia.
    replace (32 * (length ini + 1) - len)%nat with (32 - len mod 32)%nat by lia. tauto.
Qed.

Theorem bridge_inv x : ds_inv x = true <-> d_inv (to_d x).
Proof.
  unfold ds_inv, d_inv, to_d. cbn [d_sto d_len]. rewrite !andb_true_iff, Nat.eqb_eq, <- blocks_ceil.
  split.
  - intros [[Hl Hw] Hp]. split; [exact Hl|]. split.
    + apply Forall_forall. intros w Hin. rewrite forallb_forall in Hw. apply N.ltb_lt. now apply Hw.
    + apply (pad_last _ _ Hl). destruct (Nat.eqb (ds_len x mod 32) 0); [trivial|].
      apply tail_lanes_zero; [pose proof (Nat.mod_upper_bound (ds_len x) 32 ltac:(lia)); lia|].
      now apply N.eqb_eq.
  - intros [Hl [Hw Hp]]. split; [split; [exact Hl|]|].
    + apply forallb_forall. intros w Hin. rewrite Forall_forall in Hw. apply N.ltb_lt. now apply Hw.
    + apply (pad_last _ _ Hl) in Hp. destruct (Nat.eqb (ds_len x mod 32) 0); [reflexivity|].
      apply N.eqb_eq. apply tail_lanes_zero; [pose proof (Nat.mod_upper_bound (ds_len x) 32 ltac:(lia)); lia|].
      exact Hp.
Qed.

(* consequently the boolean invariant of C16 characterises the canonical packings *)
Corollary ds_inv_canonical x : ds_inv x = true <-> exists l, wf_dna l /\ x = ds_of_dna l.
Proof.
  split.
  - intro H. apply bridge_inv in H. exists (d_abs (to_d x)). split; [apply d_abs_wf|].
    apply to_d_inj. now apply d_inv_canonical.
  - intros [l [Hw ->]]. now apply ds_of_dna_inv.
Qed.

(* ---------------------------------------------------------------- GOAL 4: ASCII -> DnaString -> k-mers *)
Lemma map_decode_inj K : forall ks rs, Forall (wf K) ks -> Forall (wf K) rs ->
  map (decode K) ks = map (decode K) rs -> ks = rs.
Proof.
  induction ks as [|k ks IH]; destruct rs as [|r rs]; intros Hk Hr H; try discriminate; [reflexivity|].
  apply Forall_cons_iff in Hk as [Wk Hk]. apply Forall_cons_iff in Hr as [Wr Hr]. cbn [map] in H.
  injection H as H1 H2. f_equal; [now apply (decode_inj K) | now apply IH].
Qed.

Lemma map_b2b_ascii bytes : Forall (fun b => b < 256) bytes -> map b2b bytes = map ascii_base bytes.
Proof.
  intro Hb. apply map_ext_in. intros b Hin. apply b2b_ascii_base. rewrite Forall_forall in Hb. now apply Hb.
Qed.

Section EndToEnd.
Variable c : kcfg.
Hypothesis Hc : In c shipped.

(* from the list of bases: any DnaString holding [l] in canonical form yields the k-mers of [l] *)
Lemma kmers_of_packed l : wf_dna l ->
  (forall pos, (pos + kK c <= length l)%nat ->
     exists r, d_get_kmer c (to_d (ds_of_dna l)) pos = Some r /\ wf (kK c) r /\ decode (kK c) r = kmer_at (kK c) l pos) /\
  (exists ks, iter_kmers c (d_len (to_d (ds_of_dna l))) (d_get (to_d (ds_of_dna l))) (d_get_kmer c (to_d (ds_of_dna l))) = Some ks /\
              Forall (wf (kK c)) ks /\ map (decode (kK c)) ks = kmers (kK c) l).
Proof.
  intro Hw. destruct (bridge_of_dna l Hw) as [I A]. split.
  - intros pos Hp. destruct (d_get_kmer_spec c Hc (to_d (ds_of_dna l)) pos I) as [r [E [W D]]].
    + cbn [to_d ds_of_dna d_len ds_len]. exact Hp.
    + exists r. rewrite A in D. auto.
  - destruct (d_iter_kmers_spec c Hc (to_d (ds_of_dna l)) I) as [ks [E [W D]]].
    exists ks. rewrite A in D. auto.
Qed.

Theorem ascii_to_kmers bytes avx2 : Forall (fun b => b < 256) bytes ->
  exists d, from_acgt_bytes avx2 bytes = Some d /\
    (forall pos, (pos + kK c <= length bytes)%nat ->
       exists r, d_get_kmer c (to_d d) pos = Some r /\ wf (kK c) r /\
                 decode (kK c) r = kmer_at (kK c) (map ascii_base bytes) pos) /\
    (exists ks rs, iter_kmers c (d_len (to_d d)) (d_get (to_d d)) (d_get_kmer c (to_d d)) = Some ks /\
                   kmers_from_ascii c bytes = Some rs /\ ks = rs).
Proof.
  intro Hb. exists (ds_of_dna (map ascii_base bytes)).
  split; [apply (from_acgt_paths_agree bytes Hb)|].
  destruct (kmers_of_packed (map ascii_base bytes) (ascii_bases_wf bytes)) as [G [ks [E [W D]]]]. split.
  - intros pos Hp. apply G. now rewrite map_length.
  - destruct (kmers_from_ascii_spec c Hc bytes) as [rs [Er [Wr Dr]]]. exists ks, rs.
    split; [exact E|]. split; [exact Er|]. apply (map_decode_inj (kK c)); try assumption.
    rewrite D, Dr. now rewrite map_b2b_ascii.
Qed.

(* the str constructor on ASCII text *)
Theorem str_to_kmers text : Forall (fun ch => ch < 128) text ->
  exists d, from_dna_string text = Some d /\
    (forall pos, (pos + kK c <= length text)%nat ->
       exists r, d_get_kmer c (to_d d) pos = Some r /\ wf (kK c) r /\
                 decode (kK c) r = kmer_at (kK c) (map ascii_base text) pos) /\
    (exists ks rs, iter_kmers c (d_len (to_d d)) (d_get (to_d d)) (d_get_kmer c (to_d d)) = Some ks /\
                   kmers_from_ascii c text = Some rs /\ ks = rs).
Proof.
  intro Ht. rewrite (agree_with_str text Ht true). apply ascii_to_kmers.
  apply Forall_forall. intros b Hin. rewrite Forall_forall in Ht. specialize (Ht b Hin). lia.
Qed.

(* the same for any value of the ASCII model satisfying its boolean invariant, against its stored bases *)
Theorem ds_inv_kmers x : ds_inv x = true ->
  exists l, ds_to_bytes x = Some l /\ wf_dna l /\ length l = ds_len x /\
    (forall pos, (pos + kK c <= ds_len x)%nat ->
       exists r, d_get_kmer c (to_d x) pos = Some r /\ wf (kK c) r /\ decode (kK c) r = kmer_at (kK c) l pos) /\
    (exists ks, iter_kmers c (d_len (to_d x)) (d_get (to_d x)) (d_get_kmer c (to_d x)) = Some ks /\
                Forall (wf (kK c)) ks /\ map (decode (kK c)) ks = kmers (kK c) l).
Proof.
  intro H. apply ds_inv_canonical in H as [l [Hw ->]]. exists l.
  split; [now apply ds_to_bytes_spec|]. split; [exact Hw|]. split; [reflexivity|].
  destruct (kmers_of_packed l Hw) as [G I]. split; [exact G | exact I].
Qed.
End EndToEnd.

(* ---------------------------------------------------------------- non-vacuity *)
(* 70 bytes, mixed case, with N, n, '-', X, 0, 255 and 200 among them *)
Definition bridge_text : list N :=
  [65;67;71;84;97;99;103;116;78;110; 45;65;67;67;71;71;84;84;0;255; 200;65;65;65;67;103;116;84;84;71;
   71;67;65;84;116;97;99;71;78;78; 65;67;71;84;65;67;71;84;84;71; 99;97;84;71;67;65;84;71;67;65;
   116;116;103;103;99;99;97;97;88;84].

Definition c16_5 : kcfg := mkc 16 5.
Definition c64_32 : kcfg := mkc 64 32.
Lemma c16_5_shipped : In c16_5 shipped.
Proof. unfold shipped, c16_5. cbn [In]. do 3 right. left. reflexivity. Qed.
Lemma c64_32_shipped : In c64_32 shipped.
Proof. unfold shipped, c64_32. cbn [In]. do 15 right. left. reflexivity. Qed.

Example bridge_ex_hyps :
  length bridge_text = 70%nat /\ forallb (fun b => b <? 256) bridge_text = true /\
  forallb (fun b => b <? 128) bridge_text = false /\
  length (filter (fun b => negb (ascii_valid b)) bridge_text) = 9%nat.
Proof. vm_compute. repeat split. Qed.

Definition bridge_d : AsciiModel.dstr := mkds [1953155253968859113; 4350507046658172154; 5778118321916346368] 70.
Definition the {A} (o : option (list A)) : list A := match o with Some l => l | None => [] end.

Example bridge_ex_k5 :
  let d := bridge_d in let ks := the (kmers_from_ascii c16_5 bridge_text) in
    from_acgt_bytes true bridge_text = Some d /\ from_acgt_bytes false bridge_text = Some d /\
    ds_inv d = true /\ d_invb (to_d d) = true /\ d_from_bytes (map ascii_base bridge_text) = Some (to_d d) /\
    iter_kmers c16_5 (d_len (to_d d)) (d_get (to_d d)) (d_get_kmer c16_5 (to_d d)) = Some ks /\
    kmers_from_ascii c16_5 bridge_text = Some ks /\ length ks = 66%nat /\
    d_get_kmer c16_5 (to_d d) 31 = Some (nth 31 ks 0) /\
    decode 5 (nth 31 ks 0) = kmer_at 5 (map ascii_base bridge_text) 31 /\
    decode 5 (nth 31 ks 0) = [1; 0; 3; 3; 0].
Proof. vm_compute. repeat split. Qed.

Example bridge_ex_k32 :
  let d := bridge_d in let ks := the (kmers_from_ascii c64_32 bridge_text) in
    iter_kmers c64_32 (d_len (to_d d)) (d_get (to_d d)) (d_get_kmer c64_32 (to_d d)) = Some ks /\
    kmers_from_ascii c64_32 bridge_text = Some ks /\ length ks = 39%nat /\
    d_get_kmer c64_32 (to_d d) 17 = Some (nth 17 ks 0) /\
    decode 32 (nth 17 ks 0) = kmer_at 32 (map ascii_base bridge_text) 17.
Proof. vm_compute. repeat split. Qed.

(* a history (push, extend, set, reverse-complement, push) ends in the canonical packing of the list result *)
Example bridge_ex_history :
  let ops := [DPush 2; DExtend (map ascii_base bridge_text); DSet 3 1; DRc; DPush 3] in
  dops_ok 0 ops = true /\ length (fold_left sdstep ops []) = 72%nat /\
  dsteps d_new ops = Some (to_d (ds_of_dna (fold_left sdstep ops []))).
Proof. vm_compute. repeat split. Qed.
