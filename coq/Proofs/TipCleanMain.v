(* tipclean: the crate's own "filter -> compress -> clean tips -> re-compress" pipeline (src/test.rs simple_tip_clean,
   README), end to end on the models:
     reads -> filter_kmers (CountFilterSet thr; NO pruning of extensions: variant 0) -> compress_kmers
           -> CleanGraph::find_bad_nodes pred -> compress_graph (Some bad_nodes)                      [tip_clean]
     and the same without cleaning (censor None)                                                    [recompress_unpruned]
   Proofs/TipCleanTable.v (the unpruned table on Layer S; [links_loose] w.r.t. [unpruned_links]) ->
   Proofs/LooseGraph.v (the intermediate graph is [lgraph_ok] w.r.t. [unpruned_links]: its node-end extension bits are the
   OBSERVED links at the end k-mer, also those towards filtered-out k-mers) -> Proofs/RecompUnitig.v / Proofs/RecompCensor.v
   (compress_graph without / with a censor list returns the unitig graph of the surviving adjacencies). *)
From Coq Require Import NArith List Bool Arith Lia Permutation Sorted.
From DBG Require Import Spec.Dna Spec.GraphIndex Spec.Unitig Spec.CompressSpec Packed.ExtsModel Algo.Compress
  Algo.KmerHist Algo.Filter Algo.GraphModel Algo.Recompress Algo.CleanGraph Algo.Pipeline Check.GraphCheck Check.PipelineCheck
  Check.RecompCheck
  Proofs.ListFacts Proofs.DnaFacts Proofs.KmerAlgebra Proofs.ExtsProofs Proofs.CompressBasics Proofs.CompressGraphOk
  Proofs.CleanGraphProofs Proofs.RecompressProofs Proofs.GraphQueryProofs
  Proofs.PipelineCheckProofs Proofs.UnitigUnique Proofs.GraphRcProofs Proofs.TableSpecProofs Proofs.PipelineProofs
  Proofs.E2eDefs Proofs.E2eSym Proofs.E2eGraph Proofs.E2eObs Proofs.E2eTable Proofs.E2eDirect
  Proofs.ShardTable Proofs.LooseGraph Proofs.LooseValid Proofs.RecompUnitig Proofs.RecompCensor Proofs.RecompCensorCheck
  Proofs.TipCleanTable.
Import ListNotations.
Local Open Scope nat_scope.

Local Notation gk := PipelineCheck.graph_kmers.
Local Notation nk := PipelineCheck.node_kmers.

(* ---- the model pipelines ------------------------------------------------------------------------------------------ *)
(* filter_kmers (no pruning) -> compress_kmers: the graph handed to find_bad_nodes / compress_graph *)
Definition unpruned_graph (K : nat) (st : bool) (thr mode : N) (lreads : list lread) (order : list dna)
  : option (list node_t) :=
  match table_of K st thr 0 (whole_reads lreads) order with
  | None => None
  | Some T => compress_kmers pay pay_reduce (pay_join mode) st T
  end.
Definition recompress_unpruned (K : nat) (st : bool) (thr mode : N) (lreads : list lread) (order : list dna)
  : option (list node_t) :=
  match unpruned_graph K st thr mode lreads order with
  | None => None
  | Some g => compress_graph pay pay_reduce (pay_join mode) K st g None
  end.
Definition tip_clean (K : nat) (st : bool) (thr mode : N) (pred : node_t -> bool) (lreads : list lread) (order : list dna)
  : option (list node_t) :=
  match unpruned_graph K st thr mode lreads order with
  | None => None
  | Some g => compress_graph pay pay_reduce (pay_join mode) K st g (Some (find_bad_nodes pay pred g))
  end.

Lemma unpruned_graph_shard K st thr mode lreads order :
  unpruned_graph K st thr mode lreads order = shard_graph K st thr mode 0 (whole_reads lreads) order.
Proof. unfold unpruned_graph, shard_graph. reflexivity. Qed.

Lemma unpruned_graph_eq K st thr mode lreads order :
  unpruned_graph K st thr mode lreads order =
  match table_of K st thr 0 (whole_reads lreads) order with
  | None => None
  | Some T => compress_kmers pay pay_reduce (pay_join mode) st T
  end.
Proof. unfold unpruned_graph. reflexivity. Qed.
Lemma recompress_unpruned_eq K st thr mode lreads order :
  recompress_unpruned K st thr mode lreads order =
  match unpruned_graph K st thr mode lreads order with
  | None => None
  | Some g => compress_graph pay pay_reduce (pay_join mode) K st g None
  end.
Proof. unfold recompress_unpruned. reflexivity. Qed.
Lemma tip_clean_eq K st thr mode pred lreads order :
  tip_clean K st thr mode pred lreads order =
  match unpruned_graph K st thr mode lreads order with
  | None => None
  | Some g => compress_graph pay pay_reduce (pay_join mode) K st g (Some (find_bad_nodes pay pred g))
  end.
Proof. unfold tip_clean. reflexivity. Qed.

(* the nodes find_bad_nodes reports, and all observed canonical (K+1)-mers *)
Definition bad_nodes (pred : node_t -> bool) (g : list node_t) : list node_t := filter (test_tip pay pred) g.
Definition read_links (K : nat) (st : bool) (reads : list dna) : list dna := map (cn st) (flat_map (kmers (S K)) reads).

(* ---- list facts: the survivors of a censor list produced by a node predicate ---------------------------------------- *)
Lemma flat_nth_filter_seq {A} (f : nat -> bool) : forall (G G0 : list A),
  flat_map (fun i => match nth_error (G0 ++ G) i with Some n => [n] | None => [] end) (filter f (seq (length G0) (length G))) =
  map snd (filter (fun p => f (fst p)) (combine (seq (length G0) (length G)) G)).
Proof.
  induction G as [|a G IH]; intro G0; [reflexivity|]. cbn [length seq filter combine fst].
  assert (E : flat_map (fun i => match nth_error (G0 ++ a :: G) i with Some n => [n] | None => [] end)
                (filter f (seq (S (length G0)) (length G))) =
              map snd (filter (fun p => f (fst p)) (combine (seq (S (length G0)) (length G)) G))).
  { replace (G0 ++ a :: G) with ((G0 ++ [a]) ++ G) by (rewrite <- app_assoc; reflexivity).
    replace (S (length G0)) with (length (G0 ++ [a])) by (rewrite app_length; cbn [length]; lia). apply IH. }
  destruct (f (length G0)); [|exact E]. cbn [flat_map map snd]. rewrite E.
  rewrite nth_error_app2 by lia. rewrite Nat.sub_diag. reflexivity.
Qed.
Lemma map_snd_filter_combine {A B} (q : B -> bool) : forall (l : list A) (G : list B), length l = length G ->
  map snd (filter (fun p => q (snd p)) (combine l G)) = filter q G.
Proof.
  induction l as [|x l IH]; intros [|a G] L; try discriminate L; [reflexivity|]. cbn [combine filter snd].
  injection L as L. destruct (q a); cbn [map snd]; now rewrite IH.
Qed.
Lemma in_combine_seq {A} : forall (G : list A) c i n, In (i, n) (combine (seq c (length G)) G) ->
  c <= i /\ nth_error G (i - c) = Some n.
Proof.
  induction G as [|a G IH]; intros c i n H; [destruct H|]. cbn [length seq combine] in H. destruct H as [H|H].
  - injection H as <- <-. rewrite Nat.sub_diag. auto.
  - destruct (IH (S c) i n H) as [H1 H2]. split; [lia|]. replace (i - c) with (S (i - S c)) by lia. exact H2.
Qed.
Lemma flat_map_filter_split {A B} (f : A -> list B) (q : A -> bool) : forall l,
  Permutation (flat_map f (filter q l) ++ flat_map f (filter (fun x => negb (q x)) l)) (flat_map f l).
Proof.
  induction l as [|a l IH]; [constructor|]. cbn [filter flat_map]. destruct (q a); cbn [negb flat_map].
  - rewrite <- app_assoc. now apply Permutation_app_head.
  - etransitivity; [apply Permutation_app_swap_app|]. now apply Permutation_app_head.
Qed.

Lemma surv_nodes_filter (G : list node_t) c :
  surv_nodes G c = map snd (filter (fun p => negb (mem_nat (fst p) c)) (combine (seq 0 (length G)) G)).
Proof. unfold surv_nodes, survivors, initial_avail. exact (flat_nth_filter_seq (fun i => negb (mem_nat i c)) G []). Qed.

(* censoring the output of find_bad_nodes keeps exactly the nodes that do not pass test_tip, in order *)
Theorem surv_nodes_bad (pred : node_t -> bool) (G : list node_t) :
  surv_nodes G (find_bad_nodes pay pred G) = filter (fun n => negb (test_tip pay pred n)) G.
Proof.
  rewrite surv_nodes_filter.
  rewrite <- (map_snd_filter_combine (fun n => negb (test_tip pay pred n)) (seq 0 (length G)) G (seq_length _ _)).
  apply (f_equal (map snd)). apply filter_ext_in. intros [i n] Hp. cbn [fst snd]. apply (f_equal negb).
  destruct (in_combine_seq G 0 i n Hp) as [_ Hn]. rewrite Nat.sub_0_r in Hn.
  apply eq_true_iff_eq. rewrite mem_nat_In, (find_bad_nodes_spec pay pred G i). split.
  - intros (m & Hm & Ht). assert (E : Some m = Some n) by (exact (eq_trans (eq_sym Hm) Hn)). injection E as <-. exact Ht.
  - intro Ht. eauto.
Qed.
Theorem surv_bad_kmers K st (pred : node_t -> bool) (G : list node_t) :
  Permutation (gk K st (surv_nodes G (find_bad_nodes pay pred G)) ++ gk K st (bad_nodes pred G)) (gk K st G).
Proof.
  rewrite surv_nodes_bad. unfold bad_nodes, PipelineCheck.graph_kmers. etransitivity; [apply Permutation_app_comm|].
  apply flat_map_filter_split.
Qed.

(* ---- test_tip, in words: no extension bit on one side, at most one on the other, and the predicate ---- *)
Theorem test_tip_spec (pred : node_t -> bool) (n : node_t) : (nd_exts n < 256)%N ->
  (test_tip pay pred n = true <->
   ((length (e_get (nd_exts n) false) = 0 /\ length (e_get (nd_exts n) true) <= 1) \/
    (length (e_get (nd_exts n) true) = 0 /\ length (e_get (nd_exts n) false) <= 1)) /\ pred n = true).
Proof.
  intro Hlt. unfold test_tip. change (n_exts pay n) with (nd_exts n).
  destruct (get_spec (nd_exts n) Hlt) as [Gl Gr]. rewrite Gl, Gr.
  rewrite (proj1 (num_ext_spec (nd_exts n) false Hlt)), (proj1 (num_ext_spec (nd_exts n) true Hlt)). cbv iota.
  set (nl := length (exts_left (nd_exts n))). set (nr := length (exts_right (nd_exts n))).
  destruct (0 <? N.of_nat nr)%N eqn:E1; destruct (0 <? N.of_nat nl)%N eqn:E2; cbn [andb];
    try apply N.ltb_lt in E1; try apply N.ltb_lt in E2; try apply N.ltb_ge in E1; try apply N.ltb_ge in E2.
  - split; [discriminate | intros [[[H _]|[H _]] _]; lia].
  - rewrite andb_true_iff, orb_true_iff, !andb_true_iff, !N.eqb_eq, !N.leb_le. split; intros [H Hp]; (split; [|exact Hp]); lia.
  - rewrite andb_true_iff, orb_true_iff, !andb_true_iff, !N.eqb_eq, !N.leb_le. split; intros [H Hp]; (split; [|exact Hp]); lia.
  - rewrite andb_true_iff, orb_true_iff, !andb_true_iff, !N.eqb_eq, !N.leb_le. split; intros [H Hp]; (split; [|exact Hp]); lia.
Qed.

(* ==== the pipelines ================================================================================================== *)
Section TipClean.
Variable K : nat.
Variable st : bool.
Variable thr mode : N.
Variable lreads : list lread.
Hypothesis HK : 4 <= K.
Hypothesis Hwf : Forall (fun r => wf_dna (fst r)) lreads.
Local Notation reads := (map fst lreads).
Local Notation ret := (retained K st thr reads).
Local Notation isr := (is_retained K st thr reads).
Local Notation UL := (unpruned_links K st thr lreads).
Local Notation SLk := (spec_links K st thr reads).
Local Notation colf := (kmer_colour K st lreads).
Local Notation kj := (kjoin_f mode colf).
Local Notation W := (wins K lreads).

Lemma HK1' : 1 <= K. Proof. lia. Qed.
Local Notation HK1 := HK1'.

(* an observed (K+1)-mer at a retained k-mer is an unpruned link *)
Lemma unpruned_at_retained x s c : wf_dna x -> length x = K -> (c < 4)%N -> In (cn st x) ret ->
  (In (cn st (lk x s c)) UL <-> In (cn st (lk x s c)) (read_links K st reads)).
Proof.
  intros Wx Lx Hc Hr. unfold unpruned_links, read_links. rewrite !in_map_iff. split.
  - intros (v & E & Hv). apply filter_In in Hv as [Hv _]. eauto.
  - intros (v & E & Hv). exists v. split; [exact E|]. apply filter_In. split; [exact Hv|].
    change (In v W) in Hv. destruct (win_kmers K st lreads HK1 Hwf v Hv) as (Lv & Wv & _).
    assert (Ll : length (lk x s c) = S K) by (now rewrite lk_length, Lx).
    assert (Wl : wf_dna (lk x s c)) by (now apply lk_wf).
    apply retained_in in Hr as [_ Hr].
    assert (Hl : some_retained K st thr lreads (lk x s c) = true).
    { unfold some_retained. destruct (lk_kmers K HK1 x s c Lx) as [[-> _]|[_ ->]]; rewrite Hr; [reflexivity | apply orb_true_r]. }
    apply cn_eq_cases in E as [->|[Hs ->]]; auto.
    rewrite <- !loose_ok_unpruned in *. now rewrite loose_ok_rc.
Qed.

(* ---- the intermediate graph ---- *)
Section Inter.
Variable order : list dna.
Hypothesis Hnd : NoDup order.
Variable g : list node_t.
Hypothesis Hg : unpruned_graph K st thr mode lreads order = Some g.

Lemma inter_facts : lgraph_ok K st kj UL g /\ Permutation (gk K st g) ret /\ PipelineCheck.payload_ok K st mode rank colf g.
Proof.
  rewrite unpruned_graph_eq in Hg. destruct (table_of K st thr 0 (whole_reads lreads) order) as [T|] eqn:ET; [|discriminate].
  pose proof (table_of_unpruned_spec K st thr lreads HK Hwf order T Hnd ET) as HT.
  pose proof (unpruned_tbl_ok K st thr lreads Hwf T HT) as Htok.
  pose proof (unpruned_links_ok K st thr lreads HK Hwf T HT) as HLl.
  pose proof (unpruned_data K st thr lreads T HT) as Hd.
  split; [exact (compress_lgraph_ok K st mode HK1 T UL rank colf Htok HLl Hd g Hg)|].
  split; [|exact (compress_loose_payload K st mode HK1 T UL rank colf Htok HLl Hd g Hg)].
  etransitivity; [exact (compress_loose_kmers K st mode HK1 T UL Htok HLl g Hg) | exact (unpruned_keys K st thr lreads T HT)].
Qed.
Lemma inter_lgraph_ok : lgraph_ok K st kj UL g. Proof. exact (proj1 inter_facts). Qed.
Lemma inter_kmers : Permutation (gk K st g) ret. Proof. exact (proj1 (proj2 inter_facts)). Qed.
Lemma inter_payload : PipelineCheck.payload_ok K st mode rank colf g. Proof. exact (proj2 (proj2 inter_facts)). Qed.
Lemma inter_nodup : NoDup (gk K st g).
Proof. eapply Permutation_NoDup; [symmetry; exact inter_kmers | apply retained_nodup]. Qed.
Lemma inter_in x : In x (gk K st g) <-> In x ret.
Proof. split; apply Permutation_in; [exact inter_kmers | symmetry; exact inter_kmers]. Qed.

(* THE SUBTLETY.  The extension byte of a node of the intermediate graph records every OBSERVED link at its end k-mers -
   whether or not the k-mer on the other end of the link was retained.  test_tip counts these bits, not resolvable edges. *)
Theorem inter_exts (n : node_t) s c : In n g -> (c < 4)%N ->
  let x := term_kmer K (nd_seq n) s in
  (kpal st x = false ->
     (e_has_ext (nd_exts n) (dirb s) c = true <-> In (cn st (lk x s c)) (read_links K st reads))) /\
  (kpal st x = true ->
     (e_has_ext (nd_exts n) (dirb s) c = true \/ e_has_ext (nd_exts n) (dirb (dflip s)) (comp c) = true
      <-> In (cn st (lk x s c)) (read_links K st reads))).
Proof.
  intros Hn Hc x. pose proof inter_lgraph_ok as HG.
  pose proof (lg_wf _ _ _ _ _ HG) as Hwfg. rewrite Forall_forall in Hwfg. destruct (Hwfg n Hn) as [Wn Ln].
  destruct (term_kmer_ok K _ s Wn Ln) as [Lx Wx]. fold x in Lx, Wx.
  assert (Hr : In (cn st x) ret).
  { apply inter_in. unfold PipelineCheck.graph_kmers. apply in_flat_map. exists n. split; [exact Hn|].
    unfold PipelineCheck.node_kmers. apply in_map. apply term_in_kmers; [exact HK1 | exact Ln]. }
  destruct (lg_ends _ _ _ _ _ HG n Hn s c Hc) as [E1 E2]. fold x in E1, E2.
  rewrite <- (unpruned_at_retained x s c Wx Lx Hc Hr). split; assumption.
Qed.

(* the link specification restricted to a set of retained k-mers = the unpruned links restricted to it *)
Lemma spec_of_unpruned (P : dna -> Prop) w : (forall k, P k -> In k ret) ->
  (In w UL /\ both_in K st P w <-> In w SLk /\ both_in K st P w).
Proof.
  intro HP. split; intros [Hw Hb]; (split; [|exact Hb]).
  - apply in_unpruned_links in Hw as (v & Hv & _ & ->).
    destruct (win_kmers K st lreads HK1 Hwf v Hv) as (Lv & Wv & _). apply (both_in_cn K st _ v Wv Lv) in Hb as [B1 B2].
    apply HP, retained_in in B1 as [_ B1]. apply HP, retained_in in B2 as [_ B2].
    apply (loose_spec K st thr lreads); assumption.
  - now apply spec_unpruned.
Qed.
Lemma spec_both_ret w : In w SLk -> both_in K st (fun k => In k ret) w.
Proof.
  intro Hw. apply (in_spec_links K st thr lreads) in Hw as (v & Hv & Hr & ->).
  destruct (win_kmers K st lreads HK1 Hwf v Hv) as (Lv & Wv & H1 & H2). apply (both_in_cn K st _ v Wv Lv).
  unfold link_retained in Hr. apply andb_true_iff in Hr as [R1 R2]. split; apply retained_in; auto.
Qed.
Lemma spec_wf w : In w SLk -> exists v, wf_dna v /\ length v = S K /\ w = cn st v.
Proof.
  intro Hw. apply (in_spec_links K st thr lreads) in Hw as (v & Hv & _ & ->).
  destruct (win_kmers K st lreads HK1 Hwf v Hv) as (Lv & Wv & _). eauto.
Qed.

(* ---- re-compression without cleaning ---- *)
Theorem inter_recompress_assembly out : compress_graph pay pay_reduce (pay_join mode) K st g None = Some out ->
  assembly_of K st thr mode lreads out.
Proof.
  intro Hc.
  assert (HS : forall w, In w SLk <-> In w UL /\ both_in K st (fun k => In k (gk K st g)) w).
  { intro w. rewrite (spec_of_unpruned (fun k => In k (gk K st g)) w (fun k => proj1 (inter_in k))). split; [|tauto].
    intro Hw. split; [exact Hw|]. destruct (spec_both_ret w Hw) as [B1 B2]. split; apply inter_in; assumption. }
  destruct (recompress_loose_unitig K st mode rank colf UL SLk g out HK1 inter_lgraph_ok inter_nodup HS spec_wf inter_payload Hc)
    as (Pk & Hl & Hu & Hp).
  split; [|split; assumption]. split; [|exact Hl]. transitivity (gk K st g); [exact Pk | exact inter_kmers].
Qed.
Theorem inter_recompress_total c : exists out, compress_graph pay pay_reduce (pay_join mode) K st g c = Some out.
Proof.
  destruct c as [c|].
  - exact (recompress_censor_total K st mode colf UL g c HK1 inter_lgraph_ok inter_nodup).
  - exact (recompress_loose_total K st mode colf UL g HK1 inter_lgraph_ok inter_nodup).
Qed.

(* ---- re-compression with ANY censor list ---- *)
Theorem inter_censor_spec (c : list nat) out : compress_graph pay pay_reduce (pay_join mode) K st g (Some c) = Some out ->
  Permutation (gk K st out) (gk K st (surv_nodes g c)) /\
  (forall w, In w (graph_links K st out) <-> In w SLk /\ both_in K st (fun k => In k (gk K st out)) w) /\
  unitig_graph K st mode colf out /\ PipelineCheck.payload_ok K st mode rank colf out.
Proof.
  intro Hc. set (sk := gk K st (surv_nodes g c)).
  assert (Hsub : forall k, In k sk -> In k ret).
  { intros k Hk. apply inter_in. unfold sk, PipelineCheck.graph_kmers in *. apply in_flat_map in Hk as (n & Hn & Hk).
    apply in_flat_map. exists n. split; [|exact Hk]. apply surv_nodes_spec in Hn as (i & Hi & _). eapply nth_error_In; eauto. }
  destruct (recompress_censor_unitig K st mode rank colf UL (links_between K st UL sk) g c out HK1 inter_lgraph_ok inter_nodup
              (fun w => links_between_spec K st UL sk w)
              (fun w Hw => unpruned_wf K st thr lreads HK1 Hwf w (proj1 (proj1 (links_between_spec K st UL sk w) Hw)))
              inter_payload Hc) as (Pk & Hl & Hu & Hp).
  split; [exact Pk|]. split; [|split; assumption].
  intro w. rewrite Hl, links_between_spec, (spec_of_unpruned (fun k => In k sk) w Hsub).
  assert (Hb : both_in K st (fun k => In k sk) w <-> both_in K st (fun k => In k (gk K st out)) w).
  { unfold both_in. split; intros [B1 B2]; split; (eapply Permutation_in; [|eassumption]); (exact Pk || (symmetry; exact Pk)). }
  now rewrite Hb.
Qed.
End Inter.
End TipClean.

(* ==== the theorems ==================================================================================================== *)
(* the subtlety, closed form *)
Theorem unpruned_graph_exts K st thr mode (lreads : list lread) order g :
  4 <= K -> Forall (fun r => wf_dna (fst r)) lreads -> NoDup order ->
  unpruned_graph K st thr mode lreads order = Some g ->
  forall (n : node_t) s c, In n g -> (c < 4)%N ->
  let x := term_kmer K (nd_seq n) s in
  (kpal st x = false ->
     (e_has_ext (nd_exts n) (dirb s) c = true <-> In (cn st (lk x s c)) (read_links K st (map fst lreads)))) /\
  (kpal st x = true ->
     (e_has_ext (nd_exts n) (dirb s) c = true \/ e_has_ext (nd_exts n) (dirb (dflip s)) (comp c) = true
      <-> In (cn st (lk x s c)) (read_links K st (map fst lreads)))).
Proof. intros HK Hwf Hnd Hg. exact (inter_exts K st thr mode lreads HK Hwf order Hnd g Hg). Qed.
(* the intermediate graph has exactly the retained k-mers, each once *)
Theorem unpruned_graph_kmers K st thr mode (lreads : list lread) order g :
  4 <= K -> Forall (fun r => wf_dna (fst r)) lreads -> NoDup order ->
  unpruned_graph K st thr mode lreads order = Some g ->
  Permutation (gk K st g) (retained K st thr (map fst lreads)) /\
  lgraph_ok K st (kjoin_f mode (kmer_colour K st lreads)) (unpruned_links K st thr lreads) g /\
  PipelineCheck.payload_ok K st mode rank (kmer_colour K st lreads) g.
Proof.
  intros HK Hwf Hnd Hg. destruct (inter_facts K st thr mode lreads HK Hwf order Hnd g Hg) as (A & B & C). auto.
Qed.
(* re-compressing the intermediate graph with ANY censor list *)
Theorem unpruned_censor_spec K st thr mode (lreads : list lread) order g (c : list nat) out :
  4 <= K -> Forall (fun r => wf_dna (fst r)) lreads -> NoDup order ->
  unpruned_graph K st thr mode lreads order = Some g ->
  compress_graph pay pay_reduce (pay_join mode) K st g (Some c) = Some out ->
  Permutation (gk K st out) (gk K st (surv_nodes g c)) /\
  (forall w, In w (graph_links K st out) <->
             In w (spec_links K st thr (map fst lreads)) /\ both_in K st (fun k => In k (gk K st out)) w) /\
  unitig_graph K st mode (kmer_colour K st lreads) out /\
  PipelineCheck.payload_ok K st mode rank (kmer_colour K st lreads) out.
Proof. intros HK Hwf Hnd Hg. exact (inter_censor_spec K st thr mode lreads HK Hwf order Hnd g Hg c out). Qed.
(* Goal 2: without cleaning, re-compressing the unpruned graph gives THE assembly of the reads *)
Theorem recompress_unpruned_assembly K st thr mode (lreads : list lread) order out :
  4 <= K -> Forall (fun r => wf_dna (fst r)) lreads -> NoDup order ->
  recompress_unpruned K st thr mode lreads order = Some out ->
  assembly_of K st thr mode lreads out.
Proof.
  intros HK Hwf Hnd H. rewrite recompress_unpruned_eq in H.
  destruct (unpruned_graph K st thr mode lreads order) as [g|] eqn:Hg; [|discriminate].
  exact (inter_recompress_assembly K st thr mode lreads HK Hwf order Hnd g Hg out H).
Qed.

Theorem unpruned_graph_total K st thr mode (lreads : list lread) order :
  4 <= K -> Forall (fun r => wf_dna (fst r)) lreads ->
  Permutation order (retained K st thr (map fst lreads)) ->
  exists g, unpruned_graph K st thr mode lreads order = Some g.
Proof.
  intros HK Hwf Pm. rewrite unpruned_graph_eq.
  destruct (table_of_unpruned_total K st thr lreads HK Hwf order Pm) as [T ET]. rewrite ET.
  assert (Hnd : NoDup order) by (eapply Permutation_NoDup; [symmetry; exact Pm | apply retained_nodup]).
  pose proof (table_of_unpruned_spec K st thr lreads HK Hwf order T Hnd ET) as HT.
  exact (compress_loose_total K st mode ltac:(lia) T _ (unpruned_tbl_ok K st thr lreads Hwf T HT)
           (unpruned_links_ok K st thr lreads HK Hwf T HT)).
Qed.

Theorem recompress_unpruned_total K st thr mode (lreads : list lread) order :
  4 <= K -> Forall (fun r => wf_dna (fst r)) lreads ->
  Permutation order (retained K st thr (map fst lreads)) ->
  exists out, recompress_unpruned K st thr mode lreads order = Some out /\ assembly_of K st thr mode lreads out.
Proof.
  intros HK Hwf Pm. destruct (unpruned_graph_total K st thr mode lreads order HK Hwf Pm) as [g Hg].
  assert (Hnd : NoDup order) by (eapply Permutation_NoDup; [symmetry; exact Pm | apply retained_nodup]).
  destruct (inter_recompress_total K st thr mode lreads HK Hwf order Hnd g Hg None) as [out Ho].
  exists out. split; [rewrite recompress_unpruned_eq; now rewrite Hg|].
  exact (inter_recompress_assembly K st thr mode lreads HK Hwf order Hnd g Hg out Ho).
Qed.

(* ... hence the same assembly as the direct pipeline (which prunes the table before compressing, when thr > 1) *)
Theorem recompress_unpruned_eq_direct K st thr mode (lreads : list lread) order order' out g_d :
  4 <= K -> Forall (fun r => wf_dna (fst r)) lreads -> NoDup order -> NoDup order' ->
  recompress_unpruned K st thr mode lreads order = Some out ->
  direct K st thr mode 0 lreads order' = Some g_d ->
  same_assembly K st mode out g_d.
Proof.
  intros HK Hwf Hnd Hnd' H Hd. apply (assembly_unique K st thr mode lreads).
  - exact (recompress_unpruned_assembly K st thr mode lreads order out HK Hwf Hnd H).
  - exact (direct_assembly K st thr mode lreads order' g_d HK Hwf Hnd' Hd).
Qed.

(* Goal 3: with cleaning *)
Theorem tip_clean_spec K st thr mode (pred : node_t -> bool) (lreads : list lread) order out :
  4 <= K -> Forall (fun r => wf_dna (fst r)) lreads -> NoDup order ->
  tip_clean K st thr mode pred lreads order = Some out ->
  exists g, unpruned_graph K st thr mode lreads order = Some g /\
    let bad := find_bad_nodes pay pred g in
    let ret := retained K st thr (map fst lreads) in
    (* the intermediate graph: the retained k-mers, one node end extension bit per OBSERVED link *)
    Permutation (gk K st g) ret /\
    (forall (n : node_t) s c, In n g -> (c < 4)%N -> kpal st (term_kmer K (nd_seq n) s) = false ->
       (e_has_ext (nd_exts n) (dirb s) c = true <->
        In (cn st (lk (term_kmer K (nd_seq n) s) s c)) (read_links K st (map fst lreads)))) /\
    (* the censor list: ascending, exactly the nodes with no bit on one side, at most one on the other, accepted by pred *)
    StronglySorted lt bad /\
    (forall i, In i bad <-> exists n : node_t, nth_error g i = Some n /\
       ((length (e_get (nd_exts n) false) = 0 /\ length (e_get (nd_exts n) true) <= 1) \/
        (length (e_get (nd_exts n) true) = 0 /\ length (e_get (nd_exts n) false) <= 1)) /\ pred n = true) /\
    (* the result: retained k-mers minus those of the bad nodes ... *)
    Permutation (gk K st out ++ gk K st (bad_nodes pred g)) ret /\
    NoDup (gk K st out) /\
    (forall x, In x (gk K st out) <-> In x ret /\ ~ In x (gk K st (bad_nodes pred g))) /\
    (* ... exactly the links of the reads between surviving k-mers, unitigs of that link set, payloads *)
    (forall w, In w (graph_links K st out) <->
               In w (spec_links K st thr (map fst lreads)) /\ both_in K st (fun k => In k (gk K st out)) w) /\
    unitig_graph K st mode (kmer_colour K st lreads) out /\
    PipelineCheck.payload_ok K st mode rank (kmer_colour K st lreads) out.
Proof.
  intros HK Hwf Hnd H. rewrite tip_clean_eq in H.
  destruct (unpruned_graph K st thr mode lreads order) as [g|] eqn:Hg; [|discriminate]. exists g. split; [reflexivity|].
  cbv zeta.
  pose proof (inter_kmers K st thr mode lreads HK Hwf order Hnd g Hg) as Pg.
  pose proof (inter_lgraph_ok K st thr mode lreads HK Hwf order Hnd g Hg) as HG.
  destruct (inter_censor_spec K st thr mode lreads HK Hwf order Hnd g Hg _ out H) as (Pk & Hl & Hu & Hp).
  assert (Pall : Permutation (gk K st out ++ gk K st (bad_nodes pred g)) (retained K st thr (map fst lreads))).
  { etransitivity; [apply Permutation_app_tail; exact Pk|]. etransitivity; [apply surv_bad_kmers | exact Pg]. }
  assert (Nall : NoDup (gk K st out ++ gk K st (bad_nodes pred g))).
  { eapply Permutation_NoDup; [symmetry; exact Pall | apply retained_nodup]. }
  split; [exact Pg|].
  split; [intros n s c Hn Hc P; exact (proj1 (inter_exts K st thr mode lreads HK Hwf order Hnd g Hg n s c Hn Hc) P)|].
  split; [apply find_bad_nodes_sorted|].
  split.
  { intro i. rewrite (find_bad_nodes_spec pay pred g i). split; intros (n & Hn & Ht); exists n; (split; [exact Hn|]).
    - apply test_tip_spec; [|exact Ht]. apply (lg_lt _ _ _ _ _ HG). eapply nth_error_In; eauto.
    - apply test_tip_spec; [|exact Ht]. apply (lg_lt _ _ _ _ _ HG). eapply nth_error_In; eauto. }
  split; [exact Pall|].
  split; [exact (proj1 (NoDup_app_inv _ _ Nall))|].
  split; [|split; [exact Hl | split; assumption]].
  intro x. split.
  - intro Hx. split; [eapply Permutation_in; [exact Pall | apply in_or_app; now left]|].
    intro Hb. exact (proj2 (proj2 (NoDup_app_inv _ _ Nall)) x Hx Hb).
  - intros [Hx Hnb]. apply (Permutation_in _ (Permutation_sym Pall)) in Hx. apply in_app_or in Hx as [Hx|Hx]; [exact Hx | contradiction].
Qed.

Theorem tip_clean_total K st thr mode (pred : node_t -> bool) (lreads : list lread) order :
  4 <= K -> Forall (fun r => wf_dna (fst r)) lreads ->
  Permutation order (retained K st thr (map fst lreads)) ->
  exists out, tip_clean K st thr mode pred lreads order = Some out.
Proof.
  intros HK Hwf Pm. destruct (unpruned_graph_total K st thr mode lreads order HK Hwf Pm) as [g Hg].
  assert (Hnd : NoDup order) by (eapply Permutation_NoDup; [symmetry; exact Pm | apply retained_nodup]).
  destruct (inter_recompress_total K st thr mode lreads HK Hwf order Hnd g Hg (Some (find_bad_nodes pay pred g))) as [out Ho].
  exists out. rewrite tip_clean_eq. now rewrite Hg.
Qed.

(* when nothing is a tip (e.g. pred = fun _ => false) cleaning is re-compression: the assembly *)
Theorem tip_clean_no_tips K st thr mode (pred : node_t -> bool) (lreads : list lread) order out :
  4 <= K -> Forall (fun r => wf_dna (fst r)) lreads -> NoDup order ->
  (forall n, pred n = false) ->
  tip_clean K st thr mode pred lreads order = Some out ->
  assembly_of K st thr mode lreads out.
Proof.
  intros HK Hwf Hnd Hp H. destruct (tip_clean_spec K st thr mode pred lreads order out HK Hwf Hnd H) as (g & Hg & F).
  cbv zeta in F. destruct F as (_ & _ & _ & _ & Pall & _ & _ & Hl & Hu & Hpay).
  assert (Eb : bad_nodes pred g = []).
  { assert (Ht : forall n, test_tip pay pred n = false).
    { intro n. unfold test_tip. rewrite Hp, andb_false_r. now destruct (_ && _). }
    unfold bad_nodes. generalize g. intro l. induction l as [|n l IH]; [reflexivity|]. cbn [filter]. now rewrite Ht. }
  rewrite Eb in Pall. cbn [PipelineCheck.graph_kmers flat_map] in Pall. rewrite app_nil_r in Pall.
  split; [|split; assumption]. split; [exact Pall|]. intro w. rewrite Hl. split; [tauto|]. intro Hw. split; [exact Hw|].
  assert (Hb : both_in K st (fun k => In k (retained K st thr (map fst lreads))) w).
  { apply (in_spec_links K st thr lreads) in Hw as (v & Hv & Hr & ->).
    destruct (win_kmers K st lreads ltac:(lia) Hwf v Hv) as (Lv & Wv & H1 & H2). apply (both_in_cn K st _ v Wv Lv).
    unfold link_retained in Hr. apply andb_true_iff in Hr as [R1 R2]. split; apply retained_in; auto. }
  destruct Hb as [B1 B2]. split; (eapply Permutation_in; [symmetry; exact Pall|]); assumption.
Qed.

Print Assumptions unpruned_graph_exts.
Print Assumptions unpruned_graph_kmers.
Print Assumptions unpruned_censor_spec.
Print Assumptions recompress_unpruned_assembly.
Print Assumptions recompress_unpruned_total.
Print Assumptions recompress_unpruned_eq_direct.
Print Assumptions tip_clean_spec.
Print Assumptions tip_clean_total.
Print Assumptions tip_clean_no_tips.
