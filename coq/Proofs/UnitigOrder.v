(* C02, uniqueness at the level of the partition: which keys share a node does not depend on the order in which
   the hash table iterates its keys.  The link relation is restated on entries (no indices), which makes its
   invariance under permutation of the table evident. *)
From Coq Require Import NArith List Bool Arith Lia Permutation Relations.
From DBG Require Import Proofs.AbstractWalk.
From DBG Require Import Spec.Dna Spec.GraphIndex Spec.Unitig Spec.CompressSpec Packed.ExtsModel Algo.Compress
  Proofs.ListFacts Proofs.DnaFacts Proofs.ExtsProofs Proofs.ExtsWalk Proofs.KmerAlgebra Proofs.CompressBasics
  Proofs.CompressRefine Proofs.CompressWalk Proofs.CompressProofs Proofs.UnitigProofs.
Import ListNotations.
Local Open Scope nat_scope.

Section Order.
Variable D : Type.
Variable reduce : D -> D -> D.
Variable join : D -> D -> bool.
Variable K : nat.
Variable stranded : bool.
Hypothesis HK : 1 <= K.
Hypothesis join_sym : forall a b, join a b = join b a.

(* the static step, on entries *)
Definition link_ok (ent yent : entry D) (d d' : dir) : Prop :=
  kpal stranded (e_key D ent) = false /\ e_num_ext_dir (e_exts D ent) (dirb d) = 1%N /\
  exists b fl, e_get_unique_extension (e_exts D ent) (dirb d) = Some b /\
    kcanon_flip stranded (extend (e_key D ent) b d) = (e_key D yent, fl) /\
    d' = cond_flip (dflip d) fl /\ join (e_data D ent) (e_data D yent) = true /\
    e_num_ext_dir (e_exts D yent) (dirb d') = 1%N /\ kpal stranded (e_key D yent) = false.
Definition kstep (T : table D) (kx ky : dna) : Prop :=
  exists ent yent d d', In ent T /\ In yent T /\ e_key D ent = kx /\ e_key D yent = ky /\ kx <> ky /\
    link_ok ent yent d d'.
Definition kconn (T : table D) : dna -> dna -> Prop := clos_refl_sym_trans dna (kstep T).

Lemma kstep_perm T T' kx ky : Permutation T T' -> kstep T kx ky -> kstep T' kx ky.
Proof.
  intros Hp (ent & yent & d & d' & H1 & H2 & H). exists ent, yent, d, d'.
  split; [eapply Permutation_in; eauto|]. split; [eapply Permutation_in; eauto | exact H].
Qed.
Lemma kconn_perm T T' kx ky : Permutation T T' -> kconn T kx ky -> kconn T' kx ky.
Proof.
  intros Hp H. induction H as [x y H | x | x y H IH | x y z H1 IH1 H2 IH2].
  - apply rst_step. eapply kstep_perm; eauto. - apply rst_refl. - now apply rst_sym. - eapply rst_trans; eauto.
Qed.

Section OneTable.
Variable T : table D.
Hypothesis Hok : tbl_ok D K stranded T.
Local Notation kkey := (kkey D T).
Local Notation knext := (knext D join stranded T).

Lemma knext_of_link i j ent yent d d' : nth_error T i = Some ent -> nth_error T j = Some yent ->
  link_ok ent yent d d' -> knext i d = Some (j, d').
Proof.
  intros Hi Hj (Hpx & Hnx & b & fl & Hu & Hyf & Hd' & Hjoin & Hny & Hpy).
  unfold CompressSpec.knext. rewrite Hi, Hnx, Hpx. cbn [N.eqb Pos.eqb negb orb]. rewrite Hu, Hyf. cbn [fst snd].
  rewrite (get_id_key D K stranded T Hok _ _ Hj), Hj, <- Hd', Hjoin, Hny, Hpy. reflexivity.
Qed.
Lemma link_of_knext i j d d' : knext i d = Some (j, d') ->
  exists ent yent, nth_error T i = Some ent /\ nth_error T j = Some yent /\ link_ok ent yent d d'.
Proof.
  intro H. destruct (knext_inv D join K stranded T Hok _ _ _ _ H) as
    (ent & yent & b & fl & Hi & Hj & Hpx & Hnx & Hu & Hb & Hhas & Hyf & Hd' & Hjoin & Hny & Hpy).
  exists ent, yent. split; [exact Hi|]. split; [exact Hj|]. split; [exact Hpx|]. split; [exact Hnx|].
  exists b, fl. auto 10.
Qed.

Lemma kkey_nth i ent : nth_error T i = Some ent -> kkey i = e_key D ent.
Proof. intro H. unfold CompressRefine.kkey. now rewrite H. Qed.
Lemma valid_nth i ent : nth_error T i = Some ent -> i < length T.
Proof. intro H. apply nth_error_Some. congruence. Qed.

Lemma mstep_kstep i j : mstep D join stranded T i j ->
  i < length T /\ j < length T /\ kstep T (kkey i) (kkey j).
Proof.
  intros [d [d' H]]. rewrite (mlink_knext D join stranded T) in H.
  destruct (CompressSpec.knext D join stranded T i d) as [[j0 d0]|] eqn:Hn; [|discriminate].
  destruct (Nat.eqb i j0) eqn:E; [discriminate|]. injection H as <- <-. apply Nat.eqb_neq in E.
  destruct (link_of_knext _ _ _ _ Hn) as (ent & yent & Hi & Hj & Hl).
  split; [eapply valid_nth; eauto|]. split; [eapply valid_nth; eauto|].
  exists ent, yent, d, d0. rewrite (kkey_nth _ _ Hi), (kkey_nth _ _ Hj).
  split; [eapply nth_error_In; eauto|]. split; [eapply nth_error_In; eauto|].
  split; [reflexivity|]. split; [reflexivity|]. split; [|exact Hl].
  intro Heq. apply E. apply (kkey_inj D K stranded HK T Hok); eauto using valid_nth.
  now rewrite (kkey_nth _ _ Hi), (kkey_nth _ _ Hj).
Qed.
Lemma kstep_mstep kx ky : kstep T kx ky ->
  exists i j, i < length T /\ j < length T /\ kkey i = kx /\ kkey j = ky /\ mstep D join stranded T i j.
Proof.
  intros (ent & yent & d & d' & H1 & H2 & Hx & Hy & Hne & Hl).
  apply In_nth_error in H1. destruct H1 as [i Hi]. apply In_nth_error in H2. destruct H2 as [j Hj].
  exists i, j. split; [eapply valid_nth; eauto|]. split; [eapply valid_nth; eauto|].
  rewrite (kkey_nth _ _ Hi), (kkey_nth _ _ Hj). split; [exact Hx|]. split; [exact Hy|].
  exists d, d'. rewrite (mlink_knext D join stranded T), (knext_of_link _ _ _ _ _ _ Hi Hj Hl).
  destruct (Nat.eqb i j) eqn:E; [|reflexivity]. apply Nat.eqb_eq in E. subst j. congruence.
Qed.

Lemma mconn_kconn i j : mconn D join stranded T i j -> kconn T (kkey i) (kkey j).
Proof.
  induction 1 as [x y H | x | x y H IH | x y z H1 IH1 H2 IH2].
  - apply rst_step. now apply mstep_kstep. - apply rst_refl. - now apply rst_sym. - eapply rst_trans; eauto.
Qed.
Lemma kconn_mconn_gen kx ky : kconn T kx ky ->
  kx = ky \/ exists i j, i < length T /\ j < length T /\ kkey i = kx /\ kkey j = ky /\ mconn D join stranded T i j.
Proof.
  induction 1 as [x y H | x | x y H IH | x y z H1 IH1 H2 IH2].
  - right. destruct (kstep_mstep _ _ H) as (i & j & Hi & Hj & Hx & Hy & Hs). exists i, j. repeat split; auto. now apply rst_step.
  - now left.
  - destruct IH as [->|(i & j & Hi & Hj & Hx & Hy & Hc)]; [now left|]. right. exists j, i. repeat split; auto. now apply rst_sym.
  - destruct IH1 as [->|(i & j & Hi & Hj & Hx & Hy & Hc)]; [exact IH2|].
    destruct IH2 as [<-|(j' & k & Hj' & Hk & Hy' & Hz & Hc')]; [right; exists i, j; auto 10|].
    assert (j' = j) by (apply (kkey_inj D K stranded HK T Hok); auto; congruence). subst j'.
    right. exists i, k. repeat split; auto. eapply rst_trans; eauto.
Qed.
Lemma kconn_mconn i j : i < length T -> j < length T -> kconn T (kkey i) (kkey j) -> mconn D join stranded T i j.
Proof.
  intros Hi Hj H. destruct (kconn_mconn_gen _ _ H) as [E|(i' & j' & Hi' & Hj' & Ei & Ej & Hc)].
  - apply (kkey_inj D K stranded HK T Hok) in E; auto. subst. apply rst_refl.
  - apply (kkey_inj D K stranded HK T Hok) in Ei; auto. apply (kkey_inj D K stranded HK T Hok) in Ej; auto. now subst.
Qed.
End OneTable.

(* the hypotheses are invariant under permutation of the table *)
Lemma tbl_ok_perm T T' : Permutation T T' -> tbl_ok D K stranded T -> tbl_ok D K stranded T'.
Proof.
  intros Hp [H1 H2 H3 H4 H5]. assert (Hin : forall e, In e T' -> In e T) by (intros e He; eapply Permutation_in; [symmetry|]; eauto).
  constructor; auto.
  - unfold Unitig.keys in *. eapply Permutation_NoDup; [apply Permutation_map; exact Hp | exact H1].
Qed.
Lemma get_entry_perm T T' k : Permutation T T' -> tbl_ok D K stranded T -> get_entry D T' k = get_entry D T k.
Proof.
  intros Hp Hok. pose proof (tbl_ok_perm _ _ Hp Hok) as Hok'.
  destruct (get_entry D T' k) as [e|] eqn:E'.
  - apply (get_entry_Some D T') in E'. destruct E' as [Hin <-].
    apply (Permutation_in _ (Permutation_sym Hp)) in Hin. apply In_nth_error in Hin. destruct Hin as [i Hi].
    symmetry. eapply get_entry_key; eauto.
  - destruct (get_entry D T k) as [e|] eqn:E; [|reflexivity].
    apply (get_entry_Some D T) in E. destruct E as [Hin <-].
    apply (Permutation_in _ Hp) in Hin. apply In_nth_error in Hin. destruct Hin as [i Hi].
    rewrite (get_entry_key D K stranded T' Hok' _ _ Hi) in E'. discriminate.
Qed.
Lemma exts_sym_perm T T' : Permutation T T' -> tbl_ok D K stranded T -> exts_sym D stranded T -> exts_sym D stranded T'.
Proof.
  intros Hp Hok Hs ent d b yent Hin Hb Hh. cbv zeta. rewrite (get_entry_perm T T' _ Hp Hok). intro Hg.
  apply (Hs ent d b yent); auto. eapply Permutation_in; [symmetry|]; eauto.
Qed.

Theorem order_independent T T' : tbl_ok D K stranded T -> exts_sym D stranded T -> Permutation T T' ->
  exists nodes nodes', compress_kmers D reduce join stranded T = Some nodes /\
    compress_kmers D reduce join stranded T' = Some nodes' /\
    forall kx ky, In kx (keys D T) -> In ky (keys D T) ->
      (same_node D K stranded nodes kx ky <-> same_node D K stranded nodes' kx ky).
Proof.
  intros Hok Hsym Hp.
  pose proof (tbl_ok_perm _ _ Hp Hok) as Hok'. pose proof (exts_sym_perm _ _ Hp Hok Hsym) as Hsym'.
  destruct (same_node_iff D reduce join K stranded HK T Hok Hsym join_sym) as [nodes [Hc Hiff]].
  destruct (same_node_iff D reduce join K stranded HK T' Hok' Hsym' join_sym) as [nodes' [Hc' Hiff']].
  exists nodes, nodes'. split; [exact Hc|]. split; [exact Hc'|]. intros kx ky Hx Hy.
  assert (Hidx : forall (T0 : table D) k, In k (keys D T0) -> exists i, i < length T0 /\ kkey D T0 i = k).
  { intros T0 k Hk. unfold Unitig.keys in Hk. apply in_map_iff in Hk. destruct Hk as [e [<- He]].
    apply In_nth_error in He. destruct He as [i Hi]. exists i. split; [eapply valid_nth; eauto | eapply kkey_nth; eauto]. }
  assert (Hx' : In kx (keys D T')) by (unfold Unitig.keys in *; eapply Permutation_in; [apply Permutation_map; exact Hp | exact Hx]).
  assert (Hy' : In ky (keys D T')) by (unfold Unitig.keys in *; eapply Permutation_in; [apply Permutation_map; exact Hp | exact Hy]).
  destruct (Hidx T kx Hx) as [i [Hi Ei]]. destruct (Hidx T ky Hy) as [j [Hj Ej]].
  destruct (Hidx T' kx Hx') as [i' [Hi' Ei']]. destruct (Hidx T' ky Hy') as [j' [Hj' Ej']].
  rewrite <- Ei, <- Ej at 1. rewrite (Hiff i j Hi Hj). rewrite <- Ei', <- Ej'. rewrite (Hiff' i' j' Hi' Hj').
  split; intro H.
  - apply (kconn_mconn T' Hok'); auto. rewrite Ei', Ej'. apply (kconn_perm T T'); auto.
    rewrite <- Ei, <- Ej. now apply mconn_kconn.
  - apply (kconn_mconn T Hok); auto. rewrite Ei, Ej. apply (kconn_perm T' T); [now symmetry|].
    rewrite <- Ei', <- Ej'. now apply mconn_kconn.
Qed.
End Order.
