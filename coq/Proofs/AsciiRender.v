(* C16: reading back.  [ds_of_dna l] stores exactly l (get / iter / to_ascii_vec / Display), satisfies the
   representation invariant, and rendering an ingested byte string gives the upper-cased input with every
   non-ACGT byte replaced by 'A'. *)
From Coq Require Import NArith List Bool Arith Lia.
From DBG Require Import Gen.SourceConsts Spec.Dna Spec.Ascii Packed.KmerModel Packed.Avx2Model Packed.AsciiModel
  Proofs.ListFacts Proofs.KmerLanes Proofs.AsciiConvertSweep Proofs.AsciiConvert Proofs.AsciiPaths.
Import ListNotations.
Open Scope N_scope.

(* ------------------------------------------------------------------ arithmetic on positions *)
Lemma div32_step i : (32 <= i)%nat -> (i / 32 = S ((i - 32) / 32) /\ i mod 32 = (i - 32) mod 32)%nat.
Proof.
  intro H. replace i with ((i - 32) + 1 * 32)%nat at 1 3 by lia.
  rewrite Nat.div_add, Nat.mod_add by lia. lia.
Qed.
Lemma addr_eq i : ds_addr i = (i / 32, (i mod 32) * 2)%nat.
Proof.
  unfold ds_addr. change 64%nat with (32 * 2)%nat.
  rewrite Nat.div_mul_cancel_r, Nat.mul_mod_distr_r by lia. reflexivity.
Qed.

(* ------------------------------------------------------------------ indexing into chunks *)
Lemma in_firstn_ {A} n (l : list A) x : In x (firstn n l) -> In x l.
Proof. revert n; induction l; intros [|n]; simpl; intuition eauto. Qed.
Lemma in_skipn_ {A} n (l : list A) x : In x (skipn n l) -> In x l.
Proof. revert n; induction l; intros [|n]; simpl; intuition eauto. Qed.
Lemma nth_chunks f : forall (l : list N) i, (length l <= f)%nat -> (i < length l)%nat ->
  (i / 32 < length (chunks_fuel f 32 l))%nat /\
  (i mod 32 < length (nth (i / 32) (chunks_fuel f 32 l) []))%nat /\
  (length (nth (i / 32) (chunks_fuel f 32 l) []) <= 32)%nat /\
  Forall (fun b => In b l) (nth (i / 32) (chunks_fuel f 32 l) []) /\
  nth (i mod 32) (nth (i / 32) (chunks_fuel f 32 l) []) 0 = nth i l 0.
Proof.
  induction f as [|f IH]; intros l i Hl Hi; [lia|].
  assert (HL : l <> []) by (destruct l; [cbn in Hi; lia | discriminate]).
  rewrite chunks_fuel_S by exact HL.
  destruct (Nat.ltb i 32) eqn:E.
  - apply Nat.ltb_lt in E. rewrite Nat.div_small, Nat.mod_small by exact E. cbn [nth length].
    rewrite firstn_length. repeat split; try lia.
    + apply Forall_forall. intros b Hb. eapply in_firstn_. exact Hb.
    + now apply nth_firstn_lt.
  - apply Nat.ltb_ge in E. destruct (div32_step i E) as [-> ->]. cbn [nth length].
    destruct (IH (skipn 32 l) (i - 32)%nat) as (A & B & C & D & F); [rewrite skipn_length; lia ..|].
    repeat split; try lia.
    + eapply Forall_impl; [| exact D]. intros b Hb. eapply in_skipn_. exact Hb.
    + rewrite F, nth_skipn_'. f_equal. lia.
Qed.

(* ------------------------------------------------------------------ one lane of a block *)
Lemma rank_zeros k : rank (repeat 0 k) = 0.
Proof. induction k; [reflexivity|]. cbn [repeat]. rewrite rank_cons, IHk. lia. Qed.
Lemma pack_be_pad g : (length g <= 32)%nat -> pack_be g = rank (g ++ repeat 0 (32 - length g)).
Proof. intro H. unfold pack_be. now rewrite rank_app, rank_zeros, repeat_length, N.add_0_r. Qed.

Lemma block_lane g j : (length g <= 32)%nat -> wf_dna g -> (j < length g)%nat ->
  N.land (N.shiftr (pack_be g) (N.of_nat (62 - j * 2))) 3 = nth j g 0.
Proof.
  intros Hl Hw Hj. rewrite pack_be_pad by exact Hl. set (G := g ++ repeat 0 (32 - length g)).
  assert (HG : length G = 32%nat) by (unfold G; rewrite app_length, repeat_length; lia).
  assert (HW : wf_dna G).
  { unfold G, wf_dna. apply Forall_app. split; [exact Hw|]. apply Forall_forall. intros b Hb.
    apply repeat_spec in Hb. subst. reflexivity. }
  rewrite <- (app_nth1 g (repeat 0 (32 - length g)) 0 Hj). fold G.
  rewrite <- (decode_rank 32 G HG HW) at 2. unfold decode.
  rewrite nth_map_seq0 by lia. rewrite lane_div.
  change 3 with (N.ones 2). rewrite N.land_ones, N.shiftr_div_pow2. change (2 ^ 2) with 4.
  rewrite pow4. do 3 f_equal. lia.
Qed.

(* ------------------------------------------------------------------ get / iter on ds_of_dna *)
Lemma ds_get_spec l i : wf_dna l -> (i < length l)%nat -> ds_get (ds_of_dna l) i = Some (nth i l 0).
Proof.
  intros Hw Hi. unfold ds_get. rewrite addr_eq. unfold ds_of_dna. cbn [ds_storage]. rewrite map_length.
  destruct (nth_chunks (length l) l i (le_n _) Hi) as (A & B & C & D & E). fold (chunks 32 l) in *.
  match goal with |- context [Nat.ltb ?a ?b] => replace (Nat.ltb a b) with true by (symmetry; apply Nat.ltb_lt; exact A) end.
  rewrite (nth_map_in pack_be (chunks 32 l) 0 [] (i / 32)) by exact A.
  f_equal. etransitivity; [apply block_lane; [exact C | | exact B] | exact E].
  unfold wf_dna in *. rewrite Forall_forall in Hw. eapply Forall_impl; [| exact D]. intros b Hb. now apply Hw.
Qed.

Lemma omapM_seq {A} (f : nat -> option A) (g : nat -> A) idx :
  (forall i, In i idx -> f i = Some (g i)) -> omapM f idx = Some (map g idx).
Proof.
  induction idx as [|i idx IH]; intro H; [reflexivity|]. cbn [omapM map].
  rewrite (H i (or_introl eq_refl)). cbn [obind]. rewrite IH by (intros; apply H; now right). reflexivity.
Qed.

Theorem ds_to_bytes_spec l : wf_dna l -> ds_to_bytes (ds_of_dna l) = Some l.
Proof.
  intro Hw. unfold ds_to_bytes. cbn [ds_len ds_of_dna].
  rewrite (omapM_seq _ (fun i => nth i l 0)).
  - now rewrite map_nth_seq.
  - intros i Hi. apply in_seq in Hi. apply ds_get_spec; [exact Hw | lia].
Qed.

(* ------------------------------------------------------------------ rendering *)
Lemma render_sweep :
  forallb (fun c => (bits_to_ascii (ascii_base c) =? render_char c) &&
                    (bits_to_base_ch (ascii_base c) =? render_char c)) bytes256 = true.
Proof. vm_compute. reflexivity. Qed.
Lemma render_char_ok c : c < 256 ->
  bits_to_ascii (ascii_base c) = render_char c /\ bits_to_base_ch (ascii_base c) = render_char c.
Proof.
  intro H. pose proof render_sweep as S. rewrite forallb_forall in S. specialize (S c (lt256_in c H)).
  apply andb_prop in S as [S1 S2]. now apply N.eqb_eq in S1, S2.
Qed.

(* to_ascii_vec / to_string of an ingested byte string: upper-cased, non-ACGT replaced by 'A' - on both paths *)
Theorem render_roundtrip bytes : Forall (fun b => b < 256) bytes -> forall avx2,
  (do d <- from_acgt_bytes avx2 bytes; to_ascii_vec d) = Some (render bytes) /\
  (do d <- from_acgt_bytes avx2 bytes; ds_to_string d) = Some (render bytes).
Proof.
  intros Hb avx2. rewrite (proj2 (from_acgt_paths_agree bytes Hb)). cbn [obind].
  unfold to_ascii_vec, ds_to_string. rewrite ds_to_bytes_spec by apply ascii_bases_wf. cbn [obind].
  unfold render. rewrite !map_map. rewrite Forall_forall in Hb.
  split; f_equal; apply map_ext_in; intros c Hc; now apply render_char_ok, Hb.
Qed.
