(* C03: the C01 partition condition (every canonical k-mer occurs once among all node windows: [kmers_once])
   implies the end conditions [ends_ok] used by edges_symmetric / max_path_valid. *)
From Coq Require Import NArith ZArith List Bool Arith Lia.
From DBG Require Import Spec.Dna Spec.GraphIndex Packed.ExtsModel Algo.Compress Algo.GraphModel Spec.EdgeSpec
  Proofs.ListFacts Proofs.DnaFacts Proofs.GraphQueryProofs.
Import ListNotations.
Local Open Scope nat_scope.

Lemma NoDup_app_inv {A} (a b : list A) : NoDup (a ++ b) -> NoDup a /\ NoDup b /\ forall x, In x a -> ~ In x b.
Proof.
  induction a as [|y a IH]; cbn [app]; intro H.
  - split; [constructor|]. split; [exact H|]. intros x [].
  - inversion H as [|? ? Hn Hr]; subst. destruct (IH Hr) as [A1 [A2 A3]]. split; [|split; [exact A2|]].
    + constructor; [|exact A1]. intro Hin. apply Hn. apply in_or_app. now left.
    + intros x [<-|Hx]; [|now apply A3]. intro Hin. apply Hn. apply in_or_app. now right.
Qed.
Lemma NoDup_concat_inv {A} (L : list (list A)) : NoDup (concat L) ->
  (forall i, i < length L -> NoDup (nth i L [])) /\
  (forall i j x, i < j -> j < length L -> In x (nth i L []) -> In x (nth j L []) -> False).
Proof.
  induction L as [|l L IH]; cbn [concat]; intro H.
  - split; [intros i Hi; cbn in Hi; lia|]. intros i j x _ Hj. cbn in Hj. lia.
  - apply NoDup_app_inv in H as [H1 [H2 H3]]. destruct (IH H2) as [I1 I2]. split.
    + intros [|i] Hi; cbn [nth]; [exact H1|]. apply I1. cbn in Hi. lia.
    + intros [|i] [|j] x Hij Hj; cbn [nth length] in *; try lia.
      * intros Hx Hy. apply (H3 x Hx). apply in_concat. exists (nth j L []). split; [|exact Hy]. apply nth_In. lia.
      * apply I2; lia.
Qed.

Section Valid.
Variable D : Type.
Variable K : nat.
Variable stranded : bool.
Local Notation graph := (graph D).
Local Notation node_seq := (node_seq D).

Definition ckmers (s : dna) : list dna := map (canon_s stranded) (kmers K s).
Definition term_pos (s : dna) (d : dir) : nat := match d with DLeft => 0 | DRight => length s - K end.

Lemma term_kmer_nth (s : dna) d : K <= length s ->
  term_pos s d < length (ckmers s) /\ nth (term_pos s d) (ckmers s) [] = canon_s stranded (term_kmer K s d).
Proof.
  intro L. unfold ckmers, kmers. rewrite map_length, map_length, seq_length.
  assert (P : term_pos s d < length s + 1 - K) by (destruct d; cbn [term_pos]; lia). split; [exact P|].
  rewrite map_map. set (f := fun x : nat => canon_s stranded (kmer_at K s x)).
  rewrite (nth_indep _ [] (f 0)) by (rewrite map_length, seq_length; exact P).
  rewrite (map_nth f), seq_nth by exact P. unfold f. now destruct d.
Qed.

Lemma nth_ckmers (g : graph) v : v < length g ->
  nth v (map (fun s => map (canon_s stranded) (kmers K s)) (g_seqs D g)) [] = ckmers (node_seq g v).
Proof.
  intro H. unfold EdgeSpec.node_seq. destruct (nth_error g v) as [n|] eqn:E; [|apply nth_error_None in E; lia].
  apply nth_error_nth. unfold g_seqs. rewrite !nth_error_map, E. reflexivity.
Qed.

(* two node ends with the same canonical k-mer are the same end of the same node, or the two ends of a
   single-k-mer node *)
Lemma once_ends (g : graph) : wf_graph D K g -> kmers_once D K stranded g ->
  forall u w s s', u < length g -> w < length g ->
    canon_s stranded (term_kmer K (node_seq g w) s') = canon_s stranded (term_kmer K (node_seq g u) s) ->
    w = u /\ (s' = s \/ length (node_seq g u) = K).
Proof.
  intros W O u w s s' Hu Hw E. unfold kmers_once in O. apply NoDup_concat_inv in O as [O1 O2].
  assert (Len : length (map (fun s => map (canon_s stranded) (kmers K s)) (g_seqs D g)) = length g)
    by (unfold g_seqs; now rewrite !map_length).
  destruct (node_seq_ok D K g u W Hu) as [Lu _]. destruct (node_seq_ok D K g w W Hw) as [Lw _].
  destruct (term_kmer_nth (node_seq g u) s Lu) as [Pu Nu]. destruct (term_kmer_nth (node_seq g w) s' Lw) as [Pw Nw].
  assert (Iu : In (canon_s stranded (term_kmer K (node_seq g u) s)) (ckmers (node_seq g u))) by (rewrite <- Nu; now apply nth_In).
  assert (Iw : In (canon_s stranded (term_kmer K (node_seq g u) s)) (ckmers (node_seq g w))) by (rewrite <- E, <- Nw; now apply nth_In).
  assert (Ewu : w = u).
  { destruct (Nat.lt_trichotomy w u) as [H|[H|H]]; [exfalso|exact H|exfalso].
    - apply (O2 w u (canon_s stranded (term_kmer K (node_seq g u) s)) H); rewrite ?Len, ?nth_ckmers; auto.
    - apply (O2 u w (canon_s stranded (term_kmer K (node_seq g u) s)) H); rewrite ?Len, ?nth_ckmers; auto. }
  subst w. split; [reflexivity|].
  specialize (O1 u). rewrite Len, nth_ckmers in O1 by exact Hu. specialize (O1 Hu).
  rewrite NoDup_nth in O1. specialize (O1 _ _ Pw Pu). rewrite Nu, Nw in O1. specialize (O1 E).
  destruct s, s'; cbn [term_pos] in O1; auto; right; lia.
Qed.

Theorem kmers_once_ends_ok (g : graph) : wf_graph D K g -> kmers_once D K stranded g -> ends_ok D K stranded g.
Proof.
  intros W O.
  assert (ND : forall s, NoDup (ends_of K (g_seqs D g) s)).
  { intro s. apply (NoDup_nth _ []). intros i j Hi Hj E. rewrite ends_length in Hi, Hj.
    rewrite !ends_nth in E by assumption.
    destruct (once_ends g W O j i s s Hj Hi) as [H _]; [now rewrite E|exact H]. }
  split; [apply ND|]. split; [apply ND|]. intros St u w s Hu Hw E.
  destruct (term_ok D K g u s W Hu) as [_ Wu].
  destruct (once_ends g W O u w s (dflip s) Hu Hw) as [-> [H|H]].
  - rewrite E, St. unfold canon_s. now apply canon_rc.
  - destruct s; discriminate H.
  - auto.
Qed.
End Valid.
