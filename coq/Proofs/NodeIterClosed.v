(* C18: the container contract of [iter_refines] discharged for the real container - a DnaStringSlice into a DnaString
   that satisfies the representation invariant (C14) - by C15_get (sl_get_spec) and C15_get_kmer (sl_get_kmer_spec). *)
From Coq Require Import NArith List Bool Arith Lia.
From DBG Require Import Spec.Dna Packed.KmerModel Packed.DnaStringModel Packed.SliceModel Algo.Iter Algo.NodeIter
  Proofs.KmerLanes Proofs.NodeIterProofs Proofs.DnaStringProofs Proofs.SliceProofs Proofs.IterProofs.
Import ListNotations.
Open Scope N_scope.

Theorem iter_refines_slice : forall c, In c shipped -> forall d s, d_inv d ->
  (s_start s + s_length s <= d_len d)%nat -> (kK c <= s_length s)%nat ->
  forall calls,
  exists it outs, ni_into_iter c d s = Some it /\
    ni_size_hint it = length (kmers (kK c) (sl_view (d_abs d) s)) /\
    ni_run c d s it calls = Some outs /\
    Forall2 (out_matches c) outs (spec_run (kmers (kK c) (sl_view (d_abs d) s)) calls).
Proof.
  intros c Hc d s Hinv Hs HK calls.
  pose proof (IterProofs.sl_view_length d s Hinv Hs) as HL.
  apply (iter_refines c Hc d s (sl_view (d_abs d) s)).
  - symmetry. exact HL.
  - rewrite HL. exact HK.
  - apply IterProofs.sl_view_wf.
  - intros i Hi. apply SliceProofs.sl_get_spec; [exact Hinv | unfold SliceProofs.sl_ok; exact Hs | lia].
  - intros pos Hp. apply sl_get_kmer_spec; [exact Hc | exact Hinv | exact Hs | lia].
Qed.

(* the number of items reported up front, in plain words *)
Lemma iter_refines_slice_count : forall c, In c shipped -> forall d s, d_inv d ->
  (s_start s + s_length s <= d_len d)%nat -> (kK c <= s_length s)%nat ->
  length (kmers (kK c) (sl_view (d_abs d) s)) = (s_length s - kK c + 1)%nat.
Proof.
  intros c Hc d s Hinv Hs HK. rewrite kmers_length. rewrite (IterProofs.sl_view_length d s Hinv Hs). lia.
Qed.

(* ---- the whole graph: node sequences stored in a PackedDnaStringSet (BaseGraph.sequences), node i read through
   `sequences.get(i)` (what get_node / get_node_kmer do), iterated with the packed NodeKmerIter ---- *)
From DBG Require Import Packed.PackedSet Proofs.DnaStringMore.

Theorem packed_graph_iter : forall c, In c shipped -> forall seqs : list dna,
  Forall wf_dna seqs -> Forall (fun l => N.of_nat (length l) < 2 ^ 32) seqs ->
  Forall (fun l => (kK c <= length l)%nat) seqs ->
  exists p, p_add_all p_new seqs = Some p /\ p_len p = length seqs /\
    forall i, (i < length seqs)%nat -> forall calls,
      exists sl it outs, p_get p i = Some sl /\ ni_into_iter c (p_seq p) sl = Some it /\
        ni_size_hint it = (length (nth i seqs []) - kK c + 1)%nat /\
        ni_run c (p_seq p) sl it calls = Some outs /\
        Forall2 (out_matches c) outs (spec_run (kmers (kK c) (nth i seqs [])) calls).
Proof.
  intros c Hc seqs W L HK.
  destruct (p_add_all_ok seqs p_new [] p_ok_new W L) as [p [E O]]. cbn [app] in O.
  exists p. split; [exact E|]. split; [destruct O as [_ [_ [Ls _]]]; exact Ls|].
  intros i Hi calls.
  destruct (p_get_spec p seqs i O Hi) as [sl [G [Hok [_ [Hview _]]]]].
  assert (Hinv : d_inv (p_seq p)) by (destruct O as [I _]; exact I).
  assert (Hlen : s_length sl = length (nth i seqs [])).
  { rewrite <- Hview. symmetry. apply IterProofs.sl_view_length; [exact Hinv | exact Hok]. }
  assert (HKi : (kK c <= length (nth i seqs []))%nat).
  { rewrite Forall_forall in HK. apply HK. apply nth_In. exact Hi. }
  destruct (iter_refines_slice c Hc (p_seq p) sl Hinv Hok ltac:(rewrite Hlen; exact HKi) calls) as (it & outs & H1 & H2 & H3 & H4).
  exists sl, it, outs. split; [exact G|]. split; [exact H1|]. split.
  - rewrite H2, Hview. rewrite kmers_length. lia.
  - split; [exact H3|]. rewrite <- Hview. exact H4.
Qed.
