(* C18: the container contract of [iter_refines] discharged for the real container - a DnaStringSlice into a DnaString
   that satisfies the representation invariant (C14) - by C15_get (sl_get_spec) and C15_get_kmer (sl_get_kmer_spec). *)
From Coq Require Import NArith List Bool Arith Lia.
From DBG Require Import Spec.Dna Packed.KmerModel Packed.DnaStringModel Packed.SliceModel Algo.Iter Algo.NodeIter
  Proofs.KmerLanes Proofs.NodeIterProofs Proofs.DnaStringProofs Proofs.SliceProofs Proofs.IterProofs.
Import ListNotations.
Open Scope N_scope.

Theorem iter_refines_slice : forall c, In c shipped -> forall d s, d_inv d ->
  (s_start s + s_length s <= d_len d)%nat -> (kK c <= s_length s)%nat ->
  forall calls,
  exists it outs, ni_into_iter c d s = Some it /\
    ni_size_hint it = length (kmers (kK c) (sl_view (d_abs d) s)) /\
    ni_run c d s it calls = Some outs /\
    Forall2 (out_matches c) outs (spec_run (kmers (kK c) (sl_view (d_abs d) s)) calls).
Proof.
  intros c Hc d s Hinv Hs HK calls.
  pose proof (IterProofs.sl_view_length d s Hinv Hs) as HL.
  apply (iter_refines c Hc d s (sl_view (d_abs d) s)).
  - symmetry. exact HL.
  - rewrite HL. exact HK.
  - apply IterProofs.sl_view_wf.
  - intros i Hi. apply SliceProofs.sl_get_spec; [exact Hinv | unfold SliceProofs.sl_ok; exact Hs | lia].
  - intros pos Hp. apply sl_get_kmer_spec; [exact Hc | exact Hinv | exact Hs | lia].
Qed.

(* the number of items reported up front, in plain words *)
Lemma iter_refines_slice_count : forall c, In c shipped -> forall d s, d_inv d ->
  (s_start s + s_length s <= d_len d)%nat -> (kK c <= s_length s)%nat ->
  length (kmers (kK c) (sl_view (d_abs d) s)) = (s_length s - kK c + 1)%nat.
Proof.
  intros c Hc d s Hinv Hs HK. rewrite kmers_length. rewrite (IterProofs.sl_view_length d s Hinv Hs). lia.
Qed.
