(* C16: the representation invariant of what ingestion produces: exactly ceil(len/32) blocks, every block
   a u64, the unused lanes of the last block zero. *)
From Coq Require Import NArith List Bool Arith Lia.
From DBG Require Import Gen.SourceConsts Spec.Dna Spec.Ascii Packed.KmerModel Packed.Avx2Model Packed.AsciiModel
  Proofs.ListFacts Proofs.KmerLanes Proofs.AsciiPaths Proofs.AsciiRender Proofs.AsciiPush.
Import ListNotations.
Open Scope N_scope.

Lemma last_cons_ne {A} (a : A) l d : l <> [] -> last (a :: l) d = last l d.
Proof. destruct l; [congruence | reflexivity]. Qed.
Lemma last_map_ {A B} (f : A -> B) l d : last (map f l) (f d) = f (last l d).
Proof. induction l as [|a l IH]; [reflexivity|]. destruct l; [reflexivity|]. exact IH. Qed.

Lemma chunks_shape n : forall (l : list N), (length l <= n)%nat ->
  length (chunks 32 l) = ((length l + 31) / 32)%nat /\
  ((length l mod 32 <> 0)%nat -> length (last (chunks 32 l) []) = (length l mod 32)%nat).
Proof.
  induction n as [|n IH]; intros l Hl.
  - destruct l; [| cbn in Hl; lia]. split; [reflexivity | intro H; cbn in H; congruence].
  - destruct l as [|x l']; [split; [reflexivity | intro H; cbn in H; congruence]|].
    set (L := x :: l') in *. assert (HL : L <> []) by discriminate.
    assert (Hpos : (1 <= length L)%nat) by (unfold L; cbn [length]; lia).
    destruct (Nat.ltb (length L) 32) eqn:E.
    + apply Nat.ltb_lt in E. rewrite chunks_one by (exact HL || lia). cbn [length last].
      rewrite Nat.mod_small by exact E. split; [| reflexivity].
      replace (length L + 31)%nat with ((length L - 1) + 1 * 32)%nat by lia.
      rewrite Nat.div_add, Nat.div_small by lia. reflexivity.
    + apply Nat.ltb_ge in E. rewrite chunks_cons by exact HL. cbn [length].
      destruct (IH (skipn 32 L)) as [A B]; [rewrite skipn_length; lia|]. rewrite skipn_length in A, B.
      destruct (div32_step (length L) E) as [_ Hm]. split.
      * rewrite A. replace (length L + 31)%nat with ((length L - 32 + 31) + 1 * 32)%nat by lia.
        rewrite Nat.div_add by lia. lia.
      * intro H. rewrite Hm in *. rewrite last_cons_ne; [now apply B|].
        intro Hn. assert (Hs : skipn 32 L <> []).
        { intro Hs. apply (f_equal (@length N)) in Hs. rewrite skipn_length in Hs. cbn [length] in Hs.
          rewrite Hs in H. cbn in H. congruence. }
        rewrite (chunks_cons _ Hs) in Hn. discriminate.
Qed.

Lemma chunks_elems f : forall (l g : list N), In g (chunks_fuel f 32 l) ->
  (length g <= 32)%nat /\ forall x, In x g -> In x l.
Proof.
  induction f as [|f IH]; intros l g Hg.
  - destruct l; destruct Hg.
  - destruct l as [|x l']; [destruct Hg|]. rewrite chunks_fuel_S in Hg by discriminate. destruct Hg as [<-|Hg].
    + split; [rewrite firstn_length; lia | intros y Hy; eapply in_firstn_; exact Hy].
    + destruct (IH _ _ Hg) as [A B]. split; [exact A | intros y Hy; eapply in_skipn_; apply B; exact Hy].
Qed.

Lemma pack_be_lt g : (length g <= 32)%nat -> wf_dna g -> pack_be g < 2 ^ 64.
Proof.
  intros Hl Hw. unfold pack_be. change (2 ^ 64) with (4 ^ N.of_nat 32).
  replace 32%nat with (length g + (32 - length g))%nat at 2 by lia.
  rewrite Nat2N.inj_add, N.pow_add_r. apply N.mul_lt_mono_pos_r; [| now apply rank_lt].
  apply N.neq_0_lt_0, N.pow_nonzero. lia.
Qed.

Theorem ds_of_dna_inv l : wf_dna l -> ds_inv (ds_of_dna l) = true.
Proof.
  intro Hw. unfold ds_inv. cbn [ds_storage ds_len ds_of_dna]. rewrite map_length.
  destruct (chunks_shape (length l) l (le_n _)) as [A B]. rewrite A, Nat.eqb_refl. cbn [andb].
  apply andb_true_intro. split.
  - apply forallb_forall. intros x Hx. apply in_map_iff in Hx as [g [<- Hg]]. apply N.ltb_lt.
    destruct (chunks_elems _ _ _ Hg) as [C D]. apply pack_be_lt; [exact C|].
    unfold wf_dna in *. rewrite Forall_forall in *. auto.
  - destruct (Nat.eqb (length l mod 32) 0) eqn:E; [reflexivity|]. apply Nat.eqb_neq in E.
    change 0 with (pack_be []) at 1. rewrite last_map_. apply N.eqb_eq.
    specialize (B E). unfold pack_be. rewrite B.
    assert (Hk : (length l mod 32 < 32)%nat) by (apply Nat.mod_upper_bound; lia).
    set (k := (length l mod 32)%nat) in *.
    replace (4 ^ N.of_nat (32 - k)) with (2 ^ N.of_nat (64 - 2 * k)) by (rewrite pow4; f_equal; lia).
    apply land_shifted. pose proof (N.pow_nonzero 2 (N.of_nat (64 - 2 * k))). lia.
Qed.

(* so does everything from_acgt_bytes returns, on both paths *)
Corollary from_acgt_inv bytes avx2 : Forall (fun b => b < 256) bytes ->
  exists d, from_acgt_bytes avx2 bytes = Some d /\ ds_inv d = true /\ ds_len d = length bytes.
Proof.
  intro Hb. exists (ds_of_dna (map ascii_base bytes)). split; [apply (from_acgt_paths_agree bytes Hb)|].
  split; [apply ds_of_dna_inv, ascii_bases_wf | cbn; apply map_length].
Qed.

(* the direct reading of the representation (base i = lane 31 - i mod 32 of block i / 32) gives back the list *)
Lemma lane_formula s j : (j < 32)%nat ->
  (s / 4 ^ N.of_nat (31 - j)) mod 4 = N.land (N.shiftr s (N.of_nat (62 - j * 2))) 3.
Proof.
  intro H. change 3 with (N.ones 2). rewrite N.land_ones, N.shiftr_div_pow2. change (2 ^ 2) with 4.
  rewrite pow4. do 3 f_equal. lia.
Qed.
Theorem dna_of_storage_spec l : wf_dna l -> dna_of_storage (ds_storage (ds_of_dna l)) (length l) = l.
Proof.
  intro Hw. unfold dna_of_storage.
  transitivity (map (fun i => nth i l 0) (seq 0 (length l))); [| apply map_nth_seq].
  apply map_ext_in. intros i Hi. apply in_seq in Hi.
  assert (Hlt : (i < length l)%nat) by lia.
  pose proof (ds_get_spec l i Hw Hlt) as G. unfold ds_get in G. rewrite addr_eq in G.
  destruct (Nat.ltb (i / 32) (length (ds_storage (ds_of_dna l)))); [| discriminate].
  injection G as G. rewrite <- G. apply lane_formula. apply Nat.mod_upper_bound. lia.
Qed.
