(* C09 inputs that come out of BaseGraph::combine (concatenation of shard graphs with pairwise disjoint k-mer sets):
   what of [rvalid_loose] is preserved.  Everything except the symmetry of the links that CROSS from one shard graph
   to another:
     - node well-formedness, [pal_ends]: node-wise;
     - distinct left ends, distinct right ends: from the disjointness of the k-mer sets;
     - find_link of the combined graph extends find_link of every shard graph (an answer inside a shard is the
       shard's answer, shifted), so a link between two nodes of one shard has its return link: [links_sym_on same_shard].
   A dangling extension of one shard graph may however resolve, after combination, to a node of another shard graph
   which records no return extension (counter-example in Properties/C09.v: compress_graph then runs into its
   "unreachable" panic); so cross-shard symmetry is exactly the hypothesis that has to be added
   ([combine_rvalid_loose]). *)
From Coq Require Import NArith List Bool Arith Lia Permutation.
From DBG Require Import Spec.Dna Spec.GraphIndex Packed.ExtsModel Algo.Compress Algo.KmerHist Algo.GraphModel
  Algo.Recompress Spec.EdgeSpec Check.RecompCheck Check.RecompLooseCheck Proofs.ListFacts Proofs.DnaFacts
  Proofs.GraphQueryProofs Proofs.RecompCheckProofs Proofs.RecompressProofs Proofs.RecompLoose.
From DBG Require Proofs.CombineProofs Proofs.CompressGraphOk.
Import ListNotations.
Local Open Scope nat_scope.

Section Combine.
Variable D : Type.
Variable K : nat.
Variable stranded : bool.
Local Notation graph := (graph D).
Local Notation find_link := (GraphModel.find_link D K stranded).
Local Notation end_is := (EdgeSpec.end_is D K).
Local Notation ends g side := (ends_of K (g_seqs D g) side).
Local Notation gk := (graph_kmers D K stranded).
Local Notation ext_link := (RecompCheck.ext_link D K stranded).
Local Notation node_ok := (RecompCheck.node_ok D K).
Local Notation links_sym_on := (links_sym_on D K stranded).
Local Notation rvalid_loose := (rvalid_loose D K stranded).

(* ---------------------------------------------------------------- node ends of a concatenation *)
Lemma node_seq_app_l (g1 g2 : graph) v : v < length g1 -> node_seq D (g1 ++ g2) v = node_seq D g1 v.
Proof. intro H. unfold EdgeSpec.node_seq. now rewrite nth_error_app1. Qed.
Lemma node_seq_app_r (g1 g2 : graph) v : length g1 <= v -> node_seq D (g1 ++ g2) v = node_seq D g2 (v - length g1).
Proof. intro H. unfold EdgeSpec.node_seq. now rewrite nth_error_app2. Qed.

Lemma end_is_app_l (g1 g2 : graph) v s k : end_is g1 v s k -> end_is (g1 ++ g2) v s k.
Proof. intros [H1 H2]. split; [rewrite app_length; lia|]. now rewrite node_seq_app_l. Qed.
Lemma end_is_app_r (g1 g2 : graph) v s k : end_is g2 v s k -> end_is (g1 ++ g2) (length g1 + v) s k.
Proof.
  intros [H1 H2]. split; [rewrite app_length; lia|]. rewrite node_seq_app_r by lia.
  now replace (length g1 + v - length g1) with v by lia.
Qed.
Lemma end_is_app_inv (g1 g2 : graph) v s k : end_is (g1 ++ g2) v s k ->
  (v < length g1 /\ end_is g1 v s k) \/ (length g1 <= v /\ end_is g2 (v - length g1) s k).
Proof.
  intros [H1 H2]. rewrite app_length in H1. destruct (Nat.lt_ge_cases v (length g1)) as [Hlt|Hge].
  - left. split; [exact Hlt|]. split; [exact Hlt|]. now rewrite node_seq_app_l in H2.
  - right. split; [exact Hge|]. split; [lia|]. now rewrite node_seq_app_r in H2.
Qed.

Lemma ends_app (g1 g2 : graph) s : ends (g1 ++ g2) s = ends g1 s ++ ends g2 s.
Proof. unfold ends_of, g_seqs. now rewrite !map_app. Qed.
Lemma gk_app (g1 g2 : graph) : gk (g1 ++ g2) = gk g1 ++ gk g2.
Proof. unfold graph_kmers. now rewrite map_app, concat_app. Qed.

(* the (canonical) terminal k-mers of a node are k-mers of the graph *)
Lemma end_in_kmers (g : graph) v s k : Forall node_ok g -> end_is g v s k -> In (ck9 stranded k) (gk g).
Proof.
  intros Hok [Hv Hk]. unfold EdgeSpec.node_seq in Hk.
  destruct (nth_error g v) as [n|] eqn:En; [|apply nth_error_None in En; lia].
  destruct (node_ok_nth D K g v n Hok En) as (_ & HK & _).
  unfold graph_kmers. apply in_concat. exists (node_kmers D K stranded n). split.
  - apply in_map. eapply nth_error_In; eauto.
  - unfold node_kmers. apply in_map. rewrite <- Hk. apply CompressGraphOk.term_in_kmers; lia.
Qed.
Lemma end_wf (g : graph) v s k : Forall node_ok g -> end_is g v s k -> wf_dna k.
Proof.
  intros Hok [Hv Hk]. unfold EdgeSpec.node_seq in Hk.
  destruct (nth_error g v) as [n|] eqn:En; [|apply nth_error_None in En; lia].
  destruct (node_ok_nth D K g v n Hok En) as (Hw & HK & _). rewrite <- Hk. apply term_kmer_ok; [exact Hw | lia].
Qed.

(* pairwise distinct k-mers: in particular distinct left ends and distinct right ends *)
Lemma nodup_kmers_ends (g : graph) s : Forall node_ok g -> NoDup (gk g) -> NoDup (ends g s).
Proof.
  intros Hok Hnd. unfold ends_of, g_seqs. rewrite map_map.
  apply (NoDup_map_inv (ck9 stranded)). rewrite map_map.
  apply (CombineProofs.NoDup_map_of_flat_map (node_kmers D K stranded)).
  - rewrite flat_map_concat_map. exact Hnd.
  - intros n Hn. rewrite Forall_forall in Hok. destruct (Hok n Hn) as (_ & HK & _).
    unfold node_kmers. apply in_map. apply CompressGraphOk.term_in_kmers; lia.
Qed.

(* unstranded: no node end of one part is the reverse complement of a node end of the other part *)
Lemma cross_disjoint (g1 g2 : graph) v w s s' k :
  Forall node_ok g1 -> Forall node_ok g2 -> NoDup (gk g1 ++ gk g2) -> stranded = false ->
  end_is g1 v s (rc k) -> end_is g2 w s' k -> False.
Proof.
  intros H1 H2 Hnd Hs E1 E2.
  pose proof (end_in_kmers g1 v s _ H1 E1) as I1. pose proof (end_in_kmers g2 w s' _ H2 E2) as I2.
  pose proof (end_wf g2 w s' k H2 E2) as Wk.
  assert (Hc : forall x, ck9 stranded x = canon x) by (intro x; unfold ck9; now rewrite Hs).
  rewrite Hc in I1, I2. rewrite (canon_rc k Wk) in I1. rewrite <- Hc in I1, I2.
  destruct (RecompressProofs.NoDup_app_inv _ _ Hnd) as (_ & _ & Hdis). exact (Hdis _ I1 I2).
Qed.
Lemma cross_disjoint' (g1 g2 : graph) v w s s' k :
  Forall node_ok g1 -> Forall node_ok g2 -> NoDup (gk g1 ++ gk g2) -> stranded = false ->
  end_is g1 v s k -> end_is g2 w s' (rc k) -> False.
Proof.
  intros H1 H2 Hnd Hs E1 E2.
  pose proof (end_in_kmers g1 v s _ H1 E1) as I1. pose proof (end_in_kmers g2 w s' _ H2 E2) as I2.
  pose proof (end_wf g1 v s k H1 E1) as Wk.
  assert (Hc : forall x, ck9 stranded x = canon x) by (intro x; unfold ck9; now rewrite Hs).
  rewrite Hc in I1, I2. rewrite (canon_rc k Wk) in I2. rewrite <- Hc in I1, I2.
  destruct (RecompressProofs.NoDup_app_inv _ _ Hnd) as (_ & _ & Hdis). exact (Hdis _ I1 I2).
Qed.

(* ---------------------------------------------------------------- find_link of a concatenation *)
Section App.
Variables g1 g2 : graph.
Hypothesis Hok1 : Forall node_ok g1.
Hypothesis Hok2 : Forall node_ok g2.
Hypothesis Hnd : NoDup (gk (g1 ++ g2)).

Lemma app_ok : Forall node_ok (g1 ++ g2).
Proof. apply Forall_app. split; assumption. Qed.
Lemma app_nodup_ends s : NoDup (ends (g1 ++ g2) s).
Proof. apply nodup_kmers_ends; [apply app_ok | exact Hnd]. Qed.
Lemma part_nodup_ends s : NoDup (ends g1 s) /\ NoDup (ends g2 s).
Proof.
  pose proof (app_nodup_ends s) as H. rewrite ends_app in H.
  destruct (RecompressProofs.NoDup_app_inv _ _ H) as (A & B & _). split; assumption.
Qed.
Lemma Hnd' : NoDup (gk g1 ++ gk g2).
Proof. rewrite <- gk_app. exact Hnd. Qed.

Lemma find_link_app_l k d y t f : find_link g1 k d = Some (y, t, f) -> find_link (g1 ++ g2) k d = Some (y, t, f).
Proof.
  intro H. apply find_link_iff; [apply app_nodup_ends | apply app_nodup_ends|].
  apply find_link_some in H. destruct H as [(-> & -> & E)|(-> & Hs & -> & E & N)].
  - left. split; [reflexivity|]. split; [reflexivity|]. now apply end_is_app_l.
  - right. split; [reflexivity|]. split; [exact Hs|]. split; [reflexivity|]. split; [now apply end_is_app_l|].
    intros w Hw. apply end_is_app_inv in Hw as [[_ Hw]|[_ Hw]]; [exact (N w Hw)|].
    exact (cross_disjoint g1 g2 _ _ _ _ k Hok1 Hok2 Hnd' Hs E Hw).
Qed.
Lemma find_link_app_r k d y t f :
  find_link g2 k d = Some (y, t, f) -> find_link (g1 ++ g2) k d = Some (length g1 + y, t, f).
Proof.
  intro H. apply find_link_iff; [apply app_nodup_ends | apply app_nodup_ends|].
  apply find_link_some in H. destruct H as [(-> & -> & E)|(-> & Hs & -> & E & N)].
  - left. split; [reflexivity|]. split; [reflexivity|]. now apply end_is_app_r.
  - right. split; [reflexivity|]. split; [exact Hs|]. split; [reflexivity|]. split; [now apply end_is_app_r|].
    intros w Hw. apply end_is_app_inv in Hw as [[_ Hw]|[_ Hw]]; [|exact (N _ Hw)].
    exact (cross_disjoint' g1 g2 _ _ _ _ k Hok1 Hok2 Hnd' Hs Hw E).
Qed.
Lemma find_link_app_inv k d y t f : find_link (g1 ++ g2) k d = Some (y, t, f) ->
  (y < length g1 /\ find_link g1 k d = Some (y, t, f)) \/
  (length g1 <= y /\ find_link g2 k d = Some (y - length g1, t, f)).
Proof.
  intro H. apply find_link_some in H. destruct H as [(-> & -> & E)|(-> & Hs & -> & E & N)].
  - apply end_is_app_inv in E as [[Hlt E]|[Hge E]]; [left | right]; (split; [assumption|]).
    + apply find_link_direct; [apply part_nodup_ends | exact E].
    + apply find_link_direct; [apply part_nodup_ends | exact E].
  - apply end_is_app_inv in E as [[Hlt E]|[Hge E]]; [left | right]; (split; [assumption|]).
    + apply find_link_rc; [exact Hs | apply part_nodup_ends | | exact E].
      intros w Hw. apply (N w). now apply end_is_app_l.
    + apply find_link_rc; [exact Hs | apply part_nodup_ends | | exact E].
      intros w Hw. apply (N (length g1 + w)). now apply end_is_app_r.
Qed.

(* ---- the same for resolved extensions *)
Lemma ext_link_app_l x d b l : ext_link g1 x d b = Some l -> ext_link (g1 ++ g2) x d b = Some l.
Proof.
  unfold RecompCheck.ext_link. destruct (nth_error g1 x) as [n|] eqn:En; [|discriminate].
  assert (Hx : x < length g1) by (apply nth_error_Some; congruence).
  rewrite nth_error_app1, En by exact Hx. destruct (e_has_ext (n_exts D n) (dirb d) b); [|discriminate].
  destruct l as [[y t] f]. apply find_link_app_l.
Qed.
Lemma ext_link_app_r x d b y t f :
  ext_link g2 x d b = Some (y, t, f) -> ext_link (g1 ++ g2) (length g1 + x) d b = Some (length g1 + y, t, f).
Proof.
  unfold RecompCheck.ext_link. rewrite nth_error_app2 by lia.
  replace (length g1 + x - length g1) with x by lia.
  destruct (nth_error g2 x) as [n|]; [|discriminate]. destruct (e_has_ext (n_exts D n) (dirb d) b); [|discriminate].
  apply find_link_app_r.
Qed.
Lemma ext_link_app_inv_l x d b y t f :
  x < length g1 -> y < length g1 -> ext_link (g1 ++ g2) x d b = Some (y, t, f) -> ext_link g1 x d b = Some (y, t, f).
Proof.
  intros Hx Hy. unfold RecompCheck.ext_link. rewrite nth_error_app1 by exact Hx.
  destruct (nth_error g1 x) as [n|]; [|discriminate]. destruct (e_has_ext (n_exts D n) (dirb d) b); [|discriminate].
  intro H. apply find_link_app_inv in H as [[_ H]|[Hge _]]; [exact H | lia].
Qed.
Lemma ext_link_app_inv_r x d b y t f :
  length g1 <= x -> length g1 <= y -> ext_link (g1 ++ g2) x d b = Some (y, t, f) ->
  ext_link g2 (x - length g1) d b = Some (y - length g1, t, f).
Proof.
  intros Hx Hy. unfold RecompCheck.ext_link. rewrite nth_error_app2 by exact Hx.
  destruct (nth_error g2 (x - length g1)) as [n|]; [|discriminate].
  destruct (e_has_ext (n_exts D n) (dirb d) b); [|discriminate].
  intro H. apply find_link_app_inv in H as [[Hlt _]|[_ H]]; [lia | exact H].
Qed.

(* links inside the first part / inside the second part *)
Definition psum (P1 P2 : nat -> nat -> Prop) (x y : nat) : Prop :=
  (x < length g1 /\ y < length g1 /\ P1 x y) \/
  (length g1 <= x /\ length g1 <= y /\ P2 (x - length g1) (y - length g1)).

Theorem links_sym_on_app P1 P2 :
  links_sym_on P1 g1 -> links_sym_on P2 g2 -> links_sym_on (psum P1 P2) (g1 ++ g2).
Proof.
  intros S1 S2 x d b y t f n m HP Hn Hm Hb He. destruct HP as [(Hx & Hy & HP)|(Hx & Hy & HP)].
  - rewrite nth_error_app1 in Hn, Hm by assumption.
    pose proof (ext_link_app_inv_l x d b y t f Hx Hy He) as He1.
    destruct (S1 x d b y t f n m HP Hn Hm Hb He1) as (t' & b' & d' & f' & Hb' & He' & Ht & Hd).
    exists t', b', d', f'. split; [exact Hb'|]. split; [now apply ext_link_app_l|]. split; assumption.
  - rewrite nth_error_app2 in Hn, Hm by assumption.
    pose proof (ext_link_app_inv_r x d b y t f Hx Hy He) as He2.
    destruct (S2 _ d b _ t f n m HP Hn Hm Hb He2) as (t' & b' & d' & f' & Hb' & He' & Ht & Hd).
    exists t', b', d', f'. split; [exact Hb'|]. split; [|split; assumption].
    apply ext_link_app_r in He'.
    replace (length g1 + (y - length g1)) with y in He' by lia.
    replace (length g1 + (x - length g1)) with x in He' by lia. exact He'.
Qed.
End App.

(* the three find_link facts in one statement *)
Theorem find_link_app (g1 g2 : graph) :
  Forall node_ok g1 -> Forall node_ok g2 -> NoDup (gk (g1 ++ g2)) ->
  forall k d y t f,
  (find_link g1 k d = Some (y, t, f) -> find_link (g1 ++ g2) k d = Some (y, t, f)) /\
  (find_link g2 k d = Some (y, t, f) -> find_link (g1 ++ g2) k d = Some (length g1 + y, t, f)) /\
  (find_link (g1 ++ g2) k d = Some (y, t, f) ->
     (y < length g1 /\ find_link g1 k d = Some (y, t, f)) \/
     (length g1 <= y /\ find_link g2 k d = Some (y - length g1, t, f))).
Proof.
  intros H1 H2 H3 k d y t f. split; [|split].
  - exact (find_link_app_l g1 g2 H1 H2 H3 k d y t f).
  - exact (find_link_app_r g1 g2 H1 H2 H3 k d y t f).
  - exact (find_link_app_inv g1 g2 H1 H2 H3 k d y t f).
Qed.

(* ---------------------------------------------------------------- links_sym_on *)
Lemma links_sym_on_all (g : graph) : links_sym D K stranded g <-> links_sym_on (fun _ _ => True) g.
Proof.
  split.
  - intros S x d b y t f n m _. apply S.
  - intros S x d b y t f n m. apply S. exact I.
Qed.
Lemma links_sym_on_mono (P Q : nat -> nat -> Prop) (g : graph) :
  (forall x y, P x y -> Q x y) -> links_sym_on Q g -> links_sym_on P g.
Proof. intros H S x d b y t f n m HP. apply S. now apply H. Qed.
Lemma links_sym_on_cover (P Q : nat -> nat -> Prop) (g : graph) :
  (forall x y, P x y \/ Q x y) -> links_sym_on P g -> links_sym_on Q g -> links_sym D K stranded g.
Proof.
  intros H SP SQ x d b y t f n m. destruct (H x y) as [HP|HQ]; [now apply SP | now apply SQ].
Qed.

Lemma same_shard_dec (gs : list graph) : forall x y, same_shard D gs x y \/ ~ same_shard D gs x y.
Proof.
  induction gs as [|g r IH]; intros x y; cbn [same_shard]; [right; tauto|].
  destruct (Nat.lt_ge_cases x (length g)) as [Hx|Hx], (Nat.lt_ge_cases y (length g)) as [Hy|Hy].
  - left. left. split; assumption.
  - right. intros [[_ H]|[H _]]; lia.
  - right. intros [[H _]|[_ [H _]]]; lia.
  - destruct (IH (x - length g) (y - length g)) as [H|H].
    + left. right. repeat split; assumption.
    + right. intros [[H1 _]|[_ [_ H1]]]; [lia | exact (H H1)].
Qed.

(* ---------------------------------------------------------------- n shard graphs *)
Lemma Forall_concat_ {A} (P : A -> Prop) (ls : list (list A)) : Forall (Forall P) ls -> Forall P (concat ls).
Proof. induction 1 as [|l ls H _ IH]; cbn [concat]; [constructor|]. apply Forall_app. split; assumption. Qed.

Theorem combine_links_sym (gs : list graph) :
  Forall (Forall node_ok) gs -> NoDup (gk (concat gs)) -> Forall (links_sym D K stranded) gs ->
  links_sym_on (same_shard D gs) (concat gs).
Proof.
  induction gs as [|g r IH]; intros Hok Hnd Hsym.
  - intros x d b y t f n m [].
  - cbn [concat] in *. inversion Hok as [|? ? Hokg Hokr]; subst. inversion Hsym as [|? ? Hsg Hsr]; subst.
    pose proof (Forall_concat_ _ _ Hokr) as Hokc.
    assert (Hndr : NoDup (gk (concat r))).
    { rewrite gk_app in Hnd. destruct (RecompressProofs.NoDup_app_inv _ _ Hnd) as (_ & H & _). exact H. }
    specialize (IH Hokr Hndr Hsr).
    apply (links_sym_on_mono _ (psum g (fun _ _ => True) (same_shard D r))).
    + intros x y [[Hx Hy]|(Hx & Hy & H)]; [left | right]; repeat split; assumption.
    + apply links_sym_on_app; auto. now apply links_sym_on_all.
Qed.

(* what BaseGraph::combine preserves: everything but the symmetry of cross-shard links *)
Theorem combine_rvalid_loose_within (gs : list graph) :
  Forall rvalid_loose gs -> NoDup (gk (combine_graphs gs)) ->
  rvalid_loose_within D K stranded gs (combine_graphs gs).
Proof.
  unfold combine_graphs. intros HV Hnd.
  assert (Hok : Forall (Forall node_ok) gs).
  { eapply Forall_impl; [|exact HV]. intros g V. apply V. }
  pose proof (Forall_concat_ _ _ Hok) as Hokc.
  split; [exact Hokc|]. split; [now apply nodup_kmers_ends|]. split; [now apply nodup_kmers_ends|]. split.
  - intros Hs n d Hn Hp. apply in_concat in Hn as (g & Hg & Hn). rewrite Forall_forall in HV.
    destruct (HV g Hg) as (_ & _ & _ & Hpal & _). exact (Hpal Hs n d Hn Hp).
  - apply combine_links_sym; auto. eapply Forall_impl; [|exact HV]. intros g V. apply V.
Qed.

(* ... hence the combined graph is loosely valid as soon as its cross-shard links are symmetric *)
Theorem combine_rvalid_loose (gs : list graph) :
  Forall rvalid_loose gs -> NoDup (gk (combine_graphs gs)) ->
  links_sym_on (fun x y => ~ same_shard D gs x y) (combine_graphs gs) ->
  rvalid_loose (combine_graphs gs).
Proof.
  intros HV Hnd Hx. destruct (combine_rvalid_loose_within gs HV Hnd) as (H1 & H2 & H3 & H4 & H5).
  split; [exact H1|]. split; [exact H2|]. split; [exact H3|]. split; [exact H4|].
  eapply links_sym_on_cover; [apply (same_shard_dec gs) | exact H5 | exact Hx].
Qed.

(* conversely a loosely valid combined graph is loosely valid within its shards, trivially *)
Lemma rvalid_loose_within_of (gs : list graph) (g : graph) : rvalid_loose g -> rvalid_loose_within D K stranded gs g.
Proof.
  intros (H1 & H2 & H3 & H4 & H5).
  split; [exact H1|]. split; [exact H2|]. split; [exact H3|]. split; [exact H4|].
  apply (links_sym_on_mono _ (fun _ _ => True)); [intros x y _; exact I | now apply links_sym_on_all].
Qed.
End Combine.

(* ---------------------------------------------------------------- in the form of C04_combine_spec *)
(* shard graphs whose k-mers are duplicate-free and carry pairwise different shard ids (the hypothesis of C04's
   combine_spec, on the harness payload) *)
Section Shards.
Variable K : nat.
Variable stranded : bool.

Lemma pipeline_graph_kmers (g : graph rpay) :
  PipelineCheck.graph_kmers K stranded g = RecompCheck.graph_kmers rpay K stranded g.
Proof. unfold PipelineCheck.graph_kmers, RecompCheck.graph_kmers. rewrite flat_map_concat_map. reflexivity. Qed.

Theorem combine_shards_rvalid_loose_within (sh : dna -> N) (bs : list N) (gs : list (graph rpay)) :
  NoDup bs ->
  Forall2 (fun b g => NoDup (PipelineCheck.graph_kmers K stranded g) /\
                      forall x, In x (PipelineCheck.graph_kmers K stranded g) -> sh x = b) bs gs ->
  Forall (rvalid_loose rpay K stranded) gs ->
  rvalid_loose_within rpay K stranded gs (combine_graphs gs).
Proof.
  intros Hbs Hsh HV. apply combine_rvalid_loose_within; [exact HV|].
  rewrite <- pipeline_graph_kmers. exact (proj1 (CombineProofs.combine_spec K stranded sh bs gs Hbs Hsh)).
Qed.
End Shards.
