(* C09, outputs of compress_graph (work package outmax), part 2: the node ends of the result graph.

   Context: the restricted input graph g1 (walk invariant w.r.t. the survivors S, distinct left ends, distinct right
   ends) and the list r of (result node, node path) that rb_loop built.  The terminal k-mer of a result node on side d is
   the terminal k-mer of the end node of its path, read in the direction of travel ([out_end]).  Hence, provided no
   surviving node's left end is the reverse complement of another surviving node's right end ([cross_ok]; vacuous in
   stranded graphs; implied by "every canonical k-mer occurs once", Proofs/RecompOutMain.v), the result graph has
   C03's [ends_ok]: distinct left ends, distinct right ends, no cross pair.  Without [cross_ok] this is FALSE
   (Properties/C09Out.v, C09O_out_rvalid_needs_cross): [rvalid] only asks for distinct ends per side, and a node
   traversed flipped at the left end of its path contributes the reverse complement of its RIGHT end as a left end.
   Also: result nodes are well formed, and a result node is a palindromic single-k-mer node iff the end node is. *)
From Coq Require Import NArith List Bool Arith Lia Permutation.
From DBG Require Import Proofs.AbstractWalk.
From DBG Require Import Spec.Dna Spec.GraphIndex Packed.ExtsModel Algo.Compress Algo.GraphModel Algo.Recompress
  Spec.EdgeSpec Check.RecompCheck Proofs.ListFacts Proofs.DnaFacts Proofs.KmerAlgebra
  Proofs.ExtsProofs Proofs.RecompSweeps Proofs.ComposeSweeps
  Proofs.RecompressProofs Proofs.RecompIdem Proofs.GraphQueryProofs Proofs.WalkProofs Proofs.RecompKmers Proofs.RecompExts.
Import ListNotations.
Local Open Scope nat_scope.

(* ---- list facts ------------------------------------------------------------------------------------------------------ *)
Lemma NoDup_concat_idx {A} (ls : list (list A)) : forall i j a b y,
  NoDup (concat ls) -> nth_error ls i = Some a -> nth_error ls j = Some b -> In y a -> In y b -> i = j.
Proof.
  induction ls as [|l ls IH]; intros i j a b y Hnd Hi Hj Ha Hb; [destruct i; discriminate|].
  cbn [concat] in Hnd. apply NoDup_app_inv in Hnd as (_ & N2 & N3).
  destruct i as [|i], j as [|j]; cbn in Hi, Hj.
  - reflexivity.
  - exfalso. injection Hi as <-. apply (N3 y Ha). apply in_concat. exists b. split; [eapply nth_error_In; eauto | exact Hb].
  - exfalso. injection Hj as <-. apply (N3 y Hb). apply in_concat. exists a. split; [eapply nth_error_In; eauto | exact Ha].
  - f_equal. eapply IH; eauto.
Qed.

Lemma NoDup_fst_snd {A B} (p : list (A * B)) a b b' : NoDup (map fst p) -> In (a, b) p -> In (a, b') p -> b = b'.
Proof.
  induction p as [|[x y] p IH]; intros Hnd H1 H2; [destruct H1|]. cbn in Hnd. inversion Hnd as [|? ? Hn Hnd']; subst.
  destruct H1 as [H1|H1], H2 as [H2|H2].
  - congruence.
  - exfalso. injection H1 as -> ->. apply Hn. apply (in_map fst) in H2. exact H2.
  - exfalso. injection H2 as -> ->. apply Hn. apply (in_map fst) in H1. exact H1.
  - auto.
Qed.

Lemma endelt_both_single (p : list (nat * dir)) a : NoDup (map fst p) ->
  endelt p DLeft = Some a -> endelt p DRight = Some a -> p = [a].
Proof.
  unfold endelt. destruct p as [|x q]; [discriminate|]. intros Hnd H1 H2. injection H1 as ->.
  destruct q as [|y q]; [reflexivity|]. exfalso.
  assert (Hl : last (a :: y :: q) a = a) by (injection H2 as H2; exact H2).
  cbn [map] in Hnd. inversion Hnd as [|? ? Hn _]; subst. apply Hn.
  change (last (a :: y :: q) a) with (last (y :: q) a) in Hl.
  rewrite <- Hl at 1. change (fst y :: map fst q) with (map fst (y :: q)). apply (in_map fst). apply last_in. discriminate.
Qed.

Lemma rc_inj (x y : dna) : wf_dna x -> wf_dna y -> rc x = rc y -> x = y.
Proof. intros Hx Hy E. rewrite <- (ListFacts.rc_involutive x Hx), <- (ListFacts.rc_involutive y Hy). now rewrite E. Qed.

Lemma wf_glue K (ss : list dna) : (forall s, In s ss -> wf_dna s) -> wf_dna (glue K ss).
Proof.
  unfold glue. induction ss as [|s ss IH]; intro H; [constructor|]. cbn [map concat]. apply wf_app.
  - apply RecompressProofs.wf_skipn. apply H. now left.
  - apply IH. intros x Hx. apply H. now right.
Qed.
Lemma glue_length K (ss : list dna) : 1 <= K -> (forall s, In s ss -> K <= length s) -> length ss <= length (glue K ss).
Proof.
  intros HK. unfold glue. induction ss as [|s ss IH]; intro H; [cbn; lia|]. cbn [map concat length].
  rewrite app_length, skipn_length. specialize (H s (or_introl eq_refl)) as Hs.
  assert (length ss <= length (concat (map (skipn (K - 1)) ss))) by (apply IH; intros x Hx; apply H; now right). lia.
Qed.

(* the extension count of a byte is the number of bases with has_ext *)
Lemma num_ext_count e d : (e < 256)%N ->
  e_num_ext_dir e d = N.of_nat (length (filter (e_has_ext e d) bases4)).
Proof.
  intro He.
  assert (E : forallb (fun e => forallb (fun d =>
     N.eqb (e_num_ext_dir e d) (N.of_nat (length (filter (e_has_ext e d) bases4)))) [false; true]) all_exts = true)
    by (vm_compute; reflexivity).
  rewrite forallb_forall in E. specialize (E e (in_all_exts e He)).
  rewrite forallb_forall in E. specialize (E d ltac:(destruct d; cbn; auto)). now apply N.eqb_eq.
Qed.
(* two bytes whose bits on one side correspond (through the identity or the complement) have the same count there *)
Lemma num_ext_transfer e e' d d' s : (e < 256)%N -> (e' < 256)%N ->
  (forall b, In b bases4 -> e_has_ext e d b = e_has_ext e' d' (ob s b)) ->
  e_num_ext_dir e d = e_num_ext_dir e' d'.
Proof.
  intros He He' H. rewrite (num_ext_count e d He), (num_ext_count e' d' He'). f_equal.
  assert (H0 := H 0%N ltac:(cbn; auto)). assert (H1 := H 1%N ltac:(cbn; auto)).
  assert (H2 := H 2%N ltac:(cbn; auto)). assert (H3 := H 3%N ltac:(cbn; auto)).
  unfold bases4. cbn [filter]. rewrite H0, H1, H2, H3.
  destruct s; cbn [ob]; change (comp 0) with 3%N; change (comp 1) with 2%N; change (comp 2) with 1%N; change (comp 3) with 0%N;
    destruct (e_has_ext e' d' 0), (e_has_ext e' d' 1), (e_has_ext e' d' 2), (e_has_ext e' d' 3); reflexivity.
Qed.
Lemma ob_invol s b : (b < 4)%N -> ob s (ob s b) = b.
Proof. intro Hb. destruct s; cbn [ob]; [reflexivity | now apply comp_involutive]. Qed.
Lemma ob_in s b : In b bases4 -> In (ob s b) bases4.
Proof. intro Hb. destruct s; cbn [ob]; [exact Hb | apply in_bases4, comp_lt4]. Qed.

Section Ends.
Variable D : Type.
Variable reduce : D -> D -> D.
Variable join : D -> D -> bool.
Variable K : nat.
Variable stranded : bool.
Hypothesis join_sym : forall a b, join a b = join b a.
Local Notation graph := (graph D).
Local Notation gnode := (gnode D).
Local Notation Linked := (Linked D join K stranded).
Local Notation rnext := (rnext D join K stranded).
Local Notation pal_single := (RecompCheck.pal_single D K stranded).

(* no surviving node's end is the reverse complement of the opposite end of another surviving node (or of its own
   opposite end, unless it is a single k-mer); the unstranded clause of C03's [ends_ok], restricted to S *)
Definition cross_ok (g : graph) (S : list nat) : Prop :=
  stranded = false -> forall u w s nu nw, In u S -> In w S -> nth_error g u = Some nu -> nth_error g w = Some nw ->
    term_kmer K (n_seq D nw) (dflip s) = rc (term_kmer K (n_seq D nu) s) -> w = u /\ length (n_seq D nu) = K.

Lemma cross_ok_stranded (g : graph) S : stranded = true -> cross_ok g S.
Proof. intros St H. congruence. Qed.

Lemma cross_ok_seqs (g g' : graph) S : g_seqs D g' = g_seqs D g -> cross_ok g S -> cross_ok g' S.
Proof.
  intros Hs H St u w s nu nw Hu Hw Hnu Hnw E.
  assert (Hn : forall x n', nth_error g' x = Some n' -> exists n, nth_error g x = Some n /\ n_seq D n = n_seq D n').
  { intros x n' Hx. apply (f_equal (fun l => nth_error l x)) in Hs. unfold g_seqs in Hs. rewrite !nth_error_map, Hx in Hs.
    destruct (nth_error g x) as [n|]; [|discriminate]. cbn in Hs. exists n. split; [reflexivity | congruence]. }
  destruct (Hn u nu Hnu) as (mu & Hmu & Eu). destruct (Hn w nw Hnw) as (mw & Hmw & Ew).
  rewrite <- Eu, <- Ew in E. rewrite <- Eu. exact (H St u w s mu mw Hu Hw Hmu Hmw E).
Qed.

Lemma ends_nth_eq (g : graph) d v v' nv nv' :
  NoDup (ends_of K (g_seqs D g) d) -> nth_error g v = Some nv -> nth_error g v' = Some nv' ->
  term_kmer K (n_seq D nv) d = term_kmer K (n_seq D nv') d -> v = v'.
Proof.
  intros Hnd Hv Hv' E. rewrite NoDup_nth_error in Hnd. apply Hnd.
  - unfold ends_of, g_seqs. rewrite !map_length. apply nth_error_Some. congruence.
  - unfold ends_of, g_seqs. rewrite !nth_error_map, Hv, Hv'. cbn. now rewrite E.
Qed.

(* a palindromic single-k-mer node is never glued to a neighbour *)
Lemma pal_path_single (g : graph) p v s nv :
  Linked g p -> In (v, s) p -> nth_error g v = Some nv -> pal_single nv = true -> p = [(v, s)].
Proof.
  intros L Hin Hnv Hp.
  assert (Hno : forall t, rnext g v t = None).
  { intro t. destruct (rnext g v t) as [[y ty]|] eqn:E; [|reflexivity]. exfalso.
    destruct (rnext_inv D join K stranded g _ _ _ _ E) as (n & _ & _ & _ & Hn & _ & Hp' & _). congruence. }
  apply in_split in Hin as (q1 & q2 & ->).
  destruct q2 as [|b q2].
  - destruct q1 as [|a q1] using rev_ind; [reflexivity|]. exfalso. rewrite <- app_assoc in L. cbn [app] in L.
    apply Linked_mid, step_ok_inv in L as [_ L]. cbn [fst snd] in L. rewrite Hno in L. discriminate.
  - exfalso. apply Linked_mid, step_ok_inv in L as [L _]. cbn [fst snd] in L. rewrite Hno in L. discriminate.
Qed.

Section Ctx.
Variable g1 : graph.
Variable S : list nat.
Variable r : list (gnode * list (nat * dir)).
Hypothesis W : winv D K stranded g1 S.
Hypothesis Hnd : NoDup (concat (map (map fst) (map snd r))).
Hypothesis Hr : forall x, In x r -> exists lp seed rp, snd x = assemble lp seed rp /\ built D reduce K g1 (fst x) lp seed rp /\
                  Linked g1 (snd x) /\ NoDup (map fst (snd x)) /\ (forall y, In y (map fst (snd x)) -> In y S).

Lemma S_nth x : In x S -> exists nx, nth_error g1 x = Some nx.
Proof.
  intro Hx. destruct (nth_error g1 x) eqn:E; eauto. apply nth_error_None in E. pose proof (wi_S _ _ _ _ _ W x Hx). lia.
Qed.

(* a node id lies in one path only *)
Lemma same_path i j x x' v : nth_error r i = Some x -> nth_error r j = Some x' ->
  In v (map fst (snd x)) -> In v (map fst (snd x')) -> i = j.
Proof.
  intros Hi Hj Hv Hv'. eapply (NoDup_concat_idx _ i j _ _ v Hnd); [| | exact Hv | exact Hv'];
    rewrite !nth_error_map; [rewrite Hi | rewrite Hj]; reflexivity.
Qed.

(* the terminal k-mer of a result node on side d is that of the end node of its path, in the direction of travel *)
Lemma out_end x d : In x r ->
  exists v s nv, endelt (snd x) d = Some (v, s) /\ In (v, s) (snd x) /\ In v S /\ nth_error g1 v = Some nv /\
    ext_side (snd x) v (eside s d) /\ (s = DRight -> stranded = false) /\
    term_kmer K (n_seq D (fst x)) d = osq s (term_kmer K (n_seq D nv) (eside s d)).
Proof.
  intro Hx. destruct (r_walk D reduce join K stranded g1 S r W Hr x Hx) as (Wf & Vw & Hsq & _ & seed & Hseed).
  destruct (Hr x Hx) as (_ & _ & _ & _ & _ & HL & _ & HS).
  destruct (endelt (snd x) d) as [[v s]|] eqn:Ed; [|unfold endelt in Ed; destruct (snd x); [destruct Hseed | discriminate]].
  destruct (endelt_ext_side (snd x) d v s Ed) as [Hext Hvin].
  assert (HvS : In v S) by (apply HS; apply (in_map fst) in Hvin; exact Hvin).
  destruct (S_nth v HvS) as [nv Hnv].
  exists v, s, nv. repeat split; auto.
  - intro E. subst s. exact (unstranded_of_flip D join K stranded g1 (snd x) v seed HL Hseed Hvin).
  - pose proof (end_kmer D K stranded g1 (snd x) _ d v s Wf Vw Hsq Ed) as E. unfold EdgeSpec.node_seq in E. now rewrite Hnv in E.
Qed.

(* result nodes are well formed *)
Lemma out_node_ok x : In x r -> node_ok D K (fst x).
Proof.
  intro Hx. destruct (r_walk D reduce join K stranded g1 S r W Hr x Hx) as (Wf & Vw & Hsq & _ & seed & Hseed).
  destruct (Hr x Hx) as (lp & seed' & rp & _ & (_ & _ & He) & _).
  pose proof (proj1 Wf) as HK. destruct Vw as [Hid _].
  destruct (snd x) as [|a q] eqn:Ep; [destruct Hseed|].
  rewrite (seq_of_path_eq D K g1 a q Hid) in Hsq. injection Hsq as Hsq.
  destruct (oseq_ok D K g1 a Wf (Hid a (or_introl eq_refl))) as [La Wa].
  unfold node_ok. rewrite <- Hsq. split; [|split].
  - apply wf_app; [exact Wa|]. apply wf_glue. intros s Hs. apply in_map_iff in Hs as (y & <- & Hy).
    apply (oseq_ok D K g1 y Wf). apply Hid. now right.
  - rewrite app_length. lia.
  - rewrite He. apply from_single_dirs_lt.
Qed.

(* a result node of K bases spells a single node *)
Lemma out_single x : In x r -> length (n_seq D (fst x)) = K ->
  exists v s nv, snd x = [(v, s)] /\ nth_error g1 v = Some nv /\ n_seq D (fst x) = oriented D nv s.
Proof.
  intros Hx Hlen. destruct (r_walk D reduce join K stranded g1 S r W Hr x Hx) as (Wf & Vw & Hsq & _ & seed & Hseed).
  pose proof (proj1 Wf) as HK. destruct Vw as [Hid _].
  destruct (snd x) as [|[v s] q] eqn:Ep; [destruct Hseed|].
  pose proof Hsq as Hsq0.
  rewrite (seq_of_path_eq D K g1 (v, s) q Hid) in Hsq. injection Hsq as Hsq.
  destruct (oseq_ok D K g1 (v, s) Wf (Hid _ (or_introl eq_refl))) as [La _].
  assert (Hg : length q <= length (glue K (map (oseq D g1) q))).
  { rewrite <- (map_length (oseq D g1) q). apply glue_length; [exact HK|]. intros s0 Hs. apply in_map_iff in Hs as (y & <- & Hy).
    apply (oseq_ok D K g1 y Wf). apply Hid. now right. }
  rewrite <- Hsq, app_length in Hlen.
  destruct q as [|b q]; [|cbn [length] in Hg; lia].
  assert (Hv : fst (v, s) < length g1) by (apply Hid; now left). cbn [fst] in Hv.
  destruct (nth_error g1 v) as [nv|] eqn:Hnv; [|apply nth_error_None in Hnv; lia].
  exists v, s, nv. split; [reflexivity|]. split; [exact Hnv|].
  unfold sequence_of_path in Hsq0. cbn [sequence_of_path_from] in Hsq0. rewrite Hnv in Hsq0. cbn [skipn] in Hsq0.
  rewrite app_nil_r in Hsq0. now injection Hsq0 as <-.
Qed.

(* a result node is a palindromic single-k-mer node iff the end node of its path (on either side) is *)
Lemma out_pal_single x d v s nv : In x r -> endelt (snd x) d = Some (v, s) -> nth_error g1 v = Some nv ->
  pal_single (fst x) = pal_single nv.
Proof.
  intros Hx Ed Hnv. destruct (out_end x d Hx) as (v' & s' & nv' & Ed' & Hin & HvS & Hnv' & _ & _ & Hterm).
  rewrite Ed in Ed'. injection Ed' as <- <-. rewrite Hnv in Hnv'. injection Hnv' as <-.
  destruct (Hr x Hx) as (_ & _ & _ & _ & _ & HL & _ & _).
  pose proof (out_node_ok x Hx) as (Wm & Lm & _).
  pose proof (node_ok_nth D K g1 v nv (wi_ok _ _ _ _ _ W) Hnv) as (Wn & Ln & _).
  destruct (pal_single nv) eqn:Pn.
  - (* the path is the single node *)
    pose proof (pal_path_single g1 (snd x) v s nv HL Hin Hnv Pn) as Ep.
    destruct (r_walk D reduce join K stranded g1 S r W Hr x Hx) as (_ & _ & Hsq & _).
    rewrite Ep in Hsq. unfold sequence_of_path in Hsq. cbn [sequence_of_path_from] in Hsq. rewrite Hnv in Hsq.
    cbn [skipn] in Hsq. rewrite app_nil_r in Hsq. injection Hsq as Hsq.
    unfold RecompCheck.pal_single in *. rewrite <- Hsq.
    apply andb_prop in Pn as [Pn P3]. apply andb_prop in Pn as [P1 P2]. rewrite P1. cbn [andb].
    apply Nat.eqb_eq in P2. destruct s; cbn [oriented].
    + now rewrite P2, Nat.eqb_refl, P3.
    + rewrite rc_length, P2, Nat.eqb_refl. cbn [andb].
      rewrite <- (RecompressProofs.term_kmer_single K _ DLeft) by (now rewrite rc_length).
      rewrite (GraphQueryProofs.term_kmer_single K (rc (n_seq D nv)) DLeft) by (now rewrite rc_length).
      rewrite is_palindrome_rc by exact Wn.
      rewrite <- (RecompressProofs.term_kmer_single K _ DLeft), (GraphQueryProofs.term_kmer_single K _ DLeft) in P3 by exact P2.
      exact P3.
  - destruct (pal_single (fst x)) eqn:Pm; [exfalso|reflexivity].
    unfold RecompCheck.pal_single in Pm. apply andb_prop in Pm as [Pm P3]. apply andb_prop in Pm as [P1 P2].
    apply Nat.eqb_eq in P2. apply negb_true_iff in P1.
    rewrite <- (RecompressProofs.term_kmer_single K _ d P2), Hterm in P3.
    destruct (term_kmer_ok K (n_seq D nv) (eside s d) Wn (proj2 Ln)) as [_ Wt].
    assert (P4 : is_palindrome (term_kmer K (n_seq D nv) (eside s d)) = true).
    { destruct s; cbn [osq] in P3; [exact P3 | now rewrite is_palindrome_rc in P3]. }
    pose proof (wi_pal _ _ _ _ _ W P1 nv (eside s d) (nth_error_In _ _ Hnv) P4) as Hl.
    unfold RecompCheck.pal_single in Pn. rewrite P1, Hl, Nat.eqb_refl in Pn. cbn [negb andb] in Pn.
    rewrite <- (RecompressProofs.term_kmer_single K _ (eside s d) Hl), P4 in Pn. discriminate.
Qed.

(* ---- the result graph has distinct ends -------------------------------------------------------------------------- *)
Hypothesis HndL : NoDup (ends_of K (g_seqs D g1) DLeft).
Hypothesis HndR : NoDup (ends_of K (g_seqs D g1) DRight).
Hypothesis Hcross : cross_ok g1 S.

Lemma HndE d : NoDup (ends_of K (g_seqs D g1) d).
Proof. destruct d; assumption. Qed.

Lemma term_wf v nv d : nth_error g1 v = Some nv -> wf_dna (term_kmer K (n_seq D nv) d).
Proof.
  intro Hnv. pose proof (node_ok_nth D K g1 v nv (wi_ok _ _ _ _ _ W) Hnv) as (Wn & Ln & _).
  apply (term_kmer_ok K _ d Wn (proj2 Ln)).
Qed.

(* same side, same k-mer: same result node *)
Lemma out_end_inj i j x x' d : nth_error r i = Some x -> nth_error r j = Some x' ->
  term_kmer K (n_seq D (fst x)) d = term_kmer K (n_seq D (fst x')) d -> i = j.
Proof.
  intros Hi Hj E.
  destruct (out_end x d (nth_error_In _ _ Hi)) as (v & s & nv & _ & Hin & HvS & Hnv & _ & Us & T).
  destruct (out_end x' d (nth_error_In _ _ Hj)) as (v' & s' & nv' & _ & Hin' & HvS' & Hnv' & _ & Us' & T').
  rewrite T, T' in E.
  assert (Evv : v = v').
  { destruct s, s'; cbn [osq eside] in E.
    - exact (ends_nth_eq g1 d v v' nv nv' (HndE d) Hnv Hnv' E).
    - (* A = rc B *)
      specialize (Us' eq_refl).
      apply (Hcross Us' v' v (dflip d) nv' nv HvS' HvS Hnv' Hnv). now rewrite dflip_dflip.
    - specialize (Us eq_refl). symmetry in E. symmetry.
      apply (Hcross Us v v' (dflip d) nv nv' HvS HvS' Hnv Hnv'). now rewrite dflip_dflip.
    - apply rc_inj in E; [|now apply (term_wf v) | now apply (term_wf v')].
      exact (ends_nth_eq g1 (dflip d) v v' nv nv' (HndE _) Hnv Hnv' E). }
  subst v'. apply (same_path i j x x' v Hi Hj); [apply (in_map fst) in Hin | apply (in_map fst) in Hin']; assumption.
Qed.

(* cross pair: the same single-k-mer result node *)
Lemma out_end_cross i j x x' d : stranded = false -> nth_error r i = Some x -> nth_error r j = Some x' ->
  term_kmer K (n_seq D (fst x')) (dflip d) = rc (term_kmer K (n_seq D (fst x)) d) ->
  j = i /\ length (n_seq D (fst x)) = K.
Proof.
  intros St Hi Hj E.
  destruct (out_end x d (nth_error_In _ _ Hi)) as (v & s & nv & Ed & Hin & HvS & Hnv & _ & _ & T).
  destruct (out_end x' (dflip d) (nth_error_In _ _ Hj)) as (v' & s' & nv' & Ed' & Hin' & HvS' & Hnv' & _ & _ & T').
  rewrite T, T' in E.
  pose proof (term_wf v nv (eside s d) Hnv) as Wt. pose proof (term_wf v' nv' (eside s' (dflip d)) Hnv') as Wt'.
  assert (Hsame : v' = v -> j = i).
  { intros ->. apply (same_path j i x' x v Hj Hi); [apply (in_map fst) in Hin' | apply (in_map fst) in Hin]; assumption. }
  destruct (Hr x (nth_error_In _ _ Hi)) as (_ & _ & _ & _ & _ & _ & HN & _).
  assert (Hflip : v' = v -> s' <> s -> False).
  { intros Ev Hs. specialize (Hsame Ev). subst v' j. rewrite Hi in Hj. injection Hj as <-.
    apply Hs. exact (NoDup_fst_snd (snd x) v s' s HN Hin' Hin). }
  assert (Hlen : v' = v -> s' = s -> length (n_seq D nv) = K -> j = i /\ length (n_seq D (fst x)) = K).
  { intros Ev Es Hl. specialize (Hsame Ev). subst v' s' j. split; [reflexivity|].
    rewrite Hi in Hj. injection Hj as <-.
    assert (Ep : snd x = [(v, s)]).
    { destruct d; cbn [dflip] in Ed'; apply (endelt_both_single _ _ HN); assumption. }
    destruct (r_walk D reduce join K stranded g1 S r W Hr x (nth_error_In _ _ Hi)) as (_ & _ & Hsq & _).
    rewrite Ep in Hsq. unfold sequence_of_path in Hsq. cbn [sequence_of_path_from] in Hsq. rewrite Hnv in Hsq.
    cbn [skipn] in Hsq. rewrite app_nil_r in Hsq. injection Hsq as <-. destruct s; cbn [oriented]; [|rewrite rc_length]; exact Hl. }
  destruct s, s'; cbn [osq eside] in E, Wt, Wt'.
  - destruct (Hcross St v v' d nv nv' HvS HvS' Hnv Hnv' E) as [Ev Hl]. now apply Hlen.
  - exfalso. apply rc_inj in E; [|exact Wt' | exact Wt]. rewrite dflip_dflip in E.
    apply (Hflip (ends_nth_eq g1 d v' v nv' nv (HndE d) Hnv' Hnv E)). discriminate.
  - exfalso. rewrite (ListFacts.rc_involutive _ Wt) in E.
    apply (Hflip (ends_nth_eq g1 (dflip d) v' v nv' nv (HndE _) Hnv' Hnv E)). discriminate.
  - apply rc_inj in E; [|exact Wt' | apply rc_wf].
    destruct (Hcross St v v' (dflip d) nv nv' HvS HvS' Hnv Hnv' E) as [Ev Hl]. now apply Hlen.
Qed.

(* C03's [ends_ok] for the result graph *)
Theorem out_ends_ok : ends_ok D K stranded (map fst r).
Proof.
  assert (Hnth : forall i d k, nth_error (ends_of K (g_seqs D (map fst r)) d) i = Some k ->
                   exists x, nth_error r i = Some x /\ k = term_kmer K (n_seq D (fst x)) d).
  { intros i d k H. unfold ends_of, g_seqs in H. rewrite !nth_error_map in H.
    destruct (nth_error r i) as [x|]; [|discriminate]. cbn in H. injection H as <-. eauto. }
  assert (HN : forall d, NoDup (ends_of K (g_seqs D (map fst r)) d)).
  { intro d. apply NoDup_nth_error. intros i j Hi E.
    destruct (nth_error (ends_of K (g_seqs D (map fst r)) d) i) as [k|] eqn:Ei; [|apply nth_error_None in Ei; lia].
    symmetry in E. destruct (Hnth i d k Ei) as (x & Hx & ->). destruct (Hnth j d _ E) as (x' & Hx' & Ek).
    exact (out_end_inj i j x x' d Hx Hx' Ek). }
  split; [apply HN|]. split; [apply HN|].
  intros St u w s Hu Hw E. rewrite map_length in Hu, Hw.
  destruct (nth_error r u) as [x|] eqn:Ex; [|apply nth_error_None in Ex; lia].
  destruct (nth_error r w) as [x'|] eqn:Ex'; [|apply nth_error_None in Ex'; lia].
  unfold EdgeSpec.node_seq in *. rewrite !nth_error_map, Ex in *. rewrite Ex' in E. cbn [option_map] in *.
  exact (out_end_cross u w x x' s St Ex Ex' E).
Qed.

(* result nodes: a palindromic end k-mer only on a node of its own *)
Theorem out_pal_ends : pal_ends D K stranded (map fst r).
Proof.
  intros St n d Hn Hp. apply in_map_iff in Hn as (x & <- & Hx).
  destruct (out_end x d Hx) as (v & s & nv & Ed & Hin & HvS & Hnv & _ & _ & T).
  rewrite T in Hp. pose proof (term_wf v nv (eside s d) Hnv) as Wt.
  assert (P4 : is_palindrome (term_kmer K (n_seq D nv) (eside s d)) = true).
  { destruct s; cbn [osq] in Hp; [exact Hp | now rewrite is_palindrome_rc in Hp]. }
  pose proof (wi_pal _ _ _ _ _ W St nv (eside s d) (nth_error_In _ _ Hnv) P4) as Hl.
  assert (Pn : pal_single nv = true).
  { unfold RecompCheck.pal_single. rewrite St, Hl, Nat.eqb_refl. cbn [negb andb].
    now rewrite <- (RecompressProofs.term_kmer_single K _ (eside s d) Hl). }
  destruct (Hr x Hx) as (_ & _ & _ & _ & _ & HL & _ & _).
  pose proof (pal_path_single g1 (snd x) v s nv HL Hin Hnv Pn) as Ep.
  destruct (r_walk D reduce join K stranded g1 S r W Hr x Hx) as (_ & _ & Hsq & _).
  rewrite Ep in Hsq. unfold sequence_of_path in Hsq. cbn [sequence_of_path_from] in Hsq. rewrite Hnv in Hsq.
  cbn [skipn] in Hsq. rewrite app_nil_r in Hsq. injection Hsq as <-. destruct s; cbn [oriented]; [|rewrite rc_length]; exact Hl.
Qed.
End Ctx.
End Ends.
