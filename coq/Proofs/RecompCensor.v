(* C09 with a censor list, at k-mer level: compress_graph G (Some c), applied to a graph G with [lgraph_ok S' G]
   (Proofs/LooseGraph.v) whose (canonical) k-mers are pairwise distinct, returns THE unitig graph of the surviving
   adjacencies: its k-mers are those of the nodes of G whose id is not in c ([surv_nodes]), its link set is the part SL of
   S' whose links have both k-mers among the surviving k-mers, every step inside a node is a merge of SL, every merge of SL
   is a step inside a node (or closes it), payloads are folded along the node paths.  Censor lists may have repeats and
   out-of-range ids.
   Proof: the first step of compress_graph restricts G to the surviving ids Sv (fix_exts (Some Sv): an extension bit is
   kept iff it resolves to a node of Sv, [kept_iff]: iff its target k-mer is a surviving k-mer); the nodes of the
   restricted graph at surviving ids are [lnode_ok] w.r.t. SL ([restricted_lnode_ok]); Proofs/RecompCensorMain.v lifts the
   node paths of the walk on the restricted graph (C09X theorems, valid for every censor list) to k-mers. *)
From Coq Require Import NArith List Bool Arith Lia Permutation.
From DBG Require Import Proofs.AbstractWalk.
From DBG Require Import Spec.Dna Spec.GraphIndex Spec.Unitig Spec.CompressSpec Packed.ExtsModel Algo.Compress
  Algo.KmerHist Algo.GraphModel Algo.Recompress Spec.EdgeSpec Check.GraphCheck Check.PipelineCheck Check.RecompCheck Check.RecompLooseCheck
  Proofs.ListFacts Proofs.DnaFacts Proofs.KmerAlgebra Proofs.ExtsProofs Proofs.ExtsWalk
  Proofs.CompressBasics Proofs.CompressProofs Proofs.CompressGraphOk Proofs.FilterProofs Proofs.GraphQueryProofs
  Proofs.ValidGraphProofs Proofs.PipelineCheckProofs Proofs.UnitigUnique Proofs.GraphRcProofs Proofs.ShardProofs
  Proofs.ComposeSweeps Proofs.WalkProofs Proofs.RecompressProofs Proofs.RecompKmers Proofs.RecompExts Proofs.RecompLoose
  Proofs.RecompLooseMain
  Proofs.E2eDefs Proofs.E2eSym Proofs.E2eGraph Proofs.E2eTable Proofs.LooseGraph Proofs.LooseValid Proofs.RecompUnitig
  Proofs.RecompCensorMain.
Import ListNotations.
Local Open Scope nat_scope.

Local Notation gk := PipelineCheck.graph_kmers.
Local Notation nk := PipelineCheck.node_kmers.

(* the nodes of G whose id is not censored, in the order of G *)
Definition surv_nodes (G : list node_t) (c : list nat) : list node_t :=
  flat_map (fun i => match nth_error G i with Some n => [n] | None => [] end) (survivors pay G (Some c)).

Lemma surv_nodes_spec G c (n : node_t) : In n (surv_nodes G c) <-> exists i, nth_error G i = Some n /\ ~ In i c.
Proof.
  unfold surv_nodes. rewrite in_flat_map. split.
  - intros (i & Hi & Hn). apply (survivors_spec pay G (Some c)) in Hi as [_ Hc].
    destruct (nth_error G i) as [m|] eqn:E; [|destruct Hn]. destruct Hn as [<-|[]]. eauto.
  - intros (i & Hi & Hc). exists i. split.
    + assert (Hl : i < length G) by (apply nth_error_Some; rewrite Hi; discriminate).
      apply (survivors_spec pay G (Some c)). split; [exact Hl | exact Hc].
    + rewrite Hi. now left.
Qed.
Lemma surv_nodes_none G : surv_nodes G [] = G.
Proof.
  unfold surv_nodes, survivors, initial_avail.
  assert (E : forall l, filter (fun i => negb (mem_nat i [])) l = l).
  { induction l as [|a l IH]; [reflexivity|]. cbn [filter]. unfold mem_nat at 1. cbn [existsb negb]. now rewrite IH. }
  rewrite E.
  induction G as [|a G IH]; [reflexivity|]. cbn [length seq flat_map nth_error app]. f_equal.
  rewrite <- seq_shift, flat_map_map'. exact IH.
Qed.
Lemma surv_gk K st G c : gk K st (surv_nodes G c) = flat_map (nkv K st G) (survivors pay G (Some c)).
Proof.
  unfold surv_nodes, PipelineCheck.graph_kmers. induction (survivors pay G (Some c)) as [|i l IH]; [reflexivity|].
  cbn [flat_map]. rewrite flat_map_app, IH. f_equal. unfold nkv. destruct (nth_error G i); [cbn [flat_map]; apply app_nil_r | reflexivity].
Qed.

Section Censor.
Variable K : nat.
Variable st : bool.
Variable kj : dna -> dna -> bool.
Variable S' : list dna.
Variable G : list node_t.
Variable c : list nat.
Hypothesis HK : 1 <= K.
Hypothesis HG : lgraph_ok K st kj S' G.
Hypothesis Hnd : NoDup (gk K st G).
Local Notation Sv := (survivors pay G (Some c)).
Local Notation survK := (flat_map (nkv K st G) (survivors pay G (Some c))).
Local Notation inS := (fun k => In k (flat_map (nkv K st G) (survivors pay G (Some c)))).
Local Notation Hwf := (lg_wf _ _ _ _ _ HG).

Lemma in_survK k : In k survK <-> exists x (n : node_t) p, In x Sv /\ nth_error G x = Some n /\ p + K <= length (nd_seq n) /\
  k = cn st (kmer_at K (nd_seq n) p).
Proof.
  rewrite in_flat_map. split.
  - intros (x & Hx & Hk). unfold nkv in Hk. destruct (nth_error G x) as [n|] eqn:E; [|destruct Hk].
    apply in_node_kmers in Hk as (p & Hp & ->). exists x, n, p. auto.
  - intros (x & n & p & Hx & Hn & Hp & ->). exists x. split; [exact Hx|]. unfold nkv. rewrite Hn.
    unfold PipelineCheck.node_kmers. apply in_map. now apply in_kmers_at'.
Qed.
Lemma survK_sub k : In k survK -> In k (gk K st G).
Proof. intro H. apply in_survK in H as (x & n & p & _ & Hn & Hp & ->). apply in_gk; [now apply (nth_error_In _ x) | exact Hp]. Qed.

(* the k-mer an extension resolves to is a k-mer of the node that find_link reports *)
Lemma link_target z d y t f : wf_dna z -> find_link pay K st G z d = Some (y, t, f) ->
  exists (m : node_t) p, nth_error G y = Some m /\ p + K <= length (nd_seq m) /\ cn st z = cn st (kmer_at K (nd_seq m) p).
Proof.
  intros Wz E. apply find_link_some in E.
  destruct E as [(_ & _ & He)|(_ & Hs & _ & He & _)]; apply (end_is_inv K G HK) in He as (m & Hy & Em);
    pose proof (nth_error_In _ _ Hy) as Hm; destruct (LooseValid.term_at K st kj S' G HK HG m t Hm) as [Et Hp];
    exists m, (tpos K m t); (split; [exact Hy|]); (split; [exact Hp|]); rewrite <- Et, Em; [reflexivity|].
  symmetry. now apply cn_rc_.
Qed.

(* an extension bit survives fix_exts (Some Sv) exactly when the k-mer it leads to is a surviving k-mer *)
Lemma kept_iff v (n : node_t) d b : nth_error G v = Some n -> (b < 4)%N ->
  (keeps pay K st G (Some Sv) v d b = true <->
   e_has_ext (nd_exts n) (dirb d) b = true /\ In (cn st (extend (term_kmer K (nd_seq n) d) b d)) survK).
Proof.
  intros Hv Hb. pose proof (nth_error_In _ _ Hv) as Hn. destruct (term_ok K st kj S' G HK HG n d Hn) as (LX & WX & NX).
  assert (Wz : wf_dna (extend (term_kmer K (nd_seq n) d) b d)) by (apply KmerAlgebra.extend_wf; auto).
  unfold keeps. split.
  - intro H. destruct (ext_link pay K st G v d b) as [[[y t] f]|] eqn:E; [|discriminate]. cbn [chk_valid] in H.
    apply RecompCheckProofs.mem_nat_In in H.
    assert (Hh : e_has_ext (nd_exts n) (dirb d) b = true).
    { unfold ext_link in E. unfold graph, gnode, node_t in *. rewrite Hv in E. change (n_exts pay n) with (nd_exts n) in E.
      destruct (e_has_ext (nd_exts n) (dirb d) b); [reflexivity | discriminate]. }
    split; [exact Hh|]. rewrite (ext_link_eq K st G v n d b Hv Hh) in E.
    destruct (link_target _ d y t f Wz E) as (m & p & Hy & Hp & Ez). rewrite Ez. apply in_survK. exists y, m, p. auto.
  - intros [Hh Hz]. rewrite (ext_link_eq K st G v n d b Hv Hh).
    pose proof (proj2 (resolves_iff K st kj S' G HK HG Hnd v n d b Hv Hb Hh) (survK_sub _ Hz)) as Hne.
    destruct (find_link pay K st G (extend (term_kmer K (nd_seq n) d) b d) d) as [[[y t] f]|] eqn:E; [|congruence].
    cbn [chk_valid]. apply RecompCheckProofs.mem_nat_In.
    destruct (link_target _ d y t f Wz E) as (m & p & Hy & Hp & Ez).
    apply in_survK in Hz as (x & n' & q & Hx & Hn' & Hq & Ek). rewrite Ez in Ek.
    destruct (occ_unique K st G HK Hnd y x m n' p q Hy Hn' Hp Hq Ek) as [-> _]. exact Hx.
Qed.

Variable SL : list dna.
Hypothesis HS : forall w, In w SL <-> In w S' /\ both_in K st inS w.
Variable g1 : list node_t.
Hypothesis Hr : restrict pay K st G Sv = Some g1.

Lemma restricted_nth x (n1 : node_t) : nth_error g1 x = Some n1 ->
  exists n : node_t, nth_error G x = Some n /\ nd_seq n1 = nd_seq n /\ snd n1 = snd n /\ (nd_exts n1 < 256)%N /\
    forall d b, (b < 4)%N ->
      (e_has_ext (nd_exts n1) (dirb d) b = true <->
       e_has_ext (nd_exts n) (dirb d) b = true /\ In (cn st (extend (term_kmer K (nd_seq n) d) b d)) survK).
Proof.
  intro H1. destruct (restrict_nth pay K st G g1 Sv x n1 Hr H1) as (n & Hn & Es & Ed & Hlt & Hb).
  exists n. split; [exact Hn|]. split; [exact Es|]. split; [exact Ed|]. split; [exact Hlt|].
  intros d b Hb4. change (n_exts pay n1) with (nd_exts n1) in Hb. rewrite (Hb d b (in_bases4 b Hb4)). now apply kept_iff.
Qed.
Lemma restricted_gk : gk K st g1 = gk K st G.
Proof. rewrite !gk_seqs. unfold restrict in Hr. now rewrite (RecompLoose.fix_exts_seqs pay K st G g1 _ Hr). Qed.
Lemma restricted_nkv v : nkv K st g1 v = nkv K st G v.
Proof.
  unfold nkv. destruct (nth_error g1 v) as [n1|] eqn:E1.
  - destruct (restricted_nth v n1 E1) as (n & Hn & Es & _). rewrite Hn. unfold PipelineCheck.node_kmers. now rewrite Es.
  - assert (E : nth_error G v = None).
    { apply nth_error_None. apply nth_error_None in E1. unfold restrict in Hr.
      pose proof (RecompLoose.fix_exts_length pay K st G g1 _ Hr) as El. unfold graph, gnode, node_t in *. lia. }
    now rewrite E.
Qed.
Lemma restricted_payload mode idf colf : PipelineCheck.payload_ok K st mode idf colf G -> PipelineCheck.payload_ok K st mode idf colf g1.
Proof.
  intros Hpay n1 H1. destruct (In_nth_error _ _ H1) as [x Hx]. destruct (restricted_nth x n1 Hx) as (n & Hn & Es & Ed & _).
  unfold PipelineCheck.node_kmers, nd_ids, nd_colour. rewrite Es, Ed. exact (Hpay n (nth_error_In _ _ Hn)).
Qed.

Lemma S_sub w : In w SL -> In w S'.
Proof. intro H. now apply HS in H. Qed.

(* the nodes of the restricted graph at surviving ids, against the links between surviving k-mers *)
Theorem restricted_lnode_ok x (n1 : node_t) : In x Sv -> nth_error g1 x = Some n1 -> RecompUnitig.lnode_ok K st kj SL n1.
Proof.
  intros HxS H1. destruct (restricted_nth x n1 H1) as (n & Hx & Es & _ & Hlt & Hb). pose proof (nth_error_In _ _ Hx) as Hn.
  assert (Isurv : forall p, p + K <= length (nd_seq n) -> In (cn st (kmer_at K (nd_seq n) p)) survK).
  { intros p Hp. apply in_survK. exists x, n, p. auto. }
  constructor.
  - destruct (nwf K G Hwf n Hn) as [L W]. unfold node_wf. rewrite Es. auto.
  - exact Hlt.
  - intros [a b] Hpair. cbn [fst snd]. rewrite Es in Hpair.
    pose proof (lg_unb _ _ _ _ _ HG n (a, b) Hn Hpair) as Hm. cbn [fst snd] in Hm.
    apply (in_combine_tl_nth _ []) in Hpair as (i & Hi & -> & ->). rewrite kmers_len in Hi. rewrite !kmers_nth in * by lia.
    destruct (win_ok K G HK Hwf n i Hn ltac:(lia)) as (Lx & Wx & Nx). destruct (win_ok K G HK Hwf n (S i) Hn ltac:(lia)) as (Ly & Wy & Ny).
    set (xx := kmer_at K (nd_seq n) i) in *. set (yy := kmer_at K (nd_seq n) (S i)) in *.
    assert (Ix : In (cn st xx) survK) by (apply Isurv; lia).
    assert (Iy : In (cn st yy) survK) by (apply Isurv; lia).
    destruct (mergeable_inv st kj S' xx yy Hm) as (c0 & Hc & Er & El & Ey & Px & Py & Hne & Hj).
    assert (Eyx : extend xx c0 DRight = yy) by (symmetry; exact Ey).
    assert (Hc4 : (hd 0 xx < 4)%N) by (apply wf_hd; auto).
    assert (Exy : extend yy (hd 0%N xx) DLeft = xx).
    { rewrite <- Eyx. exact (KmerAlgebra.extend_back xx c0 DRight Nx). }
    apply (mergeable_intro st kj SL xx yy c0); auto.
    + unfold rlinks in *. apply (filter_sub_single _ _ _ _ Er).
      * intros c1 H. unfold has_link in *. rewrite existsb_dna_in in *. now apply S_sub.
      * unfold has_link. rewrite existsb_dna_in. change (xx ++ [c0]) with (lk xx DRight c0). apply HS. split.
        -- assert (H : In c0 (rlinks st S' xx)) by (unfold rlinks; rewrite Er; now left). now apply in_rlinks in H.
        -- apply both_in_lk; auto. rewrite Eyx. auto.
    + unfold llinks in *. apply (filter_sub_single _ _ _ _ El).
      * intros c1 H. unfold has_link in *. rewrite existsb_dna_in in *. now apply S_sub.
      * unfold has_link. rewrite existsb_dna_in. change (hd 0%N xx :: yy) with (lk yy DLeft (hd 0%N xx)). apply HS. split.
        -- assert (H : In (hd 0%N xx) (llinks st S' yy)) by (unfold llinks; rewrite El; now left). now apply in_llinks in H.
        -- apply both_in_lk; auto. rewrite Exy. auto.
  - intros s c0 Hc. rewrite Es.
    destruct (term_ok K st kj S' G HK HG n s Hn) as (LX & WX & NX). destruct (LooseValid.term_at K st kj S' G HK HG n s Hn) as [EX HpX].
    set (X := term_kmer K (nd_seq n) s) in *.
    assert (IX : In (cn st X) survK) by (rewrite EX; now apply Isurv).
    destruct (lg_ends _ _ _ _ _ HG n Hn s c0 Hc) as [H1' H2']. fold X in H1', H2'.
    assert (HSiff : In (cn st (lk X s c0)) SL <-> In (cn st (lk X s c0)) S' /\ In (cn st (extend X c0 s)) survK).
    { rewrite HS, (both_in_lk K st inS HK X s c0 WX LX Hc). tauto. }
    split; intro P.
    + rewrite (Hb s c0 Hc), HSiff, (H1' P). reflexivity.
    + assert (Ln : length (nd_seq n) = K).
      { apply (lg_pal _ _ _ _ _ HG n Hn X); [unfold X; apply term_in_kmers; [exact HK | apply (nwf K G Hwf n Hn)] | exact P]. }
      apply kpal_iff in P as [Hs P'].
      assert (Ez : cn st (extend (term_kmer K (nd_seq n) (dflip s)) (comp c0) (dflip s)) = cn st (extend X c0 s)).
      { rewrite (term_kmer_single K _ (dflip s) Ln), <- (term_kmer_single K _ s Ln). fold X.
        rewrite P' at 1. rewrite <- KmerAlgebra.rc_extend by exact NX. apply cn_rc_; auto. now apply extend_wf. }
      rewrite (Hb s c0 Hc), (Hb (dflip s) (comp c0) (comp_lt4 c0)), Ez, HSiff. fold X.
      rewrite <- (H2' (proj2 (kpal_iff st X) (conj Hs P'))). tauto.
  - intros w Hw P. rewrite Es in *. exact (lg_pal _ _ _ _ _ HG n Hn w Hw P).
Qed.
End Censor.

(* ---- closed forms ---- *)
Theorem recompress_censor_unitig K st mode (idf colf : dna -> N) (S' SL : list dna) (G : list node_t) (c : list nat) (out : list node_t) :
  1 <= K ->
  lgraph_ok K st (kjoin_f mode colf) S' G -> NoDup (gk K st G) ->
  (forall w, In w SL <-> In w S' /\ both_in K st (fun k => In k (gk K st (surv_nodes G c))) w) ->
  (forall w, In w SL -> exists v, wf_dna v /\ length v = S K /\ w = cn st v) ->
  PipelineCheck.payload_ok K st mode idf colf G ->
  compress_graph pay pay_reduce (pay_join mode) K st G (Some c) = Some out ->
  Permutation (gk K st out) (gk K st (surv_nodes G c)) /\ (forall w, In w (graph_links K st out) <-> In w SL) /\
  unitig_graph K st mode colf out /\ PipelineCheck.payload_ok K st mode idf colf out.
Proof.
  intros HK HG Hnd HS Hwf Hpay Hc. pose proof (E2eGraph.join_sym mode) as Js.
  pose proof (G_rvalid_loose K st (kjoin_f mode colf) S' G HK HG Hnd) as V.
  unfold compress_graph in Hc.
  destruct (compress_graph_paths pay pay_reduce (pay_join mode) K st G (Some c)) as [[o paths]|] eqn:Hcp; [|discriminate].
  cbn in Hc. injection Hc as ->.
  destruct (recompress_nodes_loose pay pay_reduce (pay_join mode) K st Js G (Some c) out paths V Hcp) as (g1 & Hr & F1).
  destruct (recompress_node_exts_loose pay pay_reduce (pay_join mode) K st Js G (Some c) out paths V Hcp) as (gb & Hb & F2).
  destruct (recompress_maximal_loose pay pay_reduce (pay_join mode) K st Js G (Some c) out paths V Hcp) as (gc & Hgc & Hmax).
  destruct (recompress_partition_loose pay pay_reduce (pay_join mode) K st Js G (Some c) out paths V Hcp) as (_ & Hndp & Hcov).
  rewrite Hr in Hb, Hgc. injection Hb as <-. injection Hgc as <-.
  set (Sv := survivors pay G (Some c)) in *.
  assert (HSv : forall x, In x Sv -> x < length G) by (intros x Hx; now apply (survivors_spec pay G (Some c)) in Hx).
  pose proof (restrict_winv_loose pay K st G g1 Sv V HSv Hr) as HW.
  assert (HSnd : NoDup Sv) by apply survivors_nodup.
  assert (Hcov' : forall x, In x (concat (map (map fst) paths)) <-> In x Sv).
  { intro x. rewrite Hcov. symmetry. apply (survivors_spec pay G (Some c)). }
  assert (Eks : flat_map (nkv K st g1) Sv = gk K st (surv_nodes G c)).
  { rewrite surv_gk. apply flat_map_ext. intro v. exact (restricted_nkv K st (kjoin_f mode colf) S' G c HK HG Hnd g1 Hr v). }
  assert (HS' : forall w, In w SL <-> In w S' /\ both_in K st (fun k => In k (flat_map (nkv K st G) (survivors pay G (Some c)))) w).
  { intro w. rewrite HS, surv_gk. reflexivity. }
  assert (HlgS : forall v (n : node_t), In v Sv -> nth_error g1 v = Some n -> RecompUnitig.lnode_ok K st (kjoin_f mode colf) SL n).
  { intros v n Hv Hn. exact (restricted_lnode_ok K st (kjoin_f mode colf) S' G c HK HG Hnd SL HS' g1 Hr v n Hv Hn). }
  assert (Hnd1 : NoDup (gk K st g1)) by (rewrite (restricted_gk K st G c g1 Hr); exact Hnd).
  pose proof (restricted_payload K st (kjoin_f mode colf) S' G c HK HG Hnd g1 Hr mode idf colf Hpay) as Hpay1.
  assert (Hcl : forall w, In w SL -> both_in K st (fun k => In k (flat_map (nkv K st g1) Sv)) w).
  { intros w Hw. apply HS in Hw as [_ Hw]. unfold both_in in *. now rewrite Eks. }
  rewrite <- Eks.
  split; [exact (out_kmers K st mode idf colf SL g1 Sv HK HW HlgS Hnd1 Hpay1 out paths HSnd F1 F2 Hmax Hndp Hcov')|].
  split; [exact (out_links K st mode idf colf SL g1 Sv HK HW HlgS Hnd1 Hpay1 out paths HSnd F1 F2 Hmax Hndp Hcov' Hcl Hwf)|].
  split; [exact (out_unitig K st mode idf colf SL g1 Sv HK HW HlgS Hnd1 Hpay1 out paths HSnd F1 F2 Hmax Hndp Hcov' Hcl Hwf)|].
  exact (out_payload K st mode idf colf SL g1 Sv HK HW HlgS Hnd1 Hpay1 out paths F1 F2 Hmax Hcov').
Qed.

Theorem recompress_censor_total K st mode (colf : dna -> N) (S' : list dna) (G : list node_t) (c : list nat) : 1 <= K ->
  lgraph_ok K st (kjoin_f mode colf) S' G -> NoDup (gk K st G) ->
  exists out, compress_graph pay pay_reduce (pay_join mode) K st G (Some c) = Some out.
Proof.
  intros HK HG Hnd. pose proof (G_rvalid_loose K st (kjoin_f mode colf) S' G HK HG Hnd) as V.
  destruct (RecompLooseMain.recompress_total_loose pay pay_reduce (pay_join mode) K st (E2eGraph.join_sym mode) G (Some c) V) as (out & paths & H).
  exists out. unfold compress_graph. now rewrite H.
Qed.

(* the surviving k-mers are pairwise distinct *)
Lemma surv_nodes_nodup K st G c : NoDup (gk K st G) -> NoDup (gk K st (surv_nodes G c)).
Proof.
  intro Hnd. rewrite surv_gk. apply (NoDup_flat_map_sub (nkv K st G) _ (seq 0 (length G))).
  - apply survivors_nodup.
  - intros x Hx. apply (survivors_spec pay G (Some c)) in Hx as [Hx _]. apply in_seq. unfold graph, gnode, node_t in *. lia.
  - unfold nkv. rewrite (RecompUnitig.flat_map_seq_nth (PipelineCheck.node_kmers K st) G). exact Hnd.
Qed.

(* the assembly is a function of (k-mers, links, payloads per k-mer): the result of the censored re-compression is the
   same assembly as ANY unitig graph of the surviving k-mers and the links between them *)
Theorem censor_same_assembly K st mode (idf colf : dna -> N) (S' SL : list dna) (G : list node_t) (c : list nat) (out g2 : list node_t) :
  1 <= K ->
  lgraph_ok K st (kjoin_f mode colf) S' G -> NoDup (gk K st G) ->
  (forall w, In w SL <-> In w S' /\ both_in K st (fun k => In k (gk K st (surv_nodes G c))) w) ->
  (forall w, In w SL -> exists v, wf_dna v /\ length v = S K /\ w = cn st v) ->
  PipelineCheck.payload_ok K st mode idf colf G ->
  compress_graph pay pay_reduce (pay_join mode) K st G (Some c) = Some out ->
  unitig_graph K st mode colf g2 -> NoDup (gk K st g2) ->
  (forall x, In x (gk K st g2) <-> In x (gk K st (surv_nodes G c))) ->
  (forall w, In w (graph_links K st g2) <-> In w SL) ->
  PipelineCheck.payload_ok K st mode idf colf g2 ->
  same_assembly K st mode out g2.
Proof.
  intros HK HG Hnd HS Hwf Hpay Hc U2 N2 K2 L2 P2.
  destruct (recompress_censor_unitig K st mode idf colf S' SL G c out HK HG Hnd HS Hwf Hpay Hc) as (Pk & Lk & U1 & P1).
  apply (unitig_unique K st mode idf colf out g2 U1 U2); auto.
  - eapply Permutation_NoDup; [symmetry; exact Pk | now apply surv_nodes_nodup].
  - intro x. rewrite K2. split; intro H; [eapply Permutation_in; [exact Pk | exact H] | eapply Permutation_in; [symmetry; exact Pk | exact H]].
  - intro w. now rewrite Lk, L2.
Qed.
Print Assumptions recompress_censor_unitig.
Print Assumptions censor_same_assembly.
Print Assumptions recompress_censor_total.
