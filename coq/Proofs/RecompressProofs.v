(* C09: compress_graph (Algo/Recompress.v) refines the generic greedy walk (Proofs/AbstractWalk.v). *)
From Coq Require Import NArith List Bool Arith Lia Permutation.
From DBG Require Import Spec.Dna Spec.GraphIndex Packed.ExtsModel Algo.Compress Algo.KmerHist Algo.GraphModel
  Algo.Recompress Check.RecompCheck Proofs.ListFacts Proofs.DnaFacts Proofs.AbstractWalk Proofs.RecompSweeps
  Proofs.RecompCheckProofs.
Import ListNotations.
Open Scope N_scope.

(* ---------------------------------------------------------------- generic list facts *)
Lemma index_where_spec {A} (p : A -> bool) l i :
  index_where p l = Some i -> exists x, nth_error l i = Some x /\ p x = true.
Proof.
  revert i. induction l as [|a l IH]; cbn; intros i H; [discriminate|].
  destruct (p a) eqn:E.
  - injection H as <-. exists a. auto.
  - destruct (index_where p l) as [j|]; [|discriminate]. injection H as <-. cbn. apply IH. reflexivity.
Qed.

Lemma omap__spec {B} (f : nat -> option B) n : forall s,
  (forall i, (i < n)%nat -> f (s + i)%nat <> None) ->
  exists es, omap_ f (seq s n) = Some es /\ length es = n /\
             forall i, (i < n)%nat -> nth_error es i = f (s + i)%nat.
Proof.
  induction n as [|n IH]; intros s H; cbn.
  - exists []. repeat split; auto. intros i Hi. lia.
  - destruct (f s) as [y|] eqn:E.
    + destruct (IH (S s)) as (es & E1 & E2 & E3).
      { intros i Hi. replace (S s + i)%nat with (s + S i)%nat by lia. apply H. lia. }
      rewrite E1. exists (y :: es). repeat split; cbn; auto.
      intros [|i] Hi; cbn.
      * now rewrite Nat.add_0_r.
      * rewrite E3 by lia. f_equal. lia.
    + exfalso. apply (H 0%nat); [lia|]. now rewrite Nat.add_0_r.
Qed.

Lemma nth_error_map_combine {A B C} (F : A * B -> C) (l : list A) : forall (es : list B) i a e,
  nth_error l i = Some a -> nth_error es i = Some e -> nth_error (map F (combine l es)) i = Some (F (a, e)).
Proof.
  induction l as [|x l IH]; intros es i a e H1 H2; [destruct i; discriminate|].
  destruct es as [|y es]; [destruct i; discriminate|].
  destruct i as [|i]; cbn in *.
  - injection H1 as <-. injection H2 as <-. reflexivity.
  - eapply IH; eauto.
Qed.

Lemma fold_left_ext_eq {A B} (f g : A -> B -> A) : (forall a b, f a b = g a b) ->
  forall l a0, fold_left f l a0 = fold_left g l a0.
Proof. intros H l. induction l as [|b l IH]; intros a0; cbn; auto. rewrite H. apply IH. Qed.

Lemma NoDup_app_inv {A} (a b : list A) : NoDup (a ++ b) -> NoDup a /\ NoDup b /\ forall x, In x a -> ~ In x b.
Proof.
  induction a as [|x a IH]; cbn; intro H.
  - split; [constructor|]. split; auto.
  - inversion H; subst. destruct (IH H3) as (H4 & H5 & H6). split; [|split; auto].
    + constructor; auto. intro Hin. apply H2. apply in_or_app. auto.
    + intros y [<-|Hy]; auto. intro Hb. apply H2. apply in_or_app. auto.
Qed.

Lemma remove_nat_remove i l : remove_nat i l = remove Nat.eq_dec i l.
Proof.
  unfold remove_nat. induction l as [|a l IH]; cbn [filter remove]; auto.
  destruct (Nat.eq_dec i a) as [->|Hne].
  - rewrite Nat.eqb_refl. cbn [negb]. exact IH.
  - apply Nat.eqb_neq in Hne. rewrite Hne. cbn [negb]. now rewrite IH.
Qed.
Lemma mem_nat_mem v l : mem_nat v l = mem nat Nat.eq_dec v l.
Proof.
  unfold mem. destruct (in_dec Nat.eq_dec v l) as [H|H].
  - now apply mem_nat_In.
  - destruct (mem_nat v l) eqn:E; auto. apply mem_nat_In in E. tauto.
Qed.

(* ---------------------------------------------------------------- sides and directions *)
Definition sd (d : dir) : side := match d with DLeft => L | DRight => R end.
Definition ds (s : side) : dir := match s with L => DLeft | R => DRight end.
Lemma sd_ds s : sd (ds s) = s. Proof. now destruct s. Qed.
Lemma ds_sd d : ds (sd d) = d. Proof. now destruct d. Qed.
Lemma ds_flip s : ds (flip s) = dflip (ds s). Proof. now destruct s. Qed.
Lemma sd_dflip d : sd (dflip d) = flip (sd d). Proof. now destruct d. Qed.
Lemma dflip_dflip d : dflip (dflip d) = d. Proof. now destruct d. Qed.

Section Facts.
Variable D : Type.
Variable K : nat.
Variable stranded : bool.
Local Notation graph := (graph D).
Local Notation gnode := (gnode D).
Local Notation find_link := (find_link D K stranded).

(* ---------------------------------------------------------------- find_link *)
Lemma nth_error_ends (g : graph) t y k :
  nth_error (ends_of K (g_seqs D g) t) y = Some k ->
  exists m, nth_error g y = Some m /\ k = term_kmer K (n_seq D m) t.
Proof.
  unfold ends_of, g_seqs. rewrite map_map. intro H.
  destruct (nth_error g y) as [m|] eqn:E.
  - erewrite map_nth_error in H by eauto. injection H as <-. eauto.
  - exfalso. apply nth_error_None in E. assert (nth_error (map (fun x => term_kmer K (n_seq D x) t) g) y = None).
    { apply nth_error_None. now rewrite map_length. } congruence.
Qed.

Lemma end_index_spec (g : graph) t k y :
  end_index (ends_of K (g_seqs D g) t) k = Some y ->
  exists m, nth_error g y = Some m /\ term_kmer K (n_seq D m) t = k.
Proof.
  unfold end_index. intro H. apply index_where_spec in H. destruct H as (x & Hx & E).
  apply dna_eqb_eq in E. subst x. apply nth_error_ends in Hx. destruct Hx as (m & Hm & ->). eauto.
Qed.

Definition consistent (d t : dir) (f : bool) : Prop :=
  match d, t, f with
  | DLeft, DRight, false | DLeft, DLeft, true | DRight, DLeft, false | DRight, DRight, true => True
  | _, _, _ => False
  end.

Lemma find_link_end (g : graph) k d y t f :
  find_link g k d = Some (y, t, f) ->
  exists m, nth_error g y = Some m /\ term_kmer K (n_seq D m) t = (if f then rc k else k) /\
            consistent d t f /\ (f = true -> stranded = false).
Proof.
  unfold GraphModel.find_link, find_link_spec, find_link_ends. destruct d.
  - destruct (end_index (ends_of K (g_seqs D g) DRight) k) as [i|] eqn:E.
    + intro H. injection H as <- <- <-. apply end_index_spec in E. destruct E as (m & Hm & Ht).
      exists m. cbn. repeat split; auto. discriminate.
    + destruct stranded; [discriminate|].
      destruct (end_index (ends_of K (g_seqs D g) DLeft) (rc k)) as [i|] eqn:E2; [|discriminate].
      intro H. injection H as <- <- <-. apply end_index_spec in E2. destruct E2 as (m & Hm & Ht).
      exists m. cbn. repeat split; auto.
  - destruct (end_index (ends_of K (g_seqs D g) DLeft) k) as [i|] eqn:E.
    + intro H. injection H as <- <- <-. apply end_index_spec in E. destruct E as (m & Hm & Ht).
      exists m. cbn. repeat split; auto. discriminate.
    + destruct stranded; [discriminate|].
      destruct (end_index (ends_of K (g_seqs D g) DRight) (rc k)) as [i|] eqn:E2; [|discriminate].
      intro H. injection H as <- <- <-. apply end_index_spec in E2. destruct E2 as (m & Hm & Ht).
      exists m. cbn. repeat split; auto.
Qed.

Lemma find_link_seqs (g g' : graph) k d : g_seqs D g' = g_seqs D g -> find_link g' k d = find_link g k d.
Proof. unfold GraphModel.find_link. now intros ->. Qed.

(* ---------------------------------------------------------------- fix_exts *)
Definition chk_valid (valid : option (list nat)) (t : nat) : bool :=
  match valid with Some v => mem_nat t v | None => true end.
(* extension (d, b) of node x resolves to a node of the valid set *)
Definition keeps (g : graph) (valid : option (list nat)) (x : nat) (d : dir) (b : N) : bool :=
  match ext_link D K stranded g x d b with Some (t, _, _) => chk_valid valid t | None => false end.

Lemma get_valid_exts_spec (g : graph) valid x n :
  nth_error g x = Some n ->
  exists e, get_valid_exts D K stranded g valid x = Some e /\ e < 256 /\
    forall d b, In b bases4 -> e_has_ext e (dirb d) b = keeps g valid x d b.
Proof.
  intro Hn. unfold get_valid_exts. rewrite Hn.
  set (cl := fun b => keeps g valid x DLeft b). set (cr := fun b => keeps g valid x DRight b).
  eexists. split; [reflexivity|].
  rewrite (fold_left_ext_eq _ (vstep cl cr)).
  2:{ intros e b. unfold vstep, cl, cr, keeps, ext_link. rewrite Hn. cbn [dirb term_kmer GraphIndex.extend].
    destruct (e_has_ext (n_exts D n) false b);
    destruct (e_has_ext (n_exts D n) true b); cbn [chk_valid];
    repeat match goal with |- context [GraphModel.find_link D K stranded g ?a ?b] =>
       destruct (GraphModel.find_link D K stranded g a b) as [[[? ?] ?]|] end;
    unfold chk_valid; destruct valid; try reflexivity;
    repeat match goal with |- context [mem_nat ?a ?b] => destruct (mem_nat a b) end; reflexivity. }
  change [0; 1; 2; 3] with bases4.
  destruct (vfold_spec cl cr) as [H1 H2]. split; auto.
  intros d b Hb. destruct (H2 b Hb) as [Ha Hb']. destruct d; cbn [dirb]; auto.
Qed.

Lemma fix_exts_spec (g : graph) valid :
  exists g', fix_exts D K stranded g valid = Some g' /\ length g' = length g /\ g_seqs D g' = g_seqs D g /\
    forall x n, nth_error g x = Some n ->
      exists e, nth_error g' x = Some (n_seq D n, e, n_data D n) /\ e < 256 /\
        forall d b, In b bases4 -> e_has_ext e (dirb d) b = keeps g valid x d b.
Proof.
  unfold fix_exts.
  destruct (omap__spec (get_valid_exts D K stranded g valid) (length g) 0) as (es & E1 & E2 & E3).
  { intros i Hi. cbn. destruct (nth_error g i) as [n|] eqn:En.
    - destruct (get_valid_exts_spec g valid i n En) as (e & He & _). congruence.
    - apply nth_error_None in En. lia. }
  rewrite E1. eexists. split; [reflexivity|].
  assert (Hnth : forall x n, nth_error g x = Some n ->
      exists e, nth_error (map (fun p => (n_seq D (fst p), snd p, n_data D (fst p))) (combine g es)) x
                = Some (n_seq D n, e, n_data D n) /\ get_valid_exts D K stranded g valid x = Some e).
  { intros x n Hn. assert (Hx : (x < length g)%nat) by (apply nth_error_Some; congruence).
    destruct (get_valid_exts_spec g valid x n Hn) as (e & He & _).
    assert (Hes : nth_error es x = Some e) by (rewrite E3 by auto; exact He).
    exists e. split; auto. erewrite nth_error_map_combine; eauto. reflexivity. }
  split; [|split].
  - rewrite map_length, combine_length, E2. lia.
  - unfold g_seqs. rewrite map_map. cbn. clear - E2. revert es E2.
    induction g as [|a g IH]; intros [|e es] E; cbn in *; try discriminate; auto. f_equal. apply IH. lia.
  - intros x n Hn. destruct (Hnth x n Hn) as (e & H1 & H2).
    destruct (get_valid_exts_spec g valid x n Hn) as (e' & He' & Hlt & Hb).
    assert (e' = e) by congruence. subst e'. exists e. auto.
Qed.
End Facts.

Lemma andb_negb_false (s x : bool) : (s = false -> x = false) -> negb s && x = false.
Proof. destruct s; cbn; auto. Qed.

(* ---------------------------------------------------------------- k-mer facts *)
Lemma wf_firstn n (l : dna) : wf_dna l -> wf_dna (firstn n l).
Proof. unfold wf_dna. rewrite !Forall_forall. intros H x Hx. apply H. eapply in_firstn; eauto. Qed.
Lemma wf_skipn n (l : dna) : wf_dna l -> wf_dna (skipn n l).
Proof. unfold wf_dna. rewrite !Forall_forall. intros H x Hx. apply H. eapply in_skipn; eauto. Qed.
Lemma wf_kmer_at K (l : dna) i : wf_dna l -> wf_dna (kmer_at K l i).
Proof. intro H. unfold kmer_at, sub. now apply wf_firstn, wf_skipn. Qed.
Lemma wf_term_kmer K (l : dna) d : wf_dna l -> wf_dna (term_kmer K l d).
Proof. intro H. destruct d; cbn; unfold first_kmer, last_kmer; now apply wf_kmer_at. Qed.
Lemma wf_removelast (l : dna) : wf_dna l -> wf_dna (removelast l).
Proof.
  unfold wf_dna. induction l as [|a l IH]; intro H; cbn; auto. inversion H; subst.
  destruct l; [constructor|]. constructor; auto.
Qed.
Lemma wf_extend (x : dna) b d : wf_dna x -> b < 4 -> wf_dna (GraphIndex.extend x b d).
Proof.
  intros Hx Hb. destruct d; cbn; unfold extend_left, extend_right.
  - constructor; auto. now apply wf_removelast.
  - unfold wf_dna. apply Forall_app. split; [|constructor; auto].
    destruct x; cbn; auto. now inversion Hx.
Qed.
Lemma is_palindrome_rc k : wf_dna k -> is_palindrome (rc k) = is_palindrome k.
Proof.
  intro H. unfold is_palindrome. rewrite (rc_involutive k H).
  destruct (dna_eqb (rc k) k) eqn:E1, (dna_eqb k (rc k)) eqn:E2; auto.
  - apply dna_eqb_eq in E1. rewrite <- E2. symmetry. apply dna_eqb_eq. congruence.
  - apply dna_eqb_eq in E2. rewrite <- E1. apply dna_eqb_eq. congruence.
Qed.
Lemma term_kmer_single K (s : dna) d : length s = K -> term_kmer K s d = first_kmer K s.
Proof. intro H. destruct d; cbn; auto. unfold last_kmer, first_kmer. now rewrite H, Nat.sub_diag. Qed.

(* ================================================================ the walk on the restricted graph *)
Section Walk.
Variable D : Type.
Variable reduce : D -> D -> D.
Variable join : D -> D -> bool.
Variable K : nat.
Variable stranded : bool.
Hypothesis join_sym : forall a b, join a b = join b a.
Local Notation graph := (graph D).
Local Notation gnode := (gnode D).
Local Notation find_link := (GraphModel.find_link D K stranded).
Local Notation ext_link := (ext_link D K stranded).
Local Notation rnext := (rnext D join K stranded).
Local Notation pal_single := (pal_single D K stranded).
Local Notation try_extend_node := (try_extend_node D join K stranded).
Local Notation xtend := GraphIndex.extend.

(* what the walk needs of the graph it runs on (the input restricted to the survivors S) *)
Record winv (g : graph) (S : list nat) : Prop := {
  wi_ok : Forall (node_ok D K) g;
  wi_pal : pal_ends D K stranded g;
  wi_res : forall x d b n, nth_error g x = Some n -> In b bases4 -> e_has_ext (n_exts D n) (dirb d) b = true ->
             exists y t f, ext_link g x d b = Some (y, t, f) /\ In y S;
  wi_sym : forall x d b y t f n m, In x S -> nth_error g x = Some n -> nth_error g y = Some m -> In b bases4 ->
             ext_link g x d b = Some (y, t, f) ->
             exists t' b' d' f', In b' bases4 /\ ext_link g y t' b' = Some (x, d', f') /\
               (pal_single m = false -> t' = t) /\ (pal_single n = false -> d' = d);
  wi_S : forall x, In x S -> (x < length g)%nat }.

Lemma node_ok_nth (g : graph) x n : Forall (node_ok D K) g -> nth_error g x = Some n -> node_ok D K n.
Proof. intros H Hn. rewrite Forall_forall in H. apply H. eapply nth_error_In; eauto. Qed.

Lemma rnext_inv (g : graph) x d y t :
  rnext g x d = Some (y, t) ->
  exists n b f m, nth_error g x = Some n /\ e_num_ext_dir (n_exts D n) (dirb d) = 1 /\ pal_single n = false /\
    e_get_unique_extension (n_exts D n) (dirb d) = Some b /\
    find_link g (xtend (term_kmer K (n_seq D n) d) b d) d = Some (y, t, f) /\ nth_error g y = Some m /\
    (negb stranded && is_palindrome (xtend (term_kmer K (n_seq D n) d) b d)) = false /\
    join (n_data D n) (n_data D m) = true /\ e_num_ext_dir (n_exts D m) (dirb t) = 1.
Proof.
  unfold RecompCheck.rnext. destruct (nth_error g x) as [n|]; [|discriminate].
  destruct (e_num_ext_dir (n_exts D n) (dirb d) =? 1) eqn:E1; [|discriminate]. cbn [negb orb].
  destruct (pal_single n) eqn:E2; [discriminate|].
  destruct (e_get_unique_extension (n_exts D n) (dirb d)) as [b|] eqn:Eu; [|discriminate]. cbv zeta.
  destruct (find_link g _ d) as [[[y0 t0] f]|] eqn:E3; [|discriminate].
  destruct (nth_error g y0) as [m|] eqn:E4; [|discriminate].
  destruct (negb stranded && is_palindrome _) eqn:E5; [discriminate|]. cbn [orb].
  destruct (join (n_data D n) (n_data D m)) eqn:E6; [|discriminate]. cbn [negb].
  destruct (e_num_ext_dir (n_exts D m) (dirb t0) =? 1) eqn:E7; [|discriminate].
  intro H. injection H as <- <-. apply N.eqb_eq in E1, E7.
  exists n, b, f, m. repeat split; auto.
Qed.

Lemma rnext_intro (g : graph) x d y t n b f m :
  nth_error g x = Some n -> e_num_ext_dir (n_exts D n) (dirb d) = 1 -> pal_single n = false ->
  e_get_unique_extension (n_exts D n) (dirb d) = Some b ->
  find_link g (xtend (term_kmer K (n_seq D n) d) b d) d = Some (y, t, f) -> nth_error g y = Some m ->
  (negb stranded && is_palindrome (xtend (term_kmer K (n_seq D n) d) b d)) = false ->
  join (n_data D n) (n_data D m) = true -> e_num_ext_dir (n_exts D m) (dirb t) = 1 ->
  rnext g x d = Some (y, t).
Proof.
  intros H1 H2 H3 H4 H5 H6 H7 H8 H9. unfold RecompCheck.rnext.
  rewrite H1, H2, H3, H4. cbn [N.eqb Pos.eqb negb orb]. cbv zeta. rewrite H5, H6, H7, H8, H9. reflexivity.
Qed.

(* palindromes: a link target reached through a non-palindromic k-mer is not a palindromic single-k-mer node *)
Lemma target_not_pal (g : graph) S n b d y t f m :
  winv g S -> node_ok D K n -> In b bases4 ->
  find_link g (xtend (term_kmer K (n_seq D n) d) b d) d = Some (y, t, f) -> nth_error g y = Some m ->
  (negb stranded && is_palindrome (xtend (term_kmer K (n_seq D n) d) b d)) = false ->
  pal_single m = false.
Proof.
  intros W (Hwf & _ & _) Hb Hl Hm Hp. unfold RecompCheck.pal_single.
  destruct stranded eqn:Es; [reflexivity|]. cbn [negb andb] in *.
  destruct (Nat.eqb (length (n_seq D m)) K) eqn:El; [|reflexivity]. cbn [andb].
  apply Nat.eqb_eq in El. destruct (find_link_end D K _ g _ d y t f Hl) as (m' & Hm' & Ht & _ & _).
  assert (m' = m) by congruence. subst m'.
  rewrite <- (term_kmer_single K _ t El), Ht.
  assert (Hw : wf_dna (xtend (term_kmer K (n_seq D n) d) b d)).
  { apply wf_extend; [now apply wf_term_kmer | now apply in_bases4_lt]. }
  destruct f; [rewrite is_palindrome_rc|]; auto.
Qed.

(* the end k-mer of a node that is not a palindromic single-k-mer node is not a palindrome *)
Lemma source_end_not_pal (g : graph) S x n d :
  winv g S -> nth_error g x = Some n -> pal_single n = false -> stranded = false ->
  is_palindrome (term_kmer K (n_seq D n) d) = false.
Proof.
  intros W Hn Hp Es. destruct (is_palindrome (term_kmer K (n_seq D n) d)) eqn:E; [|reflexivity].
  pose proof (wi_pal _ _ W Es n d (nth_error_In _ _ Hn) E) as Hl.
  unfold RecompCheck.pal_single in Hp. rewrite Es, Hl, Nat.eqb_refl in Hp. cbn in Hp.
  rewrite <- (term_kmer_single K _ d Hl), E in Hp. discriminate.
Qed.

Lemma rnext_target (g : graph) S x d y t : winv g S -> rnext g x d = Some (y, t) -> In y S.
Proof.
  intros W H. destruct (rnext_inv _ _ _ _ _ H) as (n & b & f & m & Hn & Hnum & Hp & Hu & Hl & Hm & _).
  destruct (unique_ext_spec _ _ (proj2 (proj2 (node_ok_nth _ _ _ (wi_ok _ _ W) Hn))) Hnum) as (b0 & Hb0 & Hu0 & Hh & _).
  assert (b0 = b) by congruence. subst b0.
  destruct (wi_res _ _ W x d b n Hn Hb0 Hh) as (y' & t' & f' & He & Hy).
  unfold RecompCheck.ext_link in He. rewrite Hn, Hh, Hl in He. injection He as <- <- <-. exact Hy.
Qed.

Theorem rnext_sym (g : graph) S x d y t : winv g S -> In x S -> rnext g x d = Some (y, t) -> rnext g y t = Some (x, d).
Proof.
  intros W Hx H. destruct (rnext_inv _ _ _ _ _ H) as (n & b & f & m & Hn & Hnum & Hp & Hu & Hl & Hm & Hpal & Hj & Hnum').
  pose proof (node_ok_nth _ _ _ (wi_ok _ _ W) Hn) as Hokn.
  pose proof (node_ok_nth _ _ _ (wi_ok _ _ W) Hm) as Hokm.
  destruct (unique_ext_spec _ _ (proj2 (proj2 Hokn)) Hnum) as (b0 & Hb0 & Hu0 & Hh & _).
  assert (b0 = b) by congruence. subst b0.
  assert (He : ext_link g x d b = Some (y, t, f)) by (unfold RecompCheck.ext_link; now rewrite Hn, Hh).
  pose proof (target_not_pal _ _ _ _ _ _ _ _ _ W Hokn Hb0 Hl Hm Hpal) as Hpm.
  destruct (wi_sym _ _ W x d b y t f n m Hx Hn Hm Hb0 He) as (t' & b' & d' & f' & Hb' & He' & Ht' & Hd').
  rewrite (Ht' Hpm), (Hd' Hp) in He'. clear Ht' Hd' t' d'.
  unfold RecompCheck.ext_link in He'. rewrite Hm in He'.
  destruct (e_has_ext (n_exts D m) (dirb t) b') eqn:Hh'; [|discriminate].
  destruct (unique_ext_spec _ _ (proj2 (proj2 Hokm)) Hnum') as (b1 & Hb1 & Hu1 & _ & Honly).
  assert (b' = b1) by (apply Honly; auto). subst b1.
  assert (Hj' : join (n_data D m) (n_data D n) = true) by now rewrite join_sym.
  eapply rnext_intro; eauto.
  apply andb_negb_false. intro Es.
    destruct (find_link_end D K _ g _ t x d f' He') as (n' & Hn' & Hterm & _ & _).
    assert (n' = n) by congruence. subst n'.
    pose proof (source_end_not_pal _ _ _ _ d W Hn Hp Es) as Hnp. rewrite Hterm in Hnp.
    assert (Hw : wf_dna (xtend (term_kmer K (n_seq D m) t) b' t)).
    { apply wf_extend; [apply wf_term_kmer; apply Hokm | now apply in_bases4_lt]. }
    destruct f'; [rewrite is_palindrome_rc in Hnp|]; auto.
Qed.

(* try_extend_node = the static conditions + availability of the target; no panic is reachable *)
Theorem try_extend_spec (g : graph) S avail x d n :
  winv g S -> In x S -> nth_error g x = Some n ->
  try_extend_node g avail x d =
    match rnext g x d with
    | Some (y, t) =>
        if mem_nat y avail
        then NUnique y (dflip t) (e_single_dir (match nth_error g y with Some m => n_exts D m | None => 0 end)
                                               (dirb (dflip t)))
        else NTerminal (e_single_dir (n_exts D n) (dirb d))
    | None => NTerminal (e_single_dir (n_exts D n) (dirb d))
    end.
Proof.
  intros W Hx Hn. unfold Recompress.try_extend_node, RecompCheck.rnext. rewrite Hn.
  fold (pal_single n).
  change (negb stranded && Nat.eqb (length (n_seq D n)) K && is_palindrome (first_kmer K (n_seq D n))) with (pal_single n).
  destruct (e_num_ext_dir (n_exts D n) (dirb d) =? 1) eqn:E1; [|reflexivity]. cbn [negb orb].
  destruct (pal_single n) eqn:E2; [reflexivity|]. apply N.eqb_eq in E1.
  pose proof (node_ok_nth _ _ _ (wi_ok _ _ W) Hn) as Hokn.
  destruct (unique_ext_spec _ _ (proj2 (proj2 Hokn)) E1) as (b & Hb & Hu & Hh & _). rewrite Hu. cbv zeta.
  destruct (wi_res _ _ W x d b n Hn Hb Hh) as (y & t & f & He & Hy).
  assert (Hl : find_link g (xtend (term_kmer K (n_seq D n) d) b d) d = Some (y, t, f)).
  { unfold RecompCheck.ext_link in He. now rewrite Hn, Hh in He. }
  rewrite Hl. destruct (find_link_end D K _ g _ d y t f Hl) as (m & Hm & _ & Hcons & _). rewrite Hm.
  assert (Hc : (Nat.eqb (length (n_seq D m)) K ||
               match d, t, f with
               | DLeft, DRight, false | DLeft, DLeft, true | DRight, DLeft, false | DRight, DRight, true => true
               | _, _, _ => false end) = true).
  { destruct d, t, f; cbn in Hcons; try contradiction; apply orb_true_r. }
  rewrite Hc. cbn [negb].
  destruct (mem_nat y avail) eqn:Ea; cbn [negb orb].
  2:{ destruct (negb stranded && is_palindrome _ || negb (join _ _)); [reflexivity|].
      destruct (e_num_ext_dir (n_exts D m) (dirb t) =? 1); cbv beta iota; rewrite ?Ea; reflexivity. }
  destruct (negb stranded && is_palindrome _) eqn:Ep; [reflexivity|]. cbn [orb].
  destruct (join (n_data D n) (n_data D m)) eqn:Ej; [|reflexivity]. cbn [negb].
  (* the back link exists, so the incoming count is not 0 *)
  pose proof (node_ok_nth _ _ _ (wi_ok _ _ W) Hm) as Hokm.
  pose proof (target_not_pal _ _ _ _ _ _ _ _ _ W Hokn Hb Hl Hm Ep) as Hpm.
  destruct (wi_sym _ _ W x d b y t f n m Hx Hn Hm Hb He) as (t' & b' & d' & f' & Hb' & He' & Ht' & _).
  rewrite (Ht' Hpm) in He'. unfold RecompCheck.ext_link in He'. rewrite Hm in He'.
  destruct (e_has_ext (n_exts D m) (dirb t) b') eqn:Hh'; [|discriminate].
  rewrite (has_ext_num _ _ _ (proj2 (proj2 Hokm)) Hb' Hh').
  destruct (e_num_ext_dir (n_exts D m) (dirb t) =? 1); cbv beta iota; rewrite ?Ea, ?Hm; reflexivity.
Qed.
End Walk.

(* ================================================================ the loops refine AbstractWalk *)
Lemma extend_incl {V} (eq_dec : forall x y : V, {x = y} + {x <> y}) next fuel : forall avail v s p a',
  AbstractWalk.extend V eq_dec next fuel avail v s = (p, a') ->
  (forall x, In x (verts V p) -> In x avail) /\ (forall x, In x a' -> In x avail).
Proof.
  induction fuel as [|f IH]; intros avail v s p a' H; cbn in H.
  - injection H as <- <-. split; [intros x []|auto].
  - destruct (next v s) as [[w t]|]; [|injection H as <- <-; split; [intros x []|auto]].
    destruct (mem V eq_dec w avail) eqn:Em; [|injection H as <- <-; split; [intros x []|auto]].
    destruct (AbstractWalk.extend V eq_dec next f (remove eq_dec w avail) w (flip t)) as [p0 a0] eqn:E.
    injection H as <- <-. destruct (IH _ _ _ _ _ E) as [H1 H2]. apply mem_In in Em. split.
    + intros x [<-|Hx]; auto. apply H1 in Hx. apply in_remove in Hx. tauto.
    + intros x Hx. apply H2 in Hx. apply in_remove in Hx. tauto.
Qed.

Section Refine.
Variable D : Type.
Variable reduce : D -> D -> D.
Variable join : D -> D -> bool.
Variable K : nat.
Variable stranded : bool.
Hypothesis join_sym : forall a b, join a b = join b a.
Local Notation graph := (graph D).
Local Notation gnode := (gnode D).
Local Notation rnext := (rnext D join K stranded).
Local Notation winv := (winv D K stranded).

(* the step function handed to AbstractWalk: the static conditions, on surviving nodes only *)
Definition wnext (g : graph) (S : list nat) (v : nat) (s : side) : option (nat * side) :=
  if mem_nat v S then match rnext g v (ds s) with Some (y, t) => Some (y, sd t) | None => None end else None.

Lemma wnext_inv g S v s w t : wnext g S v s = Some (w, t) -> In v S /\ rnext g v (ds s) = Some (w, ds t).
Proof.
  unfold wnext. destruct (mem_nat v S) eqn:E; [|discriminate]. apply mem_nat_In in E.
  destruct (rnext g v (ds s)) as [[y t0]|]; [|discriminate]. intro H. injection H as <- <-. now rewrite ds_sd.
Qed.

Lemma wnext_sym g S : winv g S -> forall v s w t, wnext g S v s = Some (w, t) -> wnext g S w t = Some (v, s).
Proof.
  intros W v s w t H. apply wnext_inv in H. destruct H as [Hv Hr].
  pose proof (rnext_target D join K stranded _ _ _ _ _ _ W Hr) as Hw.
  pose proof (rnext_sym D join K stranded join_sym _ _ _ _ _ _ W Hv Hr) as Hs.
  unfold wnext. apply mem_nat_In in Hw. rewrite Hw, Hs. now rewrite sd_ds.
Qed.

Lemma wnext_target g S v s w t : winv g S -> wnext g S v s = Some (w, t) -> In w S.
Proof. intros W H. apply wnext_inv in H. destruct H as [_ Hr]. eapply rnext_target; eauto. Qed.

Definition cp (p : list (nat * side)) : list (nat * dir) := map (fun x => (fst x, ds (snd x))) p.
(* terminal extensions reported by a walk that ends at node v, looking out of side d *)
Definition texts (g : graph) (vd : nat * side) : N :=
  match nth_error g (fst vd) with Some n => e_single_dir (n_exts D n) (dirb (ds (snd vd))) | None => 0 end.

Lemma extend_refines g S : winv g S -> forall fuel avail cur d p a',
  In cur S -> (length avail < fuel)%nat ->
  AbstractWalk.extend nat Nat.eq_dec (wnext g S) fuel avail cur (sd d) = (p, a') ->
  extend_node_loop D join K stranded fuel g avail cur d = Some (cp p, texts g (last_out nat cur (sd d) p), a').
Proof.
  intro W. induction fuel as [|f IH]; intros avail cur d p a' Hc Hlen He; [lia|].
  cbn [AbstractWalk.extend] in He. cbn [extend_node_loop].
  assert (Hn : exists n, nth_error g cur = Some n).
  { destruct (nth_error g cur) eqn:E; eauto. apply nth_error_None in E. pose proof (wi_S _ _ _ _ _ W cur Hc). lia. }
  destruct Hn as [n Hn]. rewrite (try_extend_spec D join K stranded g S avail cur d n W Hc Hn).
  assert (Hw : wnext g S cur (sd d) = match rnext g cur d with Some (y, t) => Some (y, sd t) | None => None end).
  { unfold wnext. now rewrite (proj2 (mem_nat_In cur S) Hc), ds_sd. }
  rewrite Hw in He. clear Hw.
  destruct (rnext g cur d) as [[y t]|] eqn:Er.
  - rewrite <- mem_nat_mem in He. destruct (mem_nat y avail) eqn:Ea.
    + destruct (AbstractWalk.extend nat Nat.eq_dec (wnext g S) f (remove Nat.eq_dec y avail) y (flip (sd t)))
        as [p0 a0] eqn:E0. injection He as <- <-.
      rewrite remove_nat_remove. rewrite <- sd_dflip in E0.
      assert (Hy : In y S) by (eapply rnext_target; eauto).
      assert (Hl : (length (remove Nat.eq_dec y avail) < f)%nat).
      { apply mem_nat_In in Ea. pose proof (remove_length_lt Nat.eq_dec avail y Ea). lia. }
      rewrite (IH _ _ _ _ _ Hy Hl E0). cbn [cp map fst snd last_out]. rewrite ds_sd, dflip_dflip, sd_dflip. reflexivity.
    + injection He as <- <-. cbn. unfold texts. cbn. now rewrite Hn, ds_sd.
  - injection He as <- <-. cbn. unfold texts. cbn. now rewrite Hn, ds_sd.
Qed.

(* payload fold and spelled sequence are defined as soon as all ids are in range *)
Fixpoint datas (g : graph) (ids : list nat) : option (list D) :=
  match ids with
  | [] => Some []
  | i :: r => match nth_error g i, datas g r with Some n, Some t => Some (n_data D n :: t) | _, _ => None end
  end.
Definition red (g : graph) (acc : option D) (x : nat * dir) : option D :=
  match acc, (match nth_error g (fst x) with Some n => Some (n_data D n) | None => None end) with
  | Some a, Some b => Some (reduce a b) | _, _ => None end.
Lemma fold_red g path : forall acc,
  fold_left (red g) path acc =
  match acc, datas g (map fst path) with Some a, Some ds => Some (fold_left reduce ds a) | _, _ => None end.
Proof.
  induction path as [|x path IH]; intro acc; cbn [fold_left map datas].
  - destruct acc; reflexivity.
  - rewrite IH. unfold red at 1. destruct acc as [a|].
    + destruct (nth_error g (fst x)) as [n|]; [|reflexivity]. destruct (datas g (map fst path)); reflexivity.
    + destruct (nth_error g (fst x)), (datas g (map fst path)); reflexivity.
Qed.
Lemma datas_some g ids : (forall i, In i ids -> (i < length g)%nat) -> exists l, datas g ids = Some l.
Proof.
  induction ids as [|i r IH]; intro H; cbn; [eauto|].
  destruct (nth_error g i) eqn:E.
  - destruct IH as [l ->]; [intros; apply H; now right|]. eauto.
  - apply nth_error_None in E. specialize (H i (or_introl eq_refl)). lia.
Qed.
Lemma datas_app g a b : datas g (a ++ b) =
  match datas g a, datas g b with Some x, Some y => Some (x ++ y) | _, _ => None end.
Proof.
  induction a as [|i a IH]; cbn.
  - destruct (datas g b); reflexivity.
  - rewrite IH. destruct (nth_error g i); [|reflexivity]. destruct (datas g a), (datas g b); reflexivity.
Qed.
Lemma seq_path_some g first p : (forall x, In x p -> (fst x < length g)%nat) ->
  exists sq, sequence_of_path_from D K g first p = Some sq.
Proof.
  revert first. induction p as [|[i d] p IH]; intros first H; cbn; [eauto|].
  destruct (nth_error g i) eqn:E.
  - destruct (IH false) as [t ->]; [intros; apply H; now right|]. eauto.
  - apply nth_error_None in E. specialize (H (i, d) (or_introl eq_refl)). cbn in H. lia.
Qed.
End Refine.

Section Main.
Variable D : Type.
Variable reduce : D -> D -> D.
Variable join : D -> D -> bool.
Variable K : nat.
Variable stranded : bool.
Hypothesis join_sym : forall a b, join a b = join b a.
Local Notation graph := (graph D).
Local Notation gnode := (gnode D).
Local Notation rnext := (rnext D join K stranded).
Local Notation winv := (winv D K stranded).
Local Notation wnext := (wnext D join K stranded).
Local Notation ext_link := (ext_link D K stranded).
Local Notation cp := cp.

Definition flipc (x : nat * dir) : nat * dir := (fst x, dflip (snd x)).
(* the node path assembled by build_node from the two walks *)
Definition assemble (lp : list (nat * side)) (seed : nat) (rp : list (nat * side)) : list (nat * dir) :=
  rev (map flipc (cp lp)) ++ (seed, DLeft) :: cp rp.
Lemma assemble_verts lp seed rp : map fst (assemble lp seed rp) = node_verts nat lp seed rp.
Proof.
  unfold assemble, node_verts, verts, cp. rewrite map_app, map_rev. cbn [map fst]. rewrite !map_map.
  cbn [fst flipc]. reflexivity.
Qed.

(* what build_node computed for one result node: spelled sequence, folded payload, terminal extensions *)
Definition built (g : graph) (n : gnode) (lp : list (nat * side)) (seed : nat) (rp : list (nat * side)) : Prop :=
  sequence_of_path D K g (assemble lp seed rp) = Some (n_seq D n) /\
  (exists sd0 ds, option_map (n_data D) (nth_error g seed) = Some sd0 /\
                  datas D g (verts nat lp ++ verts nat rp) = Some ds /\ n_data D n = fold_left reduce ds sd0) /\
  n_exts D n =
    e_from_single_dirs
      (let le := texts D g (last_out nat seed L lp) in
       match rb_last_dir (cp lp) with Some DLeft => e_complement le | _ => le end)
      (let re := texts D g (last_out nat seed R rp) in
       match rb_last_dir (cp rp) with Some DRight => e_complement re | _ => re end).

Lemma rb_build_spec g S avail seed lp rp a3 :
  winv g S -> (forall x, In x avail -> In x S) -> In seed avail ->
  build nat Nat.eq_dec (wnext g S) avail seed = (lp, rp, a3) ->
  exists n, rb_build_node D reduce join K stranded g avail seed =
              Some (n_seq D n, n_exts D n, n_data D n, assemble lp seed rp, a3) /\ built g n lp seed rp.
Proof.
  intros W Hsub Hseed Hb. unfold build in Hb.
  destruct (AbstractWalk.extend nat Nat.eq_dec (wnext g S) (Datatypes.S (length (remove Nat.eq_dec seed avail)))
              (remove Nat.eq_dec seed avail) seed L) as [lp0 a2] eqn:EL.
  destruct (AbstractWalk.extend nat Nat.eq_dec (wnext g S) (Datatypes.S (length a2)) a2 seed R) as [rp0 a3'] eqn:ER.
  injection Hb as <- <- <-.
  assert (HsS : In seed S) by auto.
  unfold rb_build_node, extend_node. rewrite !remove_nat_remove.
  change L with (sd DLeft) in EL. change R with (sd DRight) in ER.
  destruct (extend_incl Nat.eq_dec _ _ _ _ _ _ _ EL) as [HL1 HL2].
  destruct (extend_incl Nat.eq_dec _ _ _ _ _ _ _ ER) as [HR1 HR2].
  assert (Hns : ~ In seed a2). { intro H. apply HL2 in H. apply in_remove in H. tauto. }
  rewrite (extend_refines D join K stranded g S W _ _ _ _ _ _ HsS (Nat.lt_succ_diag_r _) EL).
  rewrite remove_nat_remove, (notin_remove Nat.eq_dec a2 seed Hns).
  rewrite (extend_refines D join K stranded g S W _ _ _ _ _ _ HsS (Nat.lt_succ_diag_r _) ER).
  cbn [sd] in *.
  assert (Hrem : forall x, In x (remove Nat.eq_dec seed avail) -> In x S).
  { intros x Hx. apply in_remove in Hx. apply Hsub. tauto. }
  assert (HinL : forall x, In x (verts nat lp0) -> (x < length g)%nat).
  { intros x Hx. apply (wi_S _ _ _ _ _ W). auto. }
  assert (HinR : forall x, In x (verts nat rp0) -> (x < length g)%nat).
  { intros x Hx. apply (wi_S _ _ _ _ _ W). auto. }
  assert (Hsn : exists sn, nth_error g seed = Some sn).
  { destruct (nth_error g seed) eqn:E; eauto. apply nth_error_None in E. pose proof (wi_S _ _ _ _ _ W seed HsS). lia. }
  destruct Hsn as [sn Hsn]. rewrite Hsn.
  fold (red D reduce g). rewrite !fold_red.
  assert (Hcpv : forall p, map fst (cp p) = verts nat p).
  { intro p. unfold cp, verts. rewrite map_map. reflexivity. }
  rewrite !Hcpv.
  destruct (datas_some D g (verts nat lp0) HinL) as [dl Hdl].
  destruct (datas_some D g (verts nat rp0) HinR) as [dr Hdr].
  rewrite Hdl, Hdr.
  fold (flipc). fold (assemble lp0 seed rp0).
  destruct (seq_path_some D K g true (assemble lp0 seed rp0)) as [sq Hsq].
  { intros x Hx. apply (in_map fst) in Hx. rewrite assemble_verts in Hx. apply in_node in Hx.
    destruct Hx as [Hx|[->|Hx]]; auto. apply (wi_S _ _ _ _ _ W). auto. }
  unfold sequence_of_path. rewrite Hsq.
  eexists (sq, _, _). split; [reflexivity|]. unfold built, n_seq, n_exts, n_data. cbn [fst snd].
  split; [exact Hsq|]. split; [|reflexivity].
  exists (snd sn), (dl ++ dr). rewrite Hsn. cbn. split; [reflexivity|]. split.
  - rewrite datas_app, Hdl, Hdr. reflexivity.
  - now rewrite fold_left_app.
Qed.

(* consecutive elements of a node path are joined by sole mutual links between distinct nodes *)
Lemma Linked_cons2 g a b r :
  Linked D join K stranded g (a :: b :: r) <-> step_ok D join K stranded g a b = true /\ Linked D join K stranded g (b :: r).
Proof. unfold Linked. cbn [tl combine]. rewrite Forall_cons_iff. cbn [fst snd]. tauto. Qed.
Lemma Linked_one g a : Linked D join K stranded g [a].
Proof. unfold Linked. cbn. constructor. Qed.
Lemma Linked_snoc g q a b :
  Linked D join K stranded g (q ++ [a]) -> step_ok D join K stranded g a b = true ->
  Linked D join K stranded g ((q ++ [a]) ++ [b]).
Proof.
  induction q as [|x q IH]; intros H1 H2.
  - cbn [app]. apply Linked_cons2. split; [exact H2 | apply Linked_one].
  - destruct q as [|y q]; cbn [app] in *.
    + apply Linked_cons2 in H1. destruct H1 as [H1 _]. apply Linked_cons2. split; [exact H1|].
      apply Linked_cons2. split; [exact H2 | apply Linked_one].
    + apply Linked_cons2 in H1. destruct H1 as [H1 H3]. apply Linked_cons2. split; [exact H1 | exact (IH H3 H2)].
Qed.
Lemma Linked_app g q a r :
  Linked D join K stranded g (q ++ [a]) -> Linked D join K stranded g (a :: r) ->
  Linked D join K stranded g (q ++ a :: r).
Proof.
  induction q as [|x q IH]; intros H1 H2; [exact H2|].
  destruct q as [|y q]; cbn [app] in *.
  - apply Linked_cons2 in H1. destruct H1 as [H1 _]. apply Linked_cons2. split; [exact H1 | exact H2].
  - apply Linked_cons2 in H1. destruct H1 as [H1 H3]. apply Linked_cons2. split; [exact H1 | exact (IH H3 H2)].
Qed.

Lemma wstep_ok g S v s w t :
  winv g S -> wnext g S v s = Some (w, t) -> v <> w ->
  step_ok D join K stranded g (v, dflip (ds s)) (w, ds t) = true /\
  step_ok D join K stranded g (w, dflip (ds t)) (v, ds s) = true.
Proof.
  intros W H Hne. pose proof (wnext_sym D join K stranded join_sym g S W _ _ _ _ H) as H'.
  apply wnext_inv in H. apply wnext_inv in H'. destruct H as [_ H]. destruct H' as [_ H'].
  unfold step_ok. cbn [fst snd]. rewrite !dflip_dflip, H, H'. cbn [opt_nd_eqb].
  rewrite !Nat.eqb_refl. assert (E1 : Nat.eqb v w = false) by now apply Nat.eqb_neq.
  assert (E2 : Nat.eqb w v = false) by (apply Nat.eqb_neq; congruence). rewrite E1, E2.
  destruct (ds s), (ds t); cbn; auto.
Qed.

Lemma chain_linked_right g S : winv g S -> forall v s p,
  chain nat (wnext g S) v s p -> NoDup (v :: verts nat p) ->
  Linked D join K stranded g ((v, dflip (ds s)) :: cp p).
Proof.
  intro W. induction 1 as [v s | v s w t p Hn Hc IH]; intro Hnd.
  - apply Linked_one.
  - cbn [cp map fst snd]. apply Linked_cons2.
    assert (Hne : v <> w).
    { intro E. subst w. apply NoDup_cons_iff in Hnd. destruct Hnd as [Hni _]. apply Hni. cbn. auto. }
    split; [apply (wstep_ok g S v s w t W Hn Hne)|].
    assert (Hnd' : NoDup (w :: verts nat p)) by (apply NoDup_cons_iff in Hnd; apply Hnd).
    specialize (IH Hnd'). rewrite ds_flip, dflip_dflip in IH. exact IH.
Qed.

Lemma chain_linked_left g S : winv g S -> forall v s p,
  chain nat (wnext g S) v s p -> NoDup (v :: verts nat p) ->
  Linked D join K stranded g (rev (map flipc (cp p)) ++ [(v, ds s)]).
Proof.
  intro W. induction 1 as [v s | v s w t p Hn Hc IH]; intro Hnd.
  - apply Linked_one.
  - cbn [cp map rev fst snd flipc].
    assert (Hne : v <> w).
    { intro E. subst w. apply NoDup_cons_iff in Hnd. destruct Hnd as [Hni _]. apply Hni. cbn. auto. }
    assert (Hnd' : NoDup (w :: verts nat p)) by (apply NoDup_cons_iff in Hnd; apply Hnd).
    specialize (IH Hnd'). rewrite ds_flip in IH. fold (cp p).
    apply Linked_snoc; auto. apply (wstep_ok g S v s w t W Hn Hne).
Qed.

Lemma build_linked g S avail seed lp rp a3 :
  winv g S -> NoDup avail -> In seed avail -> (forall x, In x avail -> In x S) ->
  build nat Nat.eq_dec (wnext g S) avail seed = (lp, rp, a3) ->
  Linked D join K stranded g (assemble lp seed rp) /\ NoDup (map fst (assemble lp seed rp)) /\
  (forall x, In x (map fst (assemble lp seed rp)) -> In x S) /\ NoDup a3.
Proof.
  intros W Hnd Hseed Hsub Hb.
  destruct (build_closed nat Nat.eq_dec (wnext g S) (wnext_sym D join K stranded join_sym g S W)
              avail seed lp rp a3 Hnd Hseed Hb) as [(HndN & Hnd3 & Hsp & _) _].
  rewrite assemble_verts. split; [|split; [exact HndN | split; [|exact Hnd3]]].
  2:{ intros x Hx. apply Hsub, Hsp. auto. }
  unfold build in Hb.
  destruct (AbstractWalk.extend nat Nat.eq_dec (wnext g S) _ (remove Nat.eq_dec seed avail) seed L) as [lp0 a2] eqn:EL.
  destruct (AbstractWalk.extend nat Nat.eq_dec (wnext g S) _ a2 seed R) as [rp0 a3'] eqn:ER.
  injection Hb as <- <- <-.
  assert (Hnd1 : NoDup (remove Nat.eq_dec seed avail)) by (apply (NoDup_remove_ nat Nat.eq_dec (wnext g S)); auto).
  destruct (extend_spec nat Nat.eq_dec (wnext g S) _ _ _ _ _ _ (Nat.lt_succ_diag_r _) Hnd1 EL) as [HcL _ Hnd2 _ _ _].
  destruct (extend_spec nat Nat.eq_dec (wnext g S) _ _ _ _ _ _ (Nat.lt_succ_diag_r _) Hnd2 ER) as [HcR _ _ _ _ _].
  unfold node_verts in HndN.
  destruct (NoDup_app_inv _ _ HndN) as (HL & HR & Hdj).
  assert (HndL : NoDup (seed :: verts nat lp0)).
  { constructor.
    - intro Hin. apply (Hdj seed); [now apply -> in_rev | now left].
    - apply NoDup_rev in HL. now rewrite rev_involutive in HL. }
  assert (HndR : NoDup (seed :: verts nat rp0)) by exact HR.
  unfold assemble. apply Linked_app.
  - exact (chain_linked_left g S W seed L lp0 HcL HndL).
  - exact (chain_linked_right g S W seed R rp0 HcR HndR).
Qed.

(* the outer loop *)
Definition result_ok (g : graph) (S : list nat) (r : list (gnode * list (nat * dir))) (nodes : list (list nat)) : Prop :=
  Forall2 (fun x N => map fst (snd x) = N /\
             exists lp seed rp, snd x = assemble lp seed rp /\ built g (fst x) lp seed rp /\
               Linked D join K stranded g (snd x) /\ NoDup (map fst (snd x)) /\
               (forall y, In y (map fst (snd x)) -> In y S)) r nodes.

Lemma rb_loop_spec g S : winv g S -> forall ids avail,
  NoDup avail -> (forall x, In x avail -> In x S) ->
  exists r, rb_loop D reduce join K stranded g ids avail = Some r /\
            result_ok g S r (compress nat Nat.eq_dec (wnext g S) ids avail).
Proof.
  intro W. induction ids as [|i ids IH]; intros avail Hnd Hsub; cbn [rb_loop compress].
  - exists []. split; auto. constructor.
  - rewrite <- mem_nat_mem. destruct (mem_nat i avail) eqn:Ei.
    + destruct (build nat Nat.eq_dec (wnext g S) avail i) as [[lp rp] a'] eqn:Eb.
      apply mem_nat_In in Ei.
      destruct (rb_build_spec g S avail i lp rp a' W Hsub Ei Eb) as (n & Hn & Hbuilt). rewrite Hn.
      destruct (build_linked g S avail i lp rp a' W Hnd Ei Hsub Eb) as (HL & HN & HS & Hnd').
      assert (Hsub' : forall x, In x a' -> In x S).
      { intros x Hx. apply Hsub. unfold build in Eb.
        destruct (AbstractWalk.extend nat Nat.eq_dec (wnext g S) _ (remove Nat.eq_dec i avail) i L) as [lp0 a2] eqn:EL.
        destruct (AbstractWalk.extend nat Nat.eq_dec (wnext g S) _ a2 i R) as [rp0 a3'] eqn:ER.
        injection Eb as <- <- <-.
        apply (proj2 (extend_incl Nat.eq_dec _ _ _ _ _ _ _ ER)) in Hx.
        apply (proj2 (extend_incl Nat.eq_dec _ _ _ _ _ _ _ EL)) in Hx. apply in_remove in Hx. tauto. }
      destruct (IH a' Hnd' Hsub') as (r & Hr & Hok). rewrite Hr.
      eexists. split; [reflexivity|]. constructor; auto. cbn [fst snd]. split; [apply assemble_verts|].
      exists lp, i, rp. split; [reflexivity|]. split; [exact Hbuilt|]. auto.
    + apply IH; auto.
Qed.
End Main.

(* ================================================================ restriction to the survivors establishes the walk invariant *)
Section Restrict.
Variable D : Type.
Variable K : nat.
Variable stranded : bool.
Local Notation graph := (graph D).
Local Notation gnode := (gnode D).
Local Notation ext_link := (ext_link D K stranded).
Local Notation pal_single := (pal_single D K stranded).

Lemma pal_single_seq (n n' : gnode) : n_seq D n' = n_seq D n -> pal_single n' = pal_single n.
Proof. unfold RecompCheck.pal_single. now intros ->. Qed.

Lemma restrict_nth (g g1 : graph) S x n1 :
  restrict D K stranded g S = Some g1 -> nth_error g1 x = Some n1 ->
  exists n, nth_error g x = Some n /\ n_seq D n1 = n_seq D n /\ n_data D n1 = n_data D n /\ n_exts D n1 < 256 /\
    forall d b, In b bases4 -> e_has_ext (n_exts D n1) (dirb d) b = keeps D K stranded g (Some S) x d b.
Proof.
  unfold restrict. intros Hr Hn1. destruct (fix_exts_spec D K stranded g (Some S)) as (g' & Hg' & Hlen & _ & Hsp).
  assert (g' = g1) by congruence. subst g'.
  assert (Hx : (x < length g)%nat) by (rewrite <- Hlen; apply nth_error_Some; congruence).
  destruct (nth_error g x) as [n|] eqn:En; [|apply nth_error_None in En; lia].
  destruct (Hsp x n En) as (e & He & Hlt & Hb). rewrite Hn1 in He. injection He as ->.
  exists n. cbn. auto.
Qed.

Lemma ext_link_restrict (g g1 : graph) S x d b :
  restrict D K stranded g S = Some g1 -> In b bases4 ->
  ext_link g1 x d b = if keeps D K stranded g (Some S) x d b then ext_link g x d b else None.
Proof.
  intros Hr Hb. pose proof Hr as Hr'. unfold restrict in Hr'.
  destruct (fix_exts_spec D K stranded g (Some S)) as (g' & Hg' & Hlen & Hseq & Hsp).
  assert (g' = g1) by congruence. subst g'.
  unfold RecompCheck.ext_link at 1. destruct (nth_error g1 x) as [n1|] eqn:En1.
  - destruct (restrict_nth g g1 S x n1 Hr En1) as (n & Hn & Hs & _ & _ & Hh). rewrite (Hh d b Hb).
    destruct (keeps D K stranded g (Some S) x d b) eqn:Ek; [|reflexivity].
    unfold keeps in Ek. unfold RecompCheck.ext_link in *. rewrite Hn in *.
    destruct (e_has_ext (n_exts D n) (dirb d) b); [|discriminate]. rewrite Hs. now apply find_link_seqs.
  - assert (nth_error g x = None). { apply nth_error_None. rewrite <- Hlen. now apply nth_error_None. }
    unfold keeps, RecompCheck.ext_link. rewrite H. reflexivity.
Qed.

Theorem restrict_winv (g g1 : graph) S :
  rvalid D K stranded g -> (forall x, In x S -> (x < length g)%nat) ->
  restrict D K stranded g S = Some g1 -> winv D K stranded g1 S.
Proof.
  intros (Hok & _ & _ & Hpal & _ & Hsym) HS Hr.
  assert (Hlen : length g1 = length g).
  { unfold restrict in Hr. destruct (fix_exts_spec D K stranded g (Some S)) as (g' & Hg' & Hlen & _). congruence. }
  constructor.
  - apply Forall_forall. intros n1 Hin. apply In_nth_error in Hin. destruct Hin as [x Hx].
    destruct (restrict_nth g g1 S x n1 Hr Hx) as (n & Hn & Hs & _ & Hlt & _).
    destruct (node_ok_nth D K g x n Hok Hn) as (H1 & H2 & _). unfold node_ok. rewrite Hs. auto.
  - intros Es n1 d Hin Hp. apply In_nth_error in Hin. destruct Hin as [x Hx].
    destruct (restrict_nth g g1 S x n1 Hr Hx) as (n & Hn & Hs & _). rewrite Hs in *.
    eapply Hpal; eauto. eapply nth_error_In; eauto.
  - intros x d b n1 Hn1 Hb Hh.
    destruct (restrict_nth g g1 S x n1 Hr Hn1) as (n & Hn & Hs & _ & _ & Hk). rewrite (Hk d b Hb) in Hh.
    rewrite (ext_link_restrict g g1 S x d b Hr Hb), Hh. unfold keeps in Hh.
    destruct (ext_link g x d b) as [[[y t] f]|]; [|discriminate]. exists y, t, f. split; auto.
    cbn in Hh. now apply mem_nat_In.
  - intros x d b y t f n1 m1 Hx Hn1 Hm1 Hb He.
    rewrite (ext_link_restrict g g1 S x d b Hr Hb) in He.
    destruct (keeps D K stranded g (Some S) x d b); [|discriminate].
    destruct (restrict_nth g g1 S x n1 Hr Hn1) as (n & Hn & Hs & _).
    destruct (restrict_nth g g1 S y m1 Hr Hm1) as (m & Hm & Hsm & _).
    destruct (Hsym x d b y t f n m Hn Hm Hb He) as (t' & b' & d' & f' & Hb' & He' & Ht' & Hd').
    exists t', b', d', f'. split; auto. split.
    + rewrite (ext_link_restrict g g1 S y t' b' Hr Hb'). unfold keeps. rewrite He'. cbn.
      now rewrite (proj2 (mem_nat_In x S) Hx).
    + rewrite (pal_single_seq m m1 Hsm), (pal_single_seq n n1 Hs). auto.
  - intros x Hx. rewrite Hlen. auto.
Qed.
End Restrict.

(* ================================================================ compress_graph *)
Lemma Forall2_map_eq {A B C} (f : A -> C) (P : A -> B -> Prop) (h : B -> C) l l' :
  Forall2 P l l' -> (forall a b, P a b -> f a = h b) -> map f l = map h l'.
Proof. induction 1; intro H1; cbn; auto. f_equal; auto. Qed.

Lemma Forall2_nth_intro {A B} (P : A -> B -> Prop) : forall l l',
  length l = length l' ->
  (forall i a b, nth_error l i = Some a -> nth_error l' i = Some b -> P a b) -> Forall2 P l l'.
Proof.
  induction l as [|a l IH]; intros [|b l'] Hlen H; try discriminate; constructor.
  - apply (H 0%nat); reflexivity.
  - apply IH; [cbn in Hlen; lia|]. intros i x y Hx Hy. apply (H (Datatypes.S i)); auto.
Qed.
Lemma Forall2_nth_elim {A B} (P : A -> B -> Prop) l l' i a :
  Forall2 P l l' -> nth_error l i = Some a -> exists b, nth_error l' i = Some b /\ P a b.
Proof.
  intro H. revert i. induction H as [|x y l l' Hxy H IH]; intros [|i] Hi; try discriminate; cbn in *.
  - injection Hi as <-. eauto.
  - auto.
Qed.
Lemma nth_error_map {A B} (f : A -> B) l i : nth_error (map f l) i = option_map f (nth_error l i).
Proof. revert i. induction l as [|a l IH]; intros [|i]; cbn; auto. Qed.

Section Final.
Variable D : Type.
Variable reduce : D -> D -> D.
Variable join : D -> D -> bool.
Variable K : nat.
Variable stranded : bool.
Hypothesis join_sym : forall a b, join a b = join b a.
Local Notation graph := (graph D).
Local Notation gnode := (gnode D).
Local Notation rnext := (rnext D join K stranded).
Local Notation winv := (winv D K stranded).
Local Notation wnext := (wnext D join K stranded).
Local Notation survivors := (survivors D).
Local Notation compress_graph_paths := (compress_graph_paths D reduce join K stranded).

Definition walk_nodes (g1 : graph) (S : list nat) (n : nat) : list (list nat) :=
  compress nat Nat.eq_dec (wnext g1 S) (seq 0 n) S.

(* [out] is [g2] with every extension that does not resolve (to a node of [valid]) removed *)
Definition pruned_of (g2 : graph) (valid : option (list nat)) (out : graph) : Prop :=
  length out = length g2 /\ g_seqs D out = g_seqs D g2 /\
  forall x n, nth_error g2 x = Some n ->
    exists e, nth_error out x = Some (n_seq D n, e, n_data D n) /\ e < 256 /\
      forall d b, In b bases4 -> e_has_ext e (dirb d) b = keeps D K stranded g2 valid x d b.

Lemma survivors_spec (g : graph) censor x :
  In x (survivors g censor) <-> (x < length g)%nat /\ match censor with Some c => ~ In x c | None => True end.
Proof.
  unfold RecompCheck.survivors, initial_avail. destruct censor as [c|].
  - rewrite filter_In, in_seq, negb_true_iff. split.
    + intros [H1 H2]. split; [lia|]. intro Hc. apply mem_nat_In in Hc. congruence.
    + intros [H1 H2]. split; [lia|]. destruct (mem_nat x c) eqn:E; auto. apply mem_nat_In in E. tauto.
  - rewrite in_seq. split; [intros; split; auto; lia | intros [H _]; lia].
Qed.
Lemma survivors_nodup (g : graph) censor : NoDup (survivors g censor).
Proof.
  unfold RecompCheck.survivors, initial_avail. destruct censor; [apply NoDup_filter|]; apply seq_NoDup.
Qed.

Theorem recompress_refines_walk_ (g : graph) censor :
  rvalid D K stranded g ->
  exists g1 out r,
    restrict D K stranded g (survivors g censor) = Some g1 /\ winv g1 (survivors g censor) /\
    compress_graph_paths g censor = Some (out, map snd r) /\
    result_ok D reduce join K stranded g1 (survivors g censor) r (walk_nodes g1 (survivors g censor) (length g)) /\
    pruned_of (map fst r) None out.
Proof.
  intro V. set (S := survivors g censor).
  destruct (fix_exts_spec D K stranded g (Some S)) as (g1 & Hg1 & Hlen & _).
  assert (HS : forall x, In x S -> (x < length g)%nat) by (intros x Hx; now apply survivors_spec in Hx).
  pose proof (restrict_winv D K stranded g g1 S V HS Hg1) as W.
  destruct (rb_loop_spec D reduce join K stranded join_sym g1 S W (seq 0 (length g)) S (survivors_nodup g censor) (fun x H => H)) as (r & Hr & Hok).
  destruct (fix_exts_spec D K stranded (map fst r) None) as (out & Hout & Hp).
  exists g1, out, r. split; [exact Hg1|]. split; [exact W|]. split; [|split; [exact Hok | exact Hp]].
  unfold Recompress.compress_graph_paths. fold (survivors g censor). fold S. rewrite Hg1, Hr, Hout. reflexivity.
Qed.

Lemma result_ok_nodes g1 S r nodes : result_ok D reduce join K stranded g1 S r nodes -> map (map fst) (map snd r) = nodes.
Proof.
  intro H. rewrite map_map. rewrite <- (map_id nodes).
  eapply Forall2_map_eq; [exact H|]. intros a b [Hab _]. exact Hab.
Qed.

(* C09 node partition: every non-censored input node is used in exactly one result node, no other node is used *)
Theorem recompress_partition (g : graph) censor out paths :
  rvalid D K stranded g -> compress_graph_paths g censor = Some (out, paths) ->
  length out = length paths /\
  NoDup (concat (map (map fst) paths)) /\
  forall x, In x (concat (map (map fst) paths)) <->
            (x < length g)%nat /\ match censor with Some c => ~ In x c | None => True end.
Proof.
  intros V H. destruct (recompress_refines_walk_ g censor V) as (g1 & out' & r & Hg1 & W & Hc & Hok & Hp).
  rewrite Hc in H. injection H as <- <-. rewrite (result_ok_nodes _ _ _ _ Hok).
  destruct (compress_partition nat Nat.eq_dec (wnext g1 (survivors g censor))
              (wnext_sym D join K stranded join_sym g1 _ W) (seq 0 (length g)) (survivors g censor)
              (survivors_nodup g censor)) as [H1 H2].
  { intros x Hx. apply survivors_spec in Hx. apply in_seq. lia. }
  split; [|split; auto].
  - destruct Hp as [Hl _]. rewrite Hl, !map_length. reflexivity.
  - intro x. unfold walk_nodes. rewrite H2. apply survivors_spec.
Qed.

(* C09 maximality: no mergeable link of the restricted input graph leaves a result node *)
Theorem recompress_maximal_ (g : graph) censor out paths :
  rvalid D K stranded g -> compress_graph_paths g censor = Some (out, paths) ->
  exists g1, restrict D K stranded g (survivors g censor) = Some g1 /\
    forall p, In p paths -> forall x d w t, In x (map fst p) -> rnext g1 x d = Some (w, t) -> In w (map fst p).
Proof.
  intros V H. destruct (recompress_refines_walk_ g censor V) as (g1 & out' & r & Hg1 & W & Hc & Hok & Hp).
  rewrite Hc in H. injection H as <- <-. exists g1. split; auto.
  intros p Hp' x d w t Hx Hn.
  assert (HN : In (map fst p) (walk_nodes g1 (survivors g censor) (length g))).
  { rewrite <- (result_ok_nodes _ _ _ _ Hok). now apply in_map. }
  destruct (compress_partition nat Nat.eq_dec (wnext g1 (survivors g censor))
              (wnext_sym D join K stranded join_sym g1 _ W) (seq 0 (length g)) (survivors g censor)
              (survivors_nodup g censor)) as [_ H2].
  { intros y Hy. apply survivors_spec in Hy. apply in_seq. lia. }
  assert (HxS : In x (survivors g censor)).
  { apply H2. apply in_concat. exists (map fst p). split; auto. }
  assert (HwS : In w (survivors g censor)) by (eapply rnext_target; eauto).
  assert (Hwn : wnext g1 (survivors g censor) x (sd d) = Some (w, sd t)).
  { unfold RecompressProofs.wnext. rewrite (proj2 (mem_nat_In x _) HxS), ds_sd, Hn. reflexivity. }
  apply (compress_maximal nat Nat.eq_dec (wnext g1 (survivors g censor)) (wnext_sym D join K stranded join_sym g1 _ W)
            (survivors g censor) (seq 0 (length g)) (survivors g censor) (survivors_nodup g censor))
    with (N := map fst p) (x := x) (s := sd d) (t := sd t); auto.
  - intros y Hy. apply survivors_spec in Hy. apply in_seq. lia.
  - intros y s z u Hy _ Hz. exact Hz.
Qed.

(* C09 no dangling extension: holds for whatever compress_graph returns (no hypothesis on the input) *)
Lemma fix_exts_no_dangling (g2 out : graph) :
  fix_exts D K stranded g2 None = Some out -> no_dangling D K stranded out.
Proof.
  intros Hf i n d b Hn Hb Hh.
  destruct (fix_exts_spec D K stranded g2 None) as (out' & Ho & Hlen & Hseq & Hsp).
  assert (out' = out) by congruence. subst out'.
  assert (Hi : (i < length g2)%nat) by (rewrite <- Hlen; apply nth_error_Some; congruence).
  destruct (nth_error g2 i) as [n2|] eqn:E2; [|apply nth_error_None in E2; lia].
  destruct (Hsp i n2 E2) as (e & He & _ & Hk). rewrite Hn in He. injection He as ->.
  cbn [n_exts n_seq fst snd] in *. rewrite (Hk d b Hb) in Hh. unfold keeps, ext_link in Hh. rewrite E2 in Hh.
  rewrite (find_link_seqs D K stranded g2 out _ _ Hseq).
  destruct (e_has_ext (n_exts D n2) (dirb d) b); [|discriminate].
  destruct (GraphModel.find_link D K stranded g2 _ d); [discriminate|discriminate].
Qed.

Theorem no_dangling_exts_ (g : graph) censor out paths :
  compress_graph_paths g censor = Some (out, paths) -> no_dangling D K stranded out.
Proof.
  unfold Recompress.compress_graph_paths. destruct (fix_exts D K stranded g _) as [g1|]; [|discriminate].
  destruct (rb_loop D reduce join K stranded g1 _ _) as [r|]; [|discriminate].
  destruct (fix_exts D K stranded (map fst r) None) as [o|] eqn:E; [|discriminate].
  intro H. injection H as <- _. eapply fix_exts_no_dangling; eauto.
Qed.

(* what every result node is: the spelling of its node path, the fold of the payloads, and extensions among the
   terminal extensions of the two end nodes (oriented) *)
Definition node_of_path (g1 : graph) (n : gnode) (p : list (nat * dir)) : Prop :=
  exists lp seed rp n0, p = assemble lp seed rp /\ built D reduce K g1 n0 lp seed rp /\
    Linked D join K stranded g1 p /\ NoDup (map fst p) /\
    n_seq D n = n_seq D n0 /\ n_data D n = n_data D n0 /\ n_exts D n < 256 /\
    forall d b, In b bases4 -> e_has_ext (n_exts D n) (dirb d) b = true -> e_has_ext (n_exts D n0) (dirb d) b = true.

Theorem recompress_nodes (g : graph) censor out paths :
  rvalid D K stranded g -> compress_graph_paths g censor = Some (out, paths) ->
  exists g1, restrict D K stranded g (survivors g censor) = Some g1 /\ Forall2 (node_of_path g1) out paths.
Proof.
  intros V H. destruct (recompress_refines_walk_ g censor V) as (g1 & out' & r & Hg1 & W & Hc & Hok & Hp).
  rewrite Hc in H. injection H as <- <-. exists g1. split; auto.
  destruct Hp as (Hlen & _ & Hsp). apply Forall2_nth_intro.
  - rewrite Hlen, !map_length. reflexivity.
  - intros i n p Hn Hpi.
    destruct (nth_error r i) as [[n0 p0]|] eqn:Er.
    2:{ rewrite nth_error_map, Er in Hpi. discriminate. }
    rewrite nth_error_map, Er in Hpi. cbn in Hpi. injection Hpi as <-.
    destruct (Forall2_nth_elim _ _ _ _ _ Hok Er) as (N & _ & _ & lp & seed & rp & Hp0 & Hb & HLk & HNd & HSub). cbn [fst snd] in *.
    assert (Hn0 : nth_error (map fst r) i = Some n0) by (rewrite nth_error_map, Er; reflexivity).
    destruct (Hsp i n0 Hn0) as (e & He & Hlt & Hk). rewrite Hn in He. injection He as ->.
    exists lp, seed, rp, n0. split; [exact Hp0|]. split; [exact Hb|]. split; [exact HLk|]. split; [exact HNd|].
    split; [reflexivity|].
    split; [reflexivity|]. split; [exact Hlt|]. intros d b Hb' Hh. cbn [n_exts fst snd] in Hh.
    rewrite (Hk d b Hb') in Hh. unfold keeps, ext_link in Hh. rewrite Hn0 in Hh.
    destruct (e_has_ext (n_exts D n0) (dirb d) b); [reflexivity | discriminate].
Qed.
Lemma Forall2_impl_ {A B} (P Q : A -> B -> Prop) l l' :
  (forall a b, P a b -> Q a b) -> Forall2 P l l' -> Forall2 Q l l'.
Proof. intros H. induction 1; constructor; auto. Qed.
Lemma Forall2_Forall_l {A B} (P : A -> B -> Prop) (Q : A -> Prop) l l' :
  Forall2 P l l' -> (forall a b, In b l' -> P a b -> Q a) -> Forall Q l.
Proof.
  induction 1 as [|a b l l' Hab H IH]; intro HQ; constructor.
  - apply (HQ a b); [now left | exact Hab].
  - apply IH. intros x y Hy. apply HQ. now right.
Qed.

(* the model's output satisfies the Prop decided by chk.c09.maximal (b) *)
Theorem recompress_merged_ok (g : graph) censor out paths :
  rvalid D K stranded g -> compress_graph_paths g censor = Some (out, paths) ->
  exists g1, restrict D K stranded g (survivors g censor) = Some g1 /\
             Forall (merged_ok D join K stranded g1 (survivors g censor)) out.
Proof.
  intros V H. destruct (recompress_nodes g censor out paths V H) as (g1 & Hg1 & HF).
  destruct (recompress_partition g censor out paths V H) as (_ & _ & Hcov).
  exists g1. split; auto. eapply Forall2_Forall_l; [exact HF|].
  intros n p Hp (lp & seed & rp & n0 & Hp0 & (Hsq & _) & HL & HN & Hs & _).
  exists p. rewrite Hs. split; [now rewrite Hp0|]. split; auto. split; auto.
  intros x Hx. apply survivors_spec. apply Hcov. apply in_concat. exists (map fst p). split; auto. now apply in_map.
Qed.

(* payload: the fold, in the order seed, left path, right path, of the caller's reduction *)
Theorem payload_fold_ (g : graph) censor out paths :
  rvalid D K stranded g -> compress_graph_paths g censor = Some (out, paths) ->
  exists g1, restrict D K stranded g (survivors g censor) = Some g1 /\
    Forall2 (fun n p => exists lp seed rp sd0 ds, p = assemble lp seed rp /\
               option_map (n_data D) (nth_error g1 seed) = Some sd0 /\
               datas D g1 (verts nat lp ++ verts nat rp) = Some ds /\
               n_data D n = fold_left reduce ds sd0) out paths.
Proof.
  intros V H. destruct (recompress_nodes g censor out paths V H) as (g1 & Hg1 & HF).
  exists g1. split; auto. eapply Forall2_impl_; [|exact HF].
  intros n p (lp & seed & rp & n0 & Hp0 & (_ & (sd0 & ds & H1 & H2 & H3) & _) & _ & _ & _ & Hd & _).
  exists lp, seed, rp, sd0, ds. rewrite Hd. auto.
Qed.
End Final.

Lemma nth_error_ext_ {A} (l l' : list A) : (forall i, nth_error l i = nth_error l' i) -> l = l'.
Proof.
  revert l'. induction l as [|a l IH]; intros [|b l'] H; auto.
  - specialize (H 0%nat). discriminate.
  - specialize (H 0%nat). discriminate.
  - f_equal; [specialize (H 0%nat); now injection H | apply IH; intro i; exact (H (Datatypes.S i))].
Qed.
