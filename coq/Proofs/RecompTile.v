(* C09 checkers: completeness of [node_path] (Check/RecompCheck.v), the greedy tiling of a result sequence by oriented
   input nodes, on the spelling of a path whose elements are found by [find_link] from their first k-mers. *)
From Coq Require Import NArith List Bool Arith Lia.
From DBG Require Import Spec.Dna Spec.GraphIndex Packed.ExtsModel Algo.Compress Algo.KmerHist Algo.GraphModel
  Algo.Recompress Spec.EdgeSpec Check.RecompCheck Proofs.ListFacts Proofs.DnaFacts Proofs.GraphQueryProofs
  Proofs.WalkProofs.
Import ListNotations.
Local Open Scope nat_scope.

Section Tile.
Variable D : Type.
Variable K : nat.
Variable stranded : bool.
Local Notation graph := (graph D).
Local Notation find_link := (GraphModel.find_link D K stranded).
Local Notation oseq := (oseq D).
Local Notation tile := (tile D K stranded).
Local Notation node_path := (node_path D K stranded).

(* the path element x is what find_link answers on the first k-mer of x's oriented sequence *)
Definition found (g : graph) (x : nat * dir) : Prop :=
  exists f, find_link g (first_kmer K (oseq g x)) DRight = Some (fst x, snd x, f).

Definition spell (g : graph) (p : list (nat * dir)) : dna :=
  match p with [] => [] | x :: r => oseq g x ++ glue K (map (oseq g) r) end.

Lemma oseq_oriented (g : graph) i d n : nth_error g i = Some n -> oriented D n d = oseq g (i, d).
Proof. intro E. unfold EdgeSpec.oseq, EdgeSpec.node_seq, oriented. cbn [fst snd]. rewrite E. now destruct d. Qed.

Lemma tile_complete (g : graph) : 1 <= K -> forall p fuel,
  p <> [] -> length p <= fuel ->
  (forall x, In x p -> fst x < length g /\ K <= length (oseq g x)) ->
  chain (seq_overlap K) (map (oseq g) p) ->
  (forall x, In x p -> found g x) ->
  tile fuel g (spell g p) = Some p.
Proof.
  intro HK. induction p as [|x r IH]; intros fuel Hne Hf Hin Hch Hfd; [congruence|].
  destruct fuel as [|fuel]; [cbn in Hf; lia|]. cbn [RecompCheck.tile spell].
  destruct (Hin x (or_introl eq_refl)) as [Hx Lx].
  assert (Hk : first_kmer K (oseq g x ++ glue K (map (oseq g) r)) = first_kmer K (oseq g x)).
  { rewrite !first_kmer_firstn. now apply firstn_app_le. }
  rewrite Hk. destruct (Hfd x (or_introl eq_refl)) as [f Hl]. rewrite Hl. destruct x as [i t]. cbn [fst snd] in *.
  destruct (nth_error g i) as [n|] eqn:En; [|apply nth_error_None in En; lia].
  rewrite (oseq_oriented g i t n En).
  destruct r as [|y r'].
  - cbn [map glue concat]. unfold glue. cbn [map concat]. rewrite app_nil_r, Nat.leb_refl. reflexivity.
  - destruct (Hin y (or_intror (or_introl eq_refl))) as [Hy Ly].
    cbn [map] in Hch. destruct Hch as [Ho Hch].
    unfold glue. cbn [map concat]. fold (glue K (map (oseq g) r')).
    assert (Hlen : Nat.leb (length (oseq g (i, t) ++ skipn (K - 1) (oseq g y) ++ glue K (map (oseq g) r')))
                           (length (oseq g (i, t))) = false).
    { apply Nat.leb_gt. rewrite !app_length, skipn_length. lia. }
    rewrite Hlen.
    assert (Hs : skipn (length (oseq g (i, t)) - (K - 1))
                   (oseq g (i, t) ++ skipn (K - 1) (oseq g y) ++ glue K (map (oseq g) r')) = spell g (y :: r')).
    { rewrite skipn_app_le by lia. replace (length (oseq g (i, t)) - (K - 1)) with (length (oseq g (i, t)) + 1 - K) by lia.
      unfold seq_overlap in Ho. rewrite Ho. cbn [spell]. rewrite app_assoc, firstn_skipn. reflexivity. }
    rewrite Hs. rewrite (IH fuel); [reflexivity | discriminate | cbn in Hf |- *; lia | | exact Hch |].
    + intros z Hz. apply Hin. now right.
    + intros z Hz. apply Hfd. now right.
Qed.

Lemma spell_length (g : graph) : 1 <= K -> forall p,
  (forall x, In x p -> K <= length (oseq g x)) -> length p <= length (spell g p).
Proof.
  intros HK [|x r] H; [cbn; lia|]. cbn [spell length]. rewrite app_length.
  assert (length r <= length (glue K (map (oseq g) r))).
  { rewrite <- (map_length (oseq g) r). clear - HK H. induction r as [|y r IH]; [cbn; lia|].
    unfold glue. cbn [map concat length]. fold (glue K (map (oseq g) r)). rewrite app_length, skipn_length.
    assert (K <= length (oseq g y)) by (apply H; right; now left).
    assert (length (map (oseq g) r) <= length (glue K (map (oseq g) r))).
    { apply IH. intros z [Hz|Hz]; apply H; [now left | right; now right]. }
    lia. }
  assert (K <= length (oseq g x)) by (apply H; now left). lia.
Qed.

Theorem node_path_complete (g : graph) p s : 1 <= K -> p <> [] ->
  (forall x, In x p -> fst x < length g /\ K <= length (oseq g x)) ->
  chain (seq_overlap K) (map (oseq g) p) ->
  (forall x, In x p -> found g x) ->
  sequence_of_path D K g p = Some s ->
  node_path g s = Some p.
Proof.
  intros HK Hne Hin Hch Hfd Hs.
  assert (E : s = spell g p).
  { destruct p as [|x r]; [congruence|]. rewrite seq_of_path_eq in Hs by (intros y Hy; now apply Hin).
    injection Hs as <-. reflexivity. }
  subst s. unfold RecompCheck.node_path.
  rewrite (tile_complete g HK p _ Hne); auto.
  - rewrite Hs. rewrite (proj2 (dna_eqb_eq _ _) eq_refl). reflexivity.
  - pose proof (spell_length g HK p (fun x Hx => proj2 (Hin x Hx))). lia.
Qed.
End Tile.
