(* C03: find_link, find_edges, edge overlap and symmetry, fix_exts, path spelling and max_path of
   Algo/GraphModel.v against Spec/EdgeSpec.v.  All statements are for every graph (list of nodes) and proved by
   induction / case analysis; the only sweeps are over the 2^8 extension bits (fix_exts). *)
From Coq Require Import NArith ZArith List Bool Arith Lia.
From DBG Require Import Spec.Dna Spec.GraphIndex Packed.ExtsModel Algo.Compress Algo.GraphModel Spec.EdgeSpec
  Proofs.ListFacts Proofs.DnaFacts.
Import ListNotations.
Local Open Scope nat_scope.

(* ------------------------------------------------------------------ lists *)
Lemma index_where_iff {A} (p : A -> bool) d : forall l i,
  index_where p l = Some i <-> i < length l /\ p (nth i l d) = true /\ forall j, j < i -> p (nth j l d) = false.
Proof.
  induction l as [|x l IH]; intros i; cbn [index_where].
  - split; [discriminate|]. cbn. intros [H _]. lia.
  - destruct (p x) eqn:P.
    + split.
      * intro H. inversion H; subst. cbn. split; [lia|]. split; [exact P|]. intros j Hj. lia.
      * intros [_ [_ H]]. destruct i as [|i]; [reflexivity|]. specialize (H 0 ltac:(lia)). cbn in H. congruence.
    + split.
      * destruct (index_where p l) as [j|] eqn:E; [|discriminate]. cbn. intro H. inversion H; subst.
        destruct (proj1 (IH j) eq_refl) as [H1 [H2 H3]]. cbn. split; [lia|]. split; [exact H2|].
        intros [|k] Hk; [exact P|]. apply H3. lia.
      * intros [H1 [H2 H3]]. destruct i as [|i]; [cbn in H2; congruence|]. cbn in H1, H2.
        assert (E : index_where p l = Some i).
        { apply IH. split; [lia|]. split; [exact H2|]. intros j Hj. apply (H3 (S j)). lia. }
        rewrite E. reflexivity.
Qed.
Lemma index_where_none_iff {A} (p : A -> bool) : forall l, index_where p l = None <-> forall x, In x l -> p x = false.
Proof.
  induction l as [|y l IH]; cbn [index_where].
  - split; auto. intros _ x [].
  - destruct (p y) eqn:P.
    + split; [discriminate|]. intro H. specialize (H y (or_introl eq_refl)). congruence.
    + destruct (index_where p l) eqn:E.
      * split; [discriminate|]. intro H. assert (N : Some n = None) by (apply IH; intros x Hx; apply H; now right).
        discriminate.
      * split; auto. intros _ x [<-|Hx]; auto. apply (proj1 IH eq_refl x Hx).
Qed.

Lemma dna_eqb_refl x : dna_eqb x x = true.
Proof. now apply dna_eqb_eq. Qed.
Lemma dna_eqb_false x y : dna_eqb x y = false <-> x <> y.
Proof. rewrite <- dna_eqb_eq. destruct (dna_eqb x y); split; congruence. Qed.

Lemma end_index_some ends x i : end_index ends x = Some i -> i < length ends /\ nth i ends [] = x.
Proof.
  unfold end_index. intro H. apply (index_where_iff _ []) in H as [H1 [H2 _]]. split; [exact H1|].
  apply dna_eqb_eq in H2. auto.
Qed.
Lemma end_index_none ends x : end_index ends x = None <-> ~ In x ends.
Proof.
  unfold end_index. rewrite index_where_none_iff. split.
  - intros H Hin. specialize (H x Hin). rewrite dna_eqb_refl in H. discriminate.
  - intros H y Hy. apply dna_eqb_false. congruence.
Qed.
Lemma end_index_nodup ends i : NoDup ends -> i < length ends -> end_index ends (nth i ends []) = Some i.
Proof.
  intros ND Hi. unfold end_index. apply (index_where_iff _ []). split; [exact Hi|]. split; [apply dna_eqb_refl|].
  intros j Hj. apply dna_eqb_false. intro E. rewrite NoDup_nth in ND. specialize (ND i j Hi ltac:(lia) E). lia.
Qed.

Lemma chain_app {A} (R : A -> A -> Prop) : forall l1 a l2, chain R (l1 ++ [a]) -> chain R (a :: l2) -> chain R (l1 ++ a :: l2).
Proof.
  induction l1 as [|x l1 IH]; intros a l2 H1 H2; [exact H2|].
  cbn [app] in *. destruct H1 as [H1 H1']. split; [|apply IH; auto].
  destruct l1; cbn [app] in *; exact H1.
Qed.
Lemma chain_rev {A} (R S : A -> A -> Prop) (f : A -> A) : (forall a b, R a b -> S (f b) (f a)) ->
  forall l, chain R l -> chain S (rev (map f l)).
Proof.
  intros H. induction l as [|a l IH]; intro C; [exact I|].
  destruct C as [C1 C2]. cbn [map rev]. destruct l as [|b l].
  - cbn. auto.
  - specialize (IH C2). cbn [map rev] in *.
    replace ((rev (map f l) ++ [f b]) ++ [f a]) with (rev (map f l) ++ f b :: [f a]) by (rewrite <- app_assoc; reflexivity).
    apply chain_app; [exact IH|]. cbn. auto.
Qed.

(* ------------------------------------------------------------------ k-mer algebra *)
Lemma wf_tl x : wf_dna x -> wf_dna (tl x).
Proof. destruct x; cbn; auto. intro H. now inversion H. Qed.
Lemma wf_removelast x : wf_dna x -> wf_dna (removelast x).
Proof.
  unfold wf_dna. rewrite !Forall_forall. intros H b Hb. apply H.
  destruct x as [|a x]; [destruct Hb|]. rewrite (app_removelast_last 0%N (l := a :: x)) by discriminate.
  apply in_or_app. now left.
Qed.
Lemma wf_app x y : wf_dna x -> wf_dna y -> wf_dna (x ++ y).
Proof. unfold wf_dna. intros. apply Forall_app. auto. Qed.
Lemma extend_length x b d : 1 <= length x -> length (extend x b d) = length x.
Proof.
  intro H. destruct d; unfold extend, extend_left, extend_right.
  - cbn [length]. destruct x as [|a x]; [cbn in H; lia|]. rewrite (app_removelast_last 0%N (l := a :: x)) at 2 by discriminate.
    rewrite app_length. cbn. lia.
  - rewrite app_length. destruct x; cbn in *; lia.
Qed.
Lemma extend_wf x b d : wf_dna x -> (b < 4)%N -> wf_dna (extend x b d).
Proof.
  intros W Hb. destruct d; unfold extend, extend_left, extend_right.
  - apply Forall_cons; [exact Hb|]. now apply wf_removelast.
  - apply wf_app; [now apply wf_tl|]. apply Forall_cons; [exact Hb|]. apply Forall_nil.
Qed.
Lemma removelast_snoc {A} (l : list A) a : removelast (l ++ [a]) = l.
Proof. apply removelast_last. Qed.
Lemma last_snoc {A} (l : list A) a d : last (l ++ [a]) d = a.
Proof. apply last_last. Qed.

(* extending back by the base that was dropped restores the k-mer *)
Lemma extend_back x b s : 1 <= length x ->
  extend (extend x b s) (back_base x s false) (dflip s) = x.
Proof.
  intro H. destruct x as [|a x]; [cbn in H; lia|]. destruct s; cbn [dflip extend back_base].
  - unfold extend_left, extend_right. cbn [tl]. symmetry. apply (app_removelast_last 0%N). discriminate.
  - unfold extend_left, extend_right. cbn [tl hd]. now rewrite removelast_snoc.
Qed.
Lemma rc_cons a x : rc (a :: x) = rc x ++ [comp a].
Proof. unfold rc. cbn. now rewrite map_app. Qed.
Lemma rc_snoc x a : rc (x ++ [a]) = comp a :: rc x.
Proof. now rewrite rc_app. Qed.
Lemma rc_tl x : rc (tl x) = removelast (rc x).
Proof. destruct x as [|a x]; [reflexivity|]. cbn [tl]. now rewrite rc_cons, removelast_snoc. Qed.
Lemma rc_removelast x : rc (removelast x) = tl (rc x).
Proof.
  destruct x as [|a x]; [reflexivity|]. rewrite (app_removelast_last 0%N (l := a :: x)) at 2 by discriminate.
  now rewrite rc_snoc.
Qed.
Lemma rc_extend x b s : rc (extend x b s) = extend (rc x) (comp b) (dflip s).
Proof.
  destruct s; cbn [extend dflip]; unfold extend_left, extend_right.
  - now rewrite rc_cons, rc_removelast.
  - now rewrite rc_snoc, rc_tl.
Qed.
Lemma rc_extend' x b s : extend (rc x) (comp b) s = rc (extend x b (dflip s)).
Proof. rewrite rc_extend. now destruct s. Qed.
Lemma rc_last x : 1 <= length x -> last (rc x) 0%N = comp (hd 0%N x).
Proof. destruct x as [|a x]; cbn [length]; [lia|]. intros _. now rewrite rc_cons, last_snoc. Qed.
Lemma rc_hd x : 1 <= length x -> hd 0%N (rc x) = comp (last x 0%N).
Proof.
  intro H. destruct x as [|a x]; [cbn in H; lia|]. rewrite (app_removelast_last 0%N (l := a :: x)) at 1 by discriminate.
  now rewrite rc_snoc.
Qed.
Lemma last_in {A} (l : list A) d : l <> [] -> In (last l d) l.
Proof.
  induction l as [|a l IH]; [congruence|]. intros _. destruct l as [|b l]; [now left|].
  right. apply IH. discriminate.
Qed.
Lemma back_base_lt x s f : wf_dna x -> 1 <= length x -> (back_base x s f < 4)%N.
Proof.
  intros W H. assert (A : (hd 0%N x < 4)%N /\ (last x 0%N < 4)%N).
  { unfold wf_dna in W. rewrite Forall_forall in W. destruct x as [|a x]; [cbn in H; lia|]. split.
    - apply W. now left.
    - apply W. apply last_in. discriminate. }
  unfold back_base. destruct s, f; try apply comp_lt4; tauto.
Qed.
Lemma in_bases b : In b bases <-> (b < 4)%N.
Proof.
  unfold bases. split.
  - intros [<-|[<-|[<-|[<-|[]]]]]; lia.
  - intro H. destruct b as [|[[p|p|]|[p|p|]|]]; cbn; auto 6; lia.
Qed.
Lemma back_base_flip x s : 1 <= length x -> wf_dna x ->
  back_base (rc x) (dflip s) false = back_base x s true.
Proof.
  intros H W. destruct s; cbn [back_base dflip].
  - now apply rc_hd.
  - now apply rc_last.
Qed.

(* terminal k-mers *)
Lemma first_kmer_firstn K s : first_kmer K s = firstn K s.
Proof. reflexivity. Qed.
Lemma kmer_at_ok K s i : wf_dna s -> i + K <= length s -> length (kmer_at K s i) = K /\ wf_dna (kmer_at K s i).
Proof.
  intros W L. split; [now apply sub_length|]. unfold kmer_at, sub, wf_dna in *. rewrite Forall_forall in *.
  intros x Hx. apply W. eapply in_skipn, in_firstn; eauto.
Qed.
Lemma term_kmer_ok K s d : wf_dna s -> K <= length s -> length (term_kmer K s d) = K /\ wf_dna (term_kmer K s d).
Proof. intros W L. destruct d; cbn [term_kmer]; unfold first_kmer, last_kmer; apply kmer_at_ok; auto; lia. Qed.
Lemma term_kmer_rc K s d : K <= length s -> term_kmer K (rc s) d = rc (term_kmer K s (dflip d)).
Proof.
  intro L. destruct d; cbn [term_kmer dflip]; unfold first_kmer, last_kmer.
  - rewrite kmer_at_rc by lia. f_equal. f_equal. lia.
  - rewrite rc_length. rewrite kmer_at_rc by lia. f_equal. f_equal. lia.
Qed.
Lemma term_kmer_single K s d : length s = K -> term_kmer K s d = s.
Proof.
  intro L. destruct d; cbn [term_kmer]; unfold first_kmer, last_kmer, kmer_at, sub.
  - cbn [skipn]. rewrite <- L. apply firstn_all.
  - rewrite L, Nat.sub_diag. cbn [skipn]. rewrite <- L. apply firstn_all.
Qed.

Lemma dir_eqb_refl s : dir_eqb s s = true.
Proof. now destruct s. Qed.
Lemma dir_eqb_flip s : dir_eqb s (dflip s) = false.
Proof. now destruct s. Qed.
Lemma dir_eqb_flip' s : dir_eqb (dflip s) s = false.
Proof. now destruct s. Qed.
Lemma dflip_invol s : dflip (dflip s) = s.
Proof. now destruct s. Qed.

Section Query.
Variable D : Type.
Variable K : nat.
Variable stranded : bool.
Local Notation graph := (graph D).
Local Notation find_link := (find_link D K stranded).
Local Notation node_seq := (node_seq D).
Local Notation node_exts := (node_exts D).
Local Notation edges_of := (edges_of D K stranded).
Local Notation end_is := (end_is D K).
Local Notation pal_single := (pal_single D K stranded).
Local Notation ends g side := (ends_of K (g_seqs D g) side).

(* ------------------------------------------------------------------ node ends *)
Lemma ends_length (g : graph) side : length (ends g side) = length g.
Proof. unfold ends_of, g_seqs. now rewrite !map_length. Qed.
Lemma ends_nth (g : graph) side i : i < length g -> nth i (ends g side) [] = term_kmer K (node_seq g i) side.
Proof.
  intro H. unfold node_seq. destruct (nth_error g i) as [n|] eqn:E; [|apply nth_error_None in E; lia].
  apply nth_error_nth. unfold ends_of, g_seqs. rewrite !nth_error_map, E. reflexivity.
Qed.
Lemma end_index_is (g : graph) side x i : end_index (ends g side) x = Some i -> end_is g i side x.
Proof.
  intro H. apply end_index_some in H as [H1 H2]. rewrite ends_length in H1. split; [exact H1|].
  now rewrite <- ends_nth.
Qed.
Lemma end_is_in (g : graph) side x i : end_is g i side x -> In x (ends g side).
Proof. intros [H1 H2]. rewrite <- H2, <- ends_nth by exact H1. apply nth_In. now rewrite ends_length. Qed.
Lemma end_index_none_is (g : graph) side x : end_index (ends g side) x = None <-> forall w, ~ end_is g w side x.
Proof.
  rewrite end_index_none. split.
  - intros H w Hw. apply H. eapply end_is_in; eauto.
  - intros H Hin. apply (In_nth _ _ []) in Hin as [i [Hi E]]. rewrite ends_length in Hi.
    apply (H i). split; [exact Hi|]. now rewrite <- ends_nth.
Qed.
Lemma end_index_none_is1 (g : graph) side x : end_index (ends g side) x = None -> forall w, ~ end_is g w side x.
Proof. apply end_index_none_is. Qed.
Lemma end_index_none_is2 (g : graph) side x : (forall w, ~ end_is g w side x) -> end_index (ends g side) x = None.
Proof. apply end_index_none_is. Qed.
Ltac noneis H := let N := fresh in pose proof (end_index_none_is1 _ _ _ H) as N; clear H; rename N into H.
Lemma end_index_unique (g : graph) side x i : NoDup (ends g side) -> end_is g i side x -> end_index (ends g side) x = Some i.
Proof.
  intros ND [H1 H2]. rewrite <- H2, <- ends_nth by exact H1. apply end_index_nodup; [exact ND|]. now rewrite ends_length.
Qed.

(* ------------------------------------------------------------------ find_link *)
(* what an answer means (no hypothesis on the graph): a direct hit on the facing end, else - unstranded only -
   the reverse complement on the same-side end *)
Theorem find_link_some (g : graph) x d v t f : find_link g x d = Some (v, t, f) ->
  (f = false /\ t = dflip d /\ end_is g v t x) \/
  (f = true /\ stranded = false /\ t = d /\ end_is g v t (rc x) /\ forall w, ~ end_is g w (dflip d) x).
Proof.
  unfold GraphModel.find_link, find_link_spec, find_link_ends. destruct d; cbn [dflip].
  - destruct (end_index (ends g DRight) x) as [i|] eqn:E1.
    + intro H; inversion H; subst. left. repeat split; try reflexivity; now apply end_index_is in E1 as [? ?].
    + destruct stranded; [discriminate|]. destruct (end_index (ends g DLeft) (rc x)) as [i|] eqn:E2; [|discriminate].
      intro H; inversion H; subst. right. repeat split; try reflexivity; try (now apply end_index_is in E2 as [? ?]).
      now apply end_index_none_is.
  - destruct (end_index (ends g DLeft) x) as [i|] eqn:E1.
    + intro H; inversion H; subst. left. repeat split; try reflexivity; now apply end_index_is in E1 as [? ?].
    + destruct stranded; [discriminate|]. destruct (end_index (ends g DRight) (rc x)) as [i|] eqn:E2; [|discriminate].
      intro H; inversion H; subst. right. repeat split; try reflexivity; try (now apply end_index_is in E2 as [? ?]).
      now apply end_index_none_is.
Qed.
Lemma find_link_direct (g : graph) x d v : NoDup (ends g (dflip d)) -> end_is g v (dflip d) x ->
  find_link g x d = Some (v, dflip d, false).
Proof.
  intros ND H. apply (end_index_unique _ _ _ _ ND) in H.
  unfold GraphModel.find_link, find_link_spec, find_link_ends. destruct d; cbn [dflip] in *; now rewrite H.
Qed.
Lemma find_link_rc (g : graph) x d v : stranded = false -> NoDup (ends g d) -> (forall w, ~ end_is g w (dflip d) x) ->
  end_is g v d (rc x) -> find_link g x d = Some (v, d, true).
Proof.
  intros St ND N H. apply (end_index_unique _ _ _ _ ND) in H. apply end_index_none_is2 in N.
  unfold GraphModel.find_link, find_link_spec, find_link_ends. rewrite St. destruct d; cbn [dflip] in *; now rewrite N, H.
Qed.
(* exact characterisation on graphs whose ends are distinct per index *)
Theorem find_link_iff (g : graph) x d v t f : NoDup (ends g DLeft) -> NoDup (ends g DRight) ->
  (find_link g x d = Some (v, t, f) <->
   (f = false /\ t = dflip d /\ end_is g v t x) \/
   (f = true /\ stranded = false /\ t = d /\ end_is g v t (rc x) /\ forall w, ~ end_is g w (dflip d) x)).
Proof.
  intros NL NR. assert (ND : forall s, NoDup (ends g s)) by (intros []; assumption). split; [apply find_link_some|].
  intros [[-> [-> H]]|[-> [St [-> [H N]]]]].
  - now apply find_link_direct.
  - now apply find_link_rc.
Qed.
Theorem find_link_none_iff (g : graph) x d :
  find_link g x d = None <->
  (forall w, ~ end_is g w (dflip d) x) /\ (stranded = false -> forall w, ~ end_is g w d (rc x)).
Proof.
  unfold GraphModel.find_link, find_link_spec, find_link_ends. destruct d; cbn [dflip].
  - destruct (end_index (ends g DRight) x) as [i|] eqn:E1.
    + split; [discriminate|]. intros [H _]. apply end_index_is in E1. now apply H in E1.
    + noneis E1. destruct stranded.
      * split; auto. intros _. split; [exact E1|discriminate].
      * destruct (end_index (ends g DLeft) (rc x)) as [i|] eqn:E2.
        -- split; [discriminate|]. intros [_ H]. apply end_index_is in E2. now apply (H eq_refl) in E2.
        -- noneis E2. split; auto.
  - destruct (end_index (ends g DLeft) x) as [i|] eqn:E1.
    + split; [discriminate|]. intros [H _]. apply end_index_is in E1. now apply H in E1.
    + noneis E1. destruct stranded.
      * split; auto. intros _. split; [exact E1|discriminate].
      * destruct (end_index (ends g DRight) (rc x)) as [i|] eqn:E2.
        -- split; [discriminate|]. intros [_ H]. apply end_index_is in E2. now apply (H eq_refl) in E2.
        -- noneis E2. split; auto.
Qed.
(* unstranded, the reverse complement of the query is node u's end on the query side: the answer is u with a
   flip, unless some node's facing end is the query itself *)
Lemma find_link_rc_or (g : graph) y s u : stranded = false -> NoDup (ends g DLeft) -> NoDup (ends g DRight) ->
  end_is g u s (rc y) ->
  find_link g y s = Some (u, s, true) \/ exists w, end_is g w (dflip s) y /\ find_link g y s = Some (w, dflip s, false).
Proof.
  intros St NL NR H. assert (ND : forall s, NoDup (ends g s)) by (intros []; assumption).
  destruct (end_index (ends g (dflip s)) y) as [w|] eqn:E.
  - right. exists w. apply end_index_is in E. split; [exact E|]. now apply find_link_direct.
  - left. noneis E. now apply find_link_rc.
Qed.

(* ------------------------------------------------------------------ find_edges *)
Lemma in_edges_of (g : graph) u s l : In l (edges_of g u s) <->
  u < length g /\ exists b, In b bases /\ e_has_ext (node_exts g u) (dirb s) b = true /\
                            find_link g (extend (term_kmer K (node_seq g u) s) b s) s = Some l.
Proof.
  unfold EdgeSpec.edges_of, find_edges, EdgeSpec.node_exts, EdgeSpec.node_seq.
  destruct (nth_error g u) as [n|] eqn:E.
  - assert (Hu : u < length g) by (apply nth_error_Some; congruence).
    rewrite in_flat_map. fold bases. split.
    + intros [b [Hb H]]. split; [exact Hu|]. exists b. split; [exact Hb|].
      destruct (e_has_ext (n_exts D n) (dirb s) b); [|destruct H]. split; [reflexivity|].
      destruct (GraphModel.find_link D K stranded g (extend (term_kmer K (n_seq D n) s) b s) s); [|destruct H].
      destruct H as [<-|[]]. reflexivity.
    + intros [_ [b [Hb [He Hl]]]]. exists b. split; [exact Hb|]. rewrite He, Hl. now left.
  - split; [intros []|]. intros [H _]. apply nth_error_None in E. lia.
Qed.
Lemma edges_of_Some (g : graph) u s : u < length g -> find_edges D K stranded g u s = Some (edges_of g u s).
Proof.
  intro H. unfold EdgeSpec.edges_of. destruct (find_edges D K stranded g u s) eqn:E; [reflexivity|].
  unfold find_edges in E. destruct (nth_error g u) eqn:E2; [discriminate|]. apply nth_error_None in E2. lia.
Qed.

Lemma node_seq_ok (g : graph) v : wf_graph D K g -> v < length g -> K <= length (node_seq g v) /\ wf_dna (node_seq g v).
Proof.
  intros [_ W] H. unfold EdgeSpec.node_seq. destruct (nth_error g v) as [n|] eqn:E; [|apply nth_error_None in E; lia].
  apply W. eapply nth_error_In; eauto.
Qed.
Lemma term_ok (g : graph) v d : wf_graph D K g -> v < length g ->
  length (term_kmer K (node_seq g v) d) = K /\ wf_dna (term_kmer K (node_seq g v) d).
Proof. intros W H. destruct (node_seq_ok g v W H). now apply term_kmer_ok. Qed.

Lemma out_kmer_eq (g : graph) u s : wf_graph D K g -> u < length g ->
  out_kmer D K g u s = match s with DRight => term_kmer K (node_seq g u) DRight | DLeft => rc (term_kmer K (node_seq g u) DLeft) end.
Proof.
  intros W H. destruct (node_seq_ok g u W H) as [L _]. unfold out_kmer, oseq. destruct s; cbn [dflip snd fst].
  - change (last_kmer K (rc (node_seq g u))) with (term_kmer K (rc (node_seq g u)) DRight). now rewrite term_kmer_rc.
  - reflexivity.
Qed.
Lemma in_kmer_eq (g : graph) v t : wf_graph D K g -> v < length g ->
  in_kmer D K g v t = match t with DLeft => term_kmer K (node_seq g v) DLeft | DRight => rc (term_kmer K (node_seq g v) DRight) end.
Proof.
  intros W H. destruct (node_seq_ok g v W H) as [L _]. unfold in_kmer, oseq. destruct t; cbn [snd fst].
  - reflexivity.
  - change (first_kmer K (rc (node_seq g v))) with (term_kmer K (rc (node_seq g v)) DLeft). now rewrite term_kmer_rc.
Qed.

(* every reported edge leads to the node whose entered k-mer overlaps the left k-mer by K-1 bases, with the
   reported arrival side and flip *)
Theorem edges_overlap (g : graph) u s l : wf_graph D K g -> In l (edges_of g u s) -> edge_ok D K stranded g u s l.
Proof.
  intros W Hin. apply in_edges_of in Hin as [Hu [b [Hb [He Hl]]]]. destruct l as [[v t] f].
  destruct (term_ok g u s W Hu) as [Lu Wu]. pose proof (proj1 W) as HK. apply in_bases in Hb.
  set (tu := term_kmer K (node_seq g u) s) in *.
  assert (Lx : length (extend tu b s) = K) by (rewrite extend_length; lia).
  assert (Wx : wf_dna (extend tu b s)) by (now apply extend_wf).
  assert (Hv : v < length g).
  { destruct (find_link_some _ _ _ _ _ _ Hl) as [[_ [_ [H _]]]|[_ [_ [_ [[H _] _]]]]]; exact H. }
  assert (Hc : exists c, (c < 4)%N /\
             e_has_ext (node_exts g u) (dirb s) (match s with DRight => c | DLeft => comp c end) = true /\
             in_kmer D K g v t = extend_right (out_kmer D K g u s) c).
  { rewrite in_kmer_eq, out_kmer_eq by assumption.
    destruct (find_link_some _ _ _ _ _ _ Hl) as [[-> [-> [_ Ev]]]|[-> [St [-> [[_ Ev] _]]]]].
    - destruct s; cbn [dflip] in *.
      + exists (comp b). split; [apply comp_lt4|]. rewrite comp_involutive by exact Hb. split; [exact He|].
        rewrite Ev. fold tu. change (extend_right (rc tu) (comp b)) with (extend (rc tu) (comp b) (dflip DLeft)).
        now rewrite <- rc_extend.
      + exists b. split; [exact Hb|]. split; [exact He|]. rewrite Ev. reflexivity.
    - destruct s.
      + exists (comp b). split; [apply comp_lt4|]. rewrite comp_involutive by exact Hb. split; [exact He|].
        rewrite Ev. fold tu. change (extend_right (rc tu) (comp b)) with (extend (rc tu) (comp b) (dflip DLeft)).
        now rewrite <- rc_extend.
      + exists b. split; [exact Hb|]. split; [exact He|]. rewrite Ev. rewrite rc_involutive by exact Wx. reflexivity. }
  split; [exact Hv|]. split; [exact Hc|]. split.
  - destruct Hc as [c [_ [_ ->]]]. unfold overlaps, extend_right. now rewrite removelast_snoc.
  - destruct (find_link_some _ _ _ _ _ _ Hl) as [[-> [-> _]]|[-> [St [-> _]]]].
    + split; [now rewrite dir_eqb_flip|reflexivity].
    + split; [now rewrite dir_eqb_refl|]. congruence.
Qed.

(* ------------------------------------------------------------------ symmetry *)
Lemma ends_nodup (g : graph) : ends_ok D K stranded g -> forall s, NoDup (ends g s).
Proof. intros [A [B _]] []; assumption. Qed.

Lemma pal_from_cross (g : graph) u w s : wf_graph D K g -> ends_ok D K stranded g -> stranded = false ->
  u < length g -> end_is g w (dflip s) (rc (term_kmer K (node_seq g u) s)) -> w = u /\ pal_single g u.
Proof.
  intros W [_ [_ X]] St Hu [Hw E]. destruct (X St u w s Hu Hw E) as [-> L]. split; [reflexivity|].
  split; [exact St|]. split; [exact Hu|]. split; [exact L|].
  rewrite !term_kmer_single in E by exact L. exact E.
Qed.

Theorem edges_symmetric (g : graph) : graph_ok D K stranded g -> edges_sym_on D K stranded g (edges_of g).
Proof.
  intros [W [EO S]] u s v t f Hu Hin. apply in_edges_of in Hin as [_ [b [Hb [He Hl]]]].
  pose proof (S u s b v t f Hu Hb He Hl) as Sy. cbn zeta in Sy.
  destruct (term_ok g u s W Hu) as [Lu Wu]. pose proof (proj1 W) as HK. apply in_bases in Hb.
  pose proof (ends_nodup g EO) as ND.
  set (tu := term_kmer K (node_seq g u) s) in *.
  assert (L1 : 1 <= length tu) by lia.
  assert (Lx : length (extend tu b s) = K) by (rewrite extend_length; lia).
  assert (Wx : wf_dna (extend tu b s)) by (now apply extend_wf).
  assert (Eu : end_is g u s tu) by (split; [exact Hu|reflexivity]).
  destruct (find_link_some _ _ _ _ _ _ Hl) as [[-> [-> Ev]]|[-> [St [-> [Ev Nx]]]]].
  - (* direct hit: v's facing end is the extended k-mer *)
    pose proof (proj1 Ev) as Hv. destruct Sy as [Hr|[Pv Hr]].
    + exists s, (dflip s), false. split; [|rewrite dir_eqb_flip'; auto].
      apply in_edges_of. split; [exact Hv|]. exists (back_base tu s false).
      split; [apply in_bases; now apply back_base_lt|]. split; [exact Hr|].
      rewrite (proj2 Ev), extend_back by exact L1.
      pose proof (find_link_direct g tu (dflip s) u) as F. rewrite dflip_invol in F. apply F; [apply ND|exact Eu].
    + (* v is a palindromic single k-mer and stores the return extension on its other side *)
      destruct Pv as [St [_ [Lv Pv]]]. rewrite dflip_invol in Hr.
      assert (Ex : node_seq g v = extend tu b s) by (rewrite <- (proj2 Ev); symmetry; now apply term_kmer_single).
      assert (Ey : extend (term_kmer K (node_seq g v) s) (comp (back_base tu s false)) s = rc tu).
      { rewrite term_kmer_single by exact Lv. rewrite Pv, Ex.
        rewrite rc_extend'. f_equal. now apply extend_back. }
      assert (PV : pal_single g v) by (split; [exact St|]; split; [exact Hv|]; split; assumption).
      assert (Hbb : In (comp (back_base tu s false)) bases) by (apply in_bases, comp_lt4).
      destruct (find_link_rc_or g (rc tu) s u St (ND DLeft) (ND DRight)) as [F|[w [Ew F]]].
      * now rewrite rc_involutive by exact Wu.
      * exists s, s, true. split; [|rewrite dir_eqb_refl; auto].
        apply in_edges_of. split; [exact Hv|]. exists (comp (back_base tu s false)). rewrite Ey. auto.
      * destruct (pal_from_cross g u w s W EO St Hu Ew) as [-> PU].
        exists (dflip s), s, false. split; [|rewrite dir_eqb_flip; auto].
        apply in_edges_of. split; [exact Hv|]. exists (comp (back_base tu s false)). rewrite Ey. auto.
  - (* hit through the reverse complement: v's same-side end is rc of the extended k-mer *)
    pose proof (proj1 Ev) as Hv. destruct Sy as [Hr|[Pv Hr]].
    + assert (Ey : extend (term_kmer K (node_seq g v) s) (back_base tu s true) s = rc tu).
      { rewrite (proj2 Ev), rc_extend. rewrite <- back_base_flip by assumption.
        pose proof (extend_back (rc tu) (comp b) (dflip s)) as B. rewrite dflip_invol in B. apply B.
        rewrite rc_length. exact L1. }
      assert (Hbb : In (back_base tu s true) bases) by (apply in_bases; now apply back_base_lt).
      destruct (find_link_rc_or g (rc tu) s u St (ND DLeft) (ND DRight)) as [F|[w [Ew F]]].
      * now rewrite rc_involutive by exact Wu.
      * exists s, s, true. split; [|rewrite dir_eqb_refl; auto].
        apply in_edges_of. split; [exact Hv|]. exists (back_base tu s true). rewrite Ey. auto.
      * destruct (pal_from_cross g u w s W EO St Hu Ew) as [-> PU].
        exists (dflip s), s, false. split; [|rewrite dir_eqb_flip; auto].
        apply in_edges_of. split; [exact Hv|]. exists (back_base tu s true). rewrite Ey. auto.
    + (* impossible: a palindromic single k-mer would have been hit directly *)
      exfalso. destruct Pv as [_ [_ [Lv Pv]]]. apply (Nx v). split; [exact Hv|].
      rewrite term_kmer_single by exact Lv.
      assert (E : node_seq g v = rc (extend tu b s)) by (rewrite <- (proj2 Ev); symmetry; now apply term_kmer_single).
      rewrite Pv, E. now apply rc_involutive.
Qed.
End Query.
