(* C20, JSON half: the token list written by to_json_rest is well-formed and denotes the nodes and the
   right-going links - for every graph (empty, single node, link-free included) and every `rest`.
   Induction over the node list with the writer's separator state as the invariant. *)
From Coq Require Import NArith List Bool Arith Lia String.
From DBG Require Import Spec.Dna Spec.GraphIndex Spec.ExportSpec Algo.GraphModel Algo.Json Algo.Export Proofs.JsonProofs.
Import ListNotations.
Local Open Scope nat_scope.

Section J.
Variable D : Type.
Variable K : nat.
Variable stranded : bool.
Variable fmt : D -> jtree.
Variable render : jtree -> list token.
Hypothesis render_ok : forall t, parses (render t) t.
Notation graph := (graph D).
Notation gnode := (gnode D).
Notation edges := (edges D K stranded).

Lemma member_tokens_pair k c : member_tokens (k, c) = STR k :: COLON :: c.
Proof. reflexivity. Qed.

(* ---- nodes *)
Fixpoint node_chunks (k start : nat) (ns : list gnode) : list (list token) :=
  match ns with
  | [] => []
  | n :: r => node_json D fmt render k start n :: node_chunks (S k) (start + List.length (n_seq D n)) r
  end.

Lemma nodes_loop_join ns : forall k st,
  nodes_loop D fmt render (k + List.length ns) st (combine (seq k (List.length ns)) ns) = sepjoin (node_chunks k st ns).
Proof.
  induction ns as [|n r IH]; intros k st; [reflexivity|].
  cbn [List.length seq combine nodes_loop node_chunks sepjoin].
  destruct r as [|n' r'].
  - cbn [List.length seq combine nodes_loop node_chunks flat_map].
    replace (k =? k + 1 - 1) with true by (symmetry; apply Nat.eqb_eq; lia). reflexivity.
  - replace (k =? k + S (List.length (n' :: r')) - 1) with false by (symmetry; apply Nat.eqb_neq; cbn [List.length]; lia).
    replace (k + S (List.length (n' :: r'))) with (S k + List.length (n' :: r')) by lia.
    rewrite IH. reflexivity.
Qed.

Lemma node_json_parses k st n :
  parses (node_json D fmt render k st n)
         (JObj [(bs "id", JStr (dec k)); (bs "L", JNum (N.of_nat (List.length (n_seq D n))));
                (bs "D", fmt (n_data D n)); (bs "Se", JStr (se_bytes st (n_seq D n)))]).
Proof.
  assert (E : node_json D fmt render k st n =
    obj_tokens [(bs "id", [STR (dec k)]); (bs "L", [NUM (N.of_nat (List.length (n_seq D n)))]);
                (bs "D", render (fmt (n_data D n))); (bs "Se", [STR (se_bytes st (n_seq D n))])]).
  { unfold node_json, obj_tokens. cbn [map sepjoin flat_map]. rewrite !member_tokens_pair. cbn [app].
    repeat (rewrite <- app_assoc; cbn [app]). reflexivity. }
  rewrite E. apply parses_obj. repeat constructor; cbn [fst snd]; auto using parses_str, parses_num.
Qed.

Lemma node_chunks_parse ns : forall k st,
  Forall2 parses (node_chunks k st ns) (node_trees D fmt st (combine (seq k (List.length ns)) ns)).
Proof.
  induction ns as [|n r IH]; intros k st; cbn [node_chunks List.length seq combine node_trees]; constructor.
  - apply node_json_parses.
  - apply IH.
Qed.

(* ---- links *)
Lemma edges_loop_join id es : forall idx,
  edges_loop id (idx + List.length es) idx es = sepjoin (map (link_json id) es).
Proof.
  induction es as [|e r IH]; intros idx; [reflexivity|].
  cbn [edges_loop map sepjoin List.length].
  destruct r as [|e' r'].
  - cbn [List.length edges_loop map flat_map]. replace (idx <? idx + 1 - 1) with false by (symmetry; apply Nat.ltb_ge; lia).
    reflexivity.
  - replace (idx <? idx + S (List.length (e' :: r')) - 1) with true by (symmetry; apply Nat.ltb_lt; cbn [List.length]; lia).
    replace (idx + S (List.length (e' :: r'))) with (S idx + List.length (e' :: r')) by lia.
    rewrite IH. reflexivity.
Qed.

Lemma edges_to_json_join g id : edges_to_json D K stranded g id = sepjoin (map (link_json id) (edges g id DRight)).
Proof. unfold edges_to_json. apply (edges_loop_join id (edges g id DRight) 0). Qed.

Definition link_chunks (g : graph) (ids : list nat) : list (list token) :=
  flat_map (fun i => map (link_json i) (edges g i DRight)) ids.
(* the separator state: [wrote_any] = a group has been written, so whatever comes next is preceded by "," *)
Definition pre (w : bool) (cs : list (list token)) : list token :=
  if w then flat_map (fun x => COMMA :: x) cs else sepjoin cs.

Lemma links_loop_join g ids : forall w, links_loop D K stranded g w ids = pre w (link_chunks g ids).
Proof.
  induction ids as [|i r IH]; intros w.
  - destruct w; reflexivity.
  - cbn [links_loop link_chunks flat_map]. fold (link_chunks g r).
    rewrite edges_to_json_join.
    destruct (edges g i DRight) as [|e es] eqn:E; cbn [is_empty map app].
    + apply IH.
    + rewrite IH. cbn [sepjoin pre]. destruct w; cbn [pre flat_map sepjoin app].
      * rewrite flat_map_app, <- !app_assoc. reflexivity.
      * rewrite flat_map_app, <- !app_assoc. reflexivity.
Qed.

Lemma link_json_parses id e : parses (link_json id e) (link_tree id e).
Proof.
  change (link_json id e) with
    (obj_tokens [(bs "source", [STR (dec id)]); (bs "target", [STR (dec (fst (fst e)))]);
                 (bs "D", [STR (match snd (fst e) with DLeft => bs "L" | DRight => bs "R" end)])]).
  apply parses_obj. repeat constructor; cbn [fst snd]; auto using parses_str.
Qed.

Lemma link_chunks_parse g ids :
  Forall2 parses (link_chunks g ids) (flat_map (fun i => map (link_tree i) (edges g i DRight)) ids).
Proof.
  induction ids as [|i r IH]; cbn [link_chunks flat_map]; [constructor|].
  apply Forall2_app; [|exact IH].
  induction (edges g i DRight) as [|e es IHe]; cbn [map]; constructor; auto using link_json_parses.
Qed.

(* ---- the whole object *)
Definition rest_members (rest : list (list N * jtree)) : list (list N * list token) :=
  map (fun kv => (fst kv, render (snd kv))) rest.

Lemma rest_json_join rest :
  rest_json render rest = flat_map (fun x => COMMA :: x) (map member_tokens (rest_members rest)).
Proof.
  unfold rest_json, rest_members. induction rest as [|kv r IH]; [reflexivity|].
  cbn [flat_map map]. rewrite IH, member_tokens_pair. cbn [fst snd app]. reflexivity.
Qed.

Lemma to_json_rest_obj g rest :
  to_json_rest D K stranded fmt render g rest =
  obj_tokens ((bs "nodes", arr_tokens (node_chunks 0 0 g)) ::
              (bs "links", arr_tokens (link_chunks g (seq 0 (List.length g)))) :: rest_members rest).
Proof.
  unfold to_json_rest, to_json_with, indexed.
  pose proof (nodes_loop_join g 0 0) as En. cbn [plus] in En. rewrite En, links_loop_join, rest_json_join.
  unfold obj_tokens, arr_tokens, pre. cbn [map sepjoin flat_map].
  rewrite !member_tokens_pair. cbn [app]. repeat (rewrite <- app_assoc; cbn [app]). reflexivity.
Qed.

Theorem json_wellformed (g : graph) (rest : list (list N * jtree)) :
  parse_json (to_json_rest D K stranded fmt render g rest) = Some (json_tree D K stranded fmt g rest).
Proof.
  apply parses_json. rewrite to_json_rest_obj. unfold json_tree. apply parses_obj.
  constructor; [|constructor].
  - cbn [fst snd]. split; [reflexivity|]. apply parses_arr. apply (node_chunks_parse g 0 0).
  - cbn [fst snd]. split; [reflexivity|]. apply parses_arr. apply link_chunks_parse.
  - induction rest as [|kv r IH]; cbn [rest_members map]; constructor; auto.
    cbn [fst snd]. split; [reflexivity|apply render_ok].
Qed.

Corollary to_json_wellformed (g : graph) :
  parse_json (to_json D K stranded fmt render g) = Some (json_tree D K stranded fmt g []).
Proof. apply json_wellformed. Qed.

(* what the tree lists: one entry per node, in order, with its id, length, data *)
Lemma node_trees_length ns : forall k st, List.length (node_trees D fmt st (combine (seq k (List.length ns)) ns)) = List.length ns.
Proof. induction ns as [|n r IH]; intros k st; cbn [List.length seq combine node_trees]; [reflexivity|]. now rewrite IH. Qed.

Lemma node_trees_nth ns : forall k st i n, nth_error ns i = Some n ->
  exists st', nth_error (node_trees D fmt st (combine (seq k (List.length ns)) ns)) i =
    Some (JObj [(bs "id", JStr (dec (k + i))); (bs "L", JNum (N.of_nat (List.length (n_seq D n))));
                (bs "D", fmt (n_data D n)); (bs "Se", JStr (se_bytes st' (n_seq D n)))]).
Proof.
  induction ns as [|m r IH]; intros k st i n H; [destruct i; discriminate|].
  destruct i as [|i]; cbn [List.length seq combine node_trees nth_error] in *.
  - inversion H; subst. exists st. now rewrite Nat.add_0_r.
  - destruct (IH (S k) (st + List.length (n_seq D m)) i n H) as [st' E]. exists st'. rewrite E.
    now replace (S k + i) with (k + S i) by lia.
Qed.

Theorem json_nodes_listed (g : graph) rest :
  exists nodes links, json_tree D K stranded fmt g rest = JObj ((bs "nodes", JArr nodes) :: (bs "links", JArr links) :: rest) /\
    List.length nodes = List.length g /\
    (forall i n, nth_error g i = Some n -> exists se,
       nth_error nodes i = Some (JObj [(bs "id", JStr (dec i)); (bs "L", JNum (N.of_nat (List.length (n_seq D n))));
                                       (bs "D", fmt (n_data D n)); (bs "Se", JStr se)]) /\
       ((N.of_nat (List.length (n_seq D n)) < Gen.SourceConsts.slice_debug_limit)%N -> se = text (n_seq D n))) /\
    links = flat_map (fun i => map (link_tree i) (edges g i DRight)) (seq 0 (List.length g)).
Proof.
  eexists _, _. split; [reflexivity|]. split; [apply (node_trees_length g 0 0)|]. split; [|reflexivity].
  intros i n H. destruct (node_trees_nth g 0 0 i n H) as [st' E]. eexists. split; [exact E|].
  intros Hl. unfold se_bytes. apply N.ltb_lt in Hl. now rewrite Hl.
Qed.
End J.
