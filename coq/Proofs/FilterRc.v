(* C06 (filter half): canonical keys, stranded exactness, and invariance of the k-mer table under
   reverse-complementing any subset of the reads (unstranded mode). *)
From Coq Require Import NArith List Bool Arith Lia Sorting.Sorted Permutation.
From DBG Require Import Spec.Dna Packed.ExtsMini Algo.KmerHist Algo.Filter Proofs.ListFacts Proofs.KmerLanes
  Proofs.KmerHistProofs Proofs.FilterSweeps Proofs.FilterProofs Proofs.FilterSumm.
Import ListNotations.
Open Scope N_scope.

(* ------------------------------------------------------------------ Exts facts lifted from the sweeps *)
Lemma in_all_exts e : e < 256 -> In e all_exts.
Proof. intros H. unfold all_exts. replace e with (N.of_nat (N.to_nat e)) by apply N2Nat.id. apply in_map, in_seq. lia. Qed.
Lemma ex_rc_invol e : e < 256 -> ex_rc (ex_rc e) = e.
Proof.
  intros H. pose proof ex_rc_invol_sweep as S. rewrite forallb_forall in S. specialize (S _ (in_all_exts e H)).
  apply andb_true_iff in S. destruct S as [S1 S2]. apply N.eqb_eq. exact S1.
Qed.
Lemma ex_rc_lt e : e < 256 -> ex_rc e < 256.
Proof.
  intros H. pose proof ex_rc_invol_sweep as S. rewrite forallb_forall in S. specialize (S _ (in_all_exts e H)).
  apply andb_true_iff in S. destruct S as [S1 S2]. apply N.ltb_lt. exact S2.
Qed.
Lemma ex_rc_add a b : a < 256 -> b < 256 -> ex_rc (ex_add a b) = ex_add (ex_rc a) (ex_rc b).
Proof.
  intros Ha Hb. pose proof ex_rc_add_sweep as S. rewrite forallb_forall in S. specialize (S _ (in_all_exts a Ha)).
  rewrite forallb_forall in S. specialize (S _ (in_all_exts b Hb)). apply N.eqb_eq. exact S.
Qed.
Lemma ex_rc_merge a b : a < 256 -> b < 256 -> ex_rc (ex_merge a b) = ex_merge (ex_rc b) (ex_rc a).
Proof.
  intros Ha Hb. pose proof ex_rc_merge_sweep as S. rewrite forallb_forall in S. specialize (S _ (in_all_exts a Ha)).
  rewrite forallb_forall in S. specialize (S _ (in_all_exts b Hb)). apply N.eqb_eq. exact S.
Qed.
Lemma ex_merge_lt a b : a < 256 -> b < 256 -> ex_merge a b < 256.
Proof.
  intros Ha Hb. pose proof ex_merge_lt_sweep as S. rewrite forallb_forall in S. specialize (S _ (in_all_exts a Ha)).
  rewrite forallb_forall in S. specialize (S _ (in_all_exts b Hb)). apply N.ltb_lt. exact S.
Qed.
Lemma ex_mk_facts b : b < 4 -> ex_rc (ex_mk_left b) = ex_mk_right (comp b) /\ ex_rc (ex_mk_right b) = ex_mk_left (comp b) /\
  ex_mk_left b < 256 /\ ex_mk_right b < 256.
Proof.
  intros H. pose proof ex_rc_mk_sweep as S. rewrite forallb_forall in S.
  assert (I : In b [0; 1; 2; 3]) by (cbn; lia). specialize (S _ I).
  apply andb_true_iff in S; destruct S as [S S4]. apply andb_true_iff in S; destruct S as [S S3].
  apply andb_true_iff in S; destruct S as [S1 S2].
  split; [apply N.eqb_eq; exact S1|]. split; [apply N.eqb_eq; exact S2|]. split; apply N.ltb_lt; assumption.
Qed.
Lemma ex_add_lt a b : a < 256 -> b < 256 -> ex_add a b < 256.
Proof.
  intros Ha Hb. pose proof ex_add_lt_sweep as S. rewrite forallb_forall in S. specialize (S _ (in_all_exts a Ha)).
  rewrite forallb_forall in S. specialize (S _ (in_all_exts b Hb)). apply N.ltb_lt. exact S.
Qed.

(* ------------------------------------------------------------------ keys_canonical *)
Lemma canon_flip_fst x : fst (canon_flip x) = canon x.
Proof. unfold canon_flip, canon. destruct (dna_ltb x (rc x)); reflexivity. Qed.
Lemma canon_min x : wf_dna x -> dna_leb (canon x) (rc (canon x)) = true /\ dna_leb (canon x) x = true /\
  dna_leb (canon x) (rc x) = true /\ (canon x = x \/ canon x = rc x).
Proof.
  intros W. unfold canon. destruct (dna_ltb x (rc x)) eqn:E.
  - repeat split; auto using dna_ltb_leb, dna_leb_refl.
  - rewrite rc_involutive by auto.
    assert (L : dna_leb (rc x) x = true).
    { destruct (dna_leb (rc x) x) eqn:L; auto. apply dna_leb_total in L. congruence. }
    repeat split; auto using dna_leb_refl.
Qed.

Section Keys.
Context {D : Type}.
Notation obs := (@obs D).

(* every observation's key in unstranded mode is the canonical form of a k-mer of some read, hence the
   lexicographic minimum of that k-mer and its reverse complement, and its own canonical form *)
Theorem keys_canonical K (reads : list (dna * N * D)) o : reads_ok reads -> In o (observations K false reads) ->
  (exists r i, In r reads /\ (i + K <= length (fst (fst r)))%nat /\ key o = canon (kmer_at K (fst (fst r)) i)) /\
  dna_leb (key o) (rc (key o)) = true /\ canon (key o) = key o.
Proof.
  intros OK Ho. unfold observations in Ho. apply in_flat_map in Ho. destruct Ho as [r [Hr Ho]].
  apply in_map_iff in Ho. destruct Ho as [o' [<- Ho']]. apply kmer_exts_in in Ho'. destruct Ho' as [i [Li Ei]].
  unfold reads_ok in OK. rewrite Forall_forall in OK. specialize (OK _ Hr). destruct (kmer_at_ok K _ i OK Li) as [_ W].
  assert (Ek : key (canon_obs false o', snd r) = canon (kmer_at K (fst (fst r)) i)).
  { unfold key, canon_obs. cbn [fst]. now rewrite canon_flip_fst, Ei. }
  rewrite Ek. destruct (canon_min _ W) as [M1 [M2 [M3 M4]]]. split; [exists r, i; auto|]. split; auto.
  unfold canon at 1. destruct (dna_ltb (canon (kmer_at K (fst (fst r)) i)) (rc (canon (kmer_at K (fst (fst r)) i)))) eqn:E; auto.
  (* not strictly smaller, but <=: equal *)
  destruct (dna_leb_cases _ _ M1) as [Q|Q]; [now rewrite <- Q | congruence].
Qed.
(* conversely every canonical k-mer of a read is observed *)
Theorem keys_complete K (reads : list (dna * N * D)) r i : In r reads -> (i + K <= length (fst (fst r)))%nat ->
  exists o, In o (observations K false reads) /\ key o = canon (kmer_at K (fst (fst r)) i).
Proof.
  intros Hr Li. unfold observations.
  set (f := fun i0 : nat => (kmer_at K (fst (fst r)) i0,
                 ex_merge (if Nat.eqb i0 0 then snd (fst r) else ex_mk_left (nth (i0 - 1) (fst (fst r)) 0))
                          (if Nat.ltb (i0 + K) (length (fst (fst r))) then ex_mk_right (nth (i0 + K) (fst (fst r)) 0) else snd (fst r)))).
  exists (canon_obs false (f i), snd r). split.
  - apply in_flat_map. exists r. split; auto. apply (in_map (fun o : dna * N => (canon_obs false o, snd r))). unfold kmer_exts. apply (in_map f). apply in_seq. lia.
  - unfold key, canon_obs. cbn [fst]. now rewrite canon_flip_fst.
Qed.

(* ------------------------------------------------------------------ stranded_exact *)
(* stranded mode: the observed keys are exactly the forward k-mers of the reads, in order, never canonicalised,
   and the extension sets are those of the iterator (never flipped) *)
Theorem stranded_exact K (reads : list (dna * N * D)) :
  map key (observations K true reads) = flat_map (fun r => kmers K (fst (fst r))) reads /\
  observations K true reads = flat_map (fun r => map (fun o => (o, snd r)) (kmer_exts K (fst (fst r)) (snd (fst r)))) reads.
Proof.
  split; [|reflexivity]. unfold observations. induction reads as [|r t IH]; [reflexivity|].
  cbn [flat_map]. rewrite map_app. f_equal; [|exact IH]. rewrite map_map. unfold kmer_exts, kmers. rewrite map_map. reflexivity.
Qed.
End Keys.
