(* C06 (filter half): canonical keys, stranded exactness, and invariance of the k-mer table under
   reverse-complementing any subset of the reads (unstranded mode). *)
From Coq Require Import NArith List Bool Arith Lia Sorting.Sorted Permutation.
From DBG Require Import Spec.Dna Packed.ExtsMini Algo.KmerHist Algo.Filter Proofs.ListFacts Proofs.KmerLanes
  Proofs.KmerHistProofs Proofs.FilterSweeps Proofs.FilterProofs Proofs.FilterSumm.
Import ListNotations.
Open Scope N_scope.

(* ------------------------------------------------------------------ Exts facts lifted from the sweeps *)
Lemma in_all_exts e : e < 256 -> In e all_exts.
Proof. intros H. unfold all_exts. replace e with (N.of_nat (N.to_nat e)) by apply N2Nat.id. apply in_map, in_seq. lia. Qed.
Lemma ex_rc_invol e : e < 256 -> ex_rc (ex_rc e) = e.
Proof.
  intros H. pose proof ex_rc_invol_sweep as S. rewrite forallb_forall in S. specialize (S _ (in_all_exts e H)).
  apply andb_true_iff in S. destruct S as [S1 S2]. apply N.eqb_eq. exact S1.
Qed.
Lemma ex_rc_lt e : e < 256 -> ex_rc e < 256.
Proof.
  intros H. pose proof ex_rc_invol_sweep as S. rewrite forallb_forall in S. specialize (S _ (in_all_exts e H)).
  apply andb_true_iff in S. destruct S as [S1 S2]. apply N.ltb_lt. exact S2.
Qed.
Lemma ex_rc_add a b : a < 256 -> b < 256 -> ex_rc (ex_add a b) = ex_add (ex_rc a) (ex_rc b).
Proof.
  intros Ha Hb. pose proof ex_rc_add_sweep as S. rewrite forallb_forall in S. specialize (S _ (in_all_exts a Ha)).
  rewrite forallb_forall in S. specialize (S _ (in_all_exts b Hb)). apply N.eqb_eq. exact S.
Qed.
Lemma ex_rc_merge a b : a < 256 -> b < 256 -> ex_rc (ex_merge a b) = ex_merge (ex_rc b) (ex_rc a).
Proof.
  intros Ha Hb. pose proof ex_rc_merge_sweep as S. rewrite forallb_forall in S. specialize (S _ (in_all_exts a Ha)).
  rewrite forallb_forall in S. specialize (S _ (in_all_exts b Hb)). apply N.eqb_eq. exact S.
Qed.
Lemma ex_merge_lt a b : a < 256 -> b < 256 -> ex_merge a b < 256.
Proof.
  intros Ha Hb. pose proof ex_merge_lt_sweep as S. rewrite forallb_forall in S. specialize (S _ (in_all_exts a Ha)).
  rewrite forallb_forall in S. specialize (S _ (in_all_exts b Hb)). apply N.ltb_lt. exact S.
Qed.
Lemma ex_mk_facts b : b < 4 -> ex_rc (ex_mk_left b) = ex_mk_right (comp b) /\ ex_rc (ex_mk_right b) = ex_mk_left (comp b) /\
  ex_mk_left b < 256 /\ ex_mk_right b < 256.
Proof.
  intros H. pose proof ex_rc_mk_sweep as S. rewrite forallb_forall in S.
  assert (I : In b [0; 1; 2; 3]) by (cbn; lia). specialize (S _ I).
  apply andb_true_iff in S; destruct S as [S S4]. apply andb_true_iff in S; destruct S as [S S3].
  apply andb_true_iff in S; destruct S as [S1 S2].
  split; [apply N.eqb_eq; exact S1|]. split; [apply N.eqb_eq; exact S2|]. split; apply N.ltb_lt; assumption.
Qed.
Lemma ex_add_lt a b : a < 256 -> b < 256 -> ex_add a b < 256.
Proof.
  intros Ha Hb. pose proof ex_add_lt_sweep as S. rewrite forallb_forall in S. specialize (S _ (in_all_exts a Ha)).
  rewrite forallb_forall in S. specialize (S _ (in_all_exts b Hb)). apply N.ltb_lt. exact S.
Qed.

(* ------------------------------------------------------------------ keys_canonical *)
Lemma canon_flip_fst x : fst (canon_flip x) = canon x.
Proof. unfold canon_flip, canon. destruct (dna_ltb x (rc x)); reflexivity. Qed.
Lemma canon_min x : wf_dna x -> dna_leb (canon x) (rc (canon x)) = true /\ dna_leb (canon x) x = true /\
  dna_leb (canon x) (rc x) = true /\ (canon x = x \/ canon x = rc x).
Proof.
  intros W. unfold canon. destruct (dna_ltb x (rc x)) eqn:E.
  - repeat split; auto using dna_ltb_leb, dna_leb_refl.
  - rewrite rc_involutive by auto.
    assert (L : dna_leb (rc x) x = true).
    { destruct (dna_leb (rc x) x) eqn:L; auto. apply dna_leb_total in L. congruence. }
    repeat split; auto using dna_leb_refl.
Qed.

Section Keys.
Context {D : Type}.
Notation obs := (@obs D).

(* every observation's key in unstranded mode is the canonical form of a k-mer of some read, hence the
   lexicographic minimum of that k-mer and its reverse complement, and its own canonical form *)
Theorem keys_canonical K (reads : list (dna * N * D)) o : reads_ok reads -> In o (observations K false reads) ->
  (exists r i, In r reads /\ (i + K <= length (fst (fst r)))%nat /\ key o = canon (kmer_at K (fst (fst r)) i)) /\
  dna_leb (key o) (rc (key o)) = true /\ canon (key o) = key o.
Proof.
  intros OK Ho. unfold observations in Ho. apply in_flat_map in Ho. destruct Ho as [r [Hr Ho]].
  apply in_map_iff in Ho. destruct Ho as [o' [<- Ho']]. apply kmer_exts_in in Ho'. destruct Ho' as [i [Li Ei]].
  unfold reads_ok in OK. rewrite Forall_forall in OK. specialize (OK _ Hr). destruct (kmer_at_ok K _ i OK Li) as [_ W].
  assert (Ek : key (canon_obs false o', snd r) = canon (kmer_at K (fst (fst r)) i)).
  { unfold key, canon_obs. cbn [fst]. now rewrite canon_flip_fst, Ei. }
  rewrite Ek. destruct (canon_min _ W) as [M1 [M2 [M3 M4]]]. split; [exists r, i; auto|]. split; auto.
  unfold canon at 1. destruct (dna_ltb (canon (kmer_at K (fst (fst r)) i)) (rc (canon (kmer_at K (fst (fst r)) i)))) eqn:E; auto.
  (* not strictly smaller, but <=: equal *)
  destruct (dna_leb_cases _ _ M1) as [Q|Q]; [now rewrite <- Q | congruence].
Qed.
(* conversely every canonical k-mer of a read is observed *)
Theorem keys_complete K (reads : list (dna * N * D)) r i : In r reads -> (i + K <= length (fst (fst r)))%nat ->
  exists o, In o (observations K false reads) /\ key o = canon (kmer_at K (fst (fst r)) i).
Proof.
  intros Hr Li. unfold observations.
  set (f := fun i0 : nat => (kmer_at K (fst (fst r)) i0,
                 ex_merge (if Nat.eqb i0 0 then snd (fst r) else ex_mk_left (nth (i0 - 1) (fst (fst r)) 0))
                          (if Nat.ltb (i0 + K) (length (fst (fst r))) then ex_mk_right (nth (i0 + K) (fst (fst r)) 0) else snd (fst r)))).
  exists (canon_obs false (f i), snd r). split.
  - apply in_flat_map. exists r. split; auto. apply (in_map (fun o : dna * N => (canon_obs false o, snd r))). unfold kmer_exts. apply (in_map f). apply in_seq. lia.
  - unfold key, canon_obs. cbn [fst]. now rewrite canon_flip_fst.
Qed.

(* ------------------------------------------------------------------ stranded_exact *)
(* stranded mode: the observed keys are exactly the forward k-mers of the reads, in order, never canonicalised,
   and the extension sets are those of the iterator (never flipped) *)
Theorem stranded_exact K (reads : list (dna * N * D)) :
  map key (observations K true reads) = flat_map (fun r => kmers K (fst (fst r))) reads /\
  observations K true reads = flat_map (fun r => map (fun o => (o, snd r)) (kmer_exts K (fst (fst r)) (snd (fst r)))) reads.
Proof.
  split; [|reflexivity]. unfold observations. induction reads as [|r t IH]; [reflexivity|].
  cbn [flat_map]. rewrite map_app. f_equal; [|exact IH]. rewrite map_map. unfold kmer_exts, kmers. rewrite map_map. reflexivity.
Qed.
End Keys.

(* ------------------------------------------------------------------ filter_rc_invariant *)
Lemma rev_map_seq {A} (f : nat -> A) n : rev (map f (seq 0 n)) = map (fun i => f (n - 1 - i)%nat) (seq 0 n).
Proof.
  induction n as [|n IH]; [reflexivity|]. rewrite seq_S at 1. rewrite map_app, rev_app_distr. cbn [map rev app Nat.add].
  rewrite IH. cbn [seq map]. f_equal; [f_equal; lia|]. rewrite <- seq_shift, map_map. apply map_ext_in. intros i Hi.
  apply in_seq in Hi. f_equal. lia.
Qed.
Lemma Permutation_filter {A} (p : A -> bool) l l' : Permutation l l' -> Permutation (filter p l) (filter p l').
Proof.
  induction 1 as [|x l l' P IH|x y l|l l' l'' P1 IH1 P2 IH2]; cbn; auto.
  - destruct (p x); auto.
  - destruct (p x), (p y); auto. apply perm_swap.
  - eapply Permutation_trans; eauto.
Qed.
Lemma Forall2_in_r' {A B} (R : A -> B -> Prop) l l' y : Forall2 R l l' -> In y l' -> exists x, In x l /\ R x y.
Proof.
  induction 1 as [|a b l l' H F IH]; cbn; [tauto|]. intros [<-|Hy]; [exists a; auto|].
  destruct (IH Hy) as [x [Hx Rx]]. exists x; auto.
Qed.
Lemma Forall2_in_l' {A B} (R : A -> B -> Prop) l l' x : Forall2 R l l' -> In x l -> exists y, In y l' /\ R x y.
Proof.
  induction 1 as [|a b l l' H F IH]; cbn; [tauto|]. intros [<-|Hx]; [exists b; auto|].
  destruct (IH Hx) as [y [Hy Ry]]. exists y; auto.
Qed.
Lemma wf_nth_lt4 (s : dna) i : wf_dna s -> nth i s 0 < 4.
Proof.
  intros W. destruct (Nat.lt_ge_cases i (length s)) as [L|L].
  - unfold wf_dna in W. rewrite Forall_forall in W. apply W. now apply nth_In.
  - rewrite nth_overflow by lia. lia.
Qed.

(* what reverse-complementing does to one canonicalised observation: nothing, except that for a palindromic key
   the extension set comes out reverse-complemented *)
Definition pal_pair (c : dna * N) : dna * N := if is_palindrome (fst c) then (fst c, ex_rc (snd c)) else c.
Lemma canon_obs_rc (k : dna) x : wf_dna k -> x < 256 ->
  canon_obs false (rc k, ex_rc x) = pal_pair (canon_obs false (k, x)).
Proof.
  intros W Hx. unfold canon_obs, canon_flip, pal_pair, is_palindrome, dna_ltb, dna_eqb. cbn [fst snd].
  rewrite (rc_involutive k W). rewrite (dna_compare_antisym k (rc k)).
  destruct (dna_compare k (rc k)) eqn:E; cbn [CompOpp fst snd].
  - assert (R : rc k = k) by (symmetry; now apply dna_compare_eq). rewrite !R, dna_compare_refl. reflexivity.
  - rewrite E. now rewrite ex_rc_invol.
  - rewrite (rc_involutive k W), (dna_compare_antisym k (rc k)), E. reflexivity.
Qed.

Definition rc_item (o : dna * N) : dna * N := (rc (fst o), ex_rc (snd o)).
Lemma kmer_exts_rc K s e : (1 <= K)%nat -> wf_dna s -> e < 256 ->
  kmer_exts K (rc s) (ex_rc e) = rev (map rc_item (kmer_exts K s e)).
Proof.
  intros HK W He. unfold kmer_exts. rewrite map_map, rev_map_seq, rc_length. apply map_ext_in. intros i Hi.
  apply in_seq in Hi. set (n := (length s + 1 - K)%nat) in *. set (j := (n - 1 - i)%nat).
  assert (Hj : (j + K <= length s)%nat) by (subst j n; lia).
  unfold rc_item. cbn [fst snd]. f_equal.
  - rewrite kmer_at_rc by lia. f_equal. f_equal. subst j n. lia.
  - assert (B1 : forall p, ex_mk_left (nth p s 0) < 256) by (intros p; apply ex_mk_facts, wf_nth_lt4, W).
    assert (B2 : forall p, ex_mk_right (nth p s 0) < 256) by (intros p; apply ex_mk_facts, wf_nth_lt4, W).
    rewrite ex_rc_merge.
    2:{ destruct (Nat.eqb j 0); auto. }
    2:{ destruct (Nat.ltb (j + K) (length s)); auto. }
    f_equal.
    + destruct (Nat.eqb_spec i 0) as [Ei|Ei].
      * replace (Nat.ltb (j + K) (length s)) with false; [reflexivity|]. symmetry. apply Nat.ltb_ge. subst j n. lia.
      * replace (Nat.ltb (j + K) (length s)) with true by (symmetry; apply Nat.ltb_lt; subst j n; lia).
        rewrite rc_nth by lia. destruct (ex_mk_facts (nth (j + K) s 0) (wf_nth_lt4 s _ W)) as [_ [-> _]].
        f_equal. f_equal. f_equal. subst j n. lia.
    + destruct (Nat.ltb_spec (i + K) (length s)) as [L|L].
      * replace (Nat.eqb j 0) with false by (symmetry; apply Nat.eqb_neq; subst j n; lia).
        rewrite rc_nth by lia. destruct (ex_mk_facts (nth (j - 1) s 0) (wf_nth_lt4 s _ W)) as [-> _].
        f_equal. f_equal. f_equal. subst j n. lia.
      * replace (Nat.eqb j 0) with true; [reflexivity|]. symmetry. apply Nat.eqb_eq. subst j n. lia.
Qed.
Lemma kmer_exts_item_ok K s e o : wf_dna s -> e < 256 -> In o (kmer_exts K s e) -> wf_dna (fst o) /\ snd o < 256.
Proof.
  intros W He Ho. unfold kmer_exts in Ho. apply in_map_iff in Ho. destruct Ho as [i [<- Hi]]. apply in_seq in Hi. cbn [fst snd].
  split; [apply kmer_at_ok; auto; lia|].
  apply ex_merge_lt; [destruct (Nat.eqb i 0) | destruct (Nat.ltb (i + K) (length s))]; auto; apply ex_mk_facts, wf_nth_lt4, W.
Qed.

Section Rc.
Context {D : Type}.
Notation obs := (@obs D).
Definition pal_flip (o : obs) : obs := (pal_pair (fst o), snd o).
Definition rel1 (o o' : obs) : Prop := o' = o \/ o' = pal_flip o.
Definition read_ok (r : dna * N * D) : Prop := wf_dna (fst (fst r)) /\ snd (fst r) < 256.
Definition obs_read (K : nat) (r : dna * N * D) : list obs :=
  map (fun o => (canon_obs false o, snd r)) (kmer_exts K (fst (fst r)) (snd (fst r))).

Lemma pal_pair_key c : fst (pal_pair c) = fst c.
Proof. unfold pal_pair. destruct (is_palindrome (fst c)); reflexivity. Qed.
Lemma rel1_key o o' : rel1 o o' -> key o' = key o /\ olabel o' = olabel o.
Proof. intros [->| ->]; auto. unfold key, olabel, pal_flip. cbn [fst snd]. now rewrite pal_pair_key. Qed.

Lemma obs_read_flip K r : (1 <= K)%nat -> read_ok r -> obs_read K (flip_read true r) = rev (map pal_flip (obs_read K r)).
Proof.
  intros HK [W He]. unfold obs_read, flip_read. cbn [fst snd]. rewrite kmer_exts_rc by auto.
  rewrite <- map_rev. rewrite !map_map. rewrite <- map_rev. apply map_ext_in. intros o Ho. apply in_rev in Ho.
  destruct (kmer_exts_item_ok K _ _ o W He Ho) as [Wo Lo]. unfold pal_flip. cbn [fst snd]. f_equal.
  unfold rc_item. destruct o as [k x]. cbn [fst snd] in *. now apply canon_obs_rc.
Qed.

(* the observations of the flipped read set are, up to a permutation, those of the original read set with the
   extension sets of some palindromic observations reverse-complemented *)
Lemma observations_flip K (reads : list (dna * N * D)) : (1 <= K)%nat -> Forall read_ok reads -> forall fs,
  exists os'', Permutation (observations K false (flip_reads fs reads)) os'' /\ Forall2 rel1 (observations K false reads) os''.
Proof.
  intros HK. induction 1 as [|r t Hr Ht IH]; intros fs.
  - exists []. split; constructor.
  - destruct (IH (tl fs)) as [os'' [P F]]. cbn [flip_reads]. unfold observations in *. cbn [flat_map].
    fold (obs_read K r). fold (obs_read K (flip_read (hd false fs) r)).
    destruct (hd false fs).
    + exists (map pal_flip (obs_read K r) ++ os''). split.
      * apply Permutation_app; auto. rewrite obs_read_flip by auto. apply Permutation_sym, Permutation_rev.
      * apply Forall2_app; auto. clear. induction (obs_read K r); cbn; constructor; auto. now right.
    + exists (obs_read K r ++ os''). split.
      * apply Permutation_app; auto.
      * apply Forall2_app; auto. clear. induction (obs_read K r); cbn; constructor; auto. now left.
Qed.

Lemma rel1_filter k (l l' : list obs) : Forall2 rel1 l l' -> Forall2 rel1 (obs_of l k) (obs_of l' k).
Proof.
  induction 1 as [|o o' l l' R F IH]; cbn; [constructor|]. destruct (rel1_key _ _ R) as [-> _].
  destruct (dna_eqb (key o) k); auto.
Qed.
Lemma rel1_labels (l l' : list obs) : Forall2 rel1 l l' -> map olabel l' = map olabel l.
Proof. induction 1 as [|o o' l l' R F IH]; cbn; [reflexivity|]. destruct (rel1_key _ _ R) as [_ ->]. now rewrite IH. Qed.
Lemma rel1_nonpal (l l' : list obs) : Forall2 rel1 l l' -> (forall o, In o l -> is_palindrome (key o) = false) -> l' = l.
Proof.
  induction 1 as [|o o' l l' R F IH]; intros H; [reflexivity|]. rewrite IH by (intros; apply H; now right). f_equal.
  destruct R as [->| ->]; auto. unfold pal_flip, pal_pair. specialize (H o (or_introl eq_refl)). unfold key in H. rewrite H.
  destruct o as [[? ?] ?]; reflexivity.
Qed.

(* symmetrised extension set *)
Definition sym (e : N) : N := ex_add e (ex_rc e).
Lemma sym_add a b : a < 256 -> b < 256 -> sym (ex_add a b) = ex_add (sym a) (sym b).
Proof.
  intros Ha Hb. unfold sym. rewrite ex_rc_add by auto. unfold ex_add.
  rewrite <- !N.lor_assoc. f_equal. rewrite !N.lor_assoc. f_equal. apply N.lor_comm.
Qed.
Lemma sym_rc a : a < 256 -> sym (ex_rc a) = sym a.
Proof. intros Ha. unfold sym. rewrite ex_rc_invol by auto. unfold ex_add. apply N.lor_comm. Qed.
Lemma rel1_union (l l' : list obs) : Forall2 rel1 l l' -> Forall (fun o => oexts o < 256) l -> forall a a',
  a < 256 -> a' < 256 -> sym a = sym a' ->
  sym (fold_left (fun acc it => ex_add acc (oexts it)) l a) = sym (fold_left (fun acc it => ex_add acc (oexts it)) l' a').
Proof.
  induction 1 as [|o o' l l' R F IH]; intros HF a a' Ha Ha' E; [exact E|]. cbn [fold_left].
  apply Forall_cons_iff in HF. destruct HF as [Ho HF].
  assert (Ho' : oexts o' < 256 /\ sym (oexts o') = sym (oexts o)).
  { destruct R as [->| ->]; auto. unfold pal_flip, pal_pair, oexts in *. cbn [fst snd].
    destruct (is_palindrome (fst (fst o))); cbn [fst snd]; auto. split; [now apply ex_rc_lt | now apply sym_rc]. }
  destruct Ho' as [Lo' So']. apply IH; auto using ex_add_lt. rewrite !sym_add by auto. now rewrite E, So'.
Qed.

(* summarizers of the shipped shape: acceptance and summary look at the labels only (any order), the extension
   set is the union *)
Variable DS : Type.
Variable acc : list D -> bool.
Variable dat : list D -> DS.
Hypothesis acc_perm : forall l l', Permutation l l' -> acc l = acc l'.
Hypothesis dat_perm : forall l l', Permutation l l' -> dat l = dat l'.
Definition summ_of (items : list obs) : bool * N * DS := (acc (map olabel items), union_exts items, dat (map olabel items)).

Lemma observations_exts_ok K (reads : list (dna * N * D)) : Forall read_ok reads ->
  Forall (fun o => oexts o < 256) (observations K false reads).
Proof.
  intros OK. rewrite Forall_forall in *. intros o Ho. unfold observations in Ho. apply in_flat_map in Ho.
  destruct Ho as [r [Hr Ho]]. apply in_map_iff in Ho. destruct Ho as [o' [<- Ho']]. destruct (OK _ Hr) as [W He].
  destruct (kmer_exts_item_ok K _ _ o' W He Ho') as [_ L]. unfold oexts, canon_obs. cbn [fst snd].
  destruct (snd (canon_flip (fst o'))); auto. now apply ex_rc_lt.
Qed.

Theorem filter_rc_invariant K (reads : list (dna * N * D)) fs : (1 <= K)%nat -> Forall read_ok reads ->
  let os := observations K false reads in
  let os' := observations K false (flip_reads fs reads) in
  ref_keys os' = ref_keys os /\
  forall k, let a := summ_of (obs_of os k) in let b := summ_of (obs_of os' k) in
    fst (fst a) = fst (fst b) /\ snd a = snd b /\
    (if is_palindrome k then palindrome_exts_rel (snd (fst a)) (snd (fst b)) = true else snd (fst a) = snd (fst b)).
Proof.
  intros HK OK os os'. destruct (observations_flip K reads HK OK fs) as [os'' [P F]]. fold os' in P. fold os in F.
  split.
  - apply ssorted_unique; try apply ref_keys_ssorted. intros k. rewrite !ref_keys_in. split; intros [o [Ek Ho]].
    + apply (Permutation_in _ P) in Ho. destruct (Forall2_in_r' _ _ _ _ F Ho) as [o0 [H0 R]]. exists o0. split; auto.
      destruct (rel1_key _ _ R) as [<- _]. exact Ek.
    + destruct (Forall2_in_l' _ _ _ _ F Ho) as [o2 [H2 R]]. exists o2. split.
      * destruct (rel1_key _ _ R) as [-> _]. exact Ek.
      * apply (Permutation_in _ (Permutation_sym P)). exact H2.
  - intros k. cbn zeta. unfold summ_of. cbn [fst snd].
    pose proof (Permutation_filter (fun o => dna_eqb (key o) k) _ _ P) as Pk. fold (obs_of os' k) in Pk. fold (obs_of os'' k) in Pk.
    pose proof (rel1_filter k _ _ F) as Fk.
    assert (EL : Permutation (map olabel (obs_of os k)) (map olabel (obs_of os' k))).
    { rewrite <- (rel1_labels _ _ Fk). apply Permutation_map. now apply Permutation_sym. }
    split; [now apply acc_perm|]. split; [now apply dat_perm|].
    rewrite (union_exts_perm _ _ Pk).
    destruct (is_palindrome k) eqn:Ep.
    + unfold palindrome_exts_rel. apply N.eqb_eq. unfold union_exts. apply (rel1_union _ _ Fk); try lia; auto.
      apply Forall_forall. intros o Ho. unfold obs_of in Ho. apply filter_In in Ho. destruct Ho as [Ho _].
      pose proof (observations_exts_ok K reads OK) as E. rewrite Forall_forall in E. now apply E.
    + f_equal. symmetry. apply rel1_nonpal; auto. intros o Ho. unfold obs_of in Ho. apply filter_In in Ho.
      destruct Ho as [_ Ho]. apply dna_eqb_eq in Ho. now rewrite Ho.
Qed.
End Rc.

(* ------------------------------------------------------------------ the same statement for the checker [table_rel] *)
Lemma forall2b_app {A B} (f : A -> B -> bool) a a' b b' :
  forall2b f a a' = true -> forall2b f b b' = true -> forall2b f (a ++ b) (a' ++ b') = true.
Proof.
  revert a'. induction a as [|x a IH]; intros [|y a']; cbn; try discriminate; auto.
  intros H1 H2. apply andb_true_iff in H1. destruct H1 as [H1 H3]. rewrite H1. cbn. auto.
Qed.
Lemma forall2b_refl {A} (f : A -> A -> bool) l : (forall x, f x x = true) -> forall2b f l l = true.
Proof. intros H. induction l as [|x l IH]; cbn; auto. now rewrite H. Qed.

Section RcTable.
Context {D DS : Type}.
Variable acc : list D -> bool.
Variable dat : list D -> DS.
Hypothesis acc_perm : forall l l', Permutation l l' -> acc l = acc l'.
Hypothesis dat_perm : forall l l', Permutation l l' -> dat l = dat l'.
Variable deqb : DS -> DS -> bool.
Hypothesis deqb_refl : forall d, deqb d d = true.
Variable report_all : bool.

Theorem filter_rc_table K (reads : list (dna * N * D)) fs : (1 <= K)%nat -> Forall read_ok reads ->
  table_rel deqb (reference (summ_of DS acc dat) report_all K false reads)
                 (reference (summ_of DS acc dat) report_all K false (flip_reads fs reads)) = true.
Proof.
  intros HK OK. destruct (filter_rc_invariant DS acc dat acc_perm dat_perm K reads fs HK OK) as [EK H].
  unfold reference, reference_obs. rewrite EK. clear EK.
  set (os := observations K false reads) in *. set (os' := observations K false (flip_reads fs reads)) in *.
  induction (ref_keys os) as [|k ks IH]; [reflexivity|].
  cbn [map out_concat fold_right]. fold (@out_concat DS). unfold table_rel in *. cbn [out_app fst snd].
  apply andb_true_iff in IH. destruct IH as [IH1 IH2]. apply andb_true_iff. split.
  - apply forall2b_app; auto. specialize (H k). cbn zeta in H. destruct H as [H1 [H2 H3]].
    unfold do_group. cbn [fst snd]. rewrite <- H1. destruct (fst (fst (summ_of DS acc dat (obs_of os k)))); [|reflexivity].
    cbn [forall2b]. rewrite andb_true_r. unfold entry_rel. cbn [fst snd]. rewrite dna_eqb_refl, <- H2, deqb_refl. cbn [andb].
    destruct (is_palindrome k); auto. now apply N.eqb_eq.
  - apply forall2b_app; auto. apply forall2b_refl, dna_eqb_refl.
Qed.
End RcTable.

(* the two shipped summarizers have that shape *)
Lemma count_filter_shape {D} n (items : list (@obs D)) :
  count_filter n items = summ_of N (fun l => n <=? N.min 65535 (N.of_nat (length l))) (fun l => N.min 65535 (N.of_nat (length l))) items.
Proof. rewrite count_filter_spec. unfold summ_of. now rewrite map_length. Qed.
Lemma count_filter_set_shape n (items : list (@obs N)) :
  count_filter_set n items = summ_of (list N) (fun l => n <=? N.of_nat (length l)) sort_dedupN items.
Proof. unfold count_filter_set, summ_of. now rewrite map_length. Qed.
Fixpoint list_eqbN' (a b : list N) : bool :=
  match a, b with [], [] => true | x :: a', y :: b' => (x =? y) && list_eqbN' a' b' | _, _ => false end.

Lemma reference_ext {D DS} (s1 s2 : list (@obs D) -> bool * N * DS) ra K st reads :
  (forall l, s1 l = s2 l) -> reference s1 ra K st reads = reference s2 ra K st reads.
Proof.
  intros E. unfold reference, reference_obs. f_equal. apply map_ext. intros k. unfold do_group. now rewrite E.
Qed.

Theorem filter_rc_count_filter {D} n ra K (reads : list (dna * N * D)) fs : (1 <= K)%nat -> Forall read_ok reads ->
  table_rel N.eqb (reference (count_filter n) ra K false reads) (reference (count_filter n) ra K false (flip_reads fs reads)) = true.
Proof.
  intros HK OK. rewrite !(reference_ext (count_filter n) _ ra K false _ (count_filter_shape n)).
  apply filter_rc_table; auto; try apply N.eqb_refl; intros l l' P; now rewrite (Permutation_length P).
Qed.
Theorem filter_rc_count_filter_set n ra K (reads : list (dna * N * N)) fs : (1 <= K)%nat -> Forall read_ok reads ->
  table_rel list_eqbN' (reference (count_filter_set n) ra K false reads)
                       (reference (count_filter_set n) ra K false (flip_reads fs reads)) = true.
Proof.
  intros HK OK. rewrite !(reference_ext (count_filter_set n) _ ra K false _ (count_filter_set_shape n)).
  apply filter_rc_table; auto.
  - intros l l' P. now rewrite (Permutation_length P).
  - apply sort_dedupN_perm.
  - induction d as [|x d IH]; cbn; auto. now rewrite N.eqb_refl.
Qed.
