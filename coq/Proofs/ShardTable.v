(* e2e-sharded, table level: the table that [table_of] hands to the compressor for ONE SHARD (filter_kmers with
   CountFilterSet on the shard's pieces, sort, pruning by remove_censored_exts_sharded with the shard's all_kmers when
   variant = 2, none when variant = 0, reordering), described on Layer S ([shard_tbl_spec]): its keys are the retained
   k-mers with shard id b, payloads are the global ones, and the extension bit (d, c) of k is set iff the (K+1)-mer
   occurs in a read (in the orientation in which the observation is stored) and - when pruning - its other k-mer is
   retained OR lies in another shard.  Such a table meets C01's hypotheses and is [links_loose] w.r.t. the global
   "loose" link set [loose_links] (the links of the reads with a retained k-mer whose other k-mer is retained or lies
   in another shard), of which [spec_links] is the part with both k-mers retained. *)
From Coq Require Import NArith List Bool Arith Lia Permutation.
From DBG Require Import Spec.Dna Spec.GraphIndex Spec.Unitig Spec.CompressSpec Packed.ExtsModel Packed.ExtsMini Algo.Compress
  Algo.KmerHist Algo.Filter Algo.GraphModel Algo.Pipeline Check.GraphCheck Check.PipelineCheck
  Proofs.ListFacts Proofs.DnaFacts Proofs.KmerAlgebra Proofs.ExtsProofs Proofs.FilterProofs Proofs.FilterSumm
  Proofs.FilterRc Proofs.MspProofs Proofs.ShardProofs Proofs.CompressGraphOk Proofs.UnitigUnique Proofs.GraphRcProofs
  Proofs.PruneProofs Proofs.PipelineCheckProofs Proofs.TableSpecProofs
  Proofs.E2eDefs Proofs.E2eSym Proofs.E2eGraph Proofs.E2eObs Proofs.E2eTable Proofs.E2eDirect.
Import ListNotations.
Local Open Scope nat_scope.

(* all_kmers of the reference grouping with report_all = true: every distinct key *)
Lemma reference_obs_snd {DS} (summarize : list (@obs N) -> bool * N * DS) (os : list (@obs N)) :
  snd (reference_obs summarize true os) = ref_keys os.
Proof.
  unfold reference_obs. induction (ref_keys os) as [|k r IH]; [reflexivity|].
  cbn [map out_concat fold_right]. fold (out_concat (map (fun k0 => do_group summarize true (k0, obs_of os k0)) r)).
  unfold out_app at 1. cbn [snd]. rewrite IH. reflexivity.
Qed.

Section ShardTbl.
Variable K : nat.
Variable st : bool.
Variable thr : N.
Variable lreads : list lread.
Variable sh : dna -> N.                    (* the shard id of a (canonical) k-mer *)
Hypothesis HK : 1 <= K.
Hypothesis Hwf : Forall (fun r => wf_dna (fst r)) lreads.
Local Notation reads := (map fst lreads).
Local Notation ret := (retained K st thr reads).
Local Notation isr := (is_retained K st thr reads).
Local Notation W := (wins K lreads).
Local Notation os := (obs_all K st lreads).
Local Notation allk := (snd (reference (count_filter_set thr) true K st (whole_reads lreads))).

(* ---- the loose link set ---- *)
(* [pr] = pruning by remove_censored_exts_sharded (variant 2); without pruning (variant 0) every observed link of a
   retained k-mer is recorded *)
Definition loose_ok (pr : bool) (v : dna) : bool :=
  let t1 := cn st (firstn K v) in let t2 := cn st (skipn 1 v) in
  (isr t1 || isr t2) &&
  (negb pr || ((isr t1 || negb (sh t1 =? sh t2)%N) && (isr t2 || negb (sh t1 =? sh t2)%N))).
Definition loose_links (pr : bool) : list dna := map (cn st) (filter (loose_ok pr) W).

Lemma in_loose_links pr w : In w (loose_links pr) <-> exists v, In v W /\ loose_ok pr v = true /\ w = cn st v.
Proof.
  unfold loose_links. rewrite in_map_iff. split.
  - intros [v [<- Hv]]. apply filter_In in Hv as [Hv Hr]. eauto.
  - intros (v & Hv & Hr & ->). exists v. split; [reflexivity|]. apply filter_In. auto.
Qed.
Lemma loose_ok_rc (pr : bool) (v : dna) : length v = S K -> wf_dna v -> st = false -> loose_ok pr (rc v) = loose_ok pr v.
Proof.
  intros L Wv Hs. unfold loose_ok. rewrite (firstn_rc_S K v L), (skipn_rc_S K v L).
  rewrite !cn_rc_ by (auto using wf_firstn, wf_skipn).
  rewrite (N.eqb_sym (sh (cn st (skipn 1 v)))). rewrite (orb_comm (isr (cn st (skipn 1 v)))).
  f_equal. f_equal. apply andb_comm.
Qed.
(* a link of the reads both of whose k-mers are retained is loose, and conversely *)
Lemma spec_loose pr w : In w (spec_links K st thr reads) -> In w (loose_links pr).
Proof.
  intro H. apply (in_spec_links K st thr lreads) in H as (v & Hv & Hr & ->). apply in_loose_links. exists v.
  split; [exact Hv|]. split; [|reflexivity]. unfold link_retained in Hr. apply andb_true_iff in Hr as [H1 H2].
  unfold loose_ok. rewrite H1, H2. cbn. now destruct pr.
Qed.
Lemma loose_spec v : In v W -> isr (cn st (firstn K v)) = true -> isr (cn st (skipn 1 v)) = true ->
  In (cn st v) (spec_links K st thr reads).
Proof.
  intros Hv H1 H2. apply (in_spec_links K st thr lreads). exists v. split; [exact Hv|]. split; [|reflexivity].
  unfold link_retained. now rewrite H1, H2.
Qed.

(* ---- the specification of a shard table ---- *)
Definition keep_spec (pr : bool) (b : N) (t : dna) : Prop := pr = true -> In t ret \/ sh t <> b.
Record shard_tbl_spec (pr : bool) (b : N) (T : table pay) : Prop := {
  ss_keys : Permutation (keys pay T) (filter (fun k => (sh k =? b)%N) ret);
  ss_lt : forall ent, In ent T -> (e_exts pay ent < 256)%N;
  ss_data : forall ent, In ent T -> e_data pay ent = (kmer_colour K st lreads (e_key pay ent), [rank (e_key pay ent)]);
  ss_exts : forall ent d c, In ent T -> (c < 4)%N ->
    (e_has_ext (e_exts pay ent) (dirb d) c = true <->
     raw_ext_spec K st lreads (e_key pay ent) d c /\ keep_spec pr b (cn st (extend (e_key pay ent) c d))) }.

Lemma shard_tbl_spec_perm pr b T T' : Permutation T T' -> shard_tbl_spec pr b T -> shard_tbl_spec pr b T'.
Proof.
  intros P [H1 H2 H3 H4]. assert (P' : forall e, In e T' -> In e T) by (intros e; apply Permutation_in; now symmetry).
  constructor; auto. rewrite <- H1. unfold keys. apply Permutation_map. now symmetry.
Qed.

(* ---- all_kmers ---- *)
Lemma allk_in t : In t allk <-> In t (read_kmers K st reads).
Proof.
  unfold reference. rewrite reference_obs_snd, ref_keys_in, <- observation_keys, in_map_iff. split.
  - intros [o [E H]]. exists o. auto.
  - intros [o [E H]]. exists o. auto.
Qed.

(* ---- the shard table before reordering ---- *)
Definition inb (b : N) (k : dna) : bool := (sh k =? b)%N.
Definition shard_pre (pr : bool) (b : N) : table pay :=
  let T1 := sort_entries (map (raw_entry K st lreads) (filter (inb b) ret)) in
  if pr then remove_censored_exts_sharded pay st T1 (filter (inb b) allk) else T1.

Lemma sharded_prune_keys (T1 : table pay) al : keys pay (remove_censored_exts_sharded pay st T1 al) = keys pay T1.
Proof. unfold remove_censored_exts_sharded, keys. rewrite map_map. reflexivity. Qed.

Theorem shard_pre_spec pr b : shard_tbl_spec pr b (shard_pre pr b).
Proof.
  unfold shard_pre. set (rb := filter (inb b) ret). set (T1 := sort_entries (map (raw_entry K st lreads) rb)).
  assert (P1 : Permutation T1 (map (raw_entry K st lreads) rb)) by apply sort_entries_perm.
  assert (K1 : Permutation (keys pay T1) rb).
  { unfold keys.
    transitivity (map (e_key pay) (map (raw_entry K st lreads) rb)); [now apply Permutation_map|].
    rewrite map_map. cbn [e_key fst raw_entry]. rewrite map_id. reflexivity. }
  assert (Hrb : forall k, In k rb -> In k ret) by (intros k Hk; apply filter_In in Hk; tauto).
  assert (E1 : forall e, In e T1 -> exists k, In k ret /\ sh k = b /\ e = raw_entry K st lreads k).
  { intros e He. apply (Permutation_in _ P1) in He. apply in_map_iff in He as [k [<- Hk]]. apply filter_In in Hk as [Hk Hb].
    apply N.eqb_eq in Hb. eauto. }
  destruct pr.
  - constructor.
    + now rewrite sharded_prune_keys.
    + intros ent He. unfold remove_censored_exts_sharded in He. apply in_map_iff in He as [e [<- He]]. cbn [e_exts fst snd].
      apply prune_exts_exact.
    + intros ent He. unfold remove_censored_exts_sharded in He. apply in_map_iff in He as [e [<- He]].
      destruct (E1 e He) as (k & Hk & _ & ->). unfold raw_entry. cbn [e_data e_key fst snd]. now rewrite (colour_eq K st lreads HK).
    + intros ent d c He Hc. unfold remove_censored_exts_sharded in He. apply in_map_iff in He as [e [<- He]].
      destruct (E1 e He) as (k & Hk & Hkb & ->). unfold raw_entry. cbn [e_exts e_key fst snd].
      rewrite (proj2 (prune_exts_exact st _ k _) d c Hc), andb_true_iff, (raw_entry_exts K st thr lreads HK Hwf k d c Hk Hc).
      change (canon_s st (extend k c d)) with (cn st (extend k c d)). set (t := cn st (extend k c d)).
      split; intros [A B]; (split; [exact A|]).
      * intros _. apply orb_true_iff in B as [B|B].
        -- left. apply key_in_iff in B. apply Hrb. eapply Permutation_in; [exact K1 | exact B].
        -- right. intro Ht. apply negb_true_iff in B. assert (key_in (filter (inb b) allk) t = true); [|congruence].
           apply key_in_iff. apply filter_In. split; [|unfold inb; now apply N.eqb_eq].
           apply allk_in. now apply (raw_spec_observed K st thr lreads HK Hwf k d c).
      * specialize (B eq_refl). apply orb_true_iff. destruct (N.eq_dec (sh t) b) as [Ht|Ht].
        -- left. destruct B as [B|B]; [|contradiction]. apply key_in_iff. eapply Permutation_in; [symmetry; exact K1|].
           apply filter_In. split; [exact B | unfold inb; now apply N.eqb_eq].
        -- right. apply negb_true_iff. destruct (key_in (filter (inb b) allk) t) eqn:E; [|reflexivity].
           apply key_in_iff in E. apply filter_In in E as [_ E]. unfold inb in E. apply N.eqb_eq in E. contradiction.
  - constructor.
    + exact K1.
    + intros ent He. destruct (E1 ent He) as (k & Hk & _ & ->). apply (union_lt K st lreads HK Hwf).
    + intros ent He. destruct (E1 ent He) as (k & Hk & _ & ->). unfold raw_entry. cbn [e_data e_key fst snd]. now rewrite (colour_eq K st lreads HK).
    + intros ent d c He Hc. destruct (E1 ent He) as (k & Hk & _ & ->). unfold raw_entry. cbn [e_exts e_key fst snd].
      rewrite (raw_entry_exts K st thr lreads HK Hwf k d c Hk Hc). unfold keep_spec. split; [|tauto]. intro A. split; [exact A | discriminate].
Qed.
End ShardTbl.

(* ---- a shard table meets C01's hypotheses and records exactly the loose links of its keys ---- *)
Section ShardLinks.
Variable K : nat.
Variable st : bool.
Variable thr : N.
Variable lreads : list lread.
Variable sh : dna -> N.
Hypothesis HK : 1 <= K.
Hypothesis Hwf : Forall (fun r => wf_dna (fst r)) lreads.
Local Notation reads := (map fst lreads).
Local Notation ret := (retained K st thr reads).
Local Notation isr := (is_retained K st thr reads).
Local Notation W := (wins K lreads).
Local Notation LL := (loose_links K st thr lreads sh).
Local Notation occurs := (occurs K st lreads).

Lemma isr_ret t : In t (read_kmers K st reads) -> (isr t = true <-> In t ret).
Proof. intro H. rewrite retained_in. tauto. Qed.

Lemma loose_ok_lk pr k d c : In k ret -> (c < 4)%N -> occurs k d c ->
  (loose_ok K st thr lreads sh pr (lk k d c) = true <-> keep_spec K st thr lreads sh pr (sh k) (cn st (extend k c d))).
Proof.
  intros Hk Hc Hocc. destruct (ret_ok K st thr lreads Hwf k Hk) as (Lk & Wk & Ck & Rk).
  assert (Hobs : In (cn st (extend k c d)) (read_kmers K st reads)) by (now apply (link_other_observed K st lreads HK Hwf)).
  set (t := cn st (extend k c d)) in *. unfold keep_spec, loose_ok. cbv zeta.
  destruct (lk_kmers K HK k d c Lk) as [[-> ->]|[-> ->]]; rewrite Ck, Rk; fold t; cbn [orb andb]; destruct pr; cbn [negb orb andb].
  - rewrite orb_true_iff, negb_true_iff, N.eqb_neq, (isr_ret t Hobs). split; [intros H _; intuition congruence | intro H; destruct (H eq_refl); intuition congruence].
  - split; [discriminate | reflexivity].
  - rewrite orb_true_r, andb_true_r. cbn [andb]. rewrite orb_true_iff, negb_true_iff, N.eqb_neq, (isr_ret t Hobs).
    split; [intros H _; intuition congruence | intro H; destruct (H eq_refl); intuition congruence].
  - rewrite orb_true_r. split; [discriminate | reflexivity].
Qed.

Lemma loose_char pr k d c : In k ret -> (c < 4)%N ->
  (In (cn st (lk k d c)) (LL pr) <-> occurs k d c /\ keep_spec K st thr lreads sh pr (sh k) (cn st (extend k c d))).
Proof.
  intros Hk Hc. destruct (ret_ok K st thr lreads Hwf k Hk) as (Lk & Wk & Ck & Rk).
  assert (Lv : length (lk k d c) = S K) by (now rewrite lk_length, Lk).
  assert (Wv : wf_dna (lk k d c)) by (now apply lk_wf).
  rewrite in_loose_links. split.
  - intros (v & Hv & Hr & Ec). destruct (win_kmers K st lreads HK Hwf v Hv) as (Lvv & Wvv & _).
    apply cn_eq_cases in Ec; auto.
    assert (Hocc : occurs k d c /\ loose_ok K st thr lreads sh pr (lk k d c) = true).
    { destruct Ec as [Ec|[Hs Ec]]; [split; [left; rewrite Ec; exact Hv | rewrite Ec; exact Hr]|].
      assert (Ev : v = rc (lk k d c)) by (rewrite Ec; symmetry; now apply ListFacts.rc_involutive).
      split; [right; split; [exact Hs | now rewrite <- Ev]|]. rewrite <- (loose_ok_rc K st thr lreads sh pr _ Lv Wv Hs), <- Ev. exact Hr. }
    destruct Hocc as [Hocc Hl]. split; [exact Hocc|]. now apply (loose_ok_lk pr k d c Hk Hc Hocc).
  - intros [Hocc Hkeep]. apply (loose_ok_lk pr k d c Hk Hc Hocc) in Hkeep. destruct Hocc as [Hv|[Hs Hv]].
    + exists (lk k d c). auto.
    + exists (rc (lk k d c)). split; [exact Hv|]. split; [now rewrite loose_ok_rc|]. symmetry. now apply cn_rc_.
Qed.

Variable pr : bool.
Variable b : N.
Variable T : table pay.
Hypothesis HT : shard_tbl_spec K st thr lreads sh pr b T.

Lemma skey_ret ent : In ent T -> In (e_key pay ent) ret /\ sh (e_key pay ent) = b.
Proof.
  intro H. assert (Hin : In (e_key pay ent) (filter (fun k => (sh k =? b)%N) ret)).
  { eapply Permutation_in; [apply (ss_keys _ _ _ _ _ _ _ _ HT)|]. unfold keys. now apply in_map. }
  apply filter_In in Hin as [H1 H2]. apply N.eqb_eq in H2. auto.
Qed.
Lemma sret_key k : In k ret -> sh k = b -> exists ent, In ent T /\ e_key pay ent = k.
Proof.
  intros H Hb. assert (Hin : In k (keys pay T)).
  { eapply Permutation_in; [symmetry; apply (ss_keys _ _ _ _ _ _ _ _ HT)|]. apply filter_In. split; [exact H | now apply N.eqb_eq]. }
  unfold keys in Hin. apply in_map_iff in Hin as [e [E He]]. eauto.
Qed.

Theorem shard_tbl_ok : tbl_ok pay K st T.
Proof.
  constructor.
  - eapply Permutation_NoDup; [symmetry; apply (ss_keys _ _ _ _ _ _ _ _ HT)|]. apply NoDup_filter. apply retained_nodup.
  - intros e He. now destruct (ret_ok K st thr lreads Hwf _ (proj1 (skey_ret e He))).
  - intros e He. now destruct (ret_ok K st thr lreads Hwf _ (proj1 (skey_ret e He))) as (_ & ? & _).
  - intros Hs e He. destruct (ret_ok K st thr lreads Hwf _ (proj1 (skey_ret e He))) as (_ & _ & C & _).
    unfold cn in C. now rewrite Hs in C.
  - intros e He. now apply (ss_lt _ _ _ _ _ _ _ _ HT).
Qed.

Theorem shard_links_loose : links_loose pay st T (LL pr).
Proof.
  constructor.
  - intros ent d c Hin Hc P. destruct (skey_ret ent Hin) as [Hk Hb].
    rewrite (ss_exts _ _ _ _ _ _ _ _ HT ent d c Hin Hc), (loose_char pr _ d c Hk Hc), Hb.
    unfold raw_ext_spec, E2eDirect.occurs. rewrite P. intuition congruence.
  - intros ent d c Hin Hc P. destruct (skey_ret ent Hin) as [Hk Hb]. set (k := e_key pay ent) in *.
    destruct (ret_ok K st thr lreads Hwf k Hk) as (Lk & Wk & Ck & Rk).
    assert (Nk : k <> []) by (intro E; rewrite E in Lk; cbn in Lk; lia).
    pose proof (proj1 (kpal_iff st k) P) as [Hs Ekk].
    rewrite (ss_exts _ _ _ _ _ _ _ _ HT ent d c Hin Hc), (ss_exts _ _ _ _ _ _ _ _ HT ent (dflip d) (comp c) Hin (comp_lt4 c)),
      (loose_char pr k d c Hk Hc), Hb.
    fold k. unfold raw_ext_spec, E2eDirect.occurs. rewrite P.
    assert (E1 : rc (lk k (dflip d) (comp c)) = lk k d c).
    { rewrite rc_lk, dflip_dflip, comp_involutive by exact Hc. now rewrite <- Ekk. }
    assert (E2 : cn st (extend k (comp c) (dflip d)) = cn st (extend k c d)).
    { rewrite Ekk at 1. rewrite <- rc_extend by exact Nk. apply cn_rc_; auto. now apply extend_wf. }
    rewrite E1, E2. intuition congruence.
Qed.

(* the part of the loose link set with both k-mers among the retained k-mers is the link specification *)
Lemma loose_retained_spec k d c : In k ret -> (c < 4)%N -> In (cn st (extend k c d)) ret ->
  (In (cn st (lk k d c)) (LL pr) <-> In (cn st (lk k d c)) (spec_links K st thr reads)).
Proof.
  intros Hk Hc Ht. rewrite (loose_char pr k d c Hk Hc), (links_char K st thr lreads HK Hwf k d c Hk Hc).
  unfold keep_spec. tauto.
Qed.
End ShardLinks.

(* ---- table_of on the pieces of one shard ---- *)
Section ShardTableOf.
Variable max_len : N.
Variable K P : nat.
Variable perm : option (list N).
Variable st : bool.
Variable thr : N.
Variable lreads : list lread.
Hypothesis Hpar : params_ok max_len K P.
Hypothesis Hperm : perm_ok P perm.
Hypothesis HK : 4 <= K.
Hypothesis Hok : Forall lread_ok lreads.
Variable ps : list (N * (dna * N * N)).
Hypothesis Eps : pieces_of max_len K P perm (negb st) lreads = Some ps.
Local Notation sh := (SH P perm (negb st)).

Lemma lreads_wf : Forall (fun r => wf_dna (fst r)) lreads.
Proof. eapply Forall_impl; [|exact Hok]. intros r [H _]. exact H. Qed.

Lemma filter_set_shard b :
  filter_set K st thr (shard_seqs ps b) =
  Some (map (raw_entry K st lreads) (filter (inb sh b) (retained K st thr (map fst lreads))),
        filter (inb sh b) (snd (reference (count_filter_set thr) true K st (whole_reads lreads)))).
Proof.
  unfold filter_set.
  pose proof (shard_filter_restrict max_len K P perm st Hpar Hperm (count_filter_set thr) true lreads Hok ps Eps b
                16%N 1%N 0%N HK ltac:(vm_compute; discriminate)) as H.
  destruct (filter_kmers (count_filter_set thr) true K st 16 1 0 (shard_seqs ps b)) as [[o n]|]; [|discriminate H].
  cbn [option_map fst] in H. injection H as ->. unfold restrict_out. cbn [fst snd]. f_equal. f_equal.
  pose proof (raw_table K st thr lreads) as Hr. rewrite <- (table_keys_retained K st thr true lreads) in Hr |- *.
  set (F := fst (reference (count_filter_set thr) true K st (whole_reads lreads))) in *.
  clearbody F. clear -Hr. induction F as [|e F IH]; [reflexivity|]. cbn [filter map] in *.
  pose proof (f_equal (hd (to_entry e)) Hr) as He. pose proof (f_equal (@tl _) Hr) as Ht. cbn [hd tl] in He, Ht.
  unfold inb at 1. destruct (sh (fst (fst e)) =? b)%N; cbn [map]; [rewrite He; f_equal|]; now apply IH.
Qed.

Lemma table_of_shard variant b order : variant <> 1%N ->
  table_of K st thr variant (shard_seqs ps b) order = reorder (shard_pre K st thr lreads sh (variant =? 2)%N b) order.
Proof.
  intro Hv. unfold table_of. rewrite filter_set_shard. unfold shard_pre. cbv zeta.
  destruct (N.eqb_spec variant 1) as [E|_]; [contradiction|]. destruct (variant =? 2)%N; reflexivity.
Qed.

Theorem table_of_shard_spec variant b order T : variant <> 1%N -> NoDup order ->
  table_of K st thr variant (shard_seqs ps b) order = Some T ->
  shard_tbl_spec K st thr lreads sh (variant =? 2)%N b T.
Proof.
  intros Hv Hnd H. rewrite (table_of_shard variant b order Hv) in H.
  apply (shard_tbl_spec_perm K st thr lreads sh _ b (shard_pre K st thr lreads sh (variant =? 2)%N b) T).
  - symmetry. eapply reorder_perm; eauto.
  - apply shard_pre_spec; [lia | exact lreads_wf].
Qed.

Theorem table_of_shard_total variant b order : variant <> 1%N ->
  Permutation order (filter (inb sh b) (retained K st thr (map fst lreads))) ->
  exists T, table_of K st thr variant (shard_seqs ps b) order = Some T.
Proof.
  intros Hv Pm. rewrite (table_of_shard variant b order Hv).
  set (T0 := shard_pre K st thr lreads sh (variant =? 2)%N b).
  destruct (shard_pre_spec K st thr lreads sh ltac:(lia) lreads_wf (variant =? 2)%N b) as [Hk _ _ _]. fold T0 in Hk.
  unfold reorder. assert (El : length order = length T0).
  { rewrite (Permutation_length Pm). unfold inb. rewrite <- (Permutation_length Hk). unfold keys. now rewrite map_length. }
  rewrite (proj2 (Nat.eqb_eq _ _) El). apply omap_total. intros k Hk'.
  assert (Hin : In k (keys pay T0)).
  { eapply Permutation_in; [symmetry; exact Hk|]. eapply Permutation_in; [exact Pm | exact Hk']. }
  unfold keys in Hin. apply in_map_iff in Hin as [e [<- He]].
  unfold get_entry. intro Hn. destruct (get_id pay T0 (e_key pay e)) as [j|] eqn:Ej.
  - unfold get_id, end_index in Ej. apply CompressBasics.index_where_Some in Ej. destruct Ej as (x & Hx & _).
    rewrite nth_error_map in Hx. destruct (nth_error T0 j); [discriminate Hn | discriminate Hx].
  - unfold get_id, end_index in Ej. pose proof (CompressBasics.index_where_None _ _ Ej (e_key pay e)) as Hx.
    rewrite (proj2 (dna_eqb_eq _ _) eq_refl) in Hx. assert (false = true); [|discriminate]. symmetry. apply Hx. apply in_map. exact He.
Qed.
End ShardTableOf.
Print Assumptions shard_pre_spec.
Print Assumptions shard_tbl_ok.
Print Assumptions shard_links_loose.
Print Assumptions table_of_shard_spec.
Print Assumptions table_of_shard_total.
