(* C03, second best-path query: max_path_beam (Algo/Beam.v, repaired code = [dup := false]) returns, for EVERY graph,
   beam width and score function, a walk along reported edges in which no node is repeated (beam_valid); on graphs
   whose terminal extension bits resolve and with beam >= 1 it does not fail (beam_total: the state list never becomes
   empty and S (S (length g)) rounds suffice).  The code before fix F10 ([dup := true]) is refuted
   (beam_repeats_refuted). *)
From Coq Require Import NArith ZArith List Bool Arith Lia Permutation.
From DBG Require Import Spec.Dna Spec.GraphIndex Packed.ExtsModel Algo.KmerHist Algo.Compress Algo.GraphModel Algo.Beam
  Spec.EdgeSpec Proofs.ListFacts Proofs.DnaFacts Proofs.GraphQueryProofs Proofs.WalkProofs Proofs.EdgeCheckProofs Check.EdgeCheck.
Import ListNotations.
Local Open Scope nat_scope.

(* ------------------------------------------------------------------ lists *)
Lemma chain_snoc {A} (R : A -> A -> Prop) : forall (l : list A) a b,
  chain R (l ++ [a]) -> R a b -> chain R ((l ++ [a]) ++ [b]).
Proof.
  induction l as [|x l IH]; intros a b C H.
  - cbn. auto.
  - cbn [app] in *. destruct C as [C1 C2]. split.
    + destruct l as [|y l']; cbn [app] in *; exact C1.
    + apply IH; assumption.
Qed.
Lemma in_insert_by {A} (leb : A -> A -> bool) x : forall l y, In y (insert_by leb x l) <-> y = x \/ In y l.
Proof.
  induction l as [|z l IH]; intro y; cbn [insert_by].
  - cbn. intuition.
  - destruct (leb x z); cbn [In]; [intuition|]. rewrite IH. intuition.
Qed.
Lemma in_sort_by {A} (leb : A -> A -> bool) : forall l y, In y (sort_by leb l) <-> In y l.
Proof.
  unfold sort_by. induction l as [|x l IH]; intro y; cbn [fold_right]; [reflexivity|].
  rewrite in_insert_by, IH. cbn. intuition.
Qed.
Lemma length_insert_by {A} (leb : A -> A -> bool) x : forall l, length (insert_by leb x l) = S (length l).
Proof. induction l as [|z l IH]; cbn [insert_by]; [reflexivity|]. destruct (leb x z); cbn [length]; [reflexivity|now rewrite IH]. Qed.
Lemma length_sort_by {A} (leb : A -> A -> bool) : forall l, length (sort_by leb l) = length l.
Proof. unfold sort_by. induction l as [|x l IH]; cbn [fold_right length]; [reflexivity|]. now rewrite length_insert_by, IH. Qed.
Lemma in_firstn {A} n : forall (l : list A) x, In x (firstn n l) -> In x l.
Proof. intros l x H. rewrite <- (firstn_skipn n l). apply in_or_app. now left. Qed.
Lemma nodup_le_range (l : list nat) n : NoDup l -> (forall x, In x l -> x < n) -> length l <= n.
Proof.
  intros ND H. rewrite <- (seq_length n 0). apply NoDup_incl_length; [exact ND|].
  intros x Hx. apply in_seq. specialize (H x Hx). lia.
Qed.

Section BeamProofs.
Variable D : Type.
Variable K : nat.
Variable stranded : bool.
Variable score : D -> Z.
Local Notation graph := (graph D).
Local Notation edges_of := (edges_of D K stranded).
Local Notation step_ok := (step_ok D K stranded).
Local Notation valid_walk := (valid_walk D K stranded).
Local Notation bstate := Beam.bstate.
Local Notation expand_state := (expand_state D K stranded score false).
Local Notation expand_all := (expand_all D K stranded score false).
Local Notation beam_loop := (beam_loop D K stranded score false).
Local Notation max_path_beam := (max_path_beam D K stranded score false).

(* a state of the search: a non-empty walk along reported edges without repeated node *)
Definition state_ok (g : graph) (s : bstate) : Prop :=
  b_path s <> [] /\ valid_walk g (b_path s) /\ NoDup (map fst (b_path s)).

Lemma on_path_iff p i : on_path p i = true <-> In i (map fst p).
Proof.
  unfold on_path. rewrite existsb_exists. split.
  - intros [x [Hx E]]. apply Nat.eqb_eq in E. subst i. now apply in_map.
  - intro H. apply in_map_iff in H as [x [E Hx]]. exists x. split; [exact Hx|]. now apply Nat.eqb_eq.
Qed.

Lemma edge_target_lt (g : graph) u s v t f : In (v, t, f) (edges_of g u s) -> u < length g /\ v < length g.
Proof.
  intro H. apply in_edges_of in H as [Hu [b [_ [_ Hl]]]]. split; [exact Hu|].
  destruct (find_link_some _ _ _ _ _ _ _ _ _ Hl) as [[_ [_ [H _]]]|[_ [_ [_ [[H _] _]]]]]; exact H.
Qed.

Lemma init1_ok (g : graph) i n : nth_error g i = Some n -> Forall (state_ok g) (beam_init1 D score i n).
Proof.
  intro E. assert (Hi : i < length g) by (apply nth_error_Some; congruence).
  unfold beam_init1. destruct (_ || _); [|constructor]. constructor; [|constructor].
  unfold state_ok, b_path. cbn [fst]. split; [discriminate|]. split.
  - split; [|cbn; auto]. intros x [<-|[]]. exact Hi.
  - cbn. constructor; [intros []|constructor].
Qed.
Lemma init_flat_ok (g : graph) : forall (l : list (gnode D)) c, (forall j n, nth_error l j = Some n -> nth_error g (c + j) = Some n) ->
  Forall (state_ok g) (flat_map (fun p => beam_init1 D score (fst p) (snd p)) (combine (seq c (length l)) l)).
Proof.
  induction l as [|n l IH]; intros c H; cbn [length seq combine flat_map]; [constructor|].
  apply Forall_app. split.
  - cbn [fst snd]. apply init1_ok. specialize (H 0 n eq_refl). now rewrite Nat.add_0_r in H.
  - apply IH. intros j m Hj. specialize (H (S j) m Hj). now rewrite Nat.add_succ_comm.
Qed.
Lemma init_ok (g : graph) : g <> [] -> Forall (state_ok g) (beam_init D score g).
Proof.
  intro NE. unfold beam_init.
  pose proof (init_flat_ok g g 0 (fun j n H => H)) as F.
  destruct (flat_map _ _) as [|s l]; [|exact F].
  constructor; [|constructor]. unfold state_ok, b_path. cbn [fst]. split; [discriminate|]. split.
  - split; [|cbn; auto]. intros x [<-|[]]. cbn [fst]. destruct g; [congruence|cbn; lia].
  - cbn. constructor; [intros []|constructor].
Qed.

(* one expansion step *)
Definition exp_step (g : graph) (s : bstate) (acc : option (list bstate)) (e : link) : option (list bstate) :=
  match acc with
  | None => None
  | Some out =>
    let '(nid, inc, _) := e in
    let new_score := (b_score s + node_score D score g nid)%Z in
    if on_path (b_path s) nid then
      if has_cycle_state out then Some out else Some (out ++ [(b_path s, b_score s, st_cycle)])
    else
      match find_edges D K stranded g nid (dflip inc) with
      | None => None
      | Some far => Some (out ++ [(b_path s ++ [(nid, inc)], new_score,
                                   match far with [] => st_end | _ => st_active end)])
      end
  end.
Lemma expand_state_eq (g : graph) s :
  expand_state g s =
  match rev (b_path s) with
  | [] => None
  | (id, d) :: _ =>
    match find_edges D K stranded g id (dflip d) with
    | None => None
    | Some edges => fold_left (exp_step g s) edges (Some [])
    end
  end.
Proof.
  unfold Beam.expand_state. destruct (rev (b_path s)) as [|[id d] r]; [reflexivity|].
  destruct (find_edges D K stranded g id (dflip d)); [|reflexivity]. reflexivity.
Qed.

Lemma fold_none (g : graph) s : forall edges, fold_left (exp_step g s) edges None = None.
Proof. induction edges as [|e r IH]; [reflexivity|exact IH]. Qed.

(* what the fold over the edges preserves: every produced state is ok; Active ones are one longer than s *)
Definition out_inv (g : graph) (s : bstate) (out : list bstate) : Prop :=
  Forall (fun s' => state_ok g s' /\ (b_status s' = st_active -> length (b_path s') = S (length (b_path s)))) out.

Lemma exp_fold_ok (g : graph) s p id d : b_path s = p ++ [(id, d)] -> state_ok g s ->
  forall edges, (forall e, In e edges -> In e (edges_of g id (dflip d))) ->
  forall out res, out_inv g s out -> fold_left (exp_step g s) edges (Some out) = Some res -> out_inv g s res.
Proof.
  intros Ep [NE [[Hr Hc] ND]]. induction edges as [|e r IH]; intros He out res O F.
  - cbn in F. inversion F. subst. exact O.
  - cbn [fold_left] in F. destruct e as [[nid inc] f]. cbn [exp_step] in F.
    assert (Hin : In (nid, inc, f) (edges_of g id (dflip d))) by (apply He; now left).
    destruct (edge_target_lt g _ _ _ _ _ Hin) as [_ Hn].
    assert (He' : forall e, In e r -> In e (edges_of g id (dflip d))) by (intros e' H'; apply He; now right).
    destruct (on_path (b_path s) nid) eqn:OP.
    + destruct (has_cycle_state out).
      * exact (IH He' out res O F).
      * refine (IH He' _ res _ F). apply Forall_app. split; [exact O|]. constructor; [|constructor].
        split.
        -- unfold state_ok, b_path. cbn [fst]. repeat split; assumption.
        -- unfold b_status, st_cycle, st_active. cbn [snd]. discriminate.
    + destruct (find_edges D K stranded g nid (dflip inc)) as [far|] eqn:FE.
      2:{ rewrite fold_none in F. discriminate. }
      refine (IH He' _ res _ F). apply Forall_app. split; [exact O|]. constructor; [|constructor].
      assert (NP : ~ In nid (map fst (b_path s))).
      { intro H. apply on_path_iff in H. congruence. }
      split.
      * unfold state_ok, b_path. cbn [fst]. fold (b_path s). split; [destruct (b_path s); discriminate|]. split; [split|].
        -- intros x Hx. apply in_app_or in Hx as [Hx|[<-|[]]]; [now apply Hr|exact Hn].
        -- rewrite Ep. apply chain_snoc; [rewrite <- Ep; exact Hc|].
           exists (dflip d), inc, f. cbn [fst snd]. split; [exact Hin|]. split; now left.
        -- rewrite map_app. cbn [map fst]. apply NoDup_app'; [exact ND|constructor; [intros []|constructor]|].
           intros x Hx [<-|[]]. exact (NP Hx).
      * intros _. unfold b_path. cbn [fst]. fold (b_path s). rewrite app_length. cbn. lia.
Qed.

Lemma last_rev {A} (l : list A) x r : rev l = x :: r -> l = rev r ++ [x].
Proof. intro H. rewrite <- (rev_involutive l), H. reflexivity. Qed.

Lemma expand_state_ok (g : graph) s res : state_ok g s -> expand_state g s = Some res -> out_inv g s res.
Proof.
  intros S. rewrite expand_state_eq. destruct (rev (b_path s)) as [|[id d] r] eqn:R; [discriminate|].
  apply last_rev in R. destruct (find_edges D K stranded g id (dflip d)) as [edges|] eqn:FE; [|discriminate].
  intro F. refine (exp_fold_ok g s (rev r) id d R S edges _ [] res _ F); [|constructor].
  intros e He. unfold EdgeSpec.edges_of. now rewrite FE.
Qed.

(* the rounds *)
Definition round_inv (g : graph) (r : nat) (states : list bstate) : Prop :=
  Forall (fun s => state_ok g s /\ (b_status s = st_active -> length (b_path s) = S r)) states.

Lemma init_len1 (g : graph) s : In s (beam_init D score g) -> length (b_path s) = 1.
Proof.
  unfold beam_init. intro H.
  assert (A : forall x, In x (flat_map (fun p => beam_init1 D score (fst p) (snd p)) (combine (seq 0 (length g)) g)) ->
                        length (b_path x) = 1).
  { intros x Hx. apply in_flat_map in Hx as [[i m] [_ Hx]]. unfold beam_init1 in Hx. cbn [fst snd] in Hx.
    destruct (_ || _); [|destruct Hx]. destruct Hx as [<-|[]]. reflexivity. }
  destruct (flat_map _ _) as [|s0 l0]; [destruct H as [<-|[]]; reflexivity|now apply A].
Qed.
Lemma init_round (g : graph) : g <> [] -> round_inv g 0 (beam_init D score g).
Proof.
  intro NE. pose proof (init_ok g NE) as F. unfold round_inv. rewrite Forall_forall in *. intros s Hs.
  split; [now apply F|]. intros _. now apply (init_len1 g).
Qed.

Lemma expand_all_ok (g : graph) r : forall states new, round_inv g r states -> expand_all g states = Some new ->
  round_inv g (S r) new.
Proof.
  induction states as [|s l IH]; intros new I E.
  - cbn in E. inversion E. constructor.
  - cbn [Beam.expand_all] in E. inversion I as [|? ? [So Hl] I']; subst.
    destruct (b_status s =? st_active)%N eqn:A.
    + destruct (expand_state g s) as [a|] eqn:X; [|discriminate].
      destruct (Beam.expand_all D K stranded score false g l) as [b|] eqn:Y; [|discriminate]. inversion E; subst.
      apply Forall_app. split; [|now apply IH].
      apply N.eqb_eq in A. specialize (Hl A). pose proof (expand_state_ok g s a So X) as O.
      eapply Forall_impl; [|exact O]. cbn beta. intros s' [H1 H2]. split; [exact H1|]. intro H. rewrite (H2 H), Hl. reflexivity.
    + destruct (Beam.expand_all D K stranded score false g l) as [b|] eqn:Y; [|discriminate]. inversion E; subst.
      cbn [app]. constructor; [|now apply IH]. split; [exact So|]. intro H. apply N.eqb_neq in A. congruence.
Qed.

Lemma round_select (g : graph) r beam new : round_inv g r new -> round_inv g r (firstn beam (sort_states new)).
Proof.
  unfold round_inv. rewrite !Forall_forall. intros H s Hs. apply H. apply in_firstn in Hs. unfold sort_states in Hs.
  now apply in_sort_by in Hs.
Qed.

Lemma round_weaken (g : graph) r r' states : round_inv g r states ->
  existsb (fun s => b_status s =? st_active)%N states = false -> round_inv g r' states.
Proof.
  unfold round_inv. rewrite !Forall_forall. intros H N s Hs. destruct (H s Hs) as [H1 _]. split; [exact H1|].
  intro A. exfalso. assert (existsb (fun s => b_status s =? st_active)%N states = true); [|congruence].
  apply existsb_exists. exists s. split; [exact Hs|]. now apply N.eqb_eq.
Qed.

Lemma beam_loop_ok (g : graph) beam : forall fuel r states res, round_inv g r states ->
  beam_loop fuel g beam states = Some res -> Forall (state_ok g) res.
Proof.
  induction fuel as [|fuel IH]; intros r states res I E; [discriminate|].
  cbn [Beam.beam_loop] in E. destruct (Beam.expand_all D K stranded score false g states) as [new|] eqn:X; [|discriminate].
  pose proof (round_select g (S r) beam new (expand_all_ok g r states new I X)) as I'.
  destruct (existsb _ states).
  - exact (IH (S r) _ res I' E).
  - inversion E; subst. eapply Forall_impl; [|exact I']. intros s [H _]. exact H.
Qed.

(* THE theorem (partial correctness, no hypothesis on the graph): whatever path max_path_beam returns is a walk along
   reported edges and visits no node twice *)
Theorem beam_valid (g : graph) beam p : max_path_beam g beam = Some p -> valid_walk g p /\ NoDup (map fst p).
Proof.
  unfold Beam.max_path_beam. destruct g as [|n g'] eqn:G.
  - intro H. inversion H. subst. split; [split; [intros x []|cbn; auto]|constructor].
  - rewrite <- G. destruct (Beam.beam_loop D K stranded score false (S (S (length g))) g beam (beam_init D score g)) as [[|s l]|] eqn:L;
      try discriminate.
    intro H. inversion H; subst p.
    assert (NE : g <> []) by (rewrite G; discriminate).
    pose proof (init_round g NE) as I.
    pose proof (beam_loop_ok g beam _ 0 _ _ I L) as F. inversion F as [|? ? [_ [H1 H2]] _]; subst. split; assumption.
Qed.

(* ------------------------------------------------------------------ totality *)
(* every Active state can be expanded: the far side of its last node reports at least one edge *)
Definition live (g : graph) (s : bstate) : Prop :=
  b_status s = st_active -> forall id d r, rev (b_path s) = (id, d) :: r -> edges_of g id (dflip d) <> [].

Lemma num_ext_pos e d : (e_num_ext_dir e d <> 0)%N -> exists b, In b bases /\ e_has_ext e d b = true.
Proof.
  unfold e_num_ext_dir, e_has_ext. set (x := e_dir_bits e d). intro H.
  assert (Q : forall i, In i bases -> N.land x (N.shiftl 1 i) <> 0%N -> exists b, In b bases /\ (0 <? N.land x (u8 (N.shiftl 1 b)))%N = true).
  { intros i Hi Hn. exists i. split; [exact Hi|]. apply N.ltb_lt.
    assert (E : u8 (N.shiftl 1 i) = N.shiftl 1 i).
    { unfold bases in Hi. cbn in Hi. destruct Hi as [<-|[<-|[<-|[<-|[]]]]]; reflexivity. }
    rewrite E. lia. }
  destruct (N.eq_dec (N.land x 1) 0) as [E0|E0]; [|apply (Q 0%N); [cbn; auto|exact E0]].
  destruct (N.eq_dec (N.land x 2) 0) as [E1|E1]; [|apply (Q 1%N); [cbn; auto|exact E1]].
  destruct (N.eq_dec (N.land x 4) 0) as [E2|E2]; [|apply (Q 2%N); [cbn; auto|exact E2]].
  destruct (N.eq_dec (N.land x 8) 0) as [E3|E3]; [|apply (Q 3%N); [cbn; auto|exact E3]].
  exfalso. apply H. rewrite E0, E1, E2, E3. reflexivity.
Qed.

(* the hypothesis of totality: an extension bit on a side of a node implies a reported edge on that side
   (implied by exts_resolvable, i.e. by valid_graph: every set bit resolves) *)
Definition terminal_bits_resolve (g : graph) : Prop :=
  forall i n d, nth_error g i = Some n -> (e_num_ext_dir (n_exts D n) (dirb d) <> 0)%N -> edges_of g i d <> [].

Lemma resolvable_terminal (g : graph) : exts_resolvable D K stranded g -> terminal_bits_resolve g.
Proof.
  intros R i n d E H. assert (Hi : i < length g) by (apply nth_error_Some; congruence).
  destruct (num_ext_pos _ _ H) as [b [Hb He]].
  assert (He' : e_has_ext (node_exts D g i) (dirb d) b = true) by (unfold node_exts; now rewrite E).
  specialize (R i d b Hi Hb He').
  destruct (find_link D K stranded g (extend (term_kmer K (node_seq D g i) d) b d) d) as [l|] eqn:FL; [|congruence].
  intro Z. assert (In l (edges_of g i d)); [|rewrite Z in *; contradiction].
  apply in_edges_of. split; [exact Hi|]. exists b. auto.
Qed.

Lemma init1_live (g : graph) i n : terminal_bits_resolve g -> nth_error g i = Some n ->
  Forall (live g) (beam_init1 D score i n).
Proof.
  intros T E. unfold beam_init1.
  destruct (e_num_ext_dir (n_exts D n) false =? 0)%N eqn:L; destruct (e_num_ext_dir (n_exts D n) true =? 0)%N eqn:R;
    cbn [orb andb]; try constructor; try constructor.
  - (* no bit at all: status End *) intros A. unfold b_status, st_end, st_active in A. cbn in A. discriminate.
  - (* no left bits, some right bits: dir = Left, walking right *)
    intros _ id d r Hr. apply N.eqb_eq in L. rewrite L in Hr. cbn in Hr. inversion Hr; subst.
    apply (T id n DRight E). apply N.eqb_neq in R. exact R.
  - (* left bits, no right bits: dir = Right, walking left *)
    intros _ id d r Hr. apply N.eqb_neq in L.
    assert ((0 <? e_num_ext_dir (n_exts D n) false)%N = true) as Z by (apply N.ltb_lt; lia).
    unfold b_path in Hr. cbn [fst] in Hr. rewrite Z in Hr. cbn in Hr. inversion Hr; subst.
    apply (T id n DLeft E). exact L.
Qed.
Lemma init_flat_live (g : graph) : terminal_bits_resolve g -> forall (l : list (gnode D)) c,
  (forall j n, nth_error l j = Some n -> nth_error g (c + j) = Some n) ->
  Forall (live g) (flat_map (fun p => beam_init1 D score (fst p) (snd p)) (combine (seq c (length l)) l)).
Proof.
  intro T. induction l as [|n l IH]; intros c H; cbn [length seq combine flat_map]; [constructor|].
  apply Forall_app. split.
  - cbn [fst snd]. apply init1_live; [exact T|]. specialize (H 0 n eq_refl). now rewrite Nat.add_0_r in H.
  - apply IH. intros j m Hj. specialize (H (S j) m Hj). now rewrite Nat.add_succ_comm.
Qed.
(* when no node is terminal, every node has bits on both sides *)
Lemma init_flat_nil (g : graph) : forall (l : list (gnode D)) c,
  flat_map (fun p => beam_init1 D score (fst p) (snd p)) (combine (seq c (length l)) l) = [] ->
  forall n, In n l -> (e_num_ext_dir (n_exts D n) true <> 0)%N.
Proof.
  induction l as [|m l IH]; intros c H n Hn; [destruct Hn|].
  cbn [length seq combine flat_map] in H. apply app_eq_nil in H as [H1 H2]. destruct Hn as [<-|Hn].
  - unfold beam_init1 in H1. cbn [fst snd] in H1.
    destruct (e_num_ext_dir (n_exts D m) true =? 0)%N eqn:R; [|now apply N.eqb_neq in R].
    rewrite orb_true_r in H1. discriminate.
  - exact (IH (S c) H2 n Hn).
Qed.
Lemma init_live (g : graph) : terminal_bits_resolve g -> g <> [] -> Forall (live g) (beam_init D score g).
Proof.
  intros T NE. unfold beam_init. pose proof (init_flat_live g T g 0 (fun j n H => H)) as F.
  pose proof (init_flat_nil g g 0) as Nil.
  destruct (flat_map _ _) as [|s l]; [|exact F].
  constructor; [|constructor]. intros _ id d r Hr. cbn in Hr. inversion Hr; subst.
  destruct g as [|n g']; [congruence|]. apply (T 0 n DRight eq_refl). apply (Nil eq_refl). now left.
Qed.

Lemma exp_fold_total (g : graph) s id d : state_ok g s ->
  forall edges, (forall e, In e edges -> In e (edges_of g id (dflip d))) ->
  forall out, Forall (live g) out ->
  exists res, fold_left (exp_step g s) edges (Some out) = Some res /\ Forall (live g) res /\
              length out <= length res /\ (edges <> [] -> res <> []).
Proof.
  intros S. induction edges as [|e r IH]; intros He out Lo.
  - exists out. cbn. repeat split; auto; congruence.
  - destruct e as [[nid inc] f]. cbn [fold_left exp_step].
    assert (Hin : In (nid, inc, f) (edges_of g id (dflip d))) by (apply He; now left).
    destruct (edge_target_lt g _ _ _ _ _ Hin) as [_ Hn].
    assert (He' : forall e, In e r -> In e (edges_of g id (dflip d))) by (intros e' H'; apply He; now right).
    destruct (on_path (b_path s) nid).
    + destruct (has_cycle_state out) eqn:HC.
      * destruct (IH He' out Lo) as [res [E [L1 [L2 _]]]]. exists res. repeat split; auto. intros _ Z. subst res.
        destruct out; [cbn in HC; discriminate|cbn in L2; lia].
      * destruct (IH He' (out ++ [(b_path s, b_score s, st_cycle)])) as [res [E [L1 [L2 _]]]].
        { apply Forall_app. split; [exact Lo|]. constructor; [|constructor]. intro A. cbn in A. discriminate. }
        exists res. rewrite app_length in L2. cbn in L2. repeat split; auto; try lia. intros _ Z. subst res. cbn in L2. lia.
    + rewrite (edges_of_Some D K stranded g nid (dflip inc) Hn).
      destruct (IH He' (out ++ [(b_path s ++ [(nid, inc)], (b_score s + node_score D score g nid)%Z,
                                  match edges_of g nid (dflip inc) with [] => st_end | _ => st_active end)])) as [res [E [L1 [L2 _]]]].
      { apply Forall_app. split; [exact Lo|]. constructor; [|constructor]. intros A id' d' r' Hr.
        unfold b_path in Hr. cbn [fst] in Hr. rewrite rev_app_distr in Hr. cbn in Hr. inversion Hr; subst.
        unfold b_status in A. cbn [snd] in A. destruct (edges_of g id' (dflip d')); [discriminate|discriminate]. }
      exists res. rewrite app_length in L2. cbn in L2. repeat split; auto; try lia. intros _ Z. subst res. cbn in L2. lia.
Qed.

Lemma expand_state_total (g : graph) s : state_ok g s -> live g s -> b_status s = st_active ->
  exists res, expand_state g s = Some res /\ Forall (live g) res /\ res <> [].
Proof.
  intros S L A. rewrite expand_state_eq. destruct S as [NE [[Hr Hc] ND]].
  destruct (rev (b_path s)) as [|[id d] r] eqn:R.
  { exfalso. apply NE. rewrite <- (rev_involutive (b_path s)), R. reflexivity. }
  assert (Hid : id < length g).
  { apply (Hr (id, d)). apply in_rev. rewrite R. now left. }
  rewrite (edges_of_Some D K stranded g id (dflip d) Hid).
  destruct (exp_fold_total g s id d (conj NE (conj (conj Hr Hc) ND)) (edges_of g id (dflip d)) (fun e H => H) [] (Forall_nil _))
    as [res [E [L1 [_ L3]]]].
  exists res. split; [exact E|]. split; [exact L1|]. apply L3. exact (L A id d r R).
Qed.

Lemma expand_all_total (g : graph) : forall states, Forall (state_ok g) states -> Forall (live g) states ->
  exists new, expand_all g states = Some new /\ Forall (live g) new /\ (states <> [] -> new <> []).
Proof.
  induction states as [|s l IH]; intros So Li.
  - exists []. cbn. repeat split; auto.
  - inversion So; inversion Li; subst. destruct (IH H2 H6) as [b [Eb [Lb _]]]. cbn [Beam.expand_all]. rewrite Eb.
    destruct (b_status s =? st_active)%N eqn:A.
    + apply N.eqb_eq in A. destruct (expand_state_total g s H1 H5 A) as [a [Ea [La Na]]]. rewrite Ea.
      exists (a ++ b). split; [reflexivity|]. split; [now apply Forall_app|]. intros _ Z. apply app_eq_nil in Z as [Z _]. auto.
    + exists ([s] ++ b). split; [reflexivity|]. split; [constructor; assumption|]. intros _ Z. discriminate.
Qed.

Lemma select_nonempty beam (new : list bstate) : 0 < beam -> new <> [] -> firstn beam (sort_states new) <> [].
Proof.
  intros B N Z. assert (L : length (firstn beam (sort_states new)) = 0) by (rewrite Z; reflexivity).
  rewrite firstn_length in L. unfold sort_states in L. rewrite length_sort_by in L. destruct new; [congruence|]. cbn in L. lia.
Qed.

Lemma beam_loop_total (g : graph) beam : 0 < beam -> forall fuel r states,
  r <= length g -> length g - r < fuel -> states <> [] ->
  round_inv g r states -> Forall (live g) states ->
  exists res, beam_loop fuel g beam states = Some res /\ res <> [].
Proof.
  intro B. induction fuel as [|fuel IH]; intros r states Hr Hf NE I L; [lia|].
  cbn [Beam.beam_loop].
  assert (So : Forall (state_ok g) states) by (eapply Forall_impl; [|exact I]; intros s [H _]; exact H).
  destruct (expand_all_total g states So L) as [new [X [Ln Nn]]]. rewrite X.
  pose proof (round_select g (S r) beam new (expand_all_ok g r states new I X)) as I'.
  assert (NE' : firstn beam (sort_states new) <> []) by (apply select_nonempty; auto).
  destruct (existsb (fun s => (b_status s =? st_active)%N) states) eqn:A.
  - (* some state is Active: its path has r+1 pairwise distinct nodes < length g *)
    apply existsb_exists in A as [s [Hs As]]. apply N.eqb_eq in As.
    unfold round_inv in I. rewrite Forall_forall in I. destruct (I s Hs) as [[_ [[Hr' _] ND]] Hl]. specialize (Hl As).
    assert (length (map fst (b_path s)) <= length g).
    { apply nodup_le_range; [exact ND|]. intros x Hx. apply in_map_iff in Hx as [y [<- Hy]]. now apply Hr'. }
    rewrite map_length, Hl in H.
    apply (IH (S r)); try lia; auto.
    rewrite Forall_forall in *. intros s' Hs'. apply Ln. apply in_firstn in Hs'. unfold sort_states in Hs'. now apply in_sort_by in Hs'.
  - eexists. split; [reflexivity|exact NE'].
Qed.

Theorem beam_total (g : graph) beam : 0 < beam -> terminal_bits_resolve g ->
  exists p, max_path_beam g beam = Some p.
Proof.
  intros B T. unfold Beam.max_path_beam. destruct g as [|n g'] eqn:G; [now exists []|]. rewrite <- G in T |- *.
  assert (NE : g <> []) by (rewrite G; discriminate).
  pose proof (init_round g NE) as I.
  assert (NI : beam_init D score g <> []).
  { unfold beam_init. destruct (flat_map _ _); discriminate. }
  destruct (beam_loop_total g beam B (S (S (length g))) 0 (beam_init D score g)) as [res [E N]]; try lia; auto.
  { now apply init_live. }
  rewrite E. destruct res as [|s l]; [congruence|]. now exists (b_path s).
Qed.
End BeamProofs.

(* ------------------------------------------------------------------ the code before fix F10, and non-vacuity *)
(* K = 3, stranded.  Node 0 = AACGAA closes on itself (GAA.C = AAC: a loop of four 3-mers), node 1 = TTAA is a tip
   leading into it (TAA.C = AAC).  The beam search starts at the tip, walks into the loop and meets node 0 again. *)
Definition beam_ex_g : graph Z := [([0;0;1;2;0;0]%N, 44%N, 38%Z); ([3;3;0;0]%N, 32%N, 13%Z)].

(* before the fix: the node reached again was appended to the path - node 0 occurs twice in the returned best path *)
Lemma beam_repeats_refuted :
  exists p, Beam.max_path_beam Z 3 true (fun d => d) true beam_ex_g 1 = Some p /\ ~ NoDup (map fst p).
Proof.
  exists [(1, DLeft); (0, DLeft); (0, DLeft)]. split; [vm_compute; reflexivity|].
  cbn. intro H. inversion H as [|? ? _ H1]; subst. inversion H1 as [|? ? N _]; subst. apply N. now left.
Qed.

(* the repaired code on the same graph; the graph meets the hypothesis of beam_total *)
Example beam_nonvacuous :
  Beam.max_path_beam Z 3 true (fun d => d) false beam_ex_g 1 = Some [(1, DLeft); (0, DLeft)] /\
  Beam.max_path_beam Z 3 true (fun d => d) false beam_ex_g 3 = Some [(1, DLeft); (0, DLeft)] /\
  terminal_bits_resolve Z 3 true beam_ex_g.
Proof.
  split; [vm_compute; reflexivity|]. split; [vm_compute; reflexivity|].
  apply resolvable_terminal. apply (chk_valid_graph_sound Z 3 true beam_ex_g). vm_compute. reflexivity.
Qed.
