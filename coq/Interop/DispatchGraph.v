(* Dispatch table for graph construction and queries (c., g., chk.c01, chk.c02 ...). *)
From Coq Require Import NArith ZArith List Bool String.
From DBG Require Import Interop.Val Spec.Dna Spec.GraphIndex Spec.Unitig Packed.ExtsModel Algo.Compress Algo.GraphModel
  Algo.Recompress Check.GraphCheck Check.PayloadOrder.
Import ListNotations.
Open Scope N_scope.

(* table entry ( kmer exts colour id ) ; node ( seq exts colour ( ids ) ) *)
Definition v_entry (v : val) : option (entry pay) :=
  match v with
  | VL [VL k; VN e; VN c; VN id] => match vlistN k with Some d => Some (d, e, (c, [id])) | None => None end
  | _ => None
  end.
Definition v_node (v : val) : option node_t :=
  match v with
  | VL [VL s; VN e; VN c; VL ids] => match vlistN s, vlistN ids with Some d, Some l => Some (d, e, (c, l)) | _, _ => None end
  | _ => None
  end.
Definition of_node (n : node_t) : val := VL [ofNs (fst (fst n)); VN (snd (fst n)); VN (fst (snd n)); ofNs (snd (snd n))].
Definition v_dir (v : val) : option dir := match v with VN 0 => Some DLeft | VN _ => Some DRight | _ => None end.
Definition of_dir (d : dir) : val := VN (match d with DLeft => 0 | DRight => 1 end).
Definition of_link (l : link) : val := VL [ofnat (fst (fst l)); of_dir (snd (fst l)); ofbool (snd l)].
Definition of_olink (o : option link) : val := match o with Some l => VL [of_link l] | None => VL [] end.
Definition v_path (v : val) : option (list (nat * dir)) :=
  match v with
  | VL l => omap (fun x => match x with VL [VN i; d] => match v_dir d with Some d' => Some (N.to_nat i, d') | None => None end | _ => None end) l
  | _ => None
  end.
Definition of_path (p : list (nat * dir)) : val := VL (map (fun x => VL [ofnat (fst x); of_dir (snd x)]) p).

Definition graph_ops : list (string * handler) :=
  [ ("c.compress"%string, fun a => match a with [VN k; st; VN mode; VL tbl] =>
        match vbool st, omap v_entry tbl with
        | Some s, Some T => Some (ofopt (fun g => VL (map of_node g)) (compress_kmers pay pay_reduce (pay_join mode) s T))
        | _, _ => None end | _ => None end);
    (* the shipped ScmapCompress: join = payload equality, reduce keeps the payload; payload = colour (ids dropped) *)
    ("c.compress_scmap"%string, fun a => match a with [VN k; st; VL tbl] =>
        match vbool st, omap v_entry tbl with
        | Some s, Some T => Some (ofopt (fun g => VL (map (fun n => of_node (fst n, (fst (snd n), []))) g))
                                        (compress_kmers pay pay_reduce (pay_join 1) s T))
        | _, _ => None end | _ => None end);
    ("c.derive_exts"%string, fun a => match a with [st; VL ks] =>
        match vbool st, omap vNs ks with
        | Some s, Some keys => Some (ofNs (map (derive_exts s keys) keys)) | _, _ => None end | _ => None end);
    ("chk.c01"%string, fun a => match a with [VN k; st; VL tbl; VL nodes] =>
        match vbool st, omap v_entry tbl, omap v_node nodes with
        | Some s, Some T, Some ns => Some (ofbool (chk_c01 (N.to_nat k) s T ns)) | _, _, _ => None end | _ => None end);
    ("chk.c01.parts"%string, fun a => match a with [VN k; st; VL tbl; VL nodes] =>
        match vbool st, omap v_entry tbl, omap v_node nodes with
        | Some s, Some T, Some ns =>
            let K := N.to_nat k in
            Some (VL [ofbool (chk_partition K s T ns); ofbool (chk_steps K s T ns); ofbool (chk_payload K s T ns);
                      ofbool (chk_terminal_exts K s T ns)]) | _, _, _ => None end | _ => None end);
    ("chk.c01.order"%string, fun a => match a with [VN k; st; VL tbl; VL nodes] =>
        match vbool st, omap v_entry tbl, omap v_node nodes with
        | Some s, Some T, Some ns => Some (ofbool (chk_payload_order (N.to_nat k) s T ns)) | _, _, _ => None end | _ => None end);
    ("chk.c02"%string, fun a => match a with [VN k; st; VN mode; VL tbl; VL nodes] =>
        match vbool st, omap v_entry tbl, omap v_node nodes with
        | Some s, Some T, Some ns => Some (ofbool (chk_c02 (N.to_nat k) s mode T ns)) | _, _, _ => None end | _ => None end)
  ].
Definition d_graph : string -> val -> option val := run_table graph_ops.
