(* Dispatch table for C09 (graph re-compression): r.compress_graph (model), chk.c09.* (verified checkers run on the
   implementation's outputs). *)
From Coq Require Import NArith List Bool String.
From DBG Require Import Interop.Val Spec.Dna Spec.GraphIndex Packed.ExtsModel Algo.Compress Algo.GraphModel
  Algo.Recompress Algo.IsCompressed Algo.CleanGraph Check.RecompCheck Check.RecompLooseCheck Check.RecompOrder.
Import ListNotations.
Open Scope N_scope.

(* node ( seq exts colour ( ids ) ) ; censor: ( ) = None, ( ( ids ) ) = Some ids *)
Definition rv_node (v : val) : option rnode :=
  match v with
  | VL [VL s; VN e; VN c; VL ids] => match vlistN s, vlistN ids with Some d, Some l => Some (d, e, (c, l)) | _, _ => None end
  | _ => None
  end.
Definition rof_node (n : rnode) : val := VL [ofNs (fst (fst n)); VN (snd (fst n)); VN (fst (snd n)); ofNs (snd (snd n))].
Definition rv_graph (v : val) : option (list rnode) := match v with VL l => omap rv_node l | _ => None end.
Definition rv_censor (v : val) : option (option (list nat)) :=
  match v with
  | VL [] => Some None
  | VL [VL ids] => match vlistN ids with Some l => Some (Some (map N.to_nat l)) | None => None end
  | _ => None
  end.

(* a reduction for which payload equality is NOT a congruence: colours are summed (ids appended) *)
Definition rpay_reduce_sum (a b : rpay) : rpay := (fst a + fst b, snd a ++ snd b).
Definition of_opair (o : option (nat * nat)) : val :=
  match o with Some (a, b) => VL [VL [ofnat a; ofnat b]] | None => VL [] end.

Definition recomp_ops : list (string * handler) :=
  [ ("r.compress_graph"%string, fun a => match a with [VN k; st; VN mode; g; c] =>
        match vbool st, rv_graph g, rv_censor c with
        | Some s, Some G, Some C =>
            Some (ofopt (fun o => VL (map rof_node o))
                        (compress_graph rpay rpay_reduce (rpay_join mode) (N.to_nat k) s G C))
        | _, _, _ => None end | _ => None end);
    ("chk.c09.valid_input"%string, fun a => match a with [VN k; st; g] =>
        match vbool st, rv_graph g with
        | Some s, Some G => Some (ofbool (rvalidb rpay (N.to_nat k) s G)) | _, _ => None end | _ => None end);
    ("chk.c09.valid_input_loose"%string, fun a => match a with [VN k; st; g] =>
        match vbool st, rv_graph g with
        | Some s, Some G => Some (ofbool (rvalid_looseb rpay (N.to_nat k) s G))
        | _, _ => None end | _ => None end);
    ("chk.c09.kmers"%string, fun a => match a with [VN k; st; g; c; o] =>
        match vbool st, rv_graph g, rv_censor c, rv_graph o with
        | Some s, Some G, Some C, Some Og => Some (ofbool (chk_kmers rpay (N.to_nat k) s G C Og))
        | _, _, _, _ => None end | _ => None end);
    ("chk.c09.maximal"%string, fun a => match a with [VN k; st; VN mode; g; c; o] =>
        match vbool st, rv_graph g, rv_censor c, rv_graph o with
        | Some s, Some G, Some C, Some Og => Some (ofbool (chk_maximal rpay (rpay_join mode) (N.to_nat k) s G C Og))
        | _, _, _, _ => None end | _ => None end);
    ("chk.c09.exts"%string, fun a => match a with [VN k; st; g; c; o] =>
        match vbool st, rv_graph g, rv_censor c, rv_graph o with
        | Some s, Some G, Some C, Some Og => Some (ofbool (chk_exts rpay (N.to_nat k) s G C Og))
        | _, _, _, _ => None end | _ => None end);
    ("chk.c09.no_panic"%string, fun a => match a with [VN k; st; g] =>
        match vbool st, rv_graph g with
        | Some s, Some G => Some (ofbool (rvalidb rpay (N.to_nat k) s G)) | _, _ => None end | _ => None end);
    ("chk.c09.no_dangling"%string, fun a => match a with [VN k; st; o] =>
        match vbool st, rv_graph o with
        | Some s, Some Og => Some (ofbool (chk_no_dangling rpay (N.to_nat k) s Og)) | _, _ => None end | _ => None end);
    ("chk.c09.payload"%string, fun a => match a with [VN k; st; g; o] =>
        match vbool st, rv_graph g, rv_graph o with
        | Some s, Some G, Some Og => Some (ofbool (chk_payload (N.to_nat k) s G Og)) | _, _, _ => None end | _ => None end);
    (* DebruijnGraph::is_compressed of the crate (model Algo/IsCompressed.v), compared on implementation outputs *)
    ("r.is_compressed"%string, fun a => match a with [VN k; st; VN mode; g] =>
        match vbool st, rv_graph g with
        | Some s, Some G => Some (of_opair (is_compressed rpay (rpay_join mode) (N.to_nat k) s G)) | _, _ => None end | _ => None end);
    (* known finding F11: with join = colour equality and reduce = colour SUM the release build returns the graph the
       model returns; the debug build dies in debug_assert!(is_compressed == None).  1 = the model returns a graph *)
    ("chk.c09.dbg_assert"%string, fun a => match a with [VN k; st; g] =>
        match vbool st, rv_graph g with
        | Some s, Some G => Some (ofbool (match compress_graph rpay rpay_reduce_sum (rpay_join 1) (N.to_nat k) s G None with
                                          | Some _ => true | None => false end))
        | _, _ => None end | _ => None end);
    (* CleanGraph::find_bad_nodes with the predicate "node shorter than thr bases" *)
    ("r.find_bad_nodes"%string, fun a => match a with [VN thr; g] =>
        match rv_graph g with
        | Some G => Some (VL (map ofnat (find_bad_nodes rpay (fun n => Nat.ltb (length (fst (fst n))) (N.to_nat thr)) G)))
        | None => None end | _ => None end);
    ("chk.c09.payload_order"%string, fun a => match a with [VN k; st; g; o] =>
        match vbool st, rv_graph g, rv_graph o with
        | Some s, Some G, Some Og => Some (ofbool (chk_payload_order (N.to_nat k) s G Og)) | _, _, _ => None end | _ => None end);
    ("chk.c09.idempotent"%string, fun a => match a with [VN k; st; g; o] =>
        match vbool st, rv_graph g, rv_graph o with
        | Some s, Some G, Some Og => Some (ofbool (chk_same_nodes (N.to_nat k) s G Og)) | _, _, _ => None end | _ => None end);
    ("chk.c09.singleton_route"%string, fun a => match a with [VN k; st; g; o] =>
        match vbool st, rv_graph g, rv_graph o with
        | Some s, Some G, Some Og => Some (ofbool (chk_same_partition (N.to_nat k) s G Og)) | _, _, _ => None end | _ => None end)
  ].
Definition d_recomp : string -> val -> option val := run_table recomp_ops.
