(* Interchange values between the Rust harness, the OCaml driver and the extracted model.
   Text syntax (one token per whitespace-separated word):  hex number | ( v ... ) | "ACGT" | ! | ?  *)
From Coq Require Import NArith List Bool String.
Import ListNotations.
Open Scope N_scope.

Inductive val :=
| VN (n : N)            (* number *)
| VL (l : list val)     (* list / tuple *)
| VBot                  (* the implementation panicked / the model predicts a panic *)
| VAny.                 (* the model does not constrain the outcome (outside the claimed guard) *)

Fixpoint val_eqb (a b : val) : bool :=
  match a, b with
  | VN x, VN y => x =? y
  | VL x, VL y =>
      (fix go (x y : list val) : bool :=
         match x, y with
         | [], [] => true
         | u :: x', v :: y' => val_eqb u v && go x' y'
         | _, _ => false
         end) x y
  | VBot, VBot => true
  | VAny, VAny => true
  | _, _ => false
  end.

(* what the driver uses: the implementation result [impl] is accepted by the model result [m] *)
Fixpoint val_accepts (m impl : val) : bool :=
  match m, impl with
  | VAny, _ => true
  | VN x, VN y => x =? y
  | VL x, VL y =>
      (fix go (x y : list val) : bool :=
         match x, y with
         | [], [] => true
         | u :: x', v :: y' => val_accepts u v && go x' y'
         | _, _ => false
         end) x y
  | VBot, VBot => true
  | _, _ => false
  end.

Definition vN (v : val) : option N := match v with VN n => Some n | _ => None end.
Definition vnat (v : val) : option nat := match v with VN n => Some (N.to_nat n) | _ => None end.
Definition vbool (v : val) : option bool := match v with VN 0 => Some false | VN _ => Some true | _ => None end.
Fixpoint vlistN (l : list val) : option (list N) :=
  match l with
  | [] => Some []
  | VN n :: r => match vlistN r with Some t => Some (n :: t) | None => None end
  | _ => None
  end.
Definition vNs (v : val) : option (list N) := match v with VL l => vlistN l | _ => None end.
Definition vL (v : val) : option (list val) := match v with VL l => Some l | _ => None end.
Fixpoint omap {A B} (f : A -> option B) (l : list A) : option (list B) :=
  match l with
  | [] => Some []
  | x :: r => match f x, omap f r with Some y, Some t => Some (y :: t) | _, _ => None end
  end.

Definition ofN (n : N) : val := VN n.
Definition ofnat (n : nat) : val := VN (N.of_nat n).
Definition ofbool (b : bool) : val := VN (if b then 1 else 0).
Definition ofNs (l : list N) : val := VL (map VN l).
(* option-returning model function: None = panic *)
Definition ofopt {A} (f : A -> val) (o : option A) : val := match o with Some x => f x | None => VBot end.

(* named operation tables *)
Definition handler := list val -> option val.
Fixpoint lookup (op : string) (tbl : list (string * handler)) : option handler :=
  match tbl with
  | [] => None
  | (n, h) :: r => if String.eqb op n then Some h else lookup op r
  end.
Definition run_table (tbl : list (string * handler)) (op : string) (v : val) : option val :=
  match v with
  | VL args => match lookup op tbl with Some h => h args | None => None end
  | _ => None
  end.
Definition vdir (v : val) : option bool := vbool v.
Definition ofoptN (o : option N) : val := match o with Some x => VL [VN x] | None => VL [] end.
