(* Dispatch table for `Exts` (model level `e.*`, specification level `s.e.*`). *)
From Coq Require Import NArith List Bool String.
From DBG Require Import Interop.Val Spec.Dna Packed.ExtsModel.
Import ListNotations.
Open Scope N_scope.

Definition dirb (d : N) : bool := negb (d =? 0).
Definition sets_of (e : N) : val := VL [ofNs (exts_left e); ofNs (exts_right e)].

Definition exts_ops : list (string * handler) :=
  [ ("e.rc"%string, fun a => match a with [VN e] => Some (VN (e_rc e)) | _ => None end);
    ("e.complement"%string, fun a => match a with [VN e] => Some (VN (e_complement e)) | _ => None end);
    ("e.reverse"%string, fun a => match a with [VN e] => Some (VN (e_reverse e)) | _ => None end);
    ("e.get"%string, fun a => match a with [VN e; VN d] => Some (ofNs (e_get e (dirb d))) | _ => None end);
    ("e.has_ext"%string, fun a => match a with [VN e; VN d; VN b] => Some (ofbool (e_has_ext e (dirb d) b)) | _ => None end);
    ("e.set"%string, fun a => match a with [VN e; VN d; VN b] => Some (ofopt ofN (e_set e (dirb d) b)) | _ => None end);
    ("e.merge"%string, fun a => match a with [VN l; VN r] => Some (VN (e_merge l r)) | _ => None end);
    ("e.from_single_dirs"%string, fun a => match a with [VN l; VN r] => Some (VN (e_from_single_dirs l r)) | _ => None end);
    ("e.add"%string, fun a => match a with [VN l; VN r] => Some (VN (e_add l r)) | _ => None end);
    ("e.num_ext_dir"%string, fun a => match a with [VN e; VN d] => Some (VN (e_num_ext_dir e (dirb d))) | _ => None end);
    ("e.get_unique_extension"%string, fun a => match a with [VN e; VN d] => Some (ofoptN (e_get_unique_extension e (dirb d))) | _ => None end);
    ("e.single_dir"%string, fun a => match a with [VN e; VN d] => Some (VN (e_single_dir e (dirb d))) | _ => None end);
    ("e.mk"%string, fun a => match a with [VN l; VN r] => Some (ofopt ofN (e_mk l r)) | _ => None end);
    ("e.mk_left"%string, fun a => match a with [VN l] => Some (ofopt ofN (e_mk_left l)) | _ => None end);
    ("e.mk_right"%string, fun a => match a with [VN l] => Some (ofopt ofN (e_mk_right l)) | _ => None end);
    ("e.from_slice_bounds"%string, fun a => match a with [VL src; VN st; VN len] => match vlistN src with
        | Some d => Some (VN (e_from_slice_bounds d (N.to_nat st) (N.to_nat len))) | None => None end | _ => None end);
    (* the two sets of an extension byte, as the model reads them (compared with get(Left), get(Right)) *)
    ("e.sets"%string, fun a => match a with [VN e] => Some (sets_of e) | _ => None end);
    (* specification level: input = the two sets as reported by the implementation *)
    ("s.e.rc"%string, fun a => match a with [VL l; VL r] => match vlistN l, vlistN r with
        | Some L, Some R => Some (VL [ofNs (rev (map comp R)); ofNs (rev (map comp L))]) | _, _ => None end | _ => None end);
    ("s.e.set"%string, fun a => match a with [VL l; VL r; VN d; VN b] => match vlistN l, vlistN r with
        | Some L, Some R =>
            let ins (S : list N) := filter (fun c => existsb (N.eqb c) S || (c =? b)) [0; 1; 2; 3] in
            Some (if dirb d then VL [ofNs L; ofNs (ins R)] else VL [ofNs (ins L); ofNs R]) | _, _ => None end | _ => None end);
    ("s.e.merge"%string, fun a => match a with [VL l1; VL r1; VL l2; VL r2] => match vlistN l1, vlistN r2 with
        | Some L, Some R => Some (VL [ofNs L; ofNs R]) | _, _ => None end | _ => None end);
    ("s.e.unique"%string, fun a => match a with [VL l; VL r; VN d] => match vlistN l, vlistN r with
        | Some L, Some R => Some (match (if dirb d then R else L) with [b] => VL [VN b] | _ => VL [] end) | _, _ => None end | _ => None end);
    ("s.e.num"%string, fun a => match a with [VL l; VL r; VN d] => match vlistN l, vlistN r with
        | Some L, Some R => Some (VN (N.of_nat (length (if dirb d then R else L)))) | _, _ => None end | _ => None end);
    ("s.e.bounds"%string, fun a => match a with [VL src; VN st; VN len] => match vlistN src with
        | Some d => let s := N.to_nat st in let n := N.to_nat len in
            Some (VL [ofNs (if Nat.ltb 0 s then [nth (s - 1) d 0] else []);
                      ofNs (if Nat.ltb (s + n) (length d) then [nth (s + n) d 0] else [])])
        | None => None end | _ => None end)
  ].
Definition d_exts : string -> val -> option val := run_table exts_ops.
