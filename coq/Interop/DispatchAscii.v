(* Named operations of C16 (ASCII ingestion).  Model-level ops: prefix "a."; Layer-S functions: "s.a.";
   verified checkers: "chk.a.".  A DnaString travels as ( ( block ... ) len ). *)
From Coq Require Import NArith List Bool String.
From DBG Require Import Interop.Val Spec.Dna Spec.Ascii Packed.Avx2Model Packed.AsciiModel.
Import ListNotations.
Open Scope N_scope.

Definition ahandler := list val -> option val.
Fixpoint alookup (op : string) (tbl : list (string * ahandler)) : option ahandler :=
  match tbl with
  | [] => None
  | (n, h) :: r => if String.eqb op n then Some h else alookup op r
  end.

Definition of_ds (d : dstr) : val := VL [ofNs (ds_storage d); ofnat (ds_len d)].
Definition v_ds (v : val) : option dstr :=
  match v with
  | VL [VL st; VN n] => match vlistN st with Some s => Some (mkds s (N.to_nat n)) | None => None end
  | _ => None
  end.
Definition with_bytes (f : list N -> val) : ahandler :=
  fun a => match a with [VL l] => match vlistN l with Some bs => Some (f bs) | None => None end | _ => None end.

Definition ascii_ops : list (string * ahandler) :=
  [ (* model level *)
    ("a.avx"%string, with_bytes (fun bs => ofopt of_ds (from_acgt_bytes_avx2 bs)));
    ("a.scalar"%string, with_bytes (fun bs => ofopt of_ds (from_acgt_bytes_scalar bs)));
    ("a.str"%string, with_bytes (fun cs => ofopt of_ds (from_dna_string cs)));
    ("a.only"%string, with_bytes (fun cs => ofopt (fun l => VL (map of_ds l)) (from_dna_only_string cs)));
    ("a.only_u"%string, with_bytes (fun cs => ofopt (fun l => VL (map of_ds l)) (from_dna_only_string cs)));
    ("a.only_old"%string, with_bytes (fun cs => ofopt (fun l => VL (map of_ds l)) (from_dna_only_string_old cs)));
    (* ( bytes name hashes ): hashes[pos] = the observed DefaultHasher value for (name, pos) *)
    ("a.hashn"%string, fun a => match a with [VL l; VL nm; VL hs] =>
        match vlistN l, vlistN nm, vlistN hs with
        | Some bs, Some name, Some hv => Some (ofopt of_ds (from_acgt_bytes_hashn (fun _ pos => nth pos hv 0) bs name))
        | _, _, _ => None end | _ => None end);
    ("a.to_ascii"%string, fun a => match a with [d] => match v_ds d with Some x => Some (ofopt ofNs (to_ascii_vec x)) | None => None end | _ => None end);
    ("a.to_string"%string, fun a => match a with [d] => match v_ds d with Some x => Some (ofopt ofNs (ds_to_string x)) | None => None end | _ => None end);
    ("a.to_bytes"%string, fun a => match a with [d] => match v_ds d with Some x => Some (ofopt ofNs (ds_to_bytes x)) | None => None end | _ => None end);
    (* the kernels (not reachable from outside the crate; for replay by hand) *)
    ("a.convert"%string, with_bytes (fun bs => ofopt (fun p => VL [ofNs (fst p); ofbool (snd p)]) (convert_bases bs)));
    ("a.pack"%string, with_bytes (fun bs => VN (pack_32_bases bs)));
    (* specification level *)
    ("s.a.bases"%string, with_bytes (fun bs => ofNs (map ascii_base bs)));
    ("s.a.str"%string, with_bytes (fun bs => ofNs (map ascii_base bs)));
    (* C14 reading of the str constructor on ARBITRARY text: one base per char, the table value at ASCII chars; the
       base at a non-ASCII char is left open (4 = any base) *)
    ("s.a.strmask"%string, with_bytes (fun cs => ofNs (map (fun c => if c <? 128 then ascii_base c else 4) cs)));
    ("s.a.packed"%string, with_bytes (fun bs => of_ds (ds_of_dna (map ascii_base bs))));
    ("s.a.render"%string, with_bytes (fun bs => ofNs (render bs)));
    ("s.a.runs"%string, with_bytes (fun cs => VL (map ofNs (acgt_runs cs))));
    ("s.a.runs_u"%string, with_bytes (fun cs => VL (map ofNs (acgt_runs cs))));
    ("chk.a.hashn"%string, fun a => match a with [VL l; VL r] =>
        match vlistN l, vlistN r with Some bs, Some res => Some (ofbool (hashn_ok bs res)) | _, _ => None end | _ => None end);
    ("chk.a.hashn_local"%string, fun a => match a with [VL l1; VL r1; VL l2; VL r2] =>
        match vlistN l1, vlistN r1, vlistN l2, vlistN r2 with
        | Some b1, Some s1, Some b2, Some s2 => Some (ofbool (hashn_local b1 s1 b2 s2))
        | _, _, _, _ => None end | _ => None end);
    ("chk.a.same"%string, fun a => match a with [x; y] => Some (ofbool (val_eqb x y)) | _ => None end);
    ("chk.a.inv"%string, fun a => match a with [d] => match v_ds d with Some x => Some (ofbool (ds_inv x)) | None => None end | _ => None end)
  ].

Definition is_ascii_op (op : string) : bool :=
  String.eqb (substring 0 2 op) "a." || String.eqb (substring 0 4 op) "s.a." || String.eqb (substring 0 6 op) "chk.a.".

Definition d_ascii (op : string) (v : val) : option val :=
  match v with
  | VL args => match alookup op ascii_ops with Some h => h args | None => None end
  | _ => None
  end.
