(* Named operations of property C19 (prefix "chk." = specification level, "bb." = BBHash model level). *)
From Coq Require Import NArith List Bool String Arith.
From DBG Require Import Interop.Val Spec.Dna Spec.GraphIndex Algo.BBHash.
Import ListNotations.
Open Scope N_scope.

Definition vdir (v : val) : option dir := match v with VN 0 => Some DLeft | VN _ => Some DRight | _ => None end.
Definition ofdir (d : dir) : val := VN (match d with DLeft => 0 | DRight => 1 end).
Definition oflink (r : option link) : val :=
  match r with
  | None => VL []
  | Some (i, d, f) => VL [ofnat i; ofdir d; ofbool f]
  end.

(* ( kmer dir ) *)
Definition vquery (v : val) : option (dna * dir) :=
  match v with
  | VL [VL k; d] => match vlistN k, vdir d with Some k', Some d' => Some (k', d') | _, _ => None end
  | _ => None
  end.
(* ( id dir ( ext bases ) ) *)
Definition vequery (v : val) : option (nat * dir * list N) :=
  match v with
  | VL [VN id; d; VL e] => match vdir d, vlistN e with Some d', Some e' => Some (N.to_nat id, d', e') | _, _ => None end
  | _ => None
  end.

(* positions of the set bits of a level *)
Fixpoint setbits_from (i : nat) (b : bv) : list nat :=
  match b with
  | [] => []
  | x :: r => if x then i :: setbits_from (S i) r else setbits_from (S i) r
  end.

Fixpoint assoc_nat (n : nat) (l : list (nat * nat)) : nat :=
  match l with
  | [] => O
  | (a, b) :: r => if Nat.eqb a n then b else assoc_nat n r
  end.
Definition vpair_nat (v : val) : option (nat * nat) :=
  match v with VL [VN a; VN b] => Some (N.to_nat a, N.to_nat b) | _ => None end.
Definition vnats (v : val) : option (list nat) := match vNs v with Some l => Some (map N.to_nat l) | None => None end.

(* the model run on observed oracles: key j = j-th input key; h = table of recomputed slots;
   sz = the (remaining keys -> level size) pairs read off the serialised levels *)
Definition index_model (lens : list (nat * nat)) (slots : list (list nat)) : val :=
  let h := fun (iter size : nat) (k : key) => nth iter (nth (N.to_nat k) slots []) O in
  let sz := fun n => assoc_nat n lens in
  let n := length slots in
  let keys := map N.of_nat (seq 0 n) in
  match mphf_new h sz keys with
  | None => VBot
  | Some m =>
      let table := create_map h (combine keys (seq 0 n)) m in
      VL [VL (map (fun b => VL (map ofnat (setbits_from 0 b))) m);
          VL (map (fun e => match e with Some (_, v) => ofnat v | None => VBot end) table)]
  end.

(* one level of the PARALLEL construction executed by the small-step semantics under a given schedule:
   ( size slots ( ( thread stale ) .. ) ( thread .. ) )  ->  ( set bits of a ) ( positions of the redo keys ) all-done *)
Definition vevent (v : val) : option (nat * bool) :=
  match v with VL [VN i; VN st] => Some (N.to_nat i, negb (st =? 0)) | _ => None end.
Definition sched_model (size : nat) (slots : list nat) (s1 : list (nat * bool)) (s2 : list nat) : val :=
  let n := length slots in
  let st1 := run1 slots s1 (init1 n size) in
  let st2 := run2 slots (sc st1) s2 (init2 n (sa st1)) in
  VL [VL (map ofnat (setbits_from 0 (sa2 st2)));
      VL (map ofN (collect (map N.of_nat (seq 0 n)) (pcs2 st2)));
      ofbool (done1b slots st1 && forallb (fun i => pc2_done (nth i (pcs2 st2) Qnone)) (seq 0 n))].

Definition d_bbhash (op : string) (v : val) : option val :=
  if String.eqb op "chk.same_graph" || String.eqb op "chk.same_api" || String.eqb op "chk.oracle" then
    match v with
    | VL [_; a; b] => Some (ofbool (val_eqb a b))
    | _ => None
    end
  else if String.eqb op "chk.find_link" then
    match v with
    | VL [VN k; st; VL seqs; VL qs] =>
        match vbool st, omap vNs seqs, omap vquery qs with
        | Some st', Some seqs', Some qs' =>
            (* = map (find_link_spec K st seqs) qs, with the two end lists computed once *)
            let lefts := ends_of (N.to_nat k) seqs' DLeft in
            let rights := ends_of (N.to_nat k) seqs' DRight in
            Some (VL (map (fun q => oflink (find_link_ends st' lefts rights (fst q) (snd q))) qs'))
        | _, _, _ => None
        end
    | _ => None
    end
  else if String.eqb op "chk.edges" then
    match v with
    | VL [VN k; st; VL seqs; VL qs] =>
        match vbool st, omap vNs seqs, omap vequery qs with
        | Some st', Some seqs', Some qs' =>
            let lefts := ends_of (N.to_nat k) seqs' DLeft in
            let rights := ends_of (N.to_nat k) seqs' DRight in
            Some (VL (map (fun q => match q with (id, d, e) =>
                        VL (map (fun x => oflink (Some x)) (edges_ends st' lefts rights id d e)) end) qs'))
        | _, _, _ => None
        end
    | _ => None
    end
  else if String.eqb op "bb.sched" then
    match v with
    | VL [VN size; slots; VL s1; s2] =>
        match vnats slots, omap vevent s1, vnats s2 with
        | Some slots', Some s1', Some s2' => Some (sched_model (N.to_nat size) slots' s1' s2')
        | _, _, _ => None
        end
    | _ => None
    end
  else if String.eqb op "bb.index" then
    match v with
    | VL [VL lens; VL slots] =>
        match omap vpair_nat lens, omap vnats slots with
        | Some lens', Some slots' => Some (index_model lens' slots')
        | _, _ => None
        end
    | _ => None
    end
  else None.
