(* Named operations of the filter model (C05, C06 filter half).
   read   = ( "ACGT" exts label )
   s.filter      ( K stranded report_all kind threshold reads )                      -> ( table all )
   f.filter      ( K stranded report_all kind threshold size_of memory_size unit reads ) -> ( table all passes ) | !
   chk.filter_rc ( K report_all kind threshold reads flips impl_table impl_all )      -> 1 iff the implementation's result on
                 the flipped reads is related (table_rel) to the reference grouping of the unflipped reads
   table  = ( ( kmer exts data ) .. ) sorted by k-mer; data = count (kind 0, CountFilter) | ( labels ) (kind 1, CountFilterSet) *)
From Coq Require Import NArith List Bool String.
From DBG Require Import Interop.Val Spec.Dna Packed.ExtsMini Algo.KmerHist Algo.Filter.
Import ListNotations.
Open Scope N_scope.

Definition v_read (v : val) : option (dna * N * N) :=
  match v with
  | VL [VL s; VN e; VN d] => match vlistN s with Some s' => Some (s', e, d) | None => None end
  | _ => None
  end.
Definition v_reads (v : val) : option (list (dna * N * N)) := match v with VL l => omap v_read l | _ => None end.
Definition summ (kind thr : N) (items : list (@obs N)) : bool * N * val :=
  if kind =? 0 then let r := count_filter thr items in (fst r, VN (snd r))
  else let r := count_filter_set thr items in (fst r, ofNs (snd r)).
Definition of_entry (x : dna * N * val) : val := VL [ofNs (fst (fst x)); VN (snd (fst x)); snd x].
Definition of_out (o : @out val) : list val := [VL (map of_entry (fst o)); VL (map ofNs (snd o))].
Definition v_entry (v : val) : option (dna * N * val) :=
  match v with
  | VL [VL k; VN e; d] => match vlistN k with Some k' => Some (k', e, d) | None => None end
  | _ => None
  end.
Definition v_bools (v : val) : option (list bool) := match v with VL l => omap vbool l | _ => None end.

Definition d_filter (op : string) (v : val) : option val :=
  if String.eqb op "s.filter" || String.eqb op "s.filter_get" then
    match v with
    | VL [VN k; VN st; VN ra; VN kind; VN thr; rs] =>
        match v_reads rs with
        | Some reads => Some (VL (of_out (reference (summ kind thr) (negb (ra =? 0)) (N.to_nat k) (negb (st =? 0)) reads)))
        | None => None
        end
    | _ => None
    end
  else if String.eqb op "f.filter" then
    match v with
    | VL [VN k; VN st; VN ra; VN kind; VN thr; VN size_of; VN mem; VN unit; rs] =>
        match v_reads rs with
        | Some reads =>
            Some (match filter_kmers (summ kind thr) (negb (ra =? 0)) (N.to_nat k) (negb (st =? 0)) size_of mem unit reads with
                  | Some (o, passes) => VL (of_out o ++ [ofnat passes])
                  | None => VBot
                  end)
        | None => None
        end
    | _ => None
    end
  else if String.eqb op "chk.filter_rc" then
    match v with
    | VL [VN k; VN ra; VN kind; VN thr; rs; fl; VL tbl; VL all] =>
        match v_reads rs, v_bools fl, omap v_entry tbl, omap vNs all with
        | Some reads, Some flips, Some t, Some a =>
            Some (ofbool (table_rel val_eqb (reference (summ kind thr) (negb (ra =? 0)) (N.to_nat k) false reads) (t, a)))
        | _, _, _, _ => None
        end
    | _ => None
    end
  else None.
