(* Dispatch table of the C01/C02 hypothesis checkers and of the path-form C02 checker. *)
From Coq Require Import NArith ZArith List Bool String.
From DBG Require Import Interop.Val Spec.Dna Spec.GraphIndex Spec.Unitig Packed.ExtsModel Algo.Compress
  Check.GraphCheck Check.CompressHyp Check.UnitigCheck Check.ChainCheck Interop.DispatchGraph.
Import ListNotations.
Open Scope N_scope.

Definition unitig_ops : list (string * handler) :=
  [ ("chk.c01.hyp"%string, fun a => match a with [VN k; st; VL tbl] =>
        match vbool st, omap v_entry tbl with
        | Some s, Some T => Some (VL [ofbool (tbl_okb pay (N.to_nat k) s T); ofbool (exts_symb pay s T)])
        | _, _ => None end | _ => None end);
    ("chk.c02.hyp"%string, fun a => match a with [VN k; st; VL tbl] =>
        match vbool st, omap v_entry tbl with
        | Some s, Some T => Some (VL [ofbool (tbl_okb pay (N.to_nat k) s T); ofbool (exts_symb pay s T);
                                      ofbool (exts_closedb pay s T)])
        | _, _ => None end | _ => None end);
    (* a table that is ONE simple chain, entries in chain order (linear-time checker, Check/ChainCheck.v): hypothesis of
       C02_chain_single_node; and its conclusion read on an implementation output: exactly one node of n + K - 1 bases *)
    ("chk.c02.chain"%string, fun a => match a with [VN k; st; VN mode; VL tbl] =>
        match vbool st, omap v_entry tbl with
        | Some s, Some T => Some (ofbool (chain_table_okb pay (pay_join mode) (N.to_nat k) s T))
        | _, _ => None end | _ => None end);
    ("chk.c02.single_node"%string, fun a => match a with [VN k; VN nkeys; VL nodes] =>
        match omap v_node nodes with
        | Some ns => Some (ofbool (chk_single_node pay (N.to_nat k) ns (N.to_nat nkeys)))
        | None => None end | _ => None end);
    ("chk.total"%string, fun a => match a with [VN k; st; VN mode; VL tbl] =>
        match vbool st, omap v_entry tbl with
        | Some s, Some T => Some (ofbool (match compress_kmers pay pay_reduce (pay_join mode) s T with Some _ => true | None => false end))
        | _, _ => None end | _ => None end);
    ("chk.c02p"%string, fun a => match a with [VN k; st; VN mode; VL tbl; VL nodes] =>
        match vbool st, omap v_entry tbl, omap v_node nodes with
        | Some s, Some T, Some ns => Some (ofbool (chk_c02p pay (pay_join mode) (N.to_nat k) s T ns))
        | _, _, _ => None end | _ => None end)
  ].
Definition d_unitig : string -> val -> option val := run_table unitig_ops.
