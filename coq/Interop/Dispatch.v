(* Glue between interchange values and the model: one named entry per operation.  Kept in Coq so that
   the OCaml driver stays a dumb parser/printer. *)
From Coq Require Import NArith List Bool String.
From DBG Require Import Interop.Val Spec.Dna Packed.KmerModel Algo.KmerHist Spec.Neighbors Algo.Neighbors Interop.DispatchExts Interop.DispatchSeq.
From DBG Require Interop.DispatchBBHash Interop.DispatchGraph.
From DBG Require Interop.DispatchAscii.
From DBG Require Interop.DispatchScan.
From DBG Require Interop.DispatchFilter.
From DBG Require Interop.DispatchUnitig.
From DBG Require Interop.DispatchEdges.
From DBG Require Interop.DispatchRecomp.
From DBG Require Interop.DispatchExport.
From DBG Require Interop.DispatchPipeline.
Import ListNotations.
Open Scope N_scope.

Definition cfg_of (w k : N) : kcfg := mkc (N.to_nat w) (N.to_nat k).
(* histories: init ( 0 ) | ( 1 v ) | ( 2 bytes ) | ( 3 ascii ); op ( 0 b ) ExtL | ( 1 b ) ExtR | ( 2 ) Rc |
   ( 3 pos b ) Set | ( 4 pos n v ) SetSlice | ( 5 ) MinRc *)
Definition v_kinit (v : val) : option kinit :=
  match v with
  | VL [VN 0] => Some IEmpty
  | VL [VN 1; VN x] => Some (IFromU64 x)
  | VL [VN 2; VL l] => match vlistN l with Some d => Some (IFromBytes d) | None => None end
  | VL [VN 3; VL l] => match vlistN l with Some d => Some (IFromAscii d) | None => None end
  | _ => None
  end.
Definition v_kop (v : val) : option kop :=
  match v with
  | VL [VN 0; VN b] => Some (OExtL b)
  | VL [VN 1; VN b] => Some (OExtR b)
  | VL [VN 2] => Some ORc
  | VL [VN 3; VN pos; VN b] => Some (OSet (N.to_nat pos) b)
  | VL [VN 4; VN pos; VN n; VN x] => Some (OSetSlice (N.to_nat pos) (N.to_nat n) x)
  | VL [VN 5] => Some OMinRc
  | _ => None
  end.
Definition cmp_code (c : comparison) : N := match c with Lt => 0 | Eq => 1 | Gt => 2 end.

(* ---- k-mer operations: input ( W K args.. ) *)
Definition kmer_ops (c : kcfg) : list (string * handler) :=
  [ ("k.get"%string, fun a => match a with [VN s; VN pos] => Some (ofopt ofN (get c s (N.to_nat pos))) | _ => None end);
    ("k.set_mut"%string, fun a => match a with [VN s; VN pos; VN b] => Some (ofopt ofN (set_mut c s (N.to_nat pos) b)) | _ => None end);
    ("k.set_slice_mut"%string, fun a => match a with [VN s; VN pos; VN n; VN value] =>
        Some (ofopt ofN (set_slice_mut c s (N.to_nat pos) (N.to_nat n) value)) | _ => None end);
    ("k.rc"%string, fun a => match a with [VN s] => Some (ofopt ofN (krc c s)) | _ => None end);
    ("k.extend_left"%string, fun a => match a with [VN s; VN b] => Some (ofopt ofN (kextend_left c s b)) | _ => None end);
    ("k.extend_right"%string, fun a => match a with [VN s; VN b] => Some (ofopt ofN (kextend_right c s b)) | _ => None end);
    ("k.hamming_dist"%string, fun a => match a with [VN s; VN o] => Some (ofopt ofN (hamming_dist c s o)) | _ => None end);
    ("k.at_count"%string, fun a => match a with [VN s] => Some (ofopt ofN (kat_count c s)) | _ => None end);
    ("k.gc_count"%string, fun a => match a with [VN s] => Some (ofopt ofN (kgc_count c s)) | _ => None end);
    ("k.from_u64"%string, fun a => match a with [VN x] => Some (ofopt ofN (from_u64 c x)) | _ => None end);
    ("k.to_u64"%string, fun a => match a with [VN s] => Some (ofopt ofN (to_u64 s)) | _ => None end);
    ("k.from_bytes"%string, fun a => match a with [VL l] => match vlistN l with Some bs => Some (ofopt ofN (from_bytes c bs)) | None => None end | _ => None end);
    ("k.from_ascii"%string, fun a => match a with [VL l] => match vlistN l with Some bs => Some (ofopt ofN (from_ascii c bs)) | None => None end | _ => None end);
    ("k.to_string"%string, fun a => match a with [VN s] => Some (ofopt ofNs (to_string c s)) | _ => None end);
    ("k.to_bases"%string, fun a => match a with [VN s] => Some (ofopt ofNs (to_bases c s)) | _ => None end);
    ("k.kmers_from_bytes"%string, fun a => match a with [VL l] => match vlistN l with Some bs => Some (ofopt ofNs (kmers_from_bytes c bs)) | None => None end | _ => None end);
    ("k.kmers_from_ascii"%string, fun a => match a with [VL l] => match vlistN l with Some bs => Some (ofopt ofNs (kmers_from_ascii c bs)) | None => None end | _ => None end);
    ("k.min_rc_flip"%string, fun a => match a with [VN s] => Some (ofopt (fun p => VL [VN (fst p); ofbool (snd p)]) (min_rc_flip c s)) | _ => None end);
    ("k.min_rc"%string, fun a => match a with [VN s] => Some (ofopt ofN (min_rc c s)) | _ => None end);
    ("k.is_palindrome"%string, fun a => match a with [VN s] => Some (ofopt ofbool (kis_palindrome c s)) | _ => None end);
    ("k.extend"%string, fun a => match a with [VN s; VN b; VN d] => Some (ofopt ofN (kextend c s b (negb (d =? 0)))) | _ => None end);
    ("k.hist"%string, fun a => match a with [i; VL ops] =>
        match v_kinit i, omap v_kop ops with Some i', Some ops' => Some (ofopt ofN (khist c i' ops')) | _, _ => None end | _ => None end);
    ("k.hash_feed"%string, fun a => match a with [VN s] => Some (ofNs (hash_feed c s)) | _ => None end);
    ("k.cmp"%string, fun a => match a with [VN s1; VN s2] => Some (VL [ofbool (k_eq s1 s2); VN (cmp_code (k_cmp s1 s2))]) | _ => None end);
    (* the decoded string: the harness compares it with the bases the implementation reports *)
    ("k.decode"%string, fun a => match a with [VN s] => Some (ofNs (decode (kK c) s)) | _ => None end);
    ("k.neighbors"%string, fun a => match a with [VN s] => Some (ofopt ofNs (nb_all_fused c s)) | _ => None end)
  ].

(* the operation name is checked BEFORE the arguments are converted: `cfg_of` builds unary naturals, and an
   operation of another table may carry a 64-bit number in the second position *)
Definition d_kmer (op : string) (v : val) : option val :=
  if negb (prefix "k." op) then None else
  match v with
  | VL (VN w :: VN k :: rest) =>
      if (129 <? w) || (65 <? k) then None else
      match lookup op (kmer_ops (cfg_of w k)) with Some h => h rest | None => None end
  | _ => None
  end.

(* ---- specification side of the k-mer operations (Layer S only): input ( K bases args.. ) *)
Definition spec_kmer_ops (K : nat) : list (string * handler) :=
  [ ("s.k.get"%string, fun a => match a with [VL l; VN pos] => match vlistN l with Some d => Some (VN (nth (N.to_nat pos) d 0)) | None => None end | _ => None end);
    ("s.k.set_mut"%string, fun a => match a with [VL l; VN pos; VN b] => match vlistN l with Some d => Some (ofNs (upd (N.to_nat pos) d b)) | None => None end | _ => None end);
    ("s.k.set_slice_mut"%string, fun a => match a with [VL l; VN pos; VN n; VN value] =>
        match vlistN l with Some d => Some (ofNs (splice (N.to_nat pos) (firstn (N.to_nat n) (digits4 32 value)) d)) | None => None end | _ => None end);
    ("s.k.rc"%string, fun a => match a with [VL l] => match vlistN l with Some d => Some (ofNs (rc d)) | None => None end | _ => None end);
    ("s.k.extend_left"%string, fun a => match a with [VL l; VN b] => match vlistN l with Some d => Some (ofNs (extend_left d b)) | None => None end | _ => None end);
    ("s.k.extend_right"%string, fun a => match a with [VL l; VN b] => match vlistN l with Some d => Some (ofNs (extend_right d b)) | None => None end | _ => None end);
    ("s.k.hamming_dist"%string, fun a => match a with [VL l; VL m] => match vlistN l, vlistN m with Some d, Some e => Some (VN (count_diff d e)) | _, _ => None end | _ => None end);
    ("s.k.at_count"%string, fun a => match a with [VL l] => match vlistN l with Some d => Some (VN (at_count d)) | None => None end | _ => None end);
    ("s.k.gc_count"%string, fun a => match a with [VL l] => match vlistN l with Some d => Some (VN (gc_count d)) | None => None end | _ => None end);
    ("s.k.to_u64"%string, fun a => match a with [VL l] => match vlistN l with Some d => Some (VN (rank d)) | None => None end | _ => None end);
    ("s.k.from_u64"%string, fun a => match a with [VN v] => Some (ofNs (digits4 K v)) | _ => None end);
    ("s.k.from_bytes"%string, fun a => match a with [VL l] => match vlistN l with Some d => Some (ofNs (firstn K d)) | None => None end | _ => None end);
    ("s.k.from_ascii"%string, fun a => match a with [VL l] => match vlistN l with Some d => Some (ofNs (map ascii_base (firstn K d))) | None => None end | _ => None end);
    ("s.k.to_string"%string, fun a => match a with [VL l] => match vlistN l with Some d => Some (ofNs (text d)) | None => None end | _ => None end);
    ("s.k.kmers_from_bytes"%string, fun a => match a with [VL l] => match vlistN l with Some d => Some (VL (map ofNs (kmers K d))) | None => None end | _ => None end);
    ("s.k.kmers_from_ascii"%string, fun a => match a with [VL l] => match vlistN l with Some d => Some (VL (map ofNs (kmers K (map ascii_base d)))) | None => None end | _ => None end);
    ("s.k.min_rc"%string, fun a => match a with [VL l] => match vlistN l with Some d => Some (ofNs (canon d)) | None => None end | _ => None end);
    ("s.k.min_rc_flip"%string, fun a => match a with [VL l] => match vlistN l with Some d => Some (let p := canon_flip d in VL [ofNs (fst p); ofbool (snd p)]) | None => None end | _ => None end);
    ("s.k.hist"%string, fun a => match a with [i; VL ops] =>
        match v_kinit i, omap v_kop ops with Some i', Some ops' => Some (ofNs (shist K i' ops')) | _, _ => None end | _ => None end);
    ("s.k.cmp"%string, fun a => match a with [VL l; VL m] => match vlistN l, vlistN m with
        | Some d, Some e => Some (VL [ofbool (dna_eqb d e); VN (cmp_code (dna_compare d e)); ofbool (dna_eqb d e)]) | _, _ => None end | _ => None end);
    ("s.k.sort_dedup"%string, fun a => match a with [VL ls] => match omap vNs ls with
        | Some ds => Some (VL (map ofNs (dedup_by dna_eqb (sort_by dna_leb ds)))) | None => None end | _ => None end);
    ("s.k.sort"%string, fun a => match a with [VN canonical; VL ls] => match omap vNs ls with
        | Some ds => Some (VL (map ofNs (sort_by dna_leb (if canonical =? 0 then ds else map canon ds)))) | None => None end | _ => None end);
    ("s.k.member"%string, fun a => match a with [VL ls; VL x] => match omap vNs ls, vlistN x with
        | Some ds, Some d => Some (ofbool (existsb (dna_eqb d) ds)) | _, _ => None end | _ => None end);
    ("s.k.is_palindrome"%string, fun a => match a with [VL l] => match vlistN l with Some d => Some (ofbool (is_palindrome d)) | None => None end | _ => None end);
    ("s.k.neighbors"%string, fun a => match a with [VL l] => match vlistN l with Some d => Some (VL (map ofNs (neighbors d))) | None => None end | _ => None end)
  ].
Definition d_spec_kmer (op : string) (v : val) : option val :=
  if negb (prefix "s.k." op) then None else
  match v with
  | VL (VN k :: rest) => match lookup op (spec_kmer_ops (N.to_nat k)) with Some h => h rest | None => None end
  | _ => None
  end.

(* container-independent specification ops *)
Definition generic_spec_ops : list (string * handler) :=
  [ ("s.rc"%string, fun a => match a with [VL l] => match vlistN l with Some d => Some (ofNs (rc d)) | None => None end | _ => None end);
    ("s.kmers_of_rc"%string, fun a => match a with [VN k; VL l] => match vlistN l with
        | Some d => Some (VL (map ofNs (kmers (N.to_nat k) (rc d)))) | None => None end | _ => None end);
    ("s.kmers"%string, fun a => match a with [VN k; VL l] => match vlistN l with
        | Some d => Some (VL (map ofNs (kmers (N.to_nat k) d))) | None => None end | _ => None end);
    (* the harness emits this case (with result `!`) when the implementation panics on an in-range generated
       input outside a guarded call; every property's theorems state `Some _` (no panic) for in-range inputs *)
    ("s.no_panic"%string, fun a => match a with [VN _; VN _; VN _] => Some (VN 1) | _ => None end)
  ].

Definition prefix2 (op : string) : string := substring 0 2 op.

(* sub-dispatchers are tried in order; each returns None for an operation it does not know *)
Definition dispatchers : list (string -> val -> option val) :=
  [ d_kmer; d_spec_kmer; d_exts; run_table generic_spec_ops; d_seq;
    DispatchGraph.d_graph;
    DispatchUnitig.d_unitig;
    DispatchRecomp.d_recomp;
    DispatchAscii.d_ascii;
    DispatchBBHash.d_bbhash;
    (fun op v => if DispatchScan.is_scan_op op then DispatchScan.d_scan op v else None);
    (fun op v => if existsb (String.eqb op) ["s.filter"; "s.filter_get"; "f.filter"; "chk.filter_rc"]%string
                 then DispatchFilter.d_filter op v else None);
    DispatchEdges.d_edges;
    DispatchExport.d_export;
    DispatchPipeline.d_pipeline
  ].
Fixpoint first_some (ds : list (string -> val -> option val)) (op : string) (v : val) : option val :=
  match ds with
  | [] => None
  | d :: r => match d op v with Some x => Some x | None => first_some r op v end
  end.
Definition dispatch (op : string) (v : val) : option val := first_some dispatchers op v.
