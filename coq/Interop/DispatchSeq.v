(* Dispatch tables for the sequence containers: DnaString (d.), slices (sl.), Lmer (l.), k-mer extraction,
   node k-mer iterator (ni.), and their specification-level counterparts (s.d., s.sl., s.l., s.ni ...). *)
From Coq Require Import NArith List Bool String.
From DBG Require Import Interop.Val Spec.Dna Packed.KmerModel Packed.ExtsModel Packed.Blocks Packed.DnaStringModel
  Packed.SliceModel Packed.LmerModel Algo.Iter Algo.NodeIter Algo.SeqHist Packed.PackedSet.
Import ListNotations.
Open Scope N_scope.

Definition cfgv (w k : N) : kcfg := mkc (N.to_nat w) (N.to_nat k).
Definition v_dstr (v : val) : option dstr :=
  match v with VL [VL ws; VN len] => match vlistN ws with Some l => Some {| d_sto := l; d_len := N.to_nat len |} | None => None end | _ => None end.
Definition of_dstr (s : dstr) : val := VL [ofNs (d_sto s); ofnat (d_len s)].
Definition v_slc (v : val) : option slc :=
  match v with VL [VN a; VN n; VN r] => Some {| s_start := N.to_nat a; s_length := N.to_nat n; s_rc := negb (r =? 0) |} | _ => None end.
Definition of_slc (s : slc) : val := VL [ofnat (s_start s); ofnat (s_length s); ofbool (s_rc s)].

Definition v_dop (v : val) : option dop :=
  match v with
  | VL [VN 0; VN b] => Some (DPush b)
  | VL [VN 1; VL l] => match vlistN l with Some d => Some (DExtend d) | None => None end
  | VL [VN 2; VL l; VN n] => match vlistN l with Some d => Some (DPushBytes d (N.to_nat n)) | None => None end
  | VL [VN 3; VN i; VN b] => Some (DSet (N.to_nat i) b)
  | VL [VN 4] => Some DClear
  | VL [VN 5; VN n] => Some (DBlank (N.to_nat n))
  | VL [VN 6; VL l] => match vlistN l with Some d => Some (DFromBytes d) | None => None end
  | VL [VN 7] => Some DReverse
  | VL [VN 8] => Some DRc
  | _ => None
  end.
Definition v_sop (v : val) : option sop :=
  match v with
  | VL [VN 0; VN a; VN b] => Some (SSlice (N.to_nat a) (N.to_nat b))
  | VL [VN 1] => Some SRc
  | VL [VN 2; VN k] => Some (SPrefix (N.to_nat k))
  | VL [VN 3; VN k] => Some (SSuffix (N.to_nat k))
  | _ => None
  end.
Definition v_lop (v : val) : option lop :=
  match v with
  | VL [VN 0; VN p; VN b] => Some (LSet (N.to_nat p) b)
  | VL [VN 1; VN p; VN n; VN x] => Some (LSetSlice (N.to_nat p) (N.to_nat n) x)
  | VL [VN 2] => Some LRc
  | _ => None
  end.
(* ---- node iterator calls *)
(* a skip count beyond [bound] is replaced by [bound] before it is converted to the unary [nat] of the model (the
   harness sends skips of 2^32 and more): for bound >= the number of k-mers left this changes neither the specification
   (NodeIterProofs.spec_run_clamp) nor, by C18_iter_refines, the model *)
Definition v_ncall (bound : N) (v : val) : option ncall :=
  match v with VL [VN 0] => Some CNext | VL [VN 1; VN n] => Some (CNth (N.to_nat (N.min n bound))) | _ => None end.
Definition of_optN (o : option N) : val := match o with Some x => VL [VN x] | None => VL [] end.
Definition of_optNs (o : option (list N)) : val := match o with Some x => VL [ofNs x] | None => VL [] end.

Definition pairs_val (l : list (N * N)) : val := VL (map (fun p => VL [VN (fst p); VN (snd p)]) l).

(* extensions as the two sets *)
Definition sets_val (e : N) : val := VL [ofNs (exts_left e); ofNs (exts_right e)].
(* list-level k-mers with their flanking extensions; boundary sets given by the caller *)
Definition spec_kmer_exts (K : nat) (l : dna) (lset rset : list N) : list val :=
  let n := length l in
  map (fun i => VL [ofNs (kmer_at K l i);
                    VL [ofNs (if Nat.eqb i 0 then lset else [nth (i - 1) l 0]);
                        ofNs (if Nat.eqb (i + K) n then rset else [nth (i + K) l 0])]])
      (seq 0 (n + 1 - K)).

Fixpoint take_every (fuel step : nat) (l : list N) : list N :=
  match fuel with
  | O => []
  | S f => match l with [] => [] | x :: _ => x :: take_every f step (skipn step l) end
  end.

Definition seq_ops : list (string * handler) :=
  [ (* DnaString *)
    ("d.hist"%string, fun a => match a with [VL ops] => match omap v_dop ops with
        | Some o => Some (ofopt of_dstr (dsteps d_new o)) | None => None end | _ => None end);
    ("d.inv"%string, fun a => match a with [s] => match v_dstr s with Some d => Some (ofbool (d_invb d)) | None => None end | _ => None end);
    ("d.to_bytes"%string, fun a => match a with [s] => match v_dstr s with Some d => Some (ofopt ofNs (d_to_bytes d)) | None => None end | _ => None end);
    ("d.to_ascii"%string, fun a => match a with [s] => match v_dstr s with Some d => Some (ofopt ofNs (d_to_ascii d)) | None => None end | _ => None end);
    ("d.to_text"%string, fun a => match a with [s] => match v_dstr s with Some d => Some (ofopt ofNs (d_to_text d)) | None => None end | _ => None end);
    ("d.get"%string, fun a => match a with [s; VN i] => match v_dstr s with Some d => Some (ofopt ofN (d_get d (N.to_nat i))) | None => None end | _ => None end);
    ("d.cmp"%string, fun a => match a with [s; t] => match v_dstr s, v_dstr t with
        | Some d, Some e => Some (VL [ofbool (d_eq d e); VN (match d_cmp d e with Lt => 0 | Eq => 1 | Gt => 2 end)]) | _, _ => None end | _ => None end);
    ("d.hash_feed"%string, fun a => match a with [s] => match v_dstr s with Some d => Some (ofNs (d_hash_feed d)) | None => None end | _ => None end);
    ("d.ndiffs"%string, fun a => match a with [s; t] => match v_dstr s, v_dstr t with
        | Some d, Some e => Some (ofopt ofN (d_ndiffs d e)) | _, _ => None end | _ => None end);
    ("d.get_kmer"%string, fun a => match a with [VN w; VN k; s; VN pos] => match v_dstr s with
        | Some d => Some (ofopt ofN (d_get_kmer (cfgv w k) d (N.to_nat pos))) | None => None end | _ => None end);
    ("d.iter_kmers"%string, fun a => match a with [VN w; VN k; s] => match v_dstr s with
        | Some d => let c := cfgv w k in Some (ofopt ofNs (iter_kmers c (d_len d) (d_get d) (d_get_kmer c d))) | None => None end | _ => None end);
    ("d.iter_kmer_exts"%string, fun a => match a with [VN w; VN k; s; VN e] => match v_dstr s with
        | Some d => let c := cfgv w k in Some (ofopt pairs_val (iter_kmer_exts c (d_len d) (d_get d) (d_get_kmer c d) e)) | None => None end | _ => None end);
    ("b.get_kmer"%string, fun a => match a with [VN w; VN k; VL l; VN pos] => match vlistN l with
        | Some d => Some (ofopt ofN (bytes_get_kmer (cfgv w k) d (N.to_nat pos))) | None => None end | _ => None end);
    (* slices *)
    ("sl.hist"%string, fun a => match a with [s; VL ops] => match v_dstr s, omap v_sop ops with
        | Some d, Some o => Some (ofopt of_slc (sl_hist d o)) | _, _ => None end | _ => None end);
    ("sl.bytes"%string, fun a => match a with [s; v] => match v_dstr s, v_slc v with
        | Some d, Some x => Some (ofopt ofNs (sl_bytes d x)) | _, _ => None end | _ => None end);
    ("sl.render"%string, fun a => match a with [s; v] => match v_dstr s, v_slc v with
        | Some d, Some x => Some (VL [ofopt ofNs (sl_ascii d x); ofopt ofNs (sl_text d x);
                                     (if Nat.ltb (s_length x) 256 then ofopt ofNs (sl_debug d x) else VAny);
                                     ofopt of_dstr (sl_to_owned d x)]) | _, _ => None end | _ => None end);
    ("sl.get_kmer"%string, fun a => match a with [VN w; VN k; s; v; VN pos] => match v_dstr s, v_slc v with
        | Some d, Some x => Some (ofopt ofN (sl_get_kmer (cfgv w k) d x (N.to_nat pos))) | _, _ => None end | _ => None end);
    ("sl.hamming"%string, fun a => match a with [s1; v1; s2; v2] => match v_dstr s1, v_slc v1, v_dstr s2, v_slc v2 with
        | Some d1, Some x1, Some d2, Some x2 => Some (ofopt ofN (sl_hamming_dist d1 x1 d2 x2)) | _, _, _, _ => None end | _ => None end);
    (* Lmer *)
    ("l.new"%string, fun a => match a with [VN nw; VN len] => Some (ofopt ofNs (l_new (N.to_nat nw) (N.to_nat len))) | _ => None end);
    ("l.from_slice"%string, fun a => match a with [VN nw; VL l] => match vlistN l with
        | Some d => Some (ofopt ofNs (l_from_slice (N.to_nat nw) d)) | None => None end | _ => None end);
    ("l.hist"%string, fun a => match a with [VL ws; VL ops] => match vlistN ws, omap v_lop ops with
        | Some x, Some o => Some (ofopt ofNs (lsteps x o)) | _, _ => None end | _ => None end);
    ("l.read"%string, fun a => match a with [VL ws] => match vlistN ws with
        | Some x => Some (VL [ofopt ofnat (l_len x); ofopt ofNs (l_to_bytes x); ofbool (l_invb x)]) | None => None end | _ => None end);
    ("l.get_kmer"%string, fun a => match a with [VN w; VN k; VL ws; VN pos] => match vlistN ws with
        | Some x => Some (ofopt ofN (l_get_kmer (cfgv w k) x (N.to_nat pos))) | None => None end | _ => None end);
    (* node iterator *)
    ("ni.run"%string, fun a => match a with [VN w; VN k; s; v; VL calls] =>
      match v_dstr s, v_slc v with
      | Some d, Some x =>
        match omap (v_ncall (N.of_nat (s_length x) + 8)) calls with
        | Some cs =>
            let c := cfgv w k in
            Some (match ni_into_iter c d x with
                  | Some it => VL [ofnat (ni_size_hint it); ofopt (fun l => VL (map of_optN l)) (ni_run c d x it cs)]
                  | None => VBot end)
        | None => None end
      | _, _ => None end | _ => None end);

    (* ---------------- specification level ---------------- *)
    ("s.d.hist"%string, fun a => match a with [VL ops] => match omap v_dop ops with
        | Some o => Some (ofNs (fold_left sdstep o [])) | None => None end | _ => None end);
    ("s.d.render"%string, fun a => match a with [VL l] => match vlistN l with
        | Some d => Some (VL [ofNs (map (fun b => base_char b) d); ofNs (text d); ofNs (text d); ofNs d; ofnat (length d)]) | None => None end | _ => None end);
    ("s.cmp"%string, fun a => match a with [VL l; VL m] => match vlistN l, vlistN m with
        | Some d, Some e => Some (VL [ofbool (dna_eqb d e); VN (match dna_compare d e with Lt => 0 | Eq => 1 | Gt => 2 end); ofbool (dna_eqb d e)]) | _, _ => None end | _ => None end);
    ("s.eqhash"%string, fun a => match a with [VL l; VL m] => match vlistN l, vlistN m with
        | Some d, Some e => Some (VL [ofbool (dna_eqb d e); ofbool (dna_eqb d e)]) | _, _ => None end | _ => None end);
    ("s.count_diff"%string, fun a => match a with [VL l; VL m] => match vlistN l, vlistN m with
        | Some d, Some e => Some (VN (count_diff d e)) | _, _ => None end | _ => None end);
    ("s.id"%string, fun a => match a with [v] => Some v | _ => None end);
    (* Iterator::skip(a).step_by(s) over a base iterator, on the list: every s-th element of the list without its first a
       elements (s >= 1); nth(a) followed by the rest is the case s = 1 *)
    ("s.seq.skip_step"%string, fun a => match a with [VL l; VN sk; VN st] => match vlistN l with
        | Some d => Some (ofNs (take_every (length d) (N.to_nat st) (skipn (N.to_nat sk) d))) | None => None end | _ => None end);
    ("s.sl"%string, fun a => match a with [VL l; VL ops] => match vlistN l, omap v_sop ops with
        | Some d, Some o => let v := sview d o in
            Some (VL [ofNs v; ofNs (map base_char v); ofNs (text v);
                      (if Nat.ltb (length v) 256 then ofNs (text v) else VAny); ofNs v; ofnat (length v)]) | _, _ => None end | _ => None end);
    (* to_owned of a view must be THE DnaString of the view's bases: ==, Hasher input, cmp and ndiffs against
       DnaString::from_bytes(view) are computed by the harness; the specification value is constant true (the
       input is carried for the replay) *)
    ("s.sl.owned_eq"%string, fun a => match a with [VL l; VL ops] => match vlistN l, omap v_sop ops with
        | Some _, Some _ => Some (ofbool true) | _, _ => None end | _ => None end);
    (* PackedDnaStringSet built by add() of each sequence: the packed string, the start / length vectors, and every
       entry read back through get(i) (coordinates) *)
    ("ps.build"%string, fun a => match a with [VL seqs] => match omap vNs seqs with
        | Some ls => Some (ofopt (fun p => VL [of_dstr (p_seq p); VL (map ofnat (p_start p)); VL (map ofnat (p_length p));
                                               VL (map (fun i => ofopt of_slc (p_get p i)) (seq 0 (p_len p)))])
                                 (p_add_all p_new ls))
        | None => None end | _ => None end);
    ("s.sl.kmer"%string, fun a => match a with [VN k; VL l; VL ops; VN pos] => match vlistN l, omap v_sop ops with
        | Some d, Some o => Some (ofNs (kmer_at (N.to_nat k) (sview d o) (N.to_nat pos))) | _, _ => None end | _ => None end);
    ("s.sl.hamming"%string, fun a => match a with [VL l1; VL o1; VL l2; VL o2] => match vlistN l1, omap v_sop o1, vlistN l2, omap v_sop o2 with
        | Some d1, Some p1, Some d2, Some p2 => Some (VN (count_diff (sview d1 p1) (sview d2 p2))) | _, _, _, _ => None end | _ => None end);
    ("s.sl.eq"%string, fun a => match a with [VL l1; VL o1; VL l2; VL o2] => match vlistN l1, omap v_sop o1, vlistN l2, omap v_sop o2 with
        | Some d1, Some p1, Some d2, Some p2 => Some (ofbool (dna_eqb (sview d1 p1) (sview d2 p2))) | _, _, _, _ => None end | _ => None end);
    ("s.l.hist"%string, fun a => match a with [VL l; VL ops] => match vlistN l, omap v_lop ops with
        | Some d, Some o => let r := fold_left slstep o d in Some (VL [ofnat (length r); ofNs r]) | _, _ => None end | _ => None end);
    ("s.kmer_at"%string, fun a => match a with [VN k; VL l; VN pos] => match vlistN l with
        | Some d => Some (ofNs (kmer_at (N.to_nat k) d (N.to_nat pos))) | None => None end | _ => None end);
    (* the Iterator contract of iter_kmers under skipping (nth / skip / step_by): the i-th item, or nothing past the end *)
    ("s.iter_nth"%string, fun a => match a with [VN k; VL l; VN i] => match vlistN l with
        | Some d => Some (if Nat.leb (N.to_nat (N.min i (N.of_nat (length d) + 1)) + N.to_nat k) (length d)
                          then VL [ofNs (kmer_at (N.to_nat k) d (N.to_nat i))] else VL []) | None => None end | _ => None end);
    ("s.kmer_exts"%string, fun a => match a with [VN k; VL l; VL ls; VL rs] => match vlistN l, vlistN ls, vlistN rs with
        | Some d, Some L, Some R => Some (VL (spec_kmer_exts (N.to_nat k) d L R)) | _, _, _ => None end | _ => None end);
    ("s.ni"%string, fun a => match a with [VN k; VL l; VL calls] => match vlistN l, omap (v_ncall (N.of_nat (length l) + 8)) calls with
        | Some d, Some cs => let ks := kmers (N.to_nat k) d in
            Some (VL [ofnat (length ks); VL (map of_optNs (spec_run ks cs))]) | _, _ => None end | _ => None end)
  ].
Definition d_seq : string -> val -> option val := run_table seq_ops.
