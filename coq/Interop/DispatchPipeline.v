(* Named operations of C04 / C06 (graph half).
     reads = ( ( "ACGT" label ) .. )      graph = ( ( "SEQ" exts colour ( ids ) ) .. )
     p.sharded ( K P stranded perm? thr mode variant maxlen reads orders ) -> ( buckets shard_graphs final ) | !
     p.direct  ( K stranded thr mode route reads order )                   -> graph | !
     chk.c04, chk.c06.graph ( K stranded mode gA gB )                       -> 1 iff chk_same_assembly
     chk.graph_exact, chk.c06.stranded ( K stranded thr reads g )           -> 1 iff chk_graph_exact
     chk.unitig ( K stranded mode reads g )                                 -> 1 iff chk_unitig (nodes = maximal
                                                                               unbranched paths of the graph's own links; payloads) *)
From Coq Require Import NArith List Bool String.
From DBG Require Import Interop.Val Spec.Dna Algo.Compress Algo.Pipeline Check.GraphCheck Check.PipelineCheck
  Interop.DispatchGraph.
Import ListNotations.
Open Scope N_scope.

Definition v_lread (v : val) : option lread :=
  match v with
  | VL [VL s; VN d] => match vlistN s with Some s' => Some (s', d) | None => None end
  | _ => None
  end.
Definition v_lreads (v : val) : option (list lread) := match v with VL l => omap v_lread l | _ => None end.
Definition v_dnas (v : val) : option (list dna) := match v with VL l => omap vNs l | _ => None end.
Definition v_graph (v : val) : option (list node_t) := match v with VL l => omap v_node l | _ => None end.
Definition of_graph (g : list node_t) : val := VL (map of_node g).
Definition v_perm (v : val) : option (option (list N)) :=
  match v with
  | VL [] => Some None
  | VL [VL t] => option_map Some (vlistN t)
  | _ => None
  end.

Definition pipeline_ops : list string :=
  ["p.sharded"; "p.direct"; "chk.c04"; "chk.c06.graph"; "chk.graph_exact"; "chk.c06.stranded"; "chk.unitig"]%string.

(* p.shards.<bin> ( K P stranded perm? maxlen reads ) -> number of shards (distinct buckets) the read set produces; the
   harness puts the size class of the observed number into the op name so that the evidence lists the histogram *)
Definition is_shards_op (op : string) : bool := String.eqb (substring 0 9 op) "p.shards.".
Definition d_pipeline (op : string) (v : val) : option val :=
  if is_shards_op op then
    match v with
    | VL [VN k; VN p; st; pm; VN maxlen; rs] =>
        match vbool st, v_perm pm, v_lreads rs with
        | Some s, Some perm, Some reads =>
            if (match perm with Some t => N.of_nat (List.length t) =? 4 ^ p | None => true end) then
              Some (ofopt (fun ps => ofnat (List.length (buckets_of ps)))
                          (pieces_of maxlen (N.to_nat k) (N.to_nat p) perm (negb s) reads))
            else Some VAny
        | _, _, _ => None
        end
    | _ => None
    end
  else if negb (existsb (String.eqb op) pipeline_ops) then None
  else if String.eqb op "p.sharded" then
    match v with
    | VL [VN k; VN p; st; pm; VN thr; VN mode; VN variant; VN maxlen; rs; VL os] =>
        match vbool st, v_perm pm, v_lreads rs, omap v_dnas os with
        | Some s, Some perm, Some reads, Some orders =>
            if (match perm with Some t => N.of_nat (List.length t) =? 4 ^ p | None => true end) then
              Some (ofopt (fun r => let '(bs, gs, g) := r in VL [ofNs bs; VL (map of_graph gs); of_graph g])
                          (sharded maxlen (N.to_nat k) (N.to_nat p) perm s thr mode variant reads orders))
            else Some VAny
        | _, _, _, _ => None
        end
    | _ => None
    end
  else if String.eqb op "p.direct" then
    match v with
    | VL [VN k; st; VN thr; VN mode; VN route; rs; os] =>
        match vbool st, v_lreads rs, v_dnas os with
        | Some s, Some reads, Some order => Some (ofopt of_graph (direct (N.to_nat k) s thr mode route reads order))
        | _, _, _ => None
        end
    | _ => None
    end
  else if String.eqb op "chk.c04" || String.eqb op "chk.c06.graph" then
    match v with
    | VL [VN k; st; VN mode; ga; gb] =>
        match vbool st, v_graph ga, v_graph gb with
        | Some s, Some a, Some b => Some (ofbool (chk_same_assembly (N.to_nat k) s mode a b))
        | _, _, _ => None
        end
    | VL [VN k; st; VN mode; ga; gb; rs] => Some (VN 1)   (* a pipeline panicked (! in place of its graph): the
                                                             implementation side of the line is !, a spec-level failure *)
    | _ => None
    end
  else if String.eqb op "chk.unitig" then
    match v with
    | VL [VN k; st; VN mode; rs; g] =>
        match vbool st, v_lreads rs, v_graph g with
        | Some s, Some reads, Some g' => Some (ofbool (chk_unitig (N.to_nat k) s mode reads g'))
        | Some _, Some _, None => match g with VBot => Some (VN 1) | _ => None end
        | _, _, _ => None
        end
    | _ => None
    end
  else
    match v with
    | VL [VN k; st; VN thr; rs; g] =>
        match vbool st, v_lreads rs, v_graph g with
        | Some s, Some reads, Some g' => Some (ofbool (chk_graph_exact (N.to_nat k) s thr (map fst reads) g'))
        | Some _, Some _, None => match g with VBot => Some (VN 1) | _ => None end
        | _, _, _ => None
        end
    | _ => None
    end.
