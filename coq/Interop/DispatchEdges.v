(* Named operations for C03 (graph queries, pruning, walks).
   node   = ( "ACGT" exts score solid )       score is transmitted as score+100 (scores are small integers)
   link   = ( id dir flip )   dir: 0 = Left, 1 = Right        el = ( ( ledges redges ) .. ) one pair per node
   g3.find_edges            ( K st nodes )                 -> el            model find_edges of every node x side
   s.c03.find_link          ( K st seqs ( ( kmer dir ) .. ) ) -> ( olink .. )  list-level find_link_spec
   g3.valid_exts            ( K st nodes valid )           -> ( exts .. )   get_valid_exts; valid = ( ) | ( ( ids ) )
   g3.max_path              ( K st nodes )                 -> path | !
   g3.seq_of_path           ( K nodes path )               -> dna | !
   g3.max_path_beam         ( K st nodes beam )            -> path | !      max_path_beam (repaired code), integer scores
   f3.remove_censored       ( st ( ( kmer exts ) .. ) )    -> ( exts .. )
   f3.remove_censored_sharded ( st tbl ( kmer .. ) )       -> ( exts .. )
   chk.c03.graph_ok / chk.c03.valid   ( K st nodes )       -> 1
   chk.c03.overlap / chk.c03.sym      ( K st nodes el )    -> 1
   chk.c03.observed         ( K st thr reads seqs el )     -> 1
   chk.c03.walk / chk.c03.maxpath     ( K st nodes path seq ) -> 1
   chk.c03.pruned ( st tbl new )  chk.c03.pruned_sharded ( st tbl all new ) -> 1 *)
From Coq Require Import NArith ZArith List Bool String.
From DBG Require Import Interop.Val Spec.Dna Spec.GraphIndex Packed.ExtsModel Algo.Compress Algo.GraphModel Algo.Beam
  Spec.EdgeSpec Check.EdgeCheck.
Import ListNotations.
Open Scope N_scope.

Definition pay3 := (Z * bool)%type.
Definition v3_node (v : val) : option (dna * N * pay3) :=
  match v with
  | VL [VL s; VN e; VN sc; VN so] =>
      match vlistN s with Some d => Some (d, e, ((Z.of_N sc - 100)%Z, negb (so =? 0))) | None => None end
  | _ => None
  end.
Definition v3_nodes (v : val) : option (list (dna * N * pay3)) := match v with VL l => omap v3_node l | _ => None end.
Definition v3_dir (v : val) : option dir := match v with VN 0 => Some DLeft | VN _ => Some DRight | _ => None end.
Definition of3_dir (d : dir) : val := VN (match d with DLeft => 0 | DRight => 1 end).
Definition of3_link (l : link) : val := VL [ofnat (fst (fst l)); of3_dir (snd (fst l)); ofbool (snd l)].
Definition of3_olink (o : option link) : val := match o with Some l => VL [of3_link l] | None => VL [] end.
Definition v3_link (v : val) : option link :=
  match v with
  | VL [VN i; d; f] => match v3_dir d, vbool f with Some d', Some f' => Some (N.to_nat i, d', f') | _, _ => None end
  | _ => None
  end.
Definition v3_links (v : val) : option (list link) := match v with VL l => omap v3_link l | _ => None end.
Definition v3_el (v : val) : option edge_lists :=
  match v with
  | VL l => omap (fun x => match x with
                           | VL [a; b] => match v3_links a, v3_links b with Some a', Some b' => Some (a', b') | _, _ => None end
                           | _ => None end) l
  | _ => None
  end.
Definition v3_path (v : val) : option (list (nat * dir)) :=
  match v with
  | VL l => omap (fun x => match x with
                           | VL [VN i; d] => match v3_dir d with Some d' => Some (N.to_nat i, d') | None => None end
                           | _ => None end) l
  | _ => None
  end.
Definition of3_path (p : list (nat * dir)) : val := VL (map (fun x => VL [ofnat (fst x); of3_dir (snd x)]) p).
Definition v3_query (v : val) : option (dna * dir) :=
  match v with
  | VL [VL k; d] => match vlistN k, v3_dir d with Some k', Some d' => Some (k', d') | _, _ => None end
  | _ => None
  end.
Definition v3_tbl (v : val) : option (list (dna * N)) :=
  match v with
  | VL l => omap (fun x => match x with
                           | VL [VL k; VN e] => match vlistN k with Some k' => Some (k', e) | None => None end
                           | _ => None end) l
  | _ => None
  end.
Definition v3_dnas (v : val) : option (list dna) := match v with VL l => omap vNs l | _ => None end.
Definition v3_valid (v : val) : option (option (list nat)) :=
  match v with
  | VL [] => Some None
  | VL [VL ids] => match vlistN ids with Some l => Some (Some (map N.to_nat l)) | None => None end
  | _ => None
  end.
Definition score3 (d : pay3) : Z := fst d.
Definition solid3 (d : pay3) : bool := snd d.
Definition unit_tbl (t : list (dna * N)) : list (dna * N * unit) := map (fun x => (fst x, snd x, tt)) t.

Definition edges_ops : list (string * handler) :=
  [ ("g3.find_edges"%string, fun a => match a with [VN k; st; ns] =>
        match vbool st, v3_nodes ns with
        | Some s, Some g =>
            let K := N.to_nat k in
            Some (VL (map (fun u => VL [VL (map of3_link (edges_of pay3 K s g u DLeft));
                                        VL (map of3_link (edges_of pay3 K s g u DRight))]) (seq 0 (length g))))
        | _, _ => None end | _ => None end);
    ("s.c03.find_link"%string, fun a => match a with [VN k; st; sq; VL qs] =>
        match vbool st, v3_dnas sq, omap v3_query qs with
        | Some s, Some seqs, Some qs' =>
            let lefts := ends_of (N.to_nat k) seqs DLeft in
            let rights := ends_of (N.to_nat k) seqs DRight in
            Some (VL (map (fun q => of3_olink (find_link_ends s lefts rights (fst q) (snd q))) qs'))
        | _, _, _ => None end | _ => None end);
    ("g3.valid_exts"%string, fun a => match a with [VN k; st; ns; vd] =>
        match vbool st, v3_nodes ns, v3_valid vd with
        | Some s, Some g, Some valid =>
            Some (VL (map (fun u => ofopt VN (get_valid_exts pay3 (N.to_nat k) s g valid u)) (seq 0 (length g))))
        | _, _, _ => None end | _ => None end);
    ("g3.max_path"%string, fun a => match a with [VN k; st; ns] =>
        match vbool st, v3_nodes ns with
        | Some s, Some g => Some (ofopt of3_path (max_path pay3 (N.to_nat k) s score3 solid3 g))
        | _, _ => None end | _ => None end);
    ("g3.max_path_beam"%string, fun a => match a with [VN k; st; ns; VN beam] =>
        match vbool st, v3_nodes ns with
        | Some s, Some g => Some (ofopt of3_path (max_path_beam pay3 (N.to_nat k) s score3 false g (N.to_nat beam)))
        | _, _ => None end | _ => None end);
    ("g3.seq_of_path"%string, fun a => match a with [VN k; ns; p] =>
        match v3_nodes ns, v3_path p with
        | Some g, Some p' => Some (ofopt ofNs (sequence_of_path pay3 (N.to_nat k) g p'))
        | _, _ => None end | _ => None end);
    ("f3.remove_censored"%string, fun a => match a with [st; t] =>
        match vbool st, v3_tbl t with
        | Some s, Some tbl => Some (ofNs (map (fun e => snd (fst e)) (remove_censored_exts unit s (unit_tbl tbl))))
        | _, _ => None end | _ => None end);
    ("f3.remove_censored_sharded"%string, fun a => match a with [st; t; al] =>
        match vbool st, v3_tbl t, v3_dnas al with
        | Some s, Some tbl, Some all =>
            Some (ofNs (map (fun e => snd (fst e)) (remove_censored_exts_sharded unit s (unit_tbl tbl) all)))
        | _, _, _ => None end | _ => None end);
    ("chk.c03.graph_ok"%string, fun a => match a with [VN k; st; ns] =>
        match vbool st, v3_nodes ns with
        | Some s, Some g => Some (ofbool (chk_graph_ok pay3 (N.to_nat k) s g)) | _, _ => None end | _ => None end);
    ("chk.c03.valid"%string, fun a => match a with [VN k; st; ns] =>
        match vbool st, v3_nodes ns with
        | Some s, Some g => Some (ofbool (chk_valid_graph pay3 (N.to_nat k) s g)) | _, _ => None end | _ => None end);
    ("chk.c03.overlap"%string, fun a => match a with [VN k; st; ns; e] =>
        match vbool st, v3_nodes ns, v3_el e with
        | Some s, Some g, Some el => Some (ofbool (chk_edges_overlap pay3 (N.to_nat k) s g el))
        | _, _, _ => None end | _ => None end);
    ("chk.c03.sym"%string, fun a => match a with [VN k; st; ns; e] =>
        match vbool st, v3_nodes ns, v3_el e with
        | Some s, Some g, Some el => Some (ofbool (chk_edges_symmetric pay3 (N.to_nat k) s g el))
        | _, _, _ => None end | _ => None end);
    ("chk.c03.observed"%string, fun a => match a with [VN k; st; VN thr; rs; sq; e] =>
        match vbool st, v3_dnas rs, v3_dnas sq, v3_el e with
        | Some s, Some reads, Some seqs, Some el =>
            Some (ofbool (chk_edges_observed (N.to_nat k) s (N.to_nat thr) reads seqs el))
        | _, _, _, _ => None end | _ => None end);
    ("chk.c03.walk"%string, fun a => match a with [VN k; st; ns; p; sq] =>
        match vbool st, v3_nodes ns, v3_path p, vNs sq with
        | Some s, Some g, Some p', Some sq' => Some (ofbool (chk_walk pay3 (N.to_nat k) s g p' sq'))
        | _, _, _, _ => None end | _ => None end);
    ("chk.c03.maxpath"%string, fun a => match a with [VN k; st; ns; p; sq] =>
        match vbool st, v3_nodes ns, v3_path p, vNs sq with
        | Some s, Some g, Some p', Some sq' => Some (ofbool (chk_max_path pay3 (N.to_nat k) s g p' sq'))
        | _, _, _, _ => None end | _ => None end);
    ("chk.c03.pruned"%string, fun a => match a with [st; t; nw] =>
        match vbool st, v3_tbl t, vNs nw with
        | Some s, Some tbl, Some new => Some (ofbool (chk_pruned s tbl new)) | _, _, _ => None end | _ => None end);
    ("chk.c03.pruned_sharded"%string, fun a => match a with [st; t; al; nw] =>
        match vbool st, v3_tbl t, v3_dnas al, vNs nw with
        | Some s, Some tbl, Some all, Some new => Some (ofbool (chk_pruned_sharded s tbl all new))
        | _, _, _, _ => None end | _ => None end)
  ].
Definition d_edges : string -> val -> option val := run_table edges_ops.
