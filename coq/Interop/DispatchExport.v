(* Named operations of C20 for the correspondence driver.
   graph  = ( K stranded ( ( seq exts datatree ) .. ) )   datatree = the tree of fmt_func(data) (opaque VAL)
     x.gfa       ( K st nodes )              -> records of write_gfa
     x.gfa_tags  ( K st nodes ( tag .. ) )   -> records of to_gfa_with_tags (tag i = bytes of tag_func(node i))
     x.json      ( K st nodes ( ( key tree ) .. ) ) -> token list of to_json_rest
     x.pal       ( K st nodes )              -> palindromic single-k-mer flags
     x.etab      ( K st nodes )              -> the edge table (targets of l_edges / r_edges per node)
     s.json_parse ( tokens )                 -> ( tree ) | ( )        parse_json (members sorted by key), compared with
                                                                      serde_json's answer
     chk.serde_same ( meta A B )             -> 1   A = B (answers before / after a serde round trip)
     chk.json_wellformed ( tokens nnodes ( ( source target dir ) .. ) ) -> 1
                   parse_json accepts the IMPLEMENTATION's tokens and the tree lists nnodes nodes with ids 0..n-1
                   and exactly the given right-going links (the implementation's own r_edges)
     chk.gfa_sound ( K etab lines )          -> 1   verified checker, implementation's lines vs its own edge lists
     chk.gfa_complete_once ( pal etab lines ) -> 1  chk_tab_ok -> chk_gfa_complete_once
     x.gfa_hyp   ( pal etab )                -> chk_tab_ok (the hypothesis holds on the generated graphs)
     x.enc_kmer ( kind storage ) / x.enc_exts ( v ) / x.enc_dir ( d ) / x.enc_dstr ( bases ) /
     x.enc_base ( st ( ( seq exts data ) .. ) ) -> the serde tree of the value
     x.dec_kmer ( kind tree ) / x.dec_exts / x.dec_dir / x.dec_dstr -> ( fields ) | ( )
   records: ( 0 ) header, ( 1 id seq ( ) | ( tagbytes ) ) segment, ( 2 u o1 v o2 ov ) link.
   tokens: 0 { 1 } 2 [ 3 ] 4 : 5 ,  ( 6 bytes ) string ( 7 n ) number ( 8 tree ) value.
   trees: ( 0 ) null ( 1 b ) bool ( 2 n ) number ( 3 bytes ) string ( 4 ( t .. ) ) array ( 5 ( ( key t ) .. ) ) object. *)
From Coq Require Import NArith List Bool Arith String.
From DBG Require Import Interop.Val Spec.Dna Spec.GraphIndex Spec.ExportSpec Packed.DnaStringModel Algo.GraphModel
  Algo.Json Algo.Export Algo.Serde Check.ExportCheck.
Import ListNotations.
Open Scope N_scope.

Fixpoint of_tree (t : jtree) : val :=
  match t with
  | JNull => VL [VN 0]
  | JBool b => VL [VN 1; ofbool b]
  | JNum n => VL [VN 2; VN n]
  | JStr s => VL [VN 3; ofNs s]
  | JArr l => VL [VN 4; VL (map of_tree l)]
  | JObj l => VL [VN 5; VL (map (fun m => VL [ofNs (fst m); of_tree (snd m)]) l)]
  end.
Fixpoint v_tree (v : val) : option jtree :=
  match v with
  | VL [VN 0] => Some JNull
  | VL [VN 1; b] => option_map JBool (vbool b)
  | VL [VN 2; VN n] => Some (JNum n)
  | VL [VN 3; VL s] => option_map JStr (vlistN s)
  | VL [VN 4; VL l] =>
      option_map JArr ((fix go (l : list val) : option (list jtree) :=
         match l with
         | [] => Some []
         | x :: r => match v_tree x, go r with Some t, Some ts => Some (t :: ts) | _, _ => None end
         end) l)
  | VL [VN 5; VL l] =>
      option_map JObj ((fix go (l : list val) : option (list (list N * jtree)) :=
         match l with
         | [] => Some []
         | VL [VL k; x] :: r => match vlistN k, v_tree x, go r with Some k', Some t, Some ts => Some ((k', t) :: ts) | _, _, _ => None end
         | _ => None
         end) l)
  | _ => None
  end.

Definition of_token (t : token) : val :=
  match t with
  | LB => VN 0 | RB => VN 1 | LK => VN 2 | RK => VN 3 | COLON => VN 4 | COMMA => VN 5
  | STR s => VL [VN 6; ofNs s]
  | NUM n => VL [VN 7; VN n]
  | VAL t => VL [VN 8; of_tree t]
  end.
Definition v_token (v : val) : option token :=
  match v with
  | VN 0 => Some LB | VN 1 => Some RB | VN 2 => Some LK | VN 3 => Some RK | VN 4 => Some COLON | VN 5 => Some COMMA
  | VL [VN 6; VL s] => option_map STR (vlistN s)
  | VL [VN 7; VN n] => Some (NUM n)
  | VL [VN 8; t] => option_map VAL (v_tree t)
  | _ => None
  end.

Definition v_xnode (v : val) : option (dna * N * jtree) :=
  match v with
  | VL [VL s; VN e; t] => match vlistN s, v_tree t with Some d, Some t' => Some (d, e, t') | _, _ => None end
  | _ => None
  end.
Definition v_nnode (v : val) : option (dna * N * N) :=
  match v with
  | VL [VL s; VN e; VN d] => match vlistN s with Some q => Some (q, e, d) | None => None end
  | _ => None
  end.
Definition x_dir (v : val) : option dir := match v with VN 0 => Some DLeft | VN _ => Some DRight | _ => None end.
Definition of_xdir (d : dir) : val := VN (match d with DLeft => 0 | DRight => 1 end).
Definition of_end (e : nend) : val := VL [ofnat (fst e); of_xdir (snd e)].
Definition v_end (v : val) : option nend :=
  match v with VL [VN i; d] => match x_dir d with Some d' => Some (N.to_nat i, d') | None => None end | _ => None end.
Definition v_etab (v : val) : option etab :=
  match v with
  | VL l => omap (fun x => match x with
                           | VL [VL a; VL b] => match omap v_end a, omap v_end b with Some a', Some b' => Some (a', b') | _, _ => None end
                           | _ => None end) l
  | _ => None
  end.
Definition of_lline (l : lline) : val :=
  let '(u, o1, v, o2, ov) := l in VL [VN 2; ofnat u; ofbool o1; ofnat v; ofbool o2; ofnat ov].
Definition v_lline (v : val) : option lline :=
  match v with
  | VL [VN u; o1; VN w; o2; VN ov] =>
      match vbool o1, vbool o2 with Some a, Some b => Some (N.to_nat u, a, N.to_nat w, b, N.to_nat ov) | _, _ => None end
  | _ => None
  end.
Definition of_rec (r : gfa_rec) : val :=
  match r with
  | GH => VL [VN 0]
  | GS i s t => VL [VN 1; ofnat i; ofNs s; match t with Some b => VL [ofNs b] | None => VL [] end]
  | GL l => of_lline l
  end.
Definition pal_fun (flags : list N) (i : nat) : bool := negb (nth i flags 0 =? 0).

Definition jtree_id (t : jtree) : jtree := t.

(* structural equality of trees *)
Fixpoint jtree_eqb (a b : jtree) : bool :=
  match a, b with
  | JNull, JNull => true
  | JBool x, JBool y => Bool.eqb x y
  | JNum x, JNum y => x =? y
  | JStr x, JStr y => list_N_eqb x y
  | JArr x, JArr y =>
      (fix go (x y : list jtree) : bool :=
         match x, y with [], [] => true | u :: x', v :: y' => jtree_eqb u v && go x' y' | _, _ => false end) x y
  | JObj x, JObj y =>
      (fix go (x y : list (list N * jtree)) : bool :=
         match x, y with
         | [], [] => true
         | u :: x', v :: y' => list_N_eqb (fst u) (fst v) && jtree_eqb (snd u) (snd v) && go x' y'
         | _, _ => false
         end) x y
  | _, _ => false
  end.

(* the tree lists n nodes with ids 0..n-1 (each with L, D, Se members) and exactly the given links *)
Definition node_entry_ok (i : nat) (t : jtree) : bool :=
  match t with
  | JObj [(k1, JStr id); (k2, JNum _); (k3, _); (k4, JStr _)] =>
      list_N_eqb k1 (bs "id") && list_N_eqb id (dec i) && list_N_eqb k2 (bs "L") && list_N_eqb k3 (bs "D") && list_N_eqb k4 (bs "Se")
  | _ => false
  end.
Definition link_entry (l : nat * nat * dir) : jtree :=
  link_tree (fst (fst l)) (snd (fst l), snd l, false).
Definition chk_json_wellformed (ts : list token) (n : nat) (links : list (nat * nat * dir)) : bool :=
  match parse_json ts with
  | Some (JObj ((k1, JArr ns) :: (k2, JArr ls) :: _)) =>
      list_N_eqb k1 (bs "nodes") && list_N_eqb k2 (bs "links") && Nat.eqb (List.length ns) n &&
      forallb (fun p => node_entry_ok (fst p) (snd p)) (combine (seq 0 n) ns) &&
      jtree_eqb (JArr ls) (JArr (map link_entry links))
  | _ => false
  end.

(* serde_json's Value keeps object members sorted by key (BTreeMap): the comparison with its answer is made on
   trees whose members are sorted (stable insertion sort; the harness uses no duplicate keys) *)
Fixpoint ins_member (m : list N * jtree) (l : list (list N * jtree)) : list (list N * jtree) :=
  match l with
  | [] => [m]
  | x :: r => if dna_leb (fst m) (fst x) then m :: l else x :: ins_member m r
  end.
Fixpoint canon_tree (t : jtree) : jtree :=
  match t with
  | JArr l => JArr (map canon_tree l)
  | JObj l => JObj (fold_right ins_member [] (map (fun m => (fst m, canon_tree (snd m))) l))
  | _ => t
  end.

Definition export_ops : list (string * handler) :=
  [ ("x.gfa"%string, fun a => match a with [VN k; st; VL ns] => match vbool st, omap v_xnode ns with
        | Some s, Some g => Some (VL (map of_rec (write_gfa jtree (N.to_nat k) s g))) | _, _ => None end | _ => None end);
    ("x.gfa_tags"%string, fun a => match a with [VN k; st; VL ns; VL tags] => match vbool st, omap v_xnode ns, omap vNs tags with
        | Some s, Some g, Some tg => Some (VL (map of_rec (to_gfa_with_tags jtree (N.to_nat k) s g (fun i _ => nth i tg []))))
        | _, _, _ => None end | _ => None end);
    ("x.json"%string, fun a => match a with [VN k; st; VL ns; VL rest] =>
        match vbool st, omap v_xnode ns,
              omap (fun x => match x with VL [VL key; t] => match vlistN key, v_tree t with Some k', Some t' => Some (k', t') | _, _ => None end | _ => None end) rest with
        | Some s, Some g, Some r => Some (VL (map of_token (to_json_rest jtree (N.to_nat k) s jtree_id print g r)))
        | _, _, _ => None end | _ => None end);
    (* C20 "lists every node once with its sequence": the S records a GFA of this graph must carry, in order *)
    ("s.gfa_segments"%string, fun a => match a with [VN k; st; VL ns] => match vbool st, omap v_xnode ns with
        | Some s, Some g => Some (VL (map (fun p => VL [ofnat (fst p); ofNs (fst (fst (snd p)))])
                                         (combine (seq 0 (List.length g)) g))) | _, _ => None end | _ => None end);
    ("x.pal"%string, fun a => match a with [VN k; st; VL ns] => match vbool st, omap v_xnode ns with
        | Some s, Some g => Some (VL (map (fun i => ofbool (pal_node jtree (N.to_nat k) s g i)) (seq 0 (List.length g)))) | _, _ => None end | _ => None end);
    ("x.etab"%string, fun a => match a with [VN k; st; VL ns] => match vbool st, omap v_xnode ns with
        | Some s, Some g => Some (VL (map (fun p : list nend * list nend => VL [VL (map of_end (fst p)); VL (map of_end (snd p))])
                                         (etab_of jtree (N.to_nat k) s g))) | _, _ => None end | _ => None end);
    ("s.json_parse"%string, fun a => match a with [VL ts] => match omap v_token ts with
        | Some t => Some (match parse_json t with Some tr => VL [of_tree (canon_tree tr)] | None => VL [] end) | None => None end | _ => None end);
    ("chk.json_wellformed"%string, fun a => match a with [VL ts; VN n; VL links] =>
        match omap v_token ts,
              omap (fun x => match x with VL [VN s; VN t; d] => match x_dir d with Some d' => Some (N.to_nat s, N.to_nat t, d') | None => None end | _ => None end) links with
        | Some t, Some ls => Some (ofbool (chk_json_wellformed t (N.to_nat n) ls)) | _, _ => None end | _ => None end);
    ("chk.gfa_sound"%string, fun a => match a with [VN k; e; VL ls] => match v_etab e, omap v_lline ls with
        | Some E, Some lines => Some (ofbool (chk_gfa_sound (N.to_nat k) E lines)) | _, _ => None end | _ => None end);
    ("chk.gfa_complete_once"%string, fun a => match a with [VL pal; e; VL ls] => match vlistN pal, v_etab e, omap v_lline ls with
        | Some p, Some E, Some lines =>
            Some (ofbool (implb (chk_tab_ok (pal_fun p) E) (chk_gfa_complete_once (pal_fun p) E lines))) | _, _, _ => None end | _ => None end);
    ("x.gfa_hyp"%string, fun a => match a with [VL pal; e] => match vlistN pal, v_etab e with
        | Some p, Some E => Some (ofbool (chk_tab_ok (pal_fun p) E)) | _, _ => None end | _ => None end);
    ("chk.serde_same"%string, fun a => match a with [_; x; y] => Some (ofbool (val_eqb x y)) | _ => None end);
    ("x.enc_kmer"%string, fun a => match a with [VN kind; VN s] =>
        Some (of_tree (if kind =? 0 then enc_int_kmer s else enc_varint_kmer s)) | _ => None end);
    ("x.enc_exts"%string, fun a => match a with [VN v] => Some (of_tree (enc_exts v)) | _ => None end);
    ("x.enc_dir"%string, fun a => match a with [d] => match x_dir d with Some d' => Some (of_tree (enc_dir d')) | None => None end | _ => None end);
    ("x.enc_dstr"%string, fun a => match a with [VL l] => match vlistN l with
        | Some q => Some (ofopt (fun s => of_tree (enc_dstr s)) (d_from_bytes q)) | None => None end | _ => None end);
    ("x.enc_base"%string, fun a => match a with [st; VL ns] => match vbool st, omap v_nnode ns with
        | Some s, Some g => Some (ofopt (fun b => of_tree (enc_bgraph N JNum b)) (bg_of_nodes N s g)) | _, _ => None end | _ => None end);
    ("x.dec_kmer"%string, fun a => match a with [VN kind; t] => match v_tree t with
        | Some tr => Some (ofoptN (if kind =? 0 then dec_int_kmer tr else dec_varint_kmer tr)) | None => None end | _ => None end);
    ("x.dec_exts"%string, fun a => match a with [t] => match v_tree t with Some tr => Some (ofoptN (dec_exts tr)) | None => None end | _ => None end);
    ("x.dec_dir"%string, fun a => match a with [t] => match v_tree t with
        | Some tr => Some (match dec_dir tr with Some d => VL [of_xdir d] | None => VL [] end) | None => None end | _ => None end);
    ("x.dec_dstr"%string, fun a => match a with [t] => match v_tree t with
        | Some tr => Some (match dec_dstr tr with Some s => VL [ofopt ofNs (d_to_bytes s)] | None => VL [] end) | None => None end | _ => None end)
  ].
Definition d_export : string -> val -> option val := run_table export_ops.
