(* Named operations of C07 / C08 for the correspondence driver.
     scan.scan     ( seq k p scores )           -> ( ( minimizer mpos start len ) .. ) | !
     scan.simple   ( seq k p perm rc )          -> ( ( bucket start len ) .. ) | !
     chk.scan      ( seq k p scores intervals ) -> 1   (the verified checker on the implementation's output)
     chk.scan.unguarded  the same checker; the harness uses this name for cases of the known-finding class
                         2k-p > 65535 (outside the guard of the theorem)
     msp.sequence  ( maxlen seq k p perm? rc )  -> ( ( bucket exts piece ) .. ) | !     perm? = ( ) | ( perm )
     chk.msp       ( k rc ( ( read ( ( bucket exts piece ) .. ) ) .. ) ) -> 1
     chk.msp.unguarded   the same checker, name used by the harness for the class 2k-p > 65535
   [scores] lists the caller's score of the p-mer at every position 0..|seq|-p; the model's score function is
   the lookup of a p-mer (by its base-4 rank) in that list, 0 for p-mers that do not occur. *)
From Coq Require Import NArith List Bool Arith String.
From DBG Require Import Interop.Val Spec.Dna Spec.ScanSpec Algo.Scan Algo.Msp Check.ScanCheck.
Import ListNotations.
Open Scope N_scope.

Fixpoint assoc_score (tbl : list (N * N)) (key : N) : N :=
  match tbl with
  | [] => 0
  | (k', v) :: r => if key =? k' then v else assoc_score r key
  end.
Definition score_table (seq : dna) (p : nat) (scores : list N) : list (N * N) :=
  combine (map rank (kmers p seq)) scores.

Definition of_interval (x : interval) : val :=
  VL [ofNs (iv_minimizer x); VN (iv_mpos x); VN (iv_start x); VN (iv_len x)].
Definition v_sivl (v : val) : option sivl :=
  match v with
  | VL [VL m; VN q; VN s; VN l] =>
      match vlistN m with Some d => Some (mkS d (N.to_nat q) (N.to_nat s) (N.to_nat l)) | None => None end
  | _ => None
  end.
Definition v_piece (v : val) : option (N * N * dna) :=
  match v with
  | VL [VN b; VN e; VL pc] => match vlistN pc with Some d => Some (b, e, d) | None => None end
  | _ => None
  end.
Definition v_read_out (v : val) : option (dna * list (N * N * dna)) :=
  match v with
  | VL [VL r; VL o] => match vlistN r, omap v_piece o with Some d, Some ps => Some (d, ps) | _, _ => None end
  | _ => None
  end.
Definition of_piece (x : N * N * dna) : val := let '(b, e, d) := x in VL [VN b; VN e; ofNs d].

Definition d_scan (op : string) (v : val) : option val :=
  if String.eqb op "scan.scan" then
    match v with
    | VL [VL s; VN k; VN p; VL scs] =>
        match vlistN s, vlistN scs with
        | Some sq, Some scores =>
            let p' := N.to_nat p in
            let tbl := score_table sq p' scores in
            Some (ofopt (fun l => VL (map of_interval l))
                        (scan_checked (fun x => assoc_score tbl (rank x)) sq (N.to_nat k) p'))
        | _, _ => None
        end
    | _ => None
    end
  else if String.eqb op "scan.simple" then
    match v with
    | VL [VL s; VN k; VN p; VL pm; VN r] =>
        match vlistN s, vlistN pm with
        | Some sq, Some perm =>
            if (N.of_nat (List.length perm) =? 4 ^ p) then
              Some (ofopt (fun l => VL (map (fun x => let '(b, st, ln) := x in VL [VN b; VN st; VN ln]) l))
                          (simple_scan sq (N.to_nat k) (N.to_nat p) perm (negb (r =? 0))))
            else Some VAny
        | _, _ => None
        end
    | _ => None
    end
  else if String.eqb op "chk.simple_scan" then
    match v with
    | VL [VL s; VN k; VN p; VL scs; VL ivs] =>
        match vlistN s, vlistN scs,
              omap (fun x => match x with VL [VN b; VN st; VN ln] => Some (b, N.to_nat st, N.to_nat ln) | _ => None end) ivs with
        | Some sq, Some scores, Some l => Some (ofbool (check_simple sq (N.to_nat k) (N.to_nat p) scores l))
        | _, _, _ => None
        end
    | _ => None
    end
  else if String.eqb op "chk.scan" || String.eqb op "chk.scan.unguarded" then
    match v with
    | VL [VL s; VN k; VN p; VL scs; VL ivs] =>
        match vlistN s, vlistN scs, omap v_sivl ivs with
        | Some sq, Some scores, Some l => Some (ofbool (check_scan sq (N.to_nat k) (N.to_nat p) scores l))
        | _, _, _ => None
        end
    | _ => None
    end
  else if String.eqb op "msp.sequence" then
    match v with
    | VL [VN maxlen; VL s; VN k; VN p; VL pm; VN r] =>
        match vlistN s, (match pm with [] => Some None | [VL t] => option_map Some (vlistN t) | _ => None end) with
        | Some sq, Some perm =>
            if (match perm with Some t => N.of_nat (List.length t) =? 4 ^ p | None => true end) then
              Some (ofopt (fun l => VL (map of_piece l))
                          (msp_sequence maxlen sq (N.to_nat k) (N.to_nat p) perm (negb (r =? 0))))
            else Some VAny
        | _, _ => None
        end
    | _ => None
    end
  else if String.eqb op "chk.msp.tiling" then
    match v with
    | VL [VN k; VN r; VL ros] =>
        match omap v_read_out ros with
        | Some l => Some (ofbool (check_tiling (N.to_nat k) (negb (r =? 0)) l))
        | None => None
        end
    | _ => None
    end
  else if String.eqb op "chk.msp" || String.eqb op "chk.msp.unguarded" then
    match v with
    | VL [VN k; VN r; VL ros] =>
        match omap v_read_out ros with
        | Some l => Some (ofbool (check_msp (N.to_nat k) (negb (r =? 0)) l))
        | None => None
        end
    | _ => None
    end
  else None.

Definition is_scan_op (op : string) : bool :=
  String.eqb (substring 0 5 op) "scan." || String.eqb (substring 0 4 op) "msp." ||
  String.eqb op "chk.scan" || String.eqb op "chk.scan.unguarded" || String.eqb op "chk.simple_scan" || String.eqb op "chk.msp" || String.eqb op "chk.msp.tiling" ||
  String.eqb op "chk.msp.unguarded".
