(* Reflective symbolic bit-vector evaluator (DESIGN 3.4 / A.6).

   A machine word expression [wexp] is evaluated two ways:
     evalN : concrete meaning in N (this is what the executable models use), and
     evalS : symbolic meaning as a list of boolean expressions over the bits of the variables.
   [evalS_sound] relates the two once and for all; [sym_bits] turns a syntactic comparison of
   symbolic results (decided by vm_compute) into a statement about every value of the variables. *)
From Coq Require Import NArith List Bool Arith Lia.
Import ListNotations.

Inductive bx := BF | BT | BV (v i : nat) | BNot (a : bx) | BAnd (a b : bx) | BOr (a b : bx) | BXor (a b : bx).

Lemma nth_map_lt {A B} (f : A -> B) l d d' i : i < length l -> nth i (map f l) d = f (nth i l d').
Proof. revert i; induction l as [|x l IH]; intros [|i] H; simpl in *; try lia; auto. apply IH; lia. Qed.
Lemma nth_firstn_lt {A} (l : list A) d n i : i < n -> nth i (firstn n l) d = nth i l d.
Proof. revert l i; induction n as [|n IH]; intros [|x l] [|i] H; simpl; try lia; auto. apply IH; lia. Qed.
Lemma nth_firstn_ge {A} (l : list A) d n i : n <= i -> nth i (firstn n l) d = d.
Proof. intro H. apply nth_overflow. rewrite firstn_length. lia. Qed.
Lemma nth_skipn_ {A} (l : list A) d k i : nth i (skipn k l) d = nth (k + i) l d.
Proof. revert l; induction k as [|k IH]; intros [|x l]; simpl; auto. destruct i; reflexivity. Qed.
Lemma nth_repeat_ {A} (a : A) m i : nth i (repeat a m) a = a.
Proof. revert i; induction m as [|m IH]; intros [|i]; simpl; auto. Qed.

Section Eval.
Variable rho : nat -> nat -> bool.
Fixpoint beval (e : bx) : bool :=
  match e with
  | BF => false | BT => true | BV v i => rho v i
  | BNot a => negb (beval a) | BAnd a b => beval a && beval b
  | BOr a b => beval a || beval b | BXor a b => xorb (beval a) (beval b)
  end.
End Eval.

Definition mkand a b := match a, b with BF, _ | _, BF => BF | BT, x | x, BT => x | _, _ => BAnd a b end.
Definition mkor a b := match a, b with BT, _ | _, BT => BT | BF, x | x, BF => x | _, _ => BOr a b end.
Definition mkxor a b := match a, b with BF, x | x, BF => x | BT, BT => BF | _, _ => BXor a b end.
Definition mknot a := match a with BF => BT | BT => BF | BNot x => x | _ => BNot a end.

Lemma mkand_ok rho a b : beval rho (mkand a b) = beval rho a && beval rho b.
Proof. destruct a, b; simpl; try reflexivity; try (rewrite ?andb_true_r, ?andb_false_r; reflexivity). Qed.
Lemma mkor_ok rho a b : beval rho (mkor a b) = beval rho a || beval rho b.
Proof. destruct a, b; simpl; try reflexivity; try (rewrite ?orb_true_r, ?orb_false_r; reflexivity). Qed.
Lemma mkxor_ok rho a b : beval rho (mkxor a b) = xorb (beval rho a) (beval rho b).
Proof.
  destruct a, b; cbn [mkxor beval]; rewrite ?xorb_false_r, ?xorb_false_l; reflexivity.
Qed.
Lemma mknot_ok rho a : beval rho (mknot a) = negb (beval rho a).
Proof. destruct a; simpl; try reflexivity. rewrite negb_involutive; reflexivity. Qed.

(* little-endian, any length; bits beyond the list are 0 *)
Definition sbv := list bx.
Definition bit (s : sbv) (i : nat) : bx := nth i s BF.

Definition R (rho : nat -> nat -> bool) (s : sbv) (n : N) : Prop :=
  forall i : nat, N.testbit n (N.of_nat i) = beval rho (bit s i).

Fixpoint zipw (f : bx -> bx -> bx) (a b : sbv) : sbv :=
  match a, b with
  | x :: a', y :: b' => f x y :: zipw f a' b'
  | [], _ => map (f BF) b
  | _, [] => map (fun x => f x BF) a
  end.

Lemma zipw_bit f a b i : f BF BF = BF -> bit (zipw f a b) i = f (bit a i) (bit b i).
Proof.
  intro Hf. unfold bit. revert b i; induction a as [|x a IH]; intros b i.
  - simpl. destruct (Nat.ltb i (length b)) eqn:Hi.
    + apply Nat.ltb_lt in Hi. rewrite (nth_map_lt _ b BF BF) by lia. destruct i; reflexivity.
    + apply Nat.ltb_ge in Hi. rewrite !nth_overflow by (rewrite ?map_length; simpl; lia).
      destruct i; simpl; rewrite Hf; reflexivity.
  - destruct b as [|y b].
    + cbn [zipw]. destruct (Nat.ltb i (length (x :: a))) eqn:Hi.
      * apply Nat.ltb_lt in Hi. rewrite (nth_map_lt _ (x :: a) BF BF) by lia. destruct i; reflexivity.
      * apply Nat.ltb_ge in Hi. rewrite !nth_overflow by (rewrite ?map_length; simpl in *; lia).
        destruct i; simpl; rewrite Hf; reflexivity.
    + destruct i; simpl; auto.
Qed.

Definition s_and := zipw mkand. Definition s_or := zipw mkor. Definition s_xor := zipw mkxor.
Definition s_var (v w : nat) : sbv := map (BV v) (seq 0 w).
Definition s_const (c : N) : sbv :=
  map (fun i => if N.testbit c (N.of_nat i) then BT else BF) (seq 0 (N.to_nat (N.size c))).
Definition s_trunc (w : nat) (a : sbv) : sbv := firstn w a.
Definition s_not (w : nat) (a : sbv) : sbv := map (fun i => mknot (bit a i)) (seq 0 w).
Definition s_shl (w k : nat) (a : sbv) : sbv := firstn w (repeat BF k ++ a).
Definition s_shr (k : nat) (a : sbv) : sbv := skipn k a.

Section Sound.
Variable rho : nat -> nat -> bool.
Local Notation R := (R rho).

Lemma R_and a b x y : R a x -> R b y -> R (s_and a b) (N.land x y).
Proof. intros Ha Hb i. rewrite N.land_spec, Ha, Hb. unfold s_and. rewrite zipw_bit by reflexivity. now rewrite mkand_ok. Qed.
Lemma R_or a b x y : R a x -> R b y -> R (s_or a b) (N.lor x y).
Proof. intros Ha Hb i. rewrite N.lor_spec, Ha, Hb. unfold s_or. rewrite zipw_bit by reflexivity. now rewrite mkor_ok. Qed.
Lemma R_xor a b x y : R a x -> R b y -> R (s_xor a b) (N.lxor x y).
Proof. intros Ha Hb i. rewrite N.lxor_spec, Ha, Hb. unfold s_xor. rewrite zipw_bit by reflexivity. now rewrite mkxor_ok. Qed.

Lemma R_trunc w a x : R a x -> R (s_trunc w a) (x mod 2 ^ N.of_nat w).
Proof.
  intros Ha i. unfold bit, s_trunc. destruct (Nat.ltb i w) eqn:Hi.
  - apply Nat.ltb_lt in Hi. rewrite N.mod_pow2_bits_low by lia. rewrite nth_firstn_lt by lia. apply Ha.
  - apply Nat.ltb_ge in Hi. rewrite N.mod_pow2_bits_high by lia. now rewrite nth_firstn_ge by lia.
Qed.

(* complement within width w *)
Lemma R_not w a x : R a x -> R (s_not w a) (N.lxor (x mod 2 ^ N.of_nat w) (N.ones (N.of_nat w))).
Proof.
  intros Ha i. rewrite N.lxor_spec. unfold bit at 1, s_not. destruct (Nat.ltb i w) eqn:Hi.
  - apply Nat.ltb_lt in Hi. rewrite N.mod_pow2_bits_low, N.ones_spec_low by lia.
    rewrite (nth_map_lt _ (seq 0 w) BF 0) by (rewrite seq_length; lia). rewrite seq_nth by lia.
    rewrite mknot_ok, Ha. simpl. now destruct (beval rho (bit a i)).
  - apply Nat.ltb_ge in Hi. rewrite N.mod_pow2_bits_high, N.ones_spec_high by lia.
    now rewrite nth_overflow by (rewrite map_length, seq_length; lia).
Qed.

Lemma R_const c : R (s_const c) c.
Proof.
  intro i. unfold bit, s_const. set (w := N.to_nat (N.size c)).
  destruct (Nat.ltb i w) eqn:Hi.
  - apply Nat.ltb_lt in Hi. rewrite (nth_map_lt _ (seq 0 w) BF 0) by (rewrite seq_length; lia).
    rewrite seq_nth by lia. simpl. now destruct (N.testbit c (N.of_nat i)).
  - apply Nat.ltb_ge in Hi. rewrite nth_overflow by (rewrite map_length, seq_length; lia). simpl.
    destruct (N.eq_dec c 0) as [->|Hnz]; [apply N.bits_0|].
    apply N.bits_above_log2. subst w. rewrite N.size_log2 in Hi by assumption. lia.
Qed.

Lemma R_shl w k a x : R a x -> R (s_shl w k a) (N.shiftl x (N.of_nat k) mod 2 ^ N.of_nat w).
Proof.
  intros Ha i. unfold bit, s_shl. destruct (Nat.ltb i w) eqn:Hi.
  - apply Nat.ltb_lt in Hi. rewrite N.mod_pow2_bits_low by lia. rewrite nth_firstn_lt by lia.
    destruct (Nat.ltb i k) eqn:Hk.
    + apply Nat.ltb_lt in Hk. rewrite N.shiftl_spec_low by lia.
      rewrite app_nth1 by (rewrite repeat_length; lia). now rewrite nth_repeat_.
    + apply Nat.ltb_ge in Hk. rewrite N.shiftl_spec_high' by lia.
      rewrite app_nth2 by (rewrite repeat_length; lia). rewrite repeat_length.
      replace (N.of_nat i - N.of_nat k)%N with (N.of_nat (i - k)) by lia. apply Ha.
  - apply Nat.ltb_ge in Hi. rewrite N.mod_pow2_bits_high by lia. now rewrite nth_firstn_ge by lia.
Qed.

Lemma R_shr k a x : R a x -> R (s_shr k a) (N.shiftr x (N.of_nat k)).
Proof.
  intros Ha i. rewrite N.shiftr_spec'. replace (N.of_nat i + N.of_nat k)%N with (N.of_nat (k + i)) by lia.
  rewrite Ha. unfold bit, s_shr. now rewrite nth_skipn_.
Qed.
End Sound.

(* ---------------------------------------------------------------- deep embedding *)
(* Variables carry their width; every width-sensitive operation carries the width of the machine
   word it is performed in, so that u8/u16/u32/u64/u128/u64-payload can be mixed in one kernel. *)
Inductive wexp :=
| Var (v w : nat)                 (* variable v, a w-bit word *)
| Const (c : N)
| And (a b : wexp) | Or (a b : wexp) | Xor (a b : wexp)
| Not (w : nat) (a : wexp)        (* !a on a w-bit word *)
| Shl (w k : nat) (a : wexp)      (* (a << k) on a w-bit word; k < w is checked by [shifts_ok] *)
| Shr (k : nat) (a : wexp)
| Trunc (w : nat) (a : wexp).     (* `as uW` *)

Fixpoint evalN (env : nat -> N) (e : wexp) : N :=
  match e with
  | Var v w => env v mod 2 ^ N.of_nat w
  | Const c => c
  | And a b => N.land (evalN env a) (evalN env b)
  | Or a b => N.lor (evalN env a) (evalN env b)
  | Xor a b => N.lxor (evalN env a) (evalN env b)
  | Not w a => N.lxor (evalN env a mod 2 ^ N.of_nat w) (N.ones (N.of_nat w))
  | Shl w k a => N.shiftl (evalN env a) (N.of_nat k) mod 2 ^ N.of_nat w
  | Shr k a => N.shiftr (evalN env a) (N.of_nat k)
  | Trunc w a => evalN env a mod 2 ^ N.of_nat w
  end.

(* [bnd v] is a known bound on variable v (a guard of the theorem being proved: env v < 2^(bnd v)) *)
Fixpoint evalS (bnd : nat -> nat) (e : wexp) : sbv :=
  match e with
  | Var v w => s_var v (Nat.min w (bnd v))
  | Const c => s_const c
  | And a b => s_and (evalS bnd a) (evalS bnd b)
  | Or a b => s_or (evalS bnd a) (evalS bnd b)
  | Xor a b => s_xor (evalS bnd a) (evalS bnd b)
  | Not w a => s_not w (evalS bnd a)
  | Shl w k a => s_shl w k (evalS bnd a)
  | Shr k a => s_shr k (evalS bnd a)
  | Trunc w a => s_trunc w (evalS bnd a)
  end.
Definition nobound : nat -> nat := fun _ => 4096%nat.

(* Rust panics (debug) when a shift amount reaches the word width; the models use this to return ⊥ *)
Fixpoint shifts_ok (e : wexp) : bool :=
  match e with
  | Var _ _ | Const _ => true
  | And a b | Or a b | Xor a b => shifts_ok a && shifts_ok b
  | Not _ a | Trunc _ a | Shr _ a => shifts_ok a
  | Shl w k a => Nat.ltb k w && shifts_ok a
  end.

(* the valuation of symbolic variables induced by an environment: bit i of variable v.  Widths are
   irrelevant here because [s_var v w] only mentions bits below w and evalN truncates to w. *)
Definition rho_of (env : nat -> N) : nat -> nat -> bool := fun v i => N.testbit (env v) (N.of_nat i).

Lemma R_var env v w : R (rho_of env) (s_var v w) (env v mod 2 ^ N.of_nat w).
Proof.
  intro i. unfold bit, s_var. destruct (Nat.ltb i w) eqn:Hi.
  - apply Nat.ltb_lt in Hi. rewrite (nth_map_lt _ (seq 0 w) BF 0) by (rewrite seq_length; lia).
    rewrite seq_nth by lia. simpl. unfold rho_of. apply N.mod_pow2_bits_low. lia.
  - apply Nat.ltb_ge in Hi. rewrite nth_overflow by (rewrite map_length, seq_length; lia). simpl.
    apply N.mod_pow2_bits_high. lia.
Qed.

(* numeric value / population count of a symbolic vector under a valuation *)
Definition sbv_val (rho : nat -> nat -> bool) (s : sbv) : N :=
  fold_right (fun b acc => N.b2n (beval rho b) + 2 * acc)%N 0%N s.
Definition sbv_pop (rho : nat -> nat -> bool) (s : sbv) : N :=
  fold_right (fun b acc => N.b2n (beval rho b) + acc)%N 0%N s.

Lemma R_tail rho x s n : R rho (x :: s) n -> R rho s (N.div2 n).
Proof.
  intros H i. rewrite N.div2_spec, N.shiftr_spec'. replace (N.of_nat i + 1)%N with (N.of_nat (S i)) by lia.
  rewrite H. reflexivity.
Qed.
Lemma R_nil rho n : R rho [] n -> n = 0%N.
Proof.
  intro H. apply N.bits_inj_0. intro i. rewrite <- (N2Nat.id i). rewrite H. unfold bit. now destruct (N.to_nat i).
Qed.
Lemma R_val rho s : forall n, R rho s n -> n = sbv_val rho s.
Proof.
  induction s as [|x s IH]; intros n H.
  - now apply R_nil in H.
  - cbn [sbv_val fold_right]. fold (sbv_val rho s). rewrite <- (IH _ (R_tail _ _ _ _ H)).
    specialize (H 0%nat). cbn in H. rewrite <- H. rewrite N.bit0_odd.
    rewrite (N.div2_odd n) at 1. rewrite N.add_comm. reflexivity.
Qed.

Definition bounded (env : nat -> N) (bnd : nat -> nat) : Prop := forall v, (env v < 2 ^ N.of_nat (bnd v))%N.

Lemma testbit_above (x : N) (b i : nat) : (x < 2 ^ N.of_nat b)%N -> b <= i -> N.testbit x (N.of_nat i) = false.
Proof.
  intros Hx Hi. destruct (N.eq_dec x 0) as [->|Hnz]; [apply N.bits_0|].
  apply N.bits_above_log2. apply N.log2_lt_pow2; [lia|].
  eapply N.lt_le_trans; [exact Hx|]. apply N.pow_le_mono_r; lia.
Qed.

Theorem evalS_sound env bnd e : bounded env bnd -> R (rho_of env) (evalS bnd e) (evalN env e).
Proof.
  intro Hb. induction e; cbn [evalS evalN].
  - intro i. unfold bit, s_var. destruct (Nat.ltb i (Nat.min w (bnd v))) eqn:Hi.
    + apply Nat.ltb_lt in Hi. rewrite (nth_map_lt _ (seq 0 _) BF 0) by (rewrite seq_length; lia).
      rewrite seq_nth by lia. simpl. unfold rho_of. apply N.mod_pow2_bits_low. lia.
    + apply Nat.ltb_ge in Hi. rewrite nth_overflow by (rewrite map_length, seq_length; lia). simpl.
      destruct (Nat.ltb i w) eqn:Hw.
      * apply Nat.ltb_lt in Hw. rewrite N.mod_pow2_bits_low by lia. apply (testbit_above _ (bnd v)); [apply Hb | lia].
      * apply Nat.ltb_ge in Hw. apply N.mod_pow2_bits_high. lia.
  - apply R_const.
  - now apply R_and.
  - now apply R_or.
  - now apply R_xor.
  - now apply R_not.
  - now apply R_shl.
  - now apply R_shr.
  - now apply R_trunc.
Qed.

(* ---------------------------------------------------------------- deciding equality of symbolic bits *)
Fixpoint bx_eqb (a b : bx) : bool :=
  match a, b with
  | BF, BF | BT, BT => true
  | BV v i, BV w j => Nat.eqb v w && Nat.eqb i j
  | BNot x, BNot y => bx_eqb x y
  | BAnd x1 x2, BAnd y1 y2 | BOr x1 x2, BOr y1 y2 | BXor x1 x2, BXor y1 y2 => bx_eqb x1 y1 && bx_eqb x2 y2
  | _, _ => false end.
Lemma bx_eqb_eq a : forall b, bx_eqb a b = true -> a = b.
Proof.
  induction a; destruct b; simpl; intro H; try discriminate; auto.
  - apply andb_prop in H as [H1 H2]. apply Nat.eqb_eq in H1, H2. subst; auto.
  - f_equal; auto.
  - apply andb_prop in H as [H1 H2]. f_equal; auto.
  - apply andb_prop in H as [H1 H2]. f_equal; auto.
  - apply andb_prop in H as [H1 H2]. f_equal; auto.
Qed.

(* equality up to trailing constant-false bits *)
Definition is_BF (a : bx) : bool := match a with BF => true | _ => false end.
Fixpoint sbv_eqb (a b : sbv) : bool :=
  match a, b with
  | [], _ => forallb is_BF b
  | _, [] => forallb is_BF a
  | x :: a', y :: b' => bx_eqb x y && sbv_eqb a' b'
  end.

Lemma forallb_BF_bit a i : forallb is_BF a = true -> bit a i = BF.
Proof.
  unfold bit. revert i; induction a as [|x a IH]; intros [|i] H; simpl in *; auto;
    apply andb_prop in H as [H1 H2]; auto. destruct x; try discriminate; reflexivity.
Qed.

Lemma sbv_eqb_bit a : forall b i, sbv_eqb a b = true -> bit a i = bit b i.
Proof.
  induction a as [|x a IH]; intros b i H.
  - simpl in H. rewrite (forallb_BF_bit b i H). unfold bit. destruct i; reflexivity.
  - destruct b as [|y b].
    + rewrite (forallb_BF_bit (x :: a) i H). unfold bit. destruct i; reflexivity.
    + simpl in H. apply andb_prop in H as [H1 H2]. apply bx_eqb_eq in H1. subst y.
      destruct i; [reflexivity|]. unfold bit; simpl. apply (IH b i H2).
Qed.

(* The two lifting principles used by every sweep. *)
Theorem sym_spec env bnd e s : bounded env bnd -> sbv_eqb (evalS bnd e) s = true ->
  forall i : nat, N.testbit (evalN env e) (N.of_nat i) = beval (rho_of env) (bit s i).
Proof. intros Hb H i. rewrite (evalS_sound env bnd e Hb i). now rewrite (sbv_eqb_bit _ _ i H). Qed.

Theorem sym_equal env bnd e1 e2 : bounded env bnd -> sbv_eqb (evalS bnd e1) (evalS bnd e2) = true ->
  evalN env e1 = evalN env e2.
Proof.
  intros Hb H. apply N.bits_inj. intro i. rewrite <- (N2Nat.id i).
  rewrite (evalS_sound env bnd e1 Hb), (evalS_sound env bnd e2 Hb). now rewrite (sbv_eqb_bit _ _ _ H).
Qed.

(* demo / regression: the u16 ladder is an involution for every 16-bit value *)
Definition demo_step (m : N) (s : nat) (r : wexp) := Or (Shl 16 s (And r (Const m))) (And (Shr s r) (Const m)).
Definition demo_rev2_16 (x : wexp) := demo_step 0x00FF 8 (demo_step 0x0F0F 4 (demo_step 0x3333 2 x)).
Example demo_rev2_16_involutive : forall x, (x < 2 ^ 16)%N ->
  evalN (fun _ => x) (demo_rev2_16 (demo_rev2_16 (Var 0 16))) = x.
Proof.
  intros x Hx. transitivity (evalN (fun _ => x) (Var 0 16)).
  - apply sym_equal with (bnd := fun _ => 16%nat); [intro; exact Hx | vm_compute; reflexivity].
  - cbn [evalN]. apply N.mod_small. exact Hx.
Qed.
