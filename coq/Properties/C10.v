(* C10 - Packed k-mers behave as length-K strings.
   Statements only (closed by [exact]); proofs live in Proofs/.  For every one of the 19 shipped k-mer
   configurations [c], every storage value [s] whose unused top lanes are zero ([wf]), and every in-range
   argument, the modelled operation succeeds (no panic), returns a [wf] value, and that value decodes to
   what the same operation on the plain K-letter list gives.  Positions / run lengths / configurations
   are enumerated (finite by the type); storage and payload VALUES are universally quantified. *)
From Coq Require Import NArith List Bool Arith.
From DBG Require Import Spec.Dna Packed.KmerModel Proofs.KmerLanes Proofs.KmerOps Proofs.KmerDefaults.
Import ListNotations.
Open Scope N_scope.

Theorem C10_get : forall c s pos, In c shipped -> wf (kK c) s -> (pos < kK c)%nat ->
  get c s pos = Some (nth pos (decode (kK c) s) 0).
Proof. exact get_spec. Qed.

Theorem C10_set_mut : forall c s pos v, In c shipped -> wf (kK c) s -> (pos < kK c)%nat -> v < 4 ->
  exists r, set_mut c s pos v = Some r /\ wf (kK c) r /\ decode (kK c) r = upd pos (decode (kK c) s) v.
Proof. exact set_mut_spec. Qed.

Theorem C10_set_slice_mut : forall c s pos n value, In c shipped -> wf (kK c) s ->
  (1 <= n)%nat -> (n <= 32)%nat -> (pos + n <= kK c)%nat -> value < 2 ^ 64 ->
  exists r, set_slice_mut c s pos n value = Some r /\ wf (kK c) r /\
            decode (kK c) r = splice pos (payload_bases n value) (decode (kK c) s).
Proof. exact set_slice_mut_spec. Qed.

Theorem C10_extend_left : forall c s v, In c shipped -> wf (kK c) s -> v < 4 ->
  exists r, kextend_left c s v = Some r /\ wf (kK c) r /\ decode (kK c) r = extend_left (decode (kK c) s) v.
Proof. exact extend_left_spec. Qed.

Theorem C10_extend_right : forall c s v, In c shipped -> wf (kK c) s -> v < 4 ->
  exists r, kextend_right c s v = Some r /\ wf (kK c) r /\ decode (kK c) r = extend_right (decode (kK c) s) v.
Proof. exact extend_right_spec. Qed.

Theorem C10_rc : forall c s, In c shipped -> wf (kK c) s ->
  exists r, krc c s = Some r /\ wf (kK c) r /\ decode (kK c) r = rc (decode (kK c) s).
Proof. exact rc_spec. Qed.

Theorem C10_to_u64 : forall c s, In c shipped -> wf (kK c) s -> (kK c <= 32)%nat ->
  to_u64 s = Some (rank (decode (kK c) s)).
Proof. exact to_u64_spec. Qed.

Theorem C10_from_u64 : forall c v, In c shipped -> v < 2 ^ 64 -> v < 4 ^ N.of_nat (kK c) ->
  from_u64 c v = Some v /\ wf (kK c) v /\ rank (decode (kK c) v) = v.
Proof. exact from_u64_spec. Qed.

Theorem C10_hamming_dist : forall c s o, In c shipped -> wf (kK c) s -> wf (kK c) o ->
  hamming_dist c s o = Some (count_diff (decode (kK c) s) (decode (kK c) o)).
Proof. exact hamming_spec. Qed.

Theorem C10_at_count : forall c s, In c shipped -> wf (kK c) s -> kat_count c s = Some (at_count (decode (kK c) s)).
Proof. exact at_count_spec. Qed.
Theorem C10_gc_count : forall c s, In c shipped -> wf (kK c) s -> kgc_count c s = Some (gc_count (decode (kK c) s)).
Proof. exact gc_count_spec. Qed.

Theorem C10_from_bytes : forall c, In c shipped -> forall bytes, (kK c <= length bytes)%nat -> wf_dna (firstn (kK c) bytes) ->
  exists r, from_bytes c bytes = Some r /\ wf (kK c) r /\ decode (kK c) r = firstn (kK c) bytes.
Proof. exact from_bytes_spec. Qed.

Theorem C10_from_ascii : forall c, In c shipped -> forall bytes, (kK c <= length bytes)%nat ->
  exists r, from_ascii c bytes = Some r /\ wf (kK c) r /\ decode (kK c) r = map b2b (firstn (kK c) bytes).
Proof. exact from_ascii_spec. Qed.

Theorem C10_to_string : forall c, In c shipped -> forall s, wf (kK c) s -> to_string c s = Some (text (decode (kK c) s)).
Proof. exact to_string_spec. Qed.

Theorem C10_kmers_from_bytes : forall c, In c shipped -> forall l, wf_dna l ->
  exists rs, kmers_from_bytes c l = Some rs /\ Forall (wf (kK c)) rs /\ map (decode (kK c)) rs = kmers (kK c) l.
Proof. exact kmers_from_bytes_spec. Qed.

Theorem C10_kmers_from_ascii : forall c, In c shipped -> forall l,
  exists rs, kmers_from_ascii c l = Some rs /\ Forall (wf (kK c)) rs /\ map (decode (kK c)) rs = kmers (kK c) (map b2b l).
Proof. exact kmers_from_ascii_spec. Qed.

(* decoding is a bijection between wf storage words and K-letter strings, so "returns the string" above
   determines the returned storage word completely *)
Theorem C10_decode_inj : forall K s1 s2, wf K s1 -> wf K s2 -> decode K s1 = decode K s2 -> s1 = s2.
Proof. exact decode_inj. Qed.
Theorem C10_decode_surj : forall K l, length l = K -> wf_dna l -> decode K (rank l) = l.
Proof. exact decode_rank. Qed.

(* non-vacuity: a concrete 5-mer (VarIntKmer<u16,K5>) CGTAC, a packed write of the 2 bases TG at position 2 gives CGTGC *)
Example C10_nonvacuous :
  In (mkc 16 5) shipped /\ wf 5 0x1B1 /\ decode 5 0x1B1 = [1; 2; 3; 0; 1] /\
  set_slice_mut (mkc 16 5) 0x1B1 2 2 0xE000000000000000 = Some 0x1B9.
Proof. vm_compute. repeat split; auto 20. Qed.

Print Assumptions C10_get.
Print Assumptions C10_set_mut.
Print Assumptions C10_set_slice_mut.
Print Assumptions C10_extend_left.
Print Assumptions C10_extend_right.
Print Assumptions C10_rc.
Print Assumptions C10_to_u64.
Print Assumptions C10_from_u64.
Print Assumptions C10_hamming_dist.
Print Assumptions C10_at_count.
Print Assumptions C10_gc_count.
Print Assumptions C10_from_bytes.
Print Assumptions C10_from_ascii.
Print Assumptions C10_to_string.
Print Assumptions C10_kmers_from_bytes.
Print Assumptions C10_kmers_from_ascii.
Print Assumptions C10_decode_inj.
Print Assumptions C10_decode_surj.
