(* C19 - Index construction is schedule-independent and lookups are exact.  Statements only.
   The model (Algo/BBHash.v) follows the vendored boomphf 0.6.0 source; what it does not exhibit - real rayon
   work splitting, hardware memory ordering beyond "a Relaxed load of collide may return a stale false",
   the word-level rank/popcount code - is covered by the sampled runs only (see lib/props.py, level_note). *)
From Coq Require Import NArith List Bool Arith Relations.
From DBG Require Import Spec.Dna Spec.GraphIndex Algo.BBHash Proofs.BBHashProofs.
From Coq Require Import Lia Permutation.
From DBG Require Import Proofs.BBHashOrder.
Import ListNotations.
Local Open Scope nat_scope.

(* Phase 1 of one BBHash level (Context::find_collisions on every key, in parallel): for EVERY interleaving of
   the threads' atomic steps and every choice of stale reads of [collide], once all threads are done
   a[s] = (at least one key hashes to s) and collide[s] = (at least two keys hash to s).
   No bound on the number of keys, slots or steps. *)
Theorem C19_level_schedule_independent : forall (slots : list nat) (size : nat),
  (forall i, i < length slots -> slot slots i < size) ->
  forall st, clos_refl_trans _ (step1 slots) (init1 (length slots) size) st -> done1 slots st ->
    sa st = map (fun s => 1 <=? cnt s slots) (seq 0 size) /\
    sc st = map (fun s => 2 <=? cnt s slots) (seq 0 size).
Proof. exact phase1_final. Qed.
Print Assumptions C19_level_schedule_independent.

(* Phase 2 (Context::filter on every key, in parallel, after the join of phase 1; [c] = the final collide,
   [a0] = the a left by phase 1): for every interleaving, a bit survives unless its slot is marked and carries
   a key, and the keys collected (in input order: rayon's collect contract, trusted) are those on marked slots. *)
Theorem C19_filter_schedule_independent : forall (slots : list nat) (size : nat) (c a0 : bv),
  (forall i, i < length slots -> slot slots i < size) -> length a0 = size ->
  forall st, clos_refl_trans _ (step2 slots c) (init2 (length slots) a0) st -> done2 slots st ->
    sa2 st = map (fun s => bget a0 s && negb (bget c s && (1 <=? cnt s slots))) (seq 0 size) /\
    forall keys, length keys = length slots -> collect keys (pcs2 st) = redo_spec c keys slots.
Proof. exact phase2_final. Qed.

(* One level, both phases, any schedules: the bit vector and the redo list of the serial code. *)
Theorem C19_level_par_eq_serial : forall (h : nat -> nat -> key -> nat) (sz : nat -> nat),
  (forall iter n k, h iter (sz n) k < sz n) ->
  forall iter keys a redo, level_par h sz iter keys a redo -> (a, redo) = level_serial h sz iter keys.
Proof. exact level_par_eq_serial. Qed.

(* Mphf::new_parallel under any schedule of every level = Mphf::new: the same list of level bit vectors
   (or the same "more than MAX_ITERS levels" panic, None). *)
Theorem C19_mphf_parallel_eq_serial : forall (h : nat -> nat -> key -> nat) (sz : nat -> nat),
  (forall iter n k, h iter (sz n) k < sz n) ->
  forall keys r, mphf_par h sz keys r -> r = mphf_new h sz keys.
Proof. exact mphf_par_eq. Qed.

(* BaseGraph::finish under any schedule = BaseGraph::finish_serial, structurally: base graph, both MPHFs,
   both key/value tables.  Hence every query answered from the structure is identical, and identical from
   run to run. *)
Theorem C19_finish_eq_finish_serial : forall (h : nat -> nat -> key -> nat) (sz : nat -> nat),
  (forall iter n k, h iter (sz n) k < sz n) ->
  forall K g r, finish_par h sz K g r -> r = finish_serial h sz K g.
Proof. exact finish_par_eq. Qed.

Print Assumptions C19_filter_schedule_independent.
Print Assumptions C19_level_par_eq_serial.
Print Assumptions C19_mphf_parallel_eq_serial.
Print Assumptions C19_finish_eq_finish_serial.

(* The constructed function is a minimal perfect hash whenever construction terminates within MAX_ITERS levels
   (hypothesis [mphf_new .. = Some m]; otherwise the Rust code panics) on duplicate-free keys (boomphf's
   documented precondition): total and injective on the keys, values below n; moreover ANY item hitting a set
   bit receives the value of some key, so the key verification of get always has a key to compare with.
   Rank is "number of set bits before the slot"; boomphf's word-level rank code is not modelled. *)
Theorem C19_mphf_perfect : forall (h : nat -> nat -> key -> nat) (sz : nat -> nat),
  (forall iter n k, h iter (sz n) k < sz n) ->
  forall keys m, NoDup keys -> mphf_new h sz keys = Some m ->
    (forall k, In k keys -> exists r, try_hash h m k = Some r) /\
    (forall k1 k2 r, In k1 keys -> In k2 keys -> try_hash h m k1 = Some r -> try_hash h m k2 = Some r -> k1 = k2) /\
    (forall q r, try_hash h m q = Some r -> r < length keys /\ exists k, In k keys /\ try_hash h m k = Some r).
Proof. exact mphf_perfect. Qed.

(* BoomHashMap::get on the constructed map: never panics (outer Some) and returns Some v exactly for the
   stored pairs - in particular None for every absent key, whatever it hashes to (key verification). *)
Theorem C19_lookup_exact : forall (h : nat -> nat -> key -> nat) (sz : nat -> nat),
  (forall iter n k, h iter (sz n) k < sz n) ->
  forall (V : Type) keys (vals : list V) m, NoDup keys -> length vals = length keys ->
    bhm_new h sz keys vals = Some m ->
    forall k, exists o, bhm_get h m k = Some o /\ forall v, o = Some v <-> In (k, v) (combine keys vals).
Proof. intros h sz H V. exact (@lookup_exact h sz H V). Qed.

Print Assumptions C19_mphf_perfect.
Print Assumptions C19_lookup_exact.

(* On a graph whose node sequences are DNA of length >= K with pairwise distinct first k-mers and pairwise
   distinct last k-mers (boomphf's no-duplicates precondition), and whose index construction terminated
   (finish.. = Some d):  search_kmer never panics and finds a k-mer as a [side] end exactly when some node has
   it as that end (end_index = position of that node in the list of ends, None if there is none). *)
Theorem C19_search_kmer_exact : forall (h : nat -> nat -> key -> nat) (sz : nat -> nat),
  (forall iter n k, h iter (sz n) k < sz n) ->
  forall K g d kmer side, good_graph K g -> finish_serial h sz K g = Some d ->
    length kmer = K -> wf_dna kmer ->
    search_kmer h d kmer side = Some (end_index (ends_of K (g_seqs g) side) kmer).
Proof. exact search_kmer_exact. Qed.

(* find_link of the serially finished graph is the list-level specification (Spec/GraphIndex.v) ... *)
Theorem C19_find_link_exact : forall (h : nat -> nat -> key -> nat) (sz : nat -> nat),
  (forall iter n k, h iter (sz n) k < sz n) ->
  forall K g d kmer dr, good_graph K g -> finish_serial h sz K g = Some d ->
    length kmer = K -> wf_dna kmer ->
    find_link h d kmer dr = Some (find_link_spec K (g_stranded g) (g_seqs g) kmer dr).
Proof. exact find_link_exact. Qed.

(* ... and so is find_link of the graph finished in parallel, under every schedule. *)
Theorem C19_find_link_exact_parallel : forall (h : nat -> nat -> key -> nat) (sz : nat -> nat),
  (forall iter n k, h iter (sz n) k < sz n) ->
  forall K g d kmer dr, good_graph K g -> finish_par h sz K g (Some d) ->
    length kmer = K -> wf_dna kmer ->
    find_link h d kmer dr = Some (find_link_spec K (g_stranded g) (g_seqs g) kmer dr).
Proof. exact find_link_exact_par. Qed.

Print Assumptions C19_search_kmer_exact.
Print Assumptions C19_find_link_exact.
Print Assumptions C19_find_link_exact_parallel.

(* Strengthening: the MPHF is a function of the SET of keys.  Even if every level's parallel
   filter_map().collect() handed the redo keys over in an arbitrary order ([mphf_par_u]: any permutation), the
   result is the serial one - rayon's order-preservation contract is not needed for finish() = finish_serial().
   (Seen in the runs too: building the index from the reversed key vector serialises to the same bytes.) *)
Theorem C19_mphf_parallel_any_collect_order : forall (h : nat -> nat -> key -> nat) (sz : nat -> nat),
  (forall iter n k, h iter (sz n) k < sz n) ->
  forall keys r, mphf_par_u h sz keys r -> r = mphf_new h sz keys.
Proof. exact mphf_par_u_eq. Qed.
Theorem C19_mphf_key_order_irrelevant : forall (h : nat -> nat -> key -> nat) (sz : nat -> nat),
  (forall iter n k, h iter (sz n) k < sz n) ->
  forall keys keys', Permutation keys keys' -> mphf_new h sz keys = mphf_new h sz keys'.
Proof. exact mphf_new_perm. Qed.
Print Assumptions C19_mphf_parallel_any_collect_order.
Print Assumptions C19_mphf_key_order_irrelevant.

(* ---- non-vacuity *)
(* a complete schedule exists and is covered by the theorem: six keys on four slots, interleaved, thread 5
   reading a stale collide[3] = false after it was set, then marking it again *)
Example C19_schedule_nonvacuous :
  let slots := [3; 1; 3; 0; 1; 3] in
  let sched := [(0, false); (2, false); (5, false); (0, false); (2, false); (1, false); (2, false);
                (5, true); (5, false); (5, false); (4, false); (1, false); (4, false); (4, false);
                (3, false); (3, false); (3, false); (1, false); (1, false); (0, false)] in
  let st := run1 slots sched (init1 6 4) in
  clos_refl_trans _ (step1 slots) (init1 (length slots) 4) st /\ done1 slots st /\
  pcs st = [Df; Df; Dc; Df; Dc; Dc] /\
  sa st = [true; true; false; true] /\ sc st = [false; true; false; true].
Proof.
  cbv zeta. split; [apply run1_reach|]. split; [apply done1b_done1; vm_compute; reflexivity|].
  vm_compute. auto.
Qed.

Example C19_filter_nonvacuous :
  let slots := [3; 1; 3; 0; 1; 3] in
  let c := [false; true; false; true] in
  let st := run2 slots c [5; 0; 5; 1; 3; 2; 4; 4; 2; 1; 0] (init2 6 [true; true; false; true]) in
  clos_refl_trans _ (step2 slots c) (init2 (length slots) [true; true; false; true]) st /\
  sa2 st = [true; false; false; false] /\
  collect [10; 11; 12; 13; 14; 15]%N (pcs2 st) = [10; 11; 12; 14; 15]%N.
Proof. cbv zeta. split; [apply run2_reach|]. vm_compute. auto. Qed.

(* a concrete graph meeting every hypothesis of the lookup theorems, with a present end, an end found through
   the reverse complement, and an absent k-mer *)
Example C19_graph_nonvacuous :
  let h := fun (iter size : nat) (k : key) => (N.to_nat k * 7 + iter) mod size in
  let sz := fun n => n + 3 in
  let g := mkbase [[0; 1; 2; 3; 0]; [3; 3; 2; 1]; [2; 2; 2]]%N [0; 0; 0]%N [0; 0; 0]%N false in
  (forall iter n k, h iter (sz n) k < sz n) /\ good_graph 3 g /\
  exists d, finish_serial h sz 3 g = Some d /\
    find_link h d [2; 3; 0]%N DLeft = Some (Some (0, DRight, false)) /\
    find_link h d [1; 0; 0]%N DLeft = Some (Some (1, DLeft, true)) /\
    find_link h d [0; 0; 0]%N DLeft = Some None.
Proof.
  cbv zeta. split; [intros; apply Nat.mod_upper_bound; lia|]. split.
  - unfold good_graph. split; [|split].
    + repeat constructor; cbn; lia.
    + vm_compute. repeat (constructor; [cbn; intuition discriminate|]). constructor.
    + vm_compute. repeat (constructor; [cbn; intuition discriminate|]). constructor.
  - eexists. split; [vm_compute; reflexivity|]. vm_compute. auto.
Qed.
