(* C19 - Index construction is schedule-independent and lookups are exact.  Statements only.
   The model (Algo/BBHash.v) follows the vendored boomphf 0.6.0 source; what it does not exhibit - real rayon
   work splitting, hardware memory ordering beyond "a Relaxed load of collide may return a stale false",
   the word-level rank/popcount code - is covered by the sampled runs only (see lib/props.py, level_note). *)
From Coq Require Import NArith List Bool Arith Relations.
From DBG Require Import Spec.Dna Spec.GraphIndex Algo.BBHash Proofs.BBHashProofs.
Import ListNotations.
Local Open Scope nat_scope.

(* Phase 1 of one BBHash level (Context::find_collisions on every key, in parallel): for EVERY interleaving of
   the threads' atomic steps and every choice of stale reads of [collide], once all threads are done
   a[s] = (at least one key hashes to s) and collide[s] = (at least two keys hash to s).
   No bound on the number of keys, slots or steps. *)
Theorem C19_level_schedule_independent : forall (slots : list nat) (size : nat),
  (forall i, i < length slots -> slot slots i < size) ->
  forall st, clos_refl_trans _ (step1 slots) (init1 (length slots) size) st -> done1 slots st ->
    sa st = map (fun s => 1 <=? cnt s slots) (seq 0 size) /\
    sc st = map (fun s => 2 <=? cnt s slots) (seq 0 size).
Proof. exact phase1_final. Qed.
Print Assumptions C19_level_schedule_independent.
