(* C19 - Index construction is schedule-independent and lookups are exact.  Statements only. *)
From Coq Require Import NArith List Bool Arith Relations.
From DBG Require Import Spec.Dna Spec.GraphIndex Algo.BBHash Proofs.BBHashProofs.
Import ListNotations.
Local Open Scope nat_scope.

Theorem C19_lset_length : forall A (l : list A) i x, length (lset l i x) = length l.
Proof. exact @lset_length. Qed.
Print Assumptions C19_lset_length.
