(* C02 / C09 on VERY LONG UNBRANCHED PATHS - a linear-time verified checker (work package chain).  Statements only.
   Why: a seeded change bounds the walk of compress_kmers to 65536 steps per side, so an unbranched path of more than
   65537 k-mers comes out as several nodes; the general checkers (chk_c02p ...) and the list model are quadratic in the
   table size and cannot be evaluated on a 70 000-k-mer table.  [chain_table_okb D join K stranded T]
   (Check/ChainCheck.v) decides in ONE pass, O(K) per entry and without any table lookup, that the table T - given IN
   CHAIN ORDER - is a single simple chain:
     - K >= 1, T non-empty; every key has length K, bases < 4, is canonical and not a palindrome when unstranded; every
       extension byte is < 256;
     - the keys are pairwise distinct (binary trie over the ranks, FMapPositive: O(2K) per key);
     - following the static step of try_extend_kmer from the first entry (either leaving side is tried; the side
       facing away has no extension): entry i has EXACTLY ONE extension on its leaving side, it leads to the key of
       entry i+1 (canonical form and flip computed as the code does), entry i+1 has EXACTLY ONE extension on the
       entered side, namely the base entry i loses (complemented when flipped), the join predicate accepts the two
       payloads; the last entry has no extension on its leaving side.
   RESULT, FULL (nothing partial in this file): for a symmetric join predicate and ANY reordering T' of an accepted T
   (the hash iterates in its own order)
     - T' meets the hypotheses of C01/C02/C09: tbl_ok, exts_sym, exts_sym_pal, exts_closed, rvalid  [C02_chain_hypotheses]
     - all keys are connected by mergeable links                                                   [C02_chain_all_connected]
     - compress_kmers T' does not panic and returns exactly ONE node, of length |T| + K - 1, whose canonical windows are
       a permutation of the keys                                       [C02_chain_single_node, C02_chain_total]
     - so the implementation-side check [chk_single_node] (one node of that length: O(1) + one length) is what C02
       demands of the implementation's output            [C02_chain_chk_single_node, C02_chain_chk_refutes]
     - compress_graph on the one-k-mer-per-node graph T' returns the same single node              [C09_chain_graph_single_node]
   Proofs: Proofs/ChainCheckProofs.v (from C02_same_node_iff, C01 partition/refinement, order independence of the link
   relation, C09R_singleton_rvalid / C09R_singleton_route_exact).
   [chain_table_of_contig K stranded dat s] (Check/ChainCheck.v, unverified helper, linear) builds the chain-ordered
   table of a contig; whether it IS a chain (repeat-free, palindrome-free) is decided by the checker. *)
From Coq Require Import NArith List Bool Arith Permutation.
From DBG Require Import Spec.Dna Spec.GraphIndex Spec.Unitig Spec.CompressSpec Packed.ExtsModel Algo.Compress
  Algo.Recompress Check.RecompCheck Check.GraphCheck Check.ChainCheck Proofs.CompressGraphOk Proofs.ChainCheckProofs.
Import ListNotations.
Local Open Scope nat_scope.

Theorem C02_chain_hypotheses : forall D join K stranded (T T' : table D),
  chain_table_okb D join K stranded T = true -> Permutation T T' ->
  1 <= K /\ tbl_ok D K stranded T' /\ exts_sym D stranded T' /\ exts_sym_pal D stranded T' /\
  exts_closed D stranded T' /\ rvalid D K stranded T'.
Proof. exact chain_hypotheses. Qed.
Print Assumptions C02_chain_hypotheses.

Theorem C02_chain_all_connected : forall D join K stranded (T T' : table D),
  chain_table_okb D join K stranded T = true -> Permutation T T' ->
  forall i j, i < length T' -> j < length T' -> mconn D join stranded T' i j.
Proof. exact chain_all_connected. Qed.
Print Assumptions C02_chain_all_connected.

(* the main theorem: whatever compress_kmers returns on any reordering of an accepted chain table is ONE node spelling
   all the k-mers *)
Theorem C02_chain_single_node : forall D reduce join K stranded (T T' : table D),
  chain_table_okb D join K stranded T = true -> (forall a b, join a b = join b a) -> Permutation T T' ->
  forall nodes, compress_kmers D reduce join stranded T' = Some nodes ->
  exists n, nodes = [n] /\ length (CompressSpec.n_seq D n) = length T + K - 1 /\
            Permutation (node_keys D K stranded n) (keys D T).
Proof. exact chain_single_node. Qed.
Print Assumptions C02_chain_single_node.

(* ... and it does return (no panic) *)
Theorem C02_chain_total : forall D reduce join K stranded (T T' : table D),
  chain_table_okb D join K stranded T = true -> (forall a b, join a b = join b a) -> Permutation T T' ->
  exists n, compress_kmers D reduce join stranded T' = Some [n] /\
            length (CompressSpec.n_seq D n) = length T + K - 1 /\
            Permutation (node_keys D K stranded n) (keys D T).
Proof. exact chain_total. Qed.
Print Assumptions C02_chain_total.

(* the implementation-side check [chk_single_node D K nodes nkeys] := nodes = [n] with |n| = nkeys + K - 1 is what C02
   demands of the output of compress_kmers on an accepted table ... *)
Theorem C02_chain_chk_single_node : forall D reduce join K stranded (T T' : table D),
  chain_table_okb D join K stranded T = true -> (forall a b, join a b = join b a) -> Permutation T T' ->
  forall nodes, compress_kmers D reduce join stranded T' = Some nodes ->
  chk_single_node D K nodes (length T) = true.
Proof. exact chain_chk_single_node. Qed.
Print Assumptions C02_chain_chk_single_node.

(* ... an implementation output failing it is not the model's output, for any iteration order of the hash *)
Theorem C02_chain_chk_refutes : forall D reduce join K stranded (T T' : table D),
  chain_table_okb D join K stranded T = true -> (forall a b, join a b = join b a) -> Permutation T T' ->
  forall impl_nodes, chk_single_node D K impl_nodes (length T) = false ->
  compress_kmers D reduce join stranded T' <> Some impl_nodes.
Proof. exact chain_chk_refutes. Qed.
Print Assumptions C02_chain_chk_refutes.

(* C09: compress_graph (no censoring) on the one-k-mer-per-node graph of the chain, in any node order *)
Theorem C09_chain_graph_single_node : forall D reduce join K stranded (T T' : table D),
  chain_table_okb D join K stranded T = true -> (forall a b, join a b = join b a) -> Permutation T T' ->
  compress_graph D reduce join K stranded T' None = compress_kmers D reduce join stranded T' /\
  exists n, compress_graph D reduce join K stranded T' None = Some [n] /\
            length (CompressSpec.n_seq D n) = length T + K - 1 /\
            Permutation (node_keys D K stranded n) (keys D T).
Proof. exact chain_graph_single_node. Qed.
Print Assumptions C09_chain_graph_single_node.

(* ==== non-vacuity ===================================================================================================== *)
(* K = 5, the 16 bases ACAGGAACGGGAGTCC: 12 k-mers, four of them stored reverse-complemented (the walk changes its leaving
   side at entries 4, 5, 8, 11); harness payload (colour 0, id), join on equal colours.  The table is accepted; the model
   run on it, on the reversed table and on a rotated table (seeded at a k-mer stored reverse-complemented) returns one
   16-base node (the contig or its reverse complement); compress_graph agrees; the checker of the implementation-side claim accepts these and rejects two nodes. *)
Definition chain_ex_contig : dna := [0;1;0;2;2;0;0;1;2;2;2;0;2;3;1;1]%N.
Definition chain_ex_table (st : bool) : table pay :=
  chain_table_of_contig 5 st (fun i => (0%N, [N.of_nat i])) chain_ex_contig.
Example C02_chain_nonvacuous :
  let T := chain_ex_table false in
  map (e_key pay) T = [[0;1;0;2;2]; [1;0;2;2;0]; [0;2;2;0;0]; [2;2;0;0;1]; [1;2;3;3;1]; [0;0;1;2;2]; [0;1;2;2;2];
                       [1;2;2;2;0]; [1;3;1;1;1]; [0;1;3;1;1]; [2;0;1;3;1]; [0;2;3;1;1]]%N /\
  chain_table_okb pay (pay_join 1) 5 false T = true /\
  (forall a b, pay_join 1 a b = pay_join 1 b a) /\
  option_map (map (CompressSpec.n_seq pay)) (compress_kmers pay pay_reduce (pay_join 1) false T) = Some [chain_ex_contig] /\
  option_map (map (CompressSpec.n_seq pay)) (compress_kmers pay pay_reduce (pay_join 1) false (rev T)) = Some [chain_ex_contig] /\
  option_map (map (CompressSpec.n_seq pay)) (compress_kmers pay pay_reduce (pay_join 1) false (skipn 4 T ++ firstn 4 T))
    = Some [rc chain_ex_contig] /\
  compress_graph pay pay_reduce (pay_join 1) 5 false (rev T) None = compress_kmers pay pay_reduce (pay_join 1) false (rev T) /\
  chk_single_node pay 5 [(chain_ex_contig, 0%N, (0%N, []))] (length T) = true /\
  chk_single_node pay 5 [(firstn 10 chain_ex_contig, 0%N, (0%N, [])); (skipn 6 chain_ex_contig, 0%N, (0%N, []))] (length T) = false.
Proof.
  cbv zeta. split; [vm_compute; reflexivity|]. split; [vm_compute; reflexivity|].
  split; [intros a b; unfold pay_join; cbn; apply N.eqb_sym|].
  repeat split; vm_compute; reflexivity.
Qed.
Print Assumptions C02_chain_nonvacuous.

(* stranded (the same contig read on one strand only), and rejection: a table with a branch (the table of C02_nonvacuous,
   Properties/C02.v, any order) and a chain listed out of order are refused *)
Example C02_chain_nonvacuous_stranded :
  let T := chain_ex_table true in
  map (e_key pay) T = kmers 5 chain_ex_contig /\
  chain_table_okb pay (pay_join 0) 5 true T = true /\
  option_map (map (CompressSpec.n_seq pay)) (compress_kmers pay pay_reduce (pay_join 0) true (rev T)) = Some [chain_ex_contig] /\
  chain_table_okb pay (pay_join 0) 5 true (rev T) = true /\
  chain_table_okb pay (pay_join 0) 5 true (skipn 5 T ++ firstn 5 T) = false /\
  chain_table_okb pay (pay_join 0) 5 false T = false.
Proof. cbv zeta. repeat split; vm_compute; reflexivity. Qed.
Print Assumptions C02_chain_nonvacuous_stranded.

(* a colour boundary inside the chain is refused under the colour-comparing join predicate (the path is then TWO nodes) *)
Example C02_chain_rejects_colour_boundary :
  let T := chain_table_of_contig 5 false (fun i => ((if Nat.ltb i 6 then 0 else 1)%N, [N.of_nat i])) chain_ex_contig in
  chain_table_okb pay (pay_join 0) 5 false T = true /\ chain_table_okb pay (pay_join 1) 5 false T = false /\
  option_map (@length _) (compress_kmers pay pay_reduce (pay_join 1) false T) = Some 2.
Proof. cbv zeta. repeat split; vm_compute; reflexivity. Qed.

(* ==== evaluation time ================================================================================================== *)
(* A synthetic chain of 20 000 16-mers, unstranded: the 20 015 bases of a 32-bit linear congruential generator (seed 3:
   repeat-free and palindrome-free at K = 16, which is what the checker decides).  Building the table and checking it
   takes about 3 s under vm_compute (plus 1 s at Qed); the theorems then give the result of the (quadratic, here
   infeasible) model run without running it.  Extracted with ExtrOcamlBasic (no axiom, nat/N as inductive types) and
   compiled with ocamlopt, the checker takes about 2.5 s on the 70 000-entry table of lcg_bases 70015 19 (accepted). *)
Definition chain_big_table : table unit := chain_table_of_contig 16 false (fun _ => tt) (lcg_bases 20015 3).
Example C02_chain_big_accepted :
  length chain_big_table = 20000 /\ chain_table_okb unit (fun _ _ => true) 16 false chain_big_table = true.
Proof. split; time (vm_compute; reflexivity). Time Qed.
Example C02_chain_big_single_node :
  exists n, compress_kmers unit (fun _ _ => tt) (fun _ _ => true) false (rev chain_big_table) = Some [n] /\
            length (CompressSpec.n_seq unit n) = 20000 + 16 - 1.
Proof.
  destruct C02_chain_big_accepted as [L H].
  destruct (C02_chain_total unit (fun _ _ => tt) (fun _ _ => true) 16 false chain_big_table (rev chain_big_table) H
              (fun _ _ => eq_refl) (Permutation_rev _)) as (n & Hc & Hl & _).
  exists n. split; [exact Hc|]. rewrite Hl, L. reflexivity.
Qed.
Print Assumptions C02_chain_big_single_node.
