(* C01 - Compressed graph is a lossless partition of the input k-mer set.  Statements only. *)
From Coq Require Import NArith List Bool Arith.
From DBG Require Import Spec.Dna Spec.GraphIndex Spec.Unitig Packed.ExtsModel Algo.Compress Check.GraphCheck Proofs.CompressBasics.
Import ListNotations.
Local Open Scope nat_scope.

Theorem C01_remove_is_remove : forall i l, remove_nat i l = remove Nat.eq_dec i l.
Proof. exact remove_nat_remove. Qed.
Print Assumptions C01_remove_is_remove.
