(* C01 - Compressed graph is a lossless partition of the input k-mer set.  Statements only.
   [compress_kmers] (Algo/Compress.v) is the model of CompressFromHash::compress_kmers, run against the real code
   by the correspondence check.  A table is the list of (key, extension byte, payload) in the order the hash
   table iterates them (any order).  Hypotheses ([tbl_ok], Spec/CompressSpec.v): keys pairwise distinct, of
   length K >= 1, bases < 4, canonical when unstranded, extension bytes < 256; and [exts_sym]: an extension
   recorded at x towards y is answered at y by the base x loses (a palindromic y is exempt: its two sides are
   identified) - without it the code itself panics ("unreachable") or takes steps that no recorded extension of
   the target justifies. *)
From Coq Require Import NArith List Bool Arith Permutation.
From DBG Require Import Proofs.AbstractWalk.
From DBG Require Import Spec.Dna Spec.GraphIndex Spec.Unitig Spec.CompressSpec Packed.ExtsModel Algo.Compress
  Check.GraphCheck Check.CompressHyp Proofs.CompressBasics Proofs.CompressRefine Proofs.CompressWalk Proofs.CompressProofs
  Proofs.CompressHypProofs Proofs.GraphCheckProofs Proofs.DeriveExts Proofs.CompressEntry Proofs.SeedMin.
Import ListNotations.
Local Open Scope nat_scope.

(* (a) The model refines the generic greedy walk of Proofs/AbstractWalk.v over the static step relation [knext]
   (no panic is reached; each output node is the image [node_rel] of an abstract node: left path, seed, right
   path). *)
Theorem C01_refines_abstract_walk : forall D reduce join K stranded, 1 <= K -> forall T : table D,
  tbl_ok D K stranded T -> exts_sym D stranded T ->
  exists nodes, compress_kmers D reduce join stranded T = Some nodes /\
    Forall2 (node_rel D reduce T) nodes
            (compress_struct D join stranded T (seq 0 (length T)) (seq 0 (length T))).
Proof. exact compress_refines. Qed.
Print Assumptions C01_refines_abstract_walk.

(* (b)-(e) For every such table, any reduce and join_test: the model succeeds and
   - the canonical k-mers of all node windows, over all nodes and offsets, are a permutation of the keys
     (each key in exactly one node at exactly one offset, nothing foreign)                [partition_ok]
   - consecutive windows x, y of a node: y's last base is a recorded right extension of x and x's first base a
     recorded left extension of y (extensions read in the window's frame, [oexts])        [steps_ok]
   - the node payload is fold_left reduce over the payloads of exactly the node's k-mers  [payload_ok]
     (order: seed, left path, right path - see C01_node_facts). *)
Theorem C01_compress_partition_steps_payload : forall D reduce join K stranded, 1 <= K -> forall T : table D,
  tbl_ok D K stranded T -> exts_sym D stranded T ->
  exists nodes, compress_kmers D reduce join stranded T = Some nodes /\
    partition_ok D K stranded T nodes /\ steps_ok D K stranded T nodes /\ payload_ok D K stranded reduce T nodes.
Proof. exact compress_c01. Qed.
Print Assumptions C01_compress_partition_steps_payload.

(* (d) spelling, per node: the windows of the node sequence are exactly the oriented k-mers of the path
   (left path reversed, seed, right path), their canonical forms are the keys of the path's vertices, and the
   payload is folded in the order seed, left path, right path. *)
Theorem C01_node_facts : forall D reduce join K stranded, 1 <= K -> forall T : table D,
  tbl_ok D K stranded T -> exts_sym D stranded T ->
  forall n lp i rp, node_rel D reduce T n (lp, i, rp) ->
    In (lp, i, rp) (compress_struct D join stranded T (seq 0 (length T)) (seq 0 (length T))) ->
    node_windows D K n = node_wins D T lp i rp /\
    node_keys D K stranded n = map (kkey D T) (node_verts nat lp i rp) /\
    length (n_seq D n) = length lp + K + length rp /\
    linked (step_ok D stranded T) (node_windows D K n) /\
    exists ent, nth_error T i = Some ent /\
      Permutation (map (e_key D) (ent :: pents D T (lp ++ rp))) (node_keys D K stranded n) /\
      n_data D n = fold_left reduce (map (e_data D) (pents D T (lp ++ rp))) (e_data D ent).
Proof. exact node_facts. Qed.
Print Assumptions C01_node_facts.

(* ... and the seed [i] - whose payload is the FIRST operand of the fold above - is the node's first k-mer in table
   order: no vertex of the node has a smaller slot (the outer loop seeds a node at the first slot still available).
   Together with C01_node_facts this pins the fold completely; [chk.c01.order] checks it on implementation outputs. *)
Theorem C01_seed_is_first : forall D join stranded (T : table D) lp i rp,
  In (lp, i, rp) (compress_struct D join stranded T (seq 0 (length T)) (seq 0 (length T))) ->
  forall x, In x (node_verts nat lp i rp) -> i <= x.
Proof.
  intros D join stranded T lp i rp H.
  assert (E : forall o a, compress_struct D join stranded T o a = compress_s (anext D join stranded T) o a).
  { induction o as [|v o IH]; intro a; [reflexivity|]. cbn [compress_struct compress_s].
    destruct (mem nat Nat.eq_dec v a); [|apply IH].
    destruct (build nat Nat.eq_dec (anext D join stranded T) a v) as [[l r] a']. now rewrite IH. }
  rewrite E in H.
  exact (seed_min_s _ (length T) 0 (seq 0 (length T)) (seq_NoDup _ _) (fun y _ => Nat.le_0_l y) lp i rp H).
Qed.
Print Assumptions C01_seed_is_first.

(* the node's extension byte is made of the extensions of its two end k-mers, read in the node's frame
   (complemented exactly when the end k-mer was traversed flipped) *)
Theorem C01_terminal_exts : forall D reduce join K stranded, 1 <= K -> forall T : table D,
  tbl_ok D K stranded T -> exts_sym D stranded T ->
  exists nodes, compress_kmers D reduce join stranded T = Some nodes /\ terminal_ok D K stranded T nodes.
Proof. exact compress_terminal. Qed.
Print Assumptions C01_terminal_exts.

(* (f) the entry point without extensions (compress_kmers_no_exts, repaired code: F8): the table it builds -
   extensions derived from set membership by [derive_exts] - meets both hypotheses for every set of distinct
   well-formed (canonical when unstranded) k-mers, so all of the above applies to it. *)
Theorem C01_derive_exts_sym : forall D K stranded, 1 <= K -> forall kds : list (dna * D),
  NoDup (map fst kds) ->
  (forall k, In k (map fst kds) -> length k = K /\ wf_dna k /\ (stranded = false -> canon k = k)) ->
  tbl_ok D K stranded (derived_table D stranded kds) /\ exts_sym D stranded (derived_table D stranded kds).
Proof. exact derived_ok. Qed.
Print Assumptions C01_derive_exts_sym.

Corollary C01_no_exts_entry_point : forall D reduce join K stranded, 1 <= K -> forall kds : list (dna * D),
  NoDup (map fst kds) ->
  (forall k, In k (map fst kds) -> length k = K /\ wf_dna k /\ (stranded = false -> canon k = k)) ->
  let T := derived_table D stranded kds in
  exists nodes, compress_kmers D reduce join stranded T = Some nodes /\
    partition_ok D K stranded T nodes /\ steps_ok D K stranded T nodes /\ payload_ok D K stranded reduce T nodes.
Proof. exact no_exts_c01. Qed.
Print Assumptions C01_no_exts_entry_point.

(* the hypotheses are decidable; the boolean forms are evaluated on every generated table by the run *)
Theorem C01_hypotheses_decidable : forall D K stranded (T : table D),
  (tbl_okb D K stranded T = true -> tbl_ok D K stranded T) /\
  (exts_symb D stranded T = true -> exts_sym D stranded T).
Proof. exact hyp_decidable. Qed.
Print Assumptions C01_hypotheses_decidable.

(* (g) The boolean checker run by the correspondence driver on the IMPLEMENTATION's nodes is sound: acceptance
   implies the partition, step and terminal-extension clauses above and the payload clause read for the harness
   payload (colour, id list) under pay_reduce: the node's id list is a permutation of the ids of exactly the
   node's k-mers and its colour is the colour of one of them ([payload_pay_ok], Proofs/GraphCheckProofs.v). *)
Theorem C01_chk_c01_sound : forall K stranded (T : table pay) (nodes : list (node pay)),
  chk_c01 K stranded T nodes = true ->
  partition_ok pay K stranded T nodes /\ steps_ok pay K stranded T nodes /\
  payload_pay_ok K stranded T nodes /\ terminal_ok pay K stranded T nodes.
Proof. exact chk_c01_sound. Qed.
Print Assumptions C01_chk_c01_sound.

(* non-vacuity: K = 4, unstranded, the canonical 4-mers of ACGTTGCAACTCCGA with extensions derived from
   membership: two palindromes (ACGT, TGCA), a hairpin, a node spelled against its seed's strand *)
Definition C01_ex_keys : list dna :=
  nodup (list_eq_dec N.eq_dec) (map canon (kmers 4 [0;1;2;3;3;2;1;0;0;1;3;1;1;2;0]%N)).
Definition C01_ex_table : table pay :=
  map (fun p => (fst p, derive_exts false C01_ex_keys (fst p), (0%N, [N.of_nat (snd p)])))
      (combine C01_ex_keys (seq 0 (length C01_ex_keys))).
Example C01_nonvacuous :
  tbl_ok pay 4 false C01_ex_table /\ exts_sym pay false C01_ex_table /\
  compress_kmers pay pay_reduce (pay_join 0) false C01_ex_table =
    Some [([0;1;2;3], 129, (0, [0])); ([0;0;1;2], 130, (0, [1])); ([3;2;1;0], 24, (0, [2]));
          ([2;1;0;0;1], 200, (0, [3;4])); ([0;0;1;3;1;1;2;0], 2, (0, [5;6;7;8;9]))]%N.
Proof.
  split; [apply tbl_okb_sound; vm_compute; reflexivity|].
  split; [apply exts_symb_sound; vm_compute; reflexivity | vm_compute; reflexivity].
Qed.
