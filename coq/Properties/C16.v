(* C16 - ASCII ingestion is total and path-independent.  Statements only; proofs are in Proofs/Ascii*.v. *)
From Coq Require Import NArith List Bool.
From DBG Require Import Spec.Dna Spec.Ascii Packed.Avx2Model Packed.AsciiModel.
Import ListNotations.
Open Scope N_scope.

(* F6 on the unrepaired code: U+0141 is taken for 'A' *)
Theorem C16_dna_only_nonascii_refuted :
  from_dna_only_string_old [71; 321; 71] = Some [ds_of_dna [2; 0; 2]] /\ acgt_runs [71; 321; 71] = [[2]; [2]].
Proof. split; vm_compute; reflexivity. Qed.
Print Assumptions C16_dna_only_nonascii_refuted.
