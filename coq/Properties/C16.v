(* C16 - ASCII ingestion is total and path-independent.
   Statements only; every proof is `exact <lemma of Proofs/Ascii*.v>`.  Model: Packed/Avx2Model.v (the AVX2
   intrinsics after the Intel pseudo-code, convert_bases, pack_32_bases) and Packed/AsciiModel.v (push,
   extend, the four constructors, reading back); specification: Spec/Ascii.v.  Bytes are numbers < 256,
   text for the str constructors is a list of code points.  [None] would be a panic: every theorem says
   [Some], so totality is part of what is proved. *)
From Coq Require Import NArith List Bool.
From DBG Require Import Spec.Dna Spec.Ascii Packed.Avx2Model Packed.AsciiModel.
From DBG Require Import Proofs.AsciiConvertSweep Proofs.AsciiConvert Proofs.AsciiPack Proofs.AsciiPaths
  Proofs.AsciiRender Proofs.AsciiPush Proofs.AsciiOnly Proofs.AsciiHashn Proofs.AsciiInv.
Import ListNotations.
Open Scope N_scope.

Definition is_bytes (l : list N) : Prop := Forall (fun b => b < 256) l.

(* ---- the vector kernels *)
(* one 16-bit lane (lo, hi) of the input at any of the 32 positions: all 65 536 pairs, by computation *)
Theorem C16_convert_lane_pair : forall i lo hi, (i < 32)%nat -> lo < 256 -> hi < 256 ->
  conv_byte i (if Nat.even i then lo else hi) (lane_word lo hi) =
  (ascii_base (if Nat.even i then lo else hi), if ascii_valid (if Nat.even i then lo else hi) then 0 else 255).
Proof. exact convert_lane_pair. Qed.
Print Assumptions C16_convert_lane_pair.

Theorem C16_convert_bases_spec : forall v, length v = 32%nat -> is_bytes v ->
  convert_bases v = Some (map ascii_base v, forallb ascii_valid v).
Proof. exact convert_bases_spec. Qed.
Print Assumptions C16_convert_bases_spec.

Theorem C16_pack_spec : forall v, length v = 32%nat -> wf_dna v -> pack_32_bases v = pack_be v.
Proof. exact pack_spec. Qed.
Print Assumptions C16_pack_spec.

(* ---- from_acgt_bytes: both paths, every byte string *)
Theorem C16_from_acgt_paths_agree : forall bytes, is_bytes bytes ->
  from_acgt_bytes_avx2 bytes = from_acgt_bytes_scalar bytes /\
  forall avx2, from_acgt_bytes avx2 bytes = Some (ds_of_dna (map ascii_base bytes)).
Proof. exact from_acgt_paths_agree. Qed.
Print Assumptions C16_from_acgt_paths_agree.

(* what is stored is exactly the list of bases, and the representation invariant holds
   (ceil(len/32) blocks, unused lanes of the last block zero) *)
Theorem C16_stored_bases : forall l, wf_dna l ->
  ds_to_bytes (ds_of_dna l) = Some l /\ ds_inv (ds_of_dna l) = true /\
  dna_of_storage (ds_storage (ds_of_dna l)) (length l) = l.
Proof. intros l H. split; [exact (ds_to_bytes_spec l H) | split; [exact (ds_of_dna_inv l H) | exact (dna_of_storage_spec l H)]]. Qed.
Print Assumptions C16_stored_bases.

Theorem C16_from_acgt_inv : forall bytes avx2, is_bytes bytes ->
  exists d, from_acgt_bytes avx2 bytes = Some d /\ ds_inv d = true /\ ds_len d = length bytes.
Proof. exact from_acgt_inv. Qed.
Print Assumptions C16_from_acgt_inv.

(* ---- agreement with the str constructor on ASCII text *)
Theorem C16_agree_with_str : forall text, Forall (fun c => c < 128) text ->
  forall avx2, from_dna_string text = from_acgt_bytes avx2 text.
Proof. exact agree_with_str. Qed.
Print Assumptions C16_agree_with_str.

(* ---- rendering back: upper-cased input, non-ACGT replaced by 'A' (to_ascii_vec and Display) *)
Theorem C16_render_roundtrip : forall bytes, is_bytes bytes -> forall avx2,
  (do d <- from_acgt_bytes avx2 bytes; to_ascii_vec d) = Some (render bytes) /\
  (do d <- from_acgt_bytes avx2 bytes; ds_to_string d) = Some (render bytes).
Proof. exact render_roundtrip. Qed.
Print Assumptions C16_render_roundtrip.

(* ---- the strict constructor (repaired code, fixes/F6): exactly the maximal ACGT runs, for every text *)
Theorem C16_dna_only_runs : forall text, from_dna_only_string text = Some (map ds_of_dna (acgt_runs text)).
Proof. exact dna_only_runs. Qed.
Print Assumptions C16_dna_only_runs.
Theorem C16_dna_only_runs_bytes : forall text,
  (do v <- from_dna_only_string text; omapM ds_to_bytes v) = Some (acgt_runs text).
Proof. exact dna_only_runs_bytes. Qed.
Print Assumptions C16_dna_only_runs_bytes.
(* [runs] is the declarative "maximal runs": junk, run, junk+, run, ..., junk *)
Theorem C16_runs_maximal : forall text, runs_of ascii_valid text (runs ascii_valid text).
Proof. exact (runs_maximal ascii_valid). Qed.
Print Assumptions C16_runs_maximal.
Theorem C16_runs_unique : forall text rs, runs_of ascii_valid text rs -> rs = runs ascii_valid text.
Proof. exact (runs_unique ascii_valid). Qed.
Print Assumptions C16_runs_unique.
(* the code before the repair: only for ASCII text; refuted otherwise ("GŁG" -> ["GAG"]) *)
Theorem C16_dna_only_runs_old : forall text, Forall (fun c => c < 128) text ->
  from_dna_only_string_old text = Some (map ds_of_dna (acgt_runs text)).
Proof. exact dna_only_runs_old. Qed.
Print Assumptions C16_dna_only_runs_old.
Theorem C16_dna_only_nonascii_refuted :
  exists text, from_dna_only_string_old text <> Some (map ds_of_dna (acgt_runs text)) /\
               from_dna_only_string_old text = Some [ds_of_dna [2; 0; 2]] /\ acgt_runs text = [[2]; [2]].
Proof. exact dna_only_nonascii_refuted. Qed.
Print Assumptions C16_dna_only_nonascii_refuted.

(* ---- the hashed-N constructor, for any hasher H (H name pos = the DefaultHasher value of name then pos) *)
Theorem C16_hashn_spec : forall (H : list N -> nat -> N) bytes name, is_bytes bytes ->
  from_acgt_bytes_hashn H bytes name = Some (ds_of_dna (hashn_bases H name 0 bytes)) /\
  length (hashn_bases H name 0 bytes) = length bytes /\
  forall pos c, nth_error bytes pos = Some c ->
    nth pos (hashn_bases H name 0 bytes) 0 = (if ascii_valid c then ascii_base c else H name pos mod 4) /\
    nth pos (hashn_bases H name 0 bytes) 0 < 4.
Proof. exact hashn_spec. Qed.
Print Assumptions C16_hashn_spec.
Theorem C16_hashn_local : forall (H : list N -> nat -> N) name b1 b2 pos c1 c2, is_bytes b1 -> is_bytes b2 ->
  nth_error b1 pos = Some c1 -> nth_error b2 pos = Some c2 -> ascii_valid c1 = false -> ascii_valid c2 = false ->
  nth pos (hashn_bases H name 0 b1) 0 = nth pos (hashn_bases H name 0 b2) 0.
Proof. exact hashn_local_spec. Qed.
Print Assumptions C16_hashn_local.
(* the checkers run on the implementation's outputs accept exactly this behaviour *)
Theorem C16_hashn_checkers : forall (H : list N -> nat -> N) name b1 b2, is_bytes b1 -> is_bytes b2 ->
  hashn_ok b1 (hashn_bases H name 0 b1) = true /\
  hashn_local b1 (hashn_bases H name 0 b1) b2 (hashn_bases H name 0 b2) = true.
Proof. intros H name b1 b2 H1 H2. split; [now apply hashn_ok_bases | now apply hashn_local_bases]. Qed.
Print Assumptions C16_hashn_checkers.

(* ---- non-vacuity: concrete inputs meeting the hypotheses, with non-trivial content *)
Definition ex_bytes : list N :=   (* "ACGTacgtN" 0 255 200 ... : one full vector block with invalid bytes, plus a tail *)
  [65;67;71;84;97;99;103;116;78;0;255;200;65;65;67;67;71;71;84;84;65;67;71;84;65;67;71;84;84;84;84;84;67;71;200;84].
Example C16_ex_paths :
  from_acgt_bytes true ex_bytes = Some (mkds [1953154887807867903; 7133701809754865664] 36) /\
  from_acgt_bytes false ex_bytes = from_acgt_bytes true ex_bytes /\
  (do d <- from_acgt_bytes true ex_bytes; to_ascii_vec d) = Some (render ex_bytes) /\
  nth 34 (render ex_bytes) 0 = 65 /\ nth 4 (render ex_bytes) 0 = 65 /\ nth 7 (render ex_bytes) 0 = 84.
Proof. vm_compute. repeat split. Qed.
Example C16_ex_convert :
  convert_bases (firstn 32 ex_bytes) = Some (map ascii_base (firstn 32 ex_bytes), false) /\
  pack_32_bases (map ascii_base (firstn 32 ex_bytes)) = 1953154887807867903.
Proof. vm_compute. split; reflexivity. Qed.
Example C16_ex_only :   (* "GNNac" + U+0141 + "T" *)
  from_dna_only_string [71; 78; 78; 97; 99; 321; 84] = Some [ds_of_dna [2]; ds_of_dna [0; 1]; ds_of_dna [3]].
Proof. vm_compute. reflexivity. Qed.
Example C16_ex_hashn :  (* with H name pos = pos + length name: "ANNT" under a 2-byte name -> A, (1+2) mod 4, (2+2) mod 4, T *)
  (do d <- from_acgt_bytes_hashn (fun name pos => N.of_nat (pos + length name)) [65; 78; 78; 84] [1; 2]; ds_to_bytes d)
  = Some [0; 3; 0; 3].
Proof. vm_compute. reflexivity. Qed.
