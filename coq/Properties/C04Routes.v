(* C04 / C09 / C06 - the RE-COMPRESSED variants of the direct pipeline (work package routes).  Statements only.
   Model: Algo/Pipeline.v [direct K st thr mode route lreads order]:
     route 0        compress_kmers T                                       (closed before: C04_direct_assembly / _total)
     route 1        compress_graph (T read as the one-k-mer-per-node graph) None
     route 2 (any other value)  compress_graph (compress_kmers T) None
   T = the count-filtered table of the whole reads (pruned when thr > 1) in the iteration order of the hash.

   RESULT, FULL: all routes return THE SAME LIST OF NODES - same sequences, orientation, extension bytes, payloads and node
   order - for every K >= 4, reads over {A,C,G,T}, threshold, strandedness, join mode and duplicate-free iteration order
   (C04_direct_routes_eq; both sides are None together when [order] does not fit the table).  Hence everything proved for
   route 0 holds for every route: the result is THE assembly of the reads (C04_direct_route_assembly), no route panics
   (C04_direct_route_total), C06 strand symmetry across routes (C06_graph_rc_invariant_routes).
   Nothing is left partial in this file.  The guards are those of C04_direct_assembly ([NoDup order] is a guard of the
   model only: [order] is the oracle input standing for BoomHashMap2's iteration order).

   Ingredients (general statements first):
   (1) C09R_singleton_rvalid: a table meeting C01's hypotheses (tbl_ok, exts_sym), exts_sym_pal and exts_closed, read as
       a graph, is a valid graph of C09 - obtained without any new case analysis: compress_kmers with a join predicate
       that always refuses returns the table itself (C09R_nojoin_fixed), and C03's compress_valid_graph + C09X's
       valid_graph_rvalid apply to it.
   (2) C09R_singleton_route_exact (strengthens C09_singleton_route from same_partition to EQUALITY): on such a table
       compress_graph (no censoring) = compress_kmers, for every payload type, reduction and symmetric join predicate.
       Both are the same run of AbstractWalk.compress (rnext = knext on singleton graphs) and the two builders spell the
       node path, fold the payloads (seed, left path, right path) and read the terminal extensions identically; the
       final fix_exts(None) is the identity (C09_final_fix_exts_identity).
   (3) C09R_compress_kmers_fixed: the graph compress_kmers builds from a pipeline table is a FIXED POINT of compress_graph.
       Node-level mergeability [rnext] is lifted to C02's k-mer-level mergeable links between the two end k-mers, so C02
       (no mergeable pair across nodes) makes the target node the node itself (C09R_rnext_self), and
       C09_recompress_idempotent applies.  This is for the pipeline payload (colour, ids): the node payload carries the colour
       of EVERY k-mer of the node when the join predicate compares colours.  For an arbitrary reduction / join predicate
       the statement is false (join on reduced payloads may accept what join on the end k-mers' payloads refused). *)
From Coq Require Import NArith List Bool Arith Permutation.
From DBG Require Import Spec.Dna Spec.GraphIndex Spec.CompressSpec Packed.ExtsModel Algo.Compress Algo.KmerHist Algo.GraphModel
  Algo.Recompress Algo.Pipeline Check.RecompCheck Check.GraphCheck Check.PipelineCheck
  Proofs.CompressGraphOk Proofs.E2eDefs Proofs.RoutesSingleton Proofs.RoutesIdem Proofs.RoutesDirect.
Import ListNotations.
Open Scope nat_scope.

(* ==== (1), (2): the one-k-mer-per-node graph of a table, any payload type ========================================== *)
Theorem C09R_nojoin_fixed : forall D reduce K stranded, 1 <= K -> forall T : table D,
  tbl_ok D K stranded T -> exts_sym D stranded T ->
  compress_kmers D reduce (fun _ _ => false) stranded T = Some T.
Proof. exact nojoin_fixed. Qed.
Print Assumptions C09R_nojoin_fixed.

Theorem C09R_singleton_rvalid : forall D K stranded, 1 <= K -> forall T : table D,
  tbl_ok D K stranded T -> exts_sym D stranded T -> exts_sym_pal D stranded T -> exts_closed D stranded T ->
  rvalid D K stranded T.
Proof. exact singleton_rvalid. Qed.
Print Assumptions C09R_singleton_rvalid.

Theorem C09R_singleton_route_exact : forall D reduce join K stranded, 1 <= K -> (forall a b, join a b = join b a) ->
  forall T : table D, tbl_ok D K stranded T -> exts_sym D stranded T -> rvalid D K stranded T ->
  compress_graph D reduce join K stranded T None = compress_kmers D reduce join stranded T.
Proof. exact singleton_route_exact. Qed.
Print Assumptions C09R_singleton_route_exact.

(* ==== (3): compress_kmers outputs under compress_graph ============================================================ *)
(* every graph compress_kmers builds from a table with closed extensions is valid in C09's sense (any payload type) *)
Theorem C09R_compress_kmers_rvalid : forall D reduce join K stranded, 1 <= K -> (forall a b, join a b = join b a) ->
  forall T : table D,
  tbl_ok D K stranded T -> exts_sym D stranded T -> exts_sym_pal D stranded T -> exts_closed D stranded T ->
  forall nodes, compress_kmers D reduce join stranded T = Some nodes -> rvalid D K stranded nodes.
Proof. exact compress_kmers_rvalid. Qed.
Print Assumptions C09R_compress_kmers_rvalid.

(* pipeline payload: [links_ok T LS] = the extension bytes of T are the membership of canonical (K+1)-mers in LS
   (Proofs/E2eDefs.v; for the direct pipeline LS = spec_links, Proofs/E2eDirect.v spec_links_ok); payload of key x =
   (colf x, [idf x]) *)
Theorem C09R_rnext_self : forall K st mode, 1 <= K -> forall (T : table pay) LS (idf colf : dna -> N),
  tbl_ok pay K st T -> links_ok pay st T LS ->
  (forall ent, In ent T -> e_data pay ent = (colf (e_key pay ent), [idf (e_key pay ent)])) ->
  forall g, compress_kmers pay pay_reduce (pay_join mode) st T = Some g ->
  forall x d y t, rnext pay (pay_join mode) K st g x d = Some (y, t) -> y = x.
Proof. exact rnext_self. Qed.
Print Assumptions C09R_rnext_self.

Theorem C09R_compress_kmers_fixed : forall K st mode, 1 <= K -> forall (T : table pay) LS (idf colf : dna -> N),
  tbl_ok pay K st T -> links_ok pay st T LS ->
  (forall ent, In ent T -> e_data pay ent = (colf (e_key pay ent), [idf (e_key pay ent)])) ->
  forall g, compress_kmers pay pay_reduce (pay_join mode) st T = Some g ->
  compress_graph pay pay_reduce (pay_join mode) K st g None = Some g.
Proof. exact compress_kmers_fixed. Qed.
Print Assumptions C09R_compress_kmers_fixed.

(* ==== the direct pipeline ========================================================================================= *)
(* the table handed to the compressors, read as a graph, is a valid input of compress_graph *)
Theorem C04_direct_table_rvalid : forall K st thr (lreads : list lread) order,
  4 <= K -> Forall (fun r => wf_dna (fst r)) lreads -> NoDup order ->
  forall T, table_of K st thr (if (1 <? thr)%N then 1%N else 0%N) (whole_reads lreads) order = Some T -> rvalid pay K st T.
Proof. exact direct_table_rvalid. Qed.
Print Assumptions C04_direct_table_rvalid.

(* ROUTE 1 = ROUTE 0, ROUTE 2 = ROUTE 0, byte for byte (as options: also when route 0 fails) *)
Theorem C04_direct_route1_eq : forall K st thr mode (lreads : list lread) order,
  4 <= K -> Forall (fun r => wf_dna (fst r)) lreads -> NoDup order ->
  direct K st thr mode 1 lreads order = direct K st thr mode 0 lreads order.
Proof. exact direct_route1_eq. Qed.
Print Assumptions C04_direct_route1_eq.

Theorem C04_direct_route2_eq : forall K st thr mode (lreads : list lread) order,
  4 <= K -> Forall (fun r => wf_dna (fst r)) lreads -> NoDup order ->
  forall route, route <> 0%N -> route <> 1%N ->
  direct K st thr mode route lreads order = direct K st thr mode 0 lreads order.
Proof. exact direct_route2_eq. Qed.
Print Assumptions C04_direct_route2_eq.

Theorem C04_direct_routes_eq : forall K st thr mode (lreads : list lread) order,
  4 <= K -> Forall (fun r => wf_dna (fst r)) lreads -> NoDup order ->
  forall route route', direct K st thr mode route lreads order = direct K st thr mode route' lreads order.
Proof. exact direct_routes_eq. Qed.
Print Assumptions C04_direct_routes_eq.

(* every route produces THE assembly of the reads ... *)
Theorem C04_direct_route_assembly : forall K st thr mode (lreads : list lread) order,
  4 <= K -> Forall (fun r => wf_dna (fst r)) lreads -> NoDup order ->
  forall route g, direct K st thr mode route lreads order = Some g -> assembly_of K st thr mode lreads g.
Proof. exact direct_route_assembly. Qed.
Print Assumptions C04_direct_route_assembly.

(* ... never panics when [order] lists the retained k-mers ... *)
Theorem C04_direct_route_total : forall K st thr mode route (lreads : list lread) order,
  4 <= K -> Forall (fun r => wf_dna (fst r)) lreads -> Permutation order (retained K st thr (map fst lreads)) ->
  exists g, direct K st thr mode route lreads order = Some g.
Proof. exact direct_route_total. Qed.
Print Assumptions C04_direct_route_total.

Theorem C04_direct_route_correct : forall K st thr mode route (lreads : list lread) order,
  4 <= K -> Forall (fun r => wf_dna (fst r)) lreads -> Permutation order (retained K st thr (map fst lreads)) ->
  exists g, direct K st thr mode route lreads order = Some g /\ assembly_of K st thr mode lreads g.
Proof. exact direct_route_correct. Qed.
Print Assumptions C04_direct_route_correct.

(* ... and the routes are pairwise the same assembly: for one iteration order even the same list, for two iteration
   orders the same assembly *)
Theorem C04_direct_routes_same_assembly : forall K st thr mode (lreads : list lread) order,
  4 <= K -> Forall (fun r => wf_dna (fst r)) lreads -> NoDup order ->
  forall route route' g g',
  direct K st thr mode route lreads order = Some g -> direct K st thr mode route' lreads order = Some g' ->
  g = g' /\ same_assembly K st mode g g'.
Proof. exact direct_routes_same_assembly. Qed.
Print Assumptions C04_direct_routes_same_assembly.

Theorem C04_direct_routes_orders_same_assembly : forall K st thr mode route route' (lreads : list lread) order order' g g',
  4 <= K -> Forall (fun r => wf_dna (fst r)) lreads -> NoDup order -> NoDup order' ->
  direct K st thr mode route lreads order = Some g -> direct K st thr mode route' lreads order' = Some g' ->
  same_assembly K st mode g g'.
Proof. exact direct_routes_orders_same_assembly. Qed.
Print Assumptions C04_direct_routes_orders_same_assembly.

(* C03 for every route: the graph's k-mers are the retained k-mers, its link set is the Layer-S link set of the reads *)
Theorem C03_edges_are_observed_routes : forall K st thr mode route (lreads : list lread) order g,
  4 <= K -> Forall (fun r => wf_dna (fst r)) lreads -> NoDup order ->
  direct K st thr mode route lreads order = Some g ->
  Permutation (graph_kmers K st g) (retained K st thr (map fst lreads)) /\
  forall w, In w (graph_links K st g) <-> In w (spec_links K st thr (map fst lreads)).
Proof. exact edges_are_observed_routes. Qed.
Print Assumptions C03_edges_are_observed_routes.

(* C06, graph half, across routes: route r on the reads and route r' on the reads with any subset reverse-complemented
   (unstranded) are the same assembly, for any two iteration orders; both runs succeed when the orders list the retained
   k-mers *)
Theorem C06_graph_rc_invariant_routes : forall K thr mode route route' fs (lreads : list lread) order order' g g',
  4 <= K -> Forall (fun r => wf_dna (fst r)) lreads -> NoDup order -> NoDup order' ->
  direct K false thr mode route lreads order = Some g ->
  direct K false thr mode route' (flip_lreads fs lreads) order' = Some g' ->
  same_assembly K false mode g g'.
Proof. exact graph_rc_invariant_routes. Qed.
Print Assumptions C06_graph_rc_invariant_routes.

Theorem C06_graph_rc_invariant_routes_total : forall K thr mode route route' fs (lreads : list lread) order order',
  4 <= K -> Forall (fun r => wf_dna (fst r)) lreads ->
  Permutation order (retained K false thr (map fst lreads)) -> Permutation order' (retained K false thr (map fst lreads)) ->
  exists g g', direct K false thr mode route lreads order = Some g /\
               direct K false thr mode route' (flip_lreads fs lreads) order' = Some g' /\
               same_assembly K false mode g g'.
Proof. exact graph_rc_invariant_routes_total. Qed.
Print Assumptions C06_graph_rc_invariant_routes_total.

(* stranded: the graph of every route holds exactly the forward k-mers meeting the threshold and the forward links *)
Theorem C06_stranded_exact_routes : forall K thr mode route (lreads : list lread) order g,
  4 <= K -> Forall (fun r => wf_dna (fst r)) lreads -> NoDup order ->
  direct K true thr mode route lreads order = Some g ->
  NoDup (graph_kmers K true g) /\
  (forall x, In x (graph_kmers K true g) <->
             In x (flat_map (kmers K) (map fst lreads)) /\
             (thr <= N.of_nat (length (filter (dna_eqb x) (flat_map (kmers K) (map fst lreads)))))%N) /\
  (forall w, In w (graph_links K true g) <->
             In w (flat_map (kmers (S K)) (map fst lreads)) /\ In (firstn K w) (graph_kmers K true g) /\ In (skipn 1 w) (graph_kmers K true g)).
Proof. exact stranded_exact_routes. Qed.
Print Assumptions C06_stranded_exact_routes.

(* ==== non-vacuity ================================================================================================== *)
(* the example of Properties/C04.v: K = 4, ACGGTCCATG twice (labels 0, 1) and CATGGTA once; unstranded, threshold 2 (pruning
   active), descending key order.  The guards hold (C04_direct_nonvacuous); the table has 7 entries and is a valid graph;
   every route returns the same two nodes; with the ascending key order the list differs (another seed order) but each
   route again returns one and the same list. *)
From DBG Require Import Properties.C04.
Definition ex4_order_asc : list dna := Eval vm_compute in retained 4 false 2 (map fst ex4_reads).
Definition ex4_graph : list node_t := Eval vm_compute in match direct 4 false 2 0 0 ex4_reads ex4_order with Some g => g | None => [] end.
Example C04_routes_nonvacuous :
  Forall (fun r => wf_dna (fst r)) ex4_reads /\ NoDup ex4_order /\ Permutation ex4_order (retained 4 false 2 (map fst ex4_reads)) /\
  (exists T, table_of 4 false 2 1 (whole_reads ex4_reads) ex4_order = Some T /\ length T = 7 /\ rvalid pay 4 false T) /\
  length ex4_graph = 2 /\
  direct 4 false 2 0 0 ex4_reads ex4_order = Some ex4_graph /\
  direct 4 false 2 0 1 ex4_reads ex4_order = Some ex4_graph /\
  direct 4 false 2 0 2 ex4_reads ex4_order = Some ex4_graph /\
  (exists g', direct 4 false 2 0 0 ex4_reads ex4_order_asc = Some g' /\ g' <> ex4_graph /\
              direct 4 false 2 0 1 ex4_reads ex4_order_asc = Some g' /\ direct 4 false 2 0 2 ex4_reads ex4_order_asc = Some g').
Proof.
  destruct C04_direct_nonvacuous as (_ & Hwf & P & Hnd & _).
  split; [exact Hwf|]. split; [exact Hnd|]. split; [exact P|]. split.
  { eexists. split; [vm_compute; reflexivity|]. split; [reflexivity|].
    apply (C04_direct_table_rvalid 4 false 2 ex4_reads ex4_order (le_n 4) Hwf Hnd). vm_compute. reflexivity. }
  split; [reflexivity|]. split; [vm_compute; reflexivity|]. split; [vm_compute; reflexivity|]. split; [vm_compute; reflexivity|].
  eexists. split; [vm_compute; reflexivity|]. split; [vm_compute; intro H; discriminate H|].
  split; vm_compute; reflexivity.
Qed.
Print Assumptions C04_routes_nonvacuous.

(* stranded, join on equal colours (mode 1), threshold 1: again one list for the three routes *)
Example C04_routes_nonvacuous_stranded :
  exists g, length g = 2 /\ direct 4 true 1 1 0 ex4_reads ex4s_order = Some g /\
            direct 4 true 1 1 1 ex4_reads ex4s_order = Some g /\ direct 4 true 1 1 2 ex4_reads ex4s_order = Some g.
Proof. eexists. split; [|split; [vm_compute; reflexivity|split; vm_compute; reflexivity]]. reflexivity. Qed.
Print Assumptions C04_routes_nonvacuous_stranded.

(* the hypothesis of the fixed-point theorem is not vacuous in the other direction either: AACCAACCAAC (an isolated cycle
   of four canonical 4-mers) and GGGAGCT.  compress_kmers cuts the cycle into the single node CAACCAA, which IS mergeable
   with itself on both sides ([rnext] = Some (1, _): C09R_rnext_self says "y = x", not "None"); the three routes agree. *)
Definition exc_reads : list lread := [([0;0;1;1;0;0;1;1;0;0;1], 0); ([2;2;2;0;2;1;3], 1)]%N.
Definition exc_order : list dna := Eval vm_compute in rev (retained 4 false 1 (map fst exc_reads)).
Example C04_routes_nonvacuous_cycle :
  exists g, direct 4 false 1 0 0 exc_reads exc_order = Some g /\ map nd_seq g = [[2;2;2;0;2;1]; [1;0;0;1;1;0;0]; [0;2;1;3]]%N /\
    rnext pay (pay_join 0) 4 false g 1 DRight = Some (1, DLeft) /\ rnext pay (pay_join 0) 4 false g 1 DLeft = Some (1, DRight) /\
    direct 4 false 1 0 1 exc_reads exc_order = Some g /\ direct 4 false 1 0 2 exc_reads exc_order = Some g.
Proof. eexists. split; [vm_compute; reflexivity|]. repeat split; vm_compute; reflexivity. Qed.
Print Assumptions C04_routes_nonvacuous_cycle.

(* the general statements (2) and (1) on the table of C09_nonvacuous_singleton (Properties/C09.v: the canonical 4-mers of
   ACGTTGCAACTCCGA, two palindromes and a hairpin, extensions derived from membership) *)
From DBG Require Check.CompressHyp Proofs.CompressHypProofs.
Definition C09R_ex_keys : list dna :=
  nodup (list_eq_dec N.eq_dec) (map canon (kmers 4 [0;1;2;3;3;2;1;0;0;1;3;1;1;2;0]%N)).
Definition C09R_ex_table : table rpay :=
  map (fun p => (fst p, derive_exts false C09R_ex_keys (fst p), (0%N, [N.of_nat (snd p)])))
      (combine C09R_ex_keys (seq 0 (length C09R_ex_keys))).
Example C09R_nonvacuous_singleton :
  tbl_ok rpay 4 false C09R_ex_table /\ exts_sym rpay false C09R_ex_table /\ exts_sym_pal rpay false C09R_ex_table /\
  exts_closed rpay false C09R_ex_table /\ rvalid rpay 4 false C09R_ex_table /\
  compress_graph rpay rpay_reduce (rpay_join 0) 4 false C09R_ex_table None =
    compress_kmers rpay rpay_reduce (rpay_join 0) false C09R_ex_table /\
  option_map (@length _) (compress_kmers rpay rpay_reduce (rpay_join 0) false C09R_ex_table) = Some 5.
Proof.
  assert (H1 : tbl_ok rpay 4 false C09R_ex_table) by (apply CompressHypProofs.tbl_okb_sound; vm_compute; reflexivity).
  assert (H2 : exts_sym rpay false C09R_ex_table) by (apply CompressHypProofs.exts_symb_sound; vm_compute; reflexivity).
  assert (H3 : exts_sym_pal rpay false C09R_ex_table) by (apply exts_sym_palb_sound; vm_compute; reflexivity).
  assert (H4 : exts_closed rpay false C09R_ex_table) by (apply CompressHypProofs.exts_closedb_sound; vm_compute; reflexivity).
  assert (H5 : rvalid rpay 4 false C09R_ex_table) by (apply (C09R_singleton_rvalid rpay 4 false); auto).
  split; [exact H1|]. split; [exact H2|]. split; [exact H3|]. split; [exact H4|]. split; [exact H5|]. split.
  - apply (C09R_singleton_route_exact rpay rpay_reduce (rpay_join 0) 4 false); auto; intros a b; reflexivity.
  - vm_compute. reflexivity.
Qed.
Print Assumptions C09R_nonvacuous_singleton.
