(* C20 - Exports and persistence are faithful.  Statements only.
   Model: Algo/Export.v follows node_to_gfa / write_gfa / to_gfa_with_tags and to_json_rest / Node::to_json /
   Node::edges_to_json of src/graph.rs AS REPAIRED by the fix commits of findings F4 and F5, on top of the
   model's find_edges; GFA text = record list, JSON text = token list (Algo/Json.v).  Algo/Serde.v = the layout
   of the serde derives.  TRUSTED (not modelled): serde_json's text layer, the derive macros, boomphf's own
   Serialize impls; the GFA text layer (tabs, decimal numbers) is read back by the harness's parser. *)
From Coq Require Import NArith List Bool Arith String Lia.
From DBG Require Import Gen.SourceConsts Spec.Dna Spec.GraphIndex Spec.ExportSpec Packed.DnaStringModel
  Algo.GraphModel Algo.Json Algo.Export Algo.Serde Check.ExportCheck
  Proofs.JsonProofs Proofs.ExportJsonProofs Proofs.ExportGfaProofs Proofs.ExportProofs Proofs.ExportEdgesProofs Proofs.ExportOverlapProofs Proofs.ExportCheckProofs
  Proofs.ExportRefuted Proofs.SerdeProofs Proofs.SerdeNodesProofs.
Import ListNotations.
Local Open Scope nat_scope.

(* ------------------------------------------------------------------ GFA
   For every graph (any number of nodes, any extension sets): the file starts with the header, and the S records
   are exactly the nodes, in order, with their sequences (and the caller's tags). *)
Theorem C20_gfa_nodes : forall (D : Type) (K : nat) (stranded : bool) (g : graph D),
  gfa_segments (write_gfa D K stranded g) = map (fun p => (fst p, n_seq D (snd p), None)) (indexed g) /\
  (forall f, gfa_segments (to_gfa_with_tags D K stranded g f) =
             map (fun p => (fst p, n_seq D (snd p), Some (f (fst p) (snd p)))) (indexed g)) /\
  (exists r, write_gfa D K stranded g = GH :: r /\ ~ In GH r).
Proof. exact gfa_nodes. Qed.
Print Assumptions C20_gfa_nodes.

(* Every L line  L u o1 v o2 nM  is a link the graph reports: n = K-1 and find_edges(u, side left through)
   contains (v, side entered); o1 = + iff u is left through its right end, o2 = + iff v is entered through its
   left end (out_side / in_side of Spec/ExportSpec.v).  That the reported links are the real K-1 overlaps of the
   node sequences is C03. *)
Theorem C20_gfa_links_sound : forall (D : Type) (K : nat) (stranded : bool) (g : graph D) u o1 v o2 ov,
  In (u, o1, v, o2, ov) (gfa_links (write_gfa D K stranded g)) ->
  ov = K - 1 /\ exists es flip, find_edges D K stranded g u (out_side o1) = Some es /\ In (v, in_side o2, flip) es.
Proof. exact gfa_links_sound. Qed.
Print Assumptions C20_gfa_links_sound.

(* ... and, read on the sequences: for a graph of well-formed sequences of at least K bases, the last K-1 bases of u
   (reverse-complemented when o1 = -) ARE the first K-1 bases of v (reverse-complemented when o2 = -).
   orient s o = if o then s else rc s;  lastn k s = skipn (|s| - k) s. *)
Theorem C20_gfa_link_overlap : forall (K : nat), 1 <= K -> forall (D : Type) (stranded : bool) (g : graph D) u o1 v o2 ov,
  graph_wf D K g -> In (u, o1, v, o2, ov) (gfa_links (write_gfa D K stranded g)) ->
  ov = K - 1 /\ exists nu nv, nth_error g u = Some nu /\ nth_error g v = Some nv /\
    lastn (K - 1) (orient (n_seq D nu) o1) = firstn (K - 1) (orient (n_seq D nv) o2).
Proof. exact gfa_link_overlap. Qed.
Print Assumptions C20_gfa_link_overlap.

Theorem C20_gfa_tags_same_links : forall (D : Type) (K : nat) (stranded : bool) (g : graph D) f,
  gfa_links (to_gfa_with_tags D K stranded g f) = gfa_links (write_gfa D K stranded g).
Proof. exact tags_gfa_links. Qed.
Print Assumptions C20_gfa_tags_same_links.

(* Completeness, exactly once.  Hypothesis [graph_edges_ok g] = tab_ok (pal_node g) (etab_of g), a predicate on the
   edge lists the graph reports (Spec/ExportSpec.v):
     tab_symmetric    a link seen from one end is seen from the other, the two ends of a palindromic single-k-mer
                      node being identified (its neighbours report one of them, it reports them from both);
     tab_distinct     an end reports a neighbouring end once;
     tab_pal_no_self  a palindromic single-k-mer node is not its own neighbour.
   Conclusion: every link find_edges reports - self links on either side included - is denoted by exactly one
   L line; by one or two when it touches a palindromic single-k-mer node.  (Lines are counted up to the
   identification; the line list itself has no duplicates.) *)
Theorem C20_gfa_links_complete_once : forall (D : Type) (K : nat) (stranded : bool) (g : graph D),
  graph_edges_ok D K stranded g ->
  forall u a es v b flip, find_edges D K stranded g u a = Some es -> In (v, b, flip) es ->
  once_or_twice (pal_node D K stranded g) (gfa_links (write_gfa D K stranded g)) (u, a) (v, b).
Proof. exact gfa_links_complete_once. Qed.
Print Assumptions C20_gfa_links_complete_once.

(* Two of the three clauses of the hypothesis hold for every graph whose node sequences are well-formed DNA of at
   least K bases (proved from the sequences, through the end-index contract of find_link): *)
Theorem C20_edges_distinct : forall (D : Type) (K : nat) (stranded : bool) (g : graph D),
  graph_wf D K g -> tab_distinct (pal_node D K stranded g) (etab_of D K stranded g).
Proof. exact edges_distinct. Qed.
Print Assumptions C20_edges_distinct.
Theorem C20_edges_pal_no_self : forall (D : Type) (K : nat) (stranded : bool) (g : graph D),
  1 <= K -> graph_wf D K g -> tab_pal_no_self (pal_node D K stranded g) (etab_of D K stranded g).
Proof. exact edges_pal_no_self. Qed.
Print Assumptions C20_edges_pal_no_self.

(* so that, for such graphs, edge symmetry is the only hypothesis (the form stated in the property) *)
Theorem C20_gfa_links_complete_once_sym : forall (D : Type) (K : nat) (stranded : bool) (g : graph D),
  1 <= K -> graph_wf D K g -> tab_symmetric (pal_node D K stranded g) (etab_of D K stranded g) ->
  forall u a es v b flip, find_edges D K stranded g u a = Some es -> In (v, b, flip) es ->
  once_or_twice (pal_node D K stranded g) (gfa_links (write_gfa D K stranded g)) (u, a) (v, b).
Proof. exact gfa_links_complete_once_sym. Qed.
Print Assumptions C20_gfa_links_complete_once_sym.

(* the same on any edge table: what the checkers run on the implementation's lines decide *)
Theorem C20_links_of_tab_complete_once : forall K pal E,
  tab_symmetric pal E -> tab_distinct pal E -> tab_pal_no_self pal E -> complete_once pal E (links_of_tab K E).
Proof. exact complete_once_links. Qed.
Print Assumptions C20_links_of_tab_complete_once.

Theorem C20_chk_gfa_sound_iff : forall K E lines, chk_gfa_sound K E lines = true <-> Forall (link_sound K E) lines.
Proof. exact chk_gfa_sound_iff. Qed.
Print Assumptions C20_chk_gfa_sound_iff.
Theorem C20_chk_gfa_complete_once_iff : forall pal E lines,
  chk_gfa_complete_once pal E lines = true <-> complete_once pal E lines.
Proof. exact chk_gfa_complete_once_iff. Qed.
Print Assumptions C20_chk_gfa_complete_once_iff.
Theorem C20_chk_tab_ok_sound : forall pal E, chk_tab_ok pal E = true -> tab_ok pal E.
Proof. exact chk_tab_ok_sound. Qed.
Print Assumptions C20_chk_tab_ok_sound.

(* ------------------------------------------------------------------ JSON
   For every graph - empty, single node, link-free, last node with or without right-going links - every `rest`
   and every rendering of the caller's values that is itself well formed ([render]: serde_json's Display of a
   Value; [fun t => [VAL t]] opaque or [print] token by token), the token list is accepted by the recogniser
   and denotes the object { "nodes": [one entry per node], "links": [every right-going link], rest.. }. *)
Theorem C20_json_wellformed : forall (D : Type) (K : nat) (stranded : bool) (fmt : D -> jtree)
  (render : jtree -> list token), (forall t, parses (render t) t) ->
  forall (g : graph D) (rest : list (list N * jtree)),
  parse_json (to_json_rest D K stranded fmt render g rest) = Some (json_tree D K stranded fmt g rest).
Proof. exact json_wellformed. Qed.
Print Assumptions C20_json_wellformed.

Theorem C20_render_print : forall t, parses (print t) t.
Proof. exact parses_print. Qed.
Print Assumptions C20_render_print.
Theorem C20_render_opaque : forall t, parses [VAL t] t.
Proof. exact parses_val. Qed.
Print Assumptions C20_render_opaque.

(* what that tree lists *)
Theorem C20_json_nodes_listed : forall (D : Type) (K : nat) (stranded : bool) (fmt : D -> jtree) (g : graph D) rest,
  exists nodes links,
    json_tree D K stranded fmt g rest = JObj ((bs "nodes", JArr nodes) :: (bs "links", JArr links) :: rest) /\
    List.length nodes = List.length g /\
    (forall i n, nth_error g i = Some n -> exists se,
       nth_error nodes i = Some (JObj [(bs "id", JStr (dec i)); (bs "L", JNum (N.of_nat (List.length (n_seq D n))));
                                       (bs "D", fmt (n_data D n)); (bs "Se", JStr se)]) /\
       ((N.of_nat (List.length (n_seq D n)) < slice_debug_limit)%N -> se = text (n_seq D n))) /\
    links = flat_map (fun i => map (link_tree i) (edges D K stranded g i DRight)) (seq 0 (List.length g)).
Proof. exact json_nodes_listed. Qed.
Print Assumptions C20_json_nodes_listed.

(* the recogniser accepts the canonical rendering of every tree (it is not vacuously strict) *)
Theorem C20_parse_print : forall t, parse_json (print t) = Some t.
Proof. exact parse_print. Qed.
Print Assumptions C20_parse_print.

(* ------------------------------------------------------------------ history: the writers before the repairs *)
Theorem C20_gfa_right_hairpin_refuted :
  exists (g : graph unit) u a v b flip es,
    find_edges unit 5 false g u a = Some es /\ In (v, b, flip) es /\
    tab_ok (pal_node unit 5 false g) (etab_of unit 5 false g) /\
    count_denoting (pal_node unit 5 false g) (write_gfa_links_old unit 5 false g) (u, a) (v, b) = 0.
Proof. exact gfa_right_hairpin_refuted. Qed.
Print Assumptions C20_gfa_right_hairpin_refuted.

Theorem C20_json_dangling_comma_refuted :
  exists (g : graph unit), parse_json (to_json_rest_old unit 5 false fmt_unit print g []) = None.
Proof. exact json_dangling_comma_refuted. Qed.
Print Assumptions C20_json_dangling_comma_refuted.

(* ------------------------------------------------------------------ persistence (layout of the derives) *)
Theorem C20_serde_roundtrip_kmer : forall s, dec_int_kmer (enc_int_kmer s) = Some s /\ dec_varint_kmer (enc_varint_kmer s) = Some s.
Proof. exact kmer_roundtrip. Qed.
Print Assumptions C20_serde_roundtrip_kmer.
Theorem C20_serde_roundtrip_exts : forall v, dec_exts (enc_exts v) = Some v.
Proof. exact exts_roundtrip. Qed.
Print Assumptions C20_serde_roundtrip_exts.
Theorem C20_serde_roundtrip_dir : forall d, dec_dir (enc_dir d) = Some d.
Proof. exact dir_roundtrip. Qed.
Print Assumptions C20_serde_roundtrip_dir.
Theorem C20_serde_roundtrip_dstr : forall s, dec_dstr (enc_dstr s) = Some s.
Proof. exact dstr_roundtrip. Qed.
Print Assumptions C20_serde_roundtrip_dstr.
Theorem C20_serde_roundtrip_pset : forall p, dec_pset (enc_pset p) = Some p.
Proof. exact pset_roundtrip. Qed.
Print Assumptions C20_serde_roundtrip_pset.
Theorem C20_serde_roundtrip_graph : forall (D : Type) (enc_d : D -> jtree) (dec_d : jtree -> option D),
  (forall d, dec_d (enc_d d) = Some d) -> forall g, dec_bgraph D dec_d (enc_bgraph D enc_d g) = Some g.
Proof. exact bgraph_roundtrip. Qed.
Print Assumptions C20_serde_roundtrip_graph.
Theorem C20_queries_after_roundtrip : forall (D : Type) (enc_d : D -> jtree) (dec_d : jtree -> option D),
  (forall d, dec_d (enc_d d) = Some d) -> forall (K : nat) (g g' : bgraph D),
  dec_bgraph D dec_d (enc_bgraph D enc_d g) = Some g' ->
  g' = g /\
  (forall kmer d, find_link D K (bg_stranded D g') (bg_nodes D g') kmer d = find_link D K (bg_stranded D g) (bg_nodes D g) kmer d) /\
  (forall id d, find_edges D K (bg_stranded D g') (bg_nodes D g') id d = find_edges D K (bg_stranded D g) (bg_nodes D g) id d).
Proof. exact queries_after_roundtrip. Qed.
Print Assumptions C20_queries_after_roundtrip.

(* The record BaseGraph::add builds from well-formed nodes (bases packed 32 per u64 word, start/length vectors)
   denotes exactly those nodes; hence a graph that is persisted and read back answers find_link / find_edges as
   the original nodes do. *)
Theorem C20_bg_of_nodes_nodes : forall (D : Type) stranded (ns : graph D), wf_nodes D ns ->
  exists b, bg_of_nodes D stranded ns = Some b /\ bg_nodes D b = ns /\ bg_stranded D b = stranded.
Proof. exact bg_of_nodes_nodes. Qed.
Print Assumptions C20_bg_of_nodes_nodes.
Theorem C20_persisted_graph_queries : forall (D : Type) (enc_d : D -> jtree) (dec_d : jtree -> option D) (K : nat) stranded (ns : graph D),
  (forall d, dec_d (enc_d d) = Some d) -> wf_nodes D ns ->
  exists b b', bg_of_nodes D stranded ns = Some b /\ dec_bgraph D dec_d (enc_bgraph D enc_d b) = Some b' /\
    (forall kmer d, find_link D K (bg_stranded D b') (bg_nodes D b') kmer d = find_link D K stranded ns kmer d) /\
    (forall id d, find_edges D K (bg_stranded D b') (bg_nodes D b') id d = find_edges D K stranded ns id d).
Proof. exact persisted_graph_queries. Qed.
Print Assumptions C20_persisted_graph_queries.

(* ------------------------------------------------------------------ non-vacuity *)
(* a graph with a right-side hairpin satisfies the hypothesis, and its link is written once *)
Example C20_nonvacuous_hairpin :
  graph_edges_ok unit 5 false f5_graph /\
  gfa_links (write_gfa unit 5 false f5_graph) = [(0, true, 0, false, 4)].
Proof.
  split; [|vm_compute; reflexivity].
  apply chk_tab_ok_sound. vm_compute. reflexivity.
Qed.
Example C20_nonvacuous_overlap :
  graph_wf unit 5 f5_graph /\
  lastn 4 (orient (n_seq unit (nth 0 f5_graph ([], 0%N, tt))) true) = [Proofs.ExportRefuted.C; T; A; G] /\
  firstn 4 (orient (n_seq unit (nth 0 f5_graph ([], 0%N, tt))) false) = [Proofs.ExportRefuted.C; T; A; G].
Proof.
  split; [|split; vm_compute; reflexivity].
  repeat constructor; cbn; lia.
Qed.
(* two nodes of which only the first has a right-going link: well formed, one link listed *)
Example C20_nonvacuous_json :
  parse_json (to_json_rest unit 5 false fmt_unit print f4_graph []) = Some (json_tree unit 5 false fmt_unit f4_graph []) /\
  right_links unit 5 false f4_graph = [link_tree 0 (0, DRight, true)].
Proof. split; vm_compute; reflexivity. Qed.
