(* C09, end to end: the crate's own "filter -> compress -> clean tips -> re-compress" pipeline (src/test.rs
   simple_tip_clean, README).  Statements only.
     reads -> filter_kmers (CountFilterSet thr; the extensions are NOT pruned: table_of variant 0)
           -> compress_kmers (compress_kmers_with_hash + finish)
           -> CleanGraph::find_bad_nodes pred          (tips: no extension bit on one side, at most one on the other, pred)
           -> compress_graph (stranded, spec, graph, Some bad_nodes)
   Models: Algo/Pipeline.v (table_of, whole_reads), Algo/Compress.v, Algo/CleanGraph.v, Algo/Recompress.v, composed in
   Proofs/TipCleanMain.v ([unpruned_graph], [tip_clean]; [recompress_unpruned] = the same with censor None).
   Guards: those of C04_direct_assembly - 4 <= K (C05's filter_spec), reads over {A,C,G,T}, and - forced by the MODEL
   only - [NoDup order] ([order] is the oracle input standing for BoomHashMap2's iteration order).  Every threshold,
   both strandedness values, both join modes, every tip predicate.  No checker is involved.

   THE SUBTLETY (C09T_unpruned_graph_exts, C09T_nonvacuous_dangling): the table is not pruned, so the extension byte of
   a node of the intermediate graph records every OBSERVED (K+1)-mer at its end k-mers, also those whose other k-mer was
   filtered out by the count threshold.  test_tip looks at that byte, not at resolvable edges: a dead end whose last
   k-mer was seen next to a filtered-out k-mer is NOT reported as a tip (on the pruned graph of the direct pipeline the same
   node IS reported).  compress_graph then drops the dangling bits (its result has exactly the links between surviving
   k-mers). *)
From Coq Require Import NArith List Bool Arith Permutation Sorted.
From DBG Require Import Spec.Dna Spec.GraphIndex Spec.Unitig Spec.CompressSpec Packed.ExtsModel Algo.Compress Algo.GraphModel
  Algo.Recompress Algo.CleanGraph Algo.Pipeline Check.GraphCheck Check.PipelineCheck.
From DBG Require Proofs.E2eDefs Proofs.E2eTable Proofs.PipelineCheckProofs Proofs.LooseGraph Proofs.LooseValid Proofs.RecompCensor Proofs.TipCleanTable Proofs.TipCleanMain.
Import ListNotations.
Open Scope nat_scope.

Local Notation unpruned_graph := TipCleanMain.unpruned_graph.
Local Notation recompress_unpruned := TipCleanMain.recompress_unpruned.
Local Notation tip_clean := TipCleanMain.tip_clean.
Local Notation bad_nodes := TipCleanMain.bad_nodes.
Local Notation read_links := TipCleanMain.read_links.

(* ---- the model pipelines are the compositions of the stage models ---- *)
Theorem C09T_unpruned_graph_def : forall K st thr mode (lreads : list lread) order,
  unpruned_graph K st thr mode lreads order =
  match table_of K st thr 0 (whole_reads lreads) order with
  | None => None
  | Some T => compress_kmers pay pay_reduce (pay_join mode) st T
  end.
Proof. exact TipCleanMain.unpruned_graph_eq. Qed.
Theorem C09T_recompress_unpruned_def : forall K st thr mode (lreads : list lread) order,
  recompress_unpruned K st thr mode lreads order =
  match unpruned_graph K st thr mode lreads order with
  | None => None
  | Some g => compress_graph pay pay_reduce (pay_join mode) K st g None
  end.
Proof. exact TipCleanMain.recompress_unpruned_eq. Qed.
Theorem C09T_tip_clean_def : forall K st thr mode (pred : node_t -> bool) (lreads : list lread) order,
  tip_clean K st thr mode pred lreads order =
  match unpruned_graph K st thr mode lreads order with
  | None => None
  | Some g => compress_graph pay pay_reduce (pay_join mode) K st g (Some (find_bad_nodes pay pred g))
  end.
Proof. exact TipCleanMain.tip_clean_eq. Qed.
(* the intermediate graph is the one-shard graph of Algo/Pipeline.v without pruning *)
Theorem C09T_unpruned_graph_shard : forall K st thr mode (lreads : list lread) order,
  unpruned_graph K st thr mode lreads order = shard_graph K st thr mode 0 (whole_reads lreads) order.
Proof. exact TipCleanMain.unpruned_graph_shard. Qed.
Print Assumptions C09T_unpruned_graph_def.
Print Assumptions C09T_recompress_unpruned_def.
Print Assumptions C09T_tip_clean_def.
Print Assumptions C09T_unpruned_graph_shard.

(* ---- the unpruned table on Layer S ---- *)
(* keys = the retained k-mers; bit (d, c) of key k is set iff the (K+1)-mer is observed (in the orientation in which the
   observation is stored) - whatever its other k-mer; payload = (colour, [rank]) *)
Theorem C09T_unpruned_table : forall K st thr (lreads : list lread) order T,
  4 <= K -> Forall (fun r => wf_dna (fst r)) lreads -> NoDup order ->
  table_of K st thr 0 (whole_reads lreads) order = Some T ->
  Permutation (keys pay T) (retained K st thr (map fst lreads)) /\
  tbl_ok pay K st T /\
  E2eDefs.links_loose pay st T (TipCleanTable.unpruned_links K st thr lreads) /\
  (forall ent, In ent T -> e_data pay ent = (kmer_colour K st lreads (e_key pay ent), [rank (e_key pay ent)])) /\
  (forall ent d c, In ent T -> (c < 4)%N ->
     (e_has_ext (e_exts pay ent) (dirb d) c = true <-> E2eTable.raw_ext_spec K st lreads (e_key pay ent) d c)).
Proof. exact TipCleanTable.unpruned_table_facts. Qed.
Print Assumptions C09T_unpruned_table.

(* ---- the intermediate graph: THE SUBTLETY ---- *)
(* the extension byte of a node end = the OBSERVED canonical (K+1)-mers at its end k-mer (the two sides of a palindromic
   single-k-mer node being identified), whether or not the k-mer at the other end of the link was retained *)
Theorem C09T_unpruned_graph_exts : forall K st thr mode (lreads : list lread) order g,
  4 <= K -> Forall (fun r => wf_dna (fst r)) lreads -> NoDup order ->
  unpruned_graph K st thr mode lreads order = Some g ->
  forall (n : node_t) s c, In n g -> (c < 4)%N ->
  let x := term_kmer K (nd_seq n) s in
  (kpal st x = false ->
     (e_has_ext (nd_exts n) (dirb s) c = true <-> In (cn st (E2eDefs.lk x s c)) (read_links K st (map fst lreads)))) /\
  (kpal st x = true ->
     (e_has_ext (nd_exts n) (dirb s) c = true \/ e_has_ext (nd_exts n) (dirb (dflip s)) (comp c) = true
      <-> In (cn st (E2eDefs.lk x s c)) (read_links K st (map fst lreads)))).
Proof. exact TipCleanMain.unpruned_graph_exts. Qed.
Print Assumptions C09T_unpruned_graph_exts.

(* the intermediate graph has exactly the retained k-mers; it is [lgraph_ok] w.r.t. the unpruned link set (the hypothesis
   of C09C_recompress_unitig_censored) and carries the payloads of its k-mers *)
Theorem C09T_unpruned_graph_kmers : forall K st thr mode (lreads : list lread) order g,
  4 <= K -> Forall (fun r => wf_dna (fst r)) lreads -> NoDup order ->
  unpruned_graph K st thr mode lreads order = Some g ->
  Permutation (graph_kmers K st g) (retained K st thr (map fst lreads)) /\
  LooseGraph.lgraph_ok K st (kjoin_f mode (kmer_colour K st lreads)) (TipCleanTable.unpruned_links K st thr lreads) g /\
  payload_ok K st mode rank (kmer_colour K st lreads) g.
Proof. exact TipCleanMain.unpruned_graph_kmers. Qed.
Print Assumptions C09T_unpruned_graph_kmers.

(* re-compressing the intermediate graph with ANY censor list (repeats, out-of-range ids allowed) *)
Theorem C09T_unpruned_censor_spec : forall K st thr mode (lreads : list lread) order g (c : list nat) out,
  4 <= K -> Forall (fun r => wf_dna (fst r)) lreads -> NoDup order ->
  unpruned_graph K st thr mode lreads order = Some g ->
  compress_graph pay pay_reduce (pay_join mode) K st g (Some c) = Some out ->
  Permutation (graph_kmers K st out) (graph_kmers K st (RecompCensor.surv_nodes g c)) /\
  (forall w, In w (graph_links K st out) <->
             In w (spec_links K st thr (map fst lreads)) /\
             LooseValid.both_in K st (fun k => In k (graph_kmers K st out)) w) /\
  unitig_graph K st mode (kmer_colour K st lreads) out /\
  payload_ok K st mode rank (kmer_colour K st lreads) out.
Proof. exact TipCleanMain.unpruned_censor_spec. Qed.
Print Assumptions C09T_unpruned_censor_spec.

(* test_tip in words *)
Theorem C09T_test_tip_spec : forall (pred : node_t -> bool) (n : node_t), (nd_exts n < 256)%N ->
  (test_tip pay pred n = true <->
   ((length (e_get (nd_exts n) false) = 0 /\ length (e_get (nd_exts n) true) <= 1) \/
    (length (e_get (nd_exts n) true) = 0 /\ length (e_get (nd_exts n) false) <= 1)) /\ pred n = true).
Proof. exact TipCleanMain.test_tip_spec. Qed.
Print Assumptions C09T_test_tip_spec.

(* censoring the output of find_bad_nodes keeps exactly the nodes that do not pass test_tip, in their order *)
Theorem C09T_surv_nodes_bad : forall (pred : node_t -> bool) (G : list node_t),
  RecompCensor.surv_nodes G (find_bad_nodes pay pred G) = filter (fun n => negb (test_tip pay pred n)) G.
Proof. exact TipCleanMain.surv_nodes_bad. Qed.
Print Assumptions C09T_surv_nodes_bad.

(* ---- GOAL 2: without cleaning, re-compressing the unpruned graph gives THE assembly of the reads ---- *)
Theorem C09T_recompress_unpruned_assembly : forall K st thr mode (lreads : list lread) order out,
  4 <= K -> Forall (fun r => wf_dna (fst r)) lreads -> NoDup order ->
  recompress_unpruned K st thr mode lreads order = Some out ->
  assembly_of K st thr mode lreads out.
Proof. exact TipCleanMain.recompress_unpruned_assembly. Qed.
Print Assumptions C09T_recompress_unpruned_assembly.

(* ... and it never panics when [order] lists the retained k-mers in any order *)
Theorem C09T_recompress_unpruned_total : forall K st thr mode (lreads : list lread) order,
  4 <= K -> Forall (fun r => wf_dna (fst r)) lreads ->
  Permutation order (retained K st thr (map fst lreads)) ->
  exists out, recompress_unpruned K st thr mode lreads order = Some out /\ assembly_of K st thr mode lreads out.
Proof. exact TipCleanMain.recompress_unpruned_total. Qed.
Print Assumptions C09T_recompress_unpruned_total.

(* ... hence the same assembly as the direct pipeline (which prunes the TABLE instead, when thr > 1) *)
Theorem C09T_recompress_unpruned_eq_direct : forall K st thr mode (lreads : list lread) order order' out g_d,
  4 <= K -> Forall (fun r => wf_dna (fst r)) lreads -> NoDup order -> NoDup order' ->
  recompress_unpruned K st thr mode lreads order = Some out ->
  direct K st thr mode 0 lreads order' = Some g_d ->
  same_assembly K st mode out g_d.
Proof. exact TipCleanMain.recompress_unpruned_eq_direct. Qed.
Print Assumptions C09T_recompress_unpruned_eq_direct.

(* ---- GOAL 3: with cleaning ---- *)
Theorem C09T_tip_clean_spec : forall K st thr mode (pred : node_t -> bool) (lreads : list lread) order out,
  4 <= K -> Forall (fun r => wf_dna (fst r)) lreads -> NoDup order ->
  tip_clean K st thr mode pred lreads order = Some out ->
  exists g, unpruned_graph K st thr mode lreads order = Some g /\
    let bad := find_bad_nodes pay pred g in
    let ret := retained K st thr (map fst lreads) in
    (* the intermediate graph: the retained k-mers; one node-end extension bit per OBSERVED link *)
    Permutation (graph_kmers K st g) ret /\
    (forall (n : node_t) s c, In n g -> (c < 4)%N -> kpal st (term_kmer K (nd_seq n) s) = false ->
       (e_has_ext (nd_exts n) (dirb s) c = true <->
        In (cn st (E2eDefs.lk (term_kmer K (nd_seq n) s) s c)) (read_links K st (map fst lreads)))) /\
    (* the censor list: ascending; exactly the nodes with no bit on one side, at most one on the other, accepted by pred *)
    StronglySorted lt bad /\
    (forall i, In i bad <-> exists n : node_t, nth_error g i = Some n /\
       ((length (e_get (nd_exts n) false) = 0 /\ length (e_get (nd_exts n) true) <= 1) \/
        (length (e_get (nd_exts n) true) = 0 /\ length (e_get (nd_exts n) false) <= 1)) /\ pred n = true) /\
    (* the result: the retained k-mers minus those of the bad nodes ... *)
    Permutation (graph_kmers K st out ++ graph_kmers K st (bad_nodes pred g)) ret /\
    NoDup (graph_kmers K st out) /\
    (forall x, In x (graph_kmers K st out) <-> In x ret /\ ~ In x (graph_kmers K st (bad_nodes pred g))) /\
    (* ... exactly the links of the reads between surviving k-mers; its nodes are the unitigs of that link set; payloads *)
    (forall w, In w (graph_links K st out) <->
               In w (spec_links K st thr (map fst lreads)) /\
               LooseValid.both_in K st (fun k => In k (graph_kmers K st out)) w) /\
    unitig_graph K st mode (kmer_colour K st lreads) out /\
    payload_ok K st mode rank (kmer_colour K st lreads) out.
Proof. exact TipCleanMain.tip_clean_spec. Qed.
Print Assumptions C09T_tip_clean_spec.

Theorem C09T_tip_clean_total : forall K st thr mode (pred : node_t -> bool) (lreads : list lread) order,
  4 <= K -> Forall (fun r => wf_dna (fst r)) lreads ->
  Permutation order (retained K st thr (map fst lreads)) ->
  exists out, tip_clean K st thr mode pred lreads order = Some out.
Proof. exact TipCleanMain.tip_clean_total. Qed.
Print Assumptions C09T_tip_clean_total.

(* a predicate that accepts nothing: cleaning is re-compression, the result is the assembly *)
Theorem C09T_tip_clean_no_tips : forall K st thr mode (pred : node_t -> bool) (lreads : list lread) order out,
  4 <= K -> Forall (fun r => wf_dna (fst r)) lreads -> NoDup order ->
  (forall n, pred n = false) ->
  tip_clean K st thr mode pred lreads order = Some out ->
  assembly_of K st thr mode lreads out.
Proof. exact TipCleanMain.tip_clean_no_tips. Qed.
Print Assumptions C09T_tip_clean_no_tips.

(* ---- non-vacuity ---------------------------------------------------------------------------------------------------
   K = 4, unstranded, threshold 1, join mode 0, pred = "node shorter than 5 bases".
   Reads: AACTCCGATG (label 0) and TCCGT (label 1): the path AACT..GATG plus the branch CCGT hanging off TCCG.
   The intermediate graph is AACTCCG | CCGATG | ACGG (= rc CCGT): the branch at TCCG stops the walk.  find_bad_nodes
   reports node 2 only (CCGATG is also a structural tip - one bit on the left, none on the right - but is rejected by
   pred; AACTCCG has two bits on its right).  After cleaning the tip is gone and the two path halves MERGE into the one
   node AACTCCGATG carrying the ids of its 7 k-mers.  Without cleaning the re-compression returns the three nodes, which
   are the assembly of the reads. *)
Open Scope N_scope.
Definition C09T_reads : list lread := [([0;0;1;3;1;1;2;0;3;2], 0); ([3;1;1;2;3], 1)].
Definition C09T_order : list dna := Eval vm_compute in rev (retained 4 false 1 (map fst C09T_reads)).
Definition C09T_short (n : node_t) : bool := Nat.ltb (length (nd_seq n)) 5.

Example C09T_nonvacuous :
  (4 <= 4)%nat /\ Forall (fun r => wf_dna (fst r)) C09T_reads /\
  Permutation C09T_order (retained 4 false 1 (map fst C09T_reads)) /\ NoDup C09T_order /\
  unpruned_graph 4 false 1 0 C09T_reads C09T_order =
    Some [([0;0;1;3;1;1;2], 144, (1, [117; 29; 7; 104])); ([1;1;2;0;3;2], 8, (1, [88; 54; 77])); ([0;1;2;2], 16, (2, [26]))] /\
  option_map (find_bad_nodes pay C09T_short) (unpruned_graph 4 false 1 0 C09T_reads C09T_order) = Some [2%nat] /\
  tip_clean 4 false 1 0 C09T_short C09T_reads C09T_order =
    Some [([0;0;1;3;1;1;2;0;3;2], 0, (1, [117; 29; 7; 104; 88; 54; 77]))] /\
  option_map (map nd_seq) (recompress_unpruned 4 false 1 0 C09T_reads C09T_order) =
    Some [[0;0;1;3;1;1;2]; [1;1;2;0;3;2]; [0;1;2;2]] /\
  option_map (chk_assembly 4 false 1 0 C09T_reads) (recompress_unpruned 4 false 1 0 C09T_reads C09T_order) = Some true.
Proof.
  assert (P : Permutation C09T_order (retained 4 false 1 (map fst C09T_reads))).
  { replace C09T_order with (rev (retained 4 false 1 (map fst C09T_reads))) by (vm_compute; reflexivity).
    symmetry. apply Permutation_rev. }
  split; [auto|]. split; [repeat constructor; cbv; auto|]. split; [exact P|].
  split; [eapply Permutation_NoDup; [symmetry; exact P | apply PipelineCheckProofs.retained_nodup]|].
  repeat split; vm_compute; reflexivity.
Qed.
Print Assumptions C09T_nonvacuous.

(* ... and the conclusions of the theorems on it *)
Example C09T_nonvacuous_instance :
  (exists out, tip_clean 4 false 1 0 C09T_short C09T_reads C09T_order = Some out /\ length out = 1%nat /\
     NoDup (graph_kmers 4 false out) /\
     (forall x, In x (graph_kmers 4 false out) <->
        In x (retained 4 false 1 (map fst C09T_reads)) /\ ~ In x [[0;1;2;2]]) /\
     unitig_graph 4 false 0 (kmer_colour 4 false C09T_reads) out /\
     payload_ok 4 false 0 rank (kmer_colour 4 false C09T_reads) out) /\
  (exists out, recompress_unpruned 4 false 1 0 C09T_reads C09T_order = Some out /\ assembly_of 4 false 1 0 C09T_reads out).
Proof.
  destruct C09T_nonvacuous as (HK & Hwf & P & Hnd & Hg & _ & Ht & _).
  split.
  - eexists. split; [exact Ht|]. split; [reflexivity|].
    destruct (TipCleanMain.tip_clean_spec 4 false 1 0 C09T_short C09T_reads C09T_order _ HK Hwf Hnd Ht) as (g & Hg' & F).
    rewrite Hg in Hg'. injection Hg' as <-. cbv zeta in F. destruct F as (_ & _ & _ & _ & _ & N1 & Hin & _ & Hu & Hp).
    split; [exact N1|]. split; [|split; assumption].
    intro x. rewrite Hin. replace (graph_kmers 4 false (bad_nodes C09T_short _)) with [[0;1;2;2]] by (vm_compute; reflexivity). reflexivity.
  - exact (TipCleanMain.recompress_unpruned_total 4 false 1 0 C09T_reads C09T_order HK Hwf P).
Qed.
Print Assumptions C09T_nonvacuous_instance.

(* THE SUBTLETY, concretely.  Threshold 2; AACTCCGATG twice, TCCGT twice, CCGTA once: the k-mer CGTA is seen once and is
   filtered out, but the tip CCGT (stored ACGG) keeps the extension bit towards it (byte 24 = one bit on each side), so
   find_bad_nodes on the UNPRUNED graph reports nothing and tip_clean keeps the tip (3 nodes; the dangling bit is dropped
   by compress_graph: byte 16).  On the pruned graph of the direct pipeline (remove_censored_exts before compressing)
   the same node IS reported. *)
Definition C09T_reads2 : list lread :=
  [([0;0;1;3;1;1;2;0;3;2], 0); ([0;0;1;3;1;1;2;0;3;2], 1); ([3;1;1;2;3], 1); ([3;1;1;2;3], 2); ([1;1;2;3;0], 3)].
Definition C09T_order2 : list dna := Eval vm_compute in rev (retained 4 false 2 (map fst C09T_reads2)).
Example C09T_nonvacuous_dangling :
  Forall (fun r => wf_dna (fst r)) C09T_reads2 /\
  Permutation C09T_order2 (retained 4 false 2 (map fst C09T_reads2)) /\
  option_map (map (fun n => (nd_seq n, nd_exts n))) (unpruned_graph 4 false 2 0 C09T_reads2 C09T_order2) =
    Some [([0;0;1;3;1;1;2], 144); ([1;1;2;0;3;2], 8); ([0;1;2;2], 24)] /\
  option_map (find_bad_nodes pay C09T_short) (unpruned_graph 4 false 2 0 C09T_reads2 C09T_order2) = Some []%nat /\
  option_map (map (fun n => (nd_seq n, nd_exts n))) (tip_clean 4 false 2 0 C09T_short C09T_reads2 C09T_order2) =
    Some [([0;0;1;3;1;1;2], 144); ([1;1;2;0;3;2], 8); ([0;1;2;2], 16)] /\
  option_map (map (fun n => (nd_seq n, nd_exts n))) (direct 4 false 2 0 0 C09T_reads2 C09T_order2) =
    Some [([0;0;1;3;1;1;2], 144); ([1;1;2;0;3;2], 8); ([0;1;2;2], 16)] /\
  option_map (find_bad_nodes pay C09T_short) (direct 4 false 2 0 0 C09T_reads2 C09T_order2) = Some [2%nat] /\
  option_map (chk_assembly 4 false 2 0 C09T_reads2) (tip_clean 4 false 2 0 C09T_short C09T_reads2 C09T_order2) = Some true.
Proof.
  split; [repeat constructor; cbv; auto|].
  split; [replace C09T_order2 with (rev (retained 4 false 2 (map fst C09T_reads2))) by (vm_compute; reflexivity);
          symmetry; apply Permutation_rev|].
  repeat split; vm_compute; reflexivity.
Qed.
Print Assumptions C09T_nonvacuous_dangling.
