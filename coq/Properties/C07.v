(* C07 - Minimizer partition covers every k-mer exactly once with a true minimizer.  Statements only. *)
From Coq Require Import NArith List Bool Arith.
From DBG Require Import Gen.SourceConsts Spec.Dna Spec.ScanSpec Algo.Scan Check.ScanCheck Proofs.ScanProofs Proofs.ScanSweeps Proofs.ScanCheckProofs Packed.KmerModel Proofs.ScoreBridge.
Import ListNotations.
Open Scope nat_scope.

(* Constants named msp_* come from Gen/SourceConsts.v, regenerated from msp.rs on every run; currently
   msp_assert_shift = 32 (assert!(len < 1 << 32)), msp_len_bits = 16 (len: u16), msp_simple_max_p = 8,
   msp_simple_bucket_bits = 16. *)

(* For every score function, every sequence and all 1 <= p <= k <= |seq| (with the two size guards forced by
   the u32 / u16 fields), the scan succeeds and the REPORTED intervals (after the narrowing casts, read back
   as numbers by [iv_nat]) satisfy [scan_ok] of Spec/ScanSpec.v, i.e.
   (a) the first interval starts at 0 and starts strictly increase;
   (b) start_{j+1} = start_j + len_j - (k-1) (overlap exactly k-1) and the last interval ends at |seq|;
       hence [covered_once]: every k-mer start lies in exactly one interval;
   (c) k <= len <= 2k-p;
   (d) minimizer = the p-mer at minimizer_pos, and i <= minimizer_pos, minimizer_pos + p <= i + k for every
       k-mer start i of the interval;
   (e) score minimizer <= score of every p-mer of the interval;
   (f) a non-last interval with next k-mer start e ends only because minimizer_pos < e or the p-mer entering
       at e+k-p scores strictly below the minimizer. *)
Theorem C07_scan_spec : forall (score : dna -> N) sq k p,
  1 <= p -> p <= k -> k <= length sq -> (N.of_nat (length sq) < 2 ^ msp_assert_shift)%N -> (N.of_nat (2 * k - p) < 2 ^ msp_len_bits)%N ->
  exists ivs, scan_checked score sq k p = Some ivs /\
              scan_ok score sq k p (map iv_nat ivs) /\ covered_once sq k (map iv_nat ivs).
Proof. exact scan_checked_spec. Qed.

(* [scan_checked] is the model in which every get_kmer / get index and every usize subtraction is checked
   (None = panic).  It equals the total model [scan_w] on ALL inputs and for every width of the length field:
   inside the four guards (|seq| >= k, |seq| < 2^32, p >= 1, p <= k) no inner panic branch is taken; outside
   them the code panics. *)
Theorem C07_no_inner_panic : forall (score : dna -> N) sq k p wl,
  scan_checked_w score sq k p wl = scan_w score sq k p wl.
Proof. exact scan_checked_eq. Qed.

(* the same for the usize values before the casts, without the size guards *)
Theorem C07_scan_raw_ok : forall (score : dna -> N) sq k p, 1 <= p -> p <= k -> k <= length sq ->
  scan_ok score sq k p (scan_raw score sq k p).
Proof. exact scan_raw_ok. Qed.

(* (a)+(b)+(c) imply exact cover, for any interval list *)
Theorem C07_covered_once : forall (score : dna -> N) sq k p l, scan_ok score sq k p l -> covered_once sq k l.
Proof. exact scan_ok_covered. Qed.

(* simple_scan (deprecated wrapper, asserts P::k() <= 8): the same intervals under the permutation score *)
Theorem C07_simple_scan_spec : forall sq k p perm rcmode,
  1 <= p -> (N.of_nat p <= msp_simple_max_p)%N -> p <= k -> k <= length sq -> (N.of_nat (length sq) < 2 ^ msp_assert_shift)%N -> (N.of_nat (2 * k - p) < 2 ^ msp_len_bits)%N ->
  exists ivs, scan (perm_score perm rcmode) sq k p = Some ivs /\
    scan_ok (perm_score perm rcmode) sq k p (map iv_nat ivs) /\
    simple_scan sq k p perm rcmode =
      Some (map (fun x => ((bucket_of (iv_minimizer x) mod 2 ^ msp_simple_bucket_bits)%N, iv_start x, iv_len x)) ivs).
Proof. exact simple_scan_spec. Qed.

(* The boolean checker run by the correspondence driver on the intervals the IMPLEMENTATION reports is sound:
   given the true score of every p-mer position, acceptance implies clauses (a)-(f). *)
Theorem C07_check_scan_sound : forall (score : dna -> N) sq k p scs l,
  scs = map (fun j => score (sub j p sq)) (seq 0 (length sq + 1 - p)) ->
  check_scan sq k p scs l = true -> scan_ok score sq k p l.
Proof. exact check_scan_sound. Qed.

(* The length claim (c) cannot hold without the guard 2k-p < 2^(width of `len`): on the same model with a
   4-bit length field, k = 9, p = 2 and 16 A's give ONE interval of reported length 0 (finding F7 is this at
   width 16: k = 32772, p = 8, 65536 A's). *)
Theorem C07_scan_len_wrap_refuted :
  exists score sq k p ivs, 1 <= p <= k /\ k <= length sq /\
    scan_checked_w score sq k p 4 = Some ivs /\ exists x, In x ivs /\ (iv_len x < N.of_nat k)%N.
Proof. exact scan_len_wrap_refuted. Qed.

Example C07_nonvacuous_lex :
  scan lex_score [0;1;2;3;3;2;1;0;0;1;1;0]%N 5 2 =
  Some [mkInterval [0;1]%N 0 0 5; mkInterval [1;2]%N 1 1 5; mkInterval [2;1]%N 5 2 5; mkInterval [1;0]%N 6 3 5; mkInterval [0;0]%N 7 4 8].
Proof. exact scan_example_lex. Qed.
Example C07_nonvacuous_const :
  scan const_score (repeat 0%N 12) 5 2 = Some [mkInterval [0;0]%N 3 0 8; mkInterval [0;0]%N 7 4 8].
Proof. exact scan_example_const. Qed.

(* simple_scan reports (bucket, start, len) only: the checker run on the implementation's intervals accepts iff for every
   interval SOME p-mer position passes the per-interval test of check_scan (bounds, inside every k-mer, minimal score) and
   has the reported bucket, and the chain conditions (a), (b) hold *)
Theorem C07_check_simple_sound : forall seq k p sc l, check_simple seq k p sc l = true ->
  Forall (fun x => exists q, check_iv seq k p sc (mkS (sub q p seq) q (snd (fst x)) (snd x)) = true /\
                             bucket16 (sub q p seq) = fst (fst x)) l /\
  check_simple_chain seq k l = true.
Proof. exact check_simple_sound. Qed.
Print Assumptions C07_check_simple_sound.

(* Packed bridge: the score `permutation[pi.to_u64()]` (optionally min with the score of `pi.rc()`) and the bucket
   `minimizer.min_rc().to_u64()` computed on the PACKED p-mer with the packed operations equal perm_score / bucket_of of the
   decoded p-mer: every shipped configuration of width <= 32, every well-formed storage value, every table. *)
Theorem C07_packed_perm_score : forall c perm rcmode s, In c shipped -> wf (kK c) s -> kK c <= 32 ->
  packed_perm_score c perm rcmode s = Some (perm_score perm rcmode (decode (kK c) s)).
Proof. exact packed_perm_score_spec. Qed.
Theorem C07_packed_bucket : forall c s, In c shipped -> wf (kK c) s -> kK c <= 32 ->
  packed_bucket c s = Some (bucket_of (decode (kK c) s)).
Proof. exact packed_bucket_spec. Qed.
Example C07_packed_bridge_nonvacuous :
  In (mkc 16 8) shipped /\ wf 8 27%N /\ packed_bucket (mkc 16 8) 27%N = Some 27%N /\
  packed_perm_score (mkc 16 8) [] true 27%N = Some 0%N.
Proof. vm_compute. repeat split; auto 30. Qed.
(* a real table (the reversed identity on 2-mers) in rc mode: AC scores 14, its reverse complement GT scores 4 *)
Example C07_packed_score_table :
  In (mkc 8 2) shipped /\ packed_perm_score (mkc 8 2) (map N.of_nat (rev (seq 0 16))) true 1%N = Some 4%N.
Proof. vm_compute. split; auto 30. Qed.
Print Assumptions C07_packed_perm_score.
Print Assumptions C07_packed_bucket.

Print Assumptions C07_scan_spec.
Print Assumptions C07_no_inner_panic.
Print Assumptions C07_scan_raw_ok.
Print Assumptions C07_covered_once.
Print Assumptions C07_check_scan_sound.
Print Assumptions C07_simple_scan_spec.
Print Assumptions C07_scan_len_wrap_refuted.
Print Assumptions C07_nonvacuous_lex.
