(* C07 - Minimizer partition covers every k-mer exactly once with a true minimizer.  Statements only. *)
From Coq Require Import NArith List Bool Arith.
From DBG Require Import Spec.Dna Spec.ScanSpec Algo.Scan Check.ScanCheck Proofs.ScanProofs Proofs.ScanSweeps.
Import ListNotations.
Open Scope nat_scope.

(* The length claim (c) cannot hold without the guard 2k-p < 2^(width of `len`): on the same model with a
   4-bit length field, k = 9, p = 2 and 16 A's give ONE interval of reported length 0 (finding F7 is this at
   width 16: k = 32772, p = 8, 65536 A's). *)
Theorem C07_scan_len_wrap_refuted :
  exists score sq k p ivs, 1 <= p <= k /\ k <= length sq /\
    scan_w score sq k p 4 = Some ivs /\ exists x, In x ivs /\ (iv_len x < N.of_nat k)%N.
Proof. exact scan_len_wrap_refuted. Qed.

Example C07_nonvacuous_lex :
  scan lex_score [0;1;2;3;3;2;1;0;0;1;1;0]%N 5 2 =
  Some [mkInterval [0;1]%N 0 0 5; mkInterval [1;2]%N 1 1 5; mkInterval [2;1]%N 5 2 5; mkInterval [1;0]%N 6 3 5; mkInterval [0;0]%N 7 4 8].
Proof. exact scan_example_lex. Qed.
Example C07_nonvacuous_const :
  scan const_score (repeat 0%N 12) 5 2 = Some [mkInterval [0;0]%N 3 0 8; mkInterval [0;0]%N 7 4 8].
Proof. exact scan_example_const. Qed.

Print Assumptions C07_scan_len_wrap_refuted.
Print Assumptions C07_nonvacuous_lex.
