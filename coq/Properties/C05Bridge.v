(* C05 bridge - the k-mer+extensions iterator proved in C13 IS the positional observation list of the filter model (C05).
   Statements only.  `KmerExtsIter` (src/lib.rs) has two executable models:
     * Algo/Iter.v `iter_kmer_exts` - packed words, incremental (first k-mer by get_kmer, then extend_right per step; the
       full Exts model Packed/ExtsModel.v); C13 proves, per container, the items through their VIEW
       (decoded k-mer, set of left extensions, set of right extensions) and that every extension byte is < 256;
     * Algo/Filter.v `kmer_exts K s e` - base lists, positional (the small Exts model Packed/ExtsMini.v); this is what
       `observations` / `filter_kmers` (C05, C06) consume.
   [item_obs c it = (decode (kK c) (fst it), snd it)]: the decoded k-mer and the extension byte ITSELF.
   [None] = the Rust code panics; [c] ranges over the 19 shipped k-mer types. *)
From Coq Require Import NArith List Bool Arith.
From DBG Require Import Spec.Dna Packed.KmerModel Packed.ExtsModel Packed.Blocks Packed.DnaStringModel Packed.SliceModel
  Packed.LmerModel Algo.Iter Algo.SeqHist Proofs.KmerDefaults Proofs.LmerProofs Proofs.IterProofs Proofs.DnaStringProofs
  Proofs.IterBridge Proofs.IterBridgeObs.
From DBG Require Packed.ExtsMini Algo.Filter.
From DBG Require Proofs.IterBridgeMore.
Import ListNotations.
Open Scope N_scope.

(* ---- an extension byte is determined by its two sets of bases (so the C13 view loses nothing) *)
Theorem C05B_ext_byte_determined : forall a b, a < 256 -> b < 256 ->
  exts_left a = exts_left b -> exts_right a = exts_right b -> a = b.
Proof. exact ext_byte_determined. Qed.
(* Exts::merge(e, e) = e: a read of exactly K bases takes both halves from the caller's byte *)
Theorem C05B_merge_same : forall e, e < 256 -> ExtsMini.ex_merge e e = e.
Proof. exact ex_merge_same. Qed.

(* ---- the bridge, generic in the container: any item list with the C13 view and well-formed items *)
Theorem C05B_items_are_filter_kmer_exts : forall c (l : dna), wf_dna l -> forall e, e < 256 -> forall items,
  Forall (item_wf c) items ->
  map (item_view c) items = map (kmer_exts_item c l e) (seq 0 (length l + 1 - kK c)) ->
  map (fun it => (decode (kK c) (fst it), snd it)) items = Filter.kmer_exts (kK c) l e.
Proof. exact iter_items_are_filter_kmer_exts. Qed.

(* ---- per container *)
Theorem C05B_bytes_iter : forall c, In c shipped -> forall (l : dna) e, wf_dna l -> e < 256 ->
  exists items, iter_kmer_exts c (length l) (nth_opt l) (bytes_get_kmer c l) e = Some items /\
                Forall (item_wf c) items /\
                map (fun it => (decode (kK c) (fst it), snd it)) items = Filter.kmer_exts (kK c) l e.
Proof. exact bytes_iter_is_filter_kmer_exts. Qed.
Theorem C05B_dnastring_iter : forall c, In c shipped -> forall s e, d_inv s -> e < 256 ->
  exists items, iter_kmer_exts c (d_len s) (d_get s) (d_get_kmer c s) e = Some items /\
                Forall (item_wf c) items /\
                map (fun it => (decode (kK c) (fst it), snd it)) items = Filter.kmer_exts (kK c) (d_abs s) e.
Proof. exact d_iter_is_filter_kmer_exts. Qed.
Theorem C05B_lmer_iter : forall c, In c shipped -> forall x len e, l_inv x -> l_len x = Some len -> e < 256 ->
  exists items, iter_kmer_exts c len (l_get x) (l_get_kmer c x) e = Some items /\
                Forall (item_wf c) items /\
                map (fun it => (decode (kK c) (fst it), snd it)) items = Filter.kmer_exts (kK c) (l_abs x) e.
Proof. exact l_iter_is_filter_kmer_exts. Qed.
Theorem C05B_slice_iter : forall c, In c shipped -> forall d s e, d_inv d ->
  (s_start s + s_length s <= d_len d)%nat -> e < 256 ->
  exists items, iter_kmer_exts c (s_length s) (sl_get d s) (sl_get_kmer c d s) e = Some items /\
                Forall (item_wf c) items /\
                map (fun it => (decode (kK c) (fst it), snd it)) items = Filter.kmer_exts (kK c) (sl_view (d_abs d) s) e.
Proof. exact sl_iter_is_filter_kmer_exts. Qed.

(* ---- boundary conventions of the positional model: shorter than K - nothing; exactly K - one item carrying e *)
Theorem C05B_kmer_exts_short : forall K (l : dna) e, (length l < K)%nat -> Filter.kmer_exts K l e = [].
Proof. exact filter_kmer_exts_short. Qed.
Theorem C05B_kmer_exts_exact : forall K (l : dna) e, (0 < K)%nat -> length l = K -> e < 256 ->
  Filter.kmer_exts K l e = [(l, e)].
Proof. exact filter_kmer_exts_exact. Qed.
Theorem C05B_kmer_exts_count : forall K (l : dna) e, length (Filter.kmer_exts K l e) = (length l + 1 - K)%nat.
Proof. exact filter_kmer_exts_length. Qed.

(* ---- CLOSED form (composed with C14): no representation invariant left.  The DnaString reached by ANY in-range history
   of construction / mutation operations from the empty string yields through KmerExtsIter - on the whole string and on
   every forward / reverse-complemented window - the positional list of the plain list built by the same operations. *)
Theorem C05B_dnastring_history_iter : forall c, In c shipped -> forall ops e, dops_ok 0 ops = true -> e < 256 ->
  let l := fold_left sdstep ops [] in
  exists s items, dsteps d_new ops = Some s /\ d_len s = length l /\
    iter_kmer_exts c (d_len s) (d_get s) (d_get_kmer c s) e = Some items /\
    Forall (item_wf c) items /\
    map (fun it => (decode (kK c) (fst it), snd it)) items = Filter.kmer_exts (kK c) l e /\
    (forall sl, (s_start sl + s_length sl <= length l)%nat ->
       exists sitems, iter_kmer_exts c (s_length sl) (sl_get s sl) (sl_get_kmer c s sl) e = Some sitems /\
         Forall (item_wf c) sitems /\
         map (fun it => (decode (kK c) (fst it), snd it)) sitems = Filter.kmer_exts (kK c) (sl_view l sl) e).
Proof. exact dnastring_history_iter_is_filter_kmer_exts. Qed.

(* ---- non-vacuity: K = 5 on u16; a 9-base read with e = 0x21 (5 items: the first carries the caller's left nibble, the
   last the caller's right nibble, the inner ones the flanking bases); a read of exactly K bases; a shorter read; the
   same 9-base read as a DnaString built by a history, and its reverse-complemented window *)
Definition C05B_read : dna := [0; 1; 2; 3; 3; 0; 2; 1; 1].
Example C05B_nonvacuous :
  In (mkc 16 5) shipped /\ wf_dna C05B_read /\
  option_map (map (item_obs (mkc 16 5))) (iter_kmer_exts (mkc 16 5) 9 (nth_opt C05B_read) (bytes_get_kmer (mkc 16 5) C05B_read) 0x21)
    = Some (Filter.kmer_exts 5 C05B_read 0x21) /\
  Filter.kmer_exts 5 C05B_read 0x21 =
    [([0; 1; 2; 3; 3], 0x11); ([1; 2; 3; 3; 0], 0x41); ([2; 3; 3; 0; 2], 0x22); ([3; 3; 0; 2; 1], 0x24); ([3; 0; 2; 1; 1], 0x28)] /\
  (let r := [3; 1; 0; 2; 2] in
   option_map (map (item_obs (mkc 16 5))) (iter_kmer_exts (mkc 16 5) 5 (nth_opt r) (bytes_get_kmer (mkc 16 5) r) 0x21)
     = Some [(r, 0x21)] /\ Filter.kmer_exts 5 r 0x21 = [(r, 0x21)]) /\
  (let r := [3; 1; 0; 2] in
   iter_kmer_exts (mkc 16 5) 4 (nth_opt r) (bytes_get_kmer (mkc 16 5) r) 0x21 = Some [] /\ Filter.kmer_exts 5 r 0x21 = []) /\
  (let ops := [DExtend [0; 1; 2; 3]; DPush 3; DPush 0; DExtend [2; 1; 0]; DSet 8 1] in
   dops_ok 0 ops = true /\ fold_left sdstep ops [] = C05B_read /\
   match dsteps d_new ops with
   | Some s =>
       option_map (map (item_obs (mkc 16 5))) (iter_kmer_exts (mkc 16 5) (d_len s) (d_get s) (d_get_kmer (mkc 16 5) s) 0x21)
         = Some (Filter.kmer_exts 5 C05B_read 0x21) /\
       (let sl := {| s_start := 1; s_length := 7; s_rc := true |} in
        option_map (map (item_obs (mkc 16 5))) (iter_kmer_exts (mkc 16 5) 7 (sl_get s sl) (sl_get_kmer (mkc 16 5) s sl) 0x84)
          = Some (Filter.kmer_exts 5 (sl_view C05B_read sl) 0x84) /\
        length (Filter.kmer_exts 5 (sl_view C05B_read sl) 0x84) = 3%nat)
   | None => False
   end).
Proof. vm_compute. repeat split; try reflexivity; auto 20. Qed.

Print Assumptions C05B_ext_byte_determined.
Print Assumptions C05B_merge_same.
Print Assumptions C05B_items_are_filter_kmer_exts.
Print Assumptions C05B_bytes_iter.
Print Assumptions C05B_dnastring_iter.
Print Assumptions C05B_lmer_iter.
Print Assumptions C05B_slice_iter.
Print Assumptions C05B_kmer_exts_short.
Print Assumptions C05B_kmer_exts_exact.
Print Assumptions C05B_kmer_exts_count.
Print Assumptions C05B_dnastring_history_iter.

(* ---- the observation list of filter_kmers from PACKED data, both strandedness settings.
   [packed_observations c iter stranded reads] (Proofs/IterBridgeObs.v) follows filter.rs:192-200 on packed values: per read
   the packed iterator [iter container exts]; per item (kmer, exts) - if stranded the pair itself, else
   `let (k, flip) = kmer.min_rc_flip(); (k, if flip { exts.rc() } else { exts })` with Packed/KmerModel.min_rc_flip and
   the full model's ExtsModel.e_rc; the k-mer is decoded at the end and the read's label attached; reads concatenated.
   [None] = some call panics.  It never does, and the result is the list-level [Filter.observations]. *)
Theorem C05B_packed_canon : forall c, In c shipped -> forall stranded it, item_wf c it ->
  packed_canon c stranded it = Some (Filter.canon_obs stranded (decode (kK c) (fst it), snd it)).
Proof. exact packed_canon_spec. Qed.
(* generic in the container: [read_ok] is what each C05B_*_iter theorem above provides for one read *)
Theorem C05B_observations_generic : forall D c, In c shipped ->
  forall A (iter : A -> N -> option (list (N * N))) (abs : A -> dna) stranded (reads : list (A * N * D)),
  Forall (fun r => exists items, iter (fst (fst r)) (snd (fst r)) = Some items /\ Forall (item_wf c) items /\
                     map (fun it => (decode (kK c) (fst it), snd it)) items
                     = Filter.kmer_exts (kK c) (abs (fst (fst r))) (snd (fst r))) reads ->
  packed_observations c iter stranded reads =
  Some (Filter.observations (kK c) stranded (map (fun r => (abs (fst (fst r)), snd (fst r), snd r)) reads)).
Proof. exact @packed_observations_generic. Qed.
(* reads as byte containers (DnaBytes / DnaSlice) *)
Theorem C05B_observations_bytes : forall D c, In c shipped -> forall stranded (reads : list (dna * N * D)),
  Forall (fun r => wf_dna (fst (fst r)) /\ snd (fst r) < 256) reads ->
  packed_observations c (fun l e => iter_kmer_exts c (length l) (nth_opt l) (bytes_get_kmer c l) e) stranded reads
  = Some (Filter.observations (kK c) stranded reads).
Proof. exact @bytes_packed_observations. Qed.
(* reads as DnaStrings *)
Theorem C05B_observations_dnastring : forall D c, In c shipped -> forall stranded (reads : list (dstr * N * D)),
  Forall (fun r => d_inv (fst (fst r)) /\ snd (fst r) < 256) reads ->
  packed_observations c (fun s e => iter_kmer_exts c (d_len s) (d_get s) (d_get_kmer c s) e) stranded reads
  = Some (Filter.observations (kK c) stranded (map (fun r => (d_abs (fst (fst r)), snd (fst r), snd r)) reads)).
Proof. exact @dnastring_packed_observations. Qed.

(* composed with C05_filter_spec: filter_kmers at the K (>= 4) of a shipped k-mer type = the reference grouping of the
   packed observations *)
Theorem C05B_filter_kmers_packed : forall D DS (summarize : list (@Filter.obs D) -> bool * N * DS) report_all
    c stranded size_of memory_size unit (reads : list (dna * N * D)),
  In c shipped -> (4 <= kK c)%nat -> 1 <= memory_size * Filter.eff_unit unit ->
  Forall (fun r => wf_dna (fst (fst r)) /\ snd (fst r) < 256) reads ->
  exists os passes,
    packed_observations c (fun l e => iter_kmer_exts c (length l) (nth_opt l) (bytes_get_kmer c l) e) stranded reads = Some os /\
    Filter.filter_kmers summarize report_all (kK c) stranded size_of memory_size unit reads
      = Some (Filter.reference_obs summarize report_all os, passes).
Proof. exact @filter_kmers_of_packed_observations. Qed.

(* non-vacuity: K = 5 on u16, three labelled reads: the 9-base read; a read whose k-mers are all flipped by
   canonicalisation (so Exts::rc acts on every byte); a read shorter than K.  Unstranded and stranded. *)
Definition C05B_reads : list (dna * N * N) := [(C05B_read, 0x21, 7); ([3; 3; 2; 3; 1; 3], 0x48, 8); ([1; 2], 0xff, 9)].
Example C05B_observations_nonvacuous :
  Forall (fun r => wf_dna (fst (fst r)) /\ snd (fst r) < 256) C05B_reads /\
  (let it := fun l e => iter_kmer_exts (mkc 16 5) (length l) (nth_opt l) (bytes_get_kmer (mkc 16 5) l) e in
   packed_observations (mkc 16 5) it false C05B_reads = Some (Filter.observations 5 false C05B_reads) /\
   packed_observations (mkc 16 5) it true C05B_reads = Some (Filter.observations 5 true C05B_reads)) /\
  length (Filter.observations 5 false C05B_reads) = 7%nat /\
  nth 5 (Filter.observations 5 false C05B_reads) ([], 0, 0) = ([2; 0; 1; 0; 0], 0x11, 8) /\
  nth 5 (Filter.observations 5 true C05B_reads) ([], 0, 0) = ([3; 3; 2; 3; 1], 0x88, 8).
Proof. vm_compute. repeat split; try reflexivity; repeat constructor. Qed.

Print Assumptions C05B_packed_canon.
Print Assumptions C05B_observations_generic.
Print Assumptions C05B_observations_bytes.
Print Assumptions C05B_observations_dnastring.
Print Assumptions C05B_filter_kmers_packed.

(* ---- further containers (end of session 4): reads given as windows of a DnaString (forward or reverse-complemented) and as
   fixed-size strings (Lmer) - one-line instances of C05B_observations_generic with C05B_slice_iter / C05B_lmer_iter *)
Theorem C05B_observations_slice : forall D c, In c shipped -> forall stranded (reads : list ((DnaStringModel.dstr * slc) * N * D)),
  Forall (fun r => d_inv (fst (fst (fst r))) /\
                   (s_start (snd (fst (fst r))) + s_length (snd (fst (fst r))) <= d_len (fst (fst (fst r))))%nat /\
                   snd (fst r) < 256) reads ->
  packed_observations c
    (fun ds e => iter_kmer_exts c (s_length (snd ds)) (sl_get (fst ds) (snd ds)) (sl_get_kmer c (fst ds) (snd ds)) e)
    stranded reads
  = Some (Filter.observations (kK c) stranded
            (map (fun r => (sl_view (d_abs (fst (fst (fst r)))) (snd (fst (fst r))), snd (fst r), snd r)) reads)).
Proof. intros D c Hc. exact (@IterBridgeMore.slice_packed_observations D c Hc). Qed.
Theorem C05B_observations_lmer : forall D c, In c shipped -> forall stranded (reads : list ((list N * nat) * N * D)),
  Forall (fun r => l_inv (fst (fst (fst r))) /\ l_len (fst (fst (fst r))) = Some (snd (fst (fst r))) /\ snd (fst r) < 256) reads ->
  packed_observations c
    (fun xl e => iter_kmer_exts c (snd xl) (l_get (fst xl)) (l_get_kmer c (fst xl)) e)
    stranded reads
  = Some (Filter.observations (kK c) stranded
            (map (fun r => (l_abs (fst (fst (fst r))), snd (fst r), snd r)) reads)).
Proof. intros D c Hc. exact (@IterBridgeMore.lmer_packed_observations D c Hc). Qed.
Print Assumptions C05B_observations_slice.
Print Assumptions C05B_observations_lmer.
