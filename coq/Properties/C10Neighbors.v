(* C10 (neighbors) - KmerOneHammingIter (src/neighbors.rs) yields exactly the Hamming-distance-1 neighbours.
   Statements only (closed by [exact]); proofs live in Proofs/NeighborsList.v and Proofs/NeighborsProofs.v.

   Model: Algo/Neighbors.v ([nb_next] = the Rust `next`, [nb_collect]/[nb_all] = `collect()`, [nb_all_fused] = collect
   followed by three more `next()` calls that must all return None - what the harness observes), over the packed k-mer
   model of C10 ([get] / [set_mut]).  Spec: Spec/Neighbors.v [neighbors] (position ascending, replacement base ascending,
   own base skipped).  Scope: each of the 19 shipped k-mer types [c], EVERY storage word [s] whose unused top lanes are
   zero ([wf]).  [None] of the model (a panic, or the explicit fuel / item bound running out) is excluded by every
   statement: nb_fuel = 5 * (K + 1) inner steps per call and 3 * K + 1 calls are proved sufficient.

   Auxiliary definitions used below (Proofs/NeighborsProofs.v):
     nb_mk s p ch       = the iterator state {| nb_src := s; nb_pos := p; nb_char := ch |}   (nb_new s = nb_mk s 0 0)
     nb_suffix d p ch   = what remains to be yielded from position p, candidate base ch:
                            map (upd p d) (filter (<> nth p d) [ch..3]) ++ flat_map (neighbors_at d) [p+1 .. K-1]
                          (empty when K <= p); a suffix of [neighbors d], all of it at (0, 0) (the C10N_nb_suffix theorems)
     nb_calls c n st    = the results of n successive next() calls from st
     owf K o            = o is None or Some of a wf word *)
From Coq Require Import NArith List Bool Arith.
From DBG Require Import Spec.Dna Spec.Neighbors Packed.KmerModel Algo.Neighbors
  Proofs.NeighborsList Proofs.NeighborsProofs.
Import ListNotations.
Open Scope N_scope.

(* ------------------------------------------------------------------ 1. the iterator computes [neighbors] *)
Theorem C10N_nb_all_spec : forall c s, In c shipped -> wf (kK c) s ->
  exists l, nb_all c s = Some l /\ Forall (wf (kK c)) l /\ map (decode (kK c)) l = neighbors (decode (kK c) s).
Proof. exact nb_all_spec. Qed.

Theorem C10N_nb_all_fused_spec : forall c s, In c shipped -> wf (kK c) s ->
  exists l, nb_all_fused c s = Some l /\ Forall (wf (kK c)) l /\ map (decode (kK c)) l = neighbors (decode (kK c) s).
Proof. exact nb_all_fused_spec. Qed.

Theorem C10N_nb_all_fused_eq : forall c s, In c shipped -> wf (kK c) s -> nb_all_fused c s = nb_all c s.
Proof. exact nb_all_fused_eq. Qed.

(* step-level contract: from ANY state with char <= 4 (not only the reachable ones), one call with the model's fuel
   returns the head of the remaining output and moves to a state whose remaining output is the tail; when nothing
   remains it returns None in a state past the end *)
Theorem C10N_nb_next_step : forall c s p ch, In c shipped -> wf (kK c) s -> ch <= 4 ->
  match nb_suffix (decode (kK c) s) p ch with
  | [] => exists st', nb_next c (nb_fuel c) (nb_mk s p ch) = Some (None, st') /\
            nb_src st' = s /\ (kK c <= nb_pos st')%nat /\ nb_char st' <= 4
  | x :: tl => exists r st', nb_next c (nb_fuel c) (nb_mk s p ch) = Some (Some r, st') /\
            wf (kK c) r /\ decode (kK c) r = x /\ nb_src st' = s /\ nb_char st' <= 4 /\
            nb_suffix (decode (kK c) s) (nb_pos st') (nb_char st') = tl
  end.
Proof. exact nb_next_step. Qed.

Theorem C10N_nb_suffix_start : forall d, nb_suffix d 0 0 = neighbors d.
Proof. exact nb_suffix_start. Qed.
Theorem C10N_nb_suffix_done : forall d p ch, (length d <= p)%nat -> nb_suffix d p ch = [].
Proof. exact nb_suffix_done. Qed.
Theorem C10N_nb_suffix_is_suffix : forall d p ch, exists pre, neighbors d = pre ++ nb_suffix d p ch.
Proof. exact nb_suffix_is_suffix. Qed.

(* fused: past the end, next() returns None and leaves the state unchanged - for every configuration and state *)
Theorem C10N_nb_next_done : forall c fuel st, (0 < fuel)%nat -> (kK c <= nb_pos st)%nat ->
  nb_next c fuel st = Some (None, st).
Proof. exact nb_next_done. Qed.

(* the whole trace: n successive next() calls on a fresh iterator return the first n elements of
   Some n_1, ..., Some n_3K, None, None, ...   (any n: this is "each call returns the next element" and "fused") *)
Theorem C10N_nb_calls_spec : forall c s n, In c shipped -> wf (kK c) s ->
  exists l, nb_calls c n (nb_new s) = Some l /\ Forall (owf (kK c)) l /\
    map (option_map (decode (kK c))) l =
      firstn n (map Some (neighbors (decode (kK c) s))) ++ repeat None (n - 3 * kK c).
Proof. exact nb_calls_spec. Qed.

(* ------------------------------------------------------------------ 2. what [neighbors] is (pure list facts) *)
Theorem C10N_neighbors_length : forall s, wf_dna s -> length (neighbors s) = (3 * length s)%nat.
Proof. exact neighbors_length. Qed.

Theorem C10N_neighbors_NoDup : forall s, NoDup (neighbors s).
Proof. exact neighbors_NoDup. Qed.

(* count_diff counts over the common prefix only, hence the explicit length condition *)
Theorem C10N_neighbors_In : forall s y, wf_dna s ->
  (In y (neighbors s) <-> length y = length s /\ wf_dna y /\ count_diff s y = 1).
Proof. exact neighbors_In. Qed.

Theorem C10N_neighbors_not_self : forall s, ~ In s (neighbors s).
Proof. exact neighbors_not_self. Qed.

Theorem C10N_neighbors_wf : forall s, wf_dna s -> Forall wf_dna (neighbors s).
Proof. exact neighbors_wf. Qed.

Theorem C10N_neighbors_all_length : forall s, Forall (fun y => length y = length s) (neighbors s).
Proof. exact neighbors_all_length. Qed.

(* ------------------------------------------------------------------ 3. the packed level *)
(* collect() returns 3K pairwise distinct storage words: exactly the wf words at packed Hamming distance 1 *)
Theorem C10N_nb_all_hamming : forall c s, In c shipped -> wf (kK c) s ->
  exists l, nb_all c s = Some l /\ nb_all_fused c s = Some l /\
    length l = (3 * kK c)%nat /\ NoDup l /\
    forall r, In r l <-> (wf (kK c) r /\ hamming_dist c s r = Some 1).
Proof. exact nb_all_hamming. Qed.

Theorem C10N_nb_all_hamming_once : forall c s l r, In c shipped -> wf (kK c) s -> nb_all c s = Some l ->
  wf (kK c) r -> hamming_dist c s r = Some 1 -> count_occ N.eq_dec l r = 1%nat.
Proof. exact nb_all_hamming_once. Qed.

Theorem C10N_nb_all_not_self : forall c s l, In c shipped -> wf (kK c) s -> nb_all c s = Some l -> ~ In s l.
Proof. exact nb_all_not_self. Qed.

(* ------------------------------------------------------------------ 4. non-vacuity *)
(* VarIntKmer<u8,K3>, CGT = 27: the 9 neighbours AGT GGT TGT CAT CCT CTT CGA CGC CGG, then None forever *)
Example C10N_nonvacuous_K3 :
  In (mkc 8 3) shipped /\ wf 3 27 /\ decode 3 27 = [1; 2; 3] /\ wf_dna [1; 2; 3] /\
  neighbors [1; 2; 3] = [[0; 2; 3]; [2; 2; 3]; [3; 2; 3]; [1; 0; 3]; [1; 1; 3]; [1; 3; 3]; [1; 2; 0]; [1; 2; 1]; [1; 2; 2]] /\
  nb_all (mkc 8 3) 27 = Some [11; 43; 59; 19; 23; 31; 24; 25; 26] /\
  nb_all_fused (mkc 8 3) 27 = Some [11; 43; 59; 19; 23; 31; 24; 25; 26] /\
  nb_calls (mkc 8 3) 12 (nb_new 27) =
    Some [Some 11; Some 43; Some 59; Some 19; Some 23; Some 31; Some 24; Some 25; Some 26; None; None; None] /\
  hamming_dist (mkc 8 3) 27 11 = Some 1 /\ hamming_dist (mkc 8 3) 27 10 = Some 2 /\
  count_diff [1; 2; 3] [1; 0; 3] = 1.
Proof. vm_compute. repeat split; auto 20. Qed.

(* a mid-iteration state: position 1, candidate base 2 = the source's own base there: the call skips it and yields CTT *)
Example C10N_nonvacuous_step :
  nb_suffix (decode 3 27) 1 2 = [[1; 3; 3]; [1; 2; 0]; [1; 2; 1]; [1; 2; 2]] /\
  nb_next (mkc 8 3) (nb_fuel (mkc 8 3)) (nb_mk 27 1 2) = Some (Some 31, nb_mk 27 1 4) /\
  nb_suffix (decode 3 27) 1 4 = [[1; 2; 0]; [1; 2; 1]; [1; 2; 2]].
Proof. vm_compute. repeat split. Qed.

(* VarIntKmer<u64,K31>: 93 neighbours, all at packed Hamming distance 1 *)
Example C10N_nonvacuous_K31 :
  In (mkc 64 31) shipped /\ wf 31 0x123456789ABCDEF /\
  option_map (@length N) (nb_all_fused (mkc 64 31) 0x123456789ABCDEF) = Some 93%nat /\
  option_map (forallb (fun r => match hamming_dist (mkc 64 31) 0x123456789ABCDEF r with Some 1 => true | _ => false end))
    (nb_all (mkc 64 31) 0x123456789ABCDEF) = Some true.
Proof. vm_compute. repeat split; auto 20. Qed.

Print Assumptions C10N_nb_all_spec.
Print Assumptions C10N_nb_all_fused_spec.
Print Assumptions C10N_nb_all_fused_eq.
Print Assumptions C10N_nb_next_step.
Print Assumptions C10N_nb_suffix_start.
Print Assumptions C10N_nb_suffix_done.
Print Assumptions C10N_nb_suffix_is_suffix.
Print Assumptions C10N_nb_next_done.
Print Assumptions C10N_nb_calls_spec.
Print Assumptions C10N_neighbors_length.
Print Assumptions C10N_neighbors_NoDup.
Print Assumptions C10N_neighbors_In.
Print Assumptions C10N_neighbors_not_self.
Print Assumptions C10N_neighbors_wf.
Print Assumptions C10N_neighbors_all_length.
Print Assumptions C10N_nb_all_hamming.
Print Assumptions C10N_nb_all_hamming_once.
Print Assumptions C10N_nb_all_not_self.
