(* C06, filter half - strand symmetry of the k-mer table when unstranded, strand separation when stranded.
   Statements only.  (The graph half of C06 - partition, payloads, adjacencies of the compressed graph - is NOT
   covered here.)  Model: Algo/Filter.v; by C05_filter_spec the table returned by filter_kmers IS [reference]. *)
From Coq Require Import NArith List Bool Arith Sorting.Sorted Permutation.
From DBG Require Import Spec.Dna Packed.ExtsMini Algo.KmerHist Algo.Filter Proofs.FilterProofs Proofs.FilterSumm Proofs.FilterRc.
Import ListNotations.
Open Scope N_scope.

(* Unstranded: every key is the canonical form of a k-mer of some read, i.e. the lexicographic minimum of that k-mer
   and its reverse complement; conversely every k-mer of every read is represented by its canonical form. *)
Theorem C06_keys_canonical : forall D K (reads : list (dna * N * D)) o, reads_ok reads -> In o (observations K false reads) ->
  (exists r i, In r reads /\ (i + K <= length (fst (fst r)))%nat /\ key o = canon (kmer_at K (fst (fst r)) i)) /\
  dna_leb (key o) (rc (key o)) = true /\ canon (key o) = key o.
Proof. intros D. exact keys_canonical. Qed.
Theorem C06_keys_complete : forall D K (reads : list (dna * N * D)) r i, In r reads -> (i + K <= length (fst (fst r)))%nat ->
  exists o, In o (observations K false reads) /\ key o = canon (kmer_at K (fst (fst r)) i).
Proof. intros D. exact keys_complete. Qed.

(* Stranded: the observed keys are exactly the forward k-mers of the reads (in order; never canonicalised), with the
   iterator's extension sets (never flipped): a k-mer and its reverse complement are identified only if equal. *)
Theorem C06_stranded_exact : forall D K (reads : list (dna * N * D)),
  map key (observations K true reads) = flat_map (fun r => kmers K (fst (fst r))) reads /\
  observations K true reads = flat_map (fun r => map (fun o => (o, snd r)) (kmer_exts K (fst (fst r)) (snd (fst r)))) reads.
Proof. intros D. exact stranded_exact. Qed.

(* Unstranded, any subset of reads reverse-complemented (their boundary extensions flipped with them), any summarizer
   whose acceptance and summary depend on the multiset of labels only and whose extension set is the union:
   same keys; per key same acceptance, same summary, same extension set - except that for a palindromic key only the
   symmetrised set e | rc(e) is invariant (each of its observations contributes e or rc(e) depending on the strand
   its read was given in). *)
Theorem C06_filter_rc_invariant : forall D DS (acc : list D -> bool) (dat : list D -> DS),
  (forall l l', Permutation l l' -> acc l = acc l') -> (forall l l', Permutation l l' -> dat l = dat l') ->
  forall K (reads : list (dna * N * D)) fs, (1 <= K)%nat -> Forall read_ok reads ->
  let os := observations K false reads in
  let os' := observations K false (flip_reads fs reads) in
  ref_keys os' = ref_keys os /\
  forall k, let a := summ_of DS acc dat (obs_of os k) in let b := summ_of DS acc dat (obs_of os' k) in
    fst (fst a) = fst (fst b) /\ snd a = snd b /\
    (if is_palindrome k then palindrome_exts_rel (snd (fst a)) (snd (fst b)) = true else snd (fst a) = snd (fst b)).
Proof. intros D DS acc dat Ha Hd. exact (filter_rc_invariant DS acc dat Ha Hd). Qed.

(* ... and in the form run by the checker (chk.filter_rc), for the two shipped summarizers *)
Theorem C06_filter_rc_count_filter : forall D n ra K (reads : list (dna * N * D)) fs, (1 <= K)%nat -> Forall read_ok reads ->
  table_rel N.eqb (reference (count_filter n) ra K false reads) (reference (count_filter n) ra K false (flip_reads fs reads)) = true.
Proof. intros D. exact filter_rc_count_filter. Qed.
Theorem C06_filter_rc_count_filter_set : forall n ra K (reads : list (dna * N * N)) fs, (1 <= K)%nat -> Forall read_ok reads ->
  table_rel list_eqbN' (reference (count_filter_set n) ra K false reads)
                       (reference (count_filter_set n) ra K false (flip_reads fs reads)) = true.
Proof. exact filter_rc_count_filter_set. Qed.
Theorem C06_count_filter_perm : forall D n (l l' : list (@obs D)), Permutation l l' -> count_filter n l = count_filter n l'.
Proof. intros D. exact count_filter_perm. Qed.
Theorem C06_count_filter_set_perm : forall n (l l' : list (@obs N)), Permutation l l' -> count_filter_set n l = count_filter_set n l'.
Proof. exact count_filter_set_perm. Qed.

(* non-vacuity, and why the palindrome caveat is needed: K = 4, read GACGTT contains the palindrome ACGT with flanks G|T;
   flipping the read (AACGTC) gives flanks A|C = rc(G|T): the stored extension sets of ACGT differ between the two runs
   (first conjunct) but are related by [palindrome_exts_rel]; the non-palindromic keys agree exactly *)
Definition ex_reads6 : list (dna * N * N) := [([2;0;1;2;3;3], 0, 1); ([0;1;2;3;0], 0, 2)].
Example C06_nonvacuous :
  Forall read_ok ex_reads6 /\
  fst (reference (count_filter 1) false 4 false ex_reads6) <> fst (reference (count_filter 1) false 4 false (flip_reads [true; false] ex_reads6)) /\
  table_rel N.eqb (reference (count_filter 1) false 4 false ex_reads6)
                  (reference (count_filter 1) false 4 false (flip_reads [true; false] ex_reads6)) = true.
Proof.
  split; [repeat constructor; cbv; reflexivity|]. split; [|vm_compute; reflexivity]. vm_compute. intros H. discriminate H.
Qed.
