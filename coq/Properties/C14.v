(* C14 - Growable DNA string is a faithful sequence container.  Statements only. *)
From Coq Require Import NArith List Bool Arith.
From DBG Require Import Spec.Dna Packed.Blocks Packed.DnaStringModel Algo.SeqHist Proofs.DnaStringProofs.
Import ListNotations.
Open Scope N_scope.

(* After ANY in-range history of construction/mutation operations starting from the empty string, the modelled
   DnaString (a) does not panic, (b) satisfies the representation invariant (block count, padding lanes zero),
   and (c) holds exactly the list obtained by applying the same operations to a plain list. *)
Theorem C14_history : forall ops, dops_ok 0 ops = true ->
  exists s, dsteps d_new ops = Some s /\ d_inv s /\ d_abs s = fold_left sdstep ops [].
Proof. exact d_history. Qed.

Theorem C14_step : forall s o, d_inv s -> dop_ok (d_len s) o = true ->
  exists s', dstep s o = Some s' /\ d_inv s' /\ d_abs s' = sdstep (d_abs s) o.
Proof. exact dstep_refines. Qed.

(* reads *)
Theorem C14_len : forall s, d_inv s -> length (d_abs s) = d_len s.
Proof. exact d_abs_length. Qed.
Theorem C14_get : forall s, d_inv s -> forall i, (i < d_len s)%nat -> d_get s i = Some (nth i (d_abs s) 0).
Proof. exact d_get_spec. Qed.
Theorem C14_to_bytes : forall s, d_inv s -> d_to_bytes s = Some (d_abs s).
Proof. exact d_to_bytes_spec. Qed.
Theorem C14_reverse : forall s, d_inv s -> exists s', d_reverse s = Some s' /\ d_inv s' /\ d_abs s' = rev (d_abs s).
Proof. exact d_reverse_spec. Qed.
Theorem C14_rc : forall s, d_inv s -> exists s', d_rc s = Some s' /\ d_inv s' /\ d_abs s' = rc (d_abs s).
Proof. exact d_rc_spec. Qed.

(* equality, hash input and order depend only on the base sequence *)
Theorem C14_eq_iff : forall a b, d_inv a -> d_inv b -> (d_eq a b = true <-> d_abs a = d_abs b).
Proof. exact d_eq_iff. Qed.
Theorem C14_hash_feed_inj : forall a b, d_inv a -> d_inv b -> (d_hash_feed a = d_hash_feed b <-> d_abs a = d_abs b).
Proof. exact d_hash_feed_inj. Qed.
(* derived Ord = lexicographic order of the bases, a proper prefix first *)
Theorem C14_ord_lex : forall a b, d_inv a -> d_inv b -> d_cmp a b = dna_compare (d_abs a) (d_abs b).
Proof. exact d_cmp_lex. Qed.

(* non-vacuity: 33 pushes cross a block boundary; set, clear and bulk extend in one history *)
Example C14_nonvacuous :
  dops_ok 0 [DExtend (repeat 1 33); DSet 32 3; DPush 2; DClear; DFromBytes [0; 1; 2; 3]; DRc; DPushBytes [0xE4] 3] = true /\
  (match dsteps d_new [DExtend (repeat 1 33); DSet 32 3; DPush 2] with
   | Some s => d_abs s = repeat 1 32 ++ [3; 2] /\ length (d_sto s) = 2%nat | None => False end).
Proof. vm_compute. auto. Qed.

Print Assumptions C14_history.
Print Assumptions C14_get.
Print Assumptions C14_to_bytes.
Print Assumptions C14_reverse.
Print Assumptions C14_rc.
Print Assumptions C14_eq_iff.
Print Assumptions C14_hash_feed_inj.
Print Assumptions C14_ord_lex.
