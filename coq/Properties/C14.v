(* C14 - Growable DNA string is a faithful sequence container.  Statements only. *)
From Coq Require Import NArith List Bool Arith.
From DBG Require Import Spec.Dna Packed.Blocks Packed.DnaStringModel Packed.SliceModel Packed.PackedSet Algo.SeqHist
  Proofs.DnaStringProofs Proofs.SliceProofs Proofs.HammingProofs Proofs.DnaStringMore Packed.AsciiModel Proofs.AsciiPaths.
Import ListNotations.
Open Scope N_scope.

(* After ANY in-range history of construction/mutation operations starting from the empty string, the modelled
   DnaString (a) does not panic, (b) satisfies the representation invariant (block count, padding lanes zero),
   and (c) holds exactly the list obtained by applying the same operations to a plain list. *)
Theorem C14_history : forall ops, dops_ok 0 ops = true ->
  exists s, dsteps d_new ops = Some s /\ d_inv s /\ d_abs s = fold_left sdstep ops [].
Proof. exact d_history. Qed.

Theorem C14_step : forall s o, d_inv s -> dop_ok (d_len s) o = true ->
  exists s', dstep s o = Some s' /\ d_inv s' /\ d_abs s' = sdstep (d_abs s) o.
Proof. exact dstep_refines. Qed.

(* reads *)
Theorem C14_len : forall s, d_inv s -> length (d_abs s) = d_len s.
Proof. exact d_abs_length. Qed.
Theorem C14_get : forall s, d_inv s -> forall i, (i < d_len s)%nat -> d_get s i = Some (nth i (d_abs s) 0).
Proof. exact d_get_spec. Qed.
Theorem C14_to_bytes : forall s, d_inv s -> d_to_bytes s = Some (d_abs s).
Proof. exact d_to_bytes_spec. Qed.
Theorem C14_reverse : forall s, d_inv s -> exists s', d_reverse s = Some s' /\ d_inv s' /\ d_abs s' = rev (d_abs s).
Proof. exact d_reverse_spec. Qed.
Theorem C14_rc : forall s, d_inv s -> exists s', d_rc s = Some s' /\ d_inv s' /\ d_abs s' = rc (d_abs s).
Proof. exact d_rc_spec. Qed.

(* equality, hash input and order depend only on the base sequence *)
Theorem C14_eq_iff : forall a b, d_inv a -> d_inv b -> (d_eq a b = true <-> d_abs a = d_abs b).
Proof. exact d_eq_iff. Qed.
Theorem C14_hash_feed_inj : forall a b, d_inv a -> d_inv b -> (d_hash_feed a = d_hash_feed b <-> d_abs a = d_abs b).
Proof. exact d_hash_feed_inj. Qed.
(* derived Ord = lexicographic order of the bases, a proper prefix first *)
Theorem C14_ord_lex : forall a b, d_inv a -> d_inv b -> d_cmp a b = dna_compare (d_abs a) (d_abs b).
Proof. exact d_cmp_lex. Qed.

(* renderings: to_ascii_vec and Display/to_string spell the bases *)
Theorem C14_to_ascii : forall s, d_inv s -> d_to_ascii s = Some (text (d_abs s)).
Proof. exact d_to_ascii_spec. Qed.
Theorem C14_to_text : forall s, d_inv s -> d_to_text s = Some (text (d_abs s)).
Proof. exact d_to_text_spec. Qed.
(* ndiffs (packed, word-wise) = number of differing positions; relies on the padding lanes of BOTH operands being zero *)
Theorem C14_ndiffs : forall a b, d_inv a -> d_inv b -> d_len a = d_len b ->
  d_ndiffs a b = Some (count_diff (d_abs a) (d_abs b)).
Proof. exact d_ndiffs_spec. Qed.
(* a packed set of strings returns every added sequence unchanged at its index (sequences shorter than 2^32 bases:
   the length vector is Vec<u32>) *)
Theorem C14_packed_set_get : forall seqs, Forall wf_dna seqs -> Forall (fun l => N.of_nat (length l) < 2 ^ 32) seqs ->
  exists p, p_add_all p_new seqs = Some p /\ p_len p = length seqs /\
    forall i, (i < length seqs)%nat ->
      exists sl, p_get p i = Some sl /\ sl_bytes (p_seq p) sl = Some (nth i seqs []).
Proof. exact packed_set_get. Qed.
Example C14_packed_nonvacuous :
  match p_add_all p_new [[0; 1; 2]; []; repeat 3 33; [2]] with
  | Some p => p_len p = 4%nat /\ p_start p = [0; 3; 3; 36]%nat /\
              (match p_get p 2 with Some sl => sl_bytes (p_seq p) sl = Some (repeat 3 33) | None => False end)
  | None => False end.
Proof. vm_compute. auto. Qed.

(* non-vacuity: 33 pushes cross a block boundary; set, clear and bulk extend in one history *)
Example C14_nonvacuous :
  dops_ok 0 [DExtend (repeat 1 33); DSet 32 3; DPush 2; DClear; DFromBytes [0; 1; 2; 3]; DRc; DPushBytes [0xE4] 3] = true /\
  (match dsteps d_new [DExtend (repeat 1 33); DSet 32 3; DPush 2] with
   | Some s => d_abs s = repeat 1 32 ++ [3; 2] /\ length (d_sto s) = 2%nat | None => False end).
Proof. vm_compute. auto. Qed.

(* the str constructor on ARBITRARY text (code points, ASCII or not): it never fails and holds exactly one base per char -
   the table value of the char's low byte (`c as u8`), i.e. at an ASCII char the table value of the char itself
   (A/C/G/T in either case -> 0/1/2/3, anything else -> A).  [s.a.strmask] is this statement with the non-ASCII
   positions left open; run on every generated text (seeded change C14-m3: one base per UTF-8 BYTE). *)
Theorem C14_from_str : forall text : list N,
  AsciiModel.from_dna_string text = Some (ds_of_dna (map (fun c => ascii_base (char_as_u8 c)) text)) /\
  (forall d, AsciiModel.from_dna_string text = Some d -> ds_len d = length text).
Proof. intro text. split; [exact (from_str_any text) | exact (from_str_any_len text)]. Qed.

Print Assumptions C14_history.
Print Assumptions C14_from_str.
Print Assumptions C14_get.
Print Assumptions C14_to_bytes.
Print Assumptions C14_reverse.
Print Assumptions C14_rc.
Print Assumptions C14_eq_iff.
Print Assumptions C14_hash_feed_inj.
Print Assumptions C14_ord_lex.
Print Assumptions C14_to_ascii.
Print Assumptions C14_ndiffs.
Print Assumptions C14_packed_set_get.
