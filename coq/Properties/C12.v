(* C12 - Reverse complement is coherent across all sequence types.  Statements only. *)
From Coq Require Import NArith List Bool Arith.
From DBG Require Import Spec.Dna Packed.KmerModel Packed.ExtsModel Proofs.ListFacts Proofs.DnaFacts Proofs.KmerLanes
  Proofs.KmerOps Proofs.KmerDefaults Proofs.ExtsProofs.
Import ListNotations.
Open Scope N_scope.

(* ---- Layer S: the laws themselves *)
Theorem C12_rc_involutive : forall l, wf_dna l -> rc (rc l) = l.
Proof. exact ListFacts.rc_involutive. Qed.
Theorem C12_rc_nth : forall l i, (i < length l)%nat -> nth i (rc l) 0 = comp (nth (length l - 1 - i) l 0).
Proof. exact rc_nth. Qed.
Theorem C12_kmer_at_rc : forall K l i, (i + K <= length l)%nat ->
  kmer_at K (rc l) i = rc (kmer_at K l (length l - K - i)).
Proof. exact kmer_at_rc. Qed.
Theorem C12_canon_rc : forall x, wf_dna x -> canon (rc x) = canon x.
Proof. exact canon_rc. Qed.
Theorem C12_canon_min : forall x, dna_leb (canon x) x = true /\ dna_leb (canon x) (rc x) = true.
Proof. exact canon_min. Qed.
Theorem C12_canon_choice : forall x, canon x = x \/ canon x = rc x.
Proof. exact canon_choice. Qed.
Theorem C12_palindrome_iff : forall x, is_palindrome x = true <-> x = rc x.
Proof. exact palindrome_iff. Qed.
Theorem C12_odd_not_palindrome : forall l, Nat.even (length l) = false -> l <> rc l.
Proof. exact odd_not_palindrome. Qed.

(* ---- k-mers (19 shipped types, all values) *)
Theorem C12_kmer_rc : forall c s, In c shipped -> wf (kK c) s ->
  exists r, krc c s = Some r /\ wf (kK c) r /\ decode (kK c) r = rc (decode (kK c) s).
Proof. exact KmerOps.rc_spec. Qed.
Theorem C12_kmer_min_rc : forall c, In c shipped -> forall s, wf (kK c) s ->
  exists m, min_rc c s = Some m /\ wf (kK c) m /\ decode (kK c) m = canon (decode (kK c) s).
Proof. exact min_rc_spec. Qed.
Theorem C12_kmer_min_rc_flip : forall c, In c shipped -> forall s, wf (kK c) s ->
  exists m f, min_rc_flip c s = Some (m, f) /\ wf (kK c) m /\ (decode (kK c) m, f) = canon_flip (decode (kK c) s).
Proof. exact min_rc_flip_spec. Qed.
Theorem C12_kmer_is_palindrome : forall c s, In c shipped -> wf (kK c) s ->
  kis_palindrome c s = Some (is_palindrome (decode (kK c) s)).
Proof. exact is_palindrome_spec. Qed.

(* ---- extension sets: all 256 values, exhaustively *)
Theorem C12_exts_rc : forall e, e < 256 -> e_rc e < 256 /\
  exts_left (e_rc e) = rev (map comp (exts_right e)) /\ exts_right (e_rc e) = rev (map comp (exts_left e)).
Proof. exact ExtsProofs.rc_spec. Qed.
Theorem C12_exts_rc_involutive : forall e, e < 256 -> e_rc (e_rc e) = e.
Proof. exact ExtsProofs.rc_involutive. Qed.
Theorem C12_exts_get : forall e, e < 256 -> e_get e false = exts_left e /\ e_get e true = exts_right e.
Proof. exact ExtsProofs.get_spec. Qed.
Theorem C12_exts_has_ext : forall e dir b, e < 256 -> b < 4 ->
  e_has_ext e dir b = existsb (N.eqb b) (if dir then exts_right e else exts_left e).
Proof. exact has_ext_spec. Qed.
Theorem C12_exts_set : forall e dir b, e < 256 -> b < 4 -> exists r, e_set e dir b = Some r /\ r < 256 /\
  (forall d c, c < 4 -> e_has_ext r d c = e_has_ext e d c || (Bool.eqb d dir && (c =? b))).
Proof. exact set_spec. Qed.
Theorem C12_exts_num_unique : forall e dir, e < 256 ->
  e_num_ext_dir e dir = N.of_nat (length (if dir then exts_right e else exts_left e)) /\
  e_get_unique_extension e dir = match (if dir then exts_right e else exts_left e) with [b] => Some b | _ => None end.
Proof. exact num_ext_spec. Qed.

Example C12_nonvacuous :
  rc [0; 1; 1; 3] = [0; 2; 2; 3] /\ canon [3; 3; 0] = [3; 0; 0] /\ is_palindrome [0; 1; 2; 3] = true /\
  exts_left (e_rc 0x21) = [2] /\ exts_right (e_rc 0x21) = [3].
Proof. vm_compute. auto 10. Qed.

Print Assumptions C12_rc_involutive.
Print Assumptions C12_kmer_at_rc.
Print Assumptions C12_canon_rc.
Print Assumptions C12_kmer_rc.
Print Assumptions C12_kmer_min_rc_flip.
Print Assumptions C12_kmer_is_palindrome.
Print Assumptions C12_exts_rc.
Print Assumptions C12_exts_rc_involutive.
Print Assumptions C12_exts_set.
Print Assumptions C12_exts_num_unique.
