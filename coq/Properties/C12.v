(* C12 - Reverse complement is coherent across all sequence types.  Statements only. *)
From Coq Require Import NArith List Bool Arith.
From DBG Require Import Spec.Dna Packed.KmerModel Packed.ExtsModel Proofs.ListFacts Proofs.DnaFacts Proofs.KmerLanes
  Proofs.KmerOps Proofs.KmerDefaults Proofs.ExtsProofs.
From DBG Require Packed.ExtsMini Proofs.ExtsBridge.
Import ListNotations.
Open Scope N_scope.

(* ---- Layer S: the laws themselves *)
Theorem C12_rc_involutive : forall l, wf_dna l -> rc (rc l) = l.
Proof. exact ListFacts.rc_involutive. Qed.
Theorem C12_rc_nth : forall l i, (i < length l)%nat -> nth i (rc l) 0 = comp (nth (length l - 1 - i) l 0).
Proof. exact rc_nth. Qed.
Theorem C12_kmer_at_rc : forall K l i, (i + K <= length l)%nat ->
  kmer_at K (rc l) i = rc (kmer_at K l (length l - K - i)).
Proof. exact kmer_at_rc. Qed.
Theorem C12_canon_rc : forall x, wf_dna x -> canon (rc x) = canon x.
Proof. exact canon_rc. Qed.
Theorem C12_canon_min : forall x, dna_leb (canon x) x = true /\ dna_leb (canon x) (rc x) = true.
Proof. exact canon_min. Qed.
Theorem C12_canon_choice : forall x, canon x = x \/ canon x = rc x.
Proof. exact canon_choice. Qed.
Theorem C12_palindrome_iff : forall x, is_palindrome x = true <-> x = rc x.
Proof. exact palindrome_iff. Qed.
Theorem C12_odd_not_palindrome : forall l, Nat.even (length l) = false -> l <> rc l.
Proof. exact odd_not_palindrome. Qed.

(* ---- k-mers (19 shipped types, all values) *)
Theorem C12_kmer_rc : forall c s, In c shipped -> wf (kK c) s ->
  exists r, krc c s = Some r /\ wf (kK c) r /\ decode (kK c) r = rc (decode (kK c) s).
Proof. exact KmerOps.rc_spec. Qed.
Theorem C12_kmer_min_rc : forall c, In c shipped -> forall s, wf (kK c) s ->
  exists m, min_rc c s = Some m /\ wf (kK c) m /\ decode (kK c) m = canon (decode (kK c) s).
Proof. exact min_rc_spec. Qed.
Theorem C12_kmer_min_rc_flip : forall c, In c shipped -> forall s, wf (kK c) s ->
  exists m f, min_rc_flip c s = Some (m, f) /\ wf (kK c) m /\ (decode (kK c) m, f) = canon_flip (decode (kK c) s).
Proof. exact min_rc_flip_spec. Qed.
Theorem C12_kmer_is_palindrome : forall c s, In c shipped -> wf (kK c) s ->
  kis_palindrome c s = Some (is_palindrome (decode (kK c) s)).
Proof. exact is_palindrome_spec. Qed.

(* ---- extension sets: all 256 values, exhaustively *)
Theorem C12_exts_rc : forall e, e < 256 -> e_rc e < 256 /\
  exts_left (e_rc e) = rev (map comp (exts_right e)) /\ exts_right (e_rc e) = rev (map comp (exts_left e)).
Proof. exact ExtsProofs.rc_spec. Qed.
Theorem C12_exts_rc_involutive : forall e, e < 256 -> e_rc (e_rc e) = e.
Proof. exact ExtsProofs.rc_involutive. Qed.
Theorem C12_exts_get : forall e, e < 256 -> e_get e false = exts_left e /\ e_get e true = exts_right e.
Proof. exact ExtsProofs.get_spec. Qed.
Theorem C12_exts_has_ext : forall e dir b, e < 256 -> b < 4 ->
  e_has_ext e dir b = existsb (N.eqb b) (if dir then exts_right e else exts_left e).
Proof. exact has_ext_spec. Qed.
Theorem C12_exts_set : forall e dir b, e < 256 -> b < 4 -> exists r, e_set e dir b = Some r /\ r < 256 /\
  (forall d c, c < 4 -> e_has_ext r d c = e_has_ext e d c || (Bool.eqb d dir && (c =? b))).
Proof. exact set_spec. Qed.
Theorem C12_exts_num_unique : forall e dir, e < 256 ->
  e_num_ext_dir e dir = N.of_nat (length (if dir then exts_right e else exts_left e)) /\
  e_get_unique_extension e dir = match (if dir then exts_right e else exts_left e) with [b] => Some b | _ => None end.
Proof. exact num_ext_spec. Qed.

Example C12_nonvacuous :
  rc [0; 1; 1; 3] = [0; 2; 2; 3] /\ canon [3; 3; 0] = [3; 0; 0] /\ is_palindrome [0; 1; 2; 3] = true /\
  exts_left (e_rc 0x21) = [2] /\ exts_right (e_rc 0x21) = [3].
Proof. vm_compute. auto 10. Qed.

Print Assumptions C12_rc_involutive.
Print Assumptions C12_kmer_at_rc.
Print Assumptions C12_canon_rc.
Print Assumptions C12_kmer_rc.
Print Assumptions C12_kmer_min_rc_flip.
Print Assumptions C12_kmer_is_palindrome.
Print Assumptions C12_exts_rc.
Print Assumptions C12_exts_rc_involutive.
Print Assumptions C12_exts_set.
Print Assumptions C12_exts_num_unique.

(* ---- the two executable models of Exts agree (end of session 4).  Packed/ExtsMini.v is the small model used by the
   filter / pipeline models (C04-C06), Packed/ExtsModel.v the full one (this property, C01-C03, C09); both are compared
   with the real code on every run, and they are the same function on every extension byte (sweeps over all 256 bytes /
   65 536 pairs, lifted by forallb_forall - finite by the type u8). *)
Theorem C12_exts_models_agree_unary : forall x, x < 256 ->
  ExtsMini.ex_rc x = e_rc x /\ ExtsMini.ex_complement x = e_complement x /\ ExtsMini.ex_reverse x = e_reverse x /\
  forall d, ExtsMini.ex_dir_bits x d = e_dir_bits x d /\ ExtsMini.ex_bases x d = e_get x d /\
    forall b, b < 4 -> ExtsMini.ex_has x d b = e_has_ext x d b /\ e_set x d b = Some (ExtsMini.ex_set x d b).
Proof. exact ExtsBridge.exts_models_agree_unary. Qed.
Theorem C12_exts_models_agree_binary : forall x y, x < 256 -> y < 256 ->
  ExtsMini.ex_merge x y = e_merge x y /\ ExtsMini.ex_add x y = e_add x y.
Proof. exact ExtsBridge.exts_models_agree_binary. Qed.
Theorem C12_exts_models_agree_mk : forall b, b < 4 ->
  e_mk_left b = Some (ExtsMini.ex_mk_left b) /\ e_mk_right b = Some (ExtsMini.ex_mk_right b).
Proof. exact ExtsBridge.exts_models_agree_mk. Qed.
Print Assumptions C12_exts_models_agree_unary.
Print Assumptions C12_exts_models_agree_binary.
Print Assumptions C12_exts_models_agree_mk.
