(* C02 - Nodes are exactly the maximal unbranched paths.  Statements only. *)
From Coq Require Import NArith List Bool Arith.
From DBG Require Import Spec.Dna Spec.GraphIndex Spec.Unitig Packed.ExtsModel Algo.Compress Check.GraphCheck Proofs.CompressBasics.
Import ListNotations.
Local Open Scope nat_scope.

Theorem C02_mlink_irrefl : forall D join stranded (T : table D) i d j d',
  mlink D join stranded T i d = Some (j, d') -> i <> j.
Proof. exact mlink_irrefl. Qed.
Print Assumptions C02_mlink_irrefl.
